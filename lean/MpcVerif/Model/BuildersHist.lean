/-
Builder HISTORIES on one `circuits.Compiler` (property C07).

The compiler creates ONE `circuits.Compiler` per program and calls many
builders on it (`ssa.Program.Circuit`); property C07 is about the builders as
they are used there.  A history is a list of builder calls run one after the
other in the builder monad `BM` of Model/Builders.lean, i.e. on ONE builder
state `St` (gate list and cached constant wires): call `k` sees the state all
the earlier calls left behind.

The operands of a call are slices of the buses known so far: first the
circuit's input buses, then the result bus of every earlier call (the
concatenation of the result buses for builders with two results).  After the
last call every result bus is passed through `ret` (ID gates) in call order,
exactly as harness/cmd/c07/hist.go does with the real builders; the gate list
is compared literally (correspondence T4, op `hgr`).

Core Lean only.
-/
import MpcVerif.Model.Builders

namespace Mpc.Bld
open Mpc

/-- One builder call of a history: from the buses known so far (the input
buses, then the results of the earlier calls) to its result bus. -/
abbrev Call := List (List Nat) → BM (List Nat)

/-- Run the calls in order on one state; returns all buses (the given ones
followed by one result bus per call). -/
def runHist : List Call → List (List Nat) → BM (List (List Nat))
  | [], acc => pure acc
  | c :: cs, acc => do
    let z ← c acc
    runHist cs (acc ++ [z])

/-- Input buses of widths `ws`, laid out consecutively from wire `ofs`. -/
def inputBuses : Nat → List Nat → List (List Nat)
  | _, [] => []
  | ofs, n :: ns => inputWires ofs n :: inputBuses (ofs + n) ns

/-- Operand `b<k>.<lo>.<len>`: wires `[lo, lo+len)` of bus `k`. -/
def pick (acc : List (List Nat)) (k lo len : Nat) : List Nat := ((acc.getD k []).drop lo).take len

/-- `ret` of several buses, in order. -/
def retBuses : List (List Nat) → BM (List (List Nat))
  | [] => pure []
  | b :: bs => do
    let o ← retWires b
    let r ← retBuses bs
    pure (o :: r)

/-- What the harness builds for a history: input buses of widths `ws`,
optional constant-wire prologue, the calls in order on ONE state, `ret` of
every call's result.  Returns the final state and the output wires per call. -/
def runHistory (pro : Bool) (ws : List Nat) (calls : List Call) : St × List (List Nat) :=
  let s0 := initSt ws.sum pro
  let r := runHist calls (inputBuses 0 ws) s0
  let o := retBuses (r.1.drop ws.length) r.2
  (o.2, o.1)

/-- Output values of every call of a history on the input bus values `ins`. -/
def evalHistory (pro : Bool) (ins : List (List Bool)) (calls : List Call) : List (List Bool) :=
  let r := runHistory pro (ins.map List.length) calls
  r.2.map (fun b => b.map (r.1.val ins.flatten))

/-- The Goldschmidt divider with an explicit quotient estimator (equal operand
widths): `goldschmidt = dividerWith goldEstimate` there
(`goldschmidt_eq_dividerWith`). -/
def dividerWith (est : List Nat → List Nat → BM (List Nat)) (a b : List Nat) (nq nr : Nat) :
    BM (List Nat × List Nat) := do
  let q ← est a b
  goldCorrection a b q nq nr

end Mpc.Bld

/-
Malicious-mode IKNP (KOS-style consistency check): model of
`IKNPReceiver.Receive(b, result, true)` and `IKNPSender.Send(n, true)` of
/repo/ot/iknp.go on top of the byte-level IKNP model (Model/Iknp.lean:
`receive`, `send`, `bcvOf`) and the carry-less product (Model/Clmul.lean).
Core Lean only.

The challenge stream `chiPrg = newPrg(seed2)` is an ARBITRARY function
`X : seed → index → Label` (label number `index` of the AES-CTR key stream of
`seed`, 16 bytes each, as read by `prgLabels`); the number of labels read so
far is explicit state (`pos`).  The driver instantiates `X` with Lean AES-CTR.

Messages: the receiver's `SendData` payloads are `List Bytes` (as in
Model/Iknp.lean), its `SendLabel` values are the four labels
`seed2, x, t0, t1` in this order.
-/
import MpcVerif.Model.Iknp
import MpcVerif.Model.Clmul
namespace Mpc.Kos
open Mpc.Iknp Mpc.Clmul

/-- `select1 = Label{D0: 0xffffffffffffffff, D1: 0xffffffffffffffff}`. -/
def select1 : Label := BitVec.allOnes 128
/-- `select0`: the zero label. -/
def select0 : Label := 0#128

/-- `prgLabels(chiPrg, chi[:cnt])` when `pos` labels were read from the stream before. -/
def chiAt (X : Nat → Label) (pos cnt : Nat) : Array Label := mk cnt fun j => X (pos + j)

/-- `for j := 0; j < cnt; j++ { if bit(j) { chi[j].And(select1) } else { chi[j].And(select0) }; x.Xor(chi[j]) }`:
the value XORed into `x`. -/
def selXor (chi : Array Label) (bit : Nat → Bool) (cnt : Nat) : Label :=
  lsum cnt fun j => if bit j then lget chi j &&& select1 else lget chi j &&& select0

/-- State of the accumulation loops: `(t0,t1)` resp. `(q0,q1)`, `x`, and the
number of labels read from the challenge stream. -/
structure Acc where
  t : P := pzero
  x : Label := 0#128
  pos : Nat := 0

/-- The block loop `for i := 0; i < len; i += len(chi)` with `len(chi) = 1024`
of both parties (`len = len(b)` in `Receive`, `len(result)` in `Send`):
`count := min(1024, len-i)`, `prgLabels(chiPrg, chi[:count])`,
`vectorInnPrdtSumNoRed(chi[:count], v[i:])` XORed into `t`, and (receiver
only; the sender's loop has no such part and ignores `x`) the selected
challenges XORed into `x`. -/
def chkLoop (X : Nat → Label) (bit : Nat → Bool) (v : Array Label) (len : Nat) : Nat → Nat → Acc → Acc
  | 0, _, acc => acc
  | fuel + 1, i, acc =>
    if i < len then
      let count := min 1024 (len - i)
      let chi := chiAt X acc.pos count
      let r := innerNoRed chi (v.extract i v.size)
      let xs := selXor chi (fun j => bit (i + j)) count
      chkLoop X bit v len fuel (i + 1024) { t := pxor acc.t r, x := acc.x ^^^ xs, pos := acc.pos + count }
    else acc

/-- The part after the block loop (both parties): `prgLabels(chiPrg,
chi[:len(choiceVector)])`, inner product with the check batch, and (receiver)
the selected challenges. -/
def chkTail (X : Nat → Label) (bit : Nat → Bool) (cv : Array Label) (acc : Acc) : Acc :=
  let chi := chiAt X acc.pos cv.size
  { t := pxor acc.t (innerNoRed chi cv),
    x := acc.x ^^^ selXor chi bit cv.size,
    pos := acc.pos + cv.size }

/-- What `Receive(b, result, true)` produces. -/
structure RecvOut where
  st : RecvSt
  /-- `result` -/
  labels : List Label
  /-- the check batch `choiceVector` (not returned by the Go function) -/
  cv : List Label
  /-- `SendData` payloads: payload batch chunks, then check batch chunks -/
  msgs : List Bytes
  seed : Label
  x : Label
  t0 : Label
  t1 : Label

/-- The `SendLabel` values in order. -/
def RecvOut.resp (r : RecvOut) : List Label := [r.seed, r.x, r.t0, r.t1]

/-- `IKNPReceiver.Receive(b, result, true)`; `b0 b1 seed2` are the three labels
drawn from `r.rand` (random choice vector halves, challenge seed). -/
def receiveKos (X : Label → Nat → Label) (R0 R1 : Nat → Nat → Byte) (st : RecvSt) (b : Array Bool)
    (b0 b1 seed2 : Label) : RecvOut :=
  let r1 := receive R0 R1 st b
  let bcv := bcvOf b0 b1
  let r2 := receive R0 R1 r1.1 bcv
  let result := r1.2.1.toArray
  let cv := r2.2.1.toArray
  let a1 := chkLoop (X seed2) (fun i => b.getD i false) result b.size (b.size + 1) 0 {}
  let a2 := chkTail (X seed2) (fun j => bcv.getD j false) cv a1
  { st := r2.1, labels := r1.2.1, cv := r2.2.1, msgs := r1.2.2 ++ r2.2.2,
    seed := seed2, x := a2.x, t0 := a2.t.1, t1 := a2.t.2 }

/-- What `Send(n, true)` returns when it does not fail, plus the unread messages. -/
structure SendOut where
  st : SendSt
  labels : List Label
  restData : List Bytes
  restLabels : List Label

/-- `IKNPSender.Send(n, true)` on the incoming `ReceiveData` payloads `msgs`
and `ReceiveLabel` values `lbls`.  `none`: an error return — of `send` (see
`Iknp.sendLoop`), a missing label, or "OT extension check failed". -/
def sendKos (X : Label → Nat → Label) (SS : Nat → Nat → Byte) (delta : Label) (st : SendSt) (n : Nat)
    (msgs : List Bytes) (lbls : List Label) : Option SendOut :=
  match send SS delta st n msgs with
  | none => none
  | some r1 =>
    match send SS delta r1.1 256 r1.2.2 with
    | none => none
    | some r2 =>
      match lbls with
      | seed2 :: x :: t0 :: t1 :: more =>
        let result := r1.2.1.toArray
        let cv := r2.2.1.toArray
        let a1 := chkLoop (X seed2) (fun _ => false) result result.size (result.size + 1) 0 {}
        let a2 := chkTail (X seed2) (fun _ => false) cv a1
        let q := pxor a2.t (mul128 x delta)
        if q.1 = t0 ∧ q.2 = t1 then
          some { st := r2.1, labels := r1.2.1, restData := r2.2.2, restLabels := more }
        else none
      | _ => none

/-! ### Alterations in transit -/

/-- The transmitted chunks with the error masks `E` XORed in (`E` has the
shape of `msgs`: same number of chunks, same sizes). -/
def xorMsgs (msgs E : List Bytes) : List Bytes := List.zipWith xorBytes msgs E

/-- `E` has the shape of `msgs`. -/
def Shape : List Bytes → List Bytes → Prop
  | [], [] => True
  | u :: us, e :: es => e.size = u.size ∧ Shape us es
  | _, _ => False

/-- Rows (as labels, bit `j` = column `j`) of a transmitted matrix given as
the chunks of a batch of `n` rows: the transpose `createLabels` applies, chunk
by chunk as `send` consumes them (rows of the last byte-row beyond `n` are not
part of the matrix). -/
def rowsLoop (n : Nat) : Nat → Nat → List Bytes → List Label
  | 0, _, _ => []
  | fuel + 1, ofs, msgs =>
    if ofs < n then
      match msgs with
      | [] => []
      | e :: more =>
        let byteRows := e.size / K
        createLabels (n - ofs) e byteRows ++ rowsLoop n fuel (ofs + byteRows * 8) more
    else []

def rowsOf (n : Nat) (E : List Bytes) : List Label := rowsLoop n (n + 1) 0 E

/-- Row `r` of the error matrix of a whole malicious-mode call: rows `< n`
from the payload batch, rows `n .. n+255` from the check batch. -/
def errRow (n : Nat) (E1 E2 : List Bytes) (r : Nat) : Label :=
  if r < n then (rowsOf n E1).getD r 0#128 else (rowsOf 256 E2).getD (r - n) 0#128

/-- The left-hand side of the acceptance condition:
`Σ_r χ_r·(E_r & Δ) ⊕ (x ⊕ x')·Δ ⊕ (t ⊕ t')` as a 256-bit value. -/
def residual (chi : Nat → Label) (delta : Label) (n : Nat) (E1 E2 : List Bytes) (x x' : Label) (t t' : P) : P :=
  pxor (pxor (psum (n + 256) fun r => mul128 (chi r) (errRow n E1 E2 r &&& delta)) (mul128 (x ^^^ x') delta))
    (pxor t t')

end Mpc.Kos

/-
Transition-system model of the peer-to-peer mesh setup of package p2p:
`Create`, `Join`, `Network.Connect`, `connectLeader`, `connectPeer`,
`connectPeerToLeader`, `dial`, `accept`/`acceptLoop`/`acceptConn`, `addPeer`
(p2p/network.go) and `Peer.SetConn` (p2p/peer.go).

Global state = per party: where its `Connect` goroutine stands (`phase`), the
counters `need[connID]`, the peer list `Peers` (ids, sorted), `NumParties`,
the table `Peers[q].Conns[k]`, whether its accept goroutine runs and what that
goroutine holds between `need[connID]--` and the store of the accepted
connection; plus the environment: per listener the set of connections whose
hello `(id, connID)` has been sent and that have not been accepted yet (TCP
accept order is arbitrary: any of them may be taken next), and the leader's
network-info message in flight to each peer.

One `step` is one atomic action.  `acceptConn` (after the repair b60eeb5) is
three critical sections of the single accept goroutine of a party: check
`need[connID] > 0` (`accTake`), store the connection with `SetConn`/`addPeer`
(`accStore`), then `need[connID]--; Broadcast` (`accDec`).  The events
`oldDec`/`oldStore` are the ordering BEFORE the repair (decrement and signal
first, store afterwards); they are not events of the code as it is and are
kept only to state what the repair removed (Props/C19.lean, `C19_old_order_*`).

Abstractions (sound for the setup phase; stated as assumptions of C19):
* addresses are the party ids (every party keeps one address, so the
  "address change" error of `addPeer` cannot occur);
* a dial (`net.Dial`, hello, `peer.SetConn`) is one step: the slot it writes
  belongs to the dialling `Connect` goroutine alone and nobody reads it before
  `Connect` returns;
* a connection becomes acceptable when its hello is sent; the accept goroutine
  blocking on a connection whose hello is still to come is not modelled
  (it only removes behaviours);
* the unlocked reads of `nw.Peers` in `connectLeader` are atomic snapshots.
Core Lean only.
-/
namespace Mpc.Mesh

/-- Configuration: parties `0 .. n-1` (0 = leader), `m` connections per pair. -/
structure Cfg where
  n : Nat
  m : Nat
deriving Repr, DecidableEq

/-- Identity of a TCP connection: dialled by `src` to the listener of `dst`
with `connID = k` in the low byte of the hello magic. -/
structure Conn where
  src : Nat
  dst : Nat
  k   : Nat
deriving Repr, DecidableEq

/-- Where a party's `Join` / `Connect` goroutine stands. -/
inductive Phase where
  /-- `Create` done (leader: listening) / `Join` not called yet (peer) -/
  | init
  /-- `Join` returned: listening, connection 0 to the leader stored -/
  | joined
  /-- `connectPeerToLeader`: hello sent, waiting for the network info -/
  | hello
  /-- inside `connect(k)`: still to dial `todo`, then wait for `need[k] = 0` -/
  | run (k : Nat) (todo : List Nat)
  /-- leader, `connectLeader(0)` after the wait: info still to send to `rest` -/
  | info (rest : List Nat)
  /-- `Connect` returned nil -/
  | done
deriving Repr, DecidableEq

/-- What the accept goroutine of a party holds between two critical sections
of `acceptConn`. -/
inductive Infl where
  | none
  /-- hello `(id, k)` read, `need[k] > 0` checked, connection not stored yet -/
  | taken (i k : Nat)
  /-- connection stored, `need[k]--` still to come -/
  | stored (i k : Nat)
deriving Repr, DecidableEq

def upd {α : Type} (f : Nat → α) (a : Nat) (v : α) : Nat → α :=
  fun x => if x = a then v else f x

def upd2 {α : Type} (f : Nat → Nat → α) (a b : Nat) (v : α) : Nat → Nat → α :=
  fun x y => if x = a ∧ y = b then v else f x y

def upd3 {α : Type} (f : Nat → Nat → Nat → α) (a b c : Nat) (v : α) : Nat → Nat → Nat → α :=
  fun x y z => if x = a ∧ y = b ∧ z = c then v else f x y z

structure State where
  phase : Nat → Phase
  /-- `Network.need` of party p -/
  need  : Nat → Nat → Nat
  /-- ids of `Network.Peers` of party p (sorted by id) -/
  known : Nat → List Nat
  /-- `Network.NumParties` of party p -/
  np    : Nat → Nat
  /-- `conn p q k` = `Peers[q].Conns[k]` at party p -/
  conn  : Nat → Nat → Nat → Option Conn
  /-- accept goroutine of p running -/
  acc   : Nat → Bool
  /-- where the accept goroutine of p stands inside `acceptConn` -/
  infl  : Nat → Infl
  /-- `pend j i k`: hello `(i, k)` sent to listener j, not yet accepted -/
  pend  : Nat → Nat → Nat → Bool
  /-- network info (peer ids) sent by the leader, not yet read by p -/
  mail  : Nat → Option (List Nat)
  /-- some party took an error path (SetConn on an occupied slot, "too many
  connections", invalid peer / connection id, connection refused) -/
  bad   : Bool

/-- `Create(addr, n, m)` done at the leader, nobody else started. -/
def init (c : Cfg) : State where
  phase := fun _ => .init
  need := fun _ _ => 0
  known := fun p => if p = 0 then [0] else []
  np := fun p => if p = 0 then c.n else 0
  conn := fun _ _ _ => none
  acc := fun _ => false
  infl := fun _ => .none
  pend := fun _ _ _ => false
  mail := fun _ => none
  bad := false

/-- `addPeer` of a new peer: append and `sort.Slice` by id (the list is kept
sorted, so this is a sorted insert; an id already present is not added). -/
def ins (a : Nat) : List Nat → List Nat
  | [] => [a]
  | b :: l => if a < b then a :: b :: l else if a = b then b :: l else b :: ins a l

/-- The peers party p dials for connection id k, in `Peers` order
(`connectPeer`: the leader only for `k > 0`, and every higher id). -/
def targets (s : State) (p k : Nat) : List Nat :=
  if p = 0 then [] else
    (s.known p).filter fun q => if q = 0 then decide (k ≠ 0) else decide (p < q)

/-- Phase at the start of `connect(k)` (`Connect`'s loop), or `done`. -/
def advance (c : Cfg) (s : State) (p k : Nat) : Phase :=
  if k < c.m then .run k (targets s p k) else .done

/-- Leader after the wait of `connectLeader(0)`: send info to `rest`, then go on. -/
def infoPhase (c : Cfg) (s : State) (rest : List Nat) : Phase :=
  match rest with
  | [] => advance c s 0 1
  | _ => .info rest

/-- The connection id as the acceptor decodes it from the hello word: the low
byte.  `dial` refuses ids above 0xff, so for every id that is dialled the
acceptor sees the id itself (`helloId_of_le`); this is where the bound
`m ≤ 256` of the theorems comes from. -/
def helloId (k : Nat) : Nat := k % 256

theorem helloId_of_le (k : Nat) (h : ¬ 0xff < k) : helloId k = k := by
  unfold helloId; omega

inductive Ev where
  /-- peer i: `Join` (listen, dial the leader, store `Conns[0]`) -/
  | join (i : Nat)
  /-- leader: `Connect` sets `need[k] = n-1` and starts the accept goroutine -/
  | lconnect
  /-- peer i: `connectPeerToLeader` sends magic, id, address on connection 0 -/
  | hello (i : Nat)
  /-- accept goroutine of j: `Accept`, read the hello `(i, k)`, check `need[k] > 0` -/
  | accTake (j i k : Nat)
  /-- accept goroutine of j: `peer.SetConn(k, conn); nw.addPeer(peer)` -/
  | accStore (j : Nat)
  /-- accept goroutine of j: `need[k]--; Broadcast` -/
  | accDec (j : Nat)
  /-- party p: the wait loop `for nw.need[k] > 0` ends -/
  | waitDone (p : Nat)
  /-- leader: sends the network info to the next peer -/
  | info
  /-- peer i: reads the network info, sets `need`, starts its accept goroutine -/
  | recvInfo (i : Nat)
  /-- party i: `dial` of the next peer of `connect(k)` -/
  | dial (i : Nat)
  /-- ordering before the repair: `need[k]--; Broadcast` directly after the check -/
  | oldDec (j i k : Nat)
  /-- ordering before the repair: the store after the signal -/
  | oldStore (j : Nat)
deriving Repr, DecidableEq

/-- `Accept` + hello + the check of `need[k]`; `dec`: also decrement (old ordering). -/
def stepAccTake (c : Cfg) (s : State) (j i k : Nat) (dec : Bool) : Option State :=
  if s.acc j = true ∧ s.infl j = .none ∧ s.pend j i k = true then
    if k < c.m ∧ 0 < s.need j k then
      some { s with pend := upd3 s.pend j i k false,
                    need := if dec then upd2 s.need j k (s.need j k - 1) else s.need,
                    infl := upd s.infl j (.taken i k) }
    else
      -- "invalid connection ID" / "too many connections": accept loop ends
      some { s with pend := upd3 s.pend j i k false, acc := upd s.acc j false, bad := true }
  else none

/-- `peer.SetConn(k, conn); nw.addPeer(peer)` for the connection the accept
goroutine of j holds; afterwards the goroutine is in state `next`. -/
def stepAccStore (s : State) (j : Nat) (next : Nat → Nat → Infl) : Option State :=
  match s.infl j with
  | .taken i k =>
    if s.np j ≤ i then
      -- addPeer: "invalid peer ID"
      some { s with infl := upd s.infl j .none, acc := upd s.acc j false, bad := true }
    else if i ∈ s.known j then
      match s.conn j i k with
      | none => some { s with infl := upd s.infl j (next i k), conn := upd3 s.conn j i k (some ⟨i, j, k⟩) }
      | some _ =>
        -- SetConn: "connection already set"
        some { s with infl := upd s.infl j .none, acc := upd s.acc j false, bad := true }
    else
      -- a new Peer struct holding only this connection
      some { s with infl := upd s.infl j (next i k),
                    known := upd s.known j (ins i (s.known j)),
                    conn := fun p q k' =>
                      if p = j ∧ q = i then (if k' = k then some ⟨i, j, k⟩ else none) else s.conn p q k' }
  | _ => none

/-- `need[k]--; Broadcast`. -/
def stepAccDec (s : State) (j : Nat) : Option State :=
  match s.infl j with
  | .stored _ k =>
    if 0 < s.need j k then
      some { s with need := upd2 s.need j k (s.need j k - 1), infl := upd s.infl j .none }
    else
      -- the counter would go negative
      some { s with infl := upd s.infl j .none, bad := true }
  | _ => none

def step (c : Cfg) (s : State) : Ev → Option State
  | .join i =>
    match s.phase i with
    | .init =>
      if 0 < i ∧ i < c.n then
        some { s with phase := upd s.phase i .joined,
                      known := upd s.known i [0, i],
                      np := upd s.np i (i + 1),
                      conn := upd3 s.conn i 0 0 (some ⟨i, 0, 0⟩) }
      else none
    | _ => none
  | .lconnect =>
    match s.phase 0 with
    | .init =>
      some { s with phase := upd s.phase 0 (.run 0 []),
                    need := upd s.need 0 (fun k => if k < c.m then c.n - 1 else 0),
                    acc := upd s.acc 0 true }
    | _ => none
  | .hello i =>
    match s.phase i with
    | .joined => some { s with phase := upd s.phase i .hello, pend := upd3 s.pend 0 i 0 true }
    | _ => none
  | .accTake j i k => stepAccTake c s j i k false
  | .accStore j => stepAccStore s j .stored
  | .accDec j => stepAccDec s j
  | .oldDec j i k => stepAccTake c s j i k true
  | .oldStore j => stepAccStore s j (fun _ _ => .none)
  | .waitDone p =>
    match s.phase p with
    | .run k [] =>
      if s.need p k = 0 then
        if p = 0 ∧ k = 0 then
          some { s with phase := upd s.phase 0 (infoPhase c s ((s.known 0).filter (· ≠ 0))) }
        else
          some { s with phase := upd s.phase p (advance c s p (k + 1)) }
      else none
    | _ => none
  | .info =>
    match s.phase 0 with
    | .info (j :: rest) =>
      some { s with mail := upd s.mail j (some ((s.known 0).filter fun q => q ≠ 0 ∧ q ≠ j)),
                    phase := upd s.phase 0 (infoPhase c s rest) }
    | _ => none
  | .recvInfo i =>
    match s.phase i, s.mail i with
    | .hello, some l =>
      if l.any (fun q => 2 + l.length ≤ q) then
        -- addPeer: "invalid peer ID"
        some { s with mail := upd s.mail i none, bad := true }
      else
        let s1 : State :=
          { s with mail := upd s.mail i none,
                   np := upd s.np i (2 + l.length),
                   known := upd s.known i (l.foldl (fun kn q => ins q kn) (s.known i)),
                   need := upd s.need i (fun k => if k < c.m then (l.filter (· < i)).length else 0),
                   acc := upd s.acc i true }
        some { s1 with phase := upd s1.phase i (advance c s1 i 0) }
    | _, _ => none
  | .dial i =>
    match s.phase i with
    | .run k (j :: rest) =>
      if 0xff < k then
        -- "invalid connection ID"
        some { s with bad := true }
      else if j ≠ 0 ∧ s.phase j = .init then
        -- connection refused
        some { s with bad := true }
      else
        -- the hello carries the connection id in ONE byte (`connMagic | (connID & 0xff)`,
        -- decoded by `int(byte(magic))`): the acceptor sees `helloId k`, the dialler
        -- stores under `k`
        match s.conn i j k with
        | some _ =>
          -- hello sent, then SetConn: "connection already set"
          some { s with pend := upd3 s.pend j i (helloId k) true, bad := true }
        | none =>
          some { s with pend := upd3 s.pend j i (helloId k) true,
                        conn := upd3 s.conn i j k (some ⟨i, j, k⟩),
                        phase := upd s.phase i (.run k rest) }
    | _ => none

/-- Events of the code as it is. -/
def Ev.real : Ev → Bool
  | .oldDec .. => false
  | .oldStore .. => false
  | _ => true

/-- Events of the code before the repair (decrement and signal before the store). -/
def Ev.old : Ev → Bool
  | .accTake .. => false
  | .accStore .. => false
  | .accDec .. => false
  | _ => true

/-- Run a list of events. -/
def run (c : Cfg) (s : State) : List Ev → Option State
  | [] => some s
  | e :: es => (step c s e).bind fun s' => run c s' es

/-- Every party's `Connect` has returned nil. -/
def allDone (c : Cfg) (s : State) : Bool :=
  (List.range c.n).all fun p => s.phase p == .done

/-- The canonical connection between p and q with id k: peers dial the
leader, lower ids dial higher ids. -/
def wire (p q k : Nat) : Conn :=
  if q = 0 then ⟨p, 0, k⟩ else if p = 0 then ⟨q, 0, k⟩ else if p < q then ⟨p, q, k⟩ else ⟨q, p, k⟩

/-- Party p's table is exactly: for every other party q < n and k < m the
canonical connection, nothing else. -/
def tableComplete (c : Cfg) (s : State) (p : Nat) : Bool :=
  (List.range c.n).all fun q => (List.range c.m).all fun k =>
    s.conn p q k == (if q = p then none else some (wire p q k))

/-- Nothing in flight anywhere. -/
def quiet (c : Cfg) (s : State) : Bool :=
  (List.range c.n).all fun j =>
    s.infl j == .none && s.mail j == none &&
    (List.range c.n).all fun i => (List.range c.m).all fun k => s.pend j i k == false

/-- All candidate events of a configuration (for enabledness search). -/
def candidates (c : Cfg) : List Ev :=
  let ps := List.range c.n
  let ks := List.range c.m
  [Ev.lconnect, Ev.info] ++ ps.map .join ++ ps.map .hello ++ ps.map .accStore ++ ps.map .accDec ++
    ps.map .oldStore ++ ps.map .waitDone ++ ps.map .recvInfo ++ ps.map .dial ++
    ps.flatMap (fun j => ps.flatMap fun i => ks.map fun k => Ev.accTake j i k) ++
    ps.flatMap (fun j => ps.flatMap fun i => ks.map fun k => Ev.oldDec j i k)

def enabled (c : Cfg) (s : State) (f : Ev → Bool) : List Ev :=
  (candidates c).filter fun e => f e && (step c s e).isSome

end Mpc.Mesh

/-
OPERAND SHAPES of the circuit builders (property C07).

`ssa.Program.Circuit` never hands a builder only fresh value wires.  Every
constant operand is wired from the Compiler's constant wires (`cc.ZeroWire()`,
`cc.OneWire()`), every cast to a wider type, shift, slice and short constant
is padded with `cc.ZeroWire()`, a sign extension repeats the top wire of the
value, and `x op x` passes one bus twice.  An operand bus of a builder call is
therefore a CONCATENATION OF PIECES (least significant wire first):

* `bus k lo len` – wires `[lo, lo+len)` of a known bus (circuit input or
                   result of an earlier call of the history; the same wire may
                   occur in several pieces and in both operands),
* `zeros n`      – `n` copies of `cc.ZeroWire()`,
* `ones n`       – `n` copies of `cc.OneWire()`.

The constant wires are lazily created by the Compiler (`Compiler.ZeroWire`,
compiler.go): making the operand may emit gates.  `mkOperand` requests them
piece by piece in order, exactly as harness/cmd/c07/hist.go (`BuildHist`,
closure `operand`) does with the real `circuits.Compiler`, the operands of one
call in the order x, y, w immediately before the builder runs; the gate list of
the whole history is compared literally (correspondence T4, op `hgr`).

Core Lean only.
-/
import MpcVerif.Model.BuildersHist

namespace Mpc.Bld
open Mpc

/-- One piece of an operand bus. -/
inductive Piece where
  | bus (k lo len : Nat)
  | zeros (n : Nat)
  | ones (n : Nat)
  deriving Repr, DecidableEq, Inhabited

/-- The wires of one piece; the constant wires are requested from the state
(and created when they do not exist yet) only for non-empty constant pieces. -/
def mkPiece (acc : List (List Nat)) : Piece → BM (List Nat)
  | .bus k lo len => pure (pick acc k lo len)
  | .zeros n => zeros n
  | .ones n => if n = 0 then pure [] else do
      let o ← oneWire
      pure (List.replicate n o)

/-- An operand bus: its pieces in order, least significant first. -/
def mkOperand (acc : List (List Nat)) : List Piece → BM (List Nat)
  | [] => pure []
  | p :: ps => do
    let a ← mkPiece acc p
    let r ← mkOperand acc ps
    pure (a ++ r)

/-- Value of a piece / an operand on the values `v` of the known buses. -/
def pieceVal (v : List (List Bool)) : Piece → List Bool
  | .bus k lo len => ((v.getD k []).drop lo).take len
  | .zeros n => List.replicate n false
  | .ones n => List.replicate n true

def opndVal (v : List (List Bool)) : List Piece → List Bool
  | [] => []
  | p :: ps => pieceVal v p ++ opndVal v ps

/-- A two-operand builder applied to SHAPED operands: the operands are made
(x first, then y), then the builder runs. -/
def shapedCall2 (b : List Nat → List Nat → BM (List Nat)) (px py : List Piece) : Call := fun acc => do
  let x ← mkOperand acc px
  let y ← mkOperand acc py
  b x y

/-- The same with a third operand (multiplexer condition): x, y, w. -/
def shapedCall3 (b : List Nat → List Nat → List Nat → BM (List Nat)) (px py pw : List Piece) : Call := fun acc => do
  let x ← mkOperand acc px
  let y ← mkOperand acc py
  let w ← mkOperand acc pw
  b x y w

/-- The `n`-bit constant `c` as pieces (one piece per bit), as
`ssa.Program.Circuit` wires a constant operand. -/
def constPieces : Nat → Nat → List Piece
  | 0, _ => []
  | n + 1, c => (if c % 2 = 1 then Piece.ones 1 else Piece.zeros 1) :: constPieces n (c / 2)

/-- Zero extension of `len` wires of bus `k` to `n` wires (`Mov` to a wider
unsigned type, `Compiler.ZeroPad`, logical right shift, slice). -/
def zextPieces (k len n : Nat) : List Piece := [Piece.bus k 0 len, Piece.zeros (n - len)]

end Mpc.Bld

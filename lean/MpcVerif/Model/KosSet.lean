/-
Malicious-mode IKNP (Model/Kos.lean): alterations given as a SET of matrix
positions, and the challenge coefficients `chi_r` as a vector to be examined.
Core Lean only.

The acceptance condition of the consistency check (`Kos.residual`) is linear
in the error matrix.  For an alteration that flips the matrix bits at the
positions `P = [(r, i), ...]` (global row `r`: payload rows `0 .. n-1`, check
rows `n .. n+255`; column `i < 128`) it is

    XOR over the (r, i) in P with r < n + 256 and Delta.Bit(i) = 1 of  chi_r * X^i   =   0

(`posSum`).  Whether a multi-position alteration can pass therefore depends on
GF(2)[X]-linear relations among the coefficients: equal coefficients of two
rows (`chi_r = chi_r'`) let every two-position alteration of one column at
those rows pass, a set of rows whose coefficients XOR to zero (`rowXor`) lets
the alteration of one column at all of them pass.  `distinctNZ` is the
executable statement "the coefficients of the rows `< N` are non-zero and
pairwise distinct", evaluated by the driver for the coefficients of every
session.
-/
import MpcVerif.Model.Kos
namespace Mpc.Kos
open Mpc.Iknp Mpc.Clmul

/-- The label with only Go bit `j` set (`Label.SetBit(j, 1)` on the zero
label): the monomial `X^j` as an operand of `mul128`. -/
def bitLabel (j : Nat) : Label := 1#128 <<< labelPos j

/-- An altered matrix position: (global row, column). -/
abbrev Pos := Nat × Nat

/-- Row `r` of the error matrix that flips exactly the positions of `ps` (a
position listed twice is flipped twice). -/
def posRow (ps : List Pos) (r : Nat) : Label :=
  ps.foldr (fun p acc => if p.1 = r then acc ^^^ bitLabel p.2 else acc) 0#128

/-- XOR of `chi_r * X^i` (unreduced) over the altered positions `(r, i)` of `ps`
inside the matrix (`r < N`) whose column `Delta` selects. -/
def posSum (chi : Nat → Label) (delta : Label) (N : Nat) (ps : List Pos) : P :=
  ps.foldr (fun p acc => if p.1 < N ∧ labelBit delta p.2 = true then pxor acc (mul128 (chi p.1) (bitLabel p.2)) else acc)
    pzero

/-- XOR of the coefficients of the rows of `S`. -/
def rowXor (chi : Nat → Label) (S : List Nat) : Label := S.foldr (fun r acc => acc ^^^ chi r) 0#128

/-- The positions "column `i` at every row of `S`". -/
def colAt (S : List Nat) (i : Nat) : List Pos := S.map fun r => (r, i)

/-- The coefficients of the rows `< N` are non-zero and pairwise distinct. -/
def distinctNZ (chi : Nat → Label) (N : Nat) : Bool :=
  (List.range N).all fun r => chi r != 0#128 && (List.range r).all fun r' => chi r' != chi r

/-- The choice bits of the rows `< n + 256` of a malicious-mode call (payload
choices, then the random choices of the check batch) as one function. -/
def choiceAt (b : Array Bool) (b0 b1 : Label) (r : Nat) : Bool :=
  if r < b.size then b.getD r false else (bcvOf b0 b1).getD (r - b.size) false

end Mpc.Kos

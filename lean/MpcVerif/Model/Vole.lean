/-
Vector-OLE multiplication: model of `vole/vole.go` (`Sender.Mul`,
`Receiver.Mul`, `bytes32`) and `vole/prg.go` (`prgExpandLabel`).

Field elements and the modulus are `Nat` (`*big.Int`, non-negative); messages
are byte lists (the payload of `conn.SendData`; the framing is the connection
layer, property C11).  The correlated OT underneath (`ot.IKNPSender.Send(m,
false)` / `ot.IKNPReceiver.Receive(flags, labels, false)`) enters `Sender.Mul`
only through the list of labels it returns, so it is a parameter here: any list
of labels (the receiver's labels are not used by `Receiver.Mul` at all).  That
IKNP returns `m` labels across extension chunk boundaries is property C06.
The PRG is a parameter `prg : BitVec 128 → Nat` in the theorems; the executed
instance is AES-128-CTR as in `prgExpandLabel`.  Core Lean only.
-/
import MpcVerif.Model.Proto2
import MpcVerif.Model.Aes

namespace Mpc.Vole

inductive VoleErr where
  /-- "ExpandSend returned %d wires, want %d" -/
  | labelCount (got want : Nat)
  /-- "expected %d bytes for y-vector/u-vector, got %d" -/
  | msgLen (got want : Nat)
  /-- `bytes32` of a value of more than 32 bytes: slice bounds panic -/
  | bytes32Panic
  /-- the two parties called `Mul` with vectors of different lengths (the
  caller's obligation; the real protocol desynchronises inside IKNP) -/
  | lengthMismatch
  deriving Repr, DecidableEq

/-- `bytes32(v)`: `out := make([]byte, 32); b := v.Bytes(); copy(out[32-len(b):], b)`.
`none` = the slice expression `out[32-len(b):]` panics (`len(b) > 32`). -/
def bytes32 (v : Nat) : Option (List UInt8) :=
  let b := natToBytesBE v
  if b.length ≤ 32 then some (List.replicate (32 - b.length) (0 : UInt8) ++ b) else none

/-- `for i { out = append(out, bytes32(v[i])...) }`. -/
def pack32 : List Nat → Option (List UInt8)
  | [] => some []
  | v :: vs =>
    match bytes32 v, pack32 vs with
    | some b, some r => some (b ++ r)
    | _, _ => none

/-- `for i < m { off := i*32; v[i] = new(big.Int).SetBytes(buf[off:off+32]); v[i].Mod(v[i], p) }`
(the same loop parses the y-vector in `Sender.Mul` and the u-vector in
`Receiver.Mul`). -/
def unpack32 (p : Nat) : Nat → List UInt8 → List Nat
  | 0, _ => []
  | m + 1, bs => bytesToNatBE (bs.take 32) % p :: unpack32 p m (bs.drop 32)

/-- `rs[i] = SetBytes(prgExpandLabel(labels[i])) mod p`. -/
def senderRs (prg : BitVec 128 → Nat) (labels : List (BitVec 128)) (p : Nat) : List Nat :=
  labels.map fun l => prg l % p

/-- `tmp = x_i*y_i mod p; u_i = (r_i + tmp) mod p`. -/
def senderUs (p : Nat) : List Nat → List Nat → List Nat → List Nat
  | r :: rs, x :: xs, y :: ys => (r + (x * y) % p) % p :: senderUs p rs xs ys
  | _, _, _ => []

/-- `Sender.Mul(inputs = xs, p)` given the labels IKNP returned and the
y-vector message received: returns (`rs`, the u-vector message sent). -/
def senderMul (prg : BitVec 128 → Nat) (labels : List (BitVec 128)) (xs : List Nat)
    (ymsg : List UInt8) (p : Nat) : Except VoleErr (List Nat × List UInt8) :=
  let m := xs.length
  if m = 0 then .ok ([], []) else
  if labels.length ≠ m then .error (.labelCount labels.length m) else
  let rs := senderRs prg labels p
  if ymsg.length ≠ m * 32 then .error (.msgLen ymsg.length (m * 32)) else
  let ys := unpack32 p m ymsg
  match pack32 (senderUs p rs xs ys) with
  | none => .error .bytes32Panic
  | some umsg => .ok (rs, umsg)

/-- `Receiver.Mul`, first half: the y-vector message. -/
def receiverY (ys : List Nat) : Except VoleErr (List UInt8) :=
  match pack32 ys with
  | none => .error .bytes32Panic
  | some m => .ok m

/-- `Receiver.Mul`, second half: parse the u-vector message. -/
def receiverUs (m : Nat) (umsg : List UInt8) (p : Nat) : Except VoleErr (List Nat) :=
  if umsg.length ≠ m * 32 then .error (.msgLen umsg.length (m * 32)) else .ok (unpack32 p m umsg)

structure Session where
  rs : List Nat
  us : List Nat
  ymsg : List UInt8
  umsg : List UInt8
  deriving Repr, DecidableEq

/-- One `Mul` on both sides.  `labels` is what `iknp.Send(m, false)` returned
to the sender. -/
def session (prg : BitVec 128 → Nat) (labels : List (BitVec 128)) (xs ys : List Nat) (p : Nat) :
    Except VoleErr Session :=
  if xs.length ≠ ys.length then .error .lengthMismatch else
  if ys.length = 0 then .ok ⟨[], [], [], []⟩ else
  match receiverY ys with
  | .error e => .error e
  | .ok ymsg =>
    match senderMul prg labels xs ymsg p with
    | .error e => .error e
    | .ok (rs, umsg) =>
      match receiverUs ys.length umsg p with
      | .error e => .error e
      | .ok us => .ok ⟨rs, us, ymsg, umsg⟩

/-! ### Several `Mul` calls on one Sender / Receiver pair

`vole.Sender` and `vole.Receiver` hold `oti`, `conn` and the IKNP endpoint;
neither `Mul` stores anything in them.  The only thing that changes between
calls is the position in the IKNP key streams (`ot.IKNPSender.g0`,
`ot.IKNPReceiver.g0/g1`: AES-CTR streams that every call reads further):
`IKNPReceiver.receive` consumes `byteRows = (rows+7)/8` bytes of every column
stream per chunk of `rows ≤ 512` rows, so a call of length `m` advances the
row position by `m` rounded up to a multiple of 8 (full chunks are multiples
of 8) and — the receiver's flags being all false — the sender's labels of
that call are rows `pos … pos+m-1` of the row stream `cot`.  The row stream
(a function of the base-OT keys) is a parameter. -/

/-- One `Mul` call: both parties' inputs and the modulus. -/
structure Call where
  xs : List Nat
  ys : List Nat
  p : Nat
  deriving Repr, DecidableEq

/-- Everything a Sender/Receiver pair carries from one `Mul` to the next. -/
structure St where
  pos : Nat
  deriving Repr, DecidableEq

/-- `m` rounded up to a multiple of 8 (`byteRows * 8`). -/
def roundUp8 (m : Nat) : Nat := (m + 7) / 8 * 8

/-- The labels `iknp.Send(m, false)` returns at row position `pos`. -/
def callLabels (cot : Nat → BitVec 128) (pos m : Nat) : List (BitVec 128) :=
  (List.range m).map fun i => cot (pos + i)

/-- One `Mul` on both sides in state `st`. -/
def mulStep (prg : BitVec 128 → Nat) (cot : Nat → BitVec 128) (st : St) (c : Call) :
    Except VoleErr (St × Session) :=
  match session prg (callLabels cot st.pos c.xs.length) c.xs c.ys c.p with
  | .error e => .error e
  | .ok s => .ok (⟨st.pos + roundUp8 c.xs.length⟩, s)

/-- A history of `Mul` calls on one pair; stops at the first failing call (the
connection is dead after an error). -/
def runCalls (prg : BitVec 128 → Nat) (cot : Nat → BitVec 128) : St → List Call →
    Except VoleErr (St × List Session)
  | st, [] => .ok (st, [])
  | st, c :: cs =>
    match mulStep prg cot st c with
    | .error e => .error e
    | .ok (st', s) =>
      match runCalls prg cot st' cs with
      | .error e => .error e
      | .ok (st'', ss) => .ok (st'', s :: ss)

/-! ### The executed PRG -/

/-- Big-endian value of a byte array (`big.Int.SetBytes`). -/
def natOfBytes (b : ByteArray) : Nat := b.toList.foldl (fun acc x => acc * 256 + x.toNat) 0

/-- `prgExpandLabel(key, &pad)` followed by `SetBytes(pad[:])`: 32 bytes of
AES-128-CTR key stream, zero IV, keyed by the 16 label bytes (`GetData`:
`D0` big-endian then `D1` big-endian). -/
def prgAes (l : BitVec 128) : Nat :=
  match Aes.Cipher.new (Aes.bytesOfNat128 l.toNat) with
  | none => 0
  | some c => natOfBytes (Aes.ctrStream c 0#128 32)

end Mpc.Vole

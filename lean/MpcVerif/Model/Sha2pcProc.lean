/-
One PROCESS serving several sha2pc sessions (property C18: "every session",
"a restart between any two rounds").  Core Lean only.

The Go round functions (sha2pc.GarblerRound1/3, EvaluatorRound2/4) are modelled
as pure functions of their arguments (Model/Sha2pcRounds.lean).  A process that
holds the messages and session states of several sessions at once is then a
table of per-session slots; a round step of session `i` reads slots of session
`i`, writes the slots that round produces, and touches nothing else.  Whether
the real code behaves like this (no value it returned is changed by a later
call, for whichever session) is what the `hist` correspondence decides: the
driver runs `Proc.run` below on the schedule the harness executed on the real
code and both print the whole process state after every step.

The model is generic in the value types and round functions (`Rounds`): the
theorems instantiate it with the sha2pc rounds (`SessCfg.rounds`), the driver
with the table of values each session produces when it runs alone.
-/
import MpcVerif.Model.Sha2pcRounds

namespace Mpc.Sha2pc

/-- The value types of a deployment: round-1 message, garbler session, round-2
message, evaluator session, round-3 message, result. -/
structure Ty where
  M1 : Type
  GS : Type
  M2 : Type
  ES : Type
  M3 : Type
  D : Type

/-- The four rounds of ONE session (inputs and randomness fixed) and the five
trips through bytes (`Decode* (Encode* v)`). -/
structure Rounds (T : Ty) where
  /-- `GarblerRound1` -/
  r1 : T.M1 × T.GS
  /-- `EvaluatorRound2` -/
  r2 : T.M1 → Res (T.M2 × T.ES)
  /-- `GarblerRound3` -/
  r3 : T.GS → T.M2 → Res T.M3
  /-- `EvaluatorRound4` -/
  r4 : T.ES → T.M3 → Res T.D
  t1 : T.M1 → Res T.M1
  tg : T.GS → Res T.GS
  t2 : T.M2 → Res T.M2
  te : T.ES → Res T.ES
  t3 : T.M3 → Res T.M3

/-- What the process holds for one session: every value a round returned so far. -/
structure Sess (T : Ty) where
  m1 : Option T.M1 := none
  gs : Option T.GS := none
  m2 : Option T.M2 := none
  es : Option T.ES := none
  m3 : Option T.M3 := none
  out : Option T.D := none

/-- A round step.  The flags say which inputs are consumed THROUGH BYTES
(encoded when the step runs, then decoded) instead of in memory. -/
inductive Act where
  | g1
  | e2 (m1B : Bool)
  | g3 (gsB m2B : Bool)
  | e4 (esB m3B : Bool)
  deriving Repr, DecidableEq

def Act.isE4 : Act → Bool
  | .e4 _ _ => true
  | _ => false

/-- consume `v` in memory or through bytes -/
def thru {α : Type} (t : α → Res α) (viaBytes : Bool) (v : α) : Res α :=
  if viaBytes then t v else .ok v

/-- One step of one session: `none` when an input of the round is not there
yet, otherwise the outcome of the round with the session's new slots. -/
def Sess.stepRes {T : Ty} (R : Rounds T) (s : Sess T) : Act → Option (Res (Sess T))
  | .g1 => some (.ok { s with m1 := some R.r1.1, gs := some R.r1.2 })
  | .e2 x =>
    match s.m1 with
    | none => none
    | some m1 => some (do
        let m ← thru R.t1 x m1
        let r ← R.r2 m
        pure { s with m2 := some r.1, es := some r.2 })
  | .g3 x y =>
    match s.gs, s.m2 with
    | some gs, some m2 => some (do
        let g ← thru R.tg x gs
        let m ← thru R.t2 y m2
        let m3 ← R.r3 g m
        pure { s with m3 := some m3 })
    | _, _ => none
  | .e4 x y =>
    match s.es, s.m3 with
    | some es, some m3 => some (do
        let e ← thru R.te x es
        let m ← thru R.t3 y m3
        let d ← R.r4 e m
        pure { s with out := some d })
    | _, _ => none

/-- A failed or disabled step leaves the session as it was. -/
def Sess.step {T : Ty} (R : Rounds T) (s : Sess T) (a : Act) : Sess T :=
  match s.stepRes R a with
  | some (.ok s') => s'
  | _ => s

def Sess.run {T : Ty} (R : Rounds T) (s : Sess T) (acts : List Act) : Sess T :=
  acts.foldl (Sess.step R) s

/-! ### the process -/

/-- the sessions' round functions, by session index -/
abbrev Cfg (T : Ty) := Nat → Rounds T
/-- the process state: the slots of every session -/
abbrev Proc (T : Ty) := Nat → Sess T

/-- One event of a history: session `e.1` runs step `e.2`. -/
def Proc.step {T : Ty} (cfg : Cfg T) (st : Proc T) (e : Nat × Act) : Proc T :=
  fun j => if j = e.1 then (st j).step (cfg j) e.2 else st j

/-- A history: the events in the order the process executes them. -/
def Proc.run {T : Ty} (cfg : Cfg T) (st : Proc T) (sched : List (Nat × Act)) : Proc T :=
  sched.foldl (Proc.step cfg) st

/-- the steps of session `j` in a history, in order -/
def proj (j : Nat) (sched : List (Nat × Act)) : List Act :=
  (sched.filter fun e => e.1 == j).map (·.2)

/-! ### the sha2pc instance -/

abbrev sha2pcTy : Ty :=
  { M1 := Round1, GS := GarblerSession, M2 := Round2, ES := EvaluatorSession, M3 := Round3, D := Bytes }

/-- Everything that is fixed for one session: the deployment (curve, group,
circuit), both inputs and all randomness. -/
structure SessCfg where
  G : Type
  P : Params G
  a : Bytes
  b : Bytes
  aS : Nat
  sid : Nat
  scalars : List Nat
  key : Bytes
  r0 : Label
  inl : Nat → Label

/-- The session's rounds; the trips through bytes are the real codecs. -/
def SessCfg.rounds (c : SessCfg) : Rounds sha2pcTy where
  r1 := round1 c.P c.aS c.sid
  r2 := fun m => round2 c.P m c.b c.scalars
  r3 := fun g m => round3 c.P g c.a m c.key c.r0 c.inl
  r4 := fun e m => round4 c.P e m
  t1 := fun m => encodeRound1 c.P.curve m >>= decodeRound1 c.P.curve
  tg := fun s => encodeGarblerSession c.P.curve s >>= decodeGarblerSession c.P.curve
  t2 := fun m => encodeRound2 c.P.curve m >>= decodeRound2 c.P.curve
  te := fun s => encodeEvaluatorSession c.P.curve s >>= decodeEvaluatorSession c.P.curve
  t3 := fun m => encodeRound3 (countsOf c.P.circ) m >>= decodeRound3 (countsOf c.P.circ)

end Mpc.Sha2pc

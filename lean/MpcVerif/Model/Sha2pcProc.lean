/-
One PROCESS serving several sha2pc sessions (property C18: "every session",
"a restart between any two rounds").  Core Lean only.

The Go round functions (sha2pc.GarblerRound1/3, EvaluatorRound2/4) are modelled
as pure functions of their arguments (Model/Sha2pcRounds.lean).  A process that
holds the messages and session states of several sessions at once is then a
table of per-session slots; a round step of session `i` reads slots of session
`i`, writes the slots that round produces, and touches nothing else.  Whether
the real code behaves like this (no value it returned is changed by a later
call, for whichever session) is what the `hist` correspondence decides: the
driver runs `Proc.runD` below on the schedule the harness executed on the real
code and both print the status of every step and the whole process state after
it.  Histories contain FAILING steps (section "failing steps": the random
source of a round fails, a message arrives mutated, the message of another
session is fed to the round): a step that does not succeed changes nothing.

The model is generic in the value types and round functions (`Rounds`): the
theorems instantiate it with the sha2pc rounds (`SessCfg.rounds`), the driver
with the table of values each session produces when it runs alone.
-/
import MpcVerif.Model.Sha2pcRounds

namespace Mpc.Sha2pc

/-- The value types of a deployment: round-1 message, garbler session, round-2
message, evaluator session, round-3 message, result. -/
structure Ty where
  M1 : Type
  GS : Type
  M2 : Type
  ES : Type
  M3 : Type
  D : Type

/-- The four rounds of ONE session (inputs and randomness fixed) and the five
trips through bytes (`Decode* (Encode* v)`). -/
structure Rounds (T : Ty) where
  /-- `GarblerRound1` -/
  r1 : T.M1 × T.GS
  /-- `EvaluatorRound2` -/
  r2 : T.M1 → Res (T.M2 × T.ES)
  /-- `GarblerRound3` -/
  r3 : T.GS → T.M2 → Res T.M3
  /-- `EvaluatorRound4` -/
  r4 : T.ES → T.M3 → Res T.D
  t1 : T.M1 → Res T.M1
  tg : T.GS → Res T.GS
  t2 : T.M2 → Res T.M2
  te : T.ES → Res T.ES
  t3 : T.M3 → Res T.M3
  /-- `GarblerRound1` with a random source that FAILS at byte offset `off`
  (`kind`: how the failing read reports, see `Dist.rng`) -/
  x1 : (off kind : Nat) → Res (T.M1 × T.GS)
  /-- `EvaluatorRound2` with a failing random source -/
  x2 : (off kind : Nat) → T.M1 → Res (T.M2 × T.ES)
  /-- `GarblerRound3` with a failing random source -/
  x3 : (off kind : Nat) → T.GS → T.M2 → Res T.M3
  /-- the three messages through bytes that were MUTATED in transit
  (`Decode* (mutate mu (Encode* v))`) -/
  u1 : (mu : Nat) → T.M1 → Res T.M1
  u2 : (mu : Nat) → T.M2 → Res T.M2
  u3 : (mu : Nat) → T.M3 → Res T.M3

/-- What the process holds for one session: every value a round returned so far. -/
structure Sess (T : Ty) where
  m1 : Option T.M1 := none
  gs : Option T.GS := none
  m2 : Option T.M2 := none
  es : Option T.ES := none
  m3 : Option T.M3 := none
  out : Option T.D := none

/-- A round step.  The flags say which inputs are consumed THROUGH BYTES
(encoded when the step runs, then decoded) instead of in memory. -/
inductive Act where
  | g1
  | e2 (m1B : Bool)
  | g3 (gsB m2B : Bool)
  | e4 (esB m3B : Bool)
  deriving Repr, DecidableEq

def Act.isE4 : Act → Bool
  | .e4 _ _ => true
  | _ => false

/-- consume `v` in memory or through bytes -/
def thru {α : Type} (t : α → Res α) (viaBytes : Bool) (v : α) : Res α :=
  if viaBytes then t v else .ok v

/-- One step of one session: `none` when an input of the round is not there
yet, otherwise the outcome of the round with the session's new slots. -/
def Sess.stepRes {T : Ty} (R : Rounds T) (s : Sess T) : Act → Option (Res (Sess T))
  | .g1 => some (.ok { s with m1 := some R.r1.1, gs := some R.r1.2 })
  | .e2 x =>
    match s.m1 with
    | none => none
    | some m1 => some (do
        let m ← thru R.t1 x m1
        let r ← R.r2 m
        pure { s with m2 := some r.1, es := some r.2 })
  | .g3 x y =>
    match s.gs, s.m2 with
    | some gs, some m2 => some (do
        let g ← thru R.tg x gs
        let m ← thru R.t2 y m2
        let m3 ← R.r3 g m
        pure { s with m3 := some m3 })
    | _, _ => none
  | .e4 x y =>
    match s.es, s.m3 with
    | some es, some m3 => some (do
        let e ← thru R.te x es
        let m ← thru R.t3 y m3
        let d ← R.r4 e m
        pure { s with out := some d })
    | _, _ => none

/-- A failed or disabled step leaves the session as it was. -/
def Sess.step {T : Ty} (R : Rounds T) (s : Sess T) (a : Act) : Sess T :=
  match s.stepRes R a with
  | some (.ok s') => s'
  | _ => s

def Sess.run {T : Ty} (R : Rounds T) (s : Sess T) (acts : List Act) : Sess T :=
  acts.foldl (Sess.step R) s

/-! ### the process -/

/-- the sessions' round functions, by session index -/
abbrev Cfg (T : Ty) := Nat → Rounds T
/-- the process state: the slots of every session -/
abbrev Proc (T : Ty) := Nat → Sess T

/-- One event of a history: session `e.1` runs step `e.2`. -/
def Proc.step {T : Ty} (cfg : Cfg T) (st : Proc T) (e : Nat × Act) : Proc T :=
  fun j => if j = e.1 then (st j).step (cfg j) e.2 else st j

/-- A history: the events in the order the process executes them. -/
def Proc.run {T : Ty} (cfg : Cfg T) (st : Proc T) (sched : List (Nat × Act)) : Proc T :=
  sched.foldl (Proc.step cfg) st

/-- the steps of session `j` in a history, in order -/
def proj (j : Nat) (sched : List (Nat × Act)) : List Act :=
  (sched.filter fun e => e.1 == j).map (·.2)

/-! ### failing steps

The property says: malformed input and messages of another session are
rejected with an error, and EVERY session is correct.  In a process that serves
several sessions a step can fail for reasons outside the session -- the random
source of the process errors in the middle of a round, a message arrives
mutated, the message of another session is fed to the round -- and the other
sessions, and the failed session itself on a retry, must not notice.  An event
of a history therefore carries an optional DISTURBANCE.  `Proc.stepD`: a step
that does not succeed leaves the WHOLE process state as it was. -/

/-- What is wrong with the environment of one step. -/
inductive Dist where
  /-- The random source given to the round fails at byte offset `off` of what
  the round draws.  `kind` 0: the read that reaches the offset returns no bytes
  and the error; 1: it returns the bytes before the offset together with the
  error; 2: it returns those bytes WITHOUT an error (short read) and the next
  read fails. -/
  | rng (off kind : Nat)
  /-- The MESSAGE the round receives is the one session `src` holds in that
  slot (rounds 3 and 4). -/
  | foreignMsg (src : Nat)
  /-- Round 4 run on the evaluator STATE session `src` holds, with the own
  round-3 message. -/
  | foreignState (src : Nat)
  /-- The message arrives as bytes mutated in transit (`mutate mu`). -/
  | malformed (mu : Nat)
  deriving Repr, DecidableEq

/-- One event of a history with failures: session `sess` runs step `act` in an
environment disturbed by `dist` (`none`: nothing is wrong). -/
structure Ev where
  sess : Nat
  act : Act
  dist : Option Dist := none
  deriving Repr, DecidableEq

/-- The outcome of one (possibly disturbed) step of session `s` in the process
`st`: `none` when an input of the round is not there (or the disturbance does
not apply to this round: round 4 draws no randomness, round 1 and 2 have no
session to be foreign to), otherwise the outcome of the round with the new
slots of the session. -/
def Sess.stepResD {T : Ty} (R : Rounds T) (st : Nat → Sess T) (s : Sess T) (a : Act) :
    Option Dist → Option (Res (Sess T))
  | none => s.stepRes R a
  | some (.rng off kind) =>
    match a with
    | .g1 => some (do
        let r ← R.x1 off kind
        pure { s with m1 := some r.1, gs := some r.2 })
    | .e2 x =>
      match s.m1 with
      | none => none
      | some m1 => some (do
          let m ← thru R.t1 x m1
          let r ← R.x2 off kind m
          pure { s with m2 := some r.1, es := some r.2 })
    | .g3 x y =>
      match s.gs, s.m2 with
      | some gs, some m2 => some (do
          let g ← thru R.tg x gs
          let m ← thru R.t2 y m2
          let m3 ← R.x3 off kind g m
          pure { s with m3 := some m3 })
      | _, _ => none
    | .e4 _ _ => none
  | some (.foreignMsg src) =>
    match a with
    | .g3 x y =>
      match s.gs, (st src).m2 with
      | some gs, some m2 => some (do
          let g ← thru R.tg x gs
          let m ← thru R.t2 y m2
          let m3 ← R.r3 g m
          pure { s with m3 := some m3 })
      | _, _ => none
    | .e4 x y =>
      match s.es, (st src).m3 with
      | some es, some m3 => some (do
          let e ← thru R.te x es
          let m ← thru R.t3 y m3
          let d ← R.r4 e m
          pure { s with out := some d })
      | _, _ => none
    | _ => none
  | some (.foreignState src) =>
    match a with
    | .e4 x y =>
      match (st src).es, s.m3 with
      | some es, some m3 => some (do
          let e ← thru R.te x es
          let m ← thru R.t3 y m3
          let d ← R.r4 e m
          pure { s with out := some d })
      | _, _ => none
    | _ => none
  | some (.malformed mu) =>
    match a with
    | .g1 => none
    | .e2 _ =>
      match s.m1 with
      | none => none
      | some m1 => some (do
          let m ← R.u1 mu m1
          let r ← R.r2 m
          pure { s with m2 := some r.1, es := some r.2 })
    | .g3 x _ =>
      match s.gs, s.m2 with
      | some gs, some m2 => some (do
          let g ← thru R.tg x gs
          let m ← R.u2 mu m2
          let m3 ← R.r3 g m
          pure { s with m3 := some m3 })
      | _, _ => none
    | .e4 x _ =>
      match s.es, s.m3 with
      | some es, some m3 => some (do
          let e ← thru R.te x es
          let m ← R.u3 mu m3
          let d ← R.r4 e m
          pure { s with out := some d })
      | _, _ => none

def Proc.stepResD {T : Ty} (cfg : Cfg T) (st : Proc T) (e : Ev) : Option (Res (Sess T)) :=
  (st e.sess).stepResD (cfg e.sess) st e.act e.dist

/-- One event of a history with failures: a step that succeeds replaces the
slots of ITS session, a step that does not succeed (error, crash, input
missing) leaves the whole process state unchanged. -/
def Proc.stepD {T : Ty} (cfg : Cfg T) (st : Proc T) (e : Ev) : Proc T :=
  match Proc.stepResD cfg st e with
  | some (.ok s') => fun j => if j = e.sess then s' else st j
  | _ => st

def Proc.runD {T : Ty} (cfg : Cfg T) (st : Proc T) (sched : List Ev) : Proc T :=
  sched.foldl (Proc.stepD cfg) st

/-- did the step succeed? -/
def Proc.okAt {T : Ty} (cfg : Cfg T) (st : Proc T) (e : Ev) : Bool :=
  match Proc.stepResD cfg st e with
  | some (.ok _) => true
  | _ => false

/-- The events of a history that succeeded when they ran. -/
def Proc.effective {T : Ty} (cfg : Cfg T) : Proc T → List Ev → List Ev
  | _, [] => []
  | st, e :: es =>
    if Proc.okAt cfg st e then e :: Proc.effective cfg (Proc.stepD cfg st e) es
    else Proc.effective cfg st es

/-- Every DISTURBED event of the history fails at the point where it runs. -/
def Proc.DistFail {T : Ty} (cfg : Cfg T) : Proc T → List Ev → Prop
  | _, [] => True
  | st, e :: es => (e.dist.isSome = true → Proc.okAt cfg st e = false) ∧ Proc.DistFail cfg (Proc.stepD cfg st e) es

/-- The undisturbed events of a history, as events of the failure-free model. -/
def cleanSched (sched : List Ev) : List (Nat × Act) :=
  (sched.filter fun e => e.dist.isNone).map fun e => (e.sess, e.act)

/-- What happens to an encoding in transit: truncation to fewer bytes (even
`mu`) or one extra byte (odd `mu`).  The length always changes. -/
def mutate (mu : Nat) (bs : Bytes) : Bytes :=
  if mu % 2 = 0 then bs.take ((mu / 2) % bs.length) else bs ++ [UInt8.ofNat (mu / 2)]

/-! ### the sha2pc instance -/

abbrev sha2pcTy : Ty :=
  { M1 := Round1, GS := GarblerSession, M2 := Round2, ES := EvaluatorSession, M3 := Round3, D := Bytes }

/-- Everything that is fixed for one session: the deployment (curve, group,
circuit), both inputs and all randomness. -/
structure SessCfg where
  G : Type
  P : Params G
  a : Bytes
  b : Bytes
  aS : Nat
  sid : Nat
  scalars : List Nat
  key : Bytes
  r0 : Label
  inl : Nat → Label

/-- The session's rounds; the trips through bytes are the real codecs. -/
def SessCfg.rounds (c : SessCfg) : Rounds sha2pcTy where
  r1 := round1 c.P c.aS c.sid
  r2 := fun m => round2 c.P m c.b c.scalars
  r3 := fun g m => round3 c.P g c.a m c.key c.r0 c.inl
  r4 := fun e m => round4 c.P e m
  t1 := fun m => encodeRound1 c.P.curve m >>= decodeRound1 c.P.curve
  tg := fun s => encodeGarblerSession c.P.curve s >>= decodeGarblerSession c.P.curve
  t2 := fun m => encodeRound2 c.P.curve m >>= decodeRound2 c.P.curve
  te := fun s => encodeEvaluatorSession c.P.curve s >>= decodeEvaluatorSession c.P.curve
  t3 := fun m => encodeRound3 (countsOf c.P.circ) m >>= decodeRound3 (countsOf c.P.circ)
  -- Every read of the random source is followed by `if err != nil { return ..., err }` in GarblerRound1 /
  -- GenerateCOSenderSetup, EvaluatorRound2 / BuildCOChoices, GarblerRound3 / Circuit.Garble / ot.NewLabel /
  -- makeLabels: the values the pure round functions take as arguments are not all there, the round returns
  -- the error.  (Tied by the `hist` correspondence at every sampled offset of every round.)
  x1 := fun _ _ => .error
  x2 := fun _ _ _ => .error
  x3 := fun _ _ _ _ => .error
  u1 := fun mu m => encodeRound1 c.P.curve m >>= fun bs => decodeRound1 c.P.curve (mutate mu bs)
  u2 := fun mu m => encodeRound2 c.P.curve m >>= fun bs => decodeRound2 c.P.curve (mutate mu bs)
  u3 := fun mu m => encodeRound3 (countsOf c.P.circ) m >>= fun bs => decodeRound3 (countsOf c.P.circ) (mutate mu bs)

end Mpc.Sha2pc

/-
Malicious-mode IKNP on CALLER-PROVIDED result buffers: `Receive(b, result,
true)` of /repo/ot/iknp.go transposes the payload rows into the caller's
`result` (Model/IknpBuf.lean: `receiveAt`) and computes its checksum `t` from
that very slice, so what the slice held before the call could reach the
consistency check.  `receiveKosAt` is `Kos.receiveKos` with the buffer
explicit; `KCall` / `sessionK` are histories of honest malicious-mode calls on
one pair in which every call names its result buffer (`Iknp.BufSrc`).
Core Lean only.
-/
import MpcVerif.Model.Kos
import MpcVerif.Model.IknpBuf
namespace Mpc.Kos
open Mpc.Iknp Mpc.Clmul

/-- `IKNPReceiver.Receive(b, result, true)` on the caller's `result`; the check
batch goes to `choiceVector := make([]Label, 256)`.  `none` = `panic("len(b) !=
len(result)")`. -/
def receiveKosAt (store : Store) (X : Label → Nat → Label) (R0 R1 : Nat → Nat → Byte) (st : RecvSt) (b : Array Bool)
    (b0 b1 seed2 : Label) (result : Array Label) : Option RecvOut :=
  match receiveAt store R0 R1 st b result with
  | none => none
  | some r1 =>
    let bcv := bcvOf b0 b1
    match receiveAt store R0 R1 r1.1 bcv (zerosL 256) with
    | none => none
    | some r2 =>
      let a1 := chkLoop (X seed2) (fun i => b.getD i false) r1.2.1 b.size (b.size + 1) 0 {}
      let a2 := chkTail (X seed2) (fun j => bcv.getD j false) r2.2.1 a1
      some { st := r2.1, labels := r1.2.1.toList, cv := r2.2.1.toList, msgs := r1.2.2 ++ r2.2.2,
             seed := seed2, x := a2.x, t0 := a2.t.1, t1 := a2.t.2 }

/-- One honest malicious-mode call of a history: choices, the receiver's three
random labels, and where `result` comes from. -/
structure KCall where
  b : Array Bool
  b0 : Label
  b1 : Label
  seed2 : Label
  buf : BufSrc Label

/-- Receiver and sender run one call; every chunk and the four labels are
delivered in order and must be consumed exactly.  `none`: a panic, an error
return of `send`, or "OT extension check failed".  Returns the new stream
states, the receiver's array, what the receiver produced and the sender's
outputs. -/
def runKCall (store : Store) (X : Label → Nat → Label) (R0 R1 SS : Nat → Nat → Byte) (delta : Label)
    (rs : RecvSt) (ss : SendSt) (arena : Array Label) (c : KCall) :
    Option (RecvSt × SendSt × Array Label × RecvOut × List Label) :=
  match c.buf.resolve 0#128 arena c.b.size with
  | none => none
  | some (a, off, len) =>
    match receiveKosAt store X R0 R1 rs c.b c.b0 c.b1 c.seed2 (window 0#128 a off len) with
    | none => none
    | some r =>
      match sendKos X SS delta ss c.b.size r.msgs r.resp with
      | some { st := ss', labels := sent, restData := [], restLabels := [] } =>
        some (r.st, ss', c.buf.commit 0#128 arena a off r.labels.toArray, r, sent)
      | _ => none

/-- A history of honest malicious-mode calls on one pair. -/
def sessionK (store : Store) (X : Label → Nat → Label) (R0 R1 SS : Nat → Nat → Byte) (delta : Label) :
    RecvSt → SendSt → Array Label → List KCall → Option (List (RecvOut × List Label))
  | _, _, _, [] => some []
  | rs, ss, ar, c :: cs =>
    match runKCall store X R0 R1 SS delta rs ss ar c with
    | none => none
    | some (rs', ss', ar', r, sent) => (sessionK store X R0 R1 SS delta rs' ss' ar' cs).map ((r, sent) :: ·)

end Mpc.Kos

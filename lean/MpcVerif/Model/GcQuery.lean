/-
`Program.GC` (compiler/ssa/program.go) with the liveness query as a parameter.

The backward pass asks, for every input `v` of the instruction at hand whose
bit in `set` is 0, the closure `aliasLive(v)`: "is a direct or indirect alias
of `v` live?".  `set` -- the values live AFTER the instruction at hand --
changes from instruction to instruction, so the answer is only meaningful for
the set it was computed against.  Here the query is a function with an
internal state `σ` that survives from one query to the next, across
instructions (`gcBackQ`): the class of all implementations of the closure,
including ones that keep a table of earlier answers.

  * `tableQuery al`  -- no state, the answer is computed from the CURRENT set:
    `Program.GC` as it is (`gcPassQ_table`: the same pass as `gcPassWith al`);
  * `memoQuery dir`  -- a memo table `ValueID -> bool` that lives for the whole
    pass: an answer cached while the aliases were dead (at a later
    instruction; the pass runs backwards) is reused at an earlier instruction
    at which an alias is live.  Unsafe: `Props/C05.lean: C05_gcMemo_unsafe`.

Core Lean only.
-/
import MpcVerif.Model.Gc

namespace Mpc.Gc

/-- The `aliasLive` closure of `Program.GC` as seen by the pass: state before,
the current `set`, the value; answer ("some alias is live") and state after. -/
abbrev Query (σ : Type) := σ → Live → Nat → Bool × σ

/-- The loop over `step.Instr.In` of one backward iteration: the query is
asked only for an input whose own bit is 0 (`if set.Bit(in.ID) == 0 { if
!aliasLive(in.ID) {...} }`), with the set as it is at that moment (earlier
inputs of the same instruction already marked). -/
def scanInsQ {σ : Type} (q : Query σ) : List Arg → Live → σ → Live × List Step × σ
  | [], live, st => (live, [], st)
  | a :: as, live, st =>
    if a.const then scanInsQ q as live st
    else if live.contains a.id then scanInsQ q as (a.id :: live) st
    else
      let r := q st live a.id
      let rest := scanInsQ q as (a.id :: live) r.2
      (rest.1, if r.1 then rest.2.1 else gcStep a :: rest.2.1, rest.2.2)

/-- The backward loop: steps (program order), live set before the first step,
final query state.  The state flows from the LAST instruction to the first. -/
def gcBackQ {σ : Type} (q : Query σ) (retLive : Live) (st0 : σ) : List Step → List Step × Live × σ
  | [] => ([], retLive, st0)
  | s :: rest =>
    let r := gcBackQ q retLive st0 rest
    let sc := scanInsQ q s.ins r.2.1 r.2.2
    let live := match s.out with
      | some o => sc.1.filter (· != o.id)
      | none => sc.1
    (s :: (sc.2.1.reverse ++ r.1), live, sc.2.2)

def gcPassQ {σ : Type} (q : Query σ) (st0 : σ) (prog : List Step) : Option (List Step) :=
  match prog.getLast? with
  | none => none
  | some last =>
    if last.op != .ret then none
    else some (gcBackQ q (last.ins.map (·.id)) st0 prog).1

/-- `Program.GC` as it is: no state, the closure walks the alias table against
the current set. -/
def tableQuery (al : Nat → List Nat) : Query Unit := fun _ live v => ((al v).any live.contains, ())

/-! ### The closure with a memo table that lives for the whole pass

```go
aliasLiveCache := make(map[ValueID]bool)
aliasLive = func(id ValueID) bool {
    live, ok := aliasLiveCache[id]
    if ok { return live }
    for _, alias := range aliases[id] {
        if set.Bit(int(alias.ID)) == 1 || aliasLive(alias.ID) { live = true; break }
    }
    aliasLiveCache[id] = live
    return live
}
```
-/

abbrev Memo := List (Nat × Bool)

def Memo.get (m : Memo) (v : Nat) : Option Bool := (m.find? (·.1 == v)).map (·.2)

/-- The `for _, alias := range aliases[id]` loop with its `break`; `k` is the
recursive call. -/
def anyAliasLive (k : Memo → Nat → Bool × Memo) (live : Live) : List Nat → Memo → Bool × Memo
  | [], m => (false, m)
  | x :: xs, m =>
    if live.contains x then (true, m)
    else
      let r := k m x
      if r.1 then (true, r.2) else anyAliasLive k live xs r.2

/-- The memoised closure; `fuel` bounds the recursion depth as in
`aliasClosure`. -/
def aliasLiveMemo (dir : Nat → List Nat) (live : Live) : Nat → Memo → Nat → Bool × Memo
  | 0, m, _ => (false, m)
  | fuel + 1, m, v =>
    match m.get v with
    | some b => (b, m)
    | none =>
      let r := anyAliasLive (aliasLiveMemo dir live fuel) live (dir v) m
      (r.1, (v, r.1) :: r.2)

def memoQuery (dir : Nat → List Nat) (fuel : Nat) : Query Memo := fun m live v => aliasLiveMemo dir live fuel m v

/-- gc insertion with the pass-long memo table. -/
def gcInsertMemo (prog : List Step) : Option (List Step) :=
  gcPassQ (memoQuery (aliasesOf prog) (prog.length + 1)) [] prog

/-- `Program.GC` with the pass-long memo table: `defineBeforeUse`, then the
insertion. -/
def gcPassMemo (prog : List Step) : Option (List Step) := gcInsertMemo (defineBeforeUse prog)

/-- The same table emptied before every query of the pass: the answers are
computed against one set only. -/
def freshMemoQuery (dir : Nat → List Nat) (fuel : Nat) : Query Unit :=
  fun _ live v => ((aliasLiveMemo dir live fuel [] v).1, ())

end Mpc.Gc

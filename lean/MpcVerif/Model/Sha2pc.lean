/-
Byte-level model of the SHA256(XOR) two-party protocol package
(/repo/sha2pc): the five encoders/decoders of sha2pc/encoding.go, the bit
helpers of sha2pc/bits.go and the four round functions of sha2pc/garbler.go
and sha2pc/evaluator.go (on top of the Chou-Orlandi model Model/Co.lean and
the garbling model Model/Garble.lean).  Core Lean only.

Conventions
* `Bytes = List UInt8`.  A `bytes.Reader` is the list of bytes not yet
  consumed.
* Every decoder returns `Res α`: `ok a`, `error` (the Go function returns a
  non-nil error) or `panic` (the Go function would index/slice out of range).
  All explicit Go slice expressions `data[lo:hi]` / `data[i]` are modelled by
  the *checked* `slice` / `byteAt`, which return `panic` outside the bounds;
  that no decoder ever returns `panic` is a theorem (`C18_dec_total_*`), not
  a modelling decision.
* Point decompression (`elliptic.UnmarshalCompressed`) is the field
  `Curve.decompress`; the theorems quantify over it, the driver instantiates
  it with the NIST curves.
-/
import MpcVerif.Model.Garble
import MpcVerif.Model.LabelBV
import MpcVerif.Model.Co

namespace Mpc.Sha2pc

abbrev Bytes := List UInt8
abbrev Label := BitVec 128

/-- Outcome of a Go function that may return an error or crash. -/
inductive Res (α : Type) where
  | ok (a : α)
  | error
  | panic
  deriving Repr, DecidableEq

namespace Res
@[inline] def bind {α β : Type} (r : Res α) (f : α → Res β) : Res β :=
  match r with
  | .ok a => f a
  | .error => .error
  | .panic => .panic

instance : Monad Res where
  pure := .ok
  bind := Res.bind

def isPanic {α : Type} : Res α → Bool
  | .panic => true
  | _ => false

def isOk {α : Type} : Res α → Bool
  | .ok _ => true
  | _ => false
end Res

/-! ## Primitive encodings -/

/-- Big-endian value of a byte string (`new(big.Int).SetBytes`,
`binary.BigEndian.Uint64`). -/
def beNat (b : Bytes) : Nat := b.foldl (fun acc x => acc * 256 + x.toNat) 0

/-- `n` big-endian bytes of `v` (`writeFixedBigInt`, `PutUint64`,
`Label.GetData`).  Go panics in `writeFixedBigInt` when `v` needs more than
`n` bytes (negative slice index); the theorems carry `v < 256^n`. -/
def beBytes : Nat → Nat → Bytes
  | 0, _ => []
  | n + 1, v => beBytes n (v / 256) ++ [UInt8.ofNat (v % 256)]

/-- `Label.GetData`: D0 (high word) then D1, both big-endian. -/
def bytesOfLabel (l : Label) : Bytes := beBytes 16 l.toNat
/-- `Label.SetData`. -/
def labelOfBytes (b : Bytes) : Label := BitVec.ofNat 128 (beNat b)

/-- Checked Go slice expression `b[lo:hi]`. -/
def slice (b : Bytes) (lo hi : Nat) : Res Bytes :=
  if lo ≤ hi ∧ hi ≤ b.length then .ok ((b.drop lo).take (hi - lo)) else .panic

/-- Checked Go index expression `b[i]`. -/
def byteAt (b : Bytes) (i : Nat) : Res UInt8 :=
  match b[i]? with
  | some x => .ok x
  | none => .panic

/-- `binary.PutUvarint`. -/
def putUvarint (n : Nat) : Bytes :=
  if n < 128 then [UInt8.ofNat n] else UInt8.ofNat (n % 128 + 128) :: putUvarint (n / 128)
termination_by n
decreasing_by omega

/-- `binary.ReadUvarint` on a byte reader: at most 10 bytes, the tenth must be
0 or 1; end of input and overflow are errors.  `i` is the loop index, `x` the
accumulator (shift `s = 7 i`; the or-ed pieces are disjoint, so `|` is `+`). -/
def readUvarintGo : Nat → Nat → Bytes → Res (Nat × Bytes)
  | _, _, [] => .error
  | i, x, b :: rest =>
    if 10 ≤ i then .error
    else if b.toNat < 128 then
      if i = 9 ∧ 1 < b.toNat then .error else .ok (x + b.toNat * 2 ^ (7 * i), rest)
    else readUvarintGo (i + 1) (x + (b.toNat - 128) * 2 ^ (7 * i)) rest

def readUvarint (r : Bytes) : Res (Nat × Bytes) := readUvarintGo 0 0 r

/-- `chunkSizeLimit`. -/
def chunkSizeLimit : Nat := 1024 * 1024

/-- `writeChunk`. -/
def writeChunk (data : Bytes) : Bytes := putUvarint data.length ++ data

/-- `readChunk`.  The first test rejects padded length prefixes (the number of
bytes `ReadUvarint` consumed must be the length of `PutUvarint` of the value);
the last test is `bytes.Reader.Read`, which returns `io.EOF` at the end of the
input even for a zero-length buffer. -/
def readChunk (r : Bytes) : Res (Bytes × Bytes) := do
  let (len, r1) ← readUvarint r
  if r.length - r1.length ≠ (putUvarint len).length then .error
  else if chunkSizeLimit < len then .error
  else if r1.length < len then .error
  else if r1.isEmpty then .error
  else pure (r1.take len, r1.drop len)

/-- `io.ReadFull(reader, buf)` with `len(buf) = n`. -/
def readFull (n : Nat) (r : Bytes) : Res (Bytes × Bytes) :=
  if r.length < n then .error else .ok (r.take n, r.drop n)

/-- `readFixedBigInt`. -/
def readFixed (n : Nat) (r : Bytes) : Res (Nat × Bytes) := do
  let (b, r1) ← readFull n r
  pure (beNat b, r1)

/-- `k` consecutive `readFixedBigInt` calls. -/
def readFixedN (n : Nat) : Nat → Bytes → Res (List Nat × Bytes)
  | 0, r => .ok ([], r)
  | k + 1, r => do
    let (v, r1) ← readFixed n r
    let (vs, r2) ← readFixedN n k r1
    pure (v :: vs, r2)

/-! ## bits.go -/

def bitsOfByte (b : UInt8) : List Bool :=
  (List.range 8).map fun i => b.toNat.testBit i

def byteOfBits (l : List Bool) : UInt8 :=
  UInt8.ofNat (l.foldr (fun b acc => 2 * acc + b.toNat) 0)

/-- `bytesToBitsLittle`. -/
def bytesToBits (data : Bytes) : List Bool := data.flatMap bitsOfByte

/-- `bitsToBytesLittle` (also `packPointSigns` on the parities): byte `k`
collects bits `8k .. 8k+7`, least significant first; a trailing partial
group is zero-padded. -/
def bitsToBytes : List Bool → Bytes
  | [] => []
  | b :: rest => byteOfBits ((b :: rest).take 8) :: bitsToBytes (rest.drop 7)
termination_by l => l.length
decreasing_by simp only [List.length_drop, List.length_cons]; omega

/-! ## Payload structures (sha2pc/roundtypes.go, garbler.go, evaluator.go, ot/co_helpers.go) -/

structure Point where
  x : Nat
  y : Nat
  deriving Repr, DecidableEq, Inhabited

/-- What the codec needs to know of an `elliptic.Curve`. -/
structure Curve where
  /-- `curve.Params().Name` as bytes. -/
  name : Bytes
  /-- `(curve.Params().BitSize + 7) / 8`. -/
  byteLen : Nat
  /-- `elliptic.UnmarshalCompressed` on `(0x02|0x03) ‖ x`: the `y` with the
  requested parity, `none` when `x` is not a field element or not the abscissa
  of a curve point. -/
  decompress : Nat → Bool → Option Nat

/-- `Round1Payload` (with `OTSenderSetup` inlined). -/
structure Round1 where
  sid : Nat
  curveName : Bytes
  ax : Nat
  ay : Nat
  deriving Repr, DecidableEq

/-- `Round2Payload`. -/
structure Round2 where
  sid : Nat
  curveName : Bytes
  choices : List Point
  deriving Repr, DecidableEq

/-- `Round3Payload`.  NOTE (property C04): `hints` carries BOTH labels of every
output wire, as the code does. -/
structure Round3 where
  sid : Nat
  key : Bytes
  tables : List (List Label)
  inputs : List Label
  hints : List (Label × Label)
  cts : List (Label × Label)
  deriving Repr, DecidableEq

/-- `GarblerSession` (with `ot.COSenderSetup` inlined). -/
structure GarblerSession where
  sid : Nat
  curveName : Bytes
  scalar : Nat
  ax : Nat
  ay : Nat
  ainvx : Nat
  ainvy : Nat
  deriving Repr, DecidableEq

/-- `EvaluatorSession` (with `ot.COChoiceBundle` inlined). -/
structure EvaluatorSession where
  sid : Nat
  curveName : Bytes
  ax : Nat
  ay : Nat
  scalars : List Nat
  bits : List Bool
  deriving Repr, DecidableEq

/-! ## Constants (sha2pc/params.go) -/

def magicR1 : Bytes := [0x52, 0x31]   -- "R1"
def magicR2 : Bytes := [0x52, 0x32]   -- "R2"
def magicR3 : Bytes := [0x52, 0x33]   -- "R3"
def magicGS : Bytes := [0x47, 0x53]   -- "GS"
def magicES : Bytes := [0x45, 0x53]   -- "ES"

/-- `hashInputBitCount` = `garblerInputLabelCount` = `evaluatorCiphertextCount`
= `outputHintCount`. -/
def nBits : Nat := 256
/-- `evaluatorChoiceSignBytes`. -/
def signBytes : Nat := 32
def labelLen : Nat := 16
def keyLen : Nat := 32

/-- `round3PayloadLen` for a circuit whose gates need `counts` table labels
(`gateCiphertextCount` per gate; the embedded circuit has sum 42914, giving
707146). -/
def round3Len (counts : List Nat) : Nat :=
  2 + 8 + keyLen + labelLen * counts.sum + labelLen * nBits + 2 * labelLen * nBits + 2 * labelLen * nBits

/-! ## Shared pieces -/

/-- Magic and session id, the common prefix of the four reader-based decoders
(two `io.ReadFull` calls and the magic comparison). -/
def readHeader (magic : Bytes) (r : Bytes) : Res (Nat × Bytes) := do
  let (m, r1) ← readFull 2 r
  if m ≠ magic then .error
  else
    let (s, r2) ← readFull 8 r1
    pure (beNat s, r2)

def header (magic : Bytes) (sid : Nat) : Bytes := magic ++ beBytes 8 sid

/-- Cut a byte string into `n`-byte pieces (a trailing partial piece is kept;
the callers check the total length first). -/
def chunks (n : Nat) : Bytes → List Bytes
  | [] => []
  | x :: rest =>
    if h : n = 0 then [x :: rest] else (x :: rest).take n :: chunks n ((x :: rest).drop n)
termination_by l => l.length
decreasing_by simp only [List.length_drop, List.length_cons]; omega

def labelsOfBytes (b : Bytes) : List Label := (chunks labelLen b).map labelOfBytes
def bytesOfLabels (ls : List Label) : Bytes := ls.flatMap bytesOfLabel

def pairs {α : Type} : List α → List (α × α)
  | a :: b :: rest => (a, b) :: pairs rest
  | _ => []

def unpairs {α : Type} (l : List (α × α)) : List α := l.flatMap fun p => [p.1, p.2]

/-- Rows of the garbled tables: `counts[i]` labels for gate `i`. -/
def splitRows : List Nat → List Label → List (List Label)
  | [], _ => []
  | c :: cs, ls => ls.take c :: splitRows cs (ls.drop c)

/-! ## Round 1 -/

/-- `encodeOTSetup`: an empty `CurveName` is replaced by the curve's name, a
different one is an error. -/
def encodeRound1 (c : Curve) (p : Round1) : Res Bytes :=
  if p.curveName ≠ [] ∧ p.curveName ≠ c.name then .error
  else .ok (header magicR1 p.sid ++ (writeChunk c.name ++ (beBytes c.byteLen p.ax ++ beBytes c.byteLen p.ay)))

/-- `DecodeRound1` / `decodeOTSetup`; input left after the second coordinate
is an error. -/
def decodeRound1 (c : Curve) (data : Bytes) : Res Round1 := do
  let (sid, r) ← readHeader magicR1 data
  let (name, r1) ← readChunk r
  if name ≠ c.name then .error
  else
    let (x, r2) ← readFixed c.byteLen r1
    let (y, r3) ← readFixed c.byteLen r2
    if r3 ≠ [] then .error
    else pure { sid := sid, curveName := name, ax := x, ay := y }

/-! ## Round 2 -/

def yOdd (p : Point) : Bool := p.y.testBit 0

/-- `encodePoints`. -/
def encodePoints (c : Curve) (ps : List Point) : Res Bytes :=
  if ps.length ≠ nBits then .error
  else .ok (ps.flatMap (fun p => beBytes c.byteLen p.x) ++ bitsToBytes (ps.map yOdd))

/-- `pointSign(signs, idx)`. -/
def pointSign (signs : Bytes) (idx : Nat) : Res Bool :=
  if signs.isEmpty then .ok false
  else do
    let b ← byteAt signs (idx / 8)
    pure (b.toNat.testBit (idx % 8))

/-- The decompression loop of `decodePoints`. -/
def decompressAll (c : Curve) (signs : Bytes) : List Nat → Nat → Res (List Point)
  | [], _ => .ok []
  | x :: xs, i => do
    let odd ← pointSign signs i
    match c.decompress x odd with
    | none => .error
    | some y =>
      let ps ← decompressAll c signs xs (i + 1)
      pure (⟨x, y⟩ :: ps)

/-- The coordinate loop of `decodePoints`: `data[offset : offset+byteLen]`,
`count` times. -/
def sliceFixedN (data : Bytes) (n : Nat) : Nat → Nat → Res (List Nat)
  | 0, _ => .ok []
  | k + 1, off => do
    let b ← slice data off (off + n)
    let vs ← sliceFixedN data n k (off + n)
    pure (beNat b :: vs)

/-- `decodePoints`. -/
def decodePoints (c : Curve) (data : Bytes) : Res (List Point) :=
  if data.length ≠ nBits * c.byteLen + signBytes then .error
  else do
    let xs ← sliceFixedN data c.byteLen nBits 0
    let signs ← slice data (nBits * c.byteLen) data.length
    decompressAll c signs xs 0

/-- `EncodeRound2`: writes the curve's name whatever `p.curveName` is. -/
def encodeRound2 (c : Curve) (p : Round2) : Res Bytes := do
  let pts ← encodePoints c p.choices
  pure (header magicR2 p.sid ++ (writeChunk c.name ++ pts))

/-- `DecodeRound2`. -/
def decodeRound2 (c : Curve) (data : Bytes) : Res Round2 := do
  let (sid, r) ← readHeader magicR2 data
  let (name, rest) ← readChunk r
  if name ≠ c.name then .error
  else
    let ps ← decodePoints c rest
    pure { sid := sid, curveName := name, choices := ps }

/-! ## Round 3 -/

/-- `EncodeRound3` for a circuit with the given per-gate label counts. -/
def encodeRound3 (counts : List Nat) (p : Round3) : Res Bytes :=
  if p.tables.length ≠ counts.length then .error
  else if p.tables.map List.length ≠ counts then .error
  else if p.inputs.length ≠ nBits then .error
  else if p.hints.length ≠ nBits then .error
  else if p.cts.length ≠ nBits then .error
  else
    let out := header magicR3 p.sid ++ (p.key ++ (bytesOfLabels p.tables.flatten ++ (bytesOfLabels p.inputs ++
      (bytesOfLabels (unpairs p.hints) ++ bytesOfLabels (unpairs p.cts)))))
    if out.length ≠ round3Len counts then .error else .ok out

/-- `DecodeRound3`: explicit offsets, every slice checked. -/
def decodeRound3 (counts : List Nat) (data : Bytes) : Res Round3 :=
  if data.length ≠ round3Len counts then .error
  else do
    let m ← slice data 0 2
    if m ≠ magicR3 then .error
    else
      let sid ← slice data 2 10
      let key ← slice data 10 (10 + keyLen)
      let o1 := 10 + keyLen
      let e1 := o1 + labelLen * counts.sum
      let e2 := e1 + labelLen * nBits
      let e3 := e2 + 2 * labelLen * nBits
      let e4 := e3 + 2 * labelLen * nBits
      let tb ← slice data o1 e1
      let ib ← slice data e1 e2
      let hb ← slice data e2 e3
      let cb ← slice data e3 e4
      pure { sid := beNat sid, key := key,
             tables := splitRows counts (labelsOfBytes tb),
             inputs := labelsOfBytes ib,
             hints := pairs (labelsOfBytes hb),
             cts := pairs (labelsOfBytes cb) }

/-! ## Garbler session -/

/-- `encodeCOSenderSetup`. -/
def encodeSenderSetup (c : Curve) (s : GarblerSession) : Res Bytes :=
  if s.curveName ≠ [] ∧ s.curveName ≠ c.name then .error
  else .ok (writeChunk c.name ++ (beBytes c.byteLen s.scalar ++ (beBytes c.byteLen s.ax ++
    (beBytes c.byteLen s.ay ++ (beBytes c.byteLen s.ainvx ++ beBytes c.byteLen s.ainvy)))))

/-- `EncodeGarblerSession`. -/
def encodeGarblerSession (c : Curve) (s : GarblerSession) : Res Bytes := do
  let inner ← encodeSenderSetup c s
  pure (header magicGS s.sid ++ writeChunk inner)

/-- `decodeCOSenderSetup`; input left after the fifth field is an error. -/
def decodeSenderSetup (c : Curve) (sid : Nat) (chunk : Bytes) : Res GarblerSession := do
  let (name, r1) ← readChunk chunk
  if name ≠ c.name then .error
  else
    let (sc, r2) ← readFixed c.byteLen r1
    let (ax, r3) ← readFixed c.byteLen r2
    let (ay, r4) ← readFixed c.byteLen r3
    let (ix, r5) ← readFixed c.byteLen r4
    let (iy, r6) ← readFixed c.byteLen r5
    if r6 ≠ [] then .error
    else pure { sid := sid, curveName := name, scalar := sc, ax := ax, ay := ay, ainvx := ix, ainvy := iy }

/-- `DecodeGarblerSession`; input left after the chunk is an error. -/
def decodeGarblerSession (c : Curve) (data : Bytes) : Res GarblerSession := do
  let (sid, r) ← readHeader magicGS data
  let (chunk, rest) ← readChunk r
  if rest ≠ [] then .error
  else decodeSenderSetup c sid chunk

/-! ## Evaluator session -/

/-- `encodeChoiceBundle`. -/
def encodeChoiceBundle (c : Curve) (s : EvaluatorSession) : Res Bytes :=
  if s.curveName ≠ [] ∧ s.curveName ≠ c.name then .error
  else if s.scalars.length ≠ nBits then .error
  else if s.bits.length ≠ nBits then .error
  else .ok (writeChunk c.name ++ (beBytes c.byteLen s.ax ++ (beBytes c.byteLen s.ay ++
    (s.scalars.flatMap (beBytes c.byteLen) ++ bitsToBytes s.bits))))

/-- `EncodeEvaluatorSession`. -/
def encodeEvaluatorSession (c : Curve) (s : EvaluatorSession) : Res Bytes := do
  let inner ← encodeChoiceBundle c s
  pure (header magicES s.sid ++ writeChunk inner)

/-- `decodeChoiceBundle`: the bit field is fetched with `io.ReadFull`; input
left after it is an error. -/
def decodeChoiceBundle (c : Curve) (sid : Nat) (chunk : Bytes) : Res EvaluatorSession := do
  let (name, r1) ← readChunk chunk
  if name ≠ c.name then .error
  else
    let (ax, r2) ← readFixed c.byteLen r1
    let (ay, r3) ← readFixed c.byteLen r2
    let (scalars, r4) ← readFixedN c.byteLen nBits r3
    let (raw, r5) ← readFull signBytes r4
    if r5 ≠ [] then .error
    else
    let bits := bytesToBits raw
    if bits.length < nBits then .error
    else pure { sid := sid, curveName := name, ax := ax, ay := ay, scalars := scalars,
                bits := bits.take nBits }

/-- `DecodeEvaluatorSession`; input left after the chunk is an error. -/
def decodeEvaluatorSession (c : Curve) (data : Bytes) : Res EvaluatorSession := do
  let (sid, r) ← readHeader magicES data
  let (chunk, rest) ← readChunk r
  if rest ≠ [] then .error
  else decodeChoiceBundle c sid chunk

end Mpc.Sha2pc

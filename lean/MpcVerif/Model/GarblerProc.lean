/-
A garbler PROCESS (C04): several two-party sessions served by `circuit.Garbler`
(circuit/garbler.go) on ONE shared `*circuit.Circuit`, whose garbling scratch
(`garbled.Wires`, `garbled.Gates`) is drawn from the circuit's pool
(`Circuit.Garble` → `garbleScratchPool().Get()`, circuit/garble.go).

The sessions overlap: the evaluator of a session may stall at any point of the
protocol (before the OT, between two OT messages, before it returns the output
labels) while other sessions on the same circuit value start, run and end.
What a session's garbler does with the garbling after `Garble` has returned is
to READ it, at three places:

  * `oti.Send(garbled.Wires[offset : offset+count])`     (`otBegin` … `otEnd`:
    the OT implementation reads the wire pairs somewhere between the call and
    the return — CO encrypts them after it has received the receiver's points)
  * `wire := garbled.Wires[NumWires-Outputs.Size()+i]`    (`decode`)

Every event is a block of atomic steps of the ownership model
`Model/Pool.lean` / `Model/GarbleHist.lean` (neither is changed): `start` is a
successful `Garble` call (`HEv.garble`, the `Get` choice of the executed model:
the most recently `Put` scratch if one is cached), `fail` a Garble call whose
random source runs short after `k` writes (`HEv.fail`; the Garbler returns the
error before anything is sent).  A read sees the CURRENT contents of the memory
the session's `garbled.Wires` slice header points to — that is what a Go slice
is — whoever wrote them last.

`early = false` is the code as it is: `circuit.Garbler` never calls
`garbled.Release()`, the scratch stays owned by the session's `*Garbled` for as
long as the session lives.  `early = true` is the variant that returns the
scratch to the pool right after the tables and the garbler's own input labels
have been sent and keeps using the slice it copied out of the handle; it
exists only to state what the property excludes (`Props/C04.lean`,
`C04_proc_early_release_serves_foreign`).

Generic in the scratch contents `Mem`, the call parameters `Job` and the
assignment `job` of (tape, key) to session numbers.  Core Lean only.
-/
import MpcVerif.Model.GarbleHist

namespace Mpc.GProc
open Mpc.Pool

/-- Events of a garbler process, in the order they happen (one goroutine per
session; the harness serialises them, see harness/cmd/c04/overlap.go). -/
inductive PEv where
  /-- session `s`: key, `circ.Garble`, tables and own input labels sent -/
  | start (s : Nat)
  /-- session `s`: `circ.Garble` fails after `k` writes into the scratch it drew -/
  | fail (s k : Nat)
  /-- session `s`: `oti.Send(garbled.Wires[…])` is called -/
  | otBegin (s : Nat)
  /-- session `s`: that call returns -/
  | otEnd (s : Nat)
  /-- session `s`: the result loop reads `garbled.Wires[…]`; the session ends -/
  | decode (s : Nat)
  deriving Repr, DecidableEq

/-- What the process keeps per session: the `*Garbled` (`handle`), the memory
its `Wires` slice points to (`scratch`), and — ghost — what the OT and the
result loop saw there. -/
structure Sess (Mem : Type) where
  id      : Nat
  handle  : HandleId
  scratch : ScratchId
  otSeen  : List Mem
  decSeen : List Mem

structure PState (Mem Job : Type) where
  σ    : State Mem Job
  sess : List (Sess Mem)

variable {Mem Job : Type}

def initP (P : Params Mem Job) : PState Mem Job := ⟨init P, []⟩

def findSess (l : List (Sess Mem)) (s : Nat) : Option (Sess Mem) :=
  l.find? fun e => e.id == s

def updSess (l : List (Sess Mem)) (s : Nat) (f : Sess Mem → Sess Mem) : List (Sess Mem) :=
  l.map fun e => if e.id == s then f e else e

/-- One event.  `none`: not possible in this state (session number used twice,
read of a session that has not started, `k` beyond the writes of the call). -/
def stepEv (early : Bool) (P : Params Mem Job) (job : Nat → Job) (st : PState Mem Job) :
    PEv → Option (PState Mem Job)
  | .start s =>
    match findSess st.sess s with
    | some _ => none
    | none =>
      match runEv P st.σ (.garble (job s) (pickFree st.σ)) with
      | none => none
      | some σ1 =>
        match σ1.handle st.σ.nHandles with
        | none => none
        | some H =>
          match H.scratch with
          | none => none
          | some x =>
            if early then
              match runEv P σ1 (.release st.σ.nHandles) with
              | some σ2 => some ⟨σ2, ⟨s, st.σ.nHandles, x, [], []⟩ :: st.sess⟩
              | none => none
            else some ⟨σ1, ⟨s, st.σ.nHandles, x, [], []⟩ :: st.sess⟩
  | .fail s k =>
    match runEv P st.σ (.fail (job s) k (pickFree st.σ)) with
    | some σ1 => some ⟨σ1, st.sess⟩
    | none => none
  | .otBegin s =>
    match findSess st.sess s with
    | some _ => some ⟨st.σ, updSess st.sess s fun e => { e with otSeen := e.otSeen ++ [st.σ.mem e.scratch] }⟩
    | none => none
  | .otEnd s =>
    match findSess st.sess s with
    | some _ => some ⟨st.σ, updSess st.sess s fun e => { e with otSeen := e.otSeen ++ [st.σ.mem e.scratch] }⟩
    | none => none
  | .decode s =>
    match findSess st.sess s with
    | some _ => some ⟨st.σ, updSess st.sess s fun e => { e with decSeen := e.decSeen ++ [st.σ.mem e.scratch] }⟩
    | none => none

def runProc (early : Bool) (P : Params Mem Job) (job : Nat → Job) :
    PState Mem Job → List PEv → Option (PState Mem Job)
  | st, [] => some st
  | st, e :: es =>
    match stepEv early P job st e with
    | some st' => runProc early P job st' es
    | none => none

/-! ### Digest instance (executed by `Driver/C04.lean`)

A scratch holds a digest (`Pool.traceParams`: a call clears, then writes its
digest); session `s` writes `s + 1` (`0` is a scratch nobody has written). -/

def digestOf (s : Nat) : Nat := s + 1

abbrev DState := PState Nat Nat

def runDigest (early : Bool) (evs : List PEv) : Option DState :=
  runProc early traceParams digestOf (initP traceParams) evs

/-- Whose garbling the OT of a session served: `some t` if everything it read
was written by session `t`; `none` if it read an unwritten scratch or the
contents changed between the call and the return. -/
def servedBy (e : Sess Nat) : Option Nat :=
  match e.otSeen with
  | [] => none
  | d :: ds => if d ≠ 0 ∧ ds.all (· == d) then some (d - 1) else none

/-- The result loop decodes the returned labels iff the OT served the session's
own wire pairs (otherwise the evaluator computed on foreign labels) and the
result loop reads the session's own wire pairs. -/
def decodesOk (e : Sess Nat) : Bool :=
  e.otSeen.all (· == digestOf e.id) && e.decSeen.all (· == digestOf e.id)

def natStr (n : Nat) : String := toString n

/-- Canonical result line: sessions in the order they started. -/
def render (st : DState) : String :=
  let ss := st.sess.reverse
  let ots := (ss.filter fun e => !e.otSeen.isEmpty).map fun e =>
    natStr e.id ++ ":" ++ (match servedBy e with | some t => natStr t | none => "mixed")
  let decs := (ss.filter fun e => !e.decSeen.isEmpty).map fun e =>
    natStr e.id ++ ":" ++ (if decodesOk e then "ok" else "err")
  "ot=" ++ (if ots.isEmpty then "-" else ",".intercalate ots) ++
    " dec=" ++ (if decs.isEmpty then "-" else ",".intercalate decs)

end Mpc.GProc

/-
Chou-Orlandi OT (/repo/ot/co.go, /repo/ot/co_helpers.go) over an abstract
commutative group with a scalar action.  Core Lean only.

`crypto/elliptic` is trusted to implement such a group on the affine points
of the curve (P-256 in `NewCO`); the encodings of the point at infinity (which
`IsOnCurve` rejects, so that `EncryptCOCiphertexts`/`BuildCOChoices` return
`ErrPointNotOnCurve`) are abstracted as the predicate `valid`.  The KDF
`deriveMask(x, y, id)` (SHA-256 of the coordinates and the index, of which the
first 16 bytes are used) is an arbitrary function `kdf : G → Nat → Label`.
-/
import MpcVerif.Model.Iknp

namespace Mpc.Co
open Mpc.Iknp (Label)

/-- Commutative group with scalar multiplication by naturals. -/
structure Group (G : Type) where
  add : G → G → G
  neg : G → G
  zero : G
  smul : Nat → G → G
  add_assoc : ∀ a b c, add (add a b) c = add a (add b c)
  add_comm : ∀ a b, add a b = add b a
  add_zero : ∀ a, add a zero = a
  add_neg : ∀ a, add a (neg a) = zero
  smul_add : ∀ n a b, smul n (add a b) = add (smul n a) (smul n b)
  smul_comm : ∀ m n a, smul m (smul n a) = smul n (smul m a)

/-- `COSenderSetup`: scalar `a`, `A = a•g`, `AaInv = −(a•A)`. -/
structure SenderSetup (G : Type) where
  a : Nat
  A : G
  AaInv : G

/-- `GenerateCOSenderSetup` for the sampled scalar `a` (generator `g`). -/
def senderSetup {G : Type} (Γ : Group G) (g : G) (a : Nat) : SenderSetup G :=
  { a := a, A := Γ.smul a g, AaInv := Γ.neg (Γ.smul a (Γ.smul a g)) }

/-- One point of `BuildCOChoices` for the sampled scalar `b`: `b•g`, plus `A`
when the choice bit is set. -/
def choicePoint {G : Type} (Γ : Group G) (g A : G) (b : Nat) (bit : Bool) : G :=
  if bit then Γ.add (Γ.smul b g) A else Γ.smul b g

abbrev Wire := Label × Label

/-- `EncryptCOCiphertexts` for `n` points/wires (`none` = a point is rejected
by `ensureOnCurve`). -/
def encrypt {G : Type} (Γ : Group G) (valid : G → Bool) (kdf : G → Nat → Label) (s : SenderSetup G)
    (n : Nat) (points : Nat → G) (wires : Nat → Wire) : Option (List Wire) :=
  if !valid s.A then none
  else if (List.range n).any (fun i => !valid (points i)) then none
  else some <| (List.range n).map fun idx =>
    let B := Γ.smul s.a (points idx)
    let Ba := Γ.add B s.AaInv
    (kdf B idx ^^^ (wires idx).1, kdf Ba idx ^^^ (wires idx).2)

/-- `DecryptCOCiphertexts`. -/
def decrypt {G : Type} (Γ : Group G) (kdf : G → Nat → Label) (A : G) (n : Nat) (scalars : Nat → Nat)
    (bits : Nat → Bool) (data : List Wire) : List Label :=
  (List.range n).map fun idx =>
    let mask := kdf (Γ.smul (scalars idx) A) idx
    let ct := data.getD idx (0#128, 0#128)
    (if bits idx then ct.2 else ct.1) ^^^ mask

/-! ### The same functions over bare operations (executable instances)

`Group` carries proofs of the group laws, which nobody can supply for the
concrete P-256 arithmetic executed by the driver.  `Ops` is the operations
without the laws; the `…O` functions below are what the driver executes on
P-256 (Model/CoBytes.lean) and what the C06 theorems are stated about (at
`Γ.ops` for an arbitrary `Γ : Group G`).  They follow /repo HEAD, where
`EncryptCOCiphertexts` also rejects an off-curve `AaInv` (68f93f2) and
`DecryptCOCiphertexts` an off-curve `A` (0e7671a); the older `encrypt`/
`decrypt` above are kept unchanged for Model/Sha2pcRounds.lean, which does
those checks itself. -/

structure Ops (G : Type) where
  add : G → G → G
  neg : G → G
  zero : G
  smul : Nat → G → G

def Group.ops {G : Type} (Γ : Group G) : Ops G :=
  { add := Γ.add, neg := Γ.neg, zero := Γ.zero, smul := Γ.smul }

/-- `GenerateCOSenderSetup` for the sampled scalar `a`. -/
def senderSetupO {G : Type} (O : Ops G) (g : G) (a : Nat) : SenderSetup G :=
  { a := a, A := O.smul a g, AaInv := O.neg (O.smul a (O.smul a g)) }

/-- One point of `BuildCOChoices`. -/
def choicePointO {G : Type} (O : Ops G) (g A : G) (b : Nat) (bit : Bool) : G :=
  if bit then O.add (O.smul b g) A else O.smul b g

/-- `EncryptCOCiphertexts` (HEAD): `none` = `ErrPointNotOnCurve` for `A`,
`AaInv` or one of the receiver's points. -/
def encryptO {G : Type} (O : Ops G) (valid : G → Bool) (kdf : G → Nat → Label) (s : SenderSetup G)
    (n : Nat) (points : Nat → G) (wires : Nat → Wire) : Option (List Wire) :=
  if !valid s.A then none
  else if !valid s.AaInv then none
  else if (List.range n).any (fun i => !valid (points i)) then none
  else some <| (List.range n).map fun idx =>
    let B := O.smul s.a (points idx)
    let Ba := O.add B s.AaInv
    (kdf B idx ^^^ (wires idx).1, kdf Ba idx ^^^ (wires idx).2)

/-- `DecryptCOCiphertexts` (HEAD): `none` = `ErrPointNotOnCurve` for `A` (the
count checks of the Go function are the fixed `n` here). -/
def decryptO {G : Type} (O : Ops G) (valid : G → Bool) (kdf : G → Nat → Label) (A : G) (n : Nat)
    (scalars : Nat → Nat) (bits : Nat → Bool) (data : List Wire) : Option (List Label) :=
  if !valid A then none
  else some <| (List.range n).map fun idx =>
    let mask := kdf (O.smul (scalars idx) A) idx
    let ct := data.getD idx (0#128, 0#128)
    (if bits idx then ct.2 else ct.1) ^^^ mask

end Mpc.Co

import MpcVerif.Model.Proto2

/-!
# Circuit construction routes (property C02)

Go's `circuit.Circuit` is a public struct.  Its fields `Gates`, `NumWires`,
`Inputs`, `Outputs` (and `NumGates = len(Gates)`) DEFINE the function; `Stats`
(gate counts per kind, `NumLevels`, `MaxWidth`) and every `Gate.Level` are
DERIVED data that the compiler, the two parsers and `AssignLevels` fill in.  A
circuit value reaches `circuit.Garbler` / `circuit.Evaluator` along many routes:
compiled, parsed from bytes, written as a struct literal (derived data zero),
edited after parsing (derived data stale), after `AssignLevels`.

The protocol model (`Model/Proto2.lean`) works on `Circuit2`, which has NO field
for the derived data.  This file states that explicitly: `GoCircuit` is the Go
struct value *with* its derived fields, `run2Go` is the session on such a value,
and it is defined through the defining fields only.  That
`circuit.Garbler` / `circuit.Evaluator` read nothing else is an assumption about
the code; the harness ties it on every run by constructing the circuit value of
every session class along every route (`harness/cmd/c02/routes.go`), and the op
line hands the model the derived data the real value carried.
-/

namespace Mpc

/-- The derived fields of a Go circuit value: `Circuit.Stats` (8 counters) and
the `Gate.Level` of every gate. -/
structure Derived where
  stats  : List Nat := []
  levels : List Nat := []
  deriving Repr, DecidableEq, Inhabited

/-- A `*circuit.Circuit` as the session functions receive it. -/
structure GoCircuit where
  /-- `Gates`, `NumWires`, `Inputs`, `Outputs` -/
  core    : Circuit2
  /-- `Stats`, `Gates[i].Level` -/
  derived : Derived := {}
  deriving Repr

/-- Gate counts by kind in the order of Go's `circuit.Operation`
(XOR, XNOR, AND, OR, INV), followed by `Count`, `NumLevels`, `MaxWidth` = 0:
what `compiler` and the parsers store in `Circuit.Stats`. -/
def exactStats (gates : List Gate) : List Nat :=
  [gates.countP (·.op == .xor), gates.countP (·.op == .xnor), gates.countP (·.op == .and),
   gates.countP (·.op == .or), gates.countP (·.op == .inv), 0, 0, 0]

/-- Number of garbled rows the gate list makes the garbler transmit
(half-gates AND: 2, OR: 3, INV: 1, XOR / XNOR: 0). -/
def rowsNeeded (gates : List Gate) : Nat :=
  2 * gates.countP (·.op == .and) + 3 * gates.countP (·.op == .or) + gates.countP (·.op == .inv)

/-- Construction routes of a circuit value (`harness/cmd/c02/routes.go`). -/
inductive Route where
  /-- struct literal / compiler output with exact statistics -/
  | exact
  /-- struct literal with the defining fields only -/
  | zero
  /-- statistics of another circuit -/
  | stale (d : Derived)
  /-- `Marshal` then `ParseMPCLC` -/
  | parsed
  /-- parsed, then gates appended (`NumGates`, `NumWires` follow; `Stats` keeps
  the parser's counts) -/
  | appended (gs : List Gate)
  /-- struct literal on which `AssignLevels` ran -/
  | levels (d : Derived)
  deriving Repr

/-- The defining fields after appending gates, each on a new wire. -/
def Circuit2.append (p : Circuit2) (gs : List Gate) : Circuit2 :=
  { p with c := { p.c with gates := p.c.gates ++ gs, numWires := p.c.numWires + gs.length } }

/-- The circuit value a route constructs from defining fields `p`. -/
def Route.construct : Route → Circuit2 → GoCircuit
  | .exact, p => { core := p, derived := { stats := exactStats p.c.gates } }
  | .zero, p => { core := p }
  | .stale d, p => { core := p, derived := d }
  | .parsed, p => { core := p, derived := { stats := exactStats p.c.gates } }
  | .appended gs, p => { core := p.append gs, derived := { stats := exactStats p.c.gates } }
  | .levels d, p => { core := p, derived := d }

variable {L : Type} [LabelAlg L]

/-- The two-party session on a Go circuit value: `circuit.Garbler` and
`circuit.Evaluator` read `Gates`, `NumWires`, `Inputs`, `Outputs` only. -/
def run2Go [DecidableEq L] (gc : GoCircuit) (mkH : List UInt8 → Hash L) (key : List UInt8) (r : L)
    (inl : Nat → L) (x y : List Bool) (ot : OtFun L) : Except ProtoErr (List Nat × List Nat) :=
  run2 gc.core mkH key r inl x y ot

end Mpc

/-
Tweak accounting of the gate loop, per gate kind.

`Gate.garbleInto` (circuit/garble.go) and `Streaming.garbleGate`
(circuit/stream_garble.go) hash the labels of a gate under the current value of
a tweak counter and then advance the counter.  Two numbers per gate kind are
involved and the secrecy of the offset rests on their relation:

  * `Op.queries`  how many consecutive tweaks the gate's hash calls use,
                  starting at the counter: AND two (`j0 = id`, `j1 = id + 1`),
                  OR and INV one (`id`), the free gates none — this is how
                  `garbleCore` (Model/Garble.lean) calls `H.h1` / `H.h2`
                  (`garbleCore_queries_only` in Proofs/TweakAcc.lean);
  * the accounting `tw : Op → Nat`, by how much the counter advances after a
                  gate of each kind.  The code's accounting is `Op.tweaks`
                  (Model/Circuit.lean: AND 2, OR 1, INV 1, XOR / XNOR 0), the
                  constant used by `garbleGate` (whole-circuit mode: C01, C02,
                  C04) and by `Stream.streamGarbleGate` (streaming mode: C05).

The gate loop is stated here for an ARBITRARY accounting (`garbleGatesAcc`), so
that the theorems of Props/C04.lean can say what the property needs from it
(`TweakAcc.Safe`: every kind advances the counter by at least what it uses) and
what happens otherwise.  `tweakUses` is the executable trace of the tweaks used,
gate by gate; the driver op `c04acc` prints it for the code's accounting and the
C04 harness compares it with the tweaks OBSERVED on the real streaming garbler
(harness/cmd/c04/shadow.go re-derives, for every transmitted row, the tweak
under which it was hashed).  Core Lean only.
-/
import MpcVerif.Model.Garble

namespace Mpc

/-- Number of consecutive tweaks, starting at the counter, that the hash calls
of one gate use. -/
def Op.queries : Op → Nat
  | .xor | .xnor => 0
  | .and => 2
  | .or | .inv => 1

/-- The tweaks under which a gate garbled at counter value `id` hashes. -/
def Op.uses (op : Op) (id : Nat) : List Nat := (List.range op.queries).map (id + ·)

/-- A tweak accounting: the advance of the counter after a gate of each kind. -/
abbrev TweakAcc := Op → Nat

/-- The accounting of the code (`*idp = *idp + 2` for AND, `+ 1` for OR and
for INV in `Streaming.garbleGate`; the same in `Gate.garbleInto` and in the
streaming evaluator). -/
def codeAcc : TweakAcc := Op.tweaks

/-- An accounting is safe when no kind uses more tweaks than it reserves. -/
def TweakAcc.Safe (tw : TweakAcc) : Prop := ∀ op : Op, op.queries ≤ tw op

instance (tw : TweakAcc) : Decidable tw.Safe :=
  decidable_of_iff (∀ op ∈ [Op.xor, .xnor, .and, .or, .inv], op.queries ≤ tw op)
    ⟨fun h op => h op (by cases op <;> simp), fun h op _ => h op⟩

/-- The tweaks used along a gate list, in stream order. -/
def tweakUses (tw : TweakAcc) : List Op → Nat → List Nat
  | [], _ => []
  | op :: ops, id => op.uses id ++ tweakUses tw ops (id + tw op)

/-- The counter after a gate list. -/
def tweakEnd (tw : TweakAcc) : List Op → Nat → Nat
  | [], id => id
  | op :: ops, id => tweakEnd tw ops (id + tw op)

variable {L : Type} [LabelAlg L]

/-- The gate loop of `Circuit.Garble` / `Streaming.Garble` under the accounting
`tw`: each gate is garbled by `garbleCore` at the current counter value, the
counter advances by `tw g.op`. -/
def garbleGatesAcc (H : Hash L) (r : L) (tw : TweakAcc) : List Gate → Store (WireL L) → Nat →
    Store (WireL L) × Nat × List (List L)
  | [], ws, id => (ws, id, [])
  | g :: gs, ws, id =>
    let c := garbleCore H r g.op (ws.get g.in0) (ws.get g.in1) id
    let (ws2, id2, rest) := garbleGatesAcc H r tw gs (ws.set g.out c.1) (id + tw g.op)
    (ws2, id2, c.2 :: rest)

/-- Streaming under the accounting `tw`: the instruction circuits one after the
other on one wire store with ONE running counter. -/
def streamGarbleAcc (H : Hash L) (r : L) (tw : TweakAcc) :
    List (List Gate) → Store (WireL L) → Nat → Store (WireL L) × Nat × List (List L)
  | [], ws, id => (ws, id, [])
  | step :: steps, ws, id =>
    let (ws1, id1, rows) := garbleGatesAcc H r tw step ws id
    let (ws2, id2, rest) := streamGarbleAcc H r tw steps ws1 id1
    (ws2, id2, rows ++ rest)

/-! ### Rendering for the driver (`c04acc`) -/

/-- Polynomial digest of a tweak sequence (the same as `renderAcc` of the
harness). -/
def accDigest (tw : List Nat) : Nat :=
  tw.foldl (fun h t => (h * 1000003 + t + 1) % 1000000007) 7

def accEnd (tw : List Nat) : Nat := tw.foldl (fun e t => if t + 1 > e then t + 1 else e) 0

def renderAcc (tw : List Nat) : String :=
  let first := (tw.take 48).map toString
  let f := if first.isEmpty then "-" else String.intercalate "," first
  s!"n={tw.length} end={accEnd tw} h={accDigest tw} first={f}"

end Mpc

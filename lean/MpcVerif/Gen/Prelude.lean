/-
Representation of Go types and built-in operations used by the T1 leaf
translator (`harness/cmd/gofacts translate`, DESIGN.md 1.3).  STATIC file: the
generated files `Gen/Leaf<Group>.lean` import it; the translator checks on every
run that the Go type declarations still have the shape assumed here (a changed
declaration is a translator failure).  Core Lean only.
-/

namespace Mpc.Gen

/-- `ot.Label`: `(D0, D1)`. -/
abbrev Label := BitVec 64 × BitVec 64
/-- `ot.Wire`: `(L0, L1)`. -/
abbrev Wire := Label × Label

/-- `copy(dst[off:], src)`: the elements of `src` written over `dst` from index `off`, as far as both
reach (Go's `copy` is a memmove: for overlapping views the source is read as it was before). -/
def copyAt {α : Type} (dst : Array α) (off : Nat) (src : Array α) : Array α :=
  Array.ofFn (n := dst.size) fun i =>
    if h : off ≤ i.val ∧ i.val - off < src.size then src[i.val - off]'h.2 else dst[i]

/-- `copy(dst[off:lim], src)`. -/
def copyAtLim {α : Type} (dst : Array α) (off lim : Nat) (src : Array α) : Array α :=
  Array.ofFn (n := dst.size) fun i =>
    if h : off ≤ i.val ∧ i.val < lim ∧ i.val - off < src.size then src[i.val - off]'h.2.2 else dst[i]

/-- Big-endian bytes of a natural number without leading zeros (empty for 0). -/
def natBytesBE (n : Nat) : List (BitVec 8) :=
  if _h : n = 0 then [] else natBytesBE (n / 256) ++ [BitVec.ofNat 8 n]
decreasing_by omega

/-- `(*big.Int).Bytes()`: the big-endian bytes of the absolute value. -/
def bigBytes (v : Int) : Array (BitVec 8) := (natBytesBE v.natAbs).toArray

/-- `*mpa.Int` (compiler/mpa/mpint.go): `(bits, i64, values)`; `values : *big.Int` is `none` for nil. -/
abbrev MpaInt := BitVec 32 × BitVec 64 × Option Int

/-- `*p2p.Conn` (p2p/protocol.go): `(WriteBuf, WritePos, ReadBuf, ReadStart, ReadEnd)`; the transport, the
writer goroutine's channels and the statistics are not represented (`Flush` / `Fill` are parameters). -/
abbrev ConnS := Array (BitVec 8) × BitVec 64 × Array (BitVec 8) × BitVec 64 × BitVec 64

end Mpc.Gen

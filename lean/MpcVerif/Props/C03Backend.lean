/-
C03, back end: SSA -> gates.  Property theorems only; the model is
Model/SsaCircuit.lean (`ssaCompile`, mirror of `ssa.Program.Circuit`), the
proofs are in Proofs/SsaCircuit.lean.

FULL STATEMENT (what C03 asks of the back end): for every SSA step list that
`ssa.Program.Circuit` accepts, every compilation target and every input, the
circuit it generates computes the SSA semantics `ssaEval` of the step list.

PROVED HERE (`C03_backend_correct`): exactly that, for every step list, both
targets and every input, under the hypothesis `Supported gmw ins steps`
(Model/SsaCircuit.lean, decidable, evaluated by the driver on every program of
the tie; tag `S` in the check's coverage):
  * every step satisfies the instruction-set predicate `instrOK gmw`:
      INCLUDED  add sub mul (Yao: ripple adder/subtractor, Karatsuba + array
                multiplier; GMW: Kogge-Stone, Wallace), udiv umod idiv imod on the
                Yao target (long divider), band bor bxor bclr, ilt ile igt ige ult
                ule ugt uge at all operand widths (operands zero padded to the
                common width, which is what the code does and what `evalOp`
                specifies), eq neq, land lor lnot, phi (MUX), index with an index
                operand of at most ceil(log2 n) wires, the re-wiring instructions
                mov smov lshift rshift srshift slice concat amov, ret; variables,
                integer constants (incl. the re-sizing / sign extension of shared
                `$n` constants) and bit patterns as operands;
      EXCLUDED  udiv umod idiv imod on the GMW target (Goldschmidt divider: no
                exactness theorem in C07); idiv with a result wider than its
                operands; index with a wider index operand, an empty array or an
                empty index (NewIndex reads only ceil(log2 n) index bits, `evalOp`
                yields 0 for every out-of-range index); zero-width operands or
                results of adders, multipliers, dividers, comparators.  Opcodes the
                dump does not carry at all (bts, btc, circ, builtin) make the
                harness skip the program (counted);
  * the model applies (`ssaCompile ≠ none`): steps in definition-before-use
    order, integer constants registered in `prog.Constants`, a value is used at
    the width it was defined with, operand shapes that the Go code accepts
    (e.g. result width 1 for comparisons, `len x + len y = len out` for concat,
    result width ≤ operand width for the bitwise builders), `ret` is the last
    step, at least one input wire.
The circuit is the gate list `cc.Gates` that `Program.Circuit` emits, i.e. the
circuit BEFORE the optimisation passes (ConstPropagate, ShortCircuitXORZero,
Prune) and before `cc.Compile`'s renumbering; `C09_pipeline_preserves`
(Props/C09.lean) carries the result across those passes.  Evaluation is the
`evalGates` of C07 (`St.val`), bridged to `Circuit.plainEval` (the model of
`circuit.Circuit.Compute`, C01) by `C03_backend_plainEval`.

`ssaEval` is undefined (`none`) on a division by zero; nothing is claimed for
such inputs (MPCL gives them no meaning).

Tie to /repo: on every C03 run, for generated programs, grid programs and the
shipped programs, on both targets, the REAL `cc.Gates` for the dumped step
list equals `ssaCompile steps` gate for gate under first-occurrence numbering
(harness/cmd/c03/backend.go, lean/Driver/C03Backend.lean).
-/
import MpcVerif.Proofs.SsaCircuit
import MpcVerif.Proofs.BuildersBridge

namespace Mpc
open Mpc.Bld Mpc.Mpcl Mpc.Mpcl.Ssa Mpc.SsaC

/-- **Back-end correctness.**  For every step list in the supported set, both
targets and every argument tuple on which the SSA semantics is defined, the
generated gate list evaluates to exactly `ssaEval ins steps args` (a list of
(wire pattern, width) per `ret` operand). -/
theorem C03_backend_correct (gmw : Bool) (ins : List (Nat × Nat)) (steps : List SInstr)
    (hsup : Supported gmw ins steps = true) (args : List Nat) (r : List (Nat × Nat))
    (hr : ssaEval (Nat → Nat) ins steps args = some r) :
    ssaCircuitEval gmw ins steps args = some r := by
  simp only [Supported, Bool.and_eq_true, Option.isSome_iff_exists] at hsup
  obtain ⟨hall, ⟨s, outs⟩, hc⟩ := hsup
  have := (ssaCompile_sound gmw ins steps hall s outs hc args r hr).2
  simp only [ssaCircuitEval, hc, Option.map_some, Option.some.injEq]
  rw [← this]
  rfl

/-- The same on the C01 evaluator: `Circuit.plainEval` (the model of
`circuit.Circuit.Compute`'s gate loop) on the generated gate list delivers
`ssaEval`'s result on the output buses. -/
theorem C03_backend_plainEval (gmw : Bool) (ins : List (Nat × Nat)) (steps : List SInstr)
    (hsup : Supported gmw ins steps = true) (args : List Nat) (r : List (Nat × Nat))
    (hr : ssaEval (Nat → Nat) ins steps args = some r) :
    ∃ s outs, ssaCompile gmw ins steps = some (s, outs) ∧
      outs.map (fun ws => (toNat (ws.map ((s.toCircuit outs.flatten.length).plainEval (inputBits ins args)).get),
        ws.length)) = r := by
  simp only [Supported, Bool.and_eq_true, Option.isSome_iff_exists] at hsup
  obtain ⟨hall, ⟨s, outs⟩, hc⟩ := hsup
  obtain ⟨hwf, hv⟩ := ssaCompile_sound gmw ins steps hall s outs hc args r hr
  refine ⟨s, outs, hc, ?_⟩
  rw [← hv]
  apply List.map_congr_left
  intro ws _
  congr 2
  apply List.map_congr_left
  intro w _
  exact plainEval_eq_val s _ hwf _ w

/-! ### non-vacuity: a concrete program in the supported set, compiled and
evaluated by the kernel -/

/-- `func main(a, b uint4) (uint4, uint6) { c := a + b; d := c - a; e := (c & b) | (d ^ a); return e, uint6(c) }`
as the compiler's SSA step list (8 steps). -/
def exProg : List SInstr :=
  [⟨.add, [.var 0 4, .var 1 4], some (2, 4)⟩,
   ⟨.sub, [.var 2 4, .var 0 4], some (3, 4)⟩,
   ⟨.band, [.var 2 4, .var 1 4], some (4, 4)⟩,
   ⟨.bxor, [.var 3 4, .var 0 4], some (5, 4)⟩,
   ⟨.bor, [.var 4 4, .var 5 4], some (6, 4)⟩,
   ⟨.mov, [.var 2 4], some (7, 6)⟩,
   ⟨.mov, [.var 6 4], some (8, 4)⟩,
   ⟨.ret, [.var 8 4, .var 7 6], none⟩]

def exIns : List (Nat × Nat) := [(0, 4), (1, 4)]

example : Supported false exIns exProg = true := by decide +kernel
example : Supported true exIns exProg = true := by decide +kernel
-- a = 11, b = 9: c = 4, d = 9, e = (4 & 9) | (9 ^ 11) = 2
example : ssaEval (Nat → Nat) exIns exProg [11, 9] = some [(2, 4), (4, 6)] := by decide +kernel
example : ssaCircuitEval false exIns exProg [11, 9] = some [(2, 4), (4, 6)] := by decide +kernel
example : ssaCircuitEval true exIns exProg [11, 9] = some [(2, 4), (4, 6)] := by decide +kernel
example : ((ssaCompile false exIns exProg).map fun r => r.1.gates.size) = some 64 := by decide +kernel

/-- A second program (12 steps, 158 gates on the Yao target): multiplier, long
divider with a constant divisor, signed comparison with a re-sized shared
constant, unsigned comparison, MUX, slice, shifts, sign extension, concat, amov. -/
def exProg2 : List SInstr :=
  [⟨.mul, [.var 0 3, .var 1 3], some (3, 3)⟩,
   ⟨.udiv, [.var 0 3, .const 3 32 32 false 3], some (4, 3)⟩,
   ⟨.ilt, [.var 2 3, .const 1 32 32 true 3], some (5, 1)⟩,
   ⟨.ult, [.var 0 3, .var 1 3], some (6, 1)⟩,
   ⟨.phi, [.var 5 1, .var 3 3, .var 4 3], some (7, 3)⟩,
   ⟨.slice, [.var 7 3, .k 1, .k 3], some (8, 2)⟩,
   ⟨.lshift, [.var 1 3, .k 2], some (9, 3)⟩,
   ⟨.srshift, [.var 2 3, .k 1], some (10, 3)⟩,
   ⟨.smov, [.var 2 3], some (11, 5)⟩,
   ⟨.concat, [.var 8 2, .var 9 3], some (12, 5)⟩,
   ⟨.amov, [.var 8 2, .var 3 3, .k 1, .k 3], some (13, 3)⟩,
   ⟨.ret, [.var 12 5, .var 10 3, .var 11 5, .var 6 1, .var 13 3], none⟩]

def exIns2 : List (Nat × Nat) := [(0, 3), (1, 3), (2, 3)]

example : Supported false exIns2 exProg2 = true := by decide +kernel
-- the divider is outside the theorem on the GMW target
example : Supported true exIns2 exProg2 = false := by decide +kernel
-- a = 5, b = 6, c = -3
example : ssaEval (Nat → Nat) exIns2 exProg2 [5, 6, 5] = some [(3, 5), (6, 3), (29, 5), (1, 1), (6, 3)] := by
  decide +kernel
example : ssaCircuitEval false exIns2 exProg2 [5, 6, 5] = some [(3, 5), (6, 3), (29, 5), (1, 1), (6, 3)] := by
  decide +kernel
example : ((ssaCompile false exIns2 exProg2).map fun r => r.1.gates.size) = some 158 := by decide +kernel

/-- Signed long division (`int2 a / b`, `a % b`): defined exactly for `b ≠ 0`. -/
def exProg3 : List SInstr :=
  [⟨.idiv, [.var 0 2, .var 1 2], some (2, 2)⟩,
   ⟨.imod, [.var 0 2, .var 1 2], some (3, 2)⟩,
   ⟨.ret, [.var 2 2, .var 3 2], none⟩]

def exIns3 : List (Nat × Nat) := [(0, 2), (1, 2)]

example : Supported false exIns3 exProg3 = true := by decide +kernel
-- -2 / -1 = 2 (wraps to -2 = 0b10), |-2| mod |-1| = 0
example : ssaEval (Nat → Nat) exIns3 exProg3 [2, 3] = some [(2, 2), (0, 2)] := by decide +kernel
example : ssaCircuitEval false exIns3 exProg3 [2, 3] = some [(2, 2), (0, 2)] := by decide +kernel
-- division by zero: the SSA semantics is undefined, the theorem claims nothing (the circuit yields some value)
example : ssaEval (Nat → Nat) exIns3 exProg3 [2, 0] = none := by decide +kernel

/-- Remainder, array element by a variable index, and-not, not, `!=`, `||`. -/
def exProg4 : List SInstr :=
  [⟨.umod, [.var 0 3, .const 3 32 32 false 3], some (6, 3)⟩,
   ⟨.index, [.var 2 4, .k 0, .var 3 1, .k 2], some (7, 2)⟩,
   ⟨.bclr, [.var 0 3, .var 1 3], some (8, 3)⟩,
   ⟨.lnot, [.var 8 3], some (9, 3)⟩,
   ⟨.neq, [.var 1 3, .var 6 3], some (10, 1)⟩,
   ⟨.lor, [.var 10 1, .var 3 1], some (11, 1)⟩,
   ⟨.ret, [.var 7 2, .var 9 3, .var 11 1], none⟩]

def exIns4 : List (Nat × Nat) := [(0, 3), (1, 3), (2, 4), (3, 1)]

example : Supported false exIns4 exProg4 = true := by decide +kernel
example : ssaEval (Nat → Nat) exIns4 exProg4 [6, 5, 9, 1] = some [(2, 2), (5, 3), (1, 1)] := by decide +kernel
example : ssaCircuitEval false exIns4 exProg4 [6, 5, 9, 1] = some [(2, 2), (5, 3), (1, 1)] := by decide +kernel

/-- The two width exclusions of the instruction-set predicate are necessary:
outside them the generated circuit and `evalOp` (Model/MpclSsa.lean) disagree.
(1) `index` into a 2-element array with a 2-wire index operand, index 2 (out
of range, undefined in MPCL): `NewIndex` reads one index bit and delivers
element 0, `evalOp` says 0.  (2) `idiv` with a 4-bit result from 2-bit
operands, `-1 / 1`: `NewIDivider` negates at the result width (`-1` = 15),
`evalOp` reduces the 2-bit quotient (3).  Neither shape is emitted by the
compiler for the programs of the tie (tags `U:index`, `U:idiv` count them). -/
theorem C03_backend_exclusions_necessary :
    (Supported false [(0, 4), (1, 2)]
        [⟨.index, [.var 0 4, .k 0, .var 1 2, .k 2], some (2, 2)⟩, ⟨.ret, [.var 2 2], none⟩] = false ∧
      ssaCircuitEval false [(0, 4), (1, 2)]
        [⟨.index, [.var 0 4, .k 0, .var 1 2, .k 2], some (2, 2)⟩, ⟨.ret, [.var 2 2], none⟩] [9, 2] = some [(1, 2)] ∧
      ssaEval (Nat → Nat) [(0, 4), (1, 2)]
        [⟨.index, [.var 0 4, .k 0, .var 1 2, .k 2], some (2, 2)⟩, ⟨.ret, [.var 2 2], none⟩] [9, 2] = some [(0, 2)]) ∧
    (Supported false [(0, 2), (1, 2)]
        [⟨.idiv, [.var 0 2, .var 1 2], some (2, 4)⟩, ⟨.ret, [.var 2 4], none⟩] = false ∧
      ssaCircuitEval false [(0, 2), (1, 2)]
        [⟨.idiv, [.var 0 2, .var 1 2], some (2, 4)⟩, ⟨.ret, [.var 2 4], none⟩] [3, 1] = some [(15, 4)] ∧
      ssaEval (Nat → Nat) [(0, 2), (1, 2)]
        [⟨.idiv, [.var 0 2, .var 1 2], some (2, 4)⟩, ⟨.ret, [.var 2 4], none⟩] [3, 1] = some [(3, 4)]) := by
  decide +kernel

end Mpc

/-
C08  Compilation is deterministic.

Statement of the property (fixed): compiling the same MPCL source with the
same parameters and input sizes always yields the byte-identical circuit and
the same SSA listing, across repeated compilations, fresh compiler instances
and separate processes.

Level "other".  A Lean model cannot exhibit Go's map iteration order or the
scheduler; what is logic is (1) whether each loop over a map computes
something that depends on the ORDER it is handed, and (2) whether a
compilation depends on STATE left behind by earlier compilations.  This file
holds, per map-range site of the compile path (the site list is extracted
from the source on every run and compared with checks/C08.py):

  * a permutation-invariance theorem  `∀ l₁ l₂, l₁.Perm l₂ → fold l₁ = fold l₂`
    under the hypothesis that the real code guarantees (and the harness
    re-checks on every compiled program), or
  * a refutation with a concrete witness where the loop body is not
    commutative — replayed on the real code by the oracle.

The FULL statement (equal circuit bytes and SSA text for every program,
history and schedule) is NOT a theorem here:

    ∀ src params sizes history₁ history₂ mapOrders₁ mapOrders₂,
      compile history₁ mapOrders₁ src = compile history₂ mapOrders₂ src

It is FALSE for the code as it is (`C08_init_order_dependent`,
`C08_history_dependent_init`, `C08_history_dependent_labels`,
`C08_parse_alias_order_dependent` are negation witnesses, each re-derived on
the real compiler by harness/cmd/c08).  What is proved instead is named
`…_partial` where it covers only part of the statement.
-/
import MpcVerif.Proofs.Determinism

namespace Mpc
open Mpc.Det

/-! ### Site: Program.DefineConstants (range prog.Constants) -/

/-- Whatever sorting algorithm `sort.Slice` is: two sorted permutations of the
handed-over constants are EQUAL when the names are pairwise distinct.  (The
map is keyed by the name, `gen.constants[c.Name]`, so they are; the harness
checks `key == Const.Name` on every compiled program.) -/
theorem C08_sorted_perm_unique (l s₁ s₂ : List Const) (hnd : (l.map Const.name).Nodup)
    (p₁ : s₁.Perm l) (p₂ : s₂.Perm l)
    (h₁ : s₁.Pairwise (fun a b => constLe a b = true)) (h₂ : s₂.Pairwise (fun a b => constLe a b = true)) :
    s₁ = s₂ :=
  sorted_perm_unique l s₁ s₂ hnd p₁ p₂ h₁ h₂

/-- Collect-then-sort-by-name does not depend on the order the map hands the
constants over. -/
theorem C08_defineConstants_perm_invariant (l₁ l₂ : List Const) (hp : l₁.Perm l₂)
    (hnd : (l₁.map Const.name).Nodup) :
    sortConsts l₁ = sortConsts l₂ ∧ defineConstants l₁ = defineConstants l₂ := by
  have h := sortConsts_perm_invariant l₁ l₂ hp hnd
  exact ⟨h, by simp [defineConstants, h]⟩

-- non-vacuity: a two-element map, both hand-over orders
example : sortConsts [⟨[36, 50], [false, true]⟩, ⟨[36, 49], [true]⟩] =
          sortConsts [⟨[36, 49], [true]⟩, ⟨[36, 50], [false, true]⟩] :=
  (C08_defineConstants_perm_invariant _ _ (List.Perm.swap _ _ _) (by decide)).1

/-- The hypothesis is needed ("iff"): with two entries of the same name the
result depends on the hand-over order. -/
theorem C08_defineConstants_needs_distinct_names :
    ∃ l₁ l₂ : List Const, l₁.Perm l₂ ∧ sortConsts l₁ ≠ sortConsts l₂ ∧ defineConstants l₁ ≠ defineConstants l₂ :=
  by
  -- both hand-over orders are already sorted (equal names), so sorting keeps them
  have s₁ : sortConsts [⟨[36, 49], [true]⟩, ⟨[36, 49], [false]⟩] = [⟨[36, 49], [true]⟩, ⟨[36, 49], [false]⟩] :=
    List.mergeSort_of_pairwise (by decide)
  have s₂ : sortConsts [⟨[36, 49], [false]⟩, ⟨[36, 49], [true]⟩] = [⟨[36, 49], [false]⟩, ⟨[36, 49], [true]⟩] :=
    List.mergeSort_of_pairwise (by decide)
  refine ⟨[⟨[36, 49], [true]⟩, ⟨[36, 49], [false]⟩], [⟨[36, 49], [false]⟩, ⟨[36, 49], [true]⟩],
    List.Perm.swap _ _ _, ?_, ?_⟩
  · rw [s₁, s₂]; decide
  · simp only [defineConstants, s₁, s₂]; decide

/-! ### Sites: Set.Array (sort by Value.ID), Params.SaveSymbolIDs (sort.Strings of the keys) -/

theorem C08_sortByKey_perm_invariant {α : Type} (key : α → Nat) (l₁ l₂ : List α) (hp : l₁.Perm l₂)
    (hnd : (l₁.map key).Nodup) : sortByKey key l₁ = sortByKey key l₂ :=
  sortByKey_perm_invariant key l₁ l₂ hp hnd

example : sortByKey (fun x : Nat × Nat => x.1) [(3, 0), (1, 7)] = sortByKey (fun x : Nat × Nat => x.1) [(1, 7), (3, 0)] :=
  C08_sortByKey_perm_invariant _ _ _ (List.Perm.swap _ _ _) (by decide)

/-! ### Sites: Type.String (range Types), peephole init (range operands) -/

/-- Searching a map for the key of a value: order independent when the values
are pairwise distinct (`types.Types` and `ssa.operands` are injective; the
harness checks `types.Types` at run time). -/
theorem C08_findKey_perm_invariant {κ υ : Type} [DecidableEq υ] (l₁ l₂ : List (κ × υ)) (t : υ)
    (hp : l₁.Perm l₂) (hnd : (l₁.map Prod.snd).Nodup) : findKey l₁ t = findKey l₂ t :=
  findKey_perm_invariant l₁ l₂ t hp hnd

example : findKey [("int", 2), ("uint", 3)] 3 = findKey [("uint", 3), ("int", 2)] 3 :=
  C08_findKey_perm_invariant _ _ _ (List.Perm.swap _ _ _) (by decide)

/-- … and order dependent otherwise. -/
theorem C08_findKey_needs_injective :
    ∃ (l₁ l₂ : List (Nat × Nat)) (t : Nat), l₁.Perm l₂ ∧ findKey l₁ t ≠ findKey l₂ t :=
  ⟨[(10, 3), (11, 3)], [(11, 3), (10, 3)], 3, List.Perm.swap _ _ _, by decide⟩

/-! ### Site: instructions.go init (maximum of the operand name lengths) -/

theorem C08_maxLen_perm_invariant (l₁ l₂ : List Nat) (hp : l₁.Perm l₂) : maxLen l₁ = maxLen l₂ :=
  maxLen_perm_invariant l₁ l₂ hp

example : maxLen [3, 7, 5] = 7 := by decide

/-! ### Sites: Set.Copy, Set.Subtract -/

/-- The entries of a Go map have pairwise distinct keys (`hnd` is a property
of every map, not an assumption about the program). -/
theorem C08_setCopy_perm_invariant {υ : Type} (l₁ l₂ : List (Nat × υ)) (hp : l₁.Perm l₂)
    (hnd : (l₁.map Prod.fst).Nodup) : setCopy l₁ = setCopy l₂ :=
  setCopy_perm_invariant l₁ l₂ hp hnd

theorem C08_setSubtract_perm_invariant {υ : Type} (set : Nat → Option υ) (l₁ l₂ : List Nat) (hp : l₁.Perm l₂) :
    setSubtract set l₁ = setSubtract set l₂ :=
  setSubtract_perm_invariant set l₁ l₂ hp

example : setCopy [(1, "a"), (2, "b")] 2 = some "b" := by decide

/-! ### Site: Package.Init (range pkg.Imports) — REFUTED -/

/-- `Package.Init` appends the initialiser block of every imported package to
the SSA program in the order the `Imports` map hands the aliases over, and the
anonymous values in those blocks are numbered by a generator-wide counter:
the emitted listing depends on the order.  Witness: `main` imports packages 1
and 2, each with one `make`-initialised package-level variable.  Observed on
the real compiler as differing SSA listings between processes and between
fresh instances (known finding C08-init-order-ssa-*). -/
theorem C08_init_order_dependent :
    ∃ (lib : List (Pkg Nat)) (i₁ i₂ : List Nat), i₁.Perm i₂ ∧
      (initPkg 4 (⟨0, i₁, 0, 0⟩ :: lib) 0 ⟨[], [], 0⟩).blocks ≠
      (initPkg 4 (⟨0, i₂, 0, 0⟩ :: lib) 0 ⟨[], [], 0⟩).blocks :=
  ⟨[⟨1, [], 1, 1⟩, ⟨2, [], 1, 1⟩], [1, 2], [2, 1], List.Perm.swap _ _ _, by decide⟩

-- the two listings of the witness
example : (initPkg 4 [⟨0, [1, 2], 0, 0⟩, ⟨1, [], 1, 1⟩, ⟨2, [], 1, 1⟩] 0 ⟨[], [], 0⟩).blocks
    = [(1, some 0), (2, some 1)] := by decide
example : (initPkg 4 [⟨0, [2, 1], 0, 0⟩, ⟨1, [], 1, 1⟩, ⟨2, [], 1, 1⟩] 0 ⟨[], [], 0⟩).blocks
    = [(2, some 0), (1, some 1)] := by decide

/-- The order is forced where the import graph forces it: if 2 imports 1, both
hand-over orders of main's imports give the same listing (this is why not
every program shows the defect). -/
example : (initPkg 4 [⟨0, [1, 2], 0, 0⟩, ⟨1, [], 1, 1⟩, ⟨2, [1], 1, 1⟩] 0 ⟨[], [], 0⟩).blocks =
          (initPkg 4 [⟨0, [2, 1], 0, 0⟩, ⟨1, [], 1, 1⟩, ⟨2, [1], 1, 1⟩] 0 ⟨[], [], 0⟩).blocks := by decide

/-! ### Site: Compiler.parse (range pkg.Imports) — order dependent when an alias names two paths -/

/-- `Compiler.packages` is keyed by the import ALIAS (last path element), and
`parsePkg` returns whatever is cached under the alias.  If two packages of the
import closure import different paths with the same last element (like
`math/rand` and `crypto/rand` in Go) the package that both end up using is the
one parsed first, i.e. it depends on the hand-over order of `main`'s imports.
Witness: main imports a (path 1) and b (path 2); a imports alias 9 = path 91,
b imports alias 9 = path 92.  Observed on the real compiler as DIFFERENT
CIRCUITS between processes (known finding C08-alias-collision). -/
theorem C08_parse_alias_order_dependent :
    ∃ (files : Nat → List (Nat × Nat)) (i₁ i₂ : List (Nat × Nat)), i₁.Perm i₂ ∧
      resolve (parseImports 3 files i₁ []) 9 ≠ resolve (parseImports 3 files i₂ []) 9 :=
  ⟨fun p => if p = 1 then [(9, 91)] else if p = 2 then [(9, 92)] else [],
   [(1, 1), (2, 2)], [(2, 2), (1, 1)], List.Perm.swap _ _ _, by decide⟩

/-- Without such a collision the witness graph parses to the same table in
both orders (non-vacuity of the hypothesis the harness checks on the library:
every alias names one path). -/
example :
    let files : Nat → List (Nat × Nat) := fun p => if p = 1 then [(9, 91)] else if p = 2 then [(9, 91)] else []
    ∀ a, resolve (parseImports 3 files [(1, 1), (2, 2)] []) a = resolve (parseImports 3 files [(2, 2), (1, 1)] []) a := by
  intro files a
  have h1 : parseImports 3 files [(1, 1), (2, 2)] [] = [(1, 1), (9, 91), (2, 2)] := by decide
  have h2 : parseImports 3 files [(2, 2), (1, 1)] [] = [(2, 2), (9, 91), (1, 1)] := by decide
  rw [h1, h2]
  simp only [resolve, List.find?]
  by_cases e1 : a = 1
  · subst e1; decide
  · by_cases e2 : a = 9
    · subst e2; decide
    · by_cases e3 : a = 2
      · subst e3; decide
      · have n1 : ¬ (1 = a) := fun h => e1 h.symm
        have n2 : ¬ (9 = a) := fun h => e2 h.symm
        have n3 : ¬ (2 = a) := fun h => e3 h.symm
        simp [n1, n2, n3]

/-! ### History independence (state kept in Compiler.packages) — REFUTED -/

/-- Second compilation on the same `Compiler`: the imported package is still
cached with `Initialized = true`, so `Package.Init` returns at once and the
package-level initialisers are NOT emitted again.  Witness: one library
package with one package-level variable.  On the real compiler the second
circuit is a different (and wrong) circuit, e.g. 130 gates instead of 108915
for apps/garbled/examples/aesexpand.mpcl (known finding
C08-recompile-pkg-init-skipped). -/
theorem C08_history_dependent_init :
    ∃ (lib : List (Pkg Nat)) (prog : Prog Nat),
      (compile lib Cache.empty prog).1.initBlocks ≠
      (compile lib (compile lib Cache.empty prog).2 prog).1.initBlocks :=
  ⟨[⟨1, [], 1, 0⟩], ⟨⟨0, [1], 0, 0⟩, [0], [0, 5]⟩, by decide⟩

/-- Second compilation on the same `Compiler`, SSA labels: `Func.NumInstances`
of the cached package's functions keeps counting (`F#0` then `F#1`).  Witness
without any package-level variable: only the labels differ (known finding
C08-recompile-func-instance-labels). -/
theorem C08_history_dependent_labels :
    ∃ (lib : List (Pkg Nat)) (prog : Prog Nat),
      (compile lib Cache.empty prog).1.initBlocks = (compile lib (compile lib Cache.empty prog).2 prog).1.initBlocks ∧
      (compile lib Cache.empty prog).1.funcLabels ≠ (compile lib (compile lib Cache.empty prog).2 prog).1.funcLabels :=
  ⟨[⟨1, [], 0, 0⟩], ⟨⟨0, [1], 0, 0⟩, [0], [0, 5]⟩, by decide, by decide⟩

example : (compileRepeated [⟨1, [], 1, 0⟩] ⟨⟨0, [1], 0, 0⟩, [0], [0, 5]⟩ 2 Cache.empty).map (·.funcLabels)
    = [[(0, 0), (5, 0)], [(0, 0), (5, 1)]] := by decide

/-- PARTIAL (history independence holds for programs without imports): the
`main` package is re-created by every compilation, so a program that imports
nothing and calls only its own functions compiles to the same output whatever
was compiled before.  Missing for the full statement: programs with imports
(false, see the two witnesses above). -/
theorem C08_history_independent_no_imports_partial {ν : Type} [DecidableEq ν]
    (lib : List (Pkg ν)) (c₁ c₂ : Cache ν) (prog : Prog ν)
    (himp : prog.main.imports = []) (hcalls : ∀ f, f ∈ prog.calls → f ∈ prog.mainFuncs) :
    (compile lib c₁ prog).1 = (compile lib c₂ prog).1 :=
  compile_no_imports lib c₁ c₂ prog himp hcalls

example : (compile [⟨1, [], 1, 0⟩] ⟨[1], fun _ => 7⟩ ⟨⟨0, [], 1, 0⟩, [0], [0, 0]⟩).1
        = (compile [⟨1, [], 1, 0⟩] Cache.empty ⟨⟨0, [], 1, 0⟩, [0], [0, 0]⟩).1 :=
  C08_history_independent_no_imports_partial _ _ _ _ rfl (by decide)

/-- The proposed repair (start every `compile`/`CompileSSA`/`Stream` from an
empty `packages` map) makes the output independent of the history for every
program — by construction of `compileFixed`; stated to document the patch. -/
theorem C08_fixed_history_independent {ν : Type} [DecidableEq ν]
    (lib : List (Pkg ν)) (c₁ c₂ : Cache ν) (prog : Prog ν) :
    (compileFixed lib c₁ prog).1 = (compileFixed lib c₂ prog).1 := rfl

end Mpc

/-
C08  Compilation is deterministic.

Statement of the property (fixed): compiling the same MPCL source with the
same parameters and input sizes always yields the byte-identical circuit and
the same SSA listing, across repeated compilations, fresh compiler instances
and separate processes.

Level "other".  A Lean model cannot exhibit Go's map iteration order or the
scheduler; what is logic is (1) whether each loop over a map computes
something that depends on the ORDER it is handed, and (2) whether a
compilation depends on STATE left behind by earlier compilations.  This file
holds, per map-range site of the compile path (the site list is extracted
from the source on every run and compared with checks/C08.py), a
permutation-invariance theorem `∀ l₁ l₂, l₁.Perm l₂ → fold l₁ = fold l₂` under
the hypothesis that the real code guarantees (and the harness re-checks on
every compiled program), and for the state kept by a `Compiler` the
history-independence theorem.

The FULL statement (equal circuit bytes and SSA text for every program,
history and schedule)

    ∀ src params sizes history₁ history₂ mapOrders₁ mapOrders₂,
      compile history₁ mapOrders₁ src = compile history₂ mapOrders₂ src

is carried as follows.  History: `C08_history_independent` (full, for the
abstraction of a compilation to its package-initialiser blocks and function
labels).  Map orders: every enumerated site is invariant
(`C08_init_perm_invariant`, `C08_parse_perm_invariant`, `C08_sortedImports_…`,
`C08_defineConstants_…`, `C08_findKey_…`, …).  Process state (what survives
in package-level variables between compilations of one process, fresh
`Compiler`s included): `C08_step_independent_of_process_state` for the step of
the code as it is (a function of source, parameters, process state that never
looks at the state — tied by the pinned list of package-level variables and
the `phist` correspondence), and for any memoising facility the exact
condition: invisible iff the stored object is a function of the key
(`C08_memo_keyed_by_object_history_independent`,
`C08_memo_coarse_key_history_dependent`; instance: the divider of
`mpa.Int.Div/Mod`, `C08_divider_keyed_by_max_width_history_dependent`).
All step kinds (what the process did
before is not only compilations: streaming sessions, CompileSSA, Compute,
Garble/Eval, Marshal/Parse — Model/ProcSteps.lean):
`C08_all_step_kinds_history_independent` (every kind leaves what a compilation
reads unchanged ⇒ history independent over histories of ALL kinds),
`C08_stepNowK_independent_of_process_state` (the code as it is: a new wire
allocator per program), and for a process-wide allocator pool the exact
condition: invisible iff `Release` empties the free lists or no streaming
session ever ran (`C08_pooled_allocator_cleared_history_independent`,
`C08_pooled_allocator_invisible_without_streaming`,
`C08_pooled_allocator_keeping_free_lists_history_dependent`).
Concurrent history elements (a process that compiles several programs
at the same time, each with its own Compiler and Params, shares the process
state only — Model/ProcConc.lean: a step is a sequence of atomic micro-steps, an
element runs its steps under a schedule):
`C08_concurrent_interleavings_frame` (micro-steps leave what they read
unchanged ⇒ under EVERY schedule every task gives its solo outputs),
`C08_concurrent_history_solo_outputs` (the code as it is, over histories of
concurrent elements of all step kinds), and for a package-level scratch cell
that every constant's name passes through:
`C08_shared_scratch_sequential_invisible` (no sequential history can see it),
`C08_shared_scratch_interleaving_dependent` (an interleaving does).
Operand widths (the property quantifies over all programs): a builder that
reads a package-level table keyed by the width (Model/WidthTable.lean) -
`C08_multiplier_table_perm_invariant` (the lookup by key of the code as it is),
`C08_nearest_key_perm_invariant` / `C08_nearest_key_tie_order_dependent` (a
lookup by the closest key is order independent iff all closest keys carry one
value or ties are broken by a total order on the keys).
NOT a theorem: that nothing
outside the enumerated sites and the modelled state influences the bytes
(directory listing order, pointer values, scheduler) — that part is the
cross-process oracle of harness/cmd/c08.

History of the code.  Until /repo 1e863b8 a second compilation on one
`Compiler` skipped the package initialisers (`Package.Initialized`) and kept
counting `Func.NumInstances`; until 6aa1568 `Package.Init` and
`Compiler.parse` ranged over the `Imports` map.  The negation witnesses are
kept, about the explicitly named old definitions only
(`C08_old_init_order_dependent`, `C08_old_parse_alias_order_dependent`,
`C08_old_history_dependent_init`, `C08_old_history_dependent_labels`); the
structural facts of checks/C08.py require both repairs to be present.

Observation (not a determinism defect any more, hence not a C08 finding):
`Compiler.packages` / `Codegen.Packages` are keyed by the import ALIAS (last
path element).  If two packages of an import closure import different paths
with the same last element (the analogue of math/rand and crypto/rand) both
importers get the package that is parsed first — since 6aa1568 always the same
one (`C08_parse_perm_invariant`), so every process builds the same circuit,
but one importer is bound to the wrong package (`C08_alias_resolution_observation`).
No two packages of /repo/pkg share a last path element (checked on every run).
-/
import MpcVerif.Proofs.Determinism
import MpcVerif.Proofs.ProcState
import MpcVerif.Proofs.ProcSteps
import MpcVerif.Proofs.ProcConc
import MpcVerif.Proofs.WidthTable

namespace Mpc
open Mpc.Det
open Mpc.PSt

/-! ### Site: Program.DefineConstants (range prog.Constants) -/

/-- Whatever sorting algorithm `sort.Slice` is: two sorted permutations of the
handed-over constants are EQUAL when the names are pairwise distinct.  (The
map is keyed by the name, `gen.constants[c.Name]`, so they are; the harness
checks `key == Const.Name` on every compiled program.) -/
theorem C08_sorted_perm_unique (l s₁ s₂ : List Const) (hnd : (l.map Const.name).Nodup)
    (p₁ : s₁.Perm l) (p₂ : s₂.Perm l)
    (h₁ : s₁.Pairwise (fun a b => constLe a b = true)) (h₂ : s₂.Pairwise (fun a b => constLe a b = true)) :
    s₁ = s₂ :=
  sorted_perm_unique l s₁ s₂ hnd p₁ p₂ h₁ h₂

/-- Collect-then-sort-by-name does not depend on the order the map hands the
constants over. -/
theorem C08_defineConstants_perm_invariant (l₁ l₂ : List Const) (hp : l₁.Perm l₂)
    (hnd : (l₁.map Const.name).Nodup) :
    sortConsts l₁ = sortConsts l₂ ∧ defineConstants l₁ = defineConstants l₂ := by
  have h := sortConsts_perm_invariant l₁ l₂ hp hnd
  exact ⟨h, by simp [defineConstants, h]⟩

-- non-vacuity: a two-element map, both hand-over orders
example : sortConsts [⟨[36, 50], [false, true]⟩, ⟨[36, 49], [true]⟩] =
          sortConsts [⟨[36, 49], [true]⟩, ⟨[36, 50], [false, true]⟩] :=
  (C08_defineConstants_perm_invariant _ _ (List.Perm.swap _ _ _) (by decide)).1

/-- The hypothesis is needed ("iff"): with two entries of the same name the
result depends on the hand-over order. -/
theorem C08_defineConstants_needs_distinct_names :
    ∃ l₁ l₂ : List Const, l₁.Perm l₂ ∧ sortConsts l₁ ≠ sortConsts l₂ ∧ defineConstants l₁ ≠ defineConstants l₂ :=
  by
  -- both hand-over orders are already sorted (equal names), so sorting keeps them
  have s₁ : sortConsts [⟨[36, 49], [true]⟩, ⟨[36, 49], [false]⟩] = [⟨[36, 49], [true]⟩, ⟨[36, 49], [false]⟩] :=
    List.mergeSort_of_pairwise (by decide)
  have s₂ : sortConsts [⟨[36, 49], [false]⟩, ⟨[36, 49], [true]⟩] = [⟨[36, 49], [false]⟩, ⟨[36, 49], [true]⟩] :=
    List.mergeSort_of_pairwise (by decide)
  refine ⟨[⟨[36, 49], [true]⟩, ⟨[36, 49], [false]⟩], [⟨[36, 49], [false]⟩, ⟨[36, 49], [true]⟩],
    List.Perm.swap _ _ _, ?_, ?_⟩
  · rw [s₁, s₂]; decide
  · simp only [defineConstants, s₁, s₂]; decide

/-! ### Sites: Set.Array (sort by Value.ID), Params.SaveSymbolIDs (sort.Strings of the keys) -/

theorem C08_sortByKey_perm_invariant {α : Type} (key : α → Nat) (l₁ l₂ : List α) (hp : l₁.Perm l₂)
    (hnd : (l₁.map key).Nodup) : sortByKey key l₁ = sortByKey key l₂ :=
  sortByKey_perm_invariant key l₁ l₂ hp hnd

example : sortByKey (fun x : Nat × Nat => x.1) [(3, 0), (1, 7)] = sortByKey (fun x : Nat × Nat => x.1) [(1, 7), (3, 0)] :=
  C08_sortByKey_perm_invariant _ _ _ (List.Perm.swap _ _ _) (by decide)

/-! ### Sites: Type.String (range Types), peephole init (range operands) -/

/-- Searching a map for the key of a value: order independent when the values
are pairwise distinct (`types.Types` and `ssa.operands` are injective; the
harness checks `types.Types` at run time). -/
theorem C08_findKey_perm_invariant {κ υ : Type} [DecidableEq υ] (l₁ l₂ : List (κ × υ)) (t : υ)
    (hp : l₁.Perm l₂) (hnd : (l₁.map Prod.snd).Nodup) : findKey l₁ t = findKey l₂ t :=
  findKey_perm_invariant l₁ l₂ t hp hnd

example : findKey [("int", 2), ("uint", 3)] 3 = findKey [("uint", 3), ("int", 2)] 3 :=
  C08_findKey_perm_invariant _ _ _ (List.Perm.swap _ _ _) (by decide)

/-- … and order dependent otherwise. -/
theorem C08_findKey_needs_injective :
    ∃ (l₁ l₂ : List (Nat × Nat)) (t : Nat), l₁.Perm l₂ ∧ findKey l₁ t ≠ findKey l₂ t :=
  ⟨[(10, 3), (11, 3)], [(11, 3), (10, 3)], 3, List.Perm.swap _ _ _, by decide⟩

/-! ### Site: instructions.go init (maximum of the operand name lengths) -/

theorem C08_maxLen_perm_invariant (l₁ l₂ : List Nat) (hp : l₁.Perm l₂) : maxLen l₁ = maxLen l₂ :=
  maxLen_perm_invariant l₁ l₂ hp

example : maxLen [3, 7, 5] = 7 := by decide

/-! ### Sites: Set.Copy, Set.Subtract -/

/-- The entries of a Go map have pairwise distinct keys (`hnd` is a property
of every map, not an assumption about the program). -/
theorem C08_setCopy_perm_invariant {υ : Type} (l₁ l₂ : List (Nat × υ)) (hp : l₁.Perm l₂)
    (hnd : (l₁.map Prod.fst).Nodup) : setCopy l₁ = setCopy l₂ :=
  setCopy_perm_invariant l₁ l₂ hp hnd

theorem C08_setSubtract_perm_invariant {υ : Type} (set : Nat → Option υ) (l₁ l₂ : List Nat) (hp : l₁.Perm l₂) :
    setSubtract set l₁ = setSubtract set l₂ :=
  setSubtract_perm_invariant set l₁ l₂ hp

example : setCopy [(1, "a"), (2, "b")] 2 = some "b" := by decide

/-! ### Site: Package.SortedImports (range pkg.Imports: collect the aliases, sort.Strings) -/

/-- The alias list `Package.Init` and `Compiler.parse` iterate does not depend
on the order the `Imports` map hands the aliases over. -/
theorem C08_sortedImports_perm_invariant {ν : Type} (le : ν → ν → Bool) (h : IsOrder le) (l₁ l₂ : List ν)
    (hp : l₁.Perm l₂) : sortedImports le l₁ = sortedImports le l₂ :=
  sortedImports_perm_invariant le h l₁ l₂ hp

/-- Go's string order (byte-wise) is such an order. -/
theorem C08_bytesLe_isOrder : IsOrder bytesLe := bytesLe_isOrder

example : sortedImports bytesLe [[104, 101, 120], [97, 101, 115]] = sortedImports bytesLe [[97, 101, 115], [104, 101, 120]] :=
  C08_sortedImports_perm_invariant _ C08_bytesLe_isOrder _ _ (List.Perm.swap _ _ _)

/-! ### Package.Init (iterates pkg.SortedImports() since 6aa1568) -/

/-- `Package.Init` emits the same initialiser blocks, with the same
anonymous-value numbers, whatever order every package's `Imports` map hands
its aliases over (`LibRel`: same packages, import lists permuted). -/
theorem C08_init_perm_invariant {ν : Type} [DecidableEq ν] (le : ν → ν → Bool) (hle : IsOrder le)
    (lib₁ lib₂ : List (Pkg ν)) (h : LibRel lib₁ lib₂) (fuel : Nat) (p : ν) (st : GenSt ν) :
    initPkg le fuel lib₁ p st = initPkg le fuel lib₂ p st :=
  initPkg_lib_invariant le hle h fuel p st

-- non-vacuity: the witness of the old defect, both hand-over orders
example : (initPkg (fun a b : Nat => decide (a ≤ b)) 4 [⟨0, [1, 2], 0, 0⟩, ⟨1, [], 1, 1⟩, ⟨2, [], 1, 1⟩] 0 ⟨[], [], 0⟩).blocks
    = [(1, some 0), (2, some 1)] := by decide
example : (initPkg (fun a b : Nat => decide (a ≤ b)) 4 [⟨0, [2, 1], 0, 0⟩, ⟨1, [], 1, 1⟩, ⟨2, [], 1, 1⟩] 0 ⟨[], [], 0⟩).blocks
    = [(1, some 0), (2, some 1)] := by decide
example : LibRel [(⟨0, [1, 2], 0, 0⟩ : Pkg Nat), ⟨1, [], 1, 1⟩] [⟨0, [2, 1], 0, 0⟩, ⟨1, [], 1, 1⟩] :=
  .cons ⟨rfl, rfl, rfl, List.Perm.swap _ _ _⟩ (.cons ⟨rfl, rfl, rfl, List.Perm.refl _⟩ .nil)

/-- OLD definition (before 6aa1568, `for alias, name := range pkg.Imports`):
the emitted listing depended on the hand-over order.  Witness: `main` imports
packages 1 and 2, each with one `make`-initialised package-level variable.
Was observed on the real compiler as differing SSA listings between processes
and fresh instances (findings C08-init-order-ssa-*, fixed). -/
theorem C08_old_init_order_dependent :
    ∃ (lib : List (Pkg Nat)) (i₁ i₂ : List Nat), i₁.Perm i₂ ∧
      (initPkgOld 4 (⟨0, i₁, 0, 0⟩ :: lib) 0 ⟨[], [], 0⟩).blocks ≠
      (initPkgOld 4 (⟨0, i₂, 0, 0⟩ :: lib) 0 ⟨[], [], 0⟩).blocks :=
  ⟨[⟨1, [], 1, 1⟩, ⟨2, [], 1, 1⟩], [1, 2], [2, 1], List.Perm.swap _ _ _, by decide⟩

/-! ### Compiler.parse (iterates pkg.SortedImports() since 6aa1568) -/

/-- The alias→path table built by `parse`/`parsePkg` does not depend on the
hand-over order of any `Imports` map of the closure (`files₁ p ~ files₂ p`),
even when an alias names two paths. -/
theorem C08_parse_perm_invariant {α π : Type} [DecidableEq α] (le : α → α → Bool) (h : IsOrder le)
    (files₁ files₂ : π → List (α × π))
    (hf : ∀ p, (files₁ p).Perm (files₂ p) ∧ ((files₁ p).map Prod.fst).Nodup)
    (fuel : Nat) (i₁ i₂ cache : List (α × π)) (hp : i₁.Perm i₂) (hnd : (i₁.map Prod.fst).Nodup) :
    parseImports le fuel files₁ i₁ cache = parseImports le fuel files₂ i₂ cache :=
  parseImports_perm_invariant le h files₁ files₂ hf fuel i₁ i₂ cache hp hnd

/-- OLD definition (before 6aa1568): with an alias naming two paths the
package both importers ended up with depended on the hand-over order of
`main`'s imports.  Witness: main imports a (path 1) and b (path 2); a imports
alias 9 = path 91, b imports alias 9 = path 92.  Was observed as DIFFERENT
CIRCUITS between processes on generated programs. -/
theorem C08_old_parse_alias_order_dependent :
    ∃ (files : Nat → List (Nat × Nat)) (i₁ i₂ : List (Nat × Nat)), i₁.Perm i₂ ∧
      resolve (parseImportsOld 3 files i₁ []) 9 ≠ resolve (parseImportsOld 3 files i₂ []) 9 :=
  ⟨fun p => if p = 1 then [(9, 91)] else if p = 2 then [(9, 92)] else [],
   [(1, 1), (2, 2)], [(2, 2), (1, 1)], List.Perm.swap _ _ _, by decide⟩

/-- Observation on the CURRENT definition (a resolution-correctness issue, not
a determinism defect): in the same witness both hand-over orders now resolve
alias 9 to path 91, so package b, which imports path 92 under alias 9, is
bound to the wrong package — deterministically. -/
theorem C08_alias_resolution_observation :
    let files : Nat → List (Nat × Nat) := fun p => if p = 1 then [(9, 91)] else if p = 2 then [(9, 92)] else []
    resolve (parseImports (fun a b => decide (a ≤ b)) 3 files [(1, 1), (2, 2)] []) 9 = some 91 ∧
    resolve (parseImports (fun a b => decide (a ≤ b)) 3 files [(2, 2), (1, 1)] []) 9 = some 91 := by
  decide +kernel

/-! ### History independence (state kept in Compiler.packages) -/

/-- FULL (for the code as it is, since 1e863b8): a compilation's output does
not depend on what earlier uses of the `Compiler` left behind, whatever they
were — successful compilations AND compilations that failed half-way (`Event`).
What makes this true is that `compile` / `CompileSSA` / `Stream` call
`c.resetPackages()` as their FIRST statement, before anything of `c.packages`
is read (required by the `codegen_entries` fact: reset before the first
`c.parse`): the proof is `rfl` because `compile` does not look at its cache
argument.  A reset placed later (e.g. after successful code generation) does
not give this theorem: `C08_reset_at_start_needed`. -/
theorem C08_history_independent {ν : Type} [DecidableEq ν] (le : ν → ν → Bool)
    (lib : List (Pkg ν)) (c₀ : Cache ν) (history : List (Event ν)) (prog : Prog ν) :
    (compile le lib (runHistory le lib c₀ history) prog).1 = (compile le lib Cache.empty prog).1 := rfl

-- non-vacuity: a failing compilation (stopped after 1 function instance) followed by a good one
example : (compile (fun a b : Nat => decide (a ≤ b)) [⟨1, [], 1, 0⟩]
      (runHistory (fun a b : Nat => decide (a ≤ b)) [⟨1, [], 1, 0⟩] Cache.empty
        [.failing ⟨⟨0, [1], 0, 0⟩, [0], [0, 5]⟩ 2]) ⟨⟨0, [1], 0, 0⟩, [0], [0, 5]⟩).1
    = ⟨[(1, none)], [(0, 0), (5, 0)]⟩ := by decide

/-- The reset must be at the START.  Hypothetical variant `compileResetOnSuccess`
(table dropped only after successful code generation): after a FAILING
compilation of a program importing package 1 the next, good compilation of the
same imports misses the package initialiser block and numbers the function
instance `5#1` — while after a successful compilation everything is as on a
fresh instance.  (Replayed on the real compiler by the failing-history oracle
of harness/cmd/c08/failhist.go.) -/
theorem C08_reset_at_start_needed :
    ∃ (lib : List (Pkg Nat)) (prog : Prog Nat),
      let le := fun a b : Nat => decide (a ≤ b)
      -- after a success: as fresh
      (compileResetOnSuccess le lib (stepResetOnSuccess le lib Cache.empty (.good prog)) prog).1
        = (compileResetOnSuccess le lib Cache.empty prog).1 ∧
      -- after a failure: different
      (compileResetOnSuccess le lib (stepResetOnSuccess le lib Cache.empty (.failing prog 2)) prog).1
        ≠ (compileResetOnSuccess le lib Cache.empty prog).1 :=
  ⟨[⟨1, [], 1, 0⟩], ⟨⟨0, [1], 0, 0⟩, [0], [0, 5]⟩, by decide, by decide⟩

/-- … hence k compilations on one `Compiler` all give the output of the first. -/
theorem C08_repeated_compilations_equal {ν : Type} [DecidableEq ν] (le : ν → ν → Bool)
    (lib : List (Pkg ν)) (prog : Prog ν) : ∀ (k : Nat) (c : Cache ν) (o : Output ν),
    o ∈ compileRepeated le lib prog k c → o = (compile le lib Cache.empty prog).1
  | 0, _, _, h => by simp [compileRepeated] at h
  | k + 1, c, o, h => by
    simp only [compileRepeated, List.mem_cons] at h
    rcases h with h | h
    · rw [h]; rfl
    · exact C08_repeated_compilations_equal le lib prog k _ o h

example : (compileRepeated (fun a b : Nat => decide (a ≤ b)) [⟨1, [], 1, 0⟩] ⟨⟨0, [1], 0, 0⟩, [0], [0, 5]⟩ 2 Cache.empty).map (·.funcLabels)
    = [[(0, 0), (5, 0)], [(0, 0), (5, 0)]] := by decide

/-- OLD definition (before 1e863b8): on a second compilation the imported
package was still cached with `Initialized = true`, so its package-level
initialisers were not emitted again (real compiler: 130 gates instead of
108915 for apps/garbled/examples/aesexpand.mpcl; finding
C08-recompile-pkg-init-skipped, fixed). -/
theorem C08_old_history_dependent_init :
    ∃ (lib : List (Pkg Nat)) (prog : Prog Nat),
      (compileOld lib Cache.empty prog).1.initBlocks ≠
      (compileOld lib (compileOld lib Cache.empty prog).2 prog).1.initBlocks :=
  ⟨[⟨1, [], 1, 0⟩], ⟨⟨0, [1], 0, 0⟩, [0], [0, 5]⟩, by decide⟩

/-- OLD definition (before 1e863b8): `Func.NumInstances` of the cached
package's functions kept counting (`F#0` then `F#1`; finding
C08-recompile-func-instance-labels, fixed). -/
theorem C08_old_history_dependent_labels :
    ∃ (lib : List (Pkg Nat)) (prog : Prog Nat),
      (compileOld lib Cache.empty prog).1.funcLabels ≠
      (compileOld lib (compileOld lib Cache.empty prog).2 prog).1.funcLabels :=
  ⟨[⟨1, [], 0, 0⟩], ⟨⟨0, [1], 0, 0⟩, [0], [0, 5]⟩, by decide⟩


/-! ### Process state: package-level variables of the compile path (Model/ProcState.lean)

`C08_history_independent` above is about what a `Compiler` keeps.  The property
also quantifies over everything else the PROCESS did before ("any number of
earlier compilations in the process", fresh instances included): a
compilation step is a function of (source, parameters, process state) and its
output must not depend on the process state.  The tie to the code is (1) the
structural fact that pins the package-level variables of the compile path (a
new one is a broken obligation and focuses the history search on the
facilities of its package), (2) the `phist` correspondence: the folded wide
constants of every compilation of real same-Compiler histories equal
`outputsAlong stepNow`, (3) the process-state oracle of harness/cmd/c08/pstate.go
(sibling groups, every history in its own process). -/

/-- FULL, for the code as it is: whatever the process compiled before (any two
histories, from any two initial states), the step's output for (source,
parameters) is the same, and the state is handed on untouched. -/
theorem C08_step_independent_of_process_state {σ π : Type} (st₁ st₂ : σ) (h₁ h₂ : List (Src × π))
    (src : Src) (par : π) :
    (stepNow src par (PSt.runHistory stepNow st₁ h₁)).1 = (stepNow src par (PSt.runHistory stepNow st₂ h₂)).1 ∧
    PSt.runHistory (stepNow (π := π)) st₁ h₁ = st₁ :=
  ⟨rfl, runHistory_stepNow h₁ st₁⟩

-- non-vacuity: the victim of seeded change S56 after an unrelated compilation: A / B and A % B for
-- A = 0xf123456789abcdef0123456789abcdef (128 bits), B = 0x123456789abcdef01234567 (89 bits) in uint128
example : (stepNow [⟨128, .div, 0xf123456789abcdef0123456789abcdef, 0x123456789abcdef01234567⟩,
                    ⟨128, .mod, 0xf123456789abcdef0123456789abcdef, 0x123456789abcdef01234567⟩] ()
      (PSt.runHistory stepNow () [([⟨128, .div, 0x80000000000000000000000000000001, 1000003⟩], ())])).1
    = [340282366920938463463374607375665201152, 276701161135814226449] := by decide +kernel

/-- The uncached divider answer IS what the code as it is folds. -/
theorem C08_foldNow_is_uncached_divider (w x y : Nat) :
    foldNow ⟨w, .div, x, y⟩ = (direct dividerByWidths (x, y)).1 ∧
    foldNow ⟨w, .mod, x, y⟩ = (direct dividerByWidths (x, y)).2 ∧
    direct dividerByMax (x, y) = direct dividerByWidths (x, y) := ⟨rfl, rfl, rfl⟩

/-- A memo table in the process state whose stored object is a function of its
KEY is invisible: after every history of compilations, for every capacity
(eviction), every compilation gets the uncached answers. -/
theorem C08_memo_keyed_by_object_history_independent {ρ κ ω ο : Type} [DecidableEq κ] (F : Facility ρ κ ω ο)
    (hf : Factors F) (cap : Nat) (history : List (List ρ)) (reqs : List ρ) :
    (compileMemo F cap reqs (runMemoHistory F cap history [])).1 = reqs.map (direct F) :=
  compileMemo_out F hf cap reqs _ (runMemoHistory_sound F cap history [] (sound_nil F))

-- non-vacuity: a table keyed by the request itself, a history of two compilations, capacity 1
example : (compileMemo (⟨id, fun r => r + 1, fun o r => o * r⟩ : Facility Nat Nat Nat Nat) 1 [3, 4]
      (runMemoHistory ⟨id, fun r => r + 1, fun o r => o * r⟩ 1 [[5], [3, 9]] [])).1 = [12, 20] :=
  C08_memo_keyed_by_object_history_independent _ (fun _ _ h => by simp_all) 1 _ _

/-- … and a COARSER key is visible: if two requests share a key but the object
built for one answers the other differently, then after the history "one
compilation asking `a`" a compilation asking `b` gets another output than in a
fresh process — for every capacity ≥ 1 ("last object" slot included). -/
theorem C08_memo_coarse_key_history_dependent {ρ κ ω ο : Type} [DecidableEq κ] (F : Facility ρ κ ω ο)
    (cap : Nat) (hc : 1 ≤ cap) (a b : ρ) (hk : F.key a = F.key b)
    (hne : F.use (F.build a) b ≠ F.use (F.build b) b) :
    ∃ history : List (List ρ),
      (compileMemo F cap [b] (runMemoHistory F cap history [])).1 ≠ (compileMemo F cap [b] []).1 ∧
      (compileMemo F cap [b] []).1 = [direct F b] := by
  refine ⟨[[a]], ?_, by simp [compileMemo, serve, lookup, direct]⟩
  rw [table_after_one F cap hc a]
  simp [compileMemo, serve, lookup, hk, hne]

/-- The divider of `mpa.Int.Div/Mod` memoised by BOTH operand widths would be
invisible … -/
theorem C08_divider_keyed_by_widths_history_independent (cap : Nat) (history : List (List (Nat × Nat)))
    (reqs : List (Nat × Nat)) :
    (compileMemo dividerByWidths cap reqs (runMemoHistory dividerByWidths cap history [])).1 =
      reqs.map (direct dividerByWidths) :=
  C08_memo_keyed_by_object_history_independent dividerByWidths
    (fun a b h => by simp only [dividerByWidths, Prod.mk.injEq] at h; simp [dividerByWidths, h.1, h.2]) cap history reqs

example : (compileMemo dividerByWidths 1 [(0xf123456789abcdef0123456789abcdef, 0x123456789abcdef01234567)]
      (runMemoHistory dividerByWidths 1 [[(0x80000000000000000000000000000001, 1000003)]] [])).1
    = [(340282366920938463463374607375665201152, 276701161135814226449)] := by decide +kernel

/-- … memoised by `max x.bits y.bits` (a "last divider" slot, capacity 1) it is
NOT: witness = the replay of seeded change S56.  After a compilation that folds
`0x80000000000000000000000000000001 / 1000003` (widths 128 and 32) the fold of
`0xf123456789abcdef0123456789abcdef / 0x123456789abcdef01234567` (widths 128
and 89, same maximum) is evaluated on the stored circuit, which reads only 32
bits of the divisor: other quotient and remainder than in a fresh process.
Replayed on the real compiler by harness/cmd/c08/pstate.go (family
wide-const-divmod: same maximum, different operand sizes). -/
theorem C08_divider_keyed_by_max_width_history_dependent :
    ∃ (history : List (List (Nat × Nat))) (r : Nat × Nat),
      (compileMemo dividerByMax 1 [r] (runMemoHistory dividerByMax 1 history [])).1 ≠
      (compileMemo dividerByMax 1 [r] []).1 := by
  obtain ⟨h, hne, _⟩ := C08_memo_coarse_key_history_dependent dividerByMax 1 (Nat.le_refl 1)
    (0x80000000000000000000000000000001, 1000003)
    (0xf123456789abcdef0123456789abcdef, 0x123456789abcdef01234567)
    (by decide +kernel) (by decide +kernel)
  exact ⟨h, _, hne⟩

-- the two outputs of the witness
example : (compileMemo dividerByMax 1 [(0xf123456789abcdef0123456789abcdef, 0x123456789abcdef01234567)]
      (runMemoHistory dividerByMax 1 [[(0x80000000000000000000000000000001, 1000003)]] [])).1
    = [(340282365886020561464563945178558002168, 4109017)] := by decide +kernel

/-! ### Process state, histories over ALL step kinds (Model/ProcSteps.lean)

What the process did before a compilation is not only compilations: it may have
served streaming sessions (values die, `gc` recycles their wires), obtained SSA
programs, computed / garbled / marshalled / parsed circuits.  A history step
has a kind; `KStep σ π = Req π → σ → Out × σ`.  Tie to the code: (1) the pinned
package-level variables (a pool is one), (2) the `ahist` correspondence: along
real one-process histories over all kinds the folded constants, the number of
ids the input wires take (`NumWires − NumGates`) and the results of streaming
sessions / Compute / Garble-Eval equal `outputsAlongK stepNowK`, (3) the
activity histories of harness/cmd/c08/pacts.go. -/

/-- GENERAL: let `reads` be the component of the process state that a
compilation reads (`hread`: the output of a compilation depends on the state
only through it).  If EVERY step kind leaves that component unchanged, the
output of a compilation is the same after any two histories over ALL step
kinds, from any two initial states that agree on the component. -/
theorem C08_all_step_kinds_history_independent {σ π ρ : Type} (step : KStep σ π) (reads : σ → ρ)
    (isCompile : Req π → Prop)
    (hread : ∀ r s s', isCompile r → reads s = reads s' → (step r s).1 = (step r s').1)
    (hkeep : ∀ r s, reads (step r s).2 = reads s)
    (s₁ s₂ : σ) (hs : reads s₁ = reads s₂) (h₁ h₂ : List (Req π)) (r : Req π) (hc : isCompile r) :
    (step r (runHistoryK step s₁ h₁)).1 = (step r (runHistoryK step s₂ h₂)).1 := by
  apply hread r _ _ hc
  rw [runHistoryK_frame step reads (fun _ => True) (fun r s _ => hkeep r s) h₁ s₁ (fun _ _ => trivial),
    runHistoryK_frame step reads (fun _ => True) (fun r s _ => hkeep r s) h₂ s₂ (fun _ _ => trivial), hs]

-- non-vacuity: the code as it is (nothing is read), a history with a streaming session and a CompileSSA
example : (stepNowK (σ := Nat) (π := Unit) ⟨.compile, ⟨[2, 2], [⟨0, none⟩]⟩, (), [], []⟩
      (runHistoryK stepNowK 7 [⟨.stream, ⟨[2, 2], [⟨0, none⟩]⟩, (), [1, 2], [0, 1]⟩, ⟨.ssa, ⟨[3], []⟩, (), [], []⟩])).1 =
    (stepNowK (σ := Nat) (π := Unit) ⟨.compile, ⟨[2, 2], [⟨0, none⟩]⟩, (), [], []⟩ (runHistoryK (stepNowK (π := Unit)) 7 [])).1 :=
  C08_all_step_kinds_history_independent stepNowK (fun _ => ()) (fun r => r.kind = .compile) (fun _ _ _ _ _ => rfl)
    (fun _ _ => rfl) 7 7 rfl _ _ _ rfl

/-- FULL, for the code as it is (`NewWireAllocator` makes a new allocator for
every program): after any two histories over all step kinds, from any two
states, a step of ANY kind gives the same output; the state is handed on
untouched; and a compilation numbers its input wires `0 … Σ bits − 1`, taking
exactly `Σ bits` ids (`NumWires − NumGates`, compared on every real
compilation of the `ahist` ops). -/
theorem C08_stepNowK_independent_of_process_state {σ π : Type} (st₁ st₂ : σ) (h₁ h₂ : List (Req π)) (r : Req π) :
    (stepNowK r (runHistoryK stepNowK st₁ h₁)).1 = (stepNowK r (runHistoryK stepNowK st₂ h₂)).1 ∧
    runHistoryK (stepNowK (π := π)) st₁ h₁ = st₁ ∧
    (r.kind = .compile → (stepNowK r st₁).1.inIds = List.range' 0 r.prog.args.sum ∧
      (stepNowK r st₁).1.inw = some r.prog.args.sum ∧ (stepNowK r st₁).1.consts = r.prog.src.map foldNow) := by
  refine ⟨rfl, runHistoryK_stepNowK h₁ st₁, fun hk => ?_⟩
  simp [stepNowK, stepOn, hk, compileOut, compileAlloc_empty]

-- non-vacuity: a streaming session of a sibling, then the compilation and a Compute of the S56 victim
example : outputsAlongK (stepNowK (σ := Unit) (π := Unit)) ()
      [⟨.stream, ⟨[128, 128], [⟨0, some ⟨128, .div, 0x80000000000000000000000000000001, 1000003⟩⟩, ⟨1, none⟩]⟩, (), [5, 9], [0, 1]⟩,
       ⟨.compute, ⟨[128, 128], [⟨0, some ⟨128, .div, 0xf123456789abcdef0123456789abcdef, 0x123456789abcdef01234567⟩⟩,
                               ⟨1, some ⟨128, .mod, 0xf123456789abcdef0123456789abcdef, 0x123456789abcdef01234567⟩⟩]⟩, (), [1, 0], []⟩]
    = [⟨[], [], none, [340282196780265425013258226093608510054, 9]⟩,
       ⟨[340282366920938463463374607375665201152, 276701161135814226449], List.range' 0 256, some 256,
        [340282366920938463463374607375665201153, 276701161135814226449]⟩] := by decide +kernel

/-- A process-wide allocator POOL whose `Release` keeps the free lists is
visible: after one streaming session in which both arguments die (`gc a`,
`gc b`), a compilation of a program with the same argument widths gets the
recycled, already numbered arrays — most recently freed first, so `a` is wired to
the ids of the session's `b` — and the input wires take NO id from the counter,
so the first gates' output ids collide with them (`inw = 0`: `NumWires =
NumGates`, observed on the real code under seeded change S76).  A program with
other argument widths is not affected. -/
theorem C08_pooled_allocator_keeping_free_lists_history_dependent :
    ∃ (history : List (Req Unit)) (r : Req Unit), r.kind = .compile ∧
      (∃ x ∈ history, x.kind = .stream) ∧
      (stepPool true r (runHistoryK (stepPool true) WAlloc.empty history)).1 ≠ (stepPool true r WAlloc.empty).1 ∧
      (stepPool true r (runHistoryK (stepPool true) WAlloc.empty history)).1.inIds = [2, 3, 0, 1] ∧
      (stepPool true r (runHistoryK (stepPool true) WAlloc.empty history)).1.inw = some 0 ∧
      (stepPool true r WAlloc.empty).1.inIds = [0, 1, 2, 3] ∧ (stepPool true r WAlloc.empty).1.inw = some 4 :=
  ⟨[⟨.stream, ⟨[2, 2], [⟨0, none⟩]⟩, (), [1, 2], [0, 1]⟩], ⟨.compile, ⟨[2, 2], [⟨1, none⟩]⟩, (), [], []⟩,
    rfl, ⟨_, List.mem_cons_self, rfl⟩, by decide, by decide, by decide, by decide, by decide⟩

-- other argument widths: as in a fresh process
example : (stepPool true ⟨.compile, ⟨[3, 3], []⟩, (), [], []⟩
      (runHistoryK (stepPool true) WAlloc.empty [⟨.stream, ⟨[2, 2], [⟨0, none⟩]⟩, (), [1, 2], [0, 1]⟩])).1
    = (stepPool (π := Unit) true ⟨.compile, ⟨[3, 3], []⟩, (), [], []⟩ WAlloc.empty).1 := by decide

/-- … but INVISIBLE to histories without a streaming session (compilations,
CompileSSA, Compute, Garble/Eval, round trips only): the pool stays empty and
every step gives the output of the code as it is.  (This is why histories of
compilations alone cannot observe such a pool.) -/
theorem C08_pooled_allocator_invisible_without_streaming {σ π : Type} (history : List (Req π))
    (hns : ∀ x ∈ history, x.kind ≠ .stream) (r : Req π) (st : σ) :
    (stepPool true r (runHistoryK (stepPool true) WAlloc.empty history)).1 = (stepNowK r st).1 := by
  rw [runHistoryK_pool_no_stream history hns]
  rfl

example : (stepPool true ⟨.compile, ⟨[2, 2], []⟩, (), [], []⟩
      (runHistoryK (stepPool true) WAlloc.empty [⟨.compile, ⟨[2, 2], []⟩, (), [], []⟩, ⟨.ssa, ⟨[2, 2], []⟩, (), [], []⟩])).1.inIds
    = [0, 1, 2, 3] := by decide

/-- A pool whose `Release` EMPTIES the free lists is invisible after every
history over all step kinds. -/
theorem C08_pooled_allocator_cleared_history_independent {σ π : Type} (history : List (Req π)) (r : Req π) (st : σ) :
    (stepPool false r (runHistoryK (stepPool false) WAlloc.empty history)).1 = (stepNowK r st).1 := by
  rw [runHistoryK_pool_cleared history]
  rfl

example : (stepPool false ⟨.compile, ⟨[2, 2], []⟩, (), [], []⟩
      (runHistoryK (stepPool false) WAlloc.empty [⟨.stream, ⟨[2, 2], [⟨0, none⟩]⟩, (), [1, 2], [0, 1]⟩])).1.inIds
    = [0, 1, 2, 3] := by decide

/-! ### Process state, CONCURRENT history elements (Model/ProcConc.lean)

A process may run several steps at the same time (a server, parallel tests),
each with its own `Compiler` and `Params`: they share the process state only.
A step is a sequence of atomic micro-steps, a concurrent element runs its
steps under a schedule; every interleaving is a schedule.  Tie to the code:
(1) the pinned package-level variables, (2) the `chist` correspondence: along
real histories with concurrent elements (k = 2..8 goroutines started from a
barrier) the outputs of every step equal the model's under a seeded schedule,
(3) the concurrent histories of harness/cmd/c08/pconc.go, one of them under
the race detector. -/

/-- GENERAL: let `reads` be the component of the process state that micro-steps
read (`hread`).  If every micro-step leaves it unchanged, then under EVERY
schedule — every interleaving of any number of concurrent tasks — each task
produces exactly its solo outputs, and the component is unchanged. -/
theorem C08_concurrent_interleavings_frame {σ ρ ο κ : Type} (micro : Micro σ ρ ο) (reads : σ → κ)
    (hread : ∀ r s s', reads s = reads s' → (micro r s).1 = (micro r s').1)
    (hkeep : ∀ r s, reads (micro r s).2 = reads s)
    (sched : List Nat) (tasks : List (List ρ)) (s : σ) :
    (concurrent micro sched tasks s).1 = tasks.map (fun t => solo micro t s) ∧
    reads (concurrent micro sched tasks s).2 = reads s :=
  concurrent_frame micro reads hread hkeep sched tasks s

-- non-vacuity: a counter that no micro-step reads; three tasks, a schedule that interleaves them
example : (concurrent (fun (r : Nat) (s : Nat × Nat) => (r + s.1, (s.1, s.2 + 1))) [2, 0, 1, 1, 0, 2, 2]
      [[1, 2], [3], [4, 5, 6]] (10, 0)).1 = [[11, 12], [13], [14, 15, 16]] :=
  (C08_concurrent_interleavings_frame _ (fun s => s.1) (fun _ _ _ h => by simp_all) (fun _ _ => rfl) _ _ _).1

/-- FULL, for the code as it is: over every history of concurrent elements
(any number of steps of any kinds per element, any schedule per element) every
step's output is the output of the step ALONE in a fresh process
(`stepNowK r st'` for any state `st'`). -/
theorem C08_concurrent_history_solo_outputs {σ π : Type} (st st' : σ) :
    ∀ (els : List (List Nat × List (Req π))),
      (runElements microNow st (els.map fun e => (e.1, e.2.map microsK))).map (fun el => el.map assembleK) =
        els.map (fun e => e.2.map fun r => (stepNowK r st').1)
  | [] => rfl
  | e :: rest => by
    have a := concurrent_frame (microNow (σ := σ)) id (fun r s s' h => by cases h; rfl)
      (fun r s => by cases r <;> rfl) e.1 (e.2.map microsK) st
    have hs : (concurrent microNow e.1 (e.2.map microsK) st).2 = st := a.2
    simp only [List.map_cons, runElements, hs]
    rw [C08_concurrent_history_solo_outputs st st' rest, a.1]
    simp only [List.map_map]
    congr 1
    apply List.map_congr_left
    intro r _
    exact assembleK_solo r st

-- non-vacuity: two compilations and a Compute at the same time, interleaved fold by fold, then a compilation
example : (runElements (microNow (σ := Unit)) ()
      ([([0, 1, 2, 2, 1, 0, 0, 1], [⟨.compile, ⟨[128, 128], [⟨0, some ⟨128, .div, 0x80000000000000000000000000000001, 1000003⟩⟩, ⟨1, none⟩]⟩, (), [], []⟩,
          ⟨.compile, ⟨[128, 128], [⟨0, some ⟨128, .div, 0xf123456789abcdef0123456789abcdef, 0x123456789abcdef01234567⟩⟩,
                                   ⟨1, some ⟨128, .mod, 0xf123456789abcdef0123456789abcdef, 0x123456789abcdef01234567⟩⟩]⟩, (), [], []⟩,
          ⟨.compute, ⟨[8], [⟨0, none⟩]⟩, (), [5], []⟩]),
        ([], [(⟨.compile, ⟨[3, 4], []⟩, (), [], []⟩ : Req Unit)])].map fun e => (e.1, e.2.map microsK))).map
      (fun el => el.map assembleK)
    = [[⟨[340282196780265425013258226093608510051], List.range' 0 256, some 256, []⟩,
        ⟨[340282366920938463463374607375665201152, 276701161135814226449], List.range' 0 256, some 256, []⟩,
        ⟨[], List.range' 0 8, some 8, [5]⟩],
       [⟨[], List.range' 0 7, some 7, []⟩]] := by decide +kernel

/-- A package-level SCRATCH CELL through which every constant's name passes
(written, then read back) is invisible to sequential histories: when the
tasks of an element run one after the other (the empty schedule), each names
its constants by their own values, whatever the cell held before … -/
theorem C08_shared_scratch_sequential_invisible (tasks : List (List Nat)) (cell : Nat) :
    (concurrent microScratch [] (tasks.map nameTask) cell).1.map namesOf = tasks := by
  simp only [concurrent, runSched, List.map_map]
  exact drain_nameTasks tasks cell

example : (concurrent microScratch [] ([[1, 16, 24], [2, 16]].map nameTask) 99).1.map namesOf = [[1, 16, 24], [2, 16]] :=
  C08_shared_scratch_sequential_invisible _ _

/-- … and VISIBLE to an interleaving: two compilations, each naming one
constant; the second writes the cell between the first's write and read, so the
first names its constant `$2` — the witness of seeded change S93 (the SSA
listing of every affected compilation changes; the circuit changes when the
wrong name is the name of another constant of the program).  Found on the
real code by the concurrent histories of harness/cmd/c08/pconc.go. -/
theorem C08_shared_scratch_interleaving_dependent :
    ∃ (sched : List Nat) (tasks : List (List Nat)) (cell : Nat),
      (concurrent microScratch sched (tasks.map nameTask) cell).1.map namesOf ≠ tasks ∧
      (concurrent microScratch sched (tasks.map nameTask) cell).1.map namesOf = [[2], [2]] ∧
      (concurrent microScratch [] (tasks.map nameTask) cell).1.map namesOf = tasks :=
  ⟨[0, 1, 0, 1], [[1], [2]], 0, by decide, by decide, by decide⟩

open Mpc.WT

/-! ### Width-indexed tables of the circuit builders (Model/WidthTable.lean)

The property quantifies over ALL programs, hence over all operand widths.  A
builder of compiler/circuits may choose its construction from a package-level
table keyed by the width (today: `multiplierArrayTresholds`, read by
`NewMultiplier` with `m[len(x)]`, default 21).  A Go map has no order: the
table is a list of entries in the order the runtime hands them over, with one
value per key.  The lookup BY KEY of the code as it is does not depend on that
order, so neither does the recursion of the Karatsuba multiplier
(`C08_multiplier_table_perm_invariant`; tie: op `mthr` - the limits for which
`Params.CircMultArrayTreshold = L` gives the circuit of the default parameters
= `multClass` of the table read from the source, at every swept width).  A
lookup by the CLOSEST key written as a best-so-far loop over `range m` is order
independent iff all closest keys carry one value, or ties are broken by a total
order on the keys (`C08_nearest_key_perm_invariant`,
`C08_nearest_key_tie_order_dependent`, witness `C08_nearest_key_tie_witness`:
width 29 halfway between the tuned widths 21 and 37 - the limits 12 and 19 give
different Karatsuba recursions, hence different gates).  The oracle of the
width sweep (harness sweep.go) looks for such a dependence on the real
compiler at every width 1..130, at powers of two and at the edges of and
midpoints between the runs of keys of every integer-keyed table of the
compile path. -/

/-- The code as it is: `m[len(x)]` with a default.  The limit handed to NewKaratsubaMultiplier, the recursion it
makes and what the harness observes of it (`multClass`) are the same for all hand-over orders of the table. -/
theorem C08_multiplier_table_perm_invariant (l₁ l₂ : List (Nat × Nat)) (hp : l₁.Perm l₂) (hf : Functional l₁)
    (gmw : Bool) (w lo cnt : Nat) :
    multLimit l₁ w = multLimit l₂ w ∧ multShape l₁ w = multShape l₂ w ∧
      multClass gmw l₁ w lo cnt = multClass gmw l₂ w lo cnt :=
  ⟨multLimit_perm l₁ l₂ hp hf w, multShape_perm l₁ l₂ hp hf w, multClass_perm gmw l₁ l₂ hp hf w lo cnt⟩

-- non-vacuity: a three-entry table in two orders; width 21 is a key (limit 12), width 29 is not (limit 21)
example : Functional [(16, 9), (21, 12), (37, 19)] := by unfold Functional; decide
example : multLimit [(16, 9), (21, 12), (37, 19)] 21 = 12 ∧ multLimit [(37, 19), (21, 12), (16, 9)] 21 = 12 ∧
    multLimit [(37, 19), (21, 12), (16, 9)] 29 = 21 := by decide
example : multClass false [(16, 9), (21, 12), (37, 19)] 29 8 23 = [16, 17, 18, 19, 20, 21, 22, 23, 24, 25, 26, 27, 28] := by
  decide

/-- One value per key is what makes the lookup by key order independent: with two entries of one key (impossible in a
Go map) the first one handed over wins. -/
theorem C08_lookup_needs_functional :
    ∃ l₁ l₂ : List (Nat × Nat), l₁.Perm l₂ ∧ lookupD l₁ 1 21 ≠ lookupD l₂ 1 21 :=
  ⟨[(1, 2), (1, 3)], [(1, 3), (1, 2)], List.Perm.swap _ _ _, by decide⟩

/-- A lookup by the closest key (best-so-far loop over the entries in hand-over order, replacing on a strictly smaller
distance) does not depend on the hand-over order when all closest keys carry ONE value - in particular when the closest
key is unique -; with ties broken by the smaller key it never does (keys of a map are distinct); the same for "exact
hit, otherwise the closest key". -/
theorem C08_nearest_key_perm_invariant (l₁ l₂ : List (Nat × Nat)) (hp : l₁.Perm l₂) (bits d : Nat) :
    ((∀ a ∈ l₁, ∀ b ∈ l₁, Closest l₁ bits a → Closest l₁ bits b → a.2 = b.2) →
        nearest l₁ bits d = nearest l₂ bits d) ∧
    (Functional l₁ → nearestTB l₁ bits d = nearestTB l₂ bits d) ∧
    (Functional l₁ → (∀ a ∈ l₁, ∀ b ∈ l₁, Closest l₁ bits a → Closest l₁ bits b → a.2 = b.2) →
        lookupNearest l₁ bits d = lookupNearest l₂ bits d) :=
  ⟨nearest_perm_invariant l₁ l₂ hp bits d, nearestTB_perm_invariant l₁ l₂ hp bits d,
   lookupNearest_perm_invariant l₁ l₂ hp bits d⟩

-- non-vacuity: width 30 is closer to 37 than to 21 (unique closest key); width 29 is a tie, broken towards 21
example : nearest [(21, 12), (37, 19)] 30 21 = 19 ∧ nearest [(37, 19), (21, 12)] 30 21 = 19 := by decide
example : ∀ a ∈ [(21, 12), (37, 19)], ∀ b ∈ [(21, 12), (37, 19)],
    Closest [(21, 12), (37, 19)] 30 a → Closest [(21, 12), (37, 19)] 30 b → a.2 = b.2 := by
  intro a ha b hb ca cb
  have h37 : ((37, 19) : Nat × Nat) ∈ [(21, 12), (37, 19)] := by decide
  have da := ca _ h37
  have db := cb _ h37
  simp only [List.mem_cons, List.mem_nil_iff, or_false] at ha hb
  rcases ha with rfl | rfl <;> rcases hb with rfl | rfl <;> first | rfl | (exfalso; revert da db; decide)
example : nearestTB [(21, 12), (37, 19)] 29 21 = 12 ∧ nearestTB [(37, 19), (21, 12)] 29 21 = 12 := by decide

/-- The hypothesis is needed ("iff"): whenever two closest keys carry different values there are two hand-over orders
of the same table with different results - the entry handed over first wins. -/
theorem C08_nearest_key_tie_order_dependent (l : List (Nat × Nat)) (bits d : Nat) (a b : Nat × Nat)
    (ha : a ∈ l) (hb : b ∈ l) (ca : Closest l bits a) (cb : Closest l bits b) (hne : a.2 ≠ b.2) :
    ∃ l₁ l₂ : List (Nat × Nat), l₁.Perm l ∧ l₂.Perm l ∧ nearest l₁ bits d ≠ nearest l₂ bits d :=
  nearest_tie_order_dependent l bits d a b ha hb ca cb hne

-- non-vacuity: the tuned widths 21 and 37 are equally close to 29
example : ∃ l₁ l₂ : List (Nat × Nat), l₁.Perm [(21, 12), (37, 19)] ∧ l₂.Perm [(21, 12), (37, 19)] ∧
    nearest l₁ 29 21 ≠ nearest l₂ 29 21 :=
  C08_nearest_key_tie_order_dependent [(21, 12), (37, 19)] 29 21 (21, 12) (37, 19) (by decide) (by decide)
    (by unfold Closest; decide) (by unfold Closest; decide) (by decide)

/-- Witness: the tuned widths 21 (limit 12) and 37 (limit 19), operand width 29 exactly halfway.  The two hand-over
orders give the limits 12 and 19, and these give different Karatsuba recursions for 29-bit operands (14-bit halves go
to the array multiplier under 19 and are split again under 12): different gates and wire numbers. -/
theorem C08_nearest_key_tie_witness :
    [((21, 12) : Nat × Nat), (37, 19)].Perm [(37, 19), (21, 12)] ∧
    nearest [(21, 12), (37, 19)] 29 21 = 12 ∧ nearest [(37, 19), (21, 12)] 29 21 = 19 ∧
    kshape 12 29 29 29 ≠ kshape 19 29 29 29 :=
  ⟨List.Perm.swap _ _ _, by decide, by decide, by decide⟩

end Mpc

/-
C15  Malicious-mode OT extension detects a deviating receiver — the
UNCONDITIONAL negation of the full statement (dimension counting).

Props/C15.lean proves the acceptance condition for a set of altered matrix
positions (`C15_kos_set_accept_iff`) and, GIVEN a set `S` of rows whose
challenge coefficients XOR to zero, that flipping one column at all rows of
`S` is accepted whatever `Delta` is (`C15_kos_dependent_rows_forgery_witness`).
There the existence of `S` was a hypothesis (the harness finds one per session
by Gaussian elimination).  Here it is a theorem:

* `C15_dependent_rows_exist`: EVERY coefficient vector `chi` with at least 129
  rows has a non-empty set `S` of at most 129 rows with `XOR_{r ∈ S} chi_r = 0`
  (`rowXor`, the definition the existing theorems use; coefficients are
  `Label = BitVec 128`).  Pigeonhole: 2^129 subsets of 129 rows, 2^128 XOR
  values.  `C15_dependent_rows_exist_in_window`: the same inside any 129
  consecutive rows.  `C15_dependent_rows_bound_sharp`: 128 rows do not suffice.
* `C15_kos_forgery_exists_for_every_challenge`: for EVERY challenge generator
  `X` and EVERY seed (the coefficients are `chi_r = X seed2 r`, an arbitrary
  function: nothing is assumed about how they are derived from `seed2` — AES-CTR
  in the code, but any PRG, hash or truly random table gives the same theorem),
  every `n = b.size ≥ 0` (the matrix has `n + 256 ≥ 129` rows), every window of
  129 rows of the matrix, there is a non-empty set `S` of rows in that window —
  depending on the coefficients only, NOT on `Delta`, the streams or the column —
  such that for every column `i < 128`, every `Delta`, every sender in step:
  there are error masks `E1`, `E2` of the shape of the transmitted chunks whose
  error matrix is exactly "bit `i` flipped at the rows of `S`" (the position
  set `colAt S i`), and `Send(n, true)` run on the altered chunks and the
  receiver's untouched response `(seed2, x, t0, t1)` ACCEPTS
  (`sendKos … = some out`: all chunks consumed, the consistency check
  `q = (t0, t1)` passed — the same `sendKos`, `xorMsgs`, `errRow`, `posRow`,
  `colAt` as in `C15_kos_set_accept_iff`); and if `Delta` selects column `i`,
  at every payload row of `S` the sender's output violates
  `received_r = sent_r xor choice_r*Delta`.
* `C15_kos_full_statement_false`: for `n ≥ 129` and `Delta ≠ 0` (the window of
  the first 129 rows consists of payload rows, some column is selected) there
  is an alteration of the matrix alone that is accepted with inconsistent
  outputs.  This is the negation of the FULL STATEMENT of Props/C15.lean
  (`sendKos … = some out → ∀ i < n, received_i = out.labels_i xor
  choice_i*Delta`) for the code as it is, for every session — not a
  probabilistic statement and not a per-session computation.

For `n < 129` the set of the first theorem lies in the first 129 rows, which
include check-batch rows; whether a dependent set can contain a payload row
depends on the coefficients (it can iff some payload coefficient is in the
span of the other rows — for the 256 check rows of a real session practically
always; the harness exhibits such a set for every session, class dep-generic).
An accepted alteration confined to the check batch leaves the outputs intact.

The reason is structural: the receiver fixes the coefficients (its own
`seed2`) BEFORE the matrix has to be final, and the coefficients are 128-bit
vectors while the matrix has more than 128 rows.  See known_findings.json,
C15-kos-dependent-rows-forgery.
-/
import MpcVerif.Props.C15
import MpcVerif.Proofs.KosCount

namespace Mpc
open Mpc.Iknp Mpc.Clmul Mpc.Kos

/-- Dimension counting.  Every vector of `m ≥ 129` coefficients has a
non-empty set of (at most 129, pairwise different) rows `< m` — in fact among
the first 129 — whose coefficients XOR to zero. -/
theorem C15_dependent_rows_exist (chi : Nat → Label) (m : Nat) (hm : 129 ≤ m) :
    ∃ S : List Nat, S ≠ [] ∧ S.Nodup ∧ S.length ≤ 129 ∧ (∀ r, r ∈ S → r < 129 ∧ r < m) ∧
      rowXor chi S = 0#128 := by
  obtain ⟨S, h1, h2, h3, h4, h5⟩ := dependent_rows_exist chi
  exact ⟨S, h1, h2, h3, fun r hr => ⟨h4 r hr, Nat.lt_of_lt_of_le (h4 r hr) hm⟩, h5⟩

/-- Non-vacuity: the matrix of a malicious-mode call of `n` transfers has
`n + 256 ≥ 129` rows, for every `n`; and an instance. -/
example (n : Nat) : 129 ≤ n + 256 := by omega

example : ∃ S : List Nat, S ≠ [] ∧ S.Nodup ∧ S.length ≤ 129 ∧ (∀ r, r ∈ S → r < 129 ∧ r < 1 + 256) ∧
    rowXor (fun r => BitVec.ofNat 128 (r * r + 1)) S = 0#128 :=
  C15_dependent_rows_exist _ (1 + 256) (by omega)

/-- The same inside any window of 129 consecutive rows `base .. base + 128`
(e.g. `base = n`: inside the check batch; `base = 0`, `n ≥ 129`: inside the
payload rows). -/
theorem C15_dependent_rows_exist_in_window (chi : Nat → Label) (base : Nat) :
    ∃ S : List Nat, S ≠ [] ∧ S.Nodup ∧ S.length ≤ 129 ∧ (∀ r, r ∈ S → base ≤ r ∧ r < base + 129) ∧
      rowXor chi S = 0#128 :=
  dependent_rows_window chi base

/-- 129 is exact: the 128 unit vectors `X^0 .. X^127` (as coefficients of the
rows `0 .. 127`) have no non-empty dependent subset.  (The code always has
`n + 256 > 128` rows, so this never helps it.) -/
theorem C15_dependent_rows_bound_sharp :
    ∃ chi : Nat → Label, ∀ S : List Nat, S ≠ [] → S.Nodup → (∀ r, r ∈ S → r < 128) → rowXor chi S ≠ 0#128 :=
  ⟨bitLabel, unit_rows_independent⟩

example : ([0, 5, 127] : List Nat) ≠ [] ∧ [0, 5, 127].Nodup ∧ ∀ r, r ∈ [0, 5, 127] → r < 128 := by decide

/-- For EVERY challenge (every generator `X`, every `seed2`), every `n`, every
window of 129 rows of the `n + 256`-row matrix: a non-empty set `S` of rows of
the window with `XOR_{r ∈ S} chi_r = 0` exists (it depends on the coefficients
only), and for every column `i`, every `Delta` and sender in step the
alteration "flip column `i` at every row of `S`" of the transmitted matrix —
response untouched — is realised by error masks `E1`, `E2` of the shape of the
chunks and is ACCEPTED by `Send(n, true)`; if `Delta` selects column `i`,
every payload row of `S` ends with inconsistent outputs. -/
theorem C15_kos_forgery_exists_for_every_challenge (X : Label → Nat → Label) (R0 R1 : Nat → Nat → Byte)
    (rs : RecvSt) (b : Array Bool) (b0 b1 seed2 : Label) (base : Nat) (hbase : base + 129 ≤ b.size + 256) :
    ∃ S : List Nat,
      S ≠ [] ∧ S.Nodup ∧ S.length ≤ 129 ∧ (∀ r, r ∈ S → base ≤ r ∧ r < base + 129 ∧ r < b.size + 256) ∧
      rowXor (X seed2) S = 0#128 ∧
      ∀ (i : Nat), i < 128 →
      ∀ (SS : Nat → Nat → Byte) (delta : Label), BaseOK R0 R1 SS delta →
      ∀ (ss : SendSt), InStep rs ss →
      ∀ (moreD : List Bytes) (moreL : List Label),
      ∃ (E1 E2 : List Bytes) (out : SendOut),
        Shape (receive R0 R1 rs b).2.2 E1 ∧
        Shape (receive R0 R1 (receive R0 R1 rs b).1 (bcvOf b0 b1)).2.2 E2 ∧
        (∀ q, q < b.size + 256 → errRow b.size E1 E2 q = posRow (colAt S i) q) ∧
        (∀ q, q < b.size + 256 → errRow b.size E1 E2 q = if q ∈ S then bitLabel i else 0#128) ∧
        sendKos X SS delta ss b.size
            (xorMsgs (receive R0 R1 rs b).2.2 E1 ++
              (xorMsgs (receive R0 R1 (receive R0 R1 rs b).1 (bcvOf b0 b1)).2.2 E2 ++ moreD))
            ((receiveKos X R0 R1 rs b b0 b1 seed2).resp ++ moreL) = some out ∧
        (labelBit delta i = true → ∀ r, r ∈ S → r < b.size →
          (receiveKos X R0 R1 rs b b0 b1 seed2).labels.getD r 0#128 ≠
            out.labels.getD r 0#128 ^^^ (if b.getD r false then delta else 0#128)) := by
  obtain ⟨S, hne, hnd, hlen, hwin, hdep⟩ := dependent_rows_window (X seed2) base
  have hS : ∀ r, r ∈ S → r < b.size + 256 := fun r hr => by have := hwin r hr; omega
  refine ⟨S, hne, hnd, hlen, fun r hr => ⟨(hwin r hr).1, (hwin r hr).2, hS r hr⟩, hdep, ?_⟩
  intro i hi SS delta hb ss hs moreD moreL
  obtain ⟨E1, E2, h1, h2, hE⟩ := kos_rows_realisable R0 R1 SS delta hb rs ss hs b b0 b1 (posRow (colAt S i))
  obtain ⟨out, hacc, hbad⟩ := C15_kos_dependent_rows_forgery_witness X R0 R1 SS delta hb rs ss hs b b0 b1 seed2
    E1 E2 moreD moreL h1 h2 S i hnd hS hi hdep hE
  exact ⟨E1, E2, out, h1, h2, hE, fun q hq => by rw [hE q hq, posRow_colAt S i q hnd], hacc, hbad⟩

/-- Non-vacuity: the hypotheses are jointly satisfiable — any receiver streams,
any `Delta` with the sender streams the base OTs deliver, freshly initialised
parties, one transfer, the window of the first 129 rows (payload row 0 and 128
rows of the check batch) resp. a window inside the check batch. -/
example (X : Label → Nat → Label) (R0 R1 : Nat → Nat → Byte) (delta seed2 : Label) :
    ∃ S : List Nat, S ≠ [] ∧ rowXor (X seed2) S = 0#128 ∧
      ∃ (E1 E2 : List Bytes) (out : SendOut),
        sendKos X (fun i p => if labelBit delta i then R1 i p else R0 i p) delta SendSt.init 1
            (xorMsgs (receive R0 R1 RecvSt.init #[true]).2.2 E1 ++
              (xorMsgs (receive R0 R1 (receive R0 R1 RecvSt.init #[true]).1 (bcvOf 0#128 0#128)).2.2 E2 ++ []))
            ((receiveKos X R0 R1 RecvSt.init #[true] 0#128 0#128 seed2).resp ++ []) = some out := by
  obtain ⟨S, hne, _, _, _, hdep, h⟩ :=
    C15_kos_forgery_exists_for_every_challenge X R0 R1 RecvSt.init #[true] 0#128 0#128 seed2 0 (by decide)
  obtain ⟨E1, E2, out, _, _, _, _, hacc, _⟩ :=
    h 0 (by decide) (fun i p => if labelBit delta i then R1 i p else R0 i p) delta (fun _ _ _ => rfl) SendSt.init
      InStep.init [] []
  exact ⟨S, hne, hdep, E1, E2, out, hacc⟩

example : 1 + 129 ≤ (#[true] : Array Bool).size + 256 := by decide

/-- The FULL STATEMENT of Props/C15.lean is false for the code as it is, for
every session with `n ≥ 129` transfers and `Delta ≠ 0`, whatever the challenge
generator and the seed are: there is an alteration of the transmitted matrix
alone (response untouched; error masks of the shape of the chunks, all flips in
one column at payload rows) that `Send(n, true)` accepts although some payload
row `r` violates `received_r = sent_r xor choice_r*Delta`. -/
theorem C15_kos_full_statement_false (X : Label → Nat → Label) (R0 R1 SS : Nat → Nat → Byte) (delta : Label)
    (hb : BaseOK R0 R1 SS delta) (rs : RecvSt) (ss : SendSt) (hs : InStep rs ss) (b : Array Bool)
    (b0 b1 seed2 : Label) (moreD : List Bytes) (moreL : List Label) (hn : 129 ≤ b.size) (hd : delta ≠ 0#128) :
    ∃ (E1 E2 : List Bytes) (out : SendOut) (r : Nat),
      Shape (receive R0 R1 rs b).2.2 E1 ∧
      Shape (receive R0 R1 (receive R0 R1 rs b).1 (bcvOf b0 b1)).2.2 E2 ∧
      sendKos X SS delta ss b.size
          (xorMsgs (receive R0 R1 rs b).2.2 E1 ++
            (xorMsgs (receive R0 R1 (receive R0 R1 rs b).1 (bcvOf b0 b1)).2.2 E2 ++ moreD))
          ((receiveKos X R0 R1 rs b b0 b1 seed2).resp ++ moreL) = some out ∧
      r < b.size ∧
      (receiveKos X R0 R1 rs b b0 b1 seed2).labels.getD r 0#128 ≠
        out.labels.getD r 0#128 ^^^ (if b.getD r false then delta else 0#128) := by
  obtain ⟨S, hne, _, _, hwin, _, h⟩ :=
    C15_kos_forgery_exists_for_every_challenge X R0 R1 rs b b0 b1 seed2 0 (by omega)
  obtain ⟨i, hi, hsel⟩ := exists_labelBit_of_ne_zero delta hd
  obtain ⟨E1, E2, out, h1, h2, _, _, hacc, hbad⟩ := h i hi SS delta hb ss hs moreD moreL
  obtain ⟨r, hr⟩ := List.exists_mem_of_ne_nil S hne
  have hrn : r < b.size := by have := hwin r hr; omega
  exact ⟨E1, E2, out, r, h1, h2, hacc, hrn, hbad hsel r hr hrn⟩

/-- Non-vacuity: a choice vector of 129 transfers and a non-zero `Delta`. -/
example : 129 ≤ (Array.replicate 129 true : Array Bool).size ∧ (1#128 <<< 64 : Label) ≠ 0#128 := by
  refine ⟨by simp, by decide⟩

end Mpc

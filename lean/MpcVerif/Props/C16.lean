/-
C16  Garbler never reports a wrong result under message corruption.

What Lean carries (DESIGN.md, C16): the garbler is honest, the labels it
receives for the outputs are ARBITRARY (this covers any corruption of any
message in either direction and any evaluator behaviour, because the only path
from received bytes to result bits is the label comparison).  If the garbler
returns a value, every received label is one of that wire's two labels and the
value is their decoding; hence a WRONG value implies that some received label
equals the honest label xor the secret offset r.

Full statement (not a Lean theorem, stated for the record): "no corruption of
the transcript makes the evaluator return honestLabel xor r".  That is the
authenticity of the garbling scheme: true with overwhelming probability over
r, a cryptographic statement outside Lean.  It is covered by the fault
enumeration on the real code (checks/C16.py).
-/
import MpcVerif.Proofs.Proto2
import MpcVerif.Model.LabelBV

namespace Mpc
open LabelAlg

variable {L : Type} [LabelAlg L] [DecidableEq L]

/-- If the result loop succeeds, it consumed labels that are each one of the
wire's two labels, and each bit is the decoding of its label. -/
theorem C16_ok_imp_known_labels :
    ∀ (ws : List (WireL L)) (ls : List L) (bs : List Bool), ws.length = ls.length →
      decodeLabels ws ls = .ok bs →
      bs.length = ls.length ∧
      ∀ i (hi : i < ls.length) (hw : i < ws.length) (hb : i < bs.length),
        (ls[i] = ws[i].l0 ∧ bs[i] = false) ∨ (ls[i] = ws[i].l1 ∧ bs[i] = true) := by
  intro ws
  induction ws with
  | nil =>
    intro ls bs hlen h
    cases ls with
    | nil => simp [decodeLabels] at h; subst h; simp
    | cons l ls => simp at hlen
  | cons w ws ih =>
    intro ls bs hlen h
    cases ls with
    | nil => simp at hlen
    | cons l ls =>
      simp only [decodeLabels] at h
      cases hb : w.bitFrom l with
      | none => rw [hb] at h; simp at h
      | some b =>
        rw [hb] at h
        simp only at h
        cases hrest : decodeLabels ws ls with
        | error e => rw [hrest] at h; simp at h
        | ok bs' =>
          rw [hrest] at h
          simp only [Except.ok.injEq] at h
          subst h
          obtain ⟨hl', hall⟩ := ih ls bs' (by simpa using hlen) hrest
          refine ⟨by simp [hl'], ?_⟩
          intro i hi hw hbi
          cases i with
          | zero =>
            simp only [List.getElem_cons_zero]
            unfold WireL.bitFrom at hb
            by_cases h0 : l = w.l0
            · rw [if_pos h0] at hb
              left; exact ⟨h0, (Option.some.inj hb).symm⟩
            · rw [if_neg h0] at hb
              by_cases h1 : l = w.l1
              · rw [if_pos h1] at hb
                right; exact ⟨h1, (Option.some.inj hb).symm⟩
              · rw [if_neg h1] at hb; cases hb
          | succ i =>
            simp only [List.getElem_cons_succ]
            exact hall i (by simpa using hi) (by simpa using hw) (by simpa using hbi)

/-- **C16 (reduction).**  Honest garbler state: every result wire's pair
satisfies `l1 = l0 ⊕ r`; `v` are the correct output bits, so the honest
evaluator would return `ws[i].labelFor v[i]`.  Whatever labels `ls` actually
arrive: if the garbler's result loop succeeds with bits `bs ≠ v`, then at some
position the received label is exactly the honest label xor `r`. -/
theorem C16_wrong_imp_offset (r : L) (ws : List (WireL L)) (v : List Bool) (ls : List L)
    (bs : List Bool) (hpairs : ∀ w ∈ ws, w.l1 = w.l0 ^^^ r) (hv : v.length = ws.length)
    (hlen : ws.length = ls.length) (hok : decodeLabels ws ls = .ok bs) (hwrong : bs ≠ v) :
    ∃ i, ∃ (hi : i < ls.length) (hw : i < ws.length) (hvi : i < v.length),
      ls[i] = ws[i].labelFor v[i] ^^^ r := by
  obtain ⟨hbl, hall⟩ := C16_ok_imp_known_labels ws ls bs hlen hok
  -- find a differing position
  have hex : ∃ i, ∃ (h1 : i < bs.length) (h2 : i < v.length), bs[i] ≠ v[i] := by
    apply Classical.byContradiction
    intro hcon
    apply hwrong
    apply List.ext_getElem (by omega)
    intro i h1 h2
    apply Classical.byContradiction
    intro hne
    exact hcon ⟨i, h1, h2, hne⟩
  obtain ⟨i, h1, h2, hne⟩ := hex
  refine ⟨i, by omega, by omega, h2, ?_⟩
  have hp := hpairs ws[i] (List.getElem_mem _)
  rcases hall i (by omega) (by omega) h1 with ⟨hl, hb⟩ | ⟨hl, hb⟩
  · have : v[i] = true := by
      cases hvv : v[i] with
      | true => rfl
      | false => rw [hb, hvv] at hne; exact absurd rfl hne
    rw [hl, this]
    simp [WireL.labelFor, hp]
  · have : v[i] = false := by
      cases hvv : v[i] with
      | false => rfl
      | true => rw [hb, hvv] at hne; exact absurd rfl hne
    rw [hl, this]
    simp [WireL.labelFor, hp]

/-- Decision logic stated outright: a label that is neither of the wire's two
labels makes the result loop fail (error branch), whatever else arrives. -/
theorem C16_unknown_label_is_error (w : WireL L) (l : L) (ws : List (WireL L)) (ls : List L)
    (h0 : l ≠ w.l0) (h1 : l ≠ w.l1) :
    decodeLabels (w :: ws) (l :: ls) = .error (.unknownLabel ls.length) := by
  simp [decodeLabels, WireL.bitFrom, h0, h1]

/-- The whole-circuit garbler's result loop is this decision logic applied to
the last `nOut` wires of its own garbling. -/
theorem C16_garblerDecode_eq (p : Circuit2) (G : Garbled L) (ls : List L) :
    ∀ i, (match garblerDecode p G i ls with | .ok bs => some bs | .error _ => none) =
      (match decodeLabels ((List.range' i ls.length).map fun j => G.wires.get (p.c.numWires - p.c.nOut + j)) ls with
        | .ok bs => some bs | .error _ => none) := by
  induction ls with
  | nil => intro i; simp [garblerDecode, decodeLabels]
  | cons l ls ih =>
    intro i
    simp only [garblerDecode, List.length_cons, List.range'_succ, List.map_cons, decodeLabels]
    cases (G.wires.get (p.c.numWires - p.c.nOut + i)).bitFrom l with
    | none => simp
    | some b =>
      simp only
      have := ih (i + 1)
      cases h1 : garblerDecode p G (i + 1) ls <;>
        cases h2 : decodeLabels ((List.range' (i + 1) ls.length).map fun j =>
          G.wires.get (p.c.numWires - p.c.nOut + j)) ls <;> simp_all

/-- Evaluator-side decision logic: a wrong gate count in the first flight is an
error, not an evaluation. -/
theorem C16_wrong_gate_count (p : Circuit2) (key : List UInt8) (count : Nat) (ms : List (Msg L))
    (h : count ≠ p.c.gates.length) :
    evaluatorRecv1 p (.data key :: .u32 count :: ms) = .error (.wrongGateCount count p.c.gates.length) := by
  simp [evaluatorRecv1, h]

/-! Non-vacuity over `BitVec 8`-like toy labels is not needed: the hypotheses
are met by every honest garbling (C01 gives `l1 = l0 ⊕ r` on every defined
wire); a concrete instance: -/
example : decodeLabels [(⟨3#128, 5#128⟩ : WireL (BitVec 128))] [5#128] = .ok [true] := by
  simp [decodeLabels, WireL.bitFrom]
example : decodeLabels [(⟨3#128, 5#128⟩ : WireL (BitVec 128))] [4#128] = .error (.unknownLabel 0) := by
  simp [decodeLabels, WireL.bitFrom]

end Mpc

/-
C16  Garbler never reports a wrong result under message corruption.

What Lean carries (DESIGN.md, C16): the garbler is honest, the labels it
receives for the outputs are ARBITRARY (this covers any corruption of any
message in either direction and any evaluator behaviour, because the only path
from received bytes to result bits is the label comparison).  If the garbler
returns a value, every received label is one of that wire's two labels and the
value is their decoding; hence a WRONG value implies that some received label
equals the honest label xor the secret offset r.

Full statement (not a Lean theorem, stated for the record): "no corruption of
the transcript makes the evaluator return honestLabel xor r".  That is the
authenticity of the garbling scheme: true with overwhelming probability over
r, a cryptographic statement outside Lean.  It is covered by the fault
enumeration on the real code (checks/C16.py).
-/
import MpcVerif.Proofs.Proto2
import MpcVerif.Model.LabelBV
import MpcVerif.Model.StreamResult

namespace Mpc
open LabelAlg

variable {L : Type} [LabelAlg L] [DecidableEq L]

/-- If the result loop succeeds, it consumed labels that are each one of the
wire's two labels, and each bit is the decoding of its label. -/
theorem C16_ok_imp_known_labels :
    ∀ (ws : List (WireL L)) (ls : List L) (bs : List Bool), ws.length = ls.length →
      decodeLabels ws ls = .ok bs →
      bs.length = ls.length ∧
      ∀ i (hi : i < ls.length) (hw : i < ws.length) (hb : i < bs.length),
        (ls[i] = ws[i].l0 ∧ bs[i] = false) ∨ (ls[i] = ws[i].l1 ∧ bs[i] = true) := by
  intro ws
  induction ws with
  | nil =>
    intro ls bs hlen h
    cases ls with
    | nil => simp [decodeLabels] at h; subst h; simp
    | cons l ls => simp at hlen
  | cons w ws ih =>
    intro ls bs hlen h
    cases ls with
    | nil => simp at hlen
    | cons l ls =>
      simp only [decodeLabels] at h
      cases hb : w.bitFrom l with
      | none => rw [hb] at h; simp at h
      | some b =>
        rw [hb] at h
        simp only at h
        cases hrest : decodeLabels ws ls with
        | error e => rw [hrest] at h; simp at h
        | ok bs' =>
          rw [hrest] at h
          simp only [Except.ok.injEq] at h
          subst h
          obtain ⟨hl', hall⟩ := ih ls bs' (by simpa using hlen) hrest
          refine ⟨by simp [hl'], ?_⟩
          intro i hi hw hbi
          cases i with
          | zero =>
            simp only [List.getElem_cons_zero]
            unfold WireL.bitFrom at hb
            by_cases h0 : l = w.l0
            · rw [if_pos h0] at hb
              left; exact ⟨h0, (Option.some.inj hb).symm⟩
            · rw [if_neg h0] at hb
              by_cases h1 : l = w.l1
              · rw [if_pos h1] at hb
                right; exact ⟨h1, (Option.some.inj hb).symm⟩
              · rw [if_neg h1] at hb; cases hb
          | succ i =>
            simp only [List.getElem_cons_succ]
            exact hall i (by simpa using hi) (by simpa using hw) (by simpa using hbi)

/-- **C16 (reduction).**  Honest garbler state: every result wire's pair
satisfies `l1 = l0 ⊕ r`; `v` are the correct output bits, so the honest
evaluator would return `ws[i].labelFor v[i]`.  Whatever labels `ls` actually
arrive: if the garbler's result loop succeeds with bits `bs ≠ v`, then at some
position the received label is exactly the honest label xor `r`. -/
theorem C16_wrong_imp_offset (r : L) (ws : List (WireL L)) (v : List Bool) (ls : List L)
    (bs : List Bool) (hpairs : ∀ w ∈ ws, w.l1 = w.l0 ^^^ r) (hv : v.length = ws.length)
    (hlen : ws.length = ls.length) (hok : decodeLabels ws ls = .ok bs) (hwrong : bs ≠ v) :
    ∃ i, ∃ (hi : i < ls.length) (hw : i < ws.length) (hvi : i < v.length),
      ls[i] = ws[i].labelFor v[i] ^^^ r := by
  obtain ⟨hbl, hall⟩ := C16_ok_imp_known_labels ws ls bs hlen hok
  -- find a differing position
  have hex : ∃ i, ∃ (h1 : i < bs.length) (h2 : i < v.length), bs[i] ≠ v[i] := by
    apply Classical.byContradiction
    intro hcon
    apply hwrong
    apply List.ext_getElem (by omega)
    intro i h1 h2
    apply Classical.byContradiction
    intro hne
    exact hcon ⟨i, h1, h2, hne⟩
  obtain ⟨i, h1, h2, hne⟩ := hex
  refine ⟨i, by omega, by omega, h2, ?_⟩
  have hp := hpairs ws[i] (List.getElem_mem _)
  rcases hall i (by omega) (by omega) h1 with ⟨hl, hb⟩ | ⟨hl, hb⟩
  · have : v[i] = true := by
      cases hvv : v[i] with
      | true => rfl
      | false => rw [hb, hvv] at hne; exact absurd rfl hne
    rw [hl, this]
    simp [WireL.labelFor, hp]
  · have : v[i] = false := by
      cases hvv : v[i] with
      | false => rfl
      | true => rw [hb, hvv] at hne; exact absurd rfl hne
    rw [hl, this]
    simp [WireL.labelFor, hp]

/-- Decision logic stated outright: a label that is neither of the wire's two
labels makes the result loop fail (error branch), whatever else arrives. -/
theorem C16_unknown_label_is_error (w : WireL L) (l : L) (ws : List (WireL L)) (ls : List L)
    (h0 : l ≠ w.l0) (h1 : l ≠ w.l1) :
    decodeLabels (w :: ws) (l :: ls) = .error (.unknownLabel ls.length) := by
  simp [decodeLabels, WireL.bitFrom, h0, h1]

/-- The whole-circuit garbler's result loop is this decision logic applied to
the last `nOut` wires of its own garbling. -/
theorem C16_garblerDecode_eq (p : Circuit2) (G : Garbled L) (ls : List L) :
    ∀ i, (match garblerDecode p G i ls with | .ok bs => some bs | .error _ => none) =
      (match decodeLabels ((List.range' i ls.length).map fun j => G.wires.get (p.c.numWires - p.c.nOut + j)) ls with
        | .ok bs => some bs | .error _ => none) := by
  induction ls with
  | nil => intro i; simp [garblerDecode, decodeLabels]
  | cons l ls ih =>
    intro i
    simp only [garblerDecode, List.length_cons, List.range'_succ, List.map_cons, decodeLabels]
    cases (G.wires.get (p.c.numWires - p.c.nOut + i)).bitFrom l with
    | none => simp
    | some b =>
      simp only
      have := ih (i + 1)
      cases h1 : garblerDecode p G (i + 1) ls <;>
        cases h2 : decodeLabels ((List.range' (i + 1) ls.length).map fun j =>
          G.wires.get (p.c.numWires - p.c.nOut + j)) ls <;> simp_all

/-! ## Streaming sessions: the result loop counts

`compiler/ssa/streamer.go` reads exactly `Outputs.Size()` labels, one
`ReceiveLabel` each; `decodeLabels` (the decision logic above) stops at the
shorter of its two lists, so the COUNT is a separate obligation. -/

/-- The streaming result loop is the shared decision logic applied to exactly
the first `ws.length` labels of the stream. -/
theorem C16_streamResultLoop_eq_decode :
    ∀ (ws : List (WireL L)) (ls : List L) (bs : List Bool) (rest : List L),
      streamResultLoop ws ls = .ok (bs, rest) →
      ws.length ≤ ls.length ∧ rest = ls.drop ws.length ∧
        decodeLabels ws (ls.take ws.length) = .ok bs := by
  intro ws
  induction ws with
  | nil =>
    intro ls bs rest h
    simp only [streamResultLoop, Except.ok.injEq, Prod.mk.injEq] at h
    obtain ⟨h1, h2⟩ := h
    subst h1; subst h2
    simp [decodeLabels]
  | cons w ws ih =>
    intro ls bs rest h
    cases ls with
    | nil => simp [streamResultLoop] at h
    | cons l ls =>
      simp only [streamResultLoop] at h
      cases hb : w.bitFrom l with
      | none => rw [hb] at h; simp at h
      | some b =>
        rw [hb] at h
        simp only at h
        cases hrest : streamResultLoop ws ls with
        | error e => rw [hrest] at h; simp at h
        | ok pr =>
          obtain ⟨bs', rest'⟩ := pr
          rw [hrest] at h
          simp only [Except.ok.injEq, Prod.mk.injEq] at h
          obtain ⟨h1, h2⟩ := h
          subst h1; subst h2
          obtain ⟨hle, hdrop, hdec⟩ := ih ls bs' rest' hrest
          refine ⟨by simp; omega, by simpa using hdrop, ?_⟩
          simp only [List.length_cons, List.take_succ_cons, decodeLabels, hb, hdec]

/-- **C16 (streaming result loop counts).**  If the streaming garbler's result
loop returns `ok`, it consumed EXACTLY `ws.length = Outputs.Size()` labels (the
stream held at least that many, the rest is left unread), it produced exactly
that many bits, and label `i` is one of the two labels of result wire `i`,
decoded accordingly.  A stream that ends early is an error, never a shorter
result. -/
theorem C16_stream_result_count (ws : List (WireL L)) (ls : List L) (bs : List Bool) (rest : List L)
    (h : streamResultLoop ws ls = .ok (bs, rest)) :
    bs.length = ws.length ∧ ws.length ≤ ls.length ∧ rest = ls.drop ws.length ∧
      ∀ i (hw : i < ws.length) (hl : i < ls.length) (hb : i < bs.length),
        (ls[i] = ws[i].l0 ∧ bs[i] = false) ∨ (ls[i] = ws[i].l1 ∧ bs[i] = true) := by
  obtain ⟨hle, hdrop, hdec⟩ := C16_streamResultLoop_eq_decode ws ls bs rest h
  have hlen : ws.length = (ls.take ws.length).length := by simp; omega
  obtain ⟨hbl, hall⟩ := C16_ok_imp_known_labels ws (ls.take ws.length) bs hlen hdec
  refine ⟨by omega, hle, hdrop, ?_⟩
  intro i hw hl hb
  have := hall i (by omega) hw hb
  simpa [List.getElem_take] using this

/-- A stream that ends before `Outputs.Size()` labels arrived is an error. -/
theorem C16_stream_short_is_error (ws : List (WireL L)) (ls : List L) (hlt : ls.length < ws.length) :
    ∀ bs rest, streamResultLoop ws ls ≠ .ok (bs, rest) := by
  intro bs rest h
  have := (C16_streamResultLoop_eq_decode ws ls bs rest h).1
  omega

/-- The reduction for streaming sessions: honest garbler state, ARBITRARY
arriving stream; a wrong value returned as success implies that one of the
first `Outputs.Size()` labels equals the honest label xor `r`. -/
theorem C16_stream_wrong_imp_offset (r : L) (ws : List (WireL L)) (v : List Bool) (ls : List L)
    (bs : List Bool) (rest : List L) (hpairs : ∀ w ∈ ws, w.l1 = w.l0 ^^^ r) (hv : v.length = ws.length)
    (hok : streamResultLoop ws ls = .ok (bs, rest)) (hwrong : bs ≠ v) :
    ∃ i, ∃ (hi : i < ls.length) (hw : i < ws.length) (hvi : i < v.length),
      ls[i] = ws[i].labelFor v[i] ^^^ r := by
  obtain ⟨hle, _, hdec⟩ := C16_streamResultLoop_eq_decode ws ls bs rest hok
  have hlen : ws.length = (ls.take ws.length).length := by simp; omega
  obtain ⟨i, hi, hw, hvi, h⟩ := C16_wrong_imp_offset r ws v (ls.take ws.length) bs hpairs hv hlen hdec hwrong
  exact ⟨i, by omega, hw, hvi, by simpa [List.getElem_take] using h⟩

/-- **Negation witness for a loop that resolves `len(block)/16` labels** (the
seeded change S86, `blockResultLoop`): a block holding only the first of two
honest result labels is ACCEPTED and decodes to 1 where the result is 3; the
repository's loop (`streamResultLoop`) reports an error on the same stream. -/
theorem C16_block_loop_accepts_short_block :
    ∃ (ws : List (WireL (BitVec 128))) (v : List Bool) (block : List (BitVec 128)) (bs : List Bool),
      v.length = ws.length ∧
      block = (List.zipWith (fun w b => w.labelFor b) ws v).take block.length ∧
      blockResultLoop ws block = .ok bs ∧ bs.length < ws.length ∧ packLE bs ≠ packLE v ∧
      streamResultLoop ws block = .error .desync :=
  ⟨[⟨3#128, 5#128⟩, ⟨7#128, 9#128⟩], [true, true], [5#128], [true], by decide, by decide,
    by simp [blockResultLoop, decodeLabels, WireL.bitFrom], by decide, by decide,
    by simp [streamResultLoop, WireL.bitFrom]⟩

/-! ## What the reduction does NOT cover: the evaluator's input bits

`C16_wrong_imp_offset` speaks about the labels that come back.  The honest
evaluator obtains, by OT, the labels of the input bits IT ASKS FOR; in a
streaming session it computes those bits by parsing its own input strings with
the argument description the garbler sent (`receiveArgument`, then
`IOArg.Parse`).  If a transit corruption changes that description, the
evaluator asks for the bits of another input `y'`, evaluates honestly and
returns the honest labels of `f(x, y')`: every one of them is a label of its
wire, the result loop succeeds, and where `f(x, y') ≠ f(x, y)` the conclusion
of `C16_wrong_imp_offset` holds although no label was forged: the evaluator
was GIVEN the other label by the OT. -/

/-- Honest labels of ANY output vector `v'` pass the result loop (both loops)
and decode to `v'`: the garbler cannot tell `f(x, y')` from `f(x, y)`. -/
theorem C16_labels_of_other_input_accepted :
    ∀ (ws : List (WireL L)) (v' : List Bool), (∀ w ∈ ws, w.l0 ≠ w.l1) → v'.length = ws.length →
      streamResultLoop ws (List.zipWith (fun w b => w.labelFor b) ws v') = .ok (v', []) := by
  intro ws
  induction ws with
  | nil =>
    intro v' _ hlen
    cases v' with
    | nil => simp [streamResultLoop]
    | cons b bs => simp at hlen
  | cons w ws ih =>
    intro v' hne hlen
    cases v' with
    | nil => simp at hlen
    | cons b bs =>
      have hw := hne w (by simp)
      have := ih bs (fun w' hw' => hne w' (by simp [hw'])) (by simpa using hlen)
      simp only [WireL.labelFor] at this
      cases b
      · simp [streamResultLoop, WireL.labelFor, WireL.bitFrom, this]
      · have h10 : w.l1 ≠ w.l0 := fun h => hw h.symm
        simp [streamResultLoop, WireL.labelFor, WireL.bitFrom, this, h10]

namespace C16Desc
open IoArg

/-- `main(a uint16, b Pair)` with `type Pair struct { x, y uint16 }`: the
description of the evaluator's argument as the garbler sends it. -/
def pair : Desc :=
  .mk (.base .struct 32 0) 32 [.mk (.base .uint 16 0) 16 [], .mk (.base .uint 16 0) 16 []]
/-- The same description with the low byte of member `x`'s size word xor 0x18
(garbler->evaluator offset 102 of that session): 16 becomes 8. -/
def pairCorrupted : Desc :=
  .mk (.base .struct 32 0) 32 [.mk (.base .uint 16 0) 8 [], .mk (.base .uint 16 0) 16 []]
/-- The evaluator's input strings `0x0102 0x0304`. -/
def pairInput : List StrFacts :=
  [StrFacts.ofString "0x0102" (some 0x0102), StrFacts.ofString "0x0304" (some 0x0304)]

/-- `main(a uint16, b []uint16)`, evaluator input of three elements (48 bits). -/
def slice16 : Desc := .mk (.elem .slice 0 0 (.base .uint 16 0)) 48 []
/-- The type string `[]uint16` with one bit of the digit `6` flipped: `[]uint12`. -/
def slice12 : Desc := .mk (.elem .slice 0 0 (.base .uint 12 0)) 48 []
def sliceInput : List StrFacts := [StrFacts.ofString "0xef78402e5eeb" (some 0xef78402e5eeb)]

end C16Desc

open C16Desc in
/-- **Witness (defect found on the unchanged tree).**  Under the corrupted
description the evaluator's own `IOArg.Parse` packs the same strings into
another 32-bit input (`0x00030402` instead of `0x03040102`): with
`f(a, b) = a + b.x + 2*b.y` and `a = 1000` the session completes and the
garbler returns 2032 instead of 2802.  The unpatched `receiveArgument` accepts
both descriptions (it checks nothing); the checks of the repair
(`Desc.ok`) reject the corrupted one: members of 8 + 16 bits in a compound of
32, size word 8 for type string `uint16`. -/
theorem C16_description_member_width_witness :
    (pair.toArg.parse pairInput).toOption = some 0x03040102 ∧
    (pairCorrupted.toArg.parse pairInput).toOption = some 0x00030402 ∧
    (1000 + 0x0102 + 2 * 0x0304 = 2802 ∧ 1000 + 0x0402 + 2 * 0x0003 = 2032) ∧
    pair.ok = true ∧ pairCorrupted.ok = false := by
  decide +kernel

open C16Desc in
/-- **Witness (what no local check can close).**  The element width of a slice
argument travels only in the type string.  `[]uint16` and `[]uint12` with size
word 48 BOTH pass every local consistency check (48 is a multiple of 16 and
of 12), and the same input string parses to different input bits: after the
repair the result is still `f(x, y')` for another well-formed input `y'`, and
only an authenticated description (or the evaluator knowing the program) could
tell.  -/
theorem C16_description_residual_witness :
    slice16.ok = true ∧ slice12.ok = true ∧
    (slice16.toArg.parse sliceInput).toOption = some 0x5eeb402eef78 ∧
    (slice12.toArg.parse sliceInput).toOption = some 0xeeb2e5840ef7 := by
  decide +kernel

/-! ## The local check covers EVERY node of the description tree -/

theorem Desc.ok_mk (p : IoArg.Info) (s : Nat) (ms : List Desc) :
    (Desc.mk p s ms).ok = ((Desc.mk p s ms).okNode && Desc.oks ms) := by
  simp only [Desc.ok, Desc.okNode] <;> rfl

mutual
/-- **C16 (argument description, every node).**  `Desc.ok` (the model of the
check `receiveArgument` makes while it receives the tree) holds iff the
one-record conditions hold at EVERY record of the tree: the argument, its
members, their members (induction over the tree). -/
theorem C16_desc_ok_iff_every_node (d : Desc) : d.ok = true ↔ ∀ n ∈ d.nodes, n.okNode = true := by
  match d with
  | .mk p s ms =>
    have ih := C16_desc_oks_iff_every_node ms
    rw [Desc.ok_mk]
    simp only [Desc.nodes, List.mem_cons, forall_eq_or_imp, Bool.and_eq_true, ih]
theorem C16_desc_oks_iff_every_node (ds : List Desc) :
    Desc.oks ds = true ↔ ∀ n ∈ Desc.nodesL ds, n.okNode = true := by
  match ds with
  | [] => simp [Desc.oks, Desc.nodesL]
  | d :: ds =>
    have ih1 := C16_desc_ok_iff_every_node d
    have ih2 := C16_desc_oks_iff_every_node ds
    simp only [Desc.oks, Desc.nodesL, List.mem_append, Bool.and_eq_true, ih1, ih2]
    constructor
    · rintro ⟨h1, h2⟩ n (h | h)
      · exact h1 n h
      · exact h2 n h
    · intro h
      exact ⟨fun n hn => h n (Or.inl hn), fun n hn => h n (Or.inr hn)⟩
end

/-- Consequence: in an accepted description the size word of EVERY record
whose type string carries a size (scalars, arrays of sized elements: at any
depth) is that size: the width the evaluator packs that member with is the one
its own type string names. -/
theorem C16_desc_ok_every_width (d : Desc) (h : d.ok = true) :
    ∀ n ∈ d.nodes, ∀ b, Desc.typeSize n.parsed = some b → n.size = b := by
  intro n hn b hb
  have hk := (C16_desc_ok_iff_every_node d).1 h n hn
  cases n with
  | mk p s ms =>
    simp only [Desc.parsed] at hb
    simp only [Desc.okNode, hb, Bool.and_eq_true, beq_iff_eq] at hk
    simp only [Desc.size]
    exact hk.1.1.symm

namespace C16Desc
open IoArg
/-- `main(g uint16, e E)` with `type E struct { a uint8; b uint16; c [3]uint8 }`:
the description of the evaluator's argument as the garbler sends it. -/
def withArray : Desc :=
  .mk (.base .struct 48 0) 48
    [.mk (.base .uint 8 0) 8 [], .mk (.base .uint 16 0) 16 [], .mk (.elem .array 24 3 (.base .uint 8 0)) 24 []]
/-- The same with the size word of member `c` changed in transit: 24 becomes 16
(low byte xor 0x08). -/
def withArrayCorrupted : Desc :=
  .mk (.base .struct 48 0) 48
    [.mk (.base .uint 8 0) 8 [], .mk (.base .uint 16 0) 16 [], .mk (.elem .array 24 3 (.base .uint 8 0)) 16 []]
/-- The evaluator's input strings `2 300 0x010203` (every element non-zero). -/
def withArrayInput : List StrFacts :=
  [StrFacts.ofString "2" (some 2), StrFacts.ofString "300" (some 300), StrFacts.ofString "0x010203" (some 0x010203)]
end C16Desc

open C16Desc in
/-- **Negation witness for a check applied once at the root** (the seeded
change S119, `okRootOnly`; never the code of the repository): the array member
counts with the size of its type string, so the root sum comes out right and
the description is ACCEPTED, although member `c` is inconsistent with its own
type string (`okNode` fails on it, `Desc.ok` rejects the tree).  The
evaluator then packs `c` with 16 bits: element `c[2] = 3` is dropped
(`0x0201012c02` instead of `0x030201012c02`) and with
`f(g, e) = g + e.a + e.b + e.c[0] + 3*e.c[2]`, `g = 1` the session completes
with 304 instead of 313. -/
theorem C16_root_only_check_accepts_inconsistent_member :
    withArray.ok = true ∧ withArray.okRootOnly = true ∧
    withArrayCorrupted.okRootOnly = true ∧ withArrayCorrupted.ok = false ∧
    (∃ n ∈ withArrayCorrupted.nodes, n ≠ withArrayCorrupted ∧ n.okNode = false ∧
      Desc.typeSize n.parsed = some 24 ∧ n.size = 16) ∧
    (withArray.toArg.parse withArrayInput).toOption = some 0x030201012c02 ∧
    (withArrayCorrupted.toArg.parse withArrayInput).toOption = some 0x0201012c02 ∧
    (1 + 2 + 300 + 1 + 3 * 3 = 313 ∧ 1 + 2 + 300 + 1 + 3 * 0 = 304) := by
  refine ⟨by decide +kernel, by decide +kernel, by decide +kernel, by decide +kernel,
    ⟨.mk (.elem .array 24 3 (.base .uint 8 0)) 16 [], by simp [Desc.nodes, Desc.nodesL, withArrayCorrupted], ?_, by decide +kernel, by decide +kernel,
      by decide +kernel⟩, by decide +kernel, by decide +kernel, by decide⟩
  intro h
  have := congrArg Desc.size h
  simp [Desc.size, withArrayCorrupted] at this

/-- non-vacuity of `C16_desc_ok_iff_every_node` / `C16_desc_ok_every_width`: an
accepted tree with members (4 records), and a member with a sized type string -/
example : C16Desc.withArray.ok = true ∧ C16Desc.withArray.nodes.length = 4 := by decide +kernel
example : ∃ n ∈ C16Desc.withArray.nodes, Desc.typeSize n.parsed = some 24 ∧ n.size = 24 :=
  ⟨.mk (.elem .array 24 3 (.base .uint 8 0)) 24 [], by simp [Desc.nodes, Desc.nodesL, C16Desc.withArray], by decide +kernel, by decide +kernel⟩
example : Desc.oks C16Desc.withArray.members = true := by decide +kernel

/-- Evaluator-side decision logic: a wrong gate count in the first flight is an
error, not an evaluation. -/
theorem C16_wrong_gate_count (p : Circuit2) (key : List UInt8) (count : Nat) (ms : List (Msg L))
    (h : count ≠ p.c.gates.length) :
    evaluatorRecv1 p (.data key :: .u32 count :: ms) = .error (.wrongGateCount count p.c.gates.length) := by
  simp [evaluatorRecv1, h]

/-! Non-vacuity over `BitVec 8`-like toy labels is not needed: the hypotheses
are met by every honest garbling (C01 gives `l1 = l0 ⊕ r` on every defined
wire); a concrete instance: -/
example : decodeLabels [(⟨3#128, 5#128⟩ : WireL (BitVec 128))] [5#128] = .ok [true] := by
  simp [decodeLabels, WireL.bitFrom]
example : decodeLabels [(⟨3#128, 5#128⟩ : WireL (BitVec 128))] [4#128] = .error (.unknownLabel 0) := by
  simp [decodeLabels, WireL.bitFrom]
/-- non-vacuity of `C16_stream_result_count`: an accepted stream with a label left unread -/
example : streamResultLoop [(⟨3#128, 5#128⟩ : WireL (BitVec 128))] [5#128, 9#128] = .ok ([true], [9#128]) := by
  simp [streamResultLoop, WireL.bitFrom]
example : streamResult 0 [(⟨3#128, 5#128⟩ : WireL (BitVec 128))] [3#128] = .ok [false] := by
  simp [streamResult, streamResultLoop, WireL.bitFrom]
example : streamResult 1 [(⟨3#128, 5#128⟩ : WireL (BitVec 128))] [3#128] = .error .desync := by
  simp [streamResult]

end Mpc

/-
C12  Constant folding equals circuit evaluation.

FULL STATEMENT (without hypotheses NOT provable for the code as it is — see the witnesses):

    for every operator in {+,-,*,/,%,&,|,^,&^,<<,>>,<,<=,>,>=,==,!=,unary -,!},
    signedness, width N in 1..130 and operand values a, b representable in
    intN / uintN, written as typed constants:
      the bits the consumer sees of fold(op, a, b)
        = circuitOp op (enc a) (enc b)       (the run-time instruction)
    and folding never crashes the compiler.

What is proved (everything about `Model/Fold.lean` + `Model/Mpa.lean`, which
the check ties to the real compiler line by line on every run):

  * `C12_fold_eq_circuit`: the summary theorem over the whole integer operator
    set, both signednesses, EVERY width (small path n ≤ 64 on `BitVec 64`,
    large path n > 64 at the level "result = (x op y) mod 2^N"), arbitrary
    operand constants.  Its non-typing hypotheses (`h_image h_divmod h_shr
    h_cmp`) are exactly the open value-level root causes of known_findings.json;
    `+ - * & | ^ &^ << unary-` need none of them on the small path and only
    `h_image` on the large path (`C12_fold_wrap_every_width`,
    `C12_fold_{add,sub,mul,and,or,xor,andnot,shl}_every_width`);
  * `C12_fold_eq_circuit_partial` / `_wide`: the same over the decidable
    predicate `hyps` that the check evaluates for every generated case — an
    oracle failure inside the region `hyps = []` cannot be a known finding;
  * the per-operator small-path theorems (`C12_fold_wrap_ops`, `C12_fold_add`,
    `C12_fold_shl`, `C12_fold_shr_partial`, `C12_fold_div_mod_partial`,
    `C12_fold_cmp_partial`, `C12_fold_neg`, `C12_fold_bool_ops`) and the
    large-path lemmas of Proofs/Fold.lean (`fold_wrap_wide`, `fold_shl_wide`,
    `fold_neg_wide`, `fold_cmp_all`, `fold_shr_wide`, `fold_div_mod_wide`);
  * `C12_text_wrap_nonneg`, `C12_text_div_mod_nonneg`: end to end on the
    program text `T(a) op T(b)` for ALL non-negative representable a, b, N ≤ 64;
  * for every hypothesis a concrete witness (closed computation on the model,
    replayed on the Go code by `c12 one -extra "<op> <s|u> <n> <a> <b> <aform> <bform>"`)
    showing that the full statement fails without it;
  * `C12_no_crash`: no panic branch of the model is reachable for any width
    (`C12_crash_wide_old_witness`: before repo d31d09e `uint128(5)+uint128(7)`
    crashed the compiler).

  * several constants in one program ("as seen by the rest of the program", Model/FoldTable.lean: the table
    `gen.constants` keyed by the Name, first registered instance, shared or re-widened wires):
    `C12_const_table_exact_iff` — for any naming function, every constant of every program gets its own wires
    IFF the naming separates constants of one width with different wires; `C12_decimal_naming_injective` (the
    naming of the code as it is), `C12_mixed_naming_not_injective` / `C12_mixed_naming_witness` (a naming that
    spells some values in another base lets one constant be read as another);
    `C12_constants_see_own_bits` and `C12_multi_item_unaffected_by_company` — for every program of the
    modelled shape (any number of items, operators, widths, values) an item returns what its own wires give,
    whatever else the program holds; `C12_multi_rewiden_witness` — the one remaining way company changes a
    constant (a name registered at two widths, known finding).

  * folding leaves its operands alone (a constant bound to a name is ONE `*mpa.Int` object that several folds
    and, at circuit generation, `DefineConstants` read): `C12_mpa_call_writes_receiver_only` /
    `C12_mpa_history_operands_unchanged` — in the register model of `mpa` calls (Model/MpaHist.lean; every
    method, both paths, every receiver / operand aliasing pattern) a call writes its receiver only, over any
    history; `C12_constant_value_independent_of_uses` — for EVERY program of declarations and folds
    (Model/FoldUses.lean) each fold result is a function of the declarations and earlier results only and every
    declared constant keeps the wires of its declaration; `C12_in_place_fold_witness` — a folder that computes
    `&^` into its left operand breaks exactly this while every single fold stays right.  The `mpah` and `uses`
    correspondence lines tie both models to the real code, operands observed after every call.

Not covered by theorems: consumers other than `return` and `^ x`, `+ x`, `x -` at `x = 0` (oracle only; the
witnesses `C12_result_type_widened_witness`, `C12_result_minbits_witness` and
`C12_refold_shr_witness` show how a consumer sees more than the low N bits) and
an end-to-end text-level statement for negative operand forms / N > 64.
-/
import MpcVerif.Proofs.Fold
import MpcVerif.Proofs.FoldTable
import MpcVerif.Proofs.FoldUses
import MpcVerif.Proofs.MpaHist

namespace Mpc
open Mpc.Mpa Mpc.Fold

/-! ## Reading the hypotheses -/

theorem smallOperand_spec {n : Nat} {c : CV} (h : smallOperand n c = true) :
    ∃ t v, c = .int t v ∧ 0 < v.bits ∧ v.bits ≤ 64 ∧ n ≤ t.bits ∧ t.bits ≤ 64 := by
  cases c with
  | bool b => simp [smallOperand] at h
  | int t v =>
    simp only [smallOperand, decide_eq_true_eq] at h
    exact ⟨t, v, rfl, h.1, h.2.1, h.2.2.1, h.2.2.2⟩

theorem sameKind_spec {lt rt : TInfo} {lv rv : MInt} (h : sameKind (.int lt lv) (.int rt rv) = true) :
    lt.kind = rt.kind := by
  simpa [sameKind] using h

/-- Unary minus goes through `Unary.Eval` (`negate`), every binary operator through `Binary.evalConst`. -/
def foldOp (op : Op) (l r : CV) : Res CV := if op = .neg then negate l else evalBin op l r

/-! ## `+  -  *  &  |  ^  &^` -/

/-- For every width `0 < n ≤ 64`, every pair of integer constants of the same kind whose `mpa` values are
small and whose types have between `n` and 64 bits: folding succeeds and the low `n` wires of the folded
constant are exactly the run-time instruction on the operands' low `n` wires (arithmetic mod 2^n).  The
result needs at most `Bits(left type)` bits, so it is assignable to the declared type. -/
theorem C12_fold_wrap_ops (op : Op) (hop : op.isWrap = true) (signed : Bool) (n cnt : Nat) (l r : CV)
    (hn0 : 0 < n) (hl : smallOperand n l = true) (hr : smallOperand n r = true) (hk : sameKind l r = true) :
    ∃ t v, evalBin op l r = .ok (.int t v) ∧ v.bits ≤ 64 ∧
      seenBV n (.int t v) = circuitOp op signed (seenBV n l) (seenBV n r) cnt := by
  obtain ⟨lt, lv, rfl, _, hlv, hnl, hl64⟩ := smallOperand_spec hl
  obtain ⟨rt, rv, rfl, _, hrv, hnr, _⟩ := smallOperand_spec hr
  obtain ⟨t, v, h1, _, _, _, h5, h6⟩ :=
    fold_wrap op hop signed n cnt lt rt lv rv (sameKind_spec hk) (by omega) hl64 hnl hnr hlv hrv
  exact ⟨t, v, h1, h5, h6⟩

/-- … and the result is assignable to a declared type of `Bits(left type)` bits (`MinBits ≤ Bits`). -/
theorem C12_fold_wrap_assignable (op : Op) (hop : op.isWrap = true) (lt rt : TInfo) (lv rv : MInt)
    (hk : lt.kind = rt.kind) (h0 : 0 < lt.bits) (h64 : lt.bits ≤ 64) (hlv : lv.bits ≤ 64) (hrv : rv.bits ≤ 64) :
    ∃ t v, evalBin op (.int lt lv) (.int rt rv) = .ok (.int t v) ∧ t.minBits ≤ lt.bits := by
  obtain ⟨t, v, h1, _, _, h4, _, _⟩ :=
    fold_wrap op hop true 0 0 lt rt lv rv hk h0 h64 (by omega) (by omega) hlv hrv
  exact ⟨t, v, h1, h4⟩

-- non-vacuity: int8(-43) - int8(4), uint64(2^64-1) * uint64(3), int33(-5) &^ int33(9) (written -int33(5))
example : caseHyps .sub .int 8 (-43) 4 .cast .pos = [] := by decide +kernel
example : caseHyps .mul .uint 64 18446744073709551615 3 .pos .pos = [] := by decide +kernel
example : caseHyps .bclr .int 33 (-5) 9 .neg .pos = [] := by decide +kernel

/-! ## `+` -/

/-- `+` (since repo de91761 `mpa.Int.Add` keeps the receiver's width): the statement of `C12_fold_wrap_ops`
without any extra hypothesis. -/
theorem C12_fold_add (signed : Bool) (n cnt : Nat) (l r : CV) (hn0 : 0 < n)
    (hl : smallOperand n l = true) (hr : smallOperand n r = true) (hk : sameKind l r = true) :
    ∃ t v, evalBin .add l r = .ok (.int t v) ∧ v.bits ≤ 64 ∧
      seenBV n (.int t v) = circuitOp .add signed (seenBV n l) (seenBV n r) cnt :=
  C12_fold_wrap_ops .add rfl signed n cnt l r hn0 hl hr hk

/-- `Add` as it was before de91761: the sum masked to `max(x.bits, y.bits)`, the operands' `mpa` sizes. -/
def addOld (z x y : MInt) : Option MInt :=
  if z.isSmall then setSmall (max x.bits y.bits) (x.small + y.small) else Mpa.add z x y

/-- Witness about the OLD definition (why the fix was needed): for `uint40(4294967295) + uint40(1)` both
operands are sized 32 bits and the carry into bit 32 was masked away (result 0); the current `Add` gives 2^32
like the run-time adder. -/
theorem C12_add_carry_lost_old_witness :
    addOld { bits := 40 } { bits := 32, i64 := 4294967295#64 } { bits := 32, i64 := 1#64 } =
      some { bits := 32, i64 := 0#64 } ∧
    (foldExpr .add .uint 40 4294967295 1 .pos .pos >>= retSeen .uint 40) = .ok 4294967296 ∧
    circuitOpNat .add .uint 40 4294967295 1 = 4294967296 ∧
    caseHyps .add .uint 40 4294967295 1 .pos .pos = [] := by
  decide +kernel

example : caseHyps .add .uint 40 1099511627775 1 .pos .pos = [] := by decide +kernel

/-! ## `<<` -/

/-- Left shift by a constant count: low `n` wires of the folded constant = `x <<< count`. -/
theorem C12_fold_shl (signed : Bool) (n : Nat) (l : CV) (rt : TInfo) (rv : MInt) (c : BitVec 64) (hn0 : 0 < n)
    (hl : smallOperand n l = true) (hc : rv.int64 = some c) :
    ∃ t v, evalBin .shl l (.int rt rv) = .ok (.int t v) ∧ v.bits ≤ 64 ∧
      seenBV n (.int t v) = circuitOp .shl signed (seenBV n l) (seenBV n (.int rt rv)) c.toNat := by
  obtain ⟨lt, lv, rfl, _, hlv, hnl, hl64⟩ := smallOperand_spec hl
  rw [evalBin_shl lt rt lv rv c hc (by omega) hl64]
  obtain ⟨t, v, h1, _, _, _, h5, _, _, _, h8⟩ :=
    seen_const_masked n lt.bits lt (lv.small <<< c.toNat) hl64 hnl hnl
  refine ⟨t, v, h1, h5, ?_⟩
  rw [h8, seenBV_small n lt lv hlv hnl]
  exact BitVec.setWidth_shiftLeft_of_le (by omega)

example : caseHyps .shl .int 8 (-128) 9 .cast .pos = [] := by decide +kernel

/-! ## `>>` -/

/-- `Rsh` shifts the `int64` arithmetically.  It agrees with `srshift` (signed) / `rshift` (unsigned) when
the `int64` is the sign resp. zero extension of the `n` seen bits (`extended`). -/
theorem C12_fold_shr_partial (signed : Bool) (n : Nat) (l : CV) (rt : TInfo) (rv : MInt) (c : BitVec 64)
    (hn0 : 0 < n) (hn64 : n ≤ 64) (hl : smallOperand n l = true) (hc : rv.int64 = some c)
    (hext : extended signed n l = true) :
    ∃ t v, evalBin .shr l (.int rt rv) = .ok (.int t v) ∧ v.bits ≤ 64 ∧
      seenBV n (.int t v) = circuitOp .shr signed (seenBV n l) (seenBV n (.int rt rv)) c.toNat := by
  obtain ⟨lt, lv, rfl, _, hlv, hnl, hl64⟩ := smallOperand_spec hl
  rw [evalBin_shr lt rt lv rv c hc (by omega) hl64]
  obtain ⟨t, v, h1, _, _, _, h5, _, _, _, h8⟩ :=
    seen_const_masked n lt.bits lt (lv.small.sshiftRight c.toNat) hl64 hnl hnl
  refine ⟨t, v, h1, h5, ?_⟩
  rw [h8]
  simp only [circuitOp]
  cases signed
  · simp only [extended, Bool.false_eq_true, if_false, Bool.and_eq_true, beq_iff_eq, Bool.not_eq_true'] at hext
    obtain ⟨he, hm⟩ := hext
    rw [BitVec.sshiftRight_eq_of_msb_false hm, he]
    exact setWidth_ushiftRight_zeroExtend n c.toNat _ hn64
  · simp only [extended, if_true, beq_iff_eq] at hext
    rw [hext]
    exact setWidth_sshiftRight_signExtend n c.toNat _ hn64

/-- Witnesses: an unsigned 64-bit value with bit 63 set is a negative `int64` (arithmetic instead of logical
shift); a negative `int8` written `-int8(2)` is held masked to 8 bits, so its `>>` is logical. -/
theorem C12_shr_witness :
    (foldExpr .shr .uint 64 18446744073709551615 32 .pos .pos >>= retSeen .uint 64) = .ok 18446744073709551615 ∧
    circuitOpNat .shr .uint 64 18446744073709551615 32 = 4294967295 ∧
    caseHyps .shr .uint 64 18446744073709551615 32 .pos .pos = ["extended"] ∧
    (foldExpr .shr .int 8 (-2) 1 .neg .pos >>= retSeen .int 8) = .ok 127 ∧
    circuitOpNat .shr .int 8 (-2) 1 = 255 := by
  decide +kernel

example : caseHyps .shr .int 64 (-128) 3 .neg .pos = [] := by decide +kernel
example : caseHyps .shr .uint 64 9223372036854775807 70 .pos .pos = [] := by decide +kernel

/-! ## `/`, `%` -/

/-- `Div` / `Mod` divide the `int64`s (Go: quotient truncated, remainder with the sign of the dividend).
They agree with the run-time dividers (`udiv/umod`, and `idiv/imod` = truncated quotient and |a| mod |b|)
when both operands are held exactly as non-negative `int64`s — including a zero divisor, where both sides
give all ones resp. the dividend. -/
theorem C12_fold_div_mod_partial (op : Op) (hop : op = .div ∨ op = .mod) (signed : Bool) (n cnt : Nat) (l r : CV)
    (hn0 : 0 < n) (hn64 : n ≤ 64) (hl : smallOperand n l = true) (hr : smallOperand n r = true)
    (hk : sameKind l r = true) (hcl : cleanNonneg signed n l = true) (hcr : cleanNonneg signed n r = true) :
    ∃ t v, evalBin op l r = .ok (.int t v) ∧ v.bits ≤ 64 ∧
      seenBV n (.int t v) = circuitOp op signed (seenBV n l) (seenBV n r) cnt := by
  obtain ⟨lt, lv, rfl, _, hlv, hnl, hl64⟩ := smallOperand_spec hl
  obtain ⟨rt, rv, rfl, _, hrv, hnr, _⟩ := smallOperand_spec hr
  simp only [cleanNonneg, Bool.and_eq_true, beq_iff_eq, Bool.not_eq_true', Bool.or_eq_true] at hcl hcr
  obtain ⟨⟨hle, hlm⟩, hls⟩ := hcl
  obtain ⟨⟨hre, hrm⟩, hrs⟩ := hcr
  have ha : signed = true → (seenBV n (CV.int lt lv)).msb = false := by
    intro h; cases hls with
    | inl h' => rw [h] at h'; exact absurd h' (by decide)
    | inr h' => exact h'
  have hb : signed = true → (seenBV n (CV.int rt rv)).msb = false := by
    intro h; cases hrs with
    | inl h' => rw [h] at h'; exact absurd h' (by decide)
    | inr h' => exact h'
  obtain ⟨hcd, hcm⟩ := circuit_div_nonneg signed _ _ ha hb cnt
  have hcore := div_core (seenBV n (CV.int lt lv)) (seenBV n (CV.int rt rv)) hn64 (hle ▸ hlm) (hre ▸ hrm)
  rw [← hle, ← hre] at hcore
  cases hop with
  | inl h =>
    subst h
    rw [evalBin_div lt rt lv rv (sameKind_spec hk) (by omega) hl64]
    obtain ⟨t, v, h1, _, _, _, h5, _, _, _, h8⟩ := seen_const_masked n lt.bits lt
      (if rv.small = 0#64 then BitVec.allOnes 64 else lv.small.sdiv rv.small) hl64 hnl hnl
    exact ⟨t, v, h1, h5, by rw [h8, hcd]; exact hcore.1⟩
  | inr h =>
    subst h
    rw [evalBin_mod lt rt lv rv (sameKind_spec hk) (by omega) hl64]
    obtain ⟨t, v, h1, _, _, _, h5, _, _, _, h8⟩ := seen_const_masked n lt.bits lt
      (if rv.small = 0#64 then lv.small else lv.small.srem rv.small) hl64 hnl hnl
    exact ⟨t, v, h1, h5, by rw [h8, hcm]; exact hcore.2⟩

/-- Witnesses (the defect the design reproduced by hand, re-derived by the oracle on the real compiler):
`int32(-43)/int32(4)` folds to 1073741813, the run-time `idiv` gives -10; `int8(-43)%int8(4)` folds to 1, the
run-time `imod` gives 3 — the small path divides the MASKED (zero-extended) operands.  Also an unsigned 64-bit
operand with bit 63 set is divided as a negative `int64`. -/
theorem C12_div_mod_masked_operands_witness :
    (foldExpr .div .int 32 (-43) 4 .cast .pos >>= retSeen .int 32) = .ok 1073741813 ∧
    circuitOpNat .div .int 32 (-43) 4 = 4294967286 ∧
    caseHyps .div .int 32 (-43) 4 .cast .pos = ["nonneg-exact"] ∧
    (foldExpr .mod .int 8 (-43) 4 .cast .pos >>= retSeen .int 8) = .ok 1 ∧
    circuitOpNat .mod .int 8 (-43) 4 = 3 ∧
    (foldExpr .div .uint 64 9223372036854775808 2 .pos .pos >>= retSeen .uint 64) = .ok 13835058055282163712 ∧
    circuitOpNat .div .uint 64 9223372036854775808 2 = 4611686018427387904 := by
  decide +kernel

example : caseHyps .div .int 32 43 4 .pos .pos = [] := by decide +kernel
example : caseHyps .mod .uint 8 255 0 .pos .pos = [] := by decide +kernel

/-! ## Comparisons -/

/-- `Cmp` compares `Int64()`, whose sign comes from the `mpa` size (32/64), not from the type.  When
`Int64()` of both operands is the typed value the folded boolean is the run-time comparator's output. -/
theorem C12_fold_cmp_partial (op : Op) (hop : op.isCmp = true) (signed : Bool) (n : Nat) (l r : CV)
    (hl : smallOperand n l = true) (hr : smallOperand n r = true)
    (hil : int64Agrees signed n l = true) (hir : int64Agrees signed n r = true) :
    evalBin op l r = .ok (.bool (circuitCmp op signed (seenBV n l) (seenBV n r))) := by
  obtain ⟨lt, lv, rfl, _, hlv, _, _⟩ := smallOperand_spec hl
  obtain ⟨rt, rv, rfl, _, hrv, _, _⟩ := smallOperand_spec hr
  simp only [int64Agrees] at hil hir
  cases ha : lv.int64 with
  | none => simp [ha] at hil
  | some a =>
    cases hb : rv.int64 with
    | none => simp [hb] at hir
    | some b =>
      rw [evalBin_cmp op hop lt rt lv rv hlv hrv a b ha hb]
      simp only [ha, hb] at hil hir
      cases signed
      · simp only [Bool.false_eq_true, if_false, beq_iff_eq] at hil hir
        rw [hil, hir, cmpResult_unsigned op hop]
      · simp only [if_true, beq_iff_eq] at hil hir
        rw [hil, hir, cmpResult_signed op hop]

/-- Witnesses: `uint64(3000000000) < uint64(5)` folds to true (3000000000 is sized 32 bits and read as a
negative number), `(-int8(2)) >= int8(2)` folds to true (0xFE sized 32 bits is 254). -/
theorem C12_cmp_sign_from_size_witness :
    (foldExpr .lt .uint 64 3000000000 5 .pos .pos >>= retSeen .bool 1) = .ok 1 ∧
    circuitOpNat .lt .uint 64 3000000000 5 = 0 ∧
    caseHyps .lt .uint 64 3000000000 5 .pos .pos = ["int64"] ∧
    (foldExpr .ge .int 8 (-2) 2 .neg .pos >>= retSeen .bool 1) = .ok 1 ∧
    circuitOpNat .ge .int 8 (-2) 2 = 0 := by
  decide +kernel

example : caseHyps .lt .int 8 (-2) 2 .cast .pos = [] := by decide +kernel
example : caseHyps .ne .uint 64 9223372036854775807 0 .pos .pos = [] := by decide +kernel

/-! ## Unary minus, boolean operators -/

/-- `-c` for a typed integer constant: low `n` wires = `0 - x` (the `isub $0 x` the compiler emits). -/
theorem C12_fold_neg (signed : Bool) (n cnt : Nat) (l : CV) (hn0 : 0 < n) (hl : smallOperand n l = true) :
    ∃ t v, negate l = .ok (.int t v) ∧ v.bits ≤ 64 ∧
      seenBV n (.int t v) = circuitOp .neg signed (seenBV n l) (seenBV n l) cnt := by
  obtain ⟨lt, lv, rfl, _, hlv, hnl, hl64⟩ := smallOperand_spec hl
  rw [negate_small lt lv (by omega) hl64]
  obtain ⟨t, v, h1, _, _, _, h5, _, _, _, h8⟩ :=
    seen_const_masked n lt.bits lt (0#64 - lv.small) hl64 hnl hnl
  refine ⟨t, v, h1, h5, ?_⟩
  rw [h8, seenBV_small n lt lv hlv hnl]
  simp only [circuitOp]
  rw [setWidth_sub' _ _ (by omega)]
  simp

example : caseHyps .neg .int 8 (-128) 0 .cast .pos = [] := by decide +kernel

/-- `== != && || !` on boolean constants equal the 1-bit instructions, for all values. -/
theorem C12_fold_bool_ops (a b : Bool) :
    evalBin .eq (.bool a) (.bool b) = .ok (.bool (circuitBool .eq a b)) ∧
    evalBin .ne (.bool a) (.bool b) = .ok (.bool (circuitBool .ne a b)) ∧
    evalBin .land (.bool a) (.bool b) = .ok (.bool (circuitBool .land a b)) ∧
    evalBin .lor (.bool a) (.bool b) = .ok (.bool (circuitBool .lor a b)) ∧
    evalNot (.bool a) = .ok (.bool (circuitBool .lnot a b)) := by
  cases a <;> cases b <;> decide

/-! ## The region the check treats as proved -/

theorem ite_nil {name : String} {ok : Bool} (h : (if ok = true then ([] : List String) else [name]) = []) :
    ok = true := by
  cases ok <;> simp at h ⊢

theorem typesWide_spec {op : Op} {n : Nat} {l r : CV} (h : typesWide op n l r = true) :
    ∃ lt lv rt rv, l = .int lt lv ∧ r = .int rt rv ∧ 64 < lt.bits ∧ n ≤ lt.bits ∧
      (op.isShift = true ∨ op = .neg ∨ n ≤ rt.bits) := by
  cases l with
  | bool b => simp [typesWide] at h
  | int lt lv =>
    cases r with
    | bool b => simp [typesWide] at h
    | int rt rv =>
      simp only [typesWide, decide_eq_true_eq] at h
      exact ⟨lt, lv, rt, rv, rfl, rfl, h.1, h.2.1, h.2.2⟩

/-- The large-path half of `C12_fold_eq_circuit_partial`. -/
theorem C12_fold_eq_circuit_wide (op : Op) (signed : Bool) (n : Nat) (l r : CV) (cnt : BitVec 64)
    (hcov : hypsWide op signed n l r = [])
    (hcnt : op.isShift = true → (mpaOf r).int64 = some cnt) :
    (op.isCmp = true → foldOp op l r = .ok (.bool (circuitCmp op signed (seenBV n l) (seenBV n r)))) ∧
    (op.isCmp = false → ∃ t v, foldOp op l r = .ok (.int t v) ∧
        seenBV n (.int t v) = circuitOp op signed (seenBV n l) (seenBV n r) cnt.toNat) := by
  unfold hypsWide at hcov
  simp only [List.append_eq_nil_iff] at hcov
  obtain ⟨hty, hrest⟩ := hcov
  obtain ⟨lt, lv, rt, rv, rfl, rfl, hL, hnl, hnr⟩ := typesWide_spec (ite_nil hty)
  have wrap : ∀ o : Op, o.isWrap = true → o = op →
      (imageExact (.int lt lv) && imageExact (.int rt rv)) = true → sameKind (.int lt lv) (.int rt rv) = true →
      (op.isCmp = true → foldOp op (.int lt lv) (.int rt rv) =
          .ok (.bool (circuitCmp op signed (seenBV n (.int lt lv)) (seenBV n (.int rt rv))))) ∧
      (op.isCmp = false → ∃ t v, foldOp op (.int lt lv) (.int rt rv) = .ok (.int t v) ∧
        seenBV n (.int t v) = circuitOp op signed (seenBV n (.int lt lv)) (seenBV n (.int rt rv)) cnt.toNat) := by
    intro o ho heq hi hk
    subst heq
    simp only [Bool.and_eq_true] at hi
    have hk' : lt.kind = rt.kind := by simpa [sameKind] using hk
    have hnr' : n ≤ rt.bits := by
      rcases hnr with h | h | h
      · cases o <;> simp [Op.isWrap, Op.isShift] at ho h
      · subst h; simp [Op.isWrap] at ho
      · exact h
    refine ⟨fun h => ?_, fun _ => ?_⟩
    · cases o <;> simp [Op.isWrap, Op.isCmp] at ho h
    · obtain ⟨t, v, h1, _, _, _, h5⟩ := fold_wrap_wide o ho signed n cnt.toNat lt rt lv rv hk' hL hnl hnr' hi.1 hi.2
      have hne : o ≠ .neg := by intro h; subst h; simp [Op.isWrap] at ho
      exact ⟨t, v, by simp [foldOp, hne, h1], h5⟩
  have cmpc : ∀ o : Op, o.isCmp = true → o = op → cmpAgrees signed n (.int lt lv) (.int rt rv) = true →
      (op.isCmp = true → foldOp op (.int lt lv) (.int rt rv) =
          .ok (.bool (circuitCmp op signed (seenBV n (.int lt lv)) (seenBV n (.int rt rv))))) ∧
      (op.isCmp = false → ∃ t v, foldOp op (.int lt lv) (.int rt rv) = .ok (.int t v) ∧
        seenBV n (.int t v) = circuitOp op signed (seenBV n (.int lt lv)) (seenBV n (.int rt rv)) cnt.toNat) := by
    intro o ho heq hc
    subst heq
    refine ⟨fun _ => ?_, fun h => ?_⟩
    · have hne : o ≠ .neg := by intro h; subst h; simp [Op.isCmp] at ho
      simp only [foldOp, hne, if_false]
      exact fold_cmp_all o ho signed n lt rt lv rv hc
    · rw [ho] at h; exact absurd h (by decide)
  have divc : ∀ o : Op, (o = .div ∨ o = .mod) → o = op →
      divWide signed n (.int lt lv) (.int rt rv) = true → sameKind (.int lt lv) (.int rt rv) = true →
      (op.isCmp = true → foldOp op (.int lt lv) (.int rt rv) =
          .ok (.bool (circuitCmp op signed (seenBV n (.int lt lv)) (seenBV n (.int rt rv))))) ∧
      (op.isCmp = false → ∃ t v, foldOp op (.int lt lv) (.int rt rv) = .ok (.int t v) ∧
        seenBV n (.int t v) = circuitOp op signed (seenBV n (.int lt lv)) (seenBV n (.int rt rv)) cnt.toNat) := by
    intro o ho heq hd hk
    subst heq
    have hk' : lt.kind = rt.kind := by simpa [sameKind] using hk
    have hnr' : n ≤ rt.bits := by
      rcases hnr with h | h | h
      · rcases ho with h' | h' <;> subst h' <;> simp [Op.isShift] at h
      · rcases ho with h' | h' <;> subst h' <;> simp at h
      · exact h
    refine ⟨fun h => ?_, fun _ => ?_⟩
    · rcases ho with h' | h' <;> subst h' <;> simp [Op.isCmp] at h
    · obtain ⟨t, v, h1, _, h3⟩ := fold_div_mod_wide o ho signed n cnt.toNat lt rt lv rv hk' hL hnl hnr' hd
      have hne : o ≠ .neg := by rcases ho with h' | h' <;> subst h' <;> simp
      exact ⟨t, v, by simp [foldOp, hne, h1], h3⟩
  cases op with
  | add => simp only [List.append_eq_nil_iff] at hrest; exact wrap .add rfl rfl (ite_nil hrest.1) (ite_nil hrest.2)
  | sub => simp only [List.append_eq_nil_iff] at hrest; exact wrap .sub rfl rfl (ite_nil hrest.1) (ite_nil hrest.2)
  | mul => simp only [List.append_eq_nil_iff] at hrest; exact wrap .mul rfl rfl (ite_nil hrest.1) (ite_nil hrest.2)
  | band => simp only [List.append_eq_nil_iff] at hrest; exact wrap .band rfl rfl (ite_nil hrest.1) (ite_nil hrest.2)
  | bor => simp only [List.append_eq_nil_iff] at hrest; exact wrap .bor rfl rfl (ite_nil hrest.1) (ite_nil hrest.2)
  | bxor => simp only [List.append_eq_nil_iff] at hrest; exact wrap .bxor rfl rfl (ite_nil hrest.1) (ite_nil hrest.2)
  | bclr => simp only [List.append_eq_nil_iff] at hrest; exact wrap .bclr rfl rfl (ite_nil hrest.1) (ite_nil hrest.2)
  | div => simp only [List.append_eq_nil_iff] at hrest; exact divc .div (Or.inl rfl) rfl (ite_nil hrest.1) (ite_nil hrest.2)
  | mod => simp only [List.append_eq_nil_iff] at hrest; exact divc .mod (Or.inr rfl) rfl (ite_nil hrest.1) (ite_nil hrest.2)
  | shl =>
    refine ⟨fun h => by simp [Op.isCmp] at h, fun _ => ?_⟩
    obtain ⟨t, v, h1, _, _, _, h5⟩ := fold_shl_wide signed n lt rt lv rv cnt (hcnt rfl) hL hnl (ite_nil hrest)
    exact ⟨t, v, by simp [foldOp, h1], h5⟩
  | shr =>
    refine ⟨fun h => by simp [Op.isCmp] at h, fun _ => ?_⟩
    obtain ⟨t, v, h1, _, h3⟩ := fold_shr_wide signed n lt rt lv rv cnt (hcnt rfl) hL hnl (ite_nil hrest)
    exact ⟨t, v, by simp [foldOp, h1], h3⟩
  | lt => exact cmpc .lt rfl rfl (ite_nil hrest)
  | le => exact cmpc .le rfl rfl (ite_nil hrest)
  | gt => exact cmpc .gt rfl rfl (ite_nil hrest)
  | ge => exact cmpc .ge rfl rfl (ite_nil hrest)
  | eq => exact cmpc .eq rfl rfl (ite_nil hrest)
  | ne => exact cmpc .ne rfl rfl (ite_nil hrest)
  | neg =>
    refine ⟨fun h => by simp [Op.isCmp] at h, fun _ => ?_⟩
    obtain ⟨t, v, h1, _, _, _, h5⟩ := fold_neg_wide signed n cnt.toNat lt lv hL hnl (ite_nil hrest)
    refine ⟨t, v, by simp [foldOp, h1], ?_⟩
    rw [h5]; simp [circuitOp]
  | lnot => simp at hrest
  | land => simp at hrest
  | lor => simp at hrest

/-- `C12_fold_eq_circuit_partial`: whenever the decidable predicate `hyps` (evaluated by the check for every
generated case on the constants the MODEL builds, the model being compared with the real compiler line by
line) reports no violated hypothesis, the integer operator `op` folds without error and the low `n` wires of
the result equal the run-time instruction on the low `n` wires of the operands; comparisons fold to the
comparator's output — for EVERY width `n` (small path `n ≤ 64`, large path `n > 64`).  Missing for the full
statement: exactly the regions named by `hyps` (see `C12_fold_eq_circuit` for them as explicit hypotheses). -/
theorem C12_fold_eq_circuit_partial (op : Op) (signed : Bool) (n : Nat) (l r : CV) (cnt : BitVec 64) (hn0 : 0 < n)
    (hcov : hyps op signed n l r = [])
    (hcnt : op.isShift = true → (mpaOf r).int64 = some cnt) :
    (op.isCmp = true → foldOp op l r = .ok (.bool (circuitCmp op signed (seenBV n l) (seenBV n r)))) ∧
    (op.isCmp = false → ∃ t v, foldOp op l r = .ok (.int t v) ∧
        seenBV n (.int t v) = circuitOp op signed (seenBV n l) (seenBV n r) cnt.toNat) := by
  unfold hyps at hcov
  by_cases hw : n > 64
  · rw [if_pos hw] at hcov
    exact C12_fold_eq_circuit_wide op signed n l r cnt hcov hcnt
  rw [if_neg hw] at hcov
  have hn64 : n ≤ 64 := by omega
  simp only [List.append_eq_nil_iff] at hcov
  obtain ⟨hso, hrest⟩ := hcov
  have hso := ite_nil hso
  simp only [Bool.and_eq_true, Bool.or_eq_true, beq_iff_eq] at hso
  obtain ⟨hl, hr⟩ := hso
  have wrap : ∀ o : Op, o.isWrap = true → o = op → sameKind l r = true → smallOperand n r = true →
      (op.isCmp = true → foldOp op l r = .ok (.bool (circuitCmp op signed (seenBV n l) (seenBV n r)))) ∧
      (op.isCmp = false → ∃ t v, foldOp op l r = .ok (.int t v) ∧
        seenBV n (.int t v) = circuitOp op signed (seenBV n l) (seenBV n r) cnt.toNat) := by
    intro o ho heq hk hr'
    subst heq
    refine ⟨fun h => ?_, fun _ => ?_⟩
    · cases o <;> simp [Op.isWrap, Op.isCmp] at ho h
    · obtain ⟨t, v, h1, _, h3⟩ := C12_fold_wrap_ops o ho signed n cnt.toNat l r hn0 hl hr' hk
      have hne : o ≠ .neg := by intro h; subst h; simp [Op.isWrap] at ho
      exact ⟨t, v, by simp [foldOp, hne, h1], h3⟩
  have cmpc : ∀ o : Op, o.isCmp = true → o = op → smallOperand n r = true →
      (int64Agrees signed n l && int64Agrees signed n r) = true →
      (op.isCmp = true → foldOp op l r = .ok (.bool (circuitCmp op signed (seenBV n l) (seenBV n r)))) ∧
      (op.isCmp = false → ∃ t v, foldOp op l r = .ok (.int t v) ∧
        seenBV n (.int t v) = circuitOp op signed (seenBV n l) (seenBV n r) cnt.toNat) := by
    intro o ho heq hr' hi
    subst heq
    simp only [Bool.and_eq_true] at hi
    refine ⟨fun _ => ?_, fun h => ?_⟩
    · have hne : o ≠ .neg := by intro h; subst h; simp [Op.isCmp] at ho
      simp only [foldOp, hne, if_false]
      exact C12_fold_cmp_partial o ho signed n l r hl hr' hi.1 hi.2
    · rw [ho] at h; exact absurd h (by decide)
  cases op with
  | add => exact wrap .add rfl rfl (ite_nil hrest) (by simpa [Op.isShift] using hr)
  | sub => exact wrap .sub rfl rfl (ite_nil hrest) (by simpa [Op.isShift] using hr)
  | mul => exact wrap .mul rfl rfl (ite_nil hrest) (by simpa [Op.isShift] using hr)
  | band => exact wrap .band rfl rfl (ite_nil hrest) (by simpa [Op.isShift] using hr)
  | bor => exact wrap .bor rfl rfl (ite_nil hrest) (by simpa [Op.isShift] using hr)
  | bxor => exact wrap .bxor rfl rfl (ite_nil hrest) (by simpa [Op.isShift] using hr)
  | bclr => exact wrap .bclr rfl rfl (ite_nil hrest) (by simpa [Op.isShift] using hr)
  | div =>
    simp only [List.append_eq_nil_iff] at hrest
    have hc := ite_nil hrest.1
    have hk := ite_nil hrest.2
    simp only [Bool.and_eq_true] at hc
    have hr' : smallOperand n r = true := by simpa [Op.isShift] using hr
    refine ⟨fun h => by simp [Op.isCmp] at h, fun _ => ?_⟩
    obtain ⟨t, v, h1, _, h3⟩ :=
      C12_fold_div_mod_partial .div (Or.inl rfl) signed n cnt.toNat l r hn0 hn64 hl hr' hk hc.1 hc.2
    exact ⟨t, v, by simp [foldOp, h1], h3⟩
  | mod =>
    simp only [List.append_eq_nil_iff] at hrest
    have hc := ite_nil hrest.1
    have hk := ite_nil hrest.2
    simp only [Bool.and_eq_true] at hc
    have hr' : smallOperand n r = true := by simpa [Op.isShift] using hr
    refine ⟨fun h => by simp [Op.isCmp] at h, fun _ => ?_⟩
    obtain ⟨t, v, h1, _, h3⟩ :=
      C12_fold_div_mod_partial .mod (Or.inr rfl) signed n cnt.toNat l r hn0 hn64 hl hr' hk hc.1 hc.2
    exact ⟨t, v, by simp [foldOp, h1], h3⟩
  | shl =>
    have hr' : smallOperand 0 r = true := by simpa [Op.isShift] using hr
    obtain ⟨rt, rv, rfl, _, _, _, _⟩ := smallOperand_spec hr'
    refine ⟨fun h => by simp [Op.isCmp] at h, fun _ => ?_⟩
    obtain ⟨t, v, h1, _, h3⟩ := C12_fold_shl signed n l rt rv cnt hn0 hl (hcnt rfl)
    exact ⟨t, v, by simp [foldOp, h1], h3⟩
  | shr =>
    have hr' : smallOperand 0 r = true := by simpa [Op.isShift] using hr
    obtain ⟨rt, rv, rfl, _, _, _, _⟩ := smallOperand_spec hr'
    refine ⟨fun h => by simp [Op.isCmp] at h, fun _ => ?_⟩
    obtain ⟨t, v, h1, _, h3⟩ := C12_fold_shr_partial signed n l rt rv cnt hn0 hn64 hl (hcnt rfl) (ite_nil hrest)
    exact ⟨t, v, by simp [foldOp, h1], h3⟩
  | lt => exact cmpc .lt rfl rfl (by simpa [Op.isShift] using hr) (ite_nil hrest)
  | le => exact cmpc .le rfl rfl (by simpa [Op.isShift] using hr) (ite_nil hrest)
  | gt => exact cmpc .gt rfl rfl (by simpa [Op.isShift] using hr) (ite_nil hrest)
  | ge => exact cmpc .ge rfl rfl (by simpa [Op.isShift] using hr) (ite_nil hrest)
  | eq => exact cmpc .eq rfl rfl (by simpa [Op.isShift] using hr) (ite_nil hrest)
  | ne => exact cmpc .ne rfl rfl (by simpa [Op.isShift] using hr) (ite_nil hrest)
  | neg =>
    refine ⟨fun h => by simp [Op.isCmp] at h, fun _ => ?_⟩
    obtain ⟨t, v, h1, _, h3⟩ := C12_fold_neg signed n cnt.toNat l hn0 hl
    refine ⟨t, v, by simp [foldOp, h1], ?_⟩
    rw [h3]; simp [circuitOp]
  | lnot => simp at hrest
  | land => simp at hrest
  | lor => simp at hrest

/-! ## The summary theorem -/

/-- Typing invariants of the operand constants (true of every constant the compiler builds for a representable
value; no finding lives here): small path — `mpa` and type sizes in 1..64, types at least `n` bits; large path —
left type wider than 64 bits, types at least `n` bits. -/
def wellTyped (op : Op) (n : Nat) (l r : CV) : Bool :=
  if n ≤ 64 then smallOperand n l && (op == .neg || smallOperand (if op.isShift then 0 else n) r)
  else typesWide op n l r

theorem cmpAgrees_small {signed : Bool} {n : Nat} {l r : CV} (hl : smallOperand n l = true)
    (hr : smallOperand n r = true) (h : cmpAgrees signed n l r = true) :
    int64Agrees signed n l = true ∧ int64Agrees signed n r = true := by
  obtain ⟨lt, lv, rfl, _, hlv, _, _⟩ := smallOperand_spec hl
  obtain ⟨rt, rv, rfl, _, hrv, _, _⟩ := smallOperand_spec hr
  have hls : lv.isSmall = true := by simp [MInt.isSmall, hlv]
  have hrs : rv.isSmall = true := by simp [MInt.isSmall, hrv]
  simpa [cmpAgrees, mpaOf, hls, hrs] using h

/-- **C12_fold_eq_circuit** — the summary theorem: every integer operator of the property
(`+ - * / % & | ^ &^ << >> < <= > >= == !=`, unary `-`; the boolean ones are `C12_fold_bool_ops`), every
signedness, EVERY width `n ≥ 1` (no upper bound), all operand constants: folding succeeds and the low `n` wires of
the folded constant are the run-time instruction on the operands' low `n` wires (comparisons: the folded boolean
is the comparator's output).

The first five hypotheses are typing facts about constants (`hn0 h_op h_typed h_kind h_count`; no finding lives
there: they hold for every constant the compiler builds from a representable value).  The other four are
exactly the OPEN ROOT CAUSES of known_findings.json — each is false on the witness named next to it:

* `h_image`  (large path only) the operand's big image is the number its wires show —
  C12-typed-negative-constant-not-extended (`C12_operand_cast_witness`; on the small path this root cause only
  affects what the operand's wires ARE, not the operator);
* `h_divmod` operands held as exact non-negative numbers (small: `cleanNonneg`; large: `divWide`, which also asks
  them to be below half the divider size and the divisor not to be zero) —
  C12-div-mod-masked-operands (`C12_div_mod_masked_operands_witness`), C12-wide-div-mod (`C12_wide_witnesses`);
* `h_shr`    the shifted operand is held sign/zero-extended (small: `extended`; large: `extendedWide`) —
  C12-rsh-on-masked-operand, C12-refold-rsh (`C12_shr_witness`, `C12_refold_shr_witness`), C12-wide-rsh;
* `h_cmp`    `Cmp` sees the typed values (`cmpAgrees`: `Int64()` resp. `signed(bits-1)` of both operands) —
  C12-cmp-sign-from-mpa-size (`C12_cmp_sign_from_size_witness`), C12-wide-cmp (`C12_wide_witnesses`).

The remaining open findings are not about the low `n` wires of the result but about its TYPE, hence outside
this statement: C12-result-typed-by-size / C12-result-not-wrapped-rejected (`Generator.Constant` widens the result
type: `C12_result_type_widened_witness`, `C12_result_minbits_witness`) and
C12-rewidened-constant-sign-from-mpa-size (`C12_rewiden_witness`). -/
theorem C12_fold_eq_circuit (op : Op) (signed : Bool) (n : Nat) (l r : CV) (cnt : BitVec 64)
    (hn0 : 0 < n)
    (h_op : op ≠ .lnot ∧ op ≠ .land ∧ op ≠ .lor)
    (h_typed : wellTyped op n l r = true)
    (h_kind : op.isArith = true → sameKind l r = true)
    (h_count : op.isShift = true → (mpaOf r).int64 = some cnt)
    (h_image : 64 < n → (op.isWrap = true ∨ op = .shl ∨ op = .neg) →
      imageExact l = true ∧ (op.isWrap = true → imageExact r = true))
    (h_divmod : (op = .div ∨ op = .mod) →
      if n ≤ 64 then (cleanNonneg signed n l && cleanNonneg signed n r) = true else divWide signed n l r = true)
    (h_shr : op = .shr → if n ≤ 64 then extended signed n l = true else extendedWide signed n l = true)
    (h_cmp : op.isCmp = true → cmpAgrees signed n l r = true) :
    (op.isCmp = true → foldOp op l r = .ok (.bool (circuitCmp op signed (seenBV n l) (seenBV n r)))) ∧
    (op.isCmp = false → ∃ t v, foldOp op l r = .ok (.int t v) ∧
        seenBV n (.int t v) = circuitOp op signed (seenBV n l) (seenBV n r) cnt.toNat) := by
  apply C12_fold_eq_circuit_partial op signed n l r cnt hn0 _ h_count
  unfold hyps
  by_cases hw : n > 64
  · rw [if_pos hw]
    have hnle : ¬ n ≤ 64 := by omega
    simp only [wellTyped, hnle, if_false] at h_typed
    simp only [hnle, if_false] at h_divmod h_shr
    unfold hypsWide
    simp only [h_typed, if_true, List.nil_append]
    cases op <;> simp [Op.isWrap, Op.isArith, Op.isCmp] at h_op h_kind h_image h_divmod h_shr h_cmp ⊢ <;>
      simp_all
  · rw [if_neg hw]
    have hnle : n ≤ 64 := by omega
    simp only [wellTyped, hnle, if_true] at h_typed
    simp only [hnle, if_true] at h_divmod h_shr
    simp only [h_typed, if_true, List.nil_append]
    have hsplit := h_typed
    simp only [Bool.and_eq_true, Bool.or_eq_true, beq_iff_eq] at hsplit
    cases op <;> simp [Op.isArith, Op.isCmp, Op.isShift] at h_op h_kind h_divmod h_shr h_cmp hsplit ⊢ <;>
      first
      | exact cmpAgrees_small hsplit.1 hsplit.2 h_cmp
      | simp_all

/-- `+ - * & | ^ &^` for EVERY width (no `n ≤ 64`): corollary of the summary theorem; on the large path the only
hypothesis beyond typing is that both operands have exact images. -/
theorem C12_fold_wrap_every_width (op : Op) (hop : op.isWrap = true) (signed : Bool) (n : Nat) (l r : CV) (hn0 : 0 < n)
    (h_typed : wellTyped op n l r = true) (h_kind : sameKind l r = true)
    (h_image : 64 < n → imageExact l = true ∧ imageExact r = true) :
    ∃ t v, evalBin op l r = .ok (.int t v) ∧
      seenBV n (.int t v) = circuitOp op signed (seenBV n l) (seenBV n r) 0 := by
  have hne : op ≠ .neg := by intro h; subst h; simp [Op.isWrap] at hop
  have h := (C12_fold_eq_circuit op signed n l r 0#64 hn0
    (by cases op <;> simp [Op.isWrap] at hop ⊢) h_typed (fun _ => h_kind)
    (by cases op <;> simp [Op.isWrap, Op.isShift] at hop ⊢)
    (fun hw _ => ⟨(h_image hw).1, fun _ => (h_image hw).2⟩)
    (by cases op <;> simp [Op.isWrap] at hop ⊢) (by cases op <;> simp [Op.isWrap] at hop ⊢)
    (by cases op <;> simp [Op.isWrap, Op.isCmp] at hop ⊢)).2 (by cases op <;> simp [Op.isWrap, Op.isCmp] at hop ⊢)
  simpa [foldOp, hne] using h

theorem C12_fold_add_every_width (signed : Bool) (n : Nat) (l r : CV) (hn0 : 0 < n)
    (h_typed : wellTyped .add n l r = true) (h_kind : sameKind l r = true)
    (h_image : 64 < n → imageExact l = true ∧ imageExact r = true) :
    ∃ t v, evalBin .add l r = .ok (.int t v) ∧
      seenBV n (.int t v) = circuitOp .add signed (seenBV n l) (seenBV n r) 0 :=
  C12_fold_wrap_every_width .add rfl signed n l r hn0 h_typed h_kind h_image
theorem C12_fold_sub_every_width (signed : Bool) (n : Nat) (l r : CV) (hn0 : 0 < n)
    (h_typed : wellTyped .sub n l r = true) (h_kind : sameKind l r = true)
    (h_image : 64 < n → imageExact l = true ∧ imageExact r = true) :
    ∃ t v, evalBin .sub l r = .ok (.int t v) ∧
      seenBV n (.int t v) = circuitOp .sub signed (seenBV n l) (seenBV n r) 0 :=
  C12_fold_wrap_every_width .sub rfl signed n l r hn0 h_typed h_kind h_image
theorem C12_fold_mul_every_width (signed : Bool) (n : Nat) (l r : CV) (hn0 : 0 < n)
    (h_typed : wellTyped .mul n l r = true) (h_kind : sameKind l r = true)
    (h_image : 64 < n → imageExact l = true ∧ imageExact r = true) :
    ∃ t v, evalBin .mul l r = .ok (.int t v) ∧
      seenBV n (.int t v) = circuitOp .mul signed (seenBV n l) (seenBV n r) 0 :=
  C12_fold_wrap_every_width .mul rfl signed n l r hn0 h_typed h_kind h_image
theorem C12_fold_and_every_width (signed : Bool) (n : Nat) (l r : CV) (hn0 : 0 < n)
    (h_typed : wellTyped .band n l r = true) (h_kind : sameKind l r = true)
    (h_image : 64 < n → imageExact l = true ∧ imageExact r = true) :
    ∃ t v, evalBin .band l r = .ok (.int t v) ∧
      seenBV n (.int t v) = circuitOp .band signed (seenBV n l) (seenBV n r) 0 :=
  C12_fold_wrap_every_width .band rfl signed n l r hn0 h_typed h_kind h_image
theorem C12_fold_or_every_width (signed : Bool) (n : Nat) (l r : CV) (hn0 : 0 < n)
    (h_typed : wellTyped .bor n l r = true) (h_kind : sameKind l r = true)
    (h_image : 64 < n → imageExact l = true ∧ imageExact r = true) :
    ∃ t v, evalBin .bor l r = .ok (.int t v) ∧
      seenBV n (.int t v) = circuitOp .bor signed (seenBV n l) (seenBV n r) 0 :=
  C12_fold_wrap_every_width .bor rfl signed n l r hn0 h_typed h_kind h_image
theorem C12_fold_xor_every_width (signed : Bool) (n : Nat) (l r : CV) (hn0 : 0 < n)
    (h_typed : wellTyped .bxor n l r = true) (h_kind : sameKind l r = true)
    (h_image : 64 < n → imageExact l = true ∧ imageExact r = true) :
    ∃ t v, evalBin .bxor l r = .ok (.int t v) ∧
      seenBV n (.int t v) = circuitOp .bxor signed (seenBV n l) (seenBV n r) 0 :=
  C12_fold_wrap_every_width .bxor rfl signed n l r hn0 h_typed h_kind h_image
theorem C12_fold_andnot_every_width (signed : Bool) (n : Nat) (l r : CV) (hn0 : 0 < n)
    (h_typed : wellTyped .bclr n l r = true) (h_kind : sameKind l r = true)
    (h_image : 64 < n → imageExact l = true ∧ imageExact r = true) :
    ∃ t v, evalBin .bclr l r = .ok (.int t v) ∧
      seenBV n (.int t v) = circuitOp .bclr signed (seenBV n l) (seenBV n r) 0 :=
  C12_fold_wrap_every_width .bclr rfl signed n l r hn0 h_typed h_kind h_image

/-- `<<` for EVERY width. -/
theorem C12_fold_shl_every_width (signed : Bool) (n : Nat) (l r : CV) (cnt : BitVec 64) (hn0 : 0 < n)
    (h_typed : wellTyped .shl n l r = true) (h_count : (mpaOf r).int64 = some cnt)
    (h_image : 64 < n → imageExact l = true) :
    ∃ t v, evalBin .shl l r = .ok (.int t v) ∧
      seenBV n (.int t v) = circuitOp .shl signed (seenBV n l) (seenBV n r) cnt.toNat := by
  have h := (C12_fold_eq_circuit .shl signed n l r cnt hn0 (by simp) h_typed (by simp [Op.isArith])
    (fun _ => h_count) (fun hw _ => ⟨h_image hw, by simp [Op.isWrap]⟩) (by simp) (by simp) (by simp [Op.isCmp])).2
    (by simp [Op.isCmp])
  simpa [foldOp] using h

/-! ### Non-vacuity: every hypothesis of `C12_fold_eq_circuit` is satisfiable below and above 64 bits
(`caseHyps … = []` says that ALL hypotheses hold for the constants the model builds for that program text) -/

-- h_typed / h_kind / h_image (wrap operators, `<<`, unary minus)
example : caseHyps .add .uint 8 200 100 .pos .pos = [] ∧ caseHyps .add .uint 128 (2 ^ 128 - 1) 1 .pos .pos = [] := by
  decide +kernel
example : caseHyps .mul .int 33 (-5) 9 .neg .pos = [] ∧ caseHyps .mul .int 100 (-5) (2 ^ 70 + 1) .neg .pos = [] := by
  decide +kernel
example : caseHyps .bclr .int 64 (-5) 9 .neg .pos = [] ∧ caseHyps .bxor .int 65 (-(2 ^ 64)) (2 ^ 64 - 1) .neg .pos = [] := by
  decide +kernel
example : caseHyps .shl .uint 32 1 31 .pos .pos = [] ∧ caseHyps .shl .uint 130 (2 ^ 65 + 1) 64 .pos .pos = [] := by
  decide +kernel
example : caseHyps .neg .int 8 (-128) 0 .cast .pos = [] ∧ caseHyps .neg .int 127 (2 ^ 100) 0 .pos .pos = [] := by
  decide +kernel
-- h_divmod
example : caseHyps .div .int 32 43 4 .pos .pos = [] ∧ caseHyps .mod .uint 128 (2 ^ 62 + 5) 7 .pos .pos = [] := by
  decide +kernel
-- h_shr
example : caseHyps .shr .int 64 (-128) 3 .neg .pos = [] ∧ caseHyps .shr .uint 128 (2 ^ 127 + 1) 65 .pos .pos = [] := by
  decide +kernel
-- h_cmp
example : caseHyps .lt .int 8 (-2) 2 .cast .pos = [] ∧ caseHyps .ge .uint 100 (2 ^ 40) 7 .pos .pos = [] := by
  decide +kernel
-- the hypotheses themselves, on explicit constants (uint128(5) + uint128(7))
example :
    wellTyped .add 128 (.int ⟨.uint, 128, 3⟩ { bits := 32, i64 := 5#64 }) (.int ⟨.uint, 128, 3⟩ { bits := 32, i64 := 7#64 }) = true ∧
    imageExact (.int ⟨.uint, 128, 3⟩ { bits := 32, i64 := 5#64 }) = true := by
  decide +kernel

-- non-vacuity: the region is inhabited for every operator (cases the generator produces)
example : caseHyps .bxor .int 64 (-9223372036854775808) 9223372036854775807 .neg .pos = [] := by decide +kernel
example : caseHyps .ge .int 16 (-32768) 32767 .cast .pos = [] := by decide +kernel

/-! ## End to end on the program text (operands written `T(v)`, v ≥ 0) -/

theorem bind_ok' {α β : Type} (a : α) (f : α → Res β) : ((Except.ok a : Res α) >>= f) = f a := rfl

/-- End to end on the program text: `T(a) op T(b)` for op in `- * & | ^ &^`, every `intN/uintN`, `N ≤ 64`, and ALL
non-negative representable `a`, `b`: the expression folds, the constant is assignable to `T`, and its low `N`
wires are the run-time instruction on the encodings of `a` and `b`. -/
theorem C12_text_wrap_nonneg (op : Op) (hop : op.isWrap = true) (k : Kind) (hk : k ≠ .bool) (n a b : Nat)
    (hn0 : 0 < n) (hn : n ≤ 64) (ha : a < 2 ^ n) (hb : b < 2 ^ n) :
    ∃ t v, foldExpr op k n a b .pos .pos = .ok (.int t v) ∧ t.minBits ≤ n ∧
      seenBV n (.int t v) = circuitOp op (k == .int) (BitVec.ofNat n a) (BitVec.ofNat n b) 0 := by
  obtain ⟨lt, lv, el, hlk, hlb, _, hlv, _, hls⟩ := typedConst_pos k n a hn ha
  obtain ⟨rt, rv, er, hrk, hrb, _, hrv, _, hrs⟩ := typedConst_pos k n b hn hb
  obtain ⟨t, v, h1, _, _, h4, _, h6⟩ :=
    fold_wrap op hop (k == .int) n 0 lt rt lv rv (by rw [hlk, hrk]) (by omega) (by omega) (by omega) (by omega) hlv hrv
  refine ⟨t, v, ?_, by omega, by rw [h6, hls, hrs]⟩
  have hkb : (k == Kind.bool) = false := by cases k <;> simp_all
  have hneg : (op == Op.neg) = false := by cases op <;> simp_all [Op.isWrap]
  have hsh : op.isShift = false := by cases op <;> simp_all [Op.isWrap, Op.isShift]
  unfold foldExpr
  rw [hkb, hneg, hsh]
  simp only [Bool.false_eq_true, if_false]
  rw [el, bind_ok', er, bind_ok']
  exact h1

example : (2 : Nat) < 2 ^ 8 ∧ (0 : Nat) < 8 ∧ 8 ≤ 64 := by decide

theorem msb_ofNat_false (n a : Nat) (_hn0 : 0 < n) (ha : a < 2 ^ (n - 1)) : (BitVec.ofNat n a).msb = false := by
  rw [BitVec.msb_eq_decide]
  simp only [BitVec.toNat_ofNat, decide_eq_false_iff_not, Nat.not_le]
  exact Nat.lt_of_le_of_lt (Nat.mod_le _ _) ha

/-- End to end on the program text: `T(a) / T(b)`, `T(a) % T(b)` for non-negative representable operands below
2^63 (for `intN`: below 2^(N-1), i.e. representable), zero divisor included. -/
theorem C12_text_div_mod_nonneg (op : Op) (hop : op = .div ∨ op = .mod) (k : Kind) (hk : k ≠ .bool) (n a b : Nat)
    (hn0 : 0 < n) (hn : n ≤ 64) (ha : a < 2 ^ n) (hb : b < 2 ^ n) (ha63 : a < 2 ^ 63) (hb63 : b < 2 ^ 63)
    (hsa : k = .int → a < 2 ^ (n - 1)) (hsb : k = .int → b < 2 ^ (n - 1)) :
    ∃ t v, foldExpr op k n a b .pos .pos = .ok (.int t v) ∧
      seenBV n (.int t v) = circuitOp op (k == .int) (BitVec.ofNat n a) (BitVec.ofNat n b) 0 := by
  obtain ⟨lt, lv, el, hlk, hlb, hlv0, hlv, hlsm, hls⟩ := typedConst_pos k n a hn ha
  obtain ⟨rt, rv, er, hrk, hrb, hrv0, hrv, hrsm, hrs⟩ := typedConst_pos k n b hn hb
  have hl : smallOperand n (.int lt lv) = true := by simp [smallOperand]; omega
  have hr : smallOperand n (.int rt rv) = true := by simp [smallOperand]; omega
  have hkk : sameKind (.int lt lv) (.int rt rv) = true := by simp [sameKind, hlk, hrk]
  have clean : ∀ (t : TInfo) (v : MInt) (c : Nat), c < 2 ^ n → c < 2 ^ 63 → (k = .int → c < 2 ^ (n - 1)) →
      v.small.toNat = c → seenBV n (.int t v) = BitVec.ofNat n c → cleanNonneg (k == .int) n (.int t v) = true := by
    intro t v c hc hc63 hcs hsm hseen
    simp only [cleanNonneg, Bool.and_eq_true, beq_iff_eq, Bool.not_eq_true', Bool.or_eq_true]
    refine ⟨⟨?_, ?_⟩, ?_⟩
    · rw [hseen]
      apply BitVec.eq_of_toNat_eq
      rw [hsm, BitVec.toNat_setWidth, BitVec.toNat_ofNat, Nat.mod_eq_of_lt hc]
      exact (Nat.mod_eq_of_lt (Nat.lt_of_lt_of_le hc (Nat.pow_le_pow_right (by omega) hn))).symm
    · rw [BitVec.msb_eq_decide]
      simp only [decide_eq_false_iff_not, Nat.not_le]
      rw [hsm]; exact hc63
    · by_cases hki : k = .int
      · right; rw [hseen]; exact msb_ofNat_false n c hn0 (hcs hki)
      · left; cases k <;> simp_all
  obtain ⟨t, v, h1, _, h3⟩ := C12_fold_div_mod_partial op hop (k == .int) n 0 _ _ hn0 hn hl hr hkk
    (clean lt lv a ha ha63 hsa hlsm hls) (clean rt rv b hb hb63 hsb hrsm hrs)
  refine ⟨t, v, ?_, by rw [h3, hls, hrs]⟩
  have hkb : (k == Kind.bool) = false := by cases k <;> simp_all
  have hneg : (op == Op.neg) = false := by cases hop <;> subst op <;> rfl
  have hsh : op.isShift = false := by cases hop <;> subst op <;> rfl
  unfold foldExpr
  rw [hkb, hneg, hsh]
  simp only [Bool.false_eq_true, if_false]
  rw [el, bind_ok', er, bind_ok']
  exact h1

/-! ## Operands, result type, crashes: witnesses outside the operator theorems -/

/-- A typed negative constant written `T(-v)` is the 32/64-bit folded untyped `-v` with only its type
changed: `int64(-43)` is seen by every consumer as 4294967253 (so is every operator applied to it), while
`-int64(43)` is held correctly. -/
theorem C12_operand_cast_witness :
    (typedConst .int 64 (-43) .cast >>= retSeen .int 64) = .ok 4294967253 ∧
    (typedConst .int 64 (-43) .neg >>= retSeen .int 64) = .ok 18446744073709551573 ∧
    caseHyps .sub .int 64 (-43) 0 .cast .pos = ["operand-value"] := by
  decide +kernel

/-- The folded result carries `Generator.Constant`'s 32/64-bit type, not the declared one:
`int8(100)+int8(100)` is the `int32` constant 200.  `return` truncates it to -56 like the run-time adder, a
width-sensitive consumer (`/ x`, `< x`, `>> 1`) sees +200. -/
theorem C12_result_type_widened_witness :
    foldExpr .add .int 8 100 100 .pos .pos =
      .ok (.int ⟨.int, 32, 8⟩ { bits := 32, i64 := 200#64, big := none }) ∧
    circuitOpNat .add .int 8 100 100 = 200 ∧ (BitVec.ofNat 8 200).toInt = -56 := by
  decide +kernel

/-- … and a result computed with a LEFT operand of the form `-T(v)` (itself a folded result, hence typed 32
bits) is masked at 32 bits, not at the declared width: `(-int3(1)) + int3(1)` is the `int32` constant 8 with
`MinBits = 4 > 3`, rejected when returned as `int3` ("invalid value int32 for return value int3"); the run-time
adder gives 0.  (`uint7(1)+uint7(127)`, rejected before de91761, now folds to 0.) -/
theorem C12_result_minbits_witness :
    (foldExpr .add .int 3 (-1) 1 .neg .pos >>= retSeen .int 3) = .error .compileError ∧
    circuitOpNat .add .int 3 (-1) 1 = 0 ∧ caseHyps .add .int 3 (-1) 1 .neg .pos = [] ∧
    (foldExpr .add .uint 7 1 127 .pos .pos >>= retSeen .uint 7) = .ok 0 := by
  decide +kernel

/-- Re-folding: the folded `int32` result -1 is held as 0xFFFFFFFF (masked, not sign-extended), so
`(int32(2147483646) - int32(2147483647)) >> 1` folds to 0x7FFFFFFF instead of -1. -/
theorem C12_refold_shr_witness :
    (do let c ← foldExpr .sub .int 32 2147483646 2147483647 .pos .pos
        let one ← literal 1
        evalBin .shr c one >>= retSeen .int 32) = .ok 2147483647 := by
  decide +kernel

theorem int64_some (v : MInt) (h0 : 0 < v.bits) : ∃ a, v.int64 = some a := by
  unfold MInt.int64
  split
  · rw [if_neg (by omega)]
    simp only []
    split <;> exact ⟨_, rfl⟩
  · exact ⟨_, rfl⟩

theorem cmp_some (x y : MInt) (hx : 0 < x.bits) (hy : 0 < y.bits) : ∃ c, Mpa.cmp x y = some c := by
  obtain ⟨a, ha⟩ := int64_some x hx
  obtain ⟨b, hb⟩ := int64_some y hy
  unfold Mpa.cmp
  split
  · exact ⟨cmpInt a.toInt b.toInt, by simp [ha, hb]⟩
  · exact ⟨_, rfl⟩

theorem setSmall_some (B : Nat) (x : BitVec 64) (h : B ≤ 64) : ∃ m, setSmall B x = some m := ⟨_, setSmall_eq B x h⟩

/-- every `mpa` method returns (no panic) on a receiver made by `New(bits)`, `bits > 0` -/
theorem mpa_ops_some (op : Op) (hop : op.isArith = true) (z x y : MInt) :
    ∃ m, (match op with
        | .add => Mpa.add z x y | .sub => Mpa.sub z x y | .mul => Mpa.mul z x y | .div => Mpa.div z x y
        | .mod => Mpa.mod z x y | .band => Mpa.and z x y | .bor => Mpa.or z x y | .bxor => Mpa.xor z x y
        | _ => Mpa.andNot z x y) = some m := by
  by_cases hs : z.isSmall = true
  · have h64 : z.bits ≤ 64 := by simpa [MInt.isSmall] using hs
    cases op <;> simp [Op.isArith] at hop <;>
      simp only [Mpa.add, Mpa.sub, Mpa.mul, Mpa.div, Mpa.mod, Mpa.and, Mpa.or, Mpa.xor, Mpa.andNot, Mpa.bitwise, hs,
        if_true] <;> (try split) <;> exact setSmall_some _ _ h64
  · cases op <;> simp [Op.isArith] at hop <;>
      simp only [Mpa.add, Mpa.sub, Mpa.mul, Mpa.div, Mpa.mod, Mpa.and, Mpa.or, Mpa.xor, Mpa.andNot, Mpa.bitwise, hs,
        Bool.false_eq_true, if_false, largeAdd, largeSub, largeMul] <;> exact ⟨_, rfl⟩

theorem lsh_rsh_some (z x : MInt) (n : Nat) (a : Bool) : (∃ m, Mpa.lsh z x n = some m) ∧ (∃ m, Mpa.rsh z x n a = some m) := by
  by_cases hs : z.isSmall = true
  · have h64 : z.bits ≤ 64 := by simpa [MInt.isSmall] using hs
    simp only [Mpa.lsh, Mpa.rsh, hs, if_true]
    exact ⟨setSmall_some _ _ h64, setSmall_some _ _ h64⟩
  · simp only [Mpa.lsh, Mpa.rsh, hs, Bool.false_eq_true, if_false]
    refine ⟨?_, ⟨_, rfl⟩⟩
    split <;> exact ⟨_, rfl⟩

/-- Type and `mpa` sizes of an integer constant are positive (true of every constant the compiler builds:
`New(0)` panics, `Generator.Constant` sizes at least 32). -/
def sizesPositive : CV → Prop
  | .int t v => 0 < t.bits ∧ 0 < v.bits
  | .bool _ => True

/-- "Folding never crashes the compiler", for EVERY width (since repo d31d09e also above 64 bits): no operator
on any two constants with positive sizes reaches a panic branch of the model (`New(0)`, `setSmall bits > 64`,
`Int64` with size 0, `Constant MinBits > Bits`; the large-path circuits no longer provoke `Compile`'s
"Output already assigned").  Errors that remain possible are compile errors (kind mismatch, operator not
defined). -/
theorem C12_no_crash (op : Op) (l r : CV) (hl : sizesPositive l) (hr : sizesPositive r) :
    foldOp op l r ≠ .error .panic := by
  unfold foldOp
  by_cases hneg : op = .neg
  · rw [if_pos hneg]
    cases l with
    | bool b => simp [negate]
    | int t v =>
      obtain ⟨m, hm⟩ := mpa_ops_some .sub rfl (newInt 0#64 t.bits) (newInt 0#64 t.bits) v
      simp only [] at hm
      simp [negate, hm, liftP, bind, Except.bind, constantMpa_ok]
  · rw [if_neg hneg]
    cases l with
    | bool a =>
      cases r with
      | bool b => cases op <;> simp [evalBin]
      | int t v => simp [evalBin]
    | int lt lv =>
      cases r with
      | bool b => simp [evalBin]
      | int rt rv =>
        obtain ⟨hl0, hlv⟩ := hl
        obtain ⟨_, hrv⟩ := hr
        have hne : lt.bits ≠ 0 := by omega
        unfold evalBin
        simp only []
        by_cases hc : op.isCmp = true
        · obtain ⟨c, hcm⟩ := cmp_some lv rv hlv hrv
          simp [hc, hcm, liftP, bind, Except.bind]
        · by_cases hsft : op.isShift = true
          · obtain ⟨cnt, hcnt⟩ := int64_some rv hrv
            obtain ⟨⟨m1, h1⟩, ⟨m2, h2⟩⟩ := lsh_rsh_some { bits := lt.bits } lv cnt.toNat false
            cases op <;> simp [Op.isShift] at hsft <;>
              simp [Op.isCmp, Op.isShift, Mpa.new, hne, hcnt, liftP, bind, Except.bind, h1, h2, constantMpa_ok]
          · by_cases ha : op.isArith = true
            · by_cases hk : lt.kind = rt.kind
              · obtain ⟨m, hm⟩ := mpa_ops_some op ha { bits := lt.bits } lv rv
                cases op <;> simp [Op.isArith] at ha <;> simp only [] at hm <;>
                  simp [Op.isCmp, Op.isShift, Op.isArith, hk, Mpa.new, hne, liftP, bind, Except.bind, hm, constantMpa_ok]
              · simp [hc, hsft, ha, hk]
            · simp [hc, hsft, ha]

-- non-vacuity: every constant the generator writes has positive sizes, e.g. uint128(5) and int8(-43)
example : typedConst .uint 128 5 .pos = .ok (.int ⟨.uint, 128, 3⟩ { bits := 32, i64 := 5#64 }) ∧
    sizesPositive (.int ⟨.uint, 128, 3⟩ { bits := 32, i64 := 5#64 }) := by
  refine ⟨by decide +kernel, ?_⟩; simp [sizesPositive]

/-- The large-path adder / subtractor as it was before repo d31d09e: operands at their own widths; result
wires above `max(x.bits, y.bits) + 1` were replaced by the zero wire although they are declared outputs, and
`circuits.Compiler.Compile` panicked "Output already assigned". -/
def largeAddOld (xb yb zb : Nat) (x y : Int) : Option MInt :=
  let nz := max (max xb yb) zb
  let m := max xb yb
  if nz > m + 1 then none
  else some { bits := nz, i64 := 0#64, big := some (((wires x xb + wires y yb) % 2 ^ nz : Nat) : Int) }

/-- Witness about the OLD definition: `uint128(5) + uint128(7)` (operands sized 32 bits, result 128 bits)
crashed the compiler; with the current definition it folds to 12 like the run-time adder, and so does `-`. -/
theorem C12_crash_wide_old_witness :
    largeAddOld 32 32 128 5 7 = none ∧
    (foldExpr .add .uint 128 5 7 .pos .pos >>= retSeen .uint 128) = .ok 12 ∧
    (foldExpr .sub .uint 128 5 7 .pos .pos >>= retSeen .uint 128) = .ok (2 ^ 128 - 2) ∧
    circuitOpNat .add .uint 128 5 7 = 12 ∧ circuitOpNat .sub .uint 128 5 7 = 2 ^ 128 - 2 := by
  decide +kernel

/-- Large path, further witnesses: the divider is SIGNED and as wide as the operands' own sizes
(`uint128(0x1ffffffffffffffff) / uint128(3)` = 0: the 65-bit dividend is read as -1; `uint128(5)/uint128(0)`
is 32 ones, not 128); `Cmp` takes the sign from the operand size (`uint100(63) <= uint100(2^81)` is false);
`Rsh` is logical (`int65(-2^64) >> 1`). -/
theorem C12_wide_witnesses :
    (foldExpr .div .uint 128 0x1ffffffffffffffff 3 .pos .pos >>= retSeen .uint 128) = .ok 0 ∧
    circuitOpNat .div .uint 128 0x1ffffffffffffffff 3 = 0xaaaaaaaaaaaaaaaa ∧
    (foldExpr .div .uint 128 5 0 .pos .pos >>= retSeen .uint 128) = .ok 4294967295 ∧
    circuitOpNat .div .uint 128 5 0 = 2 ^ 128 - 1 ∧
    (foldExpr .le .uint 100 63 (2 ^ 81) .pos .pos >>= retSeen .bool 1) = .ok 0 ∧
    circuitOpNat .le .uint 100 63 (2 ^ 81) = 1 ∧
    (foldExpr .shr .int 65 (-(2 ^ 64)) 1 .neg .pos >>= retSeen .int 65) = .ok (2 ^ 63) ∧
    circuitOpNat .shr .int 65 (-(2 ^ 64)) 1 = 2 ^ 64 + 2 ^ 63 := by
  decide +kernel

/-! ## Constants shared by name -/

/-- Re-widening of a constant used at a second width (`Program.Circuit` after repo commit 3c18dfa, model
`rewiden`, tied by the `alias` correspondence lines).  The earlier defect is gone: after `uint8(200)`, the
constant `int32(200)` is 200 (it was sign-extended from the 8 wires of the first instance to -56).  What
remains: the sign is taken from the constant's own `mpa` size, so a NON-NEGATIVE value whose bit 31 (or 63)
is set is read as negative when re-widened as a `TInt`: after `uint32(4294967295)`, `int33(4294967295)` is
0x1ffffffff = -1.  (`int33(-1)` is the same `ssa.Value` — finding C12-typed-negative-constant-not-extended —
so no re-widening rule can be right for both.) -/
theorem C12_rewiden_witness :
    aliasOutputs .uint 8 .int 32 200 200 = .ok (200, 200) ∧
    aliasOutputs .int 7 .uint 32 (-4) 4294967292 = .ok (124, 4294967292) ∧
    aliasOutputs .uint 32 .int 33 4294967295 4294967295 = .ok (4294967295, 8589934591) := by
  decide +kernel

/-! ## Several constants in one program: "the folded result as seen by the rest of the program"

A constant has no storage of its own; its identity is its Name (`Generator.Constant`), the key of
`gen.constants`, of `Value.Equal` and of the wire allocator (Model/FoldTable.lean).  The operator theorems
above say what ONE folded expression is worth; the theorems below say when that value survives the company
of the other constants of a program — for every program (list of registrations) and every constant in it. -/

/-- **The constant table is exact iff the naming is injective.**  For any kind of constant `α` with a
registered width `bits` and wires `wires`, and any naming `nm`: in EVERY program every registered constant
that is used at its registered width is given its own wires, if and only if two constants of one width and
one name always have the same wires.  (The "only if" direction is the two-constant program `[d, c]`: `c`
gets `d`'s wires — the role of `C08_defineConstants_needs_distinct_names` for determinism, here for the
value; fixed finding C12-constant-wires-shared-by-value-name was the same defect across widths.) -/
theorem C12_const_table_exact_iff {α : Type} (nm : α → String) (bits wires : α → Nat) :
    (∀ (regs : List α) (c : α), c ∈ regs →
        seenWires nm bits wires (table nm regs) c (bits c) (wires c) = wires c)
    ↔ (∀ c d : α, nm c = nm d → bits c = bits d → wires c = wires d) :=
  const_table_exact_iff nm bits wires

-- non-vacuity: constants = (width, value) named in decimal; the right-hand side holds, so a concrete
-- three-constant program (the second and third share a width) materialises each with its own value
example : seenWires (fun c : Nat × Nat => decName c.2) (·.1) (·.2)
    (table (fun c : Nat × Nat => decName c.2) [(100, 2 ^ 64), (100, 10 ^ 16), (8, 5)]) (100, 10 ^ 16) 100 (10 ^ 16) = 10 ^ 16 :=
  (C12_const_table_exact_iff (fun c : Nat × Nat => decName c.2) (·.1) (·.2)).mpr
    (fun _ _ hn _ => decName_injective hn) _ _ (by simp)

/-- The naming of the code as it is — the decimal text of the value, for every value — is injective: on
non-negative values (`decName`) and on the integer constants of the model (`cvName`, any sign). -/
theorem C12_decimal_naming_injective :
    (∀ a b : Nat, decName a = decName b → a = b) ∧
    (∀ (t t' : TInfo) (v v' : MInt), cvName (.int t v) = cvName (.int t' v') → v.value = v'.value) :=
  ⟨fun _ _ h => decName_injective h, fun _ _ _ _ h => cvName_int_injective h⟩

example : decName 18446744073709551616 ≠ decName 10000000000000000 :=
  fun h => absurd (C12_decimal_naming_injective.1 _ _ h) (by decide)

/-- A naming that spells SOME values in another base is not injective: decimal below 2^64 and hexadecimal
from there on gives 2^64 = 0x10000000000000000 and 10^16 one name — so by `C12_const_table_exact_iff` some
program sees the one as the other. -/
theorem C12_mixed_naming_not_injective :
    ∃ a b : Nat, mixedName a = mixedName b ∧ a ≠ b ∧
      ¬ (∀ (regs : List (Nat × Nat)) (c : Nat × Nat), c ∈ regs →
          seenWires (fun c : Nat × Nat => mixedName c.2) (·.1) (·.2)
            (table (fun c : Nat × Nat => mixedName c.2) regs) c c.1 c.2 = c.2) := by
  refine ⟨2 ^ 64, 10 ^ 16, mixedName_collision.1, mixedName_collision.2, fun h => ?_⟩
  have := (C12_const_table_exact_iff (fun c : Nat × Nat => mixedName c.2) (·.1) (·.2)).mp h
    (100, 2 ^ 64) (100, 10 ^ 16) mixedName_collision.1 rfl
  exact absurd this (by decide)

/-- An integer constant whose wires are the two's complement image of its printed value at its type's
width (every constant that is right on its own). -/
def faithfulConst : CV → Bool
  | .int t v => constWires t v == wires v.value t.bits
  | .bool _ => false

/-- **The compiler's table, decimal names.**  In every program whose integer constants are each right on
their own (`faithfulConst`), a constant whose name is registered at one width only is read by its consumer
with exactly its own wires — whatever other constants, folded or written, the program holds.  (A name
registered at two widths goes through `rewiden`: `C12_rewiden_witness`.) -/
theorem C12_constants_see_own_bits (regs : List CV) (hf : ∀ c ∈ regs, faithfulConst c = true)
    (c : CV) (hc : c ∈ regs) (hw : ∀ d ∈ regs, cvName d = cvName c → cvBits d = cvBits c) (k : Kind) :
    cvSeen cvName (table cvName regs) k (cvBits c) c = cvWires c % 2 ^ cvBits c := by
  obtain ⟨e, hl, hn, he⟩ := lookup_table cvName regs c hc
  have hbits := hw e he hn
  have hfe := hf e he
  have hfc := hf c hc
  unfold cvSeen seenWires
  rw [hl]
  simp only [if_pos hbits]
  cases c with
  | bool b => simp [faithfulConst] at hfc
  | int t v =>
    cases e with
    | bool b => simp [faithfulConst] at hfe
    | int t' v' =>
      simp only [faithfulConst, beq_iff_eq] at hfe hfc
      simp only [cvBits] at hbits
      have hv := cvName_int_injective hn
      simp only [cvWires, cvBits]
      rw [hfe, hfc, hv, hbits]

-- non-vacuity: the program of the demonstration (folded 2^64 and written 10^16 at uint100, next to a uint8)
example :
    let c1 : CV := .int ⟨.uint, 100, 65⟩ ⟨65, 0#64, some (2 ^ 64)⟩
    let c2 : CV := .int ⟨.uint, 100, 54⟩ ⟨64, BitVec.ofNat 64 (10 ^ 16), none⟩
    let c3 : CV := .int ⟨.uint, 8, 3⟩ ⟨32, 5#64, none⟩
    cvSeen cvName (table cvName [c1, c2, c3]) .uint 100 c2 = 10 ^ 16 := by
  intro c1 c2 c3
  have := C12_constants_see_own_bits [c1, c2, c3] (by decide) c2 (by simp) (by decide) .uint
  simpa [c2, cvBits, cvWires] using this.trans (by decide)

/-- **Company does not matter.**  For EVERY `multi` program (any number of items, any operators, widths, values,
both program shapes) whose registered constants are each right on their own: an item whose constant's name is
registered at the item's width only returns, at `x = 0`, exactly what its own wires give — independently of
all other folded or written constants of the program.  (`multiOutputs` maps `Item.output` over the items; the
`multi` correspondence lines tie it to the real compiler.) -/
theorem C12_multi_item_unaffected_by_company (vars : Bool) (items : List Item) (regs : List CV)
    (hr : registrations vars items = .ok regs) (hf : ∀ c ∈ regs, faithfulConst c = true)
    (it : Item) (hit : it ∈ items) (s : CV) (hs : it.result = .ok s)
    (hw : ∀ d ∈ regs, cvName d = cvName s → cvBits d = it.n) :
    it.output cvName (table cvName regs) = .ok (consumeAt0 it.cons it.n (cvWires s % 2 ^ it.n)) := by
  have hmem := result_mem_registrations vars items regs hr it s hit hs
  have hn : cvBits s = it.n := hw s hmem rfl
  have hw' : ∀ d ∈ regs, cvName d = cvName s → cvBits d = cvBits s := fun d hd h => (hw d hd h).trans hn.symm
  have := C12_constants_see_own_bits regs hf s hmem hw' it.k
  rw [hn] at this
  unfold Item.output
  rw [hs]
  simp only [bind, Except.bind, pure, Except.pure, this]

-- non-vacuity: the demonstration program satisfies every hypothesis (for its second item)
example : ∃ (items : List Item) (regs : List CV) (it : Item) (s : CV),
    registrations true items = .ok regs ∧ (∀ c ∈ regs, faithfulConst c = true) ∧ it ∈ items ∧ it.result = .ok s ∧
    (∀ d ∈ regs, cvName d = cvName s → cvBits d = it.n) ∧
    it.output cvName (table cvName regs) = .ok (10 ^ 16) := by
  let c0 : CV := .int ⟨.uint, 100, 64⟩ ⟨64, 0#64, some (2 ^ 63)⟩
  let c1 : CV := .int ⟨.uint, 100, 65⟩ ⟨65, 0#64, some (2 ^ 64)⟩
  let c2 : CV := .int ⟨.uint, 100, 54⟩ ⟨64, BitVec.ofNat 64 (10 ^ 16), none⟩
  let it : Item := ⟨none, .uint, 100, 10 ^ 16, 0, .pos, .pos, .add⟩
  refine ⟨[⟨some .add, .uint, 100, 2 ^ 63, 2 ^ 63, .pos, .pos, .xor⟩, it], [c0, c0, c1, c2], it, c2,
    by decide +kernel, by decide +kernel, by simp, by decide +kernel, by decide +kernel, by decide +kernel⟩

/-- Program-level witness on the model of the compiler (`multiOutputs`, tied to the real compiler by the
`multi` correspondence lines): `r0 := (uint100(2^63) + uint100(2^63)) ^ x0; r1 := uint100(10^16) + x1`.
With the decimal naming both outputs are what the run-time circuit computes; had `Generator.Constant` named
wide values in hexadecimal (`cvNameMixed`), the written constant 10^16 would be read as the folded sum 2^64. -/
theorem C12_mixed_naming_witness :
    let prog : List Item :=
      [⟨some .add, .uint, 100, 2 ^ 63, 2 ^ 63, .pos, .pos, .xor⟩, ⟨none, .uint, 100, 10 ^ 16, 0, .pos, .pos, .add⟩]
    multiOutputs cvName false prog = .ok (prog.map Item.runtime) ∧
    multiOutputs cvName true prog = .ok (prog.map Item.runtime) ∧
    prog.map Item.runtime = [2 ^ 64, 10 ^ 16] ∧
    multiOutputs cvNameMixed false prog = .ok [2 ^ 64, 2 ^ 64] ∧
    multiCause cvNameMixed false prog 1 = .ok "shares-wires-of-another-constant" := by
  decide +kernel

/-- The remaining way company changes a constant (finding C12-rewidened-constant-sign-from-mpa-size, here
for values wider than 64 bits, whose own size is their bit length): after `uint100(2^65)`, `int101(2^65)` is
re-built from its own 66-bit value and sign-extended from bit 65. -/
theorem C12_multi_rewiden_witness :
    let prog : List Item :=
      [⟨none, .uint, 100, 2 ^ 65, 0, .pos, .pos, .xor⟩, ⟨none, .int, 101, 2 ^ 65, 0, .pos, .pos, .add⟩]
    multiOutputs cvName false prog = .ok [2 ^ 65, 2 ^ 101 - 2 ^ 65] ∧
    prog.map Item.runtime = [2 ^ 65, 2 ^ 65] ∧
    multiCause cvName false prog 1 = .ok "rewidened-sign-from-own-size" := by
  decide +kernel

/-! ## Folding leaves its operands alone: "the folded result as seen by THE REST OF THE PROGRAM" -/

/-- **One call writes its receiver only.**  For every method of `mpa.Int`, both paths, every receiver (a fresh
`mpa.New(bits)` or an existing object — also the object of `x`, of `y`, of both) and every operand choice
(also `x` and `y` one object): an object that is not the receiver holds after the call what it held before,
operand or not.  (`MpaHist.step` is the model the `mpah` correspondence lines tie to the real `mpa` package:
the harness observes every object after every real call.) -/
theorem C12_mpa_call_writes_receiver_only (regs regs' : List MInt) (s : MpaHist.Step)
    (h : MpaHist.step regs s = some regs') (j : Nat) (hj : j < regs.length) (hw : s.writes j = false) :
    regs'[j]? = regs[j]? :=
  MpaHist.step_frame h j hj hw

-- non-vacuity: `New(100).AndNot(x, y)` on two 100-bit operands; both operands are registers 0 and 1
example :
    let x : MInt := ⟨100, 0#64, some 0x70f0f0f0f0f0f0f0f0f0f0f0f⟩
    let y : MInt := ⟨100, 0#64, some 0x0ff00ff00ff00ff00ff00ff00⟩
    let s : MpaHist.Step := ⟨.andNot, 0, .fresh 100, 0, 1⟩
    MpaHist.step [x, y] s = some [x, y, ⟨100, 0#64, some 0x7000f000f000f000f000f000f⟩] ∧
    s.writes 0 = false ∧ s.writes 1 = false := by
  decide +kernel

/-- **Histories.**  Over any history of calls sharing their operands, an object that is never a receiver
holds at the end what it held at the start — however many calls used it as `x`, as `y` or as both. -/
theorem C12_mpa_history_operands_unchanged (regs regs' : List MInt) (ss : List MpaHist.Step)
    (h : MpaHist.run regs ss = some regs') (j : Nat) (hj : j < regs.length)
    (hw : ∀ s ∈ ss, s.writes j = false) : regs'[j]? = regs[j]? :=
  MpaHist.run_frame h j hj hw

-- non-vacuity: x &^ y, then x + y, then the first result shifted in place: x and y are never written
example :
    let x : MInt := ⟨100, 0#64, some 0x70f0f0f0f0f0f0f0f0f0f0f0f⟩
    let y : MInt := ⟨100, 0#64, some 0x0ff00ff00ff00ff00ff00ff00⟩
    let ss : List MpaHist.Step := [⟨.andNot, 0, .fresh 100, 0, 1⟩, ⟨.add, 0, .fresh 100, 0, 1⟩, ⟨.lsh, 4, .reg 2, 2, 2⟩]
    (∃ regs', MpaHist.run [x, y] ss = some regs' ∧ regs'.length = 4 ∧ regs'[0]? = some x ∧ regs'[1]? = some y) ∧
    (∀ s ∈ ss, s.writes 0 = false) ∧ (∀ s ∈ ss, s.writes 1 = false) := by
  decide +kernel

/-- **A constant's value is independent of the folds that use it.**  For every naming, all declarations and
EVERY sequence of folds (any operators, any choice of operand variables — declarations or earlier results, on
either side, also `v op v`): under pure folding (`pureFold`, the contract `C12_mpa_call_writes_receiver_only`
lifted to `Binary.evalConst` / `Unary.Eval`)

  * the bindings at the end are the declarations followed by the fold results, and each result is `Use.eval`
    on the declarations and the EARLIER RESULTS only (`foldResults`) — not on what earlier folds did;
  * every declared variable is bound at the end to the constant it was declared with, so the wires
    `DefineConstants` makes for it (`cvWires`) are a function of its declaration only;
  * two programs with the same declarations and different folds agree on every declared constant.

(`usesOutputs cvName pureFold` is the model the `uses` correspondence lines tie to the real compiler.) -/
theorem C12_constant_value_independent_of_uses (nm : CV → String) (env : List Bound) (us : List Use) :
    runUses nm pureFold env us = (foldResults nm env us).map (env ++ ·) ∧
    (∀ final, runUses nm pureFold env us = .ok final →
      ∀ i, i < env.length → final[i]? = env[i]? ∧
        (final[i]?).map (fun b => cvWires b.2) = (env[i]?).map (fun b => cvWires b.2)) ∧
    (∀ us' f f', runUses nm pureFold env us = .ok f → runUses nm pureFold env us' = .ok f' →
      ∀ i, i < env.length → f[i]? = f'[i]?) := by
  refine ⟨runUses_pure nm us env, ?_, ?_⟩
  · intro final h i hi
    have := runUses_pure_decls nm us env final h i hi
    exact ⟨this, by rw [this]⟩
  · intro us' f f' h h' i hi
    rw [runUses_pure_decls nm us env f h i hi, runUses_pure_decls nm us' env f' h' i hi]

/-- The program of the demonstration: `v0 := uint100(x); v1 := uint100(y); v2 := v0 &^ v1; v3 := v0 + v1`,
every variable used with a run-time input. -/
def usesDemo : UsesProg :=
  ⟨.uint, 100, [(0x70f0f0f0f0f0f0f0f0f0f0f0f, .pos), (0x0ff00ff00ff00ff00ff00ff00, .pos)],
   [⟨.bclr, 0, 1⟩, ⟨.add, 0, 1⟩], [.xor, .add, .xor, .add]⟩

-- non-vacuity: the demonstration program runs, and its outputs are those of the run-time circuit
example :
    usesOutputs cvName pureFold usesDemo =
      .ok [0x70f0f0f0f0f0f0f0f0f0f0f0f, 0x0ff00ff00ff00ff00ff00ff00, 0x7000f000f000f000f000f000f,
           0x80e100e100e100e100e100e0f] ∧
    usesDemo.runtimeDecl 0 = some 0x70f0f0f0f0f0f0f0f0f0f0f0f ∧
    circuitOpNat .bclr .uint 100 0x70f0f0f0f0f0f0f0f0f0f0f0f 0x0ff00ff00ff00ff00ff00ff00 = 0x7000f000f000f000f000f000f ∧
    circuitOpNat .add .uint 100 0x70f0f0f0f0f0f0f0f0f0f0f0f 0x0ff00ff00ff00ff00ff00ff00 = 0x80e100e100e100e100e100e0f := by
  decide +kernel

/-- **Witness: a fold that computes into its left operand.**  With a large-path `&^` that stores its result in
the big value of `x` (`inPlaceLeft`) the fold `v0 &^ v1` itself is still right, but `v0` — declared
0x70f0…f0f — is then seen by the rest of the program as `v0 &^ v1`: by its run-time use (output 0) and by
the next fold `v0 + v1` (output 3); the wires made for `v0` are no longer those of its declaration (last two
conjuncts).  So the statement above is a property of the folder, not of the shape of the model: it fails for
this write-back policy, and a check of one operator per program cannot see it (second conjunct: the fold
alone is right for every consumer of the folded value).  Replay on the Go code:
`c12 uses -extra "var u 100 559257617747748265366192590607:pos,78919881726271091143763623680:pos &^:0:1,+:0:1 xor,add,xor,add"`. -/
theorem C12_in_place_fold_witness :
    usesOutputs cvName inPlaceLeft usesDemo =
      .ok [0x7000f000f000f000f000f000f, 0x0ff00ff00ff00ff00ff00ff00, 0x7000f000f000f000f000f000f,
           0x7ff0fff0fff0fff0fff0fff0f] ∧
    usesOutputs cvName inPlaceLeft { usesDemo with uses := [⟨.bclr, 0, 1⟩], cons := [.xor, .add, .xor] } =
      .ok [0x7000f000f000f000f000f000f, 0x0ff00ff00ff00ff00ff00ff00, 0x7000f000f000f000f000f000f] ∧
    (usesDemo.declared cvName).toOption.map (fun env => (env[0]?).map (fun b => cvWires b.2)) =
      some (some 0x70f0f0f0f0f0f0f0f0f0f0f0f) ∧
    (usesDemo.declared cvName >>= fun env => runUses cvName inPlaceLeft env usesDemo.uses).toOption.map
        (fun final => (final[0]?).map (fun b => cvWires b.2)) = some (some 0x7000f000f000f000f000f000f) := by
  decide +kernel

end Mpc

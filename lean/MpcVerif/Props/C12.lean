/-
C12 Constant folding equals circuit evaluation.
-/
import MpcVerif.Model.Fold

namespace Mpc
open Mpc.Mpa Mpc.Fold

end Mpc

/-
C15  Malicious-mode OT extension detects a deviating receiver.

Property theorems only; models in Model/{Clmul,Kos,KosSet,KosBuf,KosMix,Iknp,IknpBuf}.lean, helper
lemmas in Proofs/{Clmul,Kos,KosSet,KosBuf,KosMix,Iknp,IknpBuf}.lean.

Quantification.  Every family of PRG streams (`R0 R1 SS : column → position →
byte`, hence every AES key), every challenge generator `X : seed → index →
Label` (hence every PRG for `chi`), every `Delta`, every in-step stream state,
every choice vector of every length `n` (all chunk counts, all tails, all
1024-blocks of the challenge loop), every random choice vector `(b0, b1)` and
seed of the check batch, every error matrix `E1` (payload batch) / `E2`
(256-row check batch) XORed into the transmitted chunks — every single and
multiple flip at every (column, row) position including the padding rows of
the last byte-row — and every altered response `(x', t0', t1')`.  The only
link between the parties is `BaseOK` (the base OTs delivered, C06).

What is proved about "never silently accepts an inconsistent state":

* `C15_kos_accept_iff`: the sender accepts EXACTLY on the zero set of
  `residual = Σ_r χ_r·(E_r & Δ) ⊕ (x ⊕ x')·Δ ⊕ (t ⊕ t')` (unreduced 256-bit
  products), and when it accepts its outputs are the honest ones XOR
  `E_r & Δ`;
* honest executions never abort: `C15_kos_complete` (one call), for every content
  of the caller-provided `result` slice `C15_kos_complete_any_buffer`, and for
  every HISTORY of calls on one pair with named result buffers
  `C15_kos_history_never_aborts` (Model/KosBuf.lean), and for every MIXED history
  (malicious-mode calls interleaved with semi-honest label calls and packed-bit
  calls, which share the per-column streams) `C15_kos_mixed_history_never_aborts`
  (Model/KosMix.lean on top of C06's Model/IknpBuf.lean);
* deterministic corollaries: `C15_kos_complete`, `C15_kos_unselected_harmless`,
  `C15_kos_single_row_sound`, `C15_kos_response_sound`;
* alterations as SETS of positions (any number of flips, response intact):
  `C15_kos_set_accept_iff` — accepted iff the XOR of `χ_r·X^i` over the altered
  positions `(r, i)` selected by `Δ` vanishes; `C15_kos_pair_accept_iff` — two
  flips in one selected column at rows `r ≠ r'` are accepted iff `χ_r = χ_r'`;
  `C15_kos_distinct_sound` — if the coefficients of the session are non-zero
  and pairwise distinct (`distinctNZ`, evaluated by the driver for the
  coefficients of every session and compared with the coefficients RECOVERED
  from the real receiver's behaviour, `C15_kos_probe_recovers_chi`) no one- or
  two-position alteration of a selected column is accepted.

FULL STATEMENT, NOT PROVED (and false as a deterministic statement):

    ∀ E1 E2 x' t0' t1',  sendKos … = some out  →
        ∀ i < n, received_i = out.labels_i xor choice_i*Delta

1. For alterations of the matrix alone that span several rows with
   `E_r & Δ ≠ 0`, acceptance means `Σ_r χ_r·(E_r & Δ) = 0`, a non-trivial
   GF(2)[X]-linear relation among the PRG outputs `χ_r`; that this has
   probability about 2⁻¹²⁸ over the seed is a cryptographic statement about
   AES-CTR outside Lean.  The deterministic parts are `C15_kos_single_row_sound`
   (all effective alterations in one row) and `C15_kos_distinct_sound` (two
   positions of one column, coefficients pairwise distinct).  For alterations
   chosen WITH knowledge of `seed2` (it is on the wire, and the receiver picks
   it itself) the statement is false: the `n + 256 > 128` coefficients are
   128-bit vectors, so some set `S` of at most 129 rows has `XOR_{r∈S} χ_r = 0`
   (Gaussian elimination), and flipping one column at the rows of `S` is
   accepted whatever `Δ` is: `C15_kos_dependent_rows_forgery_witness`.
2. For alterations of the matrix TOGETHER with the response the statement is
   false: `C15_kos_adaptive_forgery_witness` — whoever sees `seed2` on the wire and
   guesses `E_r & Δ` (one bit of `Δ` for a single flip: probability 1/2) can
   set `t' = t ⊕ Σ_r χ_r·(E_r & Δ)` and is accepted with inconsistent outputs.
   This is the selective-failure leakage inherent to the KOS check.
-/
import MpcVerif.Proofs.Clmul
import MpcVerif.Proofs.Kos
import MpcVerif.Proofs.KosSet
import MpcVerif.Proofs.KosBuf
import MpcVerif.Proofs.KosMix

namespace Mpc
open Mpc.Iknp Mpc.Clmul Mpc.Kos

/-! ## Carry-less multiplication -/

/-- The coefficients of `mul128(a, b)` are those of the product of the
polynomials over GF(2): coefficient `k` (`k < 256`; `lo` holds 0..127, `hi`
128..255, coefficient `j` of a label is `Label.Bit(j)`) is the XOR over `i` of
`b_i ∧ a_(k-i)`. -/
theorem C15_clmul_coefficients (a b : Label) (k : Nat) :
    c256 (mul128 a b) k = xsum 128 fun i => coef b i && decide (i ≤ k) && coef a (k - i) :=
  c256_mul128Generic a b k

/-- `TestMul128Cross`: `X^63 · X^63 = X^126`. -/
example : mul128 (ofD (1#64 <<< 63) 0#64) (ofD (1#64 <<< 63) 0#64) = (ofD 0#64 (1#64 <<< 62), 0#128) := by
  decide +kernel

/-- `clmul_bilinear`: `mul128` is GF(2)-bilinear (XOR-additive in each argument, zero-preserving). -/
theorem C15_clmul_bilinear (a a' b b' : Label) :
    mul128 (a ^^^ a') b = pxor (mul128 a b) (mul128 a' b) ∧
    mul128 a (b ^^^ b') = pxor (mul128 a b) (mul128 a b') ∧
    mul128 0#128 b = pzero ∧ mul128 a 0#128 = pzero :=
  ⟨mul128_xor_left a a' b, mul128_xor_right a b b', mul128_zero_left b, mul128_zero_right a⟩

example : mul128 (3#128 ^^^ 5#128) 7#128 = pxor (mul128 3#128 7#128) (mul128 5#128 7#128) :=
  (C15_clmul_bilinear 3#128 5#128 7#128 0#128).1

/-- `clmul_no_zero_div`: the unreduced product of two non-zero labels is non-zero. -/
theorem C15_clmul_no_zero_div (a b : Label) (ha : a ≠ 0#128) (hb : b ≠ 0#128) : mul128 a b ≠ pzero :=
  mul128_ne_zero a b ha hb

example : (1#128 <<< 127) ≠ 0#128 ∧ (BitVec.allOnes 128 : Label) ≠ 0#128 := by decide

/-- The algorithm of the amd64 assembly `mul128CLMUL` (three 64x64 carry-less
products, Karatsuba) computes `mul128Generic`, for any operands. -/
theorem C15_clmul_asm_algorithm (a b : Label) : mul128Karatsuba a b = mul128Generic a b :=
  mul128Karatsuba_eq a b

example : mul128Karatsuba (BitVec.allOnes 128) (ofD 5#64 9#64) = mul128Generic (BitVec.allOnes 128) (ofD 5#64 9#64) :=
  C15_clmul_asm_algorithm _ _

/-! ## The consistency check -/

/-- `kos_complete`: honest executions never abort.  For every `n = b.size`
(also 0), every choice vector, every random check vector and seed, on every
in-step pair: the sender consumes exactly the receiver's chunks and four
labels, the check passes, both sides end in step, and the outputs satisfy
`received_i = sent_i xor choice_i*Delta`. -/
theorem C15_kos_complete (X : Label → Nat → Label) (R0 R1 SS : Nat → Nat → Byte) (delta : Label)
    (hb : BaseOK R0 R1 SS delta) (rs : RecvSt) (ss : SendSt) (hs : InStep rs ss) (b : Array Bool)
    (b0 b1 seed2 : Label) (moreD : List Bytes) (moreL : List Label) :
    ∃ ss' sent,
      sendKos X SS delta ss b.size ((receiveKos X R0 R1 rs b b0 b1 seed2).msgs ++ moreD)
          ((receiveKos X R0 R1 rs b b0 b1 seed2).resp ++ moreL) =
        some { st := ss', labels := sent, restData := moreD, restLabels := moreL } ∧
      InStep (receiveKos X R0 R1 rs b b0 b1 seed2).st ss' ∧ sent.length = b.size ∧
      (receiveKos X R0 R1 rs b b0 b1 seed2).labels.length = b.size ∧
      ∀ i, i < b.size →
        (receiveKos X R0 R1 rs b b0 b1 seed2).labels.getD i 0#128 =
          sent.getD i 0#128 ^^^ (if b.getD i false then delta else 0#128) := by
  obtain ⟨ss', sent, h1, h2, h3, h4, h5⟩ := kos_run X R0 R1 SS delta hb rs ss hs b b0 b1 seed2
    (zeroLike (receive R0 R1 rs b).2.2) (zeroLike (receive R0 R1 (receive R0 R1 rs b).1 (bcvOf b0 b1)).2.2) moreD
    (shape_zeroLike _) (shape_zeroLike _)
  refine ⟨ss', sent, ?_, h1, h2, h3, ?_⟩
  · have := h5 (receiveKos X R0 R1 rs b b0 b1 seed2).x (receiveKos X R0 R1 rs b b0 b1 seed2).t0
      (receiveKos X R0 R1 rs b b0 b1 seed2).t1 moreL
    rw [xorMsgs_zeroLike, xorMsgs_zeroLike,
      residual_zero _ _ _ _ _ _ _ (fun r _ => by rw [errRow_zeroLike]; simp), if_pos rfl] at this
    rw [← this]
    simp [receiveKos, RecvOut.resp, List.append_assoc]
  · intro i hi
    have := h4 i hi
    rw [errRow_zeroLike] at this
    simpa using this

/-- Non-vacuity: for any receiver streams and any `Delta` there is a sender
satisfying `BaseOK`, and freshly initialised parties are in step. -/
example (R0 R1 : Nat → Nat → Byte) (delta : Label) :
    BaseOK R0 R1 (fun i p => if labelBit delta i then R1 i p else R0 i p) delta ∧ InStep RecvSt.init SendSt.init :=
  ⟨fun _ _ _ => rfl, InStep.init⟩

/-- `kos_complete` on caller-provided result buffers.  `Receive(b, result,
true)` transposes into the CALLER's `result` and computes its checksum from
that slice (Model/KosBuf.lean: `receiveKosAt`).  For EVERY content of `result`
(a fresh slice, the slice of the previous call on the same pair, ones, random
bytes) the receiver produces exactly the messages and labels of `receiveKos` —
the function all theorems of this file are about — hence the honest call never
aborts and its outputs are correlated. -/
theorem C15_kos_complete_any_buffer (X : Label → Nat → Label) (R0 R1 SS : Nat → Nat → Byte) (delta : Label)
    (hb : BaseOK R0 R1 SS delta) (rs : RecvSt) (ss : SendSt) (hs : InStep rs ss) (b : Array Bool)
    (b0 b1 seed2 : Label) (result : Array Label) (hres : result.size = b.size) :
    receiveKosAt Store.assign X R0 R1 rs b b0 b1 seed2 result = some (receiveKos X R0 R1 rs b b0 b1 seed2) ∧
    ∃ ss' sent,
      sendKos X SS delta ss b.size (receiveKos X R0 R1 rs b b0 b1 seed2).msgs
          (receiveKos X R0 R1 rs b b0 b1 seed2).resp =
        some { st := ss', labels := sent, restData := [], restLabels := [] } ∧
      InStep (receiveKos X R0 R1 rs b b0 b1 seed2).st ss' ∧ sent.length = b.size ∧
      ∀ i, i < b.size →
        (receiveKos X R0 R1 rs b b0 b1 seed2).labels.getD i 0#128 =
          sent.getD i 0#128 ^^^ (if b.getD i false then delta else 0#128) := by
  refine ⟨receiveKosAt_assign X R0 R1 rs b b0 b1 seed2 result hres, ?_⟩
  obtain ⟨ss', sent, h1, h2, h3, _, h5⟩ := kos_complete_call X R0 R1 SS delta hb rs ss hs b b0 b1 seed2
  exact ⟨ss', sent, h1, h2, h3, h5⟩

example : (#[BitVec.allOnes 128, 5#128] : Array Label).size = (#[true, false] : Array Bool).size := rfl

/-- Honest executions never abort, as a statement about HISTORIES: any number
of malicious-mode calls on one initialised pair, every call naming where its
`result` slice comes from — a fresh allocation, or a slice at any offset of
the receiver's long-lived array, as the earlier calls left it or overwritten
with arbitrary content first.  Every call is accepted by the sender ("OT
extension check failed" is not reached), consumes exactly the receiver's
messages, and delivers `received_i = sent_i xor choice_i*Delta`. -/
theorem C15_kos_history_never_aborts (X : Label → Nat → Label) (R0 R1 SS : Nat → Nat → Byte) (delta : Label)
    (hb : BaseOK R0 R1 SS delta) (SL : Nat) (arena : Array Label) (har : arena.size = SL)
    (cs : List KCall) (hwf : ∀ c ∈ cs, c.WF SL) :
    ∃ outs, sessionK Store.assign X R0 R1 SS delta RecvSt.init SendSt.init arena cs = some outs ∧
      outs.length = cs.length ∧
      ∀ k (hk : k < cs.length) (hk' : k < outs.length), KSpec delta cs[k] outs[k] :=
  sessionK_ok X R0 R1 SS delta hb SL cs _ _ arena InStep.init har hwf

/-- Non-vacuity: two calls into the same slice, a third into a window of an
array of ones. -/
example : (zerosL 3).size = 3 ∧
    ∀ c ∈ [KCall.mk #[true, false] 1#128 2#128 3#128 (.arena none 0 0),
           KCall.mk #[false, true] 4#128 5#128 6#128 (.arena none 0 0),
           KCall.mk #[true] 7#128 8#128 9#128 (.arena (some (mk 3 fun _ => BitVec.allOnes 128)) 2 0)], c.WF 3 := by
  refine ⟨by simp [zerosL], ?_⟩
  intro c hc
  simp only [List.mem_cons, List.mem_nil_iff, or_false] at hc
  rcases hc with rfl | rfl | rfl
  all_goals simp [KCall.WF, BufSrc.WF]

/-- Honest executions never abort, MIXED histories: any number of calls of ALL
kinds on one initialised pair, in any order - malicious-mode label calls (with
the consistency check), semi-honest label calls and packed-bit calls
(`SendBits` / `ReceiveBits`; C06's `Iknp.runCallB`, reused by import), every
call naming its result buffers.  The per-column PRG stream positions of both
parties (`RecvSt`, `SendSt`: one position per column and party) are threaded
through the whole history, whatever kind of call moved them.  Every call runs
to completion, every malicious-mode call is ACCEPTED by the sender ("OT
extension check failed" is not reached) and correlated (`KSpec`), every other
call meets C06's `CallSpecB`. -/
theorem C15_kos_mixed_history_never_aborts (X : Label → Nat → Label) (R0 R1 SS : Nat → Nat → Byte) (delta : Label)
    (hb : BaseOK R0 R1 SS delta) (SL SW : Nat) (ar : Arena) (har : ar.Sized SL SW)
    (cs : List MCall) (hwf : ∀ c ∈ cs, c.WF SL SW) :
    ∃ outs, sessionM Store.assign .write X R0 R1 SS delta RecvSt.init SendSt.init ar cs = some outs ∧
      outs.length = cs.length ∧
      ∀ k (hk : k < cs.length) (hk' : k < outs.length), MSpec delta cs[k] outs[k] :=
  sessionM_ok X R0 R1 SS delta hb SL SW cs _ _ ar InStep.init har hwf

/-- Non-vacuity: packed bits, then a malicious-mode call, a semi-honest one,
packed bits again and a second malicious-mode call into the first one's slice. -/
example : (Arena.mk (zerosL 3) (zerosW 2) (zerosW 2)).Sized 3 2 ∧
    ∀ c ∈ [MCall.plain (.bits 70 #[5#64, 1#64] .fresh (.arena none 0 0)),
           MCall.kos ⟨#[true, false], 1#128, 2#128, 3#128, .arena none 0 0⟩,
           MCall.plain (.labels false #[true] 0#128 0#128 .fresh),
           MCall.plain (.bits 1 #[1#64] (.arena none 1 0) .fresh),
           MCall.kos ⟨#[false, true], 4#128, 5#128, 6#128, .arena none 0 0⟩], c.WF 3 2 := by
  refine ⟨⟨by simp [zerosL], by simp [zerosW], by simp [zerosW]⟩, ?_⟩
  intro c hc
  simp only [List.mem_cons, List.mem_nil_iff, or_false] at hc
  rcases hc with rfl | rfl | rfl | rfl | rfl
  all_goals simp [MCall.WF, KCall.WF, CallB.WF, BufSrc.WF]

/-- The hypothesis that carries the mixed histories is `InStep` in ALL 128
columns: a party whose call advances only the stream of column 0 (the only
column the packed-bit form reads after the transpose) by `d > 0` leaves the
pair out of step, so no theorem of this file applies to the calls that follow
(the driver's op `mhist0` runs that variant: the next malicious-mode call
aborts). -/
theorem C15_kos_mixed_needs_all_columns (rs : RecvSt) (ss : SendSt) (hs : InStep rs ss) (d : Nat) (hd : 0 < d) :
    ¬ InStep (rs.adv d) ⟨fun i => if i = 0 then ss.p 0 + d else ss.p i⟩ := by
  intro h
  have h1 := (h 1).1
  have h2 := (hs 1).1
  simp [RecvSt.adv] at h1
  omega

example : InStep RecvSt.init SendSt.init ∧ 0 < 8 := ⟨InStep.init, by decide⟩

/-- `kos_accept_iff`: the exact acceptance condition.  The receiver runs
honestly; in transit the error masks `E1` (chunks of the payload batch) and
`E2` (chunks of the 256-row check batch) are XORed into the transmitted matrix
and the response `(x, t0, t1)` is replaced by `(x', t0', t1')` (challenge seed
intact).  Then there are a state `ss'` and labels `sent` — the honest sender's
outputs XOR `E_r & Delta` — such that `Send(n, true)` returns `sent` if

    Σ_{r < n+256} χ_r·(E_r & Δ)  ⊕  (x ⊕ x')·Δ  ⊕  ((t0,t1) ⊕ (t0',t1'))  =  0

(`residual`, unreduced 256-bit products, `χ_r = X seed2 r`, `E_r = errRow`: row
`r` of the error matrix as a label) and fails with "OT extension check failed"
otherwise. -/
theorem C15_kos_accept_iff (X : Label → Nat → Label) (R0 R1 SS : Nat → Nat → Byte) (delta : Label)
    (hb : BaseOK R0 R1 SS delta) (rs : RecvSt) (ss : SendSt) (hs : InStep rs ss) (b : Array Bool)
    (b0 b1 seed2 : Label) (E1 E2 moreD : List Bytes)
    (h1 : Shape (receive R0 R1 rs b).2.2 E1)
    (h2 : Shape (receive R0 R1 (receive R0 R1 rs b).1 (bcvOf b0 b1)).2.2 E2) :
    ∃ ss' sent,
      InStep (receiveKos X R0 R1 rs b b0 b1 seed2).st ss' ∧ sent.length = b.size ∧
      (receiveKos X R0 R1 rs b b0 b1 seed2).labels.length = b.size ∧
      (∀ i, i < b.size →
        (receiveKos X R0 R1 rs b b0 b1 seed2).labels.getD i 0#128 =
          sent.getD i 0#128 ^^^ (if b.getD i false then delta else 0#128) ^^^ (errRow b.size E1 E2 i &&& delta)) ∧
      ∀ (x' t0' t1' : Label) (moreL : List Label),
        sendKos X SS delta ss b.size
            (xorMsgs (receive R0 R1 rs b).2.2 E1 ++
              (xorMsgs (receive R0 R1 (receive R0 R1 rs b).1 (bcvOf b0 b1)).2.2 E2 ++ moreD))
            (seed2 :: x' :: t0' :: t1' :: moreL) =
          if residual (X seed2) delta b.size E1 E2 (receiveKos X R0 R1 rs b b0 b1 seed2).x x'
              ((receiveKos X R0 R1 rs b b0 b1 seed2).t0, (receiveKos X R0 R1 rs b b0 b1 seed2).t1) (t0', t1') = pzero
          then some { st := ss', labels := sent, restData := moreD, restLabels := moreL } else none :=
  kos_run X R0 R1 SS delta hb rs ss hs b b0 b1 seed2 E1 E2 moreD h1 h2

/-- The error mask that flips column 0, row 0 of a one-row payload batch, and
no mask on the check batch. -/
def flip00 : List Bytes := [mk 128 fun k => if k = 0 then 1#8 else 0#8]

/-- Non-vacuity of the `Shape` hypotheses (any streams, `n = 1`): `flip00` has
the shape of the payload chunk, and its row 0 is the label with bit 0 set. -/
example (R0 R1 : Nat → Nat → Byte) (rs : RecvSt) : Shape (receive R0 R1 rs #[true]).2.2 flip00 := by
  simp [receive, recvLoop, Shape, flip00, size_recvCols_u, K, chunkRows]

example : errRow 1 flip00 [] 0 = 1#128 <<< 64 := by decide +kernel

/-- `kos_unselected_harmless`: if every altered column is one `Delta` does not
select (`E_r & Delta = 0` for every row) and the response is intact, the
tampered call returns exactly what the honest call returns, and that is a
success whose outputs satisfy the correlation for the receiver's original
choices. -/
theorem C15_kos_unselected_harmless (X : Label → Nat → Label) (R0 R1 SS : Nat → Nat → Byte) (delta : Label)
    (hb : BaseOK R0 R1 SS delta) (rs : RecvSt) (ss : SendSt) (hs : InStep rs ss) (b : Array Bool)
    (b0 b1 seed2 : Label) (E1 E2 moreD : List Bytes) (moreL : List Label)
    (h1 : Shape (receive R0 R1 rs b).2.2 E1)
    (h2 : Shape (receive R0 R1 (receive R0 R1 rs b).1 (bcvOf b0 b1)).2.2 E2)
    (hun : ∀ r, r < b.size + 256 → errRow b.size E1 E2 r &&& delta = 0#128) :
    sendKos X SS delta ss b.size
        (xorMsgs (receive R0 R1 rs b).2.2 E1 ++
          (xorMsgs (receive R0 R1 (receive R0 R1 rs b).1 (bcvOf b0 b1)).2.2 E2 ++ moreD))
        ((receiveKos X R0 R1 rs b b0 b1 seed2).resp ++ moreL) =
      sendKos X SS delta ss b.size ((receiveKos X R0 R1 rs b b0 b1 seed2).msgs ++ moreD)
        ((receiveKos X R0 R1 rs b b0 b1 seed2).resp ++ moreL) ∧
    ∃ ss' sent,
      sendKos X SS delta ss b.size
          (xorMsgs (receive R0 R1 rs b).2.2 E1 ++
            (xorMsgs (receive R0 R1 (receive R0 R1 rs b).1 (bcvOf b0 b1)).2.2 E2 ++ moreD))
          ((receiveKos X R0 R1 rs b b0 b1 seed2).resp ++ moreL) =
        some { st := ss', labels := sent, restData := moreD, restLabels := moreL } ∧
      sent.length = b.size ∧
      ∀ i, i < b.size →
        (receiveKos X R0 R1 rs b b0 b1 seed2).labels.getD i 0#128 =
          sent.getD i 0#128 ^^^ (if b.getD i false then delta else 0#128) := by
  obtain ⟨ss', sent, g1, g2, g3, g4, g5⟩ := kos_run X R0 R1 SS delta hb rs ss hs b b0 b1 seed2 E1 E2 moreD h1 h2
  obtain ⟨ss'', sent', c1, c2, c3, _, c5⟩ := C15_kos_complete X R0 R1 SS delta hb rs ss hs b b0 b1 seed2 moreD moreL
  have hrun := g5 (receiveKos X R0 R1 rs b b0 b1 seed2).x (receiveKos X R0 R1 rs b b0 b1 seed2).t0
    (receiveKos X R0 R1 rs b b0 b1 seed2).t1 moreL
  rw [residual_zero _ _ _ _ _ _ _ hun, if_pos rfl] at hrun
  have hresp : (receiveKos X R0 R1 rs b b0 b1 seed2).resp ++ moreL =
      seed2 :: (receiveKos X R0 R1 rs b b0 b1 seed2).x :: (receiveKos X R0 R1 rs b b0 b1 seed2).t0 ::
        (receiveKos X R0 R1 rs b b0 b1 seed2).t1 :: moreL := by
    simp [RecvOut.resp, receiveKos]
  have hcorr : ∀ i, i < b.size →
      (receiveKos X R0 R1 rs b b0 b1 seed2).labels.getD i 0#128 =
        sent.getD i 0#128 ^^^ (if b.getD i false then delta else 0#128) := by
    intro i hi
    have := g4 i hi
    rw [hun i (by omega)] at this
    simpa using this
  have hsent : sent = sent' := by
    apply list_ext_getD _ _ (by rw [g2, c3])
    intro i hi
    rw [g2] at hi
    have a := hcorr i hi
    have a' := c5 i hi
    rw [a] at a'
    exact xor_cancel_right _ _ _ a'
  have hss : ss' = ss'' := inStep_unique g1 c2
  refine ⟨?_, ss', sent, ?_, g2, hcorr⟩
  · rw [c1, hresp, hrun, hsent, hss]
  · rw [hresp, hrun]

/-- Non-vacuity: an alteration confined to a column whose `Delta` bit is 0
(`Delta.Bit(0) = 0` here) satisfies the hypothesis. -/
example : ∀ r, r < 1 + 256 → errRow 1 flip00 [] r &&& (1#128 <<< 65) = 0#128 := by
  intro r hr
  by_cases h0 : r = 0
  · subst h0; decide +kernel
  · have e : errRow 1 flip00 [] r = 0#128 := by
      unfold errRow
      by_cases h1 : r < 1
      · omega
      · simp [h1, rowsOf, rowsLoop]
    rw [e]; simp

/-- `kos_single_row_sound`: if all effective alterations lie in one row `r0`
(`E_r0 & Delta ≠ 0`, `E_r & Delta = 0` elsewhere; payload or check batch), the
challenge of that row is non-zero and the response is intact, the sender
aborts — deterministically, by `C15_clmul_no_zero_div`.  A single flipped bit
in a column selected by `Delta` is the special case `E_r0 & Delta = 2^i`. -/
theorem C15_kos_single_row_sound (X : Label → Nat → Label) (R0 R1 SS : Nat → Nat → Byte) (delta : Label)
    (hb : BaseOK R0 R1 SS delta) (rs : RecvSt) (ss : SendSt) (hs : InStep rs ss) (b : Array Bool)
    (b0 b1 seed2 : Label) (E1 E2 moreD : List Bytes) (moreL : List Label)
    (h1 : Shape (receive R0 R1 rs b).2.2 E1)
    (h2 : Shape (receive R0 R1 (receive R0 R1 rs b).1 (bcvOf b0 b1)).2.2 E2)
    (r0 : Nat) (hr0 : r0 < b.size + 256)
    (hne : errRow b.size E1 E2 r0 &&& delta ≠ 0#128) (hchi : X seed2 r0 ≠ 0#128)
    (hother : ∀ r, r < b.size + 256 → r ≠ r0 → errRow b.size E1 E2 r &&& delta = 0#128) :
    sendKos X SS delta ss b.size
        (xorMsgs (receive R0 R1 rs b).2.2 E1 ++
          (xorMsgs (receive R0 R1 (receive R0 R1 rs b).1 (bcvOf b0 b1)).2.2 E2 ++ moreD))
        ((receiveKos X R0 R1 rs b b0 b1 seed2).resp ++ moreL) = none := by
  obtain ⟨ss', sent, _, _, _, _, g5⟩ := kos_run X R0 R1 SS delta hb rs ss hs b b0 b1 seed2 E1 E2 moreD h1 h2
  have hresp : (receiveKos X R0 R1 rs b b0 b1 seed2).resp ++ moreL =
      seed2 :: (receiveKos X R0 R1 rs b b0 b1 seed2).x :: (receiveKos X R0 R1 rs b b0 b1 seed2).t0 ::
        (receiveKos X R0 R1 rs b b0 b1 seed2).t1 :: moreL := by
    simp [RecvOut.resp, receiveKos]
  rw [hresp, g5, residual_intact]
  rw [psum_single _ _ r0 hr0 (fun r hr hne' => by rw [hother r hr hne', mul128_zero_right])]
  rw [if_neg (mul128_ne_zero _ _ hchi hne)]

/-- Non-vacuity: the flip of column 0, row 0 with `Delta.Bit(0) = 1` is such an alteration. -/
example : errRow 1 flip00 [] 0 &&& (1#128 <<< 64) ≠ 0#128 ∧
    ∀ r, r < 1 + 256 → r ≠ 0 → errRow 1 flip00 [] r &&& (1#128 <<< 64) = 0#128 := by
  refine ⟨by decide +kernel, ?_⟩
  intro r hr hne
  have e : errRow 1 flip00 [] r = 0#128 := by
    unfold errRow
    have h1 : ¬ r < 1 := by omega
    simp [h1, rowsOf, rowsLoop]
  rw [e]; simp

/-- The property's conclusion, PARTIAL: for every alteration of the matrix
(response intact) whose effective part `E_r & Delta` is confined to at most
one row `r0` with a non-zero challenge — in particular every single flip and
every set of flips within one row, in any columns — the sender never silently
accepts an inconsistent state: whenever `Send(n, true)` returns, its outputs
satisfy the correlation for the receiver's original choices.  (Missing for the
full statement: effective alterations in several rows — probabilistic, see the
header — and alterations of the response together with the matrix — false,
`C15_kos_adaptive_forgery_witness`.) -/
theorem C15_kos_never_silent_partial (X : Label → Nat → Label) (R0 R1 SS : Nat → Nat → Byte) (delta : Label)
    (hb : BaseOK R0 R1 SS delta) (rs : RecvSt) (ss : SendSt) (hs : InStep rs ss) (b : Array Bool)
    (b0 b1 seed2 : Label) (E1 E2 moreD : List Bytes) (moreL : List Label)
    (h1 : Shape (receive R0 R1 rs b).2.2 E1)
    (h2 : Shape (receive R0 R1 (receive R0 R1 rs b).1 (bcvOf b0 b1)).2.2 E2)
    (r0 : Nat) (hchi : X seed2 r0 ≠ 0#128)
    (hother : ∀ r, r < b.size + 256 → r ≠ r0 → errRow b.size E1 E2 r &&& delta = 0#128)
    (out : SendOut)
    (hacc : sendKos X SS delta ss b.size
        (xorMsgs (receive R0 R1 rs b).2.2 E1 ++
          (xorMsgs (receive R0 R1 (receive R0 R1 rs b).1 (bcvOf b0 b1)).2.2 E2 ++ moreD))
        ((receiveKos X R0 R1 rs b b0 b1 seed2).resp ++ moreL) = some out) :
    out.labels.length = b.size ∧
    ∀ i, i < b.size →
      (receiveKos X R0 R1 rs b b0 b1 seed2).labels.getD i 0#128 =
        out.labels.getD i 0#128 ^^^ (if b.getD i false then delta else 0#128) := by
  by_cases hall : ∀ r, r < b.size + 256 → errRow b.size E1 E2 r &&& delta = 0#128
  · obtain ⟨_, ss', sent, hrun, hlen, hcorr⟩ :=
      C15_kos_unselected_harmless X R0 R1 SS delta hb rs ss hs b b0 b1 seed2 E1 E2 moreD moreL h1 h2 hall
    rw [hrun] at hacc
    cases hacc
    exact ⟨hlen, hcorr⟩
  · have hr0 : r0 < b.size + 256 ∧ errRow b.size E1 E2 r0 &&& delta ≠ 0#128 := by
      apply Classical.byContradiction
      intro hn
      apply hall
      intro r hr
      by_cases he : r = r0
      · subst he
        apply Classical.byContradiction
        intro hne
        exact hn ⟨hr, hne⟩
      · exact hother r hr he
    have := C15_kos_single_row_sound X R0 R1 SS delta hb rs ss hs b b0 b1 seed2 E1 E2 moreD moreL h1 h2 r0 hr0.1 hr0.2
      hchi hother
    rw [this] at hacc
    cases hacc

example : ∀ r, r < 1 + 256 → r ≠ 0 → errRow 1 flip00 [] r &&& (BitVec.allOnes 128) = 0#128 := by
  intro r hr hne
  have e : errRow 1 flip00 [] r = 0#128 := by
    unfold errRow
    have h1 : ¬ r < 1 := by omega
    simp [h1, rowsOf, rowsLoop]
  rw [e]; simp

/-- `kos_response_sound`: with the matrix intact (no effective alteration) and
the seed intact, an altered response `(x', t0', t1')` is accepted iff
`(x ⊕ x')·Δ = (t0,t1) ⊕ (t0',t1')`.  In particular altering only `t0/t1`
always aborts, and altering only `x` aborts whenever `Delta ≠ 0`. -/
theorem C15_kos_response_sound (X : Label → Nat → Label) (R0 R1 SS : Nat → Nat → Byte) (delta : Label)
    (hb : BaseOK R0 R1 SS delta) (rs : RecvSt) (ss : SendSt) (hs : InStep rs ss) (b : Array Bool)
    (b0 b1 seed2 : Label) (moreD : List Bytes) (moreL : List Label) (x' t0' t1' : Label) :
    ((sendKos X SS delta ss b.size ((receiveKos X R0 R1 rs b b0 b1 seed2).msgs ++ moreD)
        (seed2 :: x' :: t0' :: t1' :: moreL)).isSome ↔
      mul128 ((receiveKos X R0 R1 rs b b0 b1 seed2).x ^^^ x') delta =
        pxor ((receiveKos X R0 R1 rs b b0 b1 seed2).t0, (receiveKos X R0 R1 rs b b0 b1 seed2).t1) (t0', t1')) ∧
    (x' = (receiveKos X R0 R1 rs b b0 b1 seed2).x →
      (t0', t1') ≠ ((receiveKos X R0 R1 rs b b0 b1 seed2).t0, (receiveKos X R0 R1 rs b b0 b1 seed2).t1) →
      sendKos X SS delta ss b.size ((receiveKos X R0 R1 rs b b0 b1 seed2).msgs ++ moreD)
        (seed2 :: x' :: t0' :: t1' :: moreL) = none) ∧
    (x' ≠ (receiveKos X R0 R1 rs b b0 b1 seed2).x → delta ≠ 0#128 →
      (t0', t1') = ((receiveKos X R0 R1 rs b b0 b1 seed2).t0, (receiveKos X R0 R1 rs b b0 b1 seed2).t1) →
      sendKos X SS delta ss b.size ((receiveKos X R0 R1 rs b b0 b1 seed2).msgs ++ moreD)
        (seed2 :: x' :: t0' :: t1' :: moreL) = none) := by
  obtain ⟨ss', sent, _, _, _, _, g5⟩ := kos_run X R0 R1 SS delta hb rs ss hs b b0 b1 seed2
    (zeroLike (receive R0 R1 rs b).2.2) (zeroLike (receive R0 R1 (receive R0 R1 rs b).1 (bcvOf b0 b1)).2.2) moreD
    (shape_zeroLike _) (shape_zeroLike _)
  have hmsgs : (receiveKos X R0 R1 rs b b0 b1 seed2).msgs ++ moreD =
      (receive R0 R1 rs b).2.2 ++ ((receive R0 R1 (receive R0 R1 rs b).1 (bcvOf b0 b1)).2.2 ++ moreD) := by
    simp [receiveKos, List.append_assoc]
  have hrun := g5 x' t0' t1' moreL
  rw [xorMsgs_zeroLike, xorMsgs_zeroLike, ← hmsgs,
    residual_matrix_intact _ _ _ _ _ _ _ _ _ (fun r _ => by rw [errRow_zeroLike]; simp)] at hrun
  simp only [pxor_eq_zero_iff] at hrun
  refine ⟨?_, ?_, ?_⟩
  · rw [hrun]
    by_cases hc : mul128 ((receiveKos X R0 R1 rs b b0 b1 seed2).x ^^^ x') delta =
        pxor ((receiveKos X R0 R1 rs b b0 b1 seed2).t0, (receiveKos X R0 R1 rs b b0 b1 seed2).t1) (t0', t1')
    · simp [hc]
    · simp [hc]
  · intro hx ht
    rw [hrun, hx, BitVec.xor_self, mul128_zero_left]
    rw [if_neg]
    intro h
    exact ht ((pxor_eq_zero_iff _ _).mp h.symm).symm
  · intro hx hd ht
    rw [hrun, ht, pxor_self]
    rw [if_neg]
    apply mul128_ne_zero _ _ _ hd
    intro h
    exact hx (BitVec.xor_eq_zero_iff.mp h).symm

example : (5#128 : Label) ≠ 7#128 ∧ (1#128 <<< 64 : Label) ≠ 0#128 := by decide

/-- Negation witness for the full statement when the response may be altered
TOGETHER with the matrix: for EVERY alteration `E1, E2` of the matrix the
response `x' = x`, `(t0', t1') = (t0, t1) ⊕ Σ_r χ_r·(E_r & Δ)` is accepted, and
if some payload row has `E_r & Delta ≠ 0` the accepted outputs violate the
correlation at that row.  (Computing that response needs `seed2`, which is on
the wire, and `E_r & Delta`, i.e. a correct guess of the `Delta` bits of the
altered columns: one bit, probability 1/2, for a single flip.) -/
theorem C15_kos_adaptive_forgery_witness (X : Label → Nat → Label) (R0 R1 SS : Nat → Nat → Byte) (delta : Label)
    (hb : BaseOK R0 R1 SS delta) (rs : RecvSt) (ss : SendSt) (hs : InStep rs ss) (b : Array Bool)
    (b0 b1 seed2 : Label) (E1 E2 moreD : List Bytes) (moreL : List Label)
    (h1 : Shape (receive R0 R1 rs b).2.2 E1)
    (h2 : Shape (receive R0 R1 (receive R0 R1 rs b).1 (bcvOf b0 b1)).2.2 E2)
    (r : Nat) (hr : r < b.size) (hne : errRow b.size E1 E2 r &&& delta ≠ 0#128) :
    ∃ (t0' t1' : Label) (out : SendOut),
      (t0', t1') = pxor ((receiveKos X R0 R1 rs b b0 b1 seed2).t0, (receiveKos X R0 R1 rs b b0 b1 seed2).t1)
        (psum (b.size + 256) fun r => mul128 (X seed2 r) (errRow b.size E1 E2 r &&& delta)) ∧
      sendKos X SS delta ss b.size
          (xorMsgs (receive R0 R1 rs b).2.2 E1 ++
            (xorMsgs (receive R0 R1 (receive R0 R1 rs b).1 (bcvOf b0 b1)).2.2 E2 ++ moreD))
          (seed2 :: (receiveKos X R0 R1 rs b b0 b1 seed2).x :: t0' :: t1' :: moreL) = some out ∧
      (receiveKos X R0 R1 rs b b0 b1 seed2).labels.getD r 0#128 ≠
        out.labels.getD r 0#128 ^^^ (if b.getD r false then delta else 0#128) := by
  obtain ⟨ss', sent, _, _, _, g4, g5⟩ := kos_run X R0 R1 SS delta hb rs ss hs b b0 b1 seed2 E1 E2 moreD h1 h2
  let t : P := ((receiveKos X R0 R1 rs b b0 b1 seed2).t0, (receiveKos X R0 R1 rs b b0 b1 seed2).t1)
  let er : P := psum (b.size + 256) fun r => mul128 (X seed2 r) (errRow b.size E1 E2 r &&& delta)
  refine ⟨(pxor t er).1, (pxor t er).2, { st := ss', labels := sent, restData := moreD, restLabels := moreL }, rfl, ?_, ?_⟩
  · rw [g5]
    have : residual (X seed2) delta b.size E1 E2 (receiveKos X R0 R1 rs b b0 b1 seed2).x
        (receiveKos X R0 R1 rs b b0 b1 seed2).x t ((pxor t er).1, (pxor t er).2) = pzero := by
      unfold residual
      show pxor (pxor er _) (pxor t (pxor t er)) = pzero
      rw [BitVec.xor_self, mul128_zero_left, pxor_zero, ← pxor_assoc t t er, pxor_self, zero_pxor, pxor_self]
    rw [if_pos this]
  · intro h
    have := g4 r hr
    rw [h] at this
    exact hne (xor_err_zero _ _ this)

/-- Non-vacuity (see also the examples after `C15_kos_accept_iff`): `flip00`
with `Delta.Bit(0) = 1`. -/
example : (0 : Nat) < (#[true] : Array Bool).size ∧ errRow 1 flip00 [] 0 &&& (1#128 <<< 64) ≠ 0#128 :=
  ⟨by decide, by decide +kernel⟩


/-! ## Alterations as sets of positions; the coefficient vector -/

/-- `kos_set_accept_iff`: the acceptance condition for a SET of altered matrix
positions.  The transmitted matrix is altered by error masks whose rows are
exactly the flips of the position list `ps` (global rows: payload `0..n-1`,
check batch `n..n+255`; any number of positions, any columns `< 128`), the
response is intact.  Then `Send(n, true)` succeeds iff

    XOR over the (r, i) ∈ ps with r < n + 256 and Delta.Bit(i) = 1 of  χ_r · X^i  =  0

(`posSum`, unreduced products), and then its outputs are the honest ones XOR
the selected altered bits of each row. -/
theorem C15_kos_set_accept_iff (X : Label → Nat → Label) (R0 R1 SS : Nat → Nat → Byte) (delta : Label)
    (hb : BaseOK R0 R1 SS delta) (rs : RecvSt) (ss : SendSt) (hs : InStep rs ss) (b : Array Bool)
    (b0 b1 seed2 : Label) (E1 E2 moreD : List Bytes)
    (h1 : Shape (receive R0 R1 rs b).2.2 E1)
    (h2 : Shape (receive R0 R1 (receive R0 R1 rs b).1 (bcvOf b0 b1)).2.2 E2)
    (ps : List Pos) (hcol : ∀ p, p ∈ ps → p.2 < 128)
    (hE : ∀ r, r < b.size + 256 → errRow b.size E1 E2 r = posRow ps r) :
    ∃ ss' sent,
      InStep (receiveKos X R0 R1 rs b b0 b1 seed2).st ss' ∧ sent.length = b.size ∧
      (∀ i, i < b.size →
        (receiveKos X R0 R1 rs b b0 b1 seed2).labels.getD i 0#128 =
          sent.getD i 0#128 ^^^ (if b.getD i false then delta else 0#128) ^^^ (posRow ps i &&& delta)) ∧
      ∀ (moreL : List Label),
        sendKos X SS delta ss b.size
            (xorMsgs (receive R0 R1 rs b).2.2 E1 ++
              (xorMsgs (receive R0 R1 (receive R0 R1 rs b).1 (bcvOf b0 b1)).2.2 E2 ++ moreD))
            ((receiveKos X R0 R1 rs b b0 b1 seed2).resp ++ moreL) =
          if posSum (X seed2) delta (b.size + 256) ps = pzero
          then some { st := ss', labels := sent, restData := moreD, restLabels := moreL } else none := by
  obtain ⟨ss', sent, g1, g2, _, g4, g5⟩ := kos_run X R0 R1 SS delta hb rs ss hs b b0 b1 seed2 E1 E2 moreD h1 h2
  refine ⟨ss', sent, g1, g2, ?_, ?_⟩
  · intro i hi
    rw [g4 i hi, hE i (by omega)]
  · intro moreL
    have hresp : (receiveKos X R0 R1 rs b b0 b1 seed2).resp ++ moreL =
        seed2 :: (receiveKos X R0 R1 rs b b0 b1 seed2).x :: (receiveKos X R0 R1 rs b b0 b1 seed2).t0 ::
          (receiveKos X R0 R1 rs b b0 b1 seed2).t1 :: moreL := by
      simp [RecvOut.resp, receiveKos]
    rw [hresp, g5, residual_intact]
    rw [psum_congr _ _ (fun r => mul128 (X seed2 r) (posRow ps r &&& delta)) (fun r hr => by rw [hE r hr])]
    rw [psum_posRow _ _ _ _ hcol]


/-- Non-vacuity: `flip00` is the error matrix of the position list `[(0, 0)]`. -/
example : ∀ q, q < 1 + 256 → errRow 1 flip00 [] q = posRow [(0, 0)] q := by
  intro q hq
  by_cases h0 : q = 0
  · subst h0; decide +kernel
  · have e : errRow 1 flip00 [] q = 0#128 := by
      unfold errRow
      have h1 : ¬ q < 1 := by omega
      simp [h1, rowsOf, rowsLoop]
    have a : (0 : Nat) ≠ q := fun e => h0 e.symm
    rw [e]; simp [posRow, a]

/-- `kos_pair_accept_iff`: two flips in the SAME column `i` selected by `Delta`
at two rows `r`, `r'` (payload or check batch), response intact, are accepted
IFF the two rows have the same challenge coefficient.  (With `r = r'` the two
flips cancel.) -/
theorem C15_kos_pair_accept_iff (X : Label → Nat → Label) (R0 R1 SS : Nat → Nat → Byte) (delta : Label)
    (hb : BaseOK R0 R1 SS delta) (rs : RecvSt) (ss : SendSt) (hs : InStep rs ss) (b : Array Bool)
    (b0 b1 seed2 : Label) (E1 E2 moreD : List Bytes) (moreL : List Label)
    (h1 : Shape (receive R0 R1 rs b).2.2 E1)
    (h2 : Shape (receive R0 R1 (receive R0 R1 rs b).1 (bcvOf b0 b1)).2.2 E2)
    (r r' i : Nat) (hr : r < b.size + 256) (hr' : r' < b.size + 256) (hi : i < 128)
    (hsel : labelBit delta i = true)
    (hE : ∀ q, q < b.size + 256 → errRow b.size E1 E2 q = posRow [(r, i), (r', i)] q) :
    (sendKos X SS delta ss b.size
        (xorMsgs (receive R0 R1 rs b).2.2 E1 ++
          (xorMsgs (receive R0 R1 (receive R0 R1 rs b).1 (bcvOf b0 b1)).2.2 E2 ++ moreD))
        ((receiveKos X R0 R1 rs b b0 b1 seed2).resp ++ moreL)).isSome ↔ X seed2 r = X seed2 r' := by
  obtain ⟨ss', sent, _, _, _, hrun⟩ := C15_kos_set_accept_iff X R0 R1 SS delta hb rs ss hs b b0 b1 seed2 E1 E2 moreD h1 h2
    [(r, i), (r', i)] (by intro p hp; simp at hp; rcases hp with e | e <;> (subst e; exact hi)) hE
  rw [hrun moreL]
  have hsum : posSum (X seed2) delta (b.size + 256) [(r, i), (r', i)] =
      mul128 (X seed2 r ^^^ X seed2 r') (bitLabel i) := by
    simp only [posSum, List.foldr, hr, hr', hsel, and_self, if_true, zero_pxor]
    rw [mul128_xor_left, pxor_comm]
  rw [hsum]
  constructor
  · intro h
    apply Classical.byContradiction
    intro hne
    have hx : X seed2 r ^^^ X seed2 r' ≠ 0#128 := fun e => hne (BitVec.xor_eq_zero_iff.mp e)
    rw [if_neg (mul128_ne_zero _ _ hx (bitLabel_ne_zero i hi))] at h
    cases h
  · intro h
    rw [h, BitVec.xor_self, mul128_zero_left]
    simp

/-- The error mask that flips column 0 at rows 0 and 1 of a two-row payload batch. -/
def flip01 : List Bytes := [mk 128 fun k => if k = 0 then 3#8 else 0#8]

/-- Non-vacuity: `flip01` has the shape of the payload chunk of a two-row call
and is the error matrix of the positions `[(0, 0), (1, 0)]`; `Delta.Bit(0) = 1`
for `Delta = 1 <<< 64`. -/
example (R0 R1 : Nat → Nat → Byte) (rs : RecvSt) : Shape (receive R0 R1 rs #[true, false]).2.2 flip01 := by
  simp [receive, recvLoop, Shape, flip01, size_recvCols_u, K, chunkRows]

example : ∀ q, q < 2 + 256 → errRow 2 flip01 [] q = posRow [(0, 0), (1, 0)] q := by
  intro q hq
  by_cases h0 : q = 0
  · subst h0; decide +kernel
  · by_cases h1 : q = 1
    · subst h1; decide +kernel
    · have e : errRow 2 flip01 [] q = 0#128 := by
        unfold errRow
        have h2 : ¬ q < 2 := by omega
        simp [h2, rowsOf, rowsLoop]
      have e2 : posRow [(0, 0), (1, 0)] q = 0#128 := by
        have a : (0 : Nat) ≠ q := fun e => h0 e.symm
        have b : (1 : Nat) ≠ q := fun e => h1 e.symm
        simp [posRow, a, b]
      rw [e, e2]

example : labelBit (1#128 <<< 64) 0 = true := by decide

/-- `kos_distinct_sound`: if the challenge coefficients of the `n + 256` rows
are non-zero and pairwise distinct (`distinctNZ`: a computable fact of the
session's seed, printed by the driver for every session), then NO alteration
of one position, and NO alteration of two positions of one column, in a
column selected by `Delta` is accepted.  This is the deterministic part of
soundness for two-row alterations; it is exactly what a challenge stream that
repeats coefficients across rows (restarted or shifted between blocks) loses
(`C15_kos_pair_accept_iff`). -/
theorem C15_kos_distinct_sound (X : Label → Nat → Label) (R0 R1 SS : Nat → Nat → Byte) (delta : Label)
    (hb : BaseOK R0 R1 SS delta) (rs : RecvSt) (ss : SendSt) (hs : InStep rs ss) (b : Array Bool)
    (b0 b1 seed2 : Label) (E1 E2 moreD : List Bytes) (moreL : List Label)
    (h1 : Shape (receive R0 R1 rs b).2.2 E1)
    (h2 : Shape (receive R0 R1 (receive R0 R1 rs b).1 (bcvOf b0 b1)).2.2 E2)
    (hchi : distinctNZ (X seed2) (b.size + 256) = true)
    (r r' i : Nat) (hr : r < b.size + 256) (hr' : r' < b.size + 256) (hi : i < 128)
    (hsel : labelBit delta i = true) (ps : List Pos)
    (hps : ps = [(r, i)] ∨ (r ≠ r' ∧ ps = [(r, i), (r', i)]))
    (hE : ∀ q, q < b.size + 256 → errRow b.size E1 E2 q = posRow ps q) :
    sendKos X SS delta ss b.size
        (xorMsgs (receive R0 R1 rs b).2.2 E1 ++
          (xorMsgs (receive R0 R1 (receive R0 R1 rs b).1 (bcvOf b0 b1)).2.2 E2 ++ moreD))
        ((receiveKos X R0 R1 rs b b0 b1 seed2).resp ++ moreL) = none := by
  obtain ⟨hnz, hdist⟩ := distinctNZ_spec _ _ hchi
  rcases hps with e | ⟨hne, e⟩
  · subst e
    obtain ⟨ss', sent, _, _, _, hrun⟩ := C15_kos_set_accept_iff X R0 R1 SS delta hb rs ss hs b b0 b1 seed2 E1 E2 moreD
      h1 h2 [(r, i)] (by intro p hp; simp at hp; subst hp; exact hi) hE
    rw [hrun moreL]
    have hsum : posSum (X seed2) delta (b.size + 256) [(r, i)] = mul128 (X seed2 r) (bitLabel i) := by
      simp only [posSum, List.foldr, hr, hsel, and_self, if_true, zero_pxor]
    rw [hsum, if_neg (mul128_ne_zero _ _ (hnz r hr) (bitLabel_ne_zero i hi))]
  · subst e
    have h := C15_kos_pair_accept_iff X R0 R1 SS delta hb rs ss hs b b0 b1 seed2 E1 E2 moreD moreL h1 h2 r r' i hr hr' hi
      hsel hE
    cases hres : sendKos X SS delta ss b.size
        (xorMsgs (receive R0 R1 rs b).2.2 E1 ++
          (xorMsgs (receive R0 R1 (receive R0 R1 rs b).1 (bcvOf b0 b1)).2.2 E2 ++ moreD))
        ((receiveKos X R0 R1 rs b b0 b1 seed2).resp ++ moreL) with
    | none => rfl
    | some o =>
      rw [hres] at h
      exact absurd (h.mp rfl) (hdist r r' hr hr' hne)

/-- Non-vacuity: a coefficient vector with `distinctNZ` over `2 + 256` rows, and one without. -/
example : distinctNZ (fun r => BitVec.ofNat 128 (r + 1)) (2 + 256) = true := by decide +kernel
example : distinctNZ (fun _ => 5#128) 2 = false := by decide

/-- The property's conclusion for alterations of ONE or TWO positions of one
column (any column, selected or not; any rows of payload and check batch;
response intact), given that the session's coefficients are non-zero and
pairwise distinct: the sender never silently accepts an inconsistent state —
whenever `Send(n, true)` returns, its outputs satisfy the correlation for the
receiver's original choices.  (PARTIAL with respect to the full statement: three
and more rows are covered only by `C15_kos_set_accept_iff`, see the header.) -/
theorem C15_kos_never_silent_two_positions (X : Label → Nat → Label) (R0 R1 SS : Nat → Nat → Byte) (delta : Label)
    (hb : BaseOK R0 R1 SS delta) (rs : RecvSt) (ss : SendSt) (hs : InStep rs ss) (b : Array Bool)
    (b0 b1 seed2 : Label) (E1 E2 moreD : List Bytes) (moreL : List Label)
    (h1 : Shape (receive R0 R1 rs b).2.2 E1)
    (h2 : Shape (receive R0 R1 (receive R0 R1 rs b).1 (bcvOf b0 b1)).2.2 E2)
    (hchi : distinctNZ (X seed2) (b.size + 256) = true)
    (r r' i : Nat) (hr : r < b.size + 256) (hr' : r' < b.size + 256) (hi : i < 128) (ps : List Pos)
    (hps : ps = [(r, i)] ∨ (r ≠ r' ∧ ps = [(r, i), (r', i)]))
    (hE : ∀ q, q < b.size + 256 → errRow b.size E1 E2 q = posRow ps q)
    (out : SendOut)
    (hacc : sendKos X SS delta ss b.size
        (xorMsgs (receive R0 R1 rs b).2.2 E1 ++
          (xorMsgs (receive R0 R1 (receive R0 R1 rs b).1 (bcvOf b0 b1)).2.2 E2 ++ moreD))
        ((receiveKos X R0 R1 rs b b0 b1 seed2).resp ++ moreL) = some out) :
    out.labels.length = b.size ∧
    ∀ k, k < b.size →
      (receiveKos X R0 R1 rs b b0 b1 seed2).labels.getD k 0#128 =
        out.labels.getD k 0#128 ^^^ (if b.getD k false then delta else 0#128) := by
  by_cases hsel : labelBit delta i = true
  · have := C15_kos_distinct_sound X R0 R1 SS delta hb rs ss hs b b0 b1 seed2 E1 E2 moreD moreL h1 h2 hchi r r' i hr hr' hi
      hsel ps hps hE
    rw [this] at hacc
    cases hacc
  · have hz : bitLabel i &&& delta = 0#128 := by rw [bitLabel_and _ _ hi, if_neg hsel]
    have hall : ∀ q, q < b.size + 256 → errRow b.size E1 E2 q &&& delta = 0#128 := by
      intro q hq
      rw [hE q hq]
      rcases hps with e | ⟨_, e⟩ <;> subst e
      · by_cases a : r = q <;> simp [posRow, a, hz]
      · by_cases a : r = q <;> by_cases c : r' = q <;> simp [posRow, a, c, hz]
    obtain ⟨_, ss', sent, hrun, hlen, hcorr⟩ :=
      C15_kos_unselected_harmless X R0 R1 SS delta hb rs ss hs b b0 b1 seed2 E1 E2 moreD moreL h1 h2 hall
    rw [hrun] at hacc
    cases hacc
    exact ⟨hlen, hcorr⟩

/-- Non-vacuity: the hypotheses are those of `C15_kos_distinct_sound` without the selection of the column. -/
example : ([(0, 0), (1, 0)] : List Pos) = [(0, 0)] ∨ ((0 : Nat) ≠ 1 ∧ ([(0, 0), (1, 0)] : List Pos) = [(0, 0), (1, 0)]) :=
  Or.inr ⟨by decide, rfl⟩

/-- Negation witness for the full statement with the response INTACT: for any
set `S` of rows whose coefficients XOR to zero and any column `i`, flipping
column `i` at every row of `S` is accepted — whatever `Delta` is — and if
`Delta` selects the column, every payload row of `S` ends with outputs that
violate the correlation.  Two rows with equal coefficients are the case
`S = [r, r']`.  Such a set always exists among any 129 rows (128-bit
coefficients), and whoever knows `seed2` (the receiver chooses it; it is on the
wire before the response) finds one by Gaussian elimination; the harness does
so for every session and replays the alteration on the real sender. -/
theorem C15_kos_dependent_rows_forgery_witness (X : Label → Nat → Label) (R0 R1 SS : Nat → Nat → Byte) (delta : Label)
    (hb : BaseOK R0 R1 SS delta) (rs : RecvSt) (ss : SendSt) (hs : InStep rs ss) (b : Array Bool)
    (b0 b1 seed2 : Label) (E1 E2 moreD : List Bytes) (moreL : List Label)
    (h1 : Shape (receive R0 R1 rs b).2.2 E1)
    (h2 : Shape (receive R0 R1 (receive R0 R1 rs b).1 (bcvOf b0 b1)).2.2 E2)
    (S : List Nat) (i : Nat) (hnd : S.Nodup) (hS : ∀ r, r ∈ S → r < b.size + 256) (hi : i < 128)
    (hdep : rowXor (X seed2) S = 0#128)
    (hE : ∀ q, q < b.size + 256 → errRow b.size E1 E2 q = posRow (colAt S i) q) :
    ∃ out : SendOut,
      sendKos X SS delta ss b.size
          (xorMsgs (receive R0 R1 rs b).2.2 E1 ++
            (xorMsgs (receive R0 R1 (receive R0 R1 rs b).1 (bcvOf b0 b1)).2.2 E2 ++ moreD))
          ((receiveKos X R0 R1 rs b b0 b1 seed2).resp ++ moreL) = some out ∧
      (labelBit delta i = true → ∀ r, r ∈ S → r < b.size →
        (receiveKos X R0 R1 rs b b0 b1 seed2).labels.getD r 0#128 ≠
          out.labels.getD r 0#128 ^^^ (if b.getD r false then delta else 0#128)) := by
  obtain ⟨ss', sent, _, _, hcorr, hrun⟩ := C15_kos_set_accept_iff X R0 R1 SS delta hb rs ss hs b b0 b1 seed2 E1 E2 moreD
    h1 h2 (colAt S i) (by intro p hp; simp only [colAt, List.mem_map] at hp; obtain ⟨_, _, rfl⟩ := hp; exact hi) hE
  have hz : posSum (X seed2) delta (b.size + 256) (colAt S i) = pzero := by
    rw [posSum_colAt _ _ _ _ _ hS, hdep, mul128_zero_left]
    simp
  refine ⟨{ st := ss', labels := sent, restData := moreD, restLabels := moreL }, ?_, ?_⟩
  · rw [hrun moreL, if_pos hz]
  · intro hsel r hr hlt h
    have := hcorr r hlt
    rw [h, posRow_colAt_mem _ _ _ hnd hr, bitLabel_and _ _ hi, if_pos hsel] at this
    exact bitLabel_ne_zero i hi (xor_err_zero _ _ this)

/-- Non-vacuity: two rows with equal coefficients. -/
example : colAt [0, 1] 0 = [(0, 0), (1, 0)] ∧ [0, 1].Nodup ∧ rowXor (fun _ => 5#128) [0, 1] = 0#128 ∧
    (∀ r, r ∈ [0, 1] → r < 2 + 256) := by decide

/-- The receiver's checksum `x` (the second label it sends) is the XOR of the
coefficients of the rows whose choice bit is set — payload choices and the
random choices `(b0, b1)` of the check batch.  Hence a call whose only set
choice bit is that of row `r0` sends `x = χ_r0`: the harness recovers every
coefficient of a session from the REAL receiver by `n + 256` such probe calls
(same seed), and compares them with the model's. -/
theorem C15_kos_probe_recovers_chi (X : Label → Nat → Label) (R0 R1 SS : Nat → Nat → Byte) (delta : Label)
    (hb : BaseOK R0 R1 SS delta) (rs : RecvSt) (ss : SendSt) (hs : InStep rs ss) (b : Array Bool)
    (b0 b1 seed2 : Label) :
    (receiveKos X R0 R1 rs b b0 b1 seed2).x =
      (lsum (b.size + 256) fun r => if choiceAt b b0 b1 r = true then X seed2 r else 0#128) ∧
    ∀ r0, r0 < b.size + 256 → (∀ r, r < b.size + 256 → choiceAt b b0 b1 r = decide (r = r0)) →
      (receiveKos X R0 R1 rs b b0 b1 seed2).x = X seed2 r0 :=
  ⟨receiveKos_x X R0 R1 SS delta hb rs ss hs b b0 b1 seed2,
   fun r0 hr0 hu => receiveKos_x_unit X R0 R1 SS delta hb rs ss hs b b0 b1 seed2 r0 hr0 hu⟩

/-- Non-vacuity: the choices `[false, true]` with zero check-batch choices have row 1 as their only set bit. -/
example : ∀ r, r < 2 + 256 → choiceAt #[false, true] 0#128 0#128 r = decide (r = 1) := by
  intro r hr
  by_cases h : r < 2
  · have : r = 0 ∨ r = 1 := by omega
    rcases this with e | e <;> subst e <;> decide
  · have hne : r ≠ 1 := by omega
    simp [choiceAt, h, hne, bcvOf, Array.getD, mk, labelBit]

end Mpc

/-
C01  Garbled evaluation equals plain evaluation for every circuit.

Property theorems only; helper lemmas are in Proofs/Garble.lean.
Quantification: every hash-function pair `H` (hence every AES key of every
size, AES being one particular function), every offset `r` with the select
bit set (Garble forces it with `SetS(true)`), every choice `inl` of input
zero-labels (all label randomness, hence every combination of
point-and-permute bits), every well-formed circuit, every input.
-/
import MpcVerif.Proofs.Garble
import MpcVerif.Model.LabelBV

namespace Mpc
open LabelAlg

variable {L : Type} [LabelAlg L]

theorem get_range_map {α : Type} [Inhabited α] (n : Nat) (f : Nat → α) (i : Nat) (h : i < n) :
    Store.get ((Array.range n).map f) i = f i := by
  simp [Store.get, Array.getD, h]

/-- Main statement.  For a well-formed circuit the evaluator takes no error
branch and on every defined wire `w` (inputs and all gate outputs, hence all
output wires) the garbler's pair satisfies `l1 = l0 ⊕ r` and the evaluated
label is the label of the bit that plain gate-by-gate evaluation gives. -/
theorem C01_garbled_eq_plain (H : Hash L) (c : Circuit) (r : L) (hr : sbit r = true)
    (inl : Nat → L) (x : List Bool) (hwf : c.WF = true) :
    ∃ out, c.evalGarbled H (c.garble H r inl).rows (encodeInputs c (c.garble H r inl) x) = .ok out ∧
      ∀ w, c.defined w = true →
        ((c.garble H r inl).wires.get w).l1 = ((c.garble H r inl).wires.get w).l0 ^^^ r ∧
        out.get w = ((c.garble H r inl).wires.get w).labelFor ((c.plainEval x).get w) := by
  simp only [Circuit.WF, Bool.and_eq_true, decide_eq_true_eq, List.all_eq_true] at hwf
  obtain ⟨⟨⟨hnin, _⟩, hwfg⟩, hnoin⟩ := hwf
  -- initial garbler store
  let ws0 : Store (WireL L) :=
    (Array.range c.numWires).map fun i =>
      if i < c.nIn then ⟨inl i, inl i ^^^ r⟩ else default
  have hG : c.garble H r inl =
      { r := r, wires := (garbleGates H r c.gates ws0 0).1,
        rows := (garbleGates H r c.gates ws0 0).2.2 } := rfl
  -- input wires keep their pairs
  have hin : ∀ i, i < c.nIn → (c.garble H r inl).wires.get i = ⟨inl i, inl i ^^^ r⟩ := by
    intro i hi
    rw [hG]
    simp only
    rw [garbleGates_frame H r c.gates i ws0 0
      (fun g hg => by have := hnoin g hg; omega)]
    rw [get_range_map _ _ _ (by omega)]
    simp [hi]
  have hinv0 : Inv r c.inputDefined ws0 (encodeInputs c (c.garble H r inl) x)
      (initStore c.numWires false (x.take c.nIn)) := by
    intro w hw
    simp only [Circuit.inputDefined, decide_eq_true_eq] at hw
    have hwn : w < c.numWires := by omega
    simp only [encodeInputs, initStore]
    rw [get_range_map _ _ _ hwn, get_range_map _ _ _ hwn, get_range_map _ _ _ hwn, hin w hw]
    simp only [hw, if_true, Rel, WireL.labelFor, true_and]
    have : (List.take c.nIn x).getD w false = x.getD w false := by
      simp [List.getD, hw]
    rw [this]
  obtain ⟨ew', hev, _, hinv⟩ := gates_lockstep H r hr c.numWires c.gates c.inputDefined ws0
    (encodeInputs c (c.garble H r inl) x) (initStore c.numWires false (x.take c.nIn)) 0
    (by simp [ws0]) (by simp [encodeInputs]) (by simp [initStore]) hwfg hinv0
  refine ⟨ew', ?_, ?_⟩
  · simp only [Circuit.evalGarbled]
    rw [hG] at hev
    rw [hG]
    simp only
    rw [hev]
  · intro w hw
    have := hinv w hw
    rw [hG]
    exact this

/-- Every evaluated label on a defined wire is one of that wire's two labels
and the two are distinct. -/
theorem C01_label_is_one_of_two (H : Hash L) (c : Circuit) (r : L) (hr : sbit r = true)
    (inl : Nat → L) (x : List Bool) (hwf : c.WF = true) :
    ∃ out, c.evalGarbled H (c.garble H r inl).rows (encodeInputs c (c.garble H r inl) x) = .ok out ∧
      ∀ w, c.defined w = true →
        (out.get w = ((c.garble H r inl).wires.get w).l0 ∨
         out.get w = ((c.garble H r inl).wires.get w).l1) ∧
        ((c.garble H r inl).wires.get w).l0 ≠ ((c.garble H r inl).wires.get w).l1 := by
  obtain ⟨out, h1, h2⟩ := C01_garbled_eq_plain H c r hr inl x hwf
  refine ⟨out, h1, fun w hw => ?_⟩
  obtain ⟨ha, hb⟩ := h2 w hw
  constructor
  · rw [hb]; unfold WireL.labelFor; cases (c.plainEval x).get w <;> simp
  · intro heq
    rw [ha] at heq
    have : ((c.garble H r inl).wires.get w).l0 ^^^ (((c.garble H r inl).wires.get w).l0 ^^^ r)
        = (LabelAlg.zero : L) := by rw [← heq]; simp
    rw [xor_xor_cancel_left] at this
    exact ne_zero_of_sbit r hr this

/-- `BitFromLabel` on the evaluated label of any defined wire never fails and
returns exactly the plain-evaluation bit. -/
theorem C01_decode [DecidableEq L] (H : Hash L) (c : Circuit) (r : L) (hr : sbit r = true)
    (inl : Nat → L) (x : List Bool) (hwf : c.WF = true) :
    ∃ out, c.evalGarbled H (c.garble H r inl).rows (encodeInputs c (c.garble H r inl) x) = .ok out ∧
      ∀ w, c.defined w = true →
        ((c.garble H r inl).wires.get w).bitFrom (out.get w) = some ((c.plainEval x).get w) := by
  obtain ⟨out, h1, h2⟩ := C01_garbled_eq_plain H c r hr inl x hwf
  obtain ⟨_, _, h3⟩ := C01_label_is_one_of_two H c r hr inl x hwf
  refine ⟨out, h1, fun w hw => ?_⟩
  obtain ⟨_, hb⟩ := h2 w hw
  have hne := (h3 w hw).2
  rw [hb]
  unfold WireL.bitFrom WireL.labelFor
  cases (c.plainEval x).get w
  · simp
  · simp [Ne.symm hne]

/-- The output bits the library's plain evaluator returns are the plain
gate-by-gate values of the output wires (the last `nOut` wires), which by
`C01_decode` are the bits the garbled evaluation decodes to. -/
theorem C01_compute_eq_plain (c : Circuit) (x : List Bool) (i : Nat) (hi : i < c.nOut) :
    (c.compute x)[i]? = some ((c.plainEval x).get (c.numWires - c.nOut + i)) := by
  simp [Circuit.compute, Circuit.outputs, hi]

/-- Garbler and evaluator consume the same number of tweaks (the evaluator's
final counter equals the garbler's), whatever the gate mix. -/
theorem C01_tweaks_in_step (H : Hash L) (r : L) (gs : List Gate) (ws : Store (WireL L)) :
    (garbleGates H r gs ws 0).2.1 = (gs.map (fun g => g.op.tweaks)).sum := by
  simpa using garbleGates_id H r gs ws 0

/-- The theorem applies to the executed instance: `BitVec 128`, any block
function `π` (AES under any key of any size is one), `r` after `SetS(true)`. -/
theorem C01_concrete (π : BitVec 128 → BitVec 128) (c : Circuit) (r0 : BitVec 128)
    (inl : Nat → BitVec 128) (x : List Bool) (hwf : c.WF = true) :
    ∃ out, c.evalGarbled (hashOf π) (c.garble (hashOf π) (setS r0) inl).rows
        (encodeInputs c (c.garble (hashOf π) (setS r0) inl) x) = .ok out ∧
      ∀ w, c.defined w = true →
        ((c.garble (hashOf π) (setS r0) inl).wires.get w).bitFrom (out.get w) =
          some ((c.plainEval x).get w) :=
  C01_decode (hashOf π) c (setS r0) (setS_msb r0) inl x hwf

/-! Non-vacuity: a well-formed circuit that uses every gate kind, reuses a
wire as both inputs of one gate, and has fan-out. -/
def exampleCircuit : Circuit :=
  { numWires := 8, nIn := 2, nOut := 2,
    gates := [⟨.and, 0, 1, 2⟩, ⟨.or, 0, 2, 3⟩, ⟨.inv, 3, 0, 4⟩, ⟨.xor, 4, 4, 5⟩,
              ⟨.xnor, 5, 1, 6⟩, ⟨.and, 6, 6, 7⟩] }

example : exampleCircuit.WF = true := by decide
example : exampleCircuit.outputsDefined = true := by decide
example : exampleCircuit.compute [true, false] = [true, true] := by decide +kernel

end Mpc

/-
C01  Garbled evaluation equals plain evaluation for every circuit.

Property theorems only; helper lemmas are in Proofs/Garble.lean.
Quantification: every hash-function pair `H` (hence every AES key of every
size, AES being one particular function), every offset `r` with the select
bit set (Garble forces it with `SetS(true)`), every choice `inl` of input
zero-labels (all label randomness, hence every combination of
point-and-permute bits), every well-formed circuit, every input.
-/
import MpcVerif.Proofs.Garble
import MpcVerif.Proofs.GarbleBig
import MpcVerif.Proofs.GarbleTape
import MpcVerif.Model.LabelBV

namespace Mpc
open LabelAlg

variable {L : Type} [LabelAlg L]

theorem get_range_map {α : Type} [Inhabited α] (n : Nat) (f : Nat → α) (i : Nat) (h : i < n) :
    Store.get ((Array.range n).map f) i = f i := by
  simp [Store.get, Array.getD, h]

/-- Main statement.  For a well-formed circuit the evaluator takes no error
branch and on every defined wire `w` (inputs and all gate outputs, hence all
output wires) the garbler's pair satisfies `l1 = l0 ⊕ r` and the evaluated
label is the label of the bit that plain gate-by-gate evaluation gives. -/
theorem C01_garbled_eq_plain (H : Hash L) (c : Circuit) (r : L) (hr : sbit r = true)
    (inl : Nat → L) (x : List Bool) (hwf : c.WF = true) :
    ∃ out, c.evalGarbled H (c.garble H r inl).rows (encodeInputs c (c.garble H r inl) x) = .ok out ∧
      ∀ w, c.defined w = true →
        ((c.garble H r inl).wires.get w).l1 = ((c.garble H r inl).wires.get w).l0 ^^^ r ∧
        out.get w = ((c.garble H r inl).wires.get w).labelFor ((c.plainEval x).get w) := by
  simp only [Circuit.WF, Bool.and_eq_true, decide_eq_true_eq, List.all_eq_true] at hwf
  obtain ⟨⟨⟨hnin, _⟩, hwfg⟩, hnoin⟩ := hwf
  -- initial garbler store
  let ws0 : Store (WireL L) :=
    (Array.range c.numWires).map fun i =>
      if i < c.nIn then ⟨inl i, inl i ^^^ r⟩ else default
  have hG : c.garble H r inl =
      { r := r, wires := (garbleGates H r c.gates ws0 0).1,
        rows := (garbleGates H r c.gates ws0 0).2.2 } := rfl
  -- input wires keep their pairs
  have hin : ∀ i, i < c.nIn → (c.garble H r inl).wires.get i = ⟨inl i, inl i ^^^ r⟩ := by
    intro i hi
    rw [hG]
    simp only
    rw [garbleGates_frame H r c.gates i ws0 0
      (fun g hg => by have := hnoin g hg; omega)]
    rw [get_range_map _ _ _ (by omega)]
    simp [hi]
  have hinv0 : Inv r c.inputDefined ws0 (encodeInputs c (c.garble H r inl) x)
      (initStore c.numWires false (x.take c.nIn)) := by
    intro w hw
    simp only [Circuit.inputDefined, decide_eq_true_eq] at hw
    have hwn : w < c.numWires := by omega
    simp only [encodeInputs, initStore]
    rw [get_range_map _ _ _ hwn, get_range_map _ _ _ hwn, get_range_map _ _ _ hwn, hin w hw]
    simp only [hw, if_true, Rel, WireL.labelFor, true_and]
    have : (List.take c.nIn x).getD w false = x.getD w false := by
      simp [List.getD, hw]
    rw [this]
  obtain ⟨ew', hev, _, hinv⟩ := gates_lockstep H r hr c.numWires c.gates c.inputDefined ws0
    (encodeInputs c (c.garble H r inl) x) (initStore c.numWires false (x.take c.nIn)) 0
    (by simp [ws0]) (by simp [encodeInputs]) (by simp [initStore]) hwfg hinv0
  refine ⟨ew', ?_, ?_⟩
  · simp only [Circuit.evalGarbled]
    rw [hG] at hev
    rw [hG]
    simp only
    rw [hev]
  · intro w hw
    have := hinv w hw
    rw [hG]
    exact this

/-- Every evaluated label on a defined wire is one of that wire's two labels
and the two are distinct. -/
theorem C01_label_is_one_of_two (H : Hash L) (c : Circuit) (r : L) (hr : sbit r = true)
    (inl : Nat → L) (x : List Bool) (hwf : c.WF = true) :
    ∃ out, c.evalGarbled H (c.garble H r inl).rows (encodeInputs c (c.garble H r inl) x) = .ok out ∧
      ∀ w, c.defined w = true →
        (out.get w = ((c.garble H r inl).wires.get w).l0 ∨
         out.get w = ((c.garble H r inl).wires.get w).l1) ∧
        ((c.garble H r inl).wires.get w).l0 ≠ ((c.garble H r inl).wires.get w).l1 := by
  obtain ⟨out, h1, h2⟩ := C01_garbled_eq_plain H c r hr inl x hwf
  refine ⟨out, h1, fun w hw => ?_⟩
  obtain ⟨ha, hb⟩ := h2 w hw
  constructor
  · rw [hb]; unfold WireL.labelFor; cases (c.plainEval x).get w <;> simp
  · intro heq
    rw [ha] at heq
    have : ((c.garble H r inl).wires.get w).l0 ^^^ (((c.garble H r inl).wires.get w).l0 ^^^ r)
        = (LabelAlg.zero : L) := by rw [← heq]; simp
    rw [xor_xor_cancel_left] at this
    exact ne_zero_of_sbit r hr this

/-- `BitFromLabel` on the evaluated label of any defined wire never fails and
returns exactly the plain-evaluation bit. -/
theorem C01_decode [DecidableEq L] (H : Hash L) (c : Circuit) (r : L) (hr : sbit r = true)
    (inl : Nat → L) (x : List Bool) (hwf : c.WF = true) :
    ∃ out, c.evalGarbled H (c.garble H r inl).rows (encodeInputs c (c.garble H r inl) x) = .ok out ∧
      ∀ w, c.defined w = true →
        ((c.garble H r inl).wires.get w).bitFrom (out.get w) = some ((c.plainEval x).get w) := by
  obtain ⟨out, h1, h2⟩ := C01_garbled_eq_plain H c r hr inl x hwf
  obtain ⟨_, _, h3⟩ := C01_label_is_one_of_two H c r hr inl x hwf
  refine ⟨out, h1, fun w hw => ?_⟩
  obtain ⟨_, hb⟩ := h2 w hw
  have hne := (h3 w hw).2
  rw [hb]
  unfold WireL.bitFrom WireL.labelFor
  cases (c.plainEval x).get w
  · simp
  · simp [Ne.symm hne]

/-- The output bits the library's plain evaluator returns are the plain
gate-by-gate values of the output wires (the last `nOut` wires), which by
`C01_decode` are the bits the garbled evaluation decodes to. -/
theorem C01_compute_eq_plain (c : Circuit) (x : List Bool) (i : Nat) (hi : i < c.nOut) :
    (c.compute x)[i]? = some ((c.plainEval x).get (c.numWires - c.nOut + i)) := by
  simp [Circuit.compute, Circuit.outputs, hi]

/-- Garbler and evaluator consume the same number of tweaks (the evaluator's
final counter equals the garbler's), whatever the gate mix. -/
theorem C01_tweaks_in_step (H : Hash L) (r : L) (gs : List Gate) (ws : Store (WireL L)) :
    (garbleGates H r gs ws 0).2.1 = (gs.map (fun g => g.op.tweaks)).sum := by
  simpa using garbleGates_id H r gs ws 0

/-- The theorem applies to the executed instance: `BitVec 128`, any block
function `π` (AES under any key of any size is one), `r` after `SetS(true)`. -/
theorem C01_concrete (π : BitVec 128 → BitVec 128) (c : Circuit) (r0 : BitVec 128)
    (inl : Nat → BitVec 128) (x : List Bool) (hwf : c.WF = true) :
    ∃ out, c.evalGarbled (hashOf π) (c.garble (hashOf π) (setS r0) inl).rows
        (encodeInputs c (c.garble (hashOf π) (setS r0) inl) x) = .ok out ∧
      ∀ w, c.defined w = true →
        ((c.garble (hashOf π) (setS r0) inl).wires.get w).bitFrom (out.get w) =
          some ((c.plainEval x).get w) :=
  C01_decode (hashOf π) c (setS r0) (setS_msb r0) inl x hwf

/-! Non-vacuity: a well-formed circuit that uses every gate kind, reuses a
wire as both inputs of one gate, and has fan-out. -/
def exampleCircuit : Circuit :=
  { numWires := 8, nIn := 2, nOut := 2,
    gates := [⟨.and, 0, 1, 2⟩, ⟨.or, 0, 2, 3⟩, ⟨.inv, 3, 0, 4⟩, ⟨.xor, 4, 4, 5⟩,
              ⟨.xnor, 5, 1, 6⟩, ⟨.and, 6, 6, 7⟩] }

example : exampleCircuit.WF = true := by decide
example : exampleCircuit.outputsDefined = true := by decide
example : exampleCircuit.compute [true, false] = [true, true] := by decide +kernel


/-! ## The boundaries of "every circuit"

The theorems above hold for every circuit: no size occurs in them.  The code
has sizes: the `[4]ot.Label` stack table and its `(start, count)` slice, the
table slab (`garbleScratchPool`: 2 labels per AND, 3 per OR, 1 per INV) with
its running offset, the wire slice, the `uint32` tweak counter.  This section
states, for every circuit, where the list model meets those buffers and
counters (Model/GarbleBig.lean), and that the constant-stack loops which the
driver executes on circuits with 2^16 .. 2^22 table labels / gates / wires are
the model.  A non-vacuity example by `decide +kernel` is not possible at 10^6
gates; the examples below are small, and the executed instances at 2^16 and
2^20 (one below / on / one above, all gate kinds before and after the boundary)
are run by the compiled driver against the real code on every check
(harness/cmd/c01/ext.go). -/

/-- The loops the driver executes on big circuits are the model: the
tail-recursive gate loop, the array-based input encoding and plain evaluation. -/
theorem C01_driver_paths (H : Hash L) (c : Circuit) (r : L) (inl : Nat → L) (x : List Bool) :
    c.garbleTR H r inl = c.garble H r inl ∧
    encodeInputsFast c (c.garble H r inl) x = encodeInputs c (c.garble H r inl) x ∧
    c.computeFast x = c.compute x :=
  ⟨garbleTR_eq c H r inl, encodeInputsFast_eq c _ x, computeFast_eq c x⟩

example : exampleCircuit.computeFast [true, false] = [true, true] := by decide +kernel

/-- The rows of a gate are the slice `table[start : start+count]` of the stack
table that `garbleInto` fills, with `start = 1` for the row-reduced OR / INV
tables, whose slot 0 - the row that is not transmitted - is all zero. -/
theorem C01_rows_are_table_slice (H : Hash L) (r : L) (op : Op) (a b : WireL L) (id : Nat) :
    (garbleCore H r op a b id).2 = tabSlice (garbleSlots H r op a b id) op.start op.rows ∧
    ((op = .or ∨ op = .inv) → garbleSlots H r op a b id 0 = (LabelAlg.zero : L)) :=
  ⟨garbleCore_rows_slice H r op a b id, garbleSlots_row0_zero H r op a b id⟩

example : Op.or.start = 1 ∧ Op.or.rows = 3 ∧ Op.inv.start = 1 ∧ Op.inv.rows = 1 ∧
    Op.and.start = 0 ∧ Op.and.rows = 2 := by decide

/-- The table slab: for every circuit the gate loop writes exactly `slabSize`
labels (no overflow, no unused tail), gate `i` owns the view
`slab[slabOff i : slabOff i + rows(op i)]`, the views follow one another, and
reading a view back gives the gate's table - wherever in the slab it lies. -/
theorem C01_slab_exact (H : Hash L) (c : Circuit) (r : L) (inl : Nat → L) :
    (c.garble H r inl).slab.length = slabSize c.gates ∧
    slabOff c.gates c.gates.length = slabSize c.gates ∧
    ∀ i (h : i < c.gates.length),
      slabOff c.gates (i + 1) = slabOff c.gates i + (c.gates[i]).op.rows ∧
      (c.garble H r inl).rows[i]? =
        some (slabView (c.garble H r inl).slab (slabOff c.gates i) (c.gates[i]).op.rows) := by
  refine ⟨garble_slab_length c H r inl, slabOff_length c.gates, fun i h => ⟨slabOff_succ c.gates i h, ?_⟩⟩
  rw [garble_slab_view c H r inl i h]
  exact List.getElem?_eq_getElem _

example : slabSize exampleCircuit.gates = 8 ∧ slabOff exampleCircuit.gates 2 = 5 := by decide

/-- Structural self-check of a garbling: the number of transmitted rows per
gate kind (and hence their total) is fixed by the circuit alone. -/
theorem C01_rows_per_kind (H : Hash L) (c : Circuit) (r : L) (inl : Nat → L) (k : Op) :
    rowsOfKind k c.gates (c.garble H r inl).rows = rowsOfKindSpec k c.gates ∧
    rowsOfKindSpec .and c.gates + rowsOfKindSpec .or c.gates + rowsOfKindSpec .inv c.gates +
      rowsOfKindSpec .xor c.gates + rowsOfKindSpec .xnor c.gates = slabSize c.gates := by
  refine ⟨?_, rowsOfKindSpec_total c.gates⟩
  simp only [Circuit.garble]
  exact rowsOfKind_garbleGates k H r c.gates _ 0

example : rowsOfKindSpec .and exampleCircuit.gates = 4 ∧ rowsOfKindSpec .or exampleCircuit.gates = 3 ∧
    rowsOfKindSpec .inv exampleCircuit.gates = 1 ∧ rowsOfKindSpec .xor exampleCircuit.gates = 0 := by decide

/-- The tweak counter.  The model counts tweaks in `Nat`, the code in a
`uint32`: at every gate of every circuit the `uint32` counter is the `Nat`
counter mod 2^32, and as long as the circuit consumes fewer than 2^32 tweaks
(fewer than 2^31 AND gates) the two are equal at every gate. -/
theorem C01_tweak_counter_u32 (gs : List Gate) :
    (∀ i, tweaksU32 (gs.take i) 0 = tweakTotal (gs.take i) % 2 ^ 32) ∧
    (tweakTotal gs < 2 ^ 32 → ∀ i, tweaksU32 (gs.take i) 0 = tweakTotal (gs.take i)) := by
  constructor
  · intro i
    simpa using tweaksU32_mod (gs.take i) 0
  · intro h i
    have := tweakTotal_take_le gs i
    exact (tweaksU32_exact (gs.take i) 0 (by omega)).trans (by simp)

example : tweakTotal exampleCircuit.gates = 6 ∧ tweaksU32 exampleCircuit.gates 0 = 6 := by decide

/-- The executed hash functions see the counter only mod 2^32 (`ot.NewTweak`
takes a `uint32`), so garbling with the `Nat` counter is garbling with the
wrapping counter of the code, for every circuit. -/
theorem C01_tweak_hash_mod (π : BitVec 128 → BitVec 128) (x a b : BitVec 128) (t : Nat) :
    (hashOf π).h1 x (t % 2 ^ 32) = (hashOf π).h1 x t ∧
    (hashOf π).h2 a b (t % 2 ^ 32) = (hashOf π).h2 a b t := by
  simp [hashOf, makeKHalf, makeK, tweak]

theorem tweakTotal_replicate_and (n : Nat) (a b o : Nat) :
    tweakTotal (List.replicate n ⟨.and, a, b, o⟩) = 2 * n := by
  induction n with
  | zero => simp [tweakTotal]
  | succ n ih =>
    simp only [tweakTotal, List.replicate_succ, List.map_cons, List.sum_cons] at ih ⊢
    rw [ih]
    simp only [Op.tweaks]
    omega

theorem tweaksU32_replicate_and (n : Nat) (a b o : Nat) :
    tweaksU32 (List.replicate n ⟨.and, a, b, o⟩) 0 = (2 * n) % 2 ^ 32 := by
  have := tweaksU32_mod (List.replicate n ⟨.and, a, b, o⟩) 0
  rw [tweakTotal_replicate_and] at this
  simpa using this

/-- Witness for the bound: two gates 2^32 tweaks apart share their tweak (the
hash inputs coincide), and after `n = 2^31` AND gates the `uint32` counter is
back at 0 while the `Nat` counter is 2^32.  Correctness (C01) does not depend
on tweaks being distinct - the theorems hold for every `H` - but this is the
size at which the model's counter and the code's counter part. -/
theorem C01_tweak_wrap_shares (π : BitVec 128 → BitVec 128) (x a b : BitVec 128) (t : Nat) :
    (hashOf π).h1 x (t + 2 ^ 32) = (hashOf π).h1 x t ∧
    (hashOf π).h2 a b (t + 2 ^ 32) = (hashOf π).h2 a b t ∧
    ∃ n, tweaksU32 (List.replicate n ⟨.and, 0, 1, 2⟩) 0 = 0 ∧
      tweakTotal (List.replicate n ⟨.and, 0, 1, 2⟩) = 2 ^ 32 := by
  refine ⟨?_, ?_, 2 ^ 31, ?_, ?_⟩
  · simp [hashOf, makeKHalf, tweak]
  · simp [hashOf, makeK, tweak]
  · rw [tweaksU32_replicate_and]
  · rw [tweakTotal_replicate_and]

example : tweaksU32 (List.replicate 3 ⟨.and, 0, 1, 2⟩) 0 = 6 := by decide

/-- Local characterisation of a garbling (the tie at sizes where garbling the
whole circuit in the model does not fit the budget): in a circuit in which
every gate writes a fresh wire, the output pair and the table of gate `i` of
ANY garbling are `garbleCore` on the final pairs of the gate's input wires,
with the tweak the counter has when the loop reaches the gate.  The harness
samples gates of the real garbling (around every buffer boundary) and the
driver recomputes exactly this step. -/
theorem C01_garble_local (H : Hash L) (c : Circuit) (r : L) (inl : Nat → L)
    (hsa : c.singleAssign) (i : Nat) (h : i < c.gates.length) :
    c.localStep H r (c.garble H r inl).wires i =
      ((c.garble H r inl).wires.get (c.gates[i]).out, (c.garble H r inl).rows[i]?.getD []) ∧
    (tweakPrefix c.gates).getD i 0 = tweakTotal (c.gates.take i) :=
  ⟨garble_local c H r inl hsa i h, tweakPrefix_getD c.gates i h⟩

instance (c : Circuit) : Decidable c.singleAssign := by
  unfold Circuit.singleAssign; infer_instance

example : exampleCircuit.singleAssign := by decide
example : tweakPrefix exampleCircuit.gates = #[0, 2, 3, 4, 4, 4] := by decide +kernel

/-! ## The input width: every input wire gets its pair from the random stream

`Circuit.Garble` draws `R` and one zero-label per input wire from ONE stream
(Model/GarbleTape.lean): slot 0 is `R`, slot `i + 1` belongs to input wire `i`.
The theorems of the first section take `r` and `inl` as given; this section
states, for EVERY input width, that the garbling from a stream assigns every
input wire - the last one as well as the first - the pair `(slot, slot ⊕ R)`,
that the stream must hold `1 + nIn` labels and no more are looked at, and that
the number of labels fetched per read does not matter.  The harness runs
circuits whose input width sits one below / on / one above every multiple of
256 up to 4096 (thorough: of 128 up to 8192, and 2^13 .. 2^17, 2^20) and around
every integer constant found in the garbling code path, in which every input
wire reaches the outputs; it checks `l1 = l0 ⊕ R` on every wire of the real
`Garbled` value and ties the wire pairs to `garbleSlotsTR` byte for byte. -/

/-- Every input wire is assigned, by construction: for every well-formed
circuit of any input width and every stream holding at least `1 + nIn` labels,
`Garble` succeeds, `R` is slot 0 after `SetS(true)`, and input wire `i` carries
exactly the pair `(slot (i+1), slot (i+1) ⊕ R)`. -/
theorem C01_every_input_wire_assigned (H : Hash L) (c : Circuit) (fixS : L → L) (tape : List L)
    (hwf : c.WF = true) (hlen : 1 + c.nIn ≤ tape.length) :
    ∃ G, c.garbleTape H fixS tape = some G ∧ G.r = fixS (tape[0]'(by omega)) ∧
      ∀ i (hi : i < c.nIn), G.wires.get i = ⟨tape[i + 1]'(by omega), tape[i + 1]'(by omega) ^^^ G.r⟩ := by
  refine ⟨c.garbleSlots H fixS (fun k => tape.getD k default), ?_, ?_, ?_⟩
  · exact garbleTape_some c H fixS tape hlen
  · have h0 : 0 < tape.length := by omega
    simp [Circuit.garbleSlots, Circuit.garble, List.getD, h0]
  · intro i hi
    have hi1 : i + 1 < tape.length := by omega
    have h0 : 0 < tape.length := by omega
    have hr : (c.garbleSlots H fixS (fun k => tape.getD k default)).r = fixS (tape.getD 0 default) := by
      simp [Circuit.garbleSlots, Circuit.garble]
    rw [hr]
    simp only [Circuit.garbleSlots]
    rw [garble_input_wires H c _ _ hwf i hi]
    simp [List.getD, hi1, h0]

example : exampleCircuit.WF = true ∧ 1 + exampleCircuit.nIn ≤ [1#128, 2#128, 3#128].length := by decide

/-- With the select bit of `R` forced (`SetS(true)`), the two labels of every
input wire differ and are `R` apart - in particular no input wire is left with
the all-zero pair of a fresh buffer or with a pair that belongs to another `R`. -/
theorem C01_input_pairs_offset (H : Hash L) (c : Circuit) (fixS : L → L) (hfix : ∀ x, sbit (fixS x) = true)
    (tape : List L) (hwf : c.WF = true) (hlen : 1 + c.nIn ≤ tape.length) :
    ∃ G, c.garbleTape H fixS tape = some G ∧ sbit G.r = true ∧
      ∀ i, i < c.nIn → (G.wires.get i).l1 = (G.wires.get i).l0 ^^^ G.r ∧
        (G.wires.get i).l0 ≠ (G.wires.get i).l1 ∧
        ¬ ((G.wires.get i).l0 = LabelAlg.zero ∧ (G.wires.get i).l1 = LabelAlg.zero) := by
  obtain ⟨G, hG, hr, hw⟩ := C01_every_input_wire_assigned H c fixS tape hwf hlen
  have hs : sbit G.r = true := by rw [hr]; exact hfix _
  refine ⟨G, hG, hs, fun i hi => ?_⟩
  rw [hw i hi]
  have hne : tape[i + 1]'(by omega) ≠ tape[i + 1]'(by omega) ^^^ G.r := by
    intro heq
    have : tape[i + 1]'(by omega) ^^^ (tape[i + 1]'(by omega) ^^^ G.r) = (LabelAlg.zero : L) := by
      rw [← heq]; simp
    rw [xor_xor_cancel_left] at this
    exact ne_zero_of_sbit G.r hs this
  refine ⟨rfl, hne, fun hz => ?_⟩
  exact hne (hz.1.trans hz.2.symm)

example : ∀ x : BitVec 128, sbit (setS x) = true := setS_msb

/-- A stream shorter than `1 + nIn` labels makes `Garble` fail (no partly
assigned garbling is returned), whatever the input width. -/
theorem C01_short_stream_fails (H : Hash L) (c : Circuit) (fixS : L → L) (tape : List L)
    (hshort : tape.length < 1 + c.nIn) : c.garbleTape H fixS tape = none :=
  garbleTape_none c H fixS tape hshort

example : [1#128, 2#128].length < 1 + exampleCircuit.nIn := by decide

/-- The batch size of the reads is irrelevant: a garbler that fetches its
`1 + nIn` labels in batches of at most `b` labels per read (any `b > 0`, any
input width - in particular widths that are a multiple of `b`, one below, one
above) obtains the first `1 + nIn` labels of the stream and hence the same
garbling as the garbler that reads one label at a time. -/
theorem C01_batch_size_irrelevant (H : Hash L) (c : Circuit) (fixS : L → L) (tape : List L)
    (b : Nat) (hb : 0 < b) (hlen : 1 + c.nIn ≤ tape.length) :
    drawBatched b c.slotsUsed tape = tape.take (1 + c.nIn) ∧
    c.garbleTape H fixS (drawBatched b c.slotsUsed tape) = c.garbleTape H fixS tape := by
  have hd : drawBatched b c.slotsUsed tape = tape.take (1 + c.nIn) := by
    rw [drawBatched_eq_take b hb]; rfl
  refine ⟨hd, ?_⟩
  rw [hd, garbleTape_some c H fixS tape hlen,
    garbleTape_some c H fixS _ (by rw [List.length_take]; omega)]
  congr 1
  apply garbleSlots_congr
  intro k hk
  exact getD_take_lt tape _ k default hk

example : drawBatched 2 5 [1, 2, 3, 4, 5, 6, 7] = [1, 2, 3, 4, 5] ∧ drawBatched 4 4 [1, 2, 3, 4, 5] = [1, 2, 3, 4] ∧
    drawBatched 4 5 [1, 2, 3, 4, 5, 6] = [1, 2, 3, 4, 5] := by decide

/-- The slot-based garbling the driver executes (constant-stack gate loop) is
the model, for every circuit and stream. -/
theorem C01_driver_slots (H : Hash L) (c : Circuit) (fixS : L → L) (slot : Nat → L) :
    c.garbleSlotsTR H fixS slot = c.garbleSlots H fixS slot ∧
    (c.garbleSlots H fixS slot).r = fixS (slot 0) :=
  ⟨garbleSlotsTR_eq c H fixS slot, rfl⟩

example : (exampleCircuit.garbleSlotsTR (hashOf id) setS (fun k => BitVec.ofNat 128 k)).r = setS 0#128 := by
  rw [(C01_driver_slots _ _ _ _).1, (C01_driver_slots _ _ _ _).2]

end Mpc

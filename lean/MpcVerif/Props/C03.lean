/-
Property C03 — the compiled circuit computes what the MPCL program means.

Level: translation validation.  A verified MPCL compiler is out of reach; what
Lean carries is the ORACLE: the reference interpreter `Mpcl.run`
(`Model/Mpcl.lean`), against which the real `compiler.Compile` +
`circuit.Compute` are compared on every generated program and input
(checks/C03.py).  The theorems below make that oracle trustworthy:

* every operator of the interpreter is exactly the `BitVec` operation of the
  declared width (wrapping arithmetic; signed `/` = `BitVec.sdiv`, i.e.
  truncation toward zero; signed `%` = `|a| umod |b|` as fixed by
  testsuite/lang/modi.mpcl; arithmetic `>>` on intN; signed/unsigned
  comparisons; casts = truncate / zero-extend / sign-extend);
* early-return elimination and loop unrolling hold in the semantics;
* the `@Test` vectors of the shipped lang programs hold in the model;
* the model's value on the witnesses of the known deviations of the pinned
  compiler (replayed on the real compiler by `c03 witness`).

Full statement (NOT proved, validated differentially):
  ∀ program P in the subset, ∀ input x,
    circuit.Compute (compiler.Compile (print P)) x = Mpcl.runRaw P fuel main x.
-/
import MpcVerif.Proofs.Mpcl
import MpcVerif.Proofs.MpclSsa

namespace Mpc
open Mpcl

/-! ### Operators are BitVec operators of the declared width -/

theorem C03_sem_add_eq_bv (s : Bool) {w : Nat} (x y : BitVec w) :
    binop .add (bv s x) (bv s y) = some (bv s (x + y)) := by
  simp [binop, arith, bv, wrap, BitVec.toNat_add]

example : binop .add (bv false (200#8)) (bv false (100#8)) = some (bv false (44#8)) := rfl

theorem C03_sem_sub_eq_bv (s : Bool) {w : Nat} (x y : BitVec w) :
    binop .sub (bv s x) (bv s y) = some (bv s (x - y)) := by
  simp [binop, arith, bv, wrap, BitVec.toNat_sub]

example : binop .sub (bv false (0#8)) (bv false (1#8)) = some (bv false (255#8)) := rfl

theorem C03_sem_mul_eq_bv (s : Bool) {w : Nat} (x y : BitVec w) :
    binop .mul (bv s x) (bv s y) = some (bv s (x * y)) := by
  simp [binop, arith, bv, wrap, BitVec.toNat_mul]

example : binop .mul (bv true (16#8)) (bv true (17#8)) = some (bv true (16#8)) := rfl

theorem C03_sem_and_eq_bv (s : Bool) {w : Nat} (x y : BitVec w) :
    binop .band (bv s x) (bv s y) = some (bv s (x &&& y)) := by
  simp [binop, arith, bv]

theorem C03_sem_or_eq_bv (s : Bool) {w : Nat} (x y : BitVec w) :
    binop .bor (bv s x) (bv s y) = some (bv s (x ||| y)) := by
  simp [binop, arith, bv]

theorem C03_sem_xor_eq_bv (s : Bool) {w : Nat} (x y : BitVec w) :
    binop .bxor (bv s x) (bv s y) = some (bv s (x ^^^ y)) := by
  simp [binop, arith, bv]

theorem C03_sem_andnot_eq_bv (s : Bool) {w : Nat} (x y : BitVec w) :
    binop .bclr (bv s x) (bv s y) = some (bv s (x &&& ~~~y)) := by
  simp [binop, arith, bv, BitVec.toNat_not]

example : binop .bclr (bv false (0xff#8)) (bv false (0x0f#8)) = some (bv false (0xf0#8)) := rfl

/-- Unsigned `/`: floor division (the divisor is non-zero: the generator only
emits divisors of the form `e | 1`, non-zero literals; the interpreter answers
`none` on a zero divisor). -/
theorem C03_sem_udiv_eq_bv {w : Nat} (x y : BitVec w) (hy : y ≠ 0#w) :
    binop .div (bv false x) (bv false y) = some (bv false (x / y)) := by
  have : y.toNat ≠ 0 := fun h => hy (BitVec.eq_of_toNat_eq (by simpa using h))
  simp [binop, arith, bv, this, BitVec.toNat_udiv]

example : (42#64 : BitVec 64) ≠ 0#64 := by decide

theorem C03_sem_umod_eq_bv {w : Nat} (x y : BitVec w) (hy : y ≠ 0#w) :
    binop .mod (bv false x) (bv false y) = some (bv false (x % y)) := by
  have : y.toNat ≠ 0 := fun h => hy (BitVec.eq_of_toNat_eq (by simpa using h))
  simp [binop, arith, bv, this, BitVec.toNat_umod]

/-- Signed `/` is `BitVec.sdiv`. -/
theorem C03_sem_sdiv_eq_bv {w : Nat} (x y : BitVec w) (hy : y ≠ 0#w) :
    binop .div (bv true x) (bv true y) = some (bv true (x.sdiv y)) := by
  have : y.toNat ≠ 0 := fun h => hy (BitVec.eq_of_toNat_eq (by simpa using h))
  simp [binop, arith, bv, this, toInt_toNat, ofInt_eq, sdiv_eq_ofInt]

/-- Signed `%` is `|a| umod |b|` (modi.mpcl: `-42 % 4 = 2`, `42 % -4 = 2`;
not Go's remainder). -/
theorem C03_sem_smod_eq_bv_abs {w : Nat} (x y : BitVec w) (hy : y ≠ 0#w) :
    binop .mod (bv true x) (bv true y) = some (bv true (x.abs % y.abs)) := by
  have : y.toNat ≠ 0 := fun h => hy (BitVec.eq_of_toNat_eq (by simpa using h))
  have hlt : x.abs.toNat % y.abs.toNat < 2 ^ w :=
    Nat.lt_of_le_of_lt (Nat.mod_le _ _) x.abs.isLt
  simp only [BitVec.toNat_abs] at hlt
  simp [binop, arith, bv, this, toInt_toNat, natAbs_toInt, wrap, BitVec.toNat_umod]
  exact Nat.mod_eq_of_lt hlt

example : binop .mod (bv true (BitVec.ofInt 64 (-42))) (bv true (4#64)) = some (bv true (2#64)) := rfl

/-- Signed `/` truncates toward zero: read as integers, the quotient is
`Int.tdiv` (reduced into the `w`-bit range, which only matters for
`min / -1`). -/
theorem C03_sem_sdiv_trunc_toward_zero {w : Nat} (x y : BitVec w) (hy : y ≠ 0#w) :
    ∃ q : BitVec w, binop .div (bv true x) (bv true y) = some (bv true q) ∧
      q.toInt = (x.toInt.tdiv y.toInt).bmod (2 ^ w) :=
  ⟨x.sdiv y, C03_sem_sdiv_eq_bv x y hy, BitVec.toInt_sdiv x y⟩

example : ((BitVec.ofInt 8 (-43)).sdiv (4#8)).toInt = -10 := by decide

theorem C03_sem_neg_eq_bv (s : Bool) {w : Nat} (x : BitVec w) :
    negVal (bv s x) = some (bv s (-x)) := by
  simp [negVal, bv, wrap, BitVec.toNat_neg]

theorem C03_sem_shl_eq_bv (s : Bool) {w : Nat} (x : BitVec w) (k : Nat) :
    shiftVal true (bv s x) k = some (bv s (x <<< k)) := by
  simp [shiftVal, bv, wrap, BitVec.toNat_shiftLeft]

example : shiftVal true (bv false (32#64)) 64 = some (bv false (0#64)) := rfl

theorem C03_sem_ushr_eq_bv {w : Nat} (x : BitVec w) (k : Nat) :
    shiftVal false (bv false x) k = some (bv false (x >>> k)) := by
  simp [shiftVal, bv, BitVec.toNat_ushiftRight]

/-- `>>` on intN is the arithmetic shift (sign fill), for every shift count. -/
theorem C03_sem_sshr_eq_bv {w : Nat} (x : BitVec w) (k : Nat) :
    shiftVal false (bv true x) k = some (bv true (x.sshiftRight k)) := by
  simp [shiftVal, bv, toInt_toNat, ofInt_eq, BitVec.sshiftRight]

example : shiftVal false (bv true (0xf0#8)) 9 = some (bv true (0xff#8)) := rfl

theorem C03_sem_ult_eq_bv {w : Nat} (x y : BitVec w) :
    binop .lt (bv false x) (bv false y) = some (.bool (x.ult y)) := by
  simp [binop, arith, bv, BitVec.ult]

theorem C03_sem_ule_eq_bv {w : Nat} (x y : BitVec w) :
    binop .le (bv false x) (bv false y) = some (.bool (x.ule y)) := by
  simp [binop, arith, bv, BitVec.ule]

theorem C03_sem_slt_eq_bv {w : Nat} (x y : BitVec w) :
    binop .lt (bv true x) (bv true y) = some (.bool (x.slt y)) := by
  simp [binop, arith, bv, toInt_toNat, BitVec.slt]

theorem C03_sem_sle_eq_bv {w : Nat} (x y : BitVec w) :
    binop .le (bv true x) (bv true y) = some (.bool (x.sle y)) := by
  simp [binop, arith, bv, toInt_toNat, BitVec.sle]

example : binop .lt (bv true (0xf0#8)) (bv true (3#8)) = some (.bool true) := rfl
example : binop .lt (bv false (0xf0#8)) (bv false (3#8)) = some (.bool false) := rfl

theorem C03_sem_eq_eq_bv (s : Bool) {w : Nat} (x y : BitVec w) :
    binop .eq (bv s x) (bv s y) = some (.bool (x == y)) := by
  simp [binop, arith, bv]
  rw [Bool.eq_iff_iff]
  simp [BitVec.toNat_inj]

/-! ### Casts -/

/-- Narrowing (or same width) truncates, whatever the signedness. -/
theorem C03_cast_trunc_eq_bv (s s' : Bool) {w : Nat} (x : BitVec w) (w' : Nat) (h : w' ≤ w) :
    castNum s w x.toNat s' w' = bv s' (x.setWidth w') := by
  simp [castNum, bv, h, wrap, BitVec.toNat_setWidth]

/-- Widening an unsigned value zero-extends. -/
theorem C03_cast_zext_eq_bv (s' : Bool) {w : Nat} (x : BitVec w) (w' : Nat) (h : w < w') :
    castNum false w x.toNat s' w' = bv s' (x.setWidth w') := by
  have h1 : ¬ w' ≤ w := by omega
  have h2 : x.toNat < 2 ^ w' :=
    Nat.lt_of_lt_of_le x.isLt (Nat.pow_le_pow_right (by decide) (by omega))
  simp [castNum, bv, h1, BitVec.toNat_setWidth, Nat.mod_eq_of_lt h2]

/-- Widening a signed value sign-extends. -/
theorem C03_cast_sext_eq_bv (s' : Bool) {w : Nat} (x : BitVec w) (w' : Nat) (h : w < w') :
    castNum true w x.toNat s' w' = bv s' (x.signExtend w') := by
  have h1 : ¬ w' ≤ w := by omega
  simp [castNum, bv, h1, toInt_toNat, ofInt_eq, BitVec.signExtend]

example : castVal (.int 16) (bv true (0xf0#8)) = some (bv true (0xfff0#16)) := rfl
example : castVal (.uint 16) (bv false (0xf0#8)) = some (bv false (0x00f0#16)) := rfl
example : castVal (.uint 4) (bv true (0xf5#8)) = some (bv false (0x5#4)) := rfl

/-- Widen, then narrow back: the identity (for both signednesses, through
any intermediate signedness). -/
theorem C03_cast_widen_then_narrow (s t : Bool) {w : Nat} (x : BitVec w) (w' : Nat) (h : w ≤ w') :
    (castVal (if t then .int w' else .uint w') (bv s x)).bind
      (castVal (if s then .int w else .uint w)) = some (bv s x) := by
  have hx := x.isLt
  have hp : 2 ^ w ≤ 2 ^ w' := Nat.pow_le_pow_right (by decide) h
  by_cases hw : w' ≤ w
  · have : w' = w := by omega
    subst this
    cases s <;> cases t <;> simp [castVal, castNum, bv, wrap, Nat.mod_eq_of_lt hx]
  · have hse := signExtend_toNat_mod x h
    cases s <;> cases t <;>
      simp [castVal, castNum, bv, wrap, hw, h, Nat.mod_eq_of_lt hx, toInt_toNat, ofInt_eq]
    · exact hse
    · exact hse

theorem C03_cast_same_width (s t : Bool) {w : Nat} (x : BitVec w) :
    castNum s w x.toNat t w = bv t x := by
  simp [castNum, bv, wrap, Nat.mod_eq_of_lt x.isLt]

/-! ### Well-formedness: results stay inside the declared width -/

/-- Every arithmetic result is a `w`-bit pattern again (so "wrapping modulo
2^N" is an invariant of the interpreter, not an assumption). -/
theorem C03_binop_wf (op : BinOp) (s : Bool) (w a b : Nat) (ha : a < 2 ^ w) (hb : b < 2 ^ w)
    (s' : Bool) (w' r : Nat) (h : arith op s w a b = some (.num s' w' r)) : w' = w ∧ r < 2 ^ w := by
  have hpos : 0 < 2 ^ w := Nat.pos_of_ne_zero (by simp)
  have hofInt : ∀ i : Int, ofInt w i < 2 ^ w := fun i => by
    rw [ofInt_eq]; exact (BitVec.ofInt w i).isLt
  cases op <;> simp only [arith] at h
  case add => cases h; exact ⟨rfl, Nat.mod_lt _ hpos⟩
  case sub => cases h; exact ⟨rfl, Nat.mod_lt _ hpos⟩
  case mul => cases h; exact ⟨rfl, Nat.mod_lt _ hpos⟩
  case div =>
    split at h
    · cases h
    · cases h
      refine ⟨rfl, ?_⟩
      split
      · exact hofInt _
      · exact Nat.lt_of_le_of_lt (Nat.div_le_self _ _) ha
  case mod =>
    split at h
    · cases h
    · cases h
      refine ⟨rfl, ?_⟩
      split
      · exact Nat.mod_lt _ hpos
      · exact Nat.lt_of_le_of_lt (Nat.mod_le _ _) ha
  case band => cases h; exact ⟨rfl, Nat.lt_of_le_of_lt Nat.and_le_left ha⟩
  case bor => cases h; exact ⟨rfl, Nat.or_lt_two_pow ha hb⟩
  case bxor => cases h; exact ⟨rfl, Nat.xor_lt_two_pow ha hb⟩
  case bclr => cases h; exact ⟨rfl, Nat.lt_of_le_of_lt Nat.and_le_left ha⟩
  all_goals cases h

example : arith .mul false 8 200 200 = some (.num false 8 64) := rfl

/-! ### `&&` / `||` -/

/-- `a && b` is `false` as soon as `a` is, also where `b` is undefined (Go
short circuit; in the circuit both sides are always computed, which cannot be
observed because expressions have no side effects). -/
theorem C03_land_short_circuit (P : Prog) (f : Nat) (a b : Expr) (env : Env)
    (ha : evalE P f a env = some (.bool false)) :
    evalE P (f + 1) (.bin .land a b) env = some (.bool false) := by
  simp [evalE, ha, binE]

example : evalE [] 3 (.bin .land (.lit .bool 0) (.bin .div (.lit (.uint 8) 1) (.lit (.uint 8) 0))) [] =
    some (.bool false) := rfl

/-! ### Early-return elimination -/

/-- `if c { return a }; return b` returns `a` if `c` holds and `b` otherwise —
the multiplexer the compiler builds (ssa.Block.ReturnBinding).  The fuel
offsets are the exact consumption of the three sub-evaluations. -/
theorem C03_early_return_elim (P : Prog) (j : Nat) (c a b : Expr) (env : Env) (cv : Bool) (va vb : Val)
    (hc : evalE P (j + 3) c env = some (.bool cv))
    (ha : evalE P (j + 1) a ([] :: env) = some va)
    (hb : evalE P (j + 2) b env = some vb) :
    execB P (j + 5) [.ifte c [.ret [a]] [], .ret [b]] env =
      some (.returned [if cv then va else vb]) := by
  cases cv <;> simp [execB, execS, hc, ha, hb, Outcome.pop, List.mapM_cons, List.mapM_nil]

/-- ... and it is the same as `if c { return a } else { return b }`. -/
theorem C03_early_return_eq_if_else (P : Prog) (j : Nat) (c a b : Expr) (env : Env) (cv : Bool) (va vb : Val)
    (hc : evalE P (j + 3) c env = some (.bool cv))
    (ha : evalE P (j + 1) a ([] :: env) = some va)
    (hb : evalE P (j + 2) b env = some vb)
    (hb' : evalE P (j + 1) b ([] :: env) = some vb) :
    execB P (j + 5) [.ifte c [.ret [a]] [], .ret [b]] env =
      execB P (j + 5) [.ifte c [.ret [a]] [.ret [b]]] env := by
  cases cv <;> simp [execB, execS, hc, ha, hb, hb', Outcome.pop, List.mapM_cons, List.mapM_nil]

/-! ### Loop unrolling -/

/-- One unrolling step: `for` = body with the loop constant bound, then the
rest of the loop. -/
theorem C03_for_unroll_step (P : Prog) (f : Nat) (i : String) (cur hi st : Int) (c : Cmp)
    (body : List Stmt) (env env' : Env) (hcond : c.holds cur hi = true)
    (hbody : execB P f body ([(i, loopVal cur)] :: env) = some (.normal env')) :
    execFor P (f + 1) i cur c hi st body env = execFor P f i (cur + st) c hi st body env'.tail := by
  simp [execFor, hcond, hbody]

theorem C03_for_unroll_done (P : Prog) (f : Nat) (i : String) (cur hi st : Int) (c : Cmp)
    (body : List Stmt) (env : Env) (hcond : c.holds cur hi = false) :
    execFor P (f + 1) i cur c hi st body env = some (.normal env) := by
  simp [execFor, hcond]

/-- Loop unrolling for EVERY trip count `n`.  `Trip c hi st lo n` is the
(decidable) statement that `for i := lo; i <c> hi; i += st` makes exactly `n`
iterations; `iterBody` is the `n`-fold sequential composition
`body[i:=lo]; body[i:=lo+st]; ...; body[i:=lo+(n-1)st]` (each copy in a fresh
scope holding the loop constant, a `return` in a copy ends it).  If the
composition is defined with fuel `f`, the `for` statement yields the same
outcome; the loop itself consumes `n + 2` further units.  Proof: induction on
`n`, using fuel monotonicity (`Proofs/Mpcl.lean` `for_unroll`). -/
theorem C03_for_unroll (P : Prog) (f n : Nat) (i : String) (c : Cmp) (lo hi st : Int) (body : List Stmt)
    (env : Env) (o : Outcome) (ht : Trip c hi st lo n = true)
    (h : iterBody P f i st body lo n env = some o) :
    execS P (f + n + 2) (.for i lo c hi st body) env = some o := by
  have e : f + n + 2 = (f + n + 1) + 1 := by omega
  rw [e]
  simp only [execS]
  exact for_unroll P f i c hi st body n lo env o ht h

/-- Converse: whatever the `for` statement yields with some fuel is what the
`n`-fold composition yields with that fuel; so for all sufficiently large fuel
the two are EQUAL (both are monotone in the fuel). -/
theorem C03_for_unroll_conv (P : Prog) (f n : Nat) (i : String) (c : Cmp) (lo hi st : Int) (body : List Stmt)
    (env : Env) (o : Outcome) (ht : Trip c hi st lo n = true)
    (h : execS P (f + 1) (.for i lo c hi st body) env = some o) :
    iterBody P f i st body lo n env = some o := by
  simp only [execS] at h
  exact for_unroll_conv P i c hi st body n f lo env o ht h

/-! Non-vacuity of the statement-level theorems: concrete instances. -/

/-- `if a > b { return a }; return b` (max of two uint8) at 7, 9 and 9, 7. -/
def exMax : List Stmt :=
  [.ifte (.bin .gt (.var "a") (.var "b")) [.ret [.var "a"]] [], .ret [.var "b"]]

example : execB [] 8 exMax [[("a", bv false (7#8)), ("b", bv false (9#8))]] =
    some (.returned [bv false (9#8)]) :=
  C03_early_return_elim [] 3 _ _ _ _ false (bv false (7#8)) (bv false (9#8)) rfl rfl rfl

example : execB [] 8 exMax [[("a", bv false (9#8)), ("b", bv false (7#8))]] =
    some (.returned [bv false (9#8)]) :=
  C03_early_return_elim [] 3 _ _ _ _ true (bv false (9#8)) (bv false (7#8)) rfl rfl rfl

/-- `for i := 0; i < 3; i++ { s = s + i }` from s = 10 gives 13. -/
def exBody : List Stmt := [.assign [⟨"s", []⟩] (.bin .add (.var "s") (.var "i"))]

/-- The loop of testsuite/lang/for.mpcl: 5 iterations, then a downward loop
`for i := 7; i >= 2; i -= 3` (2 iterations: 7, 4). -/
example : Trip .lt 5 1 0 5 = true := by decide
example : Trip .ge 2 (-3) 7 2 = true := by decide

example : execS [] 17 (.for "i" 0 .lt 5 1 exBody) [[("s", bv true (0#32))]] =
    some (.normal [[("s", bv true (10#32))]]) :=
  C03_for_unroll [] 10 5 "i" .lt 0 5 1 exBody _ _ (by decide) rfl

example : iterBody [] 16 "i" 1 exBody 0 5 [[("s", bv true (0#32))]] =
    some (.normal [[("s", bv true (10#32))]]) :=
  C03_for_unroll_conv [] 16 5 "i" .lt 0 5 1 exBody _ _ (by decide) rfl

/-! ### The shipped `@Test` vectors hold in the model

Programs of /repo/testsuite/lang rendered in the reference syntax (the same
renderings are compared with the real compiler on the files themselves by
`c03 witness`); inputs and outputs as raw wire patterns. -/

def pBin (t : Ty) (e : Expr) : Prog := [⟨[("a", t), ("b", t)], 1, [.ret [e]]⟩]
def pDivi : Prog := pBin (.int 64) (.bin .div (.var "a") (.var "b"))
def pModi : Prog := pBin (.int 64) (.bin .mod (.var "a") (.var "b"))
def pDivu : Prog := pBin (.uint 64) (.bin .div (.var "a") (.var "b"))
def pModu : Prog := pBin (.uint 64) (.bin .mod (.var "a") (.var "b"))
def pSub : Prog := pBin (.uint 64) (.bin .sub (.var "a") (.var "b"))
def pMult : Prog := pBin (.uint 64) (.bin .mul (.var "a") (.var "b"))
def pLsh64 : Prog := pBin (.uint 64) (.shift true (.var "a") 64)
def pRsh64 : Prog := pBin (.uint 64) (.shift false (.var "a") 64)
def pRsh1 : Prog := pBin (.uint 64) (.shift false (.var "a") 1)
def pGe : Prog := pBin (.uint 16) (.bin .ge (.var "a") (.var "b"))
def pLt : Prog := pBin (.uint 16) (.bin .lt (.var "a") (.var "b"))

/-- testsuite/lang/for.mpcl -/
def pFor : Prog := [⟨[("a", .uint 8), ("b", .uint 8)], 1,
  [.decl "sum" (.int 32) (some (.lit (.int 32) 0)),
   .for "i" 0 .lt 5 1 [.assign [⟨"sum", []⟩] (.bin .add (.var "sum") (.var "i"))],
   .ret [.var "sum"]]⟩]

/-- testsuite/lang/array.mpcl -/
def pArray : Prog := [⟨[("a", .int 32), ("b", .int 32)], 1,
  [.decl "arr" (.arr 10 (.int 32)) none,
   .for "i" 0 .lt 10 1 [.assign [⟨"arr", [.idx (.var "i")]⟩] (.var "i")],
   .decl "sum" (.int 32) none,
   .for "i" 0 .lt 10 1 [.assign [⟨"sum", []⟩] (.bin .add (.var "sum") (.idx (.var "arr") (.var "i")))],
   .ret [.bin .add (.var "sum") (.var "b")]]⟩]

/-- testsuite/lang/assign2.mpcl (function 0 = minMax, 1 = main) -/
def pAssign2 : Prog :=
  [⟨[("a", .int 32), ("b", .int 32)], 2,
    [.ifte (.bin .lt (.var "a") (.var "b")) [.ret [.var "a", .var "b"]] [.ret [.var "b", .var "a"]]]⟩,
   ⟨[("a", .int 32), ("b", .int 32)], 2,
    [.define ["min", "max"] (.call 0 [.var "a", .var "b"]), .ret [.var "min", .var "max"]]⟩]

/-- testsuite/lang/named_return2.mpcl (function 0 = sum, 1 = main) -/
def pNamed2 : Prog :=
  [⟨[("a", .int 32), ("b", .int 32)], 3,
    [.decl "h0" (.int 32) none, .decl "h1" (.int 32) none, .decl "h2" (.int 32) none,
     .assign [⟨"h0", []⟩] (.bin .add (.var "a") (.var "b")),
     .assign [⟨"h1", []⟩] (.var "a"), .assign [⟨"h2", []⟩] (.var "b"),
     .ret [.var "h0", .var "h1", .var "h2"]]⟩,
   ⟨[("a", .int 32), ("b", .int 32)], 3, [.ret [.call 0 [.var "a", .var "b"]]]⟩]

/-- Signed 64-bit pattern of an integer. -/
def i64 (i : Int) : Nat := ofInt 64 i

theorem C03_shipped_vectors :
    -- divi.mpcl:  43 4 = 10;  -43 4 = -10;  43 -4 = -10;  -43 -4 = 10
    runRaw pDivi 9 0 [i64 43, i64 4] = some [(i64 10, 64)] ∧
    runRaw pDivi 9 0 [i64 (-43), i64 4] = some [(i64 (-10), 64)] ∧
    runRaw pDivi 9 0 [i64 43, i64 (-4)] = some [(i64 (-10), 64)] ∧
    runRaw pDivi 9 0 [i64 (-43), i64 (-4)] = some [(i64 10, 64)] ∧
    -- modi.mpcl:  42 1 = 0; 42 4 = 2; -42 4 = 2; 42 -4 = 2; -42 -4 = 2
    runRaw pModi 9 0 [i64 42, i64 1] = some [(0, 64)] ∧
    runRaw pModi 9 0 [i64 42, i64 4] = some [(2, 64)] ∧
    runRaw pModi 9 0 [i64 (-42), i64 4] = some [(2, 64)] ∧
    runRaw pModi 9 0 [i64 42, i64 (-4)] = some [(2, 64)] ∧
    runRaw pModi 9 0 [i64 (-42), i64 (-4)] = some [(2, 64)] ∧
    -- divu.mpcl / modu.mpcl (first, middle, last vector)
    runRaw pDivu 9 0 [42, 1] = some [(42, 64)] ∧
    runRaw pDivu 9 0 [42, 9] = some [(4, 64)] ∧
    runRaw pDivu 9 0 [42, 43] = some [(0, 64)] ∧
    runRaw pModu 9 0 [42, 40] = some [(2, 64)] ∧
    runRaw pModu 9 0 [42, 100] = some [(42, 64)] ∧
    -- sub.mpcl, mult.mpcl
    runRaw pSub 9 0 [1584886686, 1584886680] = some [(6, 64)] ∧
    runRaw pMult 9 0 [65536, 65536] = some [(4294967296, 64)] ∧
    runRaw pMult 9 0 [0xffff, 0xff] = some [(0xfeff01, 64)] ∧
    -- lshift64 / rshift64 / rshift1:  32 0 = 0, 0, 16
    runRaw pLsh64 9 0 [32, 0] = some [(0, 64)] ∧
    runRaw pRsh64 9 0 [32, 0] = some [(0, 64)] ∧
    runRaw pRsh1 9 0 [32, 0] = some [(16, 64)] ∧
    -- test_ge.mpcl, test_lt.mpcl
    runRaw pGe 9 0 [42, 0xffff] = some [(0, 1)] ∧
    runRaw pGe 9 0 [0xffff, 0xffff] = some [(1, 1)] ∧
    runRaw pLt 9 0 [42, 43] = some [(1, 1)] ∧
    runRaw pLt 9 0 [0xffff, 42] = some [(0, 1)] ∧
    -- for.mpcl:  0 0 = 10
    runRaw pFor 20 0 [0, 0] = some [(10, 32)] ∧
    -- array.mpcl:  0 0 = 45;  0 1 = 46
    runRaw pArray 40 0 [0, 0] = some [(45, 32)] ∧
    runRaw pArray 40 0 [0, 1] = some [(46, 32)] ∧
    -- assign2.mpcl:  1 7 = 1 7;  7 1 = 1 7
    runRaw pAssign2 20 1 [1, 7] = some [(1, 32), (7, 32)] ∧
    runRaw pAssign2 20 1 [7, 1] = some [(1, 32), (7, 32)] ∧
    -- named_return2.mpcl:  55 66 = 121 55 66
    runRaw pNamed2 20 1 [55, 66] = some [(121, 32), (55, 32), (66, 32)] := by
  refine ⟨?_, ?_, ?_, ?_, ?_, ?_, ?_, ?_, ?_, ?_, ?_, ?_, ?_, ?_, ?_, ?_, ?_, ?_, ?_, ?_, ?_, ?_, ?_, ?_,
    ?_, ?_, ?_, ?_, ?_, ?_⟩ <;> decide +kernel

/-! ### SSA level

`Model/MpclSsa.lean` `ssaEval` evaluates the real compiler's SSA step lists
(tied three-way, on every generated program and input, to the source
interpreter and to the compiled circuit by checks/C03.py).  On the fragment of
`Ssa.lower` - scalars, arrays, structs (also nested), inlined function calls
with several results - the two Lean semantics are PROVED to agree through the
Lean model `Ssa.lower` (`Model/MpclLower.lean`) of ssagen.go; `lower` itself is
run next to the REAL ssagen on every check (mode `c03 lower`, driver op `LOWER`). -/

open Mpc.Mpcl.Ssa in
/-- Full statement (not proved): for every program `p` of the subset and every
input `x`, `ssaEval (ssagen p) x = runRaw p x` where `ssagen` is the real
AST -> SSA translation.

Proved here: the same with `Ssa.lower`, the Lean model of ssagen.go, for every
program `P` with entry function `main` of the fragment

    types   T ::= bool | intN | uintN | [n]T | struct { T .. T }
    expr    e ::= x | n | true | false | i (loop constant) | T(n) | T(i)
                | e + e | e - e | e * e | e / e | e % e | e & e | e | e | e ^ e | e &^ e
                | e << k | e >> k | e < e | e <= e | e > e | e >= e | e == e | e != e
                | e && e | e || e | !e | -e | T(e)                   (scalar operands)
                | e[k]  (k a literal / loop constant, k < n: `slice`)
                | e[e'] (e' of type uintK, 2^K <= n: `index`)
                | e.f   (`slice` at the field offset)
                | f(e, .., e)                                         (one result)
    lval    l ::= x | l[k] | l.f                                      (`mov` / `amov`)
    stmt    s ::= var x T | var x T = e | x := e | l = e
                | x, .., y := f(e, .., e) | l, .., l = f(e, .., e)   (several results)
                | if e { s* } [else { s* }]      (also with `return` inside)
                | for i := lo; i <cmp> hi; i += st { s* }      (unrolled)
                | return e, .., e | return f(e, .., e)      (all results of f at once)
    func      ::= func(params) (results) { s* }     every path ends in `return`; named
                  results are `var r T` at the start of the body (zero-initialised)
    program   ::= func*   calls are INLINED (fresh value ids per activation, one `mov`
                  per parameter into a new scope, the callee's early returns merged by
                  phis along ITS branch structure); a call targets a function with a
                  smaller index, so recursion is outside (`lower` = none)

(`lower fuel P main = some ..` IS the fragment predicate; it is decidable and
contains the side conditions below), and every input:
  (1) if the SSA program evaluates — the only way it cannot is a division by
      zero in the straight-line code, on a taken or an untaken path, of `main`
      or of an inlined callee — the reference interpreter is defined and gives
      the same outputs;
  (2) without `/ %` in the program the SSA program always evaluates, so both
      semantics are defined and equal.
`/ %` therefore carry the guard "no zero divisor on any path" as the
hypothesis of (1) (the generator only emits divisors `e | 1` and non-zero
literals).

Side conditions inside `lower` (each excludes exactly one known deviation of
the real compiler from the reference semantics, /verif/known_findings.json):
  * `T(e)` from intN to a WIDER uintM is not in the fragment: the real `mov`
    zero-extends (C03-cast-int-to-wider-uint);
  * a literal at a signed type intN must be `< 2^(N-1)`, and a literal whose own
    32/64-bit constant has its top bit set may not be used at a wider signed
    type (`litOk`: literal signedness, C03-const-signed-widening);
  * in every function all declared names (parameters, `var`, `:=`, loop
    variables) are pairwise distinct and no `:=` occurs in a `for` body
    (`scopeOk`: MPCL's function-level scoping, C03-inner-block-redeclaration,
    C03-define-redeclared-rejected);
  * loop variables take values in `0 .. 2^31-1`; an `if` condition, the
    arguments of a call and at least one operand of every operator are not
    constants (constant folding is C12); a constant index is `< n` (the real
    compiler rejects the program otherwise) and a computed index has a type
    that cannot exceed the array (the reference semantics is undefined out of
    range, the `index` circuit answers 0).

Missing: `g(f(..))` passing SEVERAL results on as arguments, constant arguments
of calls, constant-only expressions (`a[i+1]`), `len`; `lower` creates the merge phis
eagerly where the real compiler creates them lazily at the first use and emits
one `amov` for a nested l-value where the real compiler emits slice + amov +
amov (same values; structural drift is reported by the tie as advisory), and it
is tied to the real ssagen differentially (every run), not by proof. -/
theorem C03_ssa_lower_correct_partial (fuel : Nat) (P : Prog) (main : Nat) (fn : Func) (hfn : P[main]? = some fn)
    (ins : List (Nat × Nat)) (steps : List SInstr)
    (h : lower fuel P main = some (ins, steps)) (args : List Nat) (hlen : args.length = fn.params.length) :
    (∀ res, ssaEval (Nat → Nat) ins steps args = some res → ∃ f, runRaw P f main args = some res) ∧
    (noDivP P = true →
      ∃ res, ssaEval (Nat → Nat) ins steps args = some res ∧ ∃ f, runRaw P f main args = some res) :=
  lower_correct_partial fuel P main fn hfn ins steps h args hlen

open Mpc.Mpcl.Ssa in
/-- The single-function instance (the statement of the first version of the theorem). -/
theorem C03_ssa_lower_correct_single (fuel : Nat) (fn : Func) (ins : List (Nat × Nat)) (steps : List SInstr)
    (h : lower fuel [fn] 0 = some (ins, steps)) (args : List Nat) (hlen : args.length = fn.params.length) :
    (∀ res, ssaEval (Nat → Nat) ins steps args = some res → ∃ f, runRaw [fn] f 0 args = some res) ∧
    (noDivB fn.body = true →
      ∃ res, ssaEval (Nat → Nat) ins steps args = some res ∧ ∃ f, runRaw [fn] f 0 args = some res) := by
  obtain ⟨h1, h2⟩ := lower_correct_partial fuel [fn] 0 fn rfl ins steps h args hlen
  exact ⟨h1, fun hnd => h2 (by simp [noDivP, hnd])⟩

/-! Non-vacuity: a concrete program of the fragment for every construct;
`lower` succeeds and both semantics are evaluated by the kernel. -/

/-- Both semantics on one input: `ssaEval (lower P main)` and `runRaw P main`. -/
def bothSemP (P : Prog) (main : Nat) (args : List Nat) : Option (List (Nat × Nat)) × Option (List (Nat × Nat)) :=
  ((Ssa.lower 60 P main).bind fun r => Ssa.ssaEval (Nat → Nat) r.1 r.2 args, runRaw P 80 main args)

/-- The same for a single function. -/
def bothSem (fn : Func) (args : List Nat) : Option (List (Nat × Nat)) × Option (List (Nat × Nat)) :=
  bothSemP [fn] 0 args

/-- `func(a int8, b uint4) (int8, uint4) { var x int8 = a + int8(b); x = x ^ a;
return x - a, uint4(x) & b }` (the straight-line fragment of the first version). -/
def exFrag : Func := ⟨[("a", .int 8), ("b", .uint 4)], 2,
  [.decl "x" (.int 8) (some (.bin .add (.var "a") (.cast (.int 8) (.var "b")))),
   .assign [⟨"x", []⟩] (.bin .bxor (.var "x") (.var "a")),
   .ret [.bin .sub (.var "x") (.var "a"), .bin .band (.cast (.uint 4) (.var "x")) (.var "b")]]⟩

/-- Literals and typed constants, `* &^`:
`func(a uint8, b int8) (uint8, int8, bool) { var x uint8 = 200; x = x + a * 3; return x &^ 15, b - 5, true }` -/
def exLit : Func := ⟨[("a", .uint 8), ("b", .int 8)], 3,
  [.decl "x" (.uint 8) (some (.lit (.uint 8) 200)),
   .assign [⟨"x", []⟩] (.bin .add (.var "x") (.bin .mul (.var "a") (.lit (.uint 8) 3))),
   .ret [.bin .bclr (.var "x") (.lit (.uint 8) 15), .bin .sub (.var "b") (.lit (.int 8) 5), .lit .bool 1]]⟩

/-- Comparisons (signed and unsigned), constant shifts, `&& || !`:
`func(a int8, b int8, c uint8) (bool, bool, int8, uint8, bool) {
  return a < b, uint8(a) < c, a >> 2, c << 3, !(a == b) && (c >= 16 || a != 0) }` -/
def exOps : Func := ⟨[("a", .int 8), ("b", .int 8), ("c", .uint 8)], 5,
  [.ret [.bin .lt (.var "a") (.var "b"), .bin .lt (.cast (.uint 8) (.var "a")) (.var "c"),
         .shift false (.var "a") 2, .shift true (.var "c") 3,
         .bin .land (.not (.bin .eq (.var "a") (.var "b")))
           (.bin .lor (.bin .ge (.var "c") (.lit (.uint 8) 16)) (.bin .ne (.var "a") (.lit (.int 8) 0)))]]⟩

/-- if / else over assignments (phi per assigned variable):
`func(a uint8, b uint8) (uint8, uint8) { var x uint8; var y uint8 = b;
  if a < b { x = a } else { x = b; y = y + 1 }; return x, y }` -/
def exIf : Func := ⟨[("a", .uint 8), ("b", .uint 8)], 2,
  [.decl "x" (.uint 8) none, .decl "y" (.uint 8) (some (.var "b")),
   .ifte (.bin .lt (.var "a") (.var "b")) [.assign [⟨"x", []⟩] (.var "a")]
     [.assign [⟨"x", []⟩] (.var "b"), .assign [⟨"y", []⟩] (.bin .add (.var "y") (.lit (.uint 8) 1))],
   .ret [.var "x", .var "y"]]⟩

/-- Early `return` inside `if`, nested (cf. `C03_early_return_elim`):
`func(a uint8, b bool) uint8 { if a > 10 { return a }; if a > 5 { if b { return 1 }; a = a + 1 }; return a * 2 }` -/
def exEarly : Func := ⟨[("a", .uint 8), ("b", .bool)], 1,
  [.ifte (.bin .gt (.var "a") (.lit (.uint 8) 10)) [.ret [.var "a"]] [],
   .ifte (.bin .gt (.var "a") (.lit (.uint 8) 5))
     [.ifte (.var "b") [.ret [.lit (.uint 8) 1]] [], .assign [⟨"a", []⟩] (.bin .add (.var "a") (.lit (.uint 8) 1))] [],
   .ret [.bin .mul (.var "a") (.lit (.uint 8) 2)]]⟩

/-- `for` with constant bounds, unrolled, loop constant as operand, `return` in the body (cf. `C03_for_unroll`):
`func(a uint8) uint8 { var s uint8; for i := 0; i < 4; i++ { s = s + a * uint8(i); if s > 100 { return s } };
  return s + 1 }` -/
def exFor : Func := ⟨[("a", .uint 8)], 1,
  [.decl "s" (.uint 8) none,
   .for "i" 0 .lt 4 1
     [.assign [⟨"s", []⟩] (.bin .add (.var "s") (.bin .mul (.var "a") (.cast (.uint 8) (.var "i")))),
      .ifte (.bin .gt (.var "s") (.lit (.uint 8) 100)) [.ret [.var "s"]] []],
   .ret [.bin .add (.var "s") (.lit (.uint 8) 1)]]⟩

/-- `/ %` with a non-zero divisor: `func(a int8, b int8) (int8, int8) { return a / (b | 1), a % (b | 1) }` -/
def exDiv : Func := ⟨[("a", .int 8), ("b", .int 8)], 2,
  [.ret [.bin .div (.var "a") (.bin .bor (.var "b") (.lit (.int 8) 1)),
         .bin .mod (.var "a") (.bin .bor (.var "b") (.lit (.int 8) 1))]]⟩

/-- Calls (inlined): early return in the callee, two results, named results, a call in an
expression and as an argument, `x, y := f(..)` and `a, y = f(..)`:
```
func f(p uint8, q uint8) (uint8, bool) { if p > q { return p - q, true }; return q - p, false }
func g(p uint8) (r uint8) { if p > 3 { r = p }; return }            // named result, zero-initialised
func main(a uint8, b uint8) (uint8, bool, uint8) {
  x, y := f(a, b); a, y = f(x, g(b)); return a, y, g(x) + x }
``` -/
def exCall : Prog :=
  [⟨[("p", .uint 8), ("q", .uint 8)], 2,
    [.ifte (.bin .gt (.var "p") (.var "q")) [.ret [.bin .sub (.var "p") (.var "q"), .lit .bool 1]] [],
     .ret [.bin .sub (.var "q") (.var "p"), .lit .bool 0]]⟩,
   ⟨[("p", .uint 8)], 1,
    [.decl "r" (.uint 8) none,
     .ifte (.bin .gt (.var "p") (.lit (.uint 8) 3)) [.assign [⟨"r", []⟩] (.var "p")] [],
     .ret [.var "r"]]⟩,
   ⟨[("a", .uint 8), ("b", .uint 8)], 3,
    [.define ["x", "y"] (.call 0 [.var "a", .var "b"]),
     .assign [⟨"a", []⟩, ⟨"y", []⟩] (.call 0 [.var "x", .call 1 [.var "b"]]),
     .ret [.var "a", .var "y", .bin .add (.call 1 [.var "x"]) (.var "x")]]⟩]

/-- `return f(..)` delivering both results of `f`:
`func main(a uint8, b uint8) (uint8, bool) { return f(b, a) }` with `f` of `exCall`. -/
def exRetCall : Prog :=
  [⟨[("p", .uint 8), ("q", .uint 8)], 2,
    [.ifte (.bin .gt (.var "p") (.var "q")) [.ret [.bin .sub (.var "p") (.var "q"), .lit .bool 1]] [],
     .ret [.bin .sub (.var "q") (.var "p"), .lit .bool 0]]⟩,
   ⟨[("a", .uint 8), ("b", .uint 8)], 2, [.ret [.call 0 [.var "b", .var "a"]]]⟩]

/-- Arrays: parameter, constant and computed index, element write, whole-array copy, loop
variable as index, array result:
```
func main(a [4]uint4, i uint2) ([4]uint4, uint4, uint4) {
  var b [4]uint4 = a; b[1] = a[0] + a[i]; var s uint4
  for k := 0; k < 4; k++ { s = s + b[k] }
  return b, a[3], s }
``` -/
def exArr : Prog :=
  [⟨[("a", .arr 4 (.uint 4)), ("i", .uint 2)], 3,
    [.decl "b" (.arr 4 (.uint 4)) (some (.var "a")),
     .assign [⟨"b", [.idx (.lit (.int 32) 1)]⟩]
       (.bin .add (.idx (.var "a") (.lit (.int 32) 0)) (.idx (.var "a") (.var "i"))),
     .decl "s" (.uint 4) none,
     .for "k" 0 .lt 4 1 [.assign [⟨"s", []⟩] (.bin .add (.var "s") (.idx (.var "b") (.var "k")))],
     .ret [.var "b", .idx (.var "a") (.lit (.int 32) 3), .var "s"]]⟩]

/-- `struct { f0 uint4; f1 bool; f2 int4 }` -/
def tS : Ty := .struct [.uint 4, .bool, .int 4]

/-- Structs: field read / write, a struct variable merged by phi, struct parameter and result of a call:
```
type S struct { f0 uint4; f1 bool; f2 int4 }
func h(s S, c bool) S { if c { s.f0 = s.f0 + 1; s.f1 = !s.f1 } else { s.f2 = -s.f2 }; return s }
func main(s S, c bool) (S, uint4) { t := h(s, c); return t, t.f0 + s.f0 }
``` -/
def exStruct : Prog :=
  [⟨[("s", tS), ("c", .bool)], 1,
    [.ifte (.var "c")
       [.assign [⟨"s", [.fld 0]⟩] (.bin .add (.fld (.var "s") 0) (.lit (.uint 4) 1)),
        .assign [⟨"s", [.fld 1]⟩] (.not (.fld (.var "s") 1))]
       [.assign [⟨"s", [.fld 2]⟩] (.neg (.fld (.var "s") 2))],
     .ret [.var "s"]]⟩,
   ⟨[("s", tS), ("c", .bool)], 2,
    [.define ["t"] (.call 0 [.var "s", .var "c"]),
     .ret [.var "t", .bin .add (.fld (.var "t") 0) (.fld (.var "s") 0)]]⟩]

/-- `struct { f0 [2]uint4; f1 uint4 }` -/
def tT : Ty := .struct [.arr 2 (.uint 4), .uint 4]

/-- Nested aggregates: a 2-D array and a struct with an array field, nested l-value paths:
```
type T struct { f0 [2]uint4; f1 uint4 }
func main(m [2][2]uint4, t T) ([2][2]uint4, T, uint4) {
  m[1][0] = m[0][1] + t.f1; t.f0[1] = m[1][1]; return m, t, t.f0[0] + m[1][0] }
``` -/
def exNested : Prog :=
  [⟨[("m", .arr 2 (.arr 2 (.uint 4))), ("t", tT)], 3,
    [.assign [⟨"m", [.idx (.lit (.int 32) 1), .idx (.lit (.int 32) 0)]⟩]
       (.bin .add (.idx (.idx (.var "m") (.lit (.int 32) 0)) (.lit (.int 32) 1)) (.fld (.var "t") 1)),
     .assign [⟨"t", [.fld 0, .idx (.lit (.int 32) 1)]⟩] (.idx (.idx (.var "m") (.lit (.int 32) 1)) (.lit (.int 32) 1)),
     .ret [.var "m", .var "t",
       .bin .add (.idx (.fld (.var "t") 0) (.lit (.int 32) 0)) (.idx (.idx (.var "m") (.lit (.int 32) 1)) (.lit (.int 32) 0))]]⟩]

/-- `lower` succeeds on the examples (number of SSA steps). -/
theorem C03_ssa_lower_examples_in_fragment :
    ([exFrag, exLit, exOps, exIf, exEarly, exFor, exDiv].map fun fn => (Ssa.lower 60 [fn] 0).map (·.2.length)) =
      [some 11, some 10, some 17, some 14, some 13, some 28, some 7] ∧
    ([exFrag, exLit, exOps, exIf, exEarly, exFor, exDiv].map fun fn => Ssa.noDivP [fn]) =
      [true, true, true, true, true, true, false] ∧
    [(Ssa.lower 60 exCall 2).map (·.2.length), (Ssa.lower 60 exArr 0).map (·.2.length),
      (Ssa.lower 60 exStruct 1).map (·.2.length), (Ssa.lower 60 exNested 0).map (·.2.length),
      (Ssa.lower 60 exRetCall 1).map (·.2.length)] =
      [some 45, some 24, some 21, some 18, some 14] ∧
    [Ssa.noDivP exCall, Ssa.noDivP exArr, Ssa.noDivP exStruct, Ssa.noDivP exNested, Ssa.noDivP exRetCall] =
      [true, true, true, true, true] := by
  refine ⟨?_, ?_, ?_, ?_⟩ <;> decide +kernel

theorem C03_ssa_lower_ex_straight : bothSem exFrag [0xf0, 0x9] = (some [(0x19, 8), (0x9, 4)], some [(0x19, 8), (0x9, 4)]) := by
  decide +kernel

theorem C03_ssa_lower_ex_literals :
    bothSem exLit [100, 3] = (some [(240, 8), (254, 8), (1, 1)], some [(240, 8), (254, 8), (1, 1)]) := by
  decide +kernel

/-- a = -16, b = 3, c = 200: `a < b`, not `uint8(a) < c`, `a >> 2 = -4`, `c << 3 = 64`. -/
theorem C03_ssa_lower_ex_ops :
    bothSem exOps [0xf0, 3, 200] =
      (some [(1, 1), (0, 1), (252, 8), (64, 8), (1, 1)], some [(1, 1), (0, 1), (252, 8), (64, 8), (1, 1)]) := by
  decide +kernel

theorem C03_ssa_lower_ex_if :
    bothSem exIf [7, 9] = (some [(7, 8), (9, 8)], some [(7, 8), (9, 8)]) ∧
    bothSem exIf [9, 7] = (some [(7, 8), (8, 8)], some [(7, 8), (8, 8)]) := by
  refine ⟨?_, ?_⟩ <;> decide +kernel

/-- All four paths: first return, nested return, fall through the inner `if`, fall through both. -/
theorem C03_ssa_lower_ex_early_return :
    bothSem exEarly [20, 0] = (some [(20, 8)], some [(20, 8)]) ∧
    bothSem exEarly [7, 1] = (some [(1, 8)], some [(1, 8)]) ∧
    bothSem exEarly [7, 0] = (some [(16, 8)], some [(16, 8)]) ∧
    bothSem exEarly [3, 1] = (some [(6, 8)], some [(6, 8)]) := by
  refine ⟨?_, ?_, ?_, ?_⟩ <;> decide +kernel

/-- a = 10: all four iterations, `s + 1 = 61`; a = 30: `return s` in the fourth iteration (180). -/
theorem C03_ssa_lower_ex_for :
    bothSem exFor [10] = (some [(61, 8)], some [(61, 8)]) ∧
    bothSem exFor [30] = (some [(180, 8)], some [(180, 8)]) := by
  refine ⟨?_, ?_⟩ <;> decide +kernel

/-- -43 / 5 = -8, |-43| mod 5 = 3;  43 / -3 = -14, 43 mod |-3| = 1. -/
theorem C03_ssa_lower_ex_div :
    bothSem exDiv [0xd5, 4] = (some [(248, 8), (3, 8)], some [(248, 8), (3, 8)]) ∧
    bothSem exDiv [43, 0xfc] = (some [(242, 8), (1, 8)], some [(242, 8), (1, 8)]) := by
  refine ⟨?_, ?_⟩ <;> decide +kernel

/-- (9, 5): f = (4, true), g(5) = 5, f(4, 5) = (1, false), g(4) + 4 = 8;
(2, 7): f = (5, false), g(7) = 7, f(5, 7) = (2, false), g(5) + 5 = 10. -/
theorem C03_ssa_lower_ex_call :
    bothSemP exCall 2 [9, 5] = (some [(1, 8), (0, 1), (8, 8)], some [(1, 8), (0, 1), (8, 8)]) ∧
    bothSemP exCall 2 [2, 7] = (some [(2, 8), (0, 1), (10, 8)], some [(2, 8), (0, 1), (10, 8)]) := by
  refine ⟨?_, ?_⟩ <;> decide +kernel

/-- f(5, 9) = (4, false); f(9, 5) = (4, true). -/
theorem C03_ssa_lower_ex_return_call :
    bothSemP exRetCall 1 [9, 5] = (some [(4, 8), (0, 1)], some [(4, 8), (0, 1)]) ∧
    bothSemP exRetCall 1 [5, 9] = (some [(4, 8), (1, 1)], some [(4, 8), (1, 1)]) := by
  refine ⟨?_, ?_⟩ <;> decide +kernel

/-- a = [1, 2, 3, 4], i = 2: b = [1, 1 + 3, 3, 4] = 0x4341, a[3] = 4, s = 12. -/
theorem C03_ssa_lower_ex_array :
    bothSemP exArr 0 [0x4321, 2] = (some [(0x4341, 16), (4, 4), (12, 4)], some [(0x4341, 16), (4, 4), (12, 4)]) := by
  decide +kernel

/-- s = {3, true, 3}: c: {4, false, 3} = 0x144, 4 + 3; not c: {3, true, -3} = 0x0d3, 3 + 3. -/
theorem C03_ssa_lower_ex_struct :
    bothSemP exStruct 1 [0x353, 1] = (some [(0x144, 9), (7, 4)], some [(0x144, 9), (7, 4)]) ∧
    bothSemP exStruct 1 [0x353, 0] = (some [(0x0d3, 9), (6, 4)], some [(0x0d3, 9), (6, 4)]) := by
  refine ⟨?_, ?_⟩ <;> decide +kernel

/-- m = [[1, 2], [3, 4]], t = {[5, 6], 7}: m[1][0] = 2 + 7 = 9, t.f0[1] = 4, t.f0[0] + m[1][0] = 14. -/
theorem C03_ssa_lower_ex_nested :
    bothSemP exNested 0 [0x4321, 0x765] =
      (some [(0x4921, 16), (0x745, 12), (14, 4)], some [(0x4921, 16), (0x745, 12), (14, 4)]) := by
  decide +kernel

/-- The excluded deviations are really outside the fragment: `uint8(a)` for
`a int4` (C03-cast-int-to-wider-uint), a re-declaration in an inner block
(C03-inner-block-redeclaration), `a & 0xffffffff` at int40
(C03-const-signed-widening), a signed literal out of range; and what the real
compiler rejects: a constant index out of range, recursion. -/
theorem C03_ssa_lower_excludes_deviations :
    Ssa.lower 40 [⟨[("a", .int 4)], 1, [.ret [.cast (.uint 8) (.var "a")]]⟩] 0 = none ∧
    Ssa.lower 40 [⟨[("a", .int 4), ("b", .bool)], 1,
      [.decl "q" (.int 4) (some (.var "a")),
       .ifte (.var "b") [.decl "q" (.int 4) (some (.bin .add (.var "a") (.var "a")))] [], .ret [.var "q"]]⟩] 0 = none ∧
    Ssa.lower 40 [⟨[("a", .int 40)], 1, [.ret [.bin .band (.var "a") (.lit (.int 40) 0xffffffff)]]⟩] 0 = none ∧
    Ssa.lower 40 [⟨[("a", .int 8)], 1, [.ret [.bin .add (.var "a") (.lit (.int 8) 200)]]⟩] 0 = none ∧
    Ssa.lower 40 [⟨[("a", .arr 2 (.uint 4))], 1, [.ret [.idx (.var "a") (.lit (.int 32) 2)]]⟩] 0 = none ∧
    Ssa.lower 40 [⟨[("a", .uint 4)], 1, [.ret [.call 0 [.var "a"]]]⟩] 0 = none := by
  refine ⟨?_, ?_, ?_, ?_, ?_, ?_⟩ <;> decide +kernel

/-! ### Fuel is irrelevant

The interpreter is total by fuel.  Once a run is defined its result is the
result for EVERY larger fuel (proved by simultaneous induction over the four
mutually recursive functions, `Proofs/Mpcl.lean` `fuel_mono_succ`): the
driver's choice of fuel cannot influence an answer, only turn it into
`model-error`. -/

theorem C03_fuel_irrelevant (P : Prog) (f f' : Nat) (hle : f ≤ f') (main : Nat) (args r : List Val)
    (h : run P f main args = some r) : run P f' main args = some r :=
  run_mono P hle main args r h

theorem C03_fuel_irrelevant_raw (P : Prog) (f f' : Nat) (hle : f ≤ f') (main : Nat) (args : List Nat)
    (r : List (Nat × Nat)) (h : runRaw P f main args = some r) : runRaw P f' main args = some r := by
  unfold runRaw at h ⊢
  cases hm : P[main]? with
  | none => simp [hm] at h
  | some fn =>
    simp only [hm] at h ⊢
    split at h
    · simp at h
    · rename_i hl
      simp only [hl, if_false]
      cases hr : run P f main ((fn.params.zip args).map fun (p, n) => p.2.decode n) with
      | none => simp [hr] at h
      | some rs =>
        simp only [hr] at h
        simp only [run_mono P hle main _ rs hr]
        exact h

example : runRaw pDivi 9 0 [i64 43, i64 4] = some [(i64 10, 64)] ∧
    runRaw pDivi 100000 0 [i64 43, i64 4] = some [(i64 10, 64)] :=
  ⟨by decide +kernel, C03_fuel_irrelevant_raw pDivi 9 100000 (by decide) 0 _ _ (by decide +kernel)⟩

/-! ### Witnesses of the known deviations of the compiler

The property is *violated* by /repo on the program shapes of
`C03_finding_witnesses` below (those of `C03_repaired_witnesses` were repaired) (each replayed
on the real compiler by `c03 witness`; ids in /verif/known_findings.json).
Here: the value the reference semantics assigns, next to the value the
compiled circuit returns (comment).  `C03_finding_witnesses` therefore is the
Lean half of the negation witness: model value ≠ observed circuit value. -/

/-- `func main(a int8) (bool, int8, int8) { return a > 3, a / 3, a % 3 }` -/
def wLit : Prog := [⟨[("a", .int 8)], 3,
  [.ret [.bin .gt (.var "a") (.lit (.int 8) 3), .bin .div (.var "a") (.lit (.int 8) 3),
         .bin .mod (.var "a") (.lit (.int 8) 3)]]⟩]

/-- `var q int4 = 1; if b { var q int4 = a; a = q + q }; return q, a` -/
def wShadow : Prog := [⟨[("a", .int 4), ("b", .bool)], 2,
  [.decl "q" (.int 4) (some (.lit (.int 4) 1)),
   .ifte (.var "b") [.decl "q" (.int 4) (some (.var "a")),
                     .assign [⟨"a", []⟩] (.bin .add (.var "q") (.var "q"))] [],
   .ret [.var "q", .var "a"]]⟩]

/-- `func main(a int4) (uint8, int8) { return uint8(a), int8(a) }` -/
def wCast : Prog := [⟨[("a", .int 4)], 2, [.ret [.cast (.uint 8) (.var "a"), .cast (.int 8) (.var "a")]]⟩]

/-- `var s int4; for i := 0; i < 2; i++ { x := a + s; s = s + x }; return s` -/
def wDefLoop : Prog := [⟨[("a", .int 4)], 1,
  [.decl "s" (.int 4) none,
   .for "i" 0 .lt 2 1 [.define ["x"] (.bin .add (.var "a") (.var "s")),
                       .assign [⟨"s", []⟩] (.bin .add (.var "s") (.var "x"))],
   .ret [.var "s"]]⟩]

/-- `func f(p int8) (r int8) { if p > int8(3) { r = p }; return }`, `main(a) = f(a)` -/
def wNamed : Prog :=
  [⟨[("p", .int 8)], 1,
    [.decl "r" (.int 8) none,
     .ifte (.bin .gt (.var "p") (.lit (.int 8) 3)) [.assign [⟨"r", []⟩] (.var "p")] [],
     .ret [.var "r"]]⟩,
   ⟨[("a", .int 8)], 1, [.ret [.call 0 [.var "a"]]]⟩]

/-- `func main(a uint8) (uint8, uint8) { return uint8(uint2(a) & uint2(3)), a + 3 }` -/
def wConstCast : Prog := [⟨[("a", .uint 8)], 2,
  [.ret [.cast (.uint 8) (.bin .band (.cast (.uint 2) (.var "a")) (.lit (.uint 2) 3)),
         .bin .add (.var "a") (.lit (.uint 8) 3)]]⟩]

/-- `func main(a int40) (int40, int40) { return a & 0xffffffff, a & int40(0xffffffff) }` -/
def wConstWiden : Prog := [⟨[("a", .int 40)], 2,
  [.ret [.bin .band (.var "a") (.lit (.int 40) 0xffffffff),
         .bin .band (.var "a") (.lit (.int 40) 0xffffffff)]]⟩]

/-- `func main(a int40) (bool, int40) { return a > 3000000000, a / 4000000000 }` -/
def wConstWidenCmp : Prog := [⟨[("a", .int 40)], 2,
  [.ret [.bin .gt (.var "a") (.lit (.int 40) 3000000000), .bin .div (.var "a") (.lit (.int 40) 4000000000)]]⟩]

/-- `func main(a uint32) (bool, bool) { return 100 < a, a > 100 }` -/
def wConstLeft : Prog := [⟨[("a", .uint 32)], 2,
  [.ret [.bin .lt (.lit (.uint 32) 100) (.var "a"), .bin .gt (.var "a") (.lit (.uint 32) 100)]]⟩]

theorem C03_finding_witnesses :
    -- C03-inner-block-redeclaration, a = 3, b = true: circuit returns (3, 6)
    runRaw wShadow 20 0 [3, 1] = some [(1, 4), (6, 4)] ∧
    -- C03-cast-int-to-wider-uint, a = -1: circuit returns (0x0f, 0xff)
    runRaw wCast 9 0 [0xf] = some [(0xff, 8), (0xff, 8)] ∧
    -- C03-define-redeclared-rejected, a = 1: compiler: "no new variables on left side of :="
    runRaw wDefLoop 20 0 [1] = some [(3, 4)] ∧
    -- C03-const-signed-widening, a = 2^39 + 5: circuit returns (5, 2^39 + 5)
    runRaw wConstWiden 9 0 [0x8000000005] = some [(5, 40), (5, 40)] := by
  refine ⟨?_, ?_, ?_, ?_⟩ <;> decide +kernel

/-- Guard case (agrees on /repo; `c03 witness` guard-literal-topbit-vs-wider-signed):
a positive literal >= 2^31 against a wider signed operand stays positive. -/
example : runRaw wConstWidenCmp 9 0 [5] = some [(0, 1), (0, 40)] := by decide +kernel

/-- The four deviations repaired in /repo (`fix:` commits 4accfb7 named
results zeroed, 3c18dfa constant bits from the constant's own value, dfc60cc
signedness from the common operand type, 86f919b an untyped constant adopts
the other operand's type): the model's values on the former witnesses, with
which the compiled circuits now AGREE (`c03 witness` runs them as ordinary
cases; before the fixes the circuits returned the values in the comments). -/
theorem C03_repaired_witnesses :
    -- a > 3, a / 3, a % 3 at a = int8(-16)        (was: 1, 0x50, 0)
    runRaw wLit 9 0 [0xf0] = some [(0, 1), (0xfb, 8), (1, 8)] ∧
    -- `if p > int8(3) { r = p }; return` at 5 and 1   (was: 0 and 0)
    runRaw wNamed 20 1 [5] = some [(5, 8)] ∧ runRaw wNamed 20 1 [1] = some [(0, 8)] ∧
    -- uint8(uint2(a) & uint2(3)), a + 3 at a = 5    (was: 1, 4)
    runRaw wConstCast 9 0 [5] = some [(1, 8), (8, 8)] ∧
    -- 100 < a, a > 100 at a = 2^31                  (was: 0, 1)
    runRaw wConstLeft 9 0 [0x80000000] = some [(1, 1), (1, 1)] := by
  refine ⟨?_, ?_, ?_, ?_, ?_⟩ <;> decide +kernel

end Mpc

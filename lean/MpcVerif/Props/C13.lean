/-
C13  Input and output value encoding is lossless and consistent.

Property theorems only; helper lemmas are in Proofs/IoArg.lean, the model
(mirroring circuit/ioarg.go, result.go, types/types.go, types/parse.go) is
Model/IoArg.lean.

Vocabulary.  A `*big.Int` is an `Int`; the wires of an argument are
`wire z n` = the bits `z.Bit(0..n-1)` (two's complement for negative `z`),
which is how garbler/evaluator/computer read an input.  `StrFacts` is what the
code reads off an input string (`num` = outcome of `big.Int.SetString(s,0)`,
given).  `GoVal` is a dynamic Go value handed to `Set`/`Sizes`.

Status against /repo HEAD.  Five defects found by this check are repaired by
commits 66e4e03 (`mpc.Result` no longer rewrites its argument), 485d3fb
(`bitLen` loop bound `i > 0`), 95af76e (`setInt` writes exactly `t.Bits` bits,
sign-extended above bit 63), 74f1961 (`Result` decodes arrays of arrays /
slices / structs) and 4a72a07 (`InstantiateWithSizes` hands a struct member the
sizes that follow the ones consumed by the members before it).  The model
follows the repaired code and the corresponding theorems are full-strength;
what was wrong is stated about explicitly named OLD definitions
(`resultIntOld`, `bitLenOld`, `setIntOld`, `Ty.instOld`).
Still violated (a `…_witness` negation next to the `…_partial` theorem):
  for negative values `Sizes` = 64 while `InputSizes` = bit length of |v|,
  which is too short for the two's complement form.

The size-inference theorems with struct members (`C13_instantiate_…`,
`C13_mainarg_…`) are about `Ty.inst` / `mainArg` of Model/IoInst.lean, lemmas
in Proofs/IoInst.lean.
-/
import MpcVerif.Proofs.IoArg
import MpcVerif.Proofs.IoInst

namespace Mpc
open IoArg

/-! ## Textual form and Go-value form put the same bits on the wires -/

/-- Integers, full statement: for every width (1..∞, also > 64), every value
`v` of an `int8…uint64` Go kind (`s`: signed kind) and every spelling of `v`
(`st.num = v`: decimal, 0x, 0b, 0o, sign), `Parse` and `Set` succeed and put
the same bits on the `t.bits` wires. -/
theorem C13_int_wire_bits_parse_eq_set
    (t : Info) (ht : t.tag = .int ∨ t.tag = .uint) (st : StrFacts) (v : Int) (s : Bool) (w : Nat)
    (hnum : st.num = some v) (hv : v < (2 ^ 64 : Nat)) (hlo : -((2 ^ 63 : Nat) : Int) ≤ v)
    (hs : v < 0 → s = true) :
    ∃ r, (Arg.mk t []).set [.num s w v] = .ok r ∧ (Arg.mk t []).parse [st] = .ok v ∧
      wire (r : Int) t.bits = wire v t.bits := by
  refine ⟨writeBits 0 0 t.bits (setIntBit (ival v) (s && decide (v < 0))), ?_, ?_, ?_⟩
  · rcases ht with ht | ht <;> simp [Arg.set, Arg.setAt, setLeaf, ht, setInt]
  · rcases ht with ht | ht <;> simp [Arg.parse, parseLeaf, ht, hnum]
  · rw [wire_eq_iff]
    intro j hj
    rw [ibit_ofNat, testBit_writeBits]
    have : 0 ≤ j ∧ j < 0 + t.bits := by omega
    simp only [this, and_self, if_true, Nat.sub_zero]
    exact setIntBit_eq s v hv hlo hs j

example : ∃ (t : Info) (st : StrFacts) (v : Int) (s : Bool), (t.tag = .int ∨ t.tag = .uint) ∧ 64 < t.bits ∧
    st.num = some v ∧ v < (2 ^ 64 : Nat) ∧ -((2 ^ 63 : Nat) : Int) ≤ v ∧ (v < 0 → s = true) ∧ v < 0 :=
  ⟨.base .int 65 0, ⟨none, false, false, 2, none, some (-1)⟩, -1, true, by decide⟩

/-- What was wrong before commit 95af76e, about the OLD `setInt` window: `int65`,
value −1: the 64-bit window leaves wire 64 at 0 (the text "-1" sets it); and
for `int8` the window reaches past the argument's 8 wires (wire 8 set). -/
theorem C13_old_setInt_witness :
    wire ((setIntOld 0 (-1) 0 : Nat) : Int) 65 ≠ wire (-1) 65 ∧
    (setIntOld 0 (-1) 0).testBit 8 = true ∧ (setIntOld 0 1 0).testBit 8 = false := by
  decide +kernel

/- Arrays and slices, textual form.  `N` is the written number, `writtenBits`
the number of bits Parse takes as written (4 per hex digit after "0x", else
the bit length), `k` the number of written elements. -/

/-- `Parse` of an array/slice literal: element `i` of the result (wires
`i*w .. i*w+w-1`) is the `i`-th `w`-bit group of the written number counted
from the most significant group (declaration order), elements beyond the
written ones are zero (short literals are padded), nothing is written above
the last element, and no written bit is dropped. Every element width `w ≥ 1`,
every count including 0. -/
theorem C13_parse_array_elements
    (tag : Tag) (htag : tag = .array ∨ tag = .slice) (bits arraySize : Nat) (el : Info)
    (st : StrFacts) (N : Nat) (hnum : st.num = some (N : Int)) (hw : 0 < el.bits)
    (hhex : st.hex0x = true → N < 2 ^ ((st.len - 2) * 4))
    (hk : ceilDiv (writtenBits st N) el.bits ≤
      (if tag = .slice then ceilDiv (writtenBits st N) el.bits else arraySize)) :
    ∃ z : Nat, parseLeaf (.elem tag bits arraySize el) st = .ok (z : Int) ∧
      (∀ i b, i < (if tag = .slice then ceilDiv (writtenBits st N) el.bits else arraySize) → b < el.bits →
          z.testBit (i * el.bits + b) =
            (decide (i < ceilDiv (writtenBits st N) el.bits) &&
              N.testBit ((ceilDiv (writtenBits st N) el.bits - i - 1) * el.bits + b))) ∧
      (∀ j, (if tag = .slice then ceilDiv (writtenBits st N) el.bits else arraySize) * el.bits ≤ j →
          z.testBit j = false) ∧
      N < 2 ^ (ceilDiv (writtenBits st N) el.bits * el.bits) := by
  unfold writtenBits at *
  exact parse_array_elements tag htag bits arraySize el st N hnum hw hhex hk

example : ∃ (st : StrFacts) (N : Nat), st.num = some (N : Int) ∧ (st.hex0x = true → N < 2 ^ ((st.len - 2) * 4)) ∧
    ceilDiv (writtenBits st N) 8 ≤ 4 :=
  ⟨⟨none, false, true, 6, none, some 0xa0a1⟩, 0xa0a1, by decide⟩

/-- `Set` of one leaf argument at offset `o` into a result with no bit set at
or above `o`: the lower bits are untouched, the argument's wires hold
`encLeaf` (two's complement little-endian per element, elements in order,
short `[]byte` values and `nil` padded with zeros), nothing above the
argument's own wires is touched. -/
theorem C13_set_bytes_elements (t : Info) (v : GoVal) (hf : Fits t v) (r o : Nat) (hc : Clean r o) :
    ∃ r', setLeaf t r v o = .ok (r', o + t.bits) ∧
      (∀ j, j < o → r'.testBit j = r.testBit j) ∧
      Clean r' (o + t.bits) ∧
      (∀ i, i < t.bits → r'.testBit (o + i) = encLeaf t v i) :=
  setLeaf_spec t v hf r o hc

example : Fits (.elem .array (4 * 8) 4 (.base .uint 8 0)) (.bytes [0xa0, 0xa1]) ∧ Clean 0 0 :=
  ⟨Fits.arrayBytes 4 (.base .uint 8 0) [0xa0, 0xa1] (Or.inr rfl) (by decide) (by decide),
   clean_zero 0⟩

/-- Arrays: when the text denotes the same elements as the `[]byte` value
(`hden`: the `k` written groups are the `k` bytes, zero-extended to the
element width), `Parse` and `Set` put the same bits on all `count*w` wires;
short and empty values are padded identically.  Element widths 8..∞. -/
theorem C13_array_wire_bits_parse_eq_set
    (count : Nat) (el : Info) (bs : List Nat) (st : StrFacts) (N : Nat)
    (htag : el.tag = .int ∨ el.tag = .uint) (hw : 8 ≤ el.bits) (hk : bs.length ≤ count)
    (hb : ∀ b, b ∈ bs → b < 256)
    (hnum : st.num = some (N : Int)) (hhex : st.hex0x = true → N < 2 ^ ((st.len - 2) * 4))
    (hcnt : ceilDiv (writtenBits st N) el.bits = bs.length)
    (hden : ∀ e c, (h : e < bs.length) → c < el.bits →
      N.testBit ((bs.length - e - 1) * el.bits + c) = bs[e].testBit c) :
    ∃ (z r : Nat), (Arg.mk (.elem .array (count * el.bits) count el) []).parse [st] = .ok (z : Int) ∧
      (Arg.mk (.elem .array (count * el.bits) count el) []).set [.bytes bs] = .ok r ∧
      wire (z : Int) (count * el.bits) = wire (r : Int) (count * el.bits) := by
  have hw0 : 0 < el.bits := by omega
  obtain ⟨z, hz, hz1, _, _⟩ := C13_parse_array_elements .array (Or.inl rfl) (count * el.bits) count el st N hnum hw0
    hhex (by simp [hcnt, hk])
  obtain ⟨r, hr, _, _, hr3⟩ := setLeaf_spec _ _ (Fits.arrayBytes count el bs htag hw hk) 0 0 (clean_zero 0)
  refine ⟨z, r, by simpa [Arg.parse] using hz, by simp [Arg.set, Arg.setAt, hr], ?_⟩
  rw [wire_eq_iff]
  intro j hj
  rw [ibit_ofNat, ibit_ofNat]
  have h3 := hr3 j (by simpa using hj)
  simp only [Nat.zero_add] at h3
  rw [h3]
  have hdm := Nat.div_add_mod j el.bits
  have hml : j % el.bits < el.bits := Nat.mod_lt _ hw0
  have hi : j / el.bits < count := Nat.div_lt_of_lt_mul (by rw [Nat.mul_comm]; exact hj)
  have hpos : j = (j / el.bits) * el.bits + j % el.bits := by rw [Nat.mul_comm]; omega
  have h1 := hz1 (j / el.bits) (j % el.bits) (by simpa using hi) hml
  rw [← hpos] at h1
  rw [h1, hcnt]
  simp only [encLeaf]
  by_cases he : j / el.bits < bs.length
  · rw [hden _ _ he hml]
    have hlt : bs[j / el.bits] < 256 := hb _ (List.getElem_mem he)
    simp [he, List.getD, Nat.mod_eq_of_lt hlt]
  · simp [he]

example : ∃ (bs : List Nat) (st : StrFacts) (N : Nat), bs ≠ [] ∧ (∀ b, b ∈ bs → b < 256) ∧
    st.num = some (N : Int) ∧ ceilDiv (writtenBits st N) 8 = bs.length ∧
    (∀ e c, (h : e < bs.length) → c < 8 →
      N.testBit ((bs.length - e - 1) * 8 + c) = bs[e].testBit c) :=
  ⟨[0xa0, 0xa1], ⟨none, false, true, 6, none, some 0xa0a1⟩, 0xa0a1, by decide, by decide, rfl, by decide,
    fun e c h hc => (by decide : ∀ e, (h : e < [0xa0, 0xa1].length) → ∀ c, c < 8 →
      Nat.testBit 0xa0a1 (([0xa0, 0xa1].length - e - 1) * 8 + c) =
        ([0xa0, 0xa1] : List Nat)[e].testBit c) e h c hc⟩

/-! ## Members of a compound argument -/

/-- `Parse` of a compound argument whose members are leaves: the result is
exactly the concatenation of the members' wires at the running offset
(declaration order), each member contributing the low `Type.Bits` two's
complement bits of its own parse result; nothing else is set. -/
theorem C13_parse_compound_wires (t : Info) (ms : List (Info × StrFacts × Int)) (hne : ms ≠ [])
    (h : ∀ m, m ∈ ms → parseLeaf m.1 m.2.1 = .ok m.2.2) :
    ∃ z : Nat, (Arg.mk t (ms.map fun m => leaf m.1)).parse (ms.map fun m => m.2.1) = .ok (z : Int) ∧
      ∀ j, z.testBit j = concatWires (ms.map fun m => (m.1.bits, m.2.2)) j :=
  arg_parse_compound t ms hne h

example : ∃ ms : List (Info × StrFacts × Int), ms ≠ [] ∧ ∀ m, m ∈ ms → parseLeaf m.1 m.2.1 = .ok m.2.2 :=
  ⟨[(.base .int 8 0, ⟨none, false, false, 2, none, some (-1)⟩, -1)], by simp, by simp [parseLeaf]⟩

/-- Member independence (textual form): replacing the input of one member
changes no wire outside that member's own `Type.Bits` wires. -/
theorem C13_parse_member_independent (t : Info) (pre post : List (Info × StrFacts × Int))
    (ti : Info) (st st' : StrFacts) (x x' : Int)
    (hpre : ∀ m, m ∈ pre → parseLeaf m.1 m.2.1 = .ok m.2.2)
    (hpost : ∀ m, m ∈ post → parseLeaf m.1 m.2.1 = .ok m.2.2)
    (hx : parseLeaf ti st = .ok x) (hx' : parseLeaf ti st' = .ok x') :
    ∃ z z' : Nat,
      (Arg.mk t ((pre ++ (ti, st, x) :: post).map fun m => leaf m.1)).parse
        ((pre ++ (ti, st, x) :: post).map fun m => m.2.1) = .ok (z : Int) ∧
      (Arg.mk t ((pre ++ (ti, st', x') :: post).map fun m => leaf m.1)).parse
        ((pre ++ (ti, st', x') :: post).map fun m => m.2.1) = .ok (z' : Int) ∧
      ∀ j, (j < widthSum (pre.map fun m => (m.1.bits, m.2.2)) ∨
            widthSum (pre.map fun m => (m.1.bits, m.2.2)) + ti.bits ≤ j) →
        z.testBit j = z'.testBit j := by
  obtain ⟨z, hz, hzw⟩ := arg_parse_compound t (pre ++ (ti, st, x) :: post) (by simp)
    (by intro m hm; simp at hm; rcases hm with h | h | h
        · exact hpre m h
        · subst h; exact hx
        · exact hpost m h)
  obtain ⟨z', hz', hzw'⟩ := arg_parse_compound t (pre ++ (ti, st', x') :: post) (by simp)
    (by intro m hm; simp at hm; rcases hm with h | h | h
        · exact hpre m h
        · subst h; exact hx'
        · exact hpost m h)
  refine ⟨z, z', hz, hz', ?_⟩
  intro j hj
  rw [hzw, hzw']
  simp only [List.map_append, List.map_cons, concatWires_append, concatWires]
  rcases hj with hj | hj
  · simp [hj]
  · have h1 : ¬ j < widthSum (pre.map fun m => (m.1.bits, m.2.2)) := by omega
    have h2 : ¬ j - widthSum (pre.map fun m => (m.1.bits, m.2.2)) < ti.bits := by omega
    simp [h1, h2]

/-- `Set` of a compound argument whose members are leaves, full statement:
for all member values that `Fit` (every `int8…uint64` value for integer
members of any width, bools, `[]byte`/`nil` for arrays and slices) the
`totalBits` wires are the concatenation of the members' encodings `encLeaf`
at the running offset — in particular member `k`'s wires depend on member
`k`'s value only. -/
theorem C13_set_compound_wires (t : Info) (ms : List (Info × GoVal)) (hne : ms ≠ [])
    (hf : ∀ m, m ∈ ms → Fits m.1 m.2) :
    ∃ r : Nat, (Arg.mk t (ms.map fun m => leaf m.1)).set (ms.map (·.2)) = .ok r ∧
      ∀ j, j < totalBits ms → r.testBit j = encMembers ms j :=
  arg_set_compound t ms hne hf

example : ∃ ms : List (Info × GoVal), ms ≠ [] ∧ ∀ m, m ∈ ms → Fits m.1 m.2 :=
  ⟨[(.base .int 8 0, .num true 8 (-1)), (.elem .array (4 * 8) 4 (.base .uint 8 0), .nil)], by simp, by
    intro m hm
    simp at hm
    rcases hm with h | h <;> subst h
    · exact Fits.num .int 8 0 true 8 (-1) (Or.inl rfl) (by decide) (by decide) (fun _ => rfl)
    · exact Fits.arrayNil 4 (.base .uint 8 0) (Or.inr rfl)⟩

/-- The former witness of the spill defect is now an ordinary case: struct
{int8; [4]byte; uint32} with (−1, nil, 7) and with (1, nil, 7): wire 8 (the
array's first wire) is 0 in both and `Set` equals `Parse` of "-1","0","7". -/
theorem C13_set_spill_case_now_correct :
    let arg := Arg.mk (.base .struct 72 0)
      [leaf (.base .int 8 0), leaf (.elem .array 32 4 (.base .uint 8 0)), leaf (.base .uint 32 0)]
    arg.set [.num true 8 1, .nil, .num false 32 7] = .ok 0x70000000001 ∧
    arg.set [.num true 8 (-1), .nil, .num false 32 7] = .ok 0x700000000ff ∧
    arg.parse [⟨none, false, false, 2, none, some (-1)⟩, ⟨some false, false, false, 1, none, some 0⟩,
      ⟨none, false, false, 1, none, some 7⟩] = .ok 0x700000000ff := by
  decide +kernel

/-! ## Inferred sizes -/

/-- `bitLen` is the bit length for every 64-bit value ≥ 1, and 1 for 0
(full statement; loop bound `i > 0` since commit 485d3fb). -/
theorem C13_bitLen_spec (v : Nat) (hv : v < 2 ^ 64) :
    (1 ≤ v → bitLen v = natBitLen v) ∧ bitLen 0 = 1 :=
  ⟨bitLen_spec v hv, bitLen_zero⟩

example : (2 : Nat) < 2 ^ 64 ∧ 1 ≤ 2 ∧ bitLen 2 = 2 ∧ bitLen 3 = 2 := by decide

/- Full statement (still FALSE at negative values, see
   `C13_sizes_negative_witness`): `Sizes [v] = InputSizes [decimal v]` = the
   width that is written. -/

/-- Every non-negative 64-bit value: `Sizes` of the Go integer and
`InputSizes` of a non-literal, non-"0x" spelling of the same number agree and
equal its bit length (`n ≥ 1`; the decimal text of every `n ≥ 2` is such a
spelling), and for 0 and 1 spelled "0"/"1" (bool literals) both give 1. -/
theorem C13_sizes_agree_partial (n : Nat) (hn : n < 2 ^ 64) (s : Bool) (w : Nat) (st : StrFacts)
    (hu : st.underscore = false) :
    (1 ≤ n → st.boolLit = none → st.hex0x = false → st.reHex = none → st.num = some (n : Int) →
      sizeOf1 (.num s w n) = .ok (natBitLen n) ∧ inputSize1 st = .ok (natBitLen n)) ∧
    (n < 2 → st.boolLit.isSome → sizeOf1 (.num s w n) = .ok 1 ∧ inputSize1 st = .ok 1) := by
  constructor
  · intro h1 hb hx hre hnum
    constructor
    · simp [sizeOf1, ival_ofNat n hn, bitLen_spec n hn h1]
    · simp [inputSize1, hu, hb, hx, hre, hnum, bitLength]
  · intro h2 hb
    have : bitLen n = 1 := by
      have : n = 0 ∨ n = 1 := by omega
      rcases this with h | h <;> subst h <;> decide
    constructor
    · simp [sizeOf1, ival_ofNat n hn, this]
    · simp [inputSize1, hu, hb]

example : ∃ (n : Nat) (st : StrFacts), n < 2 ^ 64 ∧ 1 ≤ n ∧ st.underscore = false ∧ st.boolLit = none ∧ st.hex0x = false ∧
    st.reHex = none ∧ st.num = some (n : Int) :=
  ⟨3, ⟨none, false, false, 1, none, some 3⟩, by decide⟩

/-- What was wrong before commit 485d3fb, about the OLD definition: the loop
`i > 1` gave 1 for the values 2 and 3 (the text "2"/"3" is sized 2). -/
theorem C13_old_bitLen_2_3_witness :
    bitLenOld 2 = 1 ∧ bitLenOld 3 = 1 ∧ bitLen 2 = 2 ∧ bitLen 3 = 2 ∧
    inputSize1 ⟨none, false, false, 1, none, some 2⟩ = .ok 2 ∧
    inputSize1 ⟨none, false, false, 1, none, some 3⟩ = .ok 2 := by
  decide +kernel

/-- Witness of defect (b), negative values: `int8(-3)` gives 64, the text
"-3" gives 2, and 2 wires cannot hold −3: they carry the same bits as +1. -/
theorem C13_sizes_negative_witness :
    sizeOf1 (.num true 8 (-3)) = .ok 64 ∧
    inputSize1 ⟨none, false, false, 2, none, some (-3)⟩ = .ok 2 ∧
    wire (-3) 2 = wire 1 2 := by
  decide +kernel

/-! ## Decoding -/

/-- `Result` inverts the encoding of every unsigned value of every width:
`uint8/16/32/64` for widths up to 64, `*big.Int` above; the cell is unchanged. -/
theorem C13_result_inverts_uint (n a : Nat) (v : Nat) (hv : v < 2 ^ n) :
    result (.base .uint n a) (v : Int) =
      .ok (if n ≤ 64 then .u (widthClass n) v else .big v, (v : Int)) :=
  result_uint n a v hv

example : (200 : Nat) < 2 ^ 8 := by decide

/-- `Result` inverts the two's complement encoding `lowBits v n` of every
signed value of every width `n ≥ 1`: the returned value is `v` and the cell
still holds the encoding. -/
theorem C13_result_inverts_int (n a : Nat) (hn : 1 ≤ n) (v : Int)
    (hlo : -((2 ^ (n - 1) : Nat) : Int) ≤ v) (hhi : v < ((2 ^ (n - 1) : Nat) : Int)) :
    result (.base .int n a) ((lowBits v n : Nat) : Int) =
      .ok (if n ≤ 64 then .i (widthClass n) v else .big v, ((lowBits v n : Nat) : Int)) :=
  result_int n a hn v hlo hhi

example : -((2 ^ (8 - 1) : Nat) : Int) ≤ -16 ∧ (-16 : Int) < ((2 ^ (8 - 1) : Nat) : Int) := by decide

theorem C13_result_inverts_bool (a : Nat) (b : Bool) :
    result (.base .bool 1 a) (if b then 1 else 0) = .ok (.bool b, if b then 1 else 0) :=
  result_bool a b

/-- Arrays/slices of unsigned elements of any width `w` and any count
(0 included): element `i` is decoded by the scalar decoder from the number
whose bits are wires `i*w .. i*w+w-1` of the value — the inverse of
`C13_parse_array_elements` / `encLeaf` — and the cell is unchanged. -/
theorem C13_result_inverts_array (tag : Tag) (htag : tag = .array ∨ tag = .slice) (bits count w a : Nat)
    (z : Int) :
    result (.elem tag bits count (.base .uint w a)) z =
      .ok (.slice (if widthClass w = 0 then "big" else s!"uint{widthClass w}")
        ((List.range count).map fun i =>
          if w ≤ 64 then .u (widthClass w) (lowBits (rsh z (i * w)) w) else .big (lowBits (rsh z (i * w)) w)), z) ∧
    ∀ i b, (lowBits (rsh z (i * w)) w).testBit b = (decide (b < w) && ibit z (i * w + b)) := by
  refine ⟨?_, fun i b => testBit_group z i w b⟩
  apply result_array tag htag bits count (.base .uint w a) _ (elemName_explicit _ _ _ (by simp [elemTypeName])) z
  intro i _
  exact ⟨_, result_uint w a _ (lowBits_lt _ _)⟩

/-- Purity and repeatability, full statement: whenever `Result` returns (every
type, every cell content `z`, negative `TInt` values included) the cell is
unchanged, hence a second call on the same `*big.Int` returns the same value. -/
theorem C13_result_pure (t : Info) (z : Int) (rv : RVal) (c : Int)
    (h : result t z = .ok (rv, c)) :
    c = z ∧ result t c = .ok (rv, c) := by
  have hc := result_cell t z rv c h
  subst hc
  exact ⟨rfl, h⟩

example : result (.base .int 8 0) 0xF0 = .ok (.i 8 (-16), 0xF0) ∧
    result (.base .int 5 0) 16 = .ok (.i 8 (-16), 16) ∧
    result (.base .int 100 0) (2 ^ 99) = .ok (.big (-(2 ^ 99)), 2 ^ 99) :=
  ⟨by rfl, by rfl, by rfl⟩

/-- What was wrong before commit 66e4e03, about the OLD `TInt` branch: `int8`,
cell 0xF0: the call returned −16 and left −16 in the caller's `*big.Int`, the
next call left −272; `int5`, cell 16: −16 then −48 (a different value). -/
theorem C13_old_result_not_pure_witness :
    resultIntOld 8 0xF0 = (.i 8 (-16), -16) ∧ resultIntOld 8 (-16) = (.i 8 (-16), -272) ∧
    resultIntOld 5 16 = (.i 8 (-16), -16) ∧ resultIntOld 5 (-16) = (.i 8 (-48), -48) :=
  ⟨by rfl, by rfl, by rfl, by rfl⟩

/-- Arrays of arrays (commit 74f1961): an array/slice whose elements are
arrays/slices of unsigned integers decodes to a slice of slices — element
`(i, k)` is the scalar decoding of wires `i*W + k*w .. +w-1` (`W` the inner
`Bits`) — and the cell is unchanged; every count (0 included) and width. -/
theorem C13_result_nested_array_decodes (tag itag : Tag) (htag : tag = .array ∨ tag = .slice)
    (hitag : itag = .array ∨ itag = .slice) (bits count ibits icount w a : Nat) (z : Int) :
    result (.elem tag bits count (.elem itag ibits icount (.base .uint w a))) z =
      .ok (.slice ("[]" ++ (if widthClass w = 0 then "big" else s!"uint{widthClass w}"))
        ((List.range count).map fun i =>
          .slice (if widthClass w = 0 then "big" else s!"uint{widthClass w}")
            ((List.range icount).map fun k =>
              if w ≤ 64 then .u (widthClass w) (lowBits (rsh ((lowBits (rsh z (i * ibits)) ibits : Nat) : Int) (k * w)) w)
              else .big (lowBits (rsh ((lowBits (rsh z (i * ibits)) ibits : Nat) : Int) (k * w)) w))), z) := by
  apply result_array tag htag bits count (.elem itag ibits icount (.base .uint w a)) _ ?_ z
  · intro i _
    exact ⟨_, (C13_result_inverts_array itag hitag ibits icount w a _).1⟩
  · have h0 := (C13_result_inverts_array itag hitag ibits icount w a 0).1
    have hn : elemTypeName (.elem itag ibits icount (.base .uint w a)) = none := by
      rcases hitag with h | h <;> simp [elemTypeName, h]
    rw [elemName_default _ _ _ hn h0]
    rfl

example : result (.elem .array 32 2 (.elem .array 16 2 (.base .uint 8 0))) 0x04030201 =
    .ok (.slice "[]uint8" [.slice "uint8" [.u 8 1, .u 8 2], .slice "uint8" [.u 8 3, .u 8 4]], 0x04030201) := by
  rfl

/-- `IO.Split`: part `k` is the `ns[k]` bits of the value starting at the sum
of the widths before it (two's complement bits for a negative value). -/
theorem C13_split_spec (ns : List Nat) (z : Int) (k : Nat) (hk : k < ns.length) (i : Nat) :
    ((split ns z 0).getD k 0).testBit i = (decide (i < ns[k]) && ibit z ((ns.take k).sum + i)) := by
  simpa using split_spec ns z 0 k hk i

/-- Member independence (Go-value form), full statement: replacing the value
of one member by another value of its type changes no wire outside that
member's own `Type.Bits` wires. -/
theorem C13_set_member_independent (t : Info) (pre post : List (Info × GoVal))
    (ti : Info) (v v' : GoVal)
    (hpre : ∀ m, m ∈ pre → Fits m.1 m.2) (hpost : ∀ m, m ∈ post → Fits m.1 m.2)
    (hv : Fits ti v) (hv' : Fits ti v') :
    ∃ r r' : Nat,
      (Arg.mk t ((pre ++ (ti, v) :: post).map fun m => leaf m.1)).set ((pre ++ (ti, v) :: post).map (·.2)) = .ok r ∧
      (Arg.mk t ((pre ++ (ti, v') :: post).map fun m => leaf m.1)).set ((pre ++ (ti, v') :: post).map (·.2)) = .ok r' ∧
      ∀ j, j < totalBits pre + ti.bits + totalBits post →
        (j < totalBits pre ∨ totalBits pre + ti.bits ≤ j) → r.testBit j = r'.testBit j := by
  obtain ⟨r, hr, hrw⟩ := arg_set_compound t (pre ++ (ti, v) :: post) (by simp)
    (by intro m hm; simp at hm; rcases hm with h | h | h
        · exact hpre m h
        · subst h; exact hv
        · exact hpost m h)
  obtain ⟨r', hr', hrw'⟩ := arg_set_compound t (pre ++ (ti, v') :: post) (by simp)
    (by intro m hm; simp at hm; rcases hm with h | h | h
        · exact hpre m h
        · subst h; exact hv'
        · exact hpost m h)
  refine ⟨r, r', hr, hr', ?_⟩
  intro j hj hout
  have ht : ∀ x, totalBits (pre ++ (ti, x) :: post) = totalBits pre + ti.bits + totalBits post := by
    intro x; rw [totalBits_append]; simp [totalBits, Nat.add_assoc]
  rw [hrw j (by rw [ht]; exact hj), hrw' j (by rw [ht]; exact hj)]
  simp only [encMembers_append, encMembers]
  rcases hout with h | h
  · simp [h]
  · have h1 : ¬ j < totalBits pre := by omega
    have h2 : ¬ j - totalBits pre < ti.bits := by omega
    simp [h1, h2]

example : Fits (.base .int 8 0) (.num true 8 (-1)) ∧ Fits (.base .int 8 0) (.num true 8 1) :=
  ⟨Fits.num .int 8 0 true 8 (-1) (Or.inl rfl) (by decide) (by decide) (fun _ => rfl),
   Fits.num .int 8 0 true 8 1 (Or.inl rfl) (by decide) (by decide) (fun _ => rfl)⟩

/-- Arrays/slices of signed elements: element `i` is the two's complement
reading (`toSigned`) of wires `i*w .. i*w+w-1`; the cell is unchanged (the
sign fix happens on a temporary). -/
theorem C13_result_inverts_array_int (tag : Tag) (htag : tag = .array ∨ tag = .slice) (bits count w a : Nat)
    (hw : 1 ≤ w) (z : Int) :
    result (.elem tag bits count (.base .int w a)) z =
      .ok (.slice (if widthClass w = 0 then "big" else s!"int{widthClass w}")
        ((List.range count).map fun i =>
          if w ≤ 64 then .i (widthClass w) (toSigned w (lowBits (rsh z (i * w)) w))
          else .big (toSigned w (lowBits (rsh z (i * w)) w))), z) := by
  apply result_array tag htag bits count (.base .int w a) _ (elemName_explicit _ _ _ (by simp [elemTypeName])) z
  intro i _
  obtain ⟨h1, h2, h3⟩ := toSigned_range w (lowBits (rsh z (i * w)) w) hw (lowBits_lt _ _)
  have := result_int w a hw (toSigned w (lowBits (rsh z (i * w)) w)) h1 h2
  rw [h3] at this
  exact ⟨_, this⟩

/-- Inferred size, unsized `uint` argument: for a plain number spelling (not
"_", not a bool literal, not the `NxHH` pattern) `InputSizes` yields exactly
the number of bits written, `InstantiateWithSizes` gives the type that width,
and the value fits it: no written bit is lost. -/
theorem C13_inferred_size_uint (b n : Nat) (st : StrFacts) (N : Nat)
    (hu : st.underscore = false) (hb : st.boolLit = none) (hre : st.hex0x = false → st.reHex = none)
    (hnum : st.num = some (N : Int)) (hhex : st.hex0x = true → N < 2 ^ ((st.len - 2) * 4)) :
    inputSize1 st = .ok (writtenBits st N) ∧
    instantiate (.base .uint b n) false (writtenBits st N) = .ok (.base .uint (writtenBits st N) n) ∧
    parseLeaf (.base .uint (writtenBits st N) n) st = .ok (N : Int) ∧
    N < 2 ^ writtenBits st N := by
  refine ⟨?_, by simp [instantiate], by simp [parseLeaf, hnum], ?_⟩
  · by_cases hx : st.hex0x = true
    · simp [inputSize1, hu, hb, hx, writtenBits]
    · have hx' : st.hex0x = false := by simpa using hx
      simp [inputSize1, hu, hb, hx', hre hx', hnum, writtenBits, bitLength]
  · by_cases hx : st.hex0x = true
    · simp only [writtenBits, hx, if_true]; exact hhex hx
    · simp only [writtenBits, hx]; exact lt_two_pow_natBitLen N

example : ∃ (st : StrFacts) (N : Nat), st.underscore = false ∧ st.boolLit = none ∧
    (st.hex0x = false → st.reHex = none) ∧ st.num = some (N : Int) ∧
    (st.hex0x = true → N < 2 ^ ((st.len - 2) * 4)) :=
  ⟨⟨none, false, true, 6, some (some 0, 4), some 0xa0a1⟩, 0xa0a1, by decide⟩

/-- Inferred size, slice argument with element width `w ≥ 1`: the slice is
instantiated with `k = ⌈written bits / w⌉` elements and `Bits = k*w`, which is
exactly the element count `Parse` reads from the same text (so Parse cannot
fail with "too many values" and writes inside the `Bits` wires). -/
theorem C13_inferred_size_slice (b n : Nat) (el : Info) (c : Bool) (st : StrFacts) (N : Nat) (hw : 0 < el.bits)
    (hu : st.underscore = false) (hb : st.boolLit = none) (hre : st.hex0x = false → st.reHex = none)
    (hnum : st.num = some (N : Int)) (hhex : st.hex0x = true → N < 2 ^ ((st.len - 2) * 4)) :
    inputSize1 st = .ok (writtenBits st N) ∧
    instantiate (.elem .slice b n el) c (writtenBits st N) =
      .ok (.elem .slice (ceilDiv (writtenBits st N) el.bits * el.bits) (ceilDiv (writtenBits st N) el.bits) el) ∧
    ∃ z : Nat, parseLeaf (.elem .slice (ceilDiv (writtenBits st N) el.bits * el.bits)
        (ceilDiv (writtenBits st N) el.bits) el) st = .ok (z : Int) ∧
      z < 2 ^ (ceilDiv (writtenBits st N) el.bits * el.bits) := by
  refine ⟨(C13_inferred_size_uint 0 0 st N hu hb hre hnum hhex).1, ?_, ?_⟩
  · have : el.bits ≠ 0 := by omega
    simp [instantiate, this]
  · obtain ⟨z, hz, _, hz2, _⟩ := C13_parse_array_elements .slice (Or.inr rfl)
      (ceilDiv (writtenBits st N) el.bits * el.bits) (ceilDiv (writtenBits st N) el.bits) el st N hnum hw hhex
      (by simp)
    refine ⟨z, hz, ?_⟩
    apply Nat.lt_pow_two_of_testBit
    intro i hi
    exact hz2 i (by simpa using hi)

/-- Whole compound arguments: if every member's text parses, every member's
Go value `Fits`, and text and Go value of each member denote the same bits on
that member's own wires (`hag`; for integers and bools this is
`C13_member_agreement_int`/`_bool`, for arrays the content of
`C13_array_wire_bits_parse_eq_set`), then `Parse` and `Set` put the same bits
on all wires of the argument. -/
theorem C13_compound_wire_bits_parse_eq_set (t : Info) (ms : List (Info × StrFacts × Int × GoVal))
    (hne : ms ≠ [])
    (hp : ∀ m, m ∈ ms → parseLeaf m.1 m.2.1 = .ok m.2.2.1)
    (hf : ∀ m, m ∈ ms → Fits m.1 m.2.2.2)
    (hag : ∀ m, m ∈ ms → ∀ i, i < m.1.bits → ibit m.2.2.1 i = encLeaf m.1 m.2.2.2 i) :
    ∃ z r : Nat,
      (Arg.mk t (ms.map fun m => leaf m.1)).parse (ms.map fun m => m.2.1) = .ok (z : Int) ∧
      (Arg.mk t (ms.map fun m => leaf m.1)).set (ms.map fun m => m.2.2.2) = .ok r ∧
      ∀ j, j < totalBits (ms.map fun m => (m.1, m.2.2.2)) → z.testBit j = r.testBit j := by
  obtain ⟨z, hz, hzw⟩ := arg_parse_compound t (ms.map fun m => (m.1, m.2.1, m.2.2.1)) (by simpa using hne)
    (by intro m hm; rw [List.mem_map] at hm; obtain ⟨a, ha, rfl⟩ := hm; exact hp a ha)
  obtain ⟨r, hr, hrw⟩ := arg_set_compound t (ms.map fun m => (m.1, m.2.2.2)) (by simpa using hne)
    (by intro m hm; rw [List.mem_map] at hm; obtain ⟨a, ha, rfl⟩ := hm; exact hf a ha)
  simp only [List.map_map, Function.comp_def] at hz hr hzw hrw
  refine ⟨z, r, hz, hr, ?_⟩
  intro j hj
  rw [hzw j, hrw j hj]
  exact concat_eq_enc ms hag j hj

example : ∃ ms : List (Info × StrFacts × Int × GoVal), ms ≠ [] ∧
    (∀ m, m ∈ ms → parseLeaf m.1 m.2.1 = .ok m.2.2.1) ∧ (∀ m, m ∈ ms → Fits m.1 m.2.2.2) ∧
    (∀ m, m ∈ ms → ∀ i, i < m.1.bits → ibit m.2.2.1 i = encLeaf m.1 m.2.2.2 i) :=
  ⟨[(.base .int 8 0, ⟨none, false, false, 2, none, some (-1)⟩, -1, .num true 8 (-1))], by simp,
    by simp [parseLeaf],
    by intro m hm; simp at hm; subst hm
       exact Fits.num .int 8 0 true 8 (-1) (Or.inl rfl) (by decide) (by decide) (fun _ => rfl),
    by intro m hm; simp at hm; subst hm; intro i _; rfl⟩

/-- member-level agreement for integers: the parsed number and the Go value
are the same number -/
theorem C13_member_agreement_int (t : Info) (st : StrFacts) (s : Bool) (w : Nat) (v : Int)
    (ht : t.tag = .int ∨ t.tag = .uint) (hnum : st.num = some v) :
    parseLeaf t st = .ok v ∧ ∀ i, ibit v i = encLeaf t (.num s w v) i := by
  refine ⟨?_, fun i => rfl⟩
  rcases ht with h | h <;> simp [parseLeaf, h, hnum]

/-- member-level agreement for bools (any of the six literals) -/
theorem C13_member_agreement_bool (n : Nat) (st : StrFacts) (b : Bool) (hb : st.boolLit = some b) :
    parseLeaf (.base .bool 1 n) st = .ok (if b then 1 else 0) ∧
      ∀ i, ibit (if b then 1 else 0) i = encLeaf (.base .bool 1 n) (.bool b) i := by
  cases b
  · refine ⟨by simp [parseLeaf, hb], fun i => ?_⟩
    simp only [encLeaf, Bool.and_false]
    show Nat.testBit 0 i = false
    simp
  · refine ⟨by simp [parseLeaf, hb], fun i => ?_⟩
    simp only [encLeaf, if_true, Bool.and_true]
    show Nat.testBit 1 i = decide (i = 0)
    cases i with
    | zero => rfl
    | succ k => simp [Nat.testBit_succ]

/-! ## Size inference with struct members (`types.Info.InstantiateWithSizes`) -/

/-- the argument of the demonstration program: `struct { n uint; key [8]byte; tag uint16 }` -/
def demoGarbler : Ty :=
  .struct true 80 0 0 [.base .uint false 0 0 0, .elem .array true 64 8 0 (.base .uint true 8 0 0),
    .base .uint true 16 0 64]

/-- `demoGarbler` instantiated from the inputs `5`, `0xa0a1`, `0x3132`: `n` is uint3, `key` stays `[8]uint8` on
wires 3..66, `tag` stays uint16 on wires 67..82 -/
def demoGarblerInst : Ty :=
  .struct true 83 0 0 [.base .uint true 3 0 0, .elem .array true 64 8 3 (.base .uint true 8 0 0),
    .base .uint true 16 0 67]

/-- Identity on sized types: a type in which every leaf has its declared size
(scalars / arrays with `IsConcrete`, structs of such members, at any nesting
depth) and which has the struct layout is returned unchanged, whatever the
size vector says (shorter, equal or longer literals than declared) — as long
as the vector has an entry for every member.  In particular the argument loop
of `Package.Compile` leaves it alone. -/
theorem C13_instantiate_identity_on_sized (t : Ty) (sizes : List Nat) (hs : t.sized = true)
    (hl : t.layoutOk = true) (hn : t.span ≤ sizes.length) :
    t.inst sizes = .ok t ∧ t.mainArgType sizes = .ok t := by
  refine ⟨Ty.inst_sized t sizes hs hl hn, ?_⟩
  unfold Ty.mainArgType
  split
  · rfl
  · exact Ty.inst_sized t sizes hs hl hn

/-- non-vacuity: `struct { a uint8; key [8]byte; p struct { x int4; f bool } }` with a short size vector entry for `key` -/
example : ∃ (t : Ty) (sizes : List Nat), t.sized = true ∧ t.layoutOk = true ∧ t.span ≤ sizes.length ∧
    t.inst sizes = .ok t :=
  ⟨.struct true 77 0 0 [.base .uint true 8 0 0, .elem .array true 64 8 8 (.base .uint true 8 0 0),
      .struct true 5 0 72 [.base .int true 4 0 0, .base .bool true 1 0 4]], [3, 16, 2, 1],
    by decide, by decide, by decide, C13_instantiate_identity_on_sized _ _ (by decide) (by decide) (by decide) |>.1⟩

/-- Only unsized leaves are touched (induction over the type): whenever
`InstantiateWithSizes` succeeds, the result has the same tags, the same
members in the same order, the same element types, and the same width and
length for every scalar/array that is `IsConcrete` — at any nesting depth
(`Ty.agree`); what it writes are the widths of unsized scalars, the lengths of
unsized arrays and of slices, and the struct bookkeeping, which comes out
consistent: offsets are the running sums of the member widths and a struct's
`Bits` is the sum of its members (`Ty.layoutOk`). -/
theorem C13_instantiate_touches_only_unsized (t t' : Ty) (sizes : List Nat) (h : t.inst sizes = .ok t') :
    t.agree t' ∧ t'.layoutOk = true :=
  ⟨Ty.inst_agree t sizes t' h, Ty.inst_layout t sizes t' h⟩

/-- non-vacuity, a struct mixing both: `struct { n uint; key [8]byte; tag uint16 }` instantiated from the inputs
`5`, `0xa0a1` (a SHORT literal for `key`), `0x3132`: `n` becomes uint3, `key` stays `[8]uint8` on wires 3..66, `tag`
stays uint16 on wires 67..82 -/
example : demoGarbler.inst [3, 16, 16] = .ok demoGarblerInst := rfl

/-- Sized members keep their type in the flattened argument: position by
position, a sized leaf of the declared type appears in `flattenStruct` of the
instantiated type with the `Info` that `IOArg.Parse` / `Set` / `Result` read
(same tag, width, length, element type).  With `C13_parse_compound_wires` /
`C13_set_compound_wires` (wires = members at the running offsets) this is the
statement that a fixed-size member's bits depend on its own text only. -/
theorem C13_instantiate_sized_members_keep_type (t t' : Ty) (sizes : List Nat) (h : t.inst sizes = .ok t') :
    t'.leaves.length = t.leaves.length ∧
    ∀ k (hk : k < t.leaves.length), t.leaves[k].sized = true →
      ∃ l', t'.leaves[k]? = some l' ∧ l'.toInfo = t.leaves[k].toInfo := by
  have hg := agreeAll_get _ _ (Ty.agree_leaves t t' (Ty.inst_agree t sizes t' h))
  refine ⟨hg.1, ?_⟩
  intro k hk hs
  obtain ⟨g, h1, h2⟩ := hg.2 k hk
  exact ⟨g, h1, Ty.agree_sized_toInfo _ g (Ty.leaves_not_struct t _ (List.getElem_mem hk)) hs h2⟩

example : ∃ (t t' : Ty) (sizes : List Nat) (k : Nat) (hk : k < t.leaves.length), t.inst sizes = .ok t' ∧
    t.leaves[k].sized = true ∧ t.concrete = false :=
  ⟨demoGarbler, demoGarblerInst, [3, 16, 16], 1, by decide, rfl, by decide, by decide⟩

/-- Inferred size of every unsized member, any nesting depth (the code since
commit 4a72a07): whenever `InstantiateWithSizes` succeeds, the k-th leaf of the
flattened argument — the one that receives the k-th input string — is what
that leaf alone becomes when instantiated from `sizes[k:]` (up to the `Offset`
bookkeeping field); in particular an unsized `int` / `uint` leaf gets width
`sizes[k]`, and a slice leaf gets `⌈sizes[k] / w⌉` elements of its element
width `w`.  With `C13_inferred_size_uint` / `C13_inferred_size_slice` (the size
`InputSizes` infers is the number of bits written) this is "the inferred input
sizes match what is written" for nested compound arguments. -/
theorem C13_instantiate_member_width (t t' : Ty) (sizes : List Nat) (h : t.inst sizes = .ok t') :
    t'.leaves.length = t.leaves.length ∧
    ∀ k (hk : k < t.leaves.length),
      (∃ l l', t.leaves[k].inst (sizes.drop k) = .ok l ∧ t'.leaves[k]? = some l' ∧ l'.setOff 0 = l.setOff 0) ∧
      (∀ tag b n o, t.leaves[k] = .base tag false b n o → (tag = .int ∨ tag = .uint) →
        ∃ s off, sizes[k]? = some s ∧ t'.leaves[k]? = some (.base tag true s n off)) ∧
      (∀ c b n o el, t.leaves[k] = .elem .slice c b n o el →
        ∃ s off, sizes[k]? = some s ∧
          t'.leaves[k]? = some (.elem .slice true (ceilDiv s el.bits * el.bits) (ceilDiv s el.bits) off el)) := by
  have H := Ty.inst_leaves t sizes t' h
  have hlen : t'.leaves.length = t.leaves.length := by
    have := congrArg List.length H
    simpa [instLeavesSpec_length] using this
  refine ⟨hlen, ?_⟩
  intro k hk
  have hk' : k < t'.leaves.length := by omega
  have Hk := congrArg (fun l => l[k]?) H
  simp only [List.getElem?_map, instLeavesSpec_get _ _ k hk, List.getElem?_eq_getElem hk', Option.map_some] at Hk
  have hmain : ∃ l, t.leaves[k].inst (sizes.drop k) = .ok l ∧ t'.leaves[k].setOff 0 = l.setOff 0 := by
    cases hi : t.leaves[k].inst (sizes.drop k) with
    | error e => rw [hi] at Hk; simp [Except.map] at Hk
    | ok l => rw [hi] at Hk; simp [Except.map] at Hk; exact ⟨l, rfl, Hk⟩
  obtain ⟨l, hl, hoff⟩ := hmain
  have hsz : ∀ s tl, sizes.drop k = s :: tl → sizes[k]? = some s := by
    intro s tl hd
    have := List.getElem?_drop (xs := sizes) (i := k) (j := 0)
    rw [hd] at this; simpa using this.symm
  refine ⟨⟨l, _, hl, List.getElem?_eq_getElem hk', hoff⟩, ?_, ?_⟩
  · intro tag b n o hleaf htag
    rw [hleaf] at hl
    cases hd : sizes.drop k with
    | nil => rw [hd] at hl; simp [Ty.inst] at hl
    | cons s tl =>
      rw [hd] at hl
      have hl' : l = .base tag true s n o := by
        rcases htag with rfl | rfl <;> simp [Ty.inst] at hl <;> exact hl.symm
      subst hl'
      refine ⟨s, (t'.leaves[k]).off, hsz s tl hd, ?_⟩
      rw [List.getElem?_eq_getElem hk']
      congr 1
      cases hg : t'.leaves[k] <;> rw [hg] at hoff <;> simp [Ty.setOff] at hoff
      obtain ⟨rfl, rfl, rfl, rfl⟩ := hoff
      simp [Ty.off]
  · intro c b n o el hleaf
    rw [hleaf] at hl
    cases hd : sizes.drop k with
    | nil => rw [hd] at hl; simp [Ty.inst] at hl
    | cons s tl =>
      rw [hd] at hl
      simp only [Ty.inst] at hl
      split at hl
      · simp at hl
      · split at hl
        · simp at hl
        · simp at hl; subst hl
          refine ⟨s, (t'.leaves[k]).off, hsz s tl hd, ?_⟩
          rw [List.getElem?_eq_getElem hk']
          congr 1
          cases hg : t'.leaves[k] <;> rw [hg] at hoff <;> simp [Ty.setOff] at hoff
          obtain ⟨rfl, rfl, rfl, rfl, rfl⟩ := hoff
          simp [Ty.off]

/-- non-vacuity, nested: `struct { in struct { x uint; y uint }; b uint }` with sizes 1, 8, 16 -/
example : ∃ (t t' : Ty) (sizes : List Nat) (k : Nat) (hk : k < t.leaves.length),
    t.inst sizes = .ok t' ∧ t.leaves[k] = .base .uint false 0 0 0 ∧ t.leaves.length = 3 :=
  ⟨.struct true 0 0 0 [.struct true 0 0 0 [.base .uint false 0 0 0, .base .uint false 0 0 0], .base .uint false 0 0 0],
    .struct true 25 0 0 [.struct true 9 0 0 [.base .uint true 1 0 0, .base .uint true 8 0 1], .base .uint true 16 0 9],
    [1, 8, 16], 2, by decide, rfl, rfl, rfl⟩

/-- The defect repaired by commit 4a72a07, about the OLD struct loop
(`Ty.instOld`: member `idx` received `sizes[idx:]`): for the nested struct
argument `struct { in struct { x uint; y uint }; b uint }` with the inputs `1`,
`255`, `65535` (sizes 1, 8, 16) member `b`, the third leaf, which receives the
third input, was instantiated from `sizes[1]`: it became uint8 and `Parse`
kept only the low 8 bits of 65535. -/
theorem C13_old_instantiate_nested_sizes_witness :
    let t : Ty := .struct true 0 0 0 [.struct true 0 0 0 [.base .uint false 0 0 0, .base .uint false 0 0 0],
      .base .uint false 0 0 0]
    (t.instOld [1, 8, 16]).toOption.map (fun t' => t'.leaves.map Ty.bits) = some [1, 8, 8] ∧
    (t.leaves.length = 3) := by
  decide

/-- …now correct: the same input on the repaired code, `b` is uint16 -/
example :
    let t : Ty := .struct true 0 0 0 [.struct true 0 0 0 [.base .uint false 0 0 0, .base .uint false 0 0 0],
      .base .uint false 0 0 0]
    (t.inst [1, 8, 16]).toOption.map (fun t' => t'.leaves.map Ty.bits) = some [1, 8, 16] := by
  decide

/-- the three input strings `5`, `0xa0a1`, `0x3132` as the facts the code reads -/
def demoInputs : List StrFacts :=
  [⟨none, false, false, 1, none, some 5⟩, ⟨none, false, true, 6, some (some 0, 4), some 0xa0a1⟩,
   ⟨none, false, true, 6, some (some 0, 4), some 0x3132⟩]

/-- End to end on the model (`InputSizes` → argument loop of `Compile` →
`flattenStruct` → `Parse`), the demonstration case: with a short literal for
the fixed-size member `key`, `n` = 5 sits on wires 0..2, the two given bytes
of `key` on wires 3..18 followed by 48 zero wires, `tag` on wires 67..82. -/
theorem C13_mainarg_short_literal_keeps_layout :
    (mainArg demoGarbler demoInputs).toOption.map (·.2) = some (5 + 0xa1a0 * 2 ^ 3 + 0x3132 * 2 ^ 67) ∧
    (mainArg demoGarbler demoInputs).toOption.map (·.1.ty.bits) = some 83 := by
  decide +kernel

example : (mainArg demoGarbler demoInputs).toOption.map (·.1) = some demoGarblerInst.toArg := rfl

end Mpc

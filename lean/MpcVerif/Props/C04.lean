/-
C04  Evaluator never receives both labels of a wire (offset stays secret).

Formalisation (DESIGN.md, C04): symbolic, with a free hash.  Literally "no two
transmitted values differ by R for all randomness" is false for degenerate
random tapes, so labels are formal GF(2)-combinations of atoms
(`R`, the input zero-labels `inp i`, and one atom per distinct hash query) and
the point-and-permute bits are an arbitrary valuation `σ` with `σ R = true`.
The SAME generic definitions (`garbleCore`, `Circuit.garble`,
`garblerFlight1`) that are executed byte-exactly against the Go code in C01 /
C02 are instantiated at this algebra.

Main theorem: for every well-formed two-party circuit, all inputs, every `σ`
and every hash model of the family (`code` separating x from x ⊕ R) there is a
GF(2)-linear functional that is 1 on R and 0 on every label in the evaluator's
view (all transmitted table rows, the garbler's input labels, the labels
obtained through OT).  Hence R is not in the linear span of the view: it is not
transmitted, no two transmitted values differ by R (never both labels of one
wire), and no XOR-combination of any number of them yields R.

The negative results (streaming mode restarts the tweak counter per
instruction; sha2pc sends both labels of its output wires) are at the end.
-/
import MpcVerif.Proofs.SymGarble
import MpcVerif.Proofs.Proto2

namespace Mpc.Sym
open Mpc LabelAlg
variable {Code : Type}

/-- Input zero-labels are fresh atoms. -/
noncomputable def symInl (σ : Atom Code → Bool) : Nat → SymL Code := fun i => atom σ (.inp i)

/-- Labels carried by a list of typed messages. -/
def msgLabels {L : Type} : List (Msg L) → List L
  | [] => []
  | .label l :: ms => l :: msgLabels ms
  | _ :: ms => msgLabels ms

/-- The evaluator's view of a whole-circuit session (labels only; key and
counts are public): everything the garbler sends in its first flight
(`Model/Proto2.lean`: all table rows and the garbler's own input labels) and
the labels the evaluator obtains through an ideal OT for its input bits. -/
def evaluatorView {L : Type} [LabelAlg L] (p : Circuit2) (key : List UInt8) (G : Garbled L)
    (x y : List Bool) : List L :=
  msgLabels (garblerFlight1 p key G x) ++
    List.zipWith (fun (w : WireL L) b => w.labelFor b)
      ((List.range p.n1).map fun i => G.wires.get (p.n0 + i))
      ((List.range p.n1).map fun i => y.getD i false)

/-- Initial functional: R and the input atoms whose bit is 1. -/
def S0 (n : Nat) (xy : List Bool) : List (Atom Code) :=
  .R :: ((List.range n).filter (fun i => xy.getD i false)).map .inp

open Classical in
theorem phi_inputs (σ : Atom Code → Bool) (n : Nat) (q : Nat → Bool) (w : Nat) :
    phi (((List.range n).filter q).map Atom.inp) (atom σ (.inp w)) = (decide (w < n) && q w) := by
  induction n with
  | zero => simp
  | succ n ih =>
    rw [List.range_succ, List.filter_append, List.map_append, phi_append, ih]
    by_cases hq : q n = true
    · simp only [List.filter_cons, hq, if_true, List.filter_nil, List.map_cons, List.map_nil,
        phi_cons, phi_nil, atom_f]
      by_cases hwn : w = n
      · subst hwn; simp [hq]
      · have : ¬ (Atom.inp n : Atom Code) = Atom.inp w := by
          intro h; injection h with h; exact hwn h.symm
        simp [this]
        by_cases hlt : w < n
        · simp [hlt, Nat.lt_succ_of_lt hlt]
        · have : ¬ w < n + 1 := by omega
          simp [hlt, this]
    · have hq' : q n = false := by simpa using hq
      simp only [List.filter_cons, hq', Bool.false_eq_true, if_false, List.filter_nil, List.map_nil,
        phi_nil]
      by_cases hwn : w = n
      · subst hwn; simp [hq']
      · by_cases hlt : w < n
        · simp [hlt, Nat.lt_succ_of_lt hlt]
        · have : ¬ w < n + 1 := by omega
          simp [hlt, this]

open Classical in
theorem phi_inputs_R (σ : Atom Code → Bool) (l : List Nat) :
    phi (l.map Atom.inp) (atom σ (.R : Atom Code)) = false := by
  induction l with
  | nil => rfl
  | cons i l ih => simp [ih, atom_f]

theorem mem_msgLabels_flight1 {L : Type} [LabelAlg L] (p : Circuit2) (key : List UInt8)
    (G : Garbled L) (x : List Bool) (t : L)
    (ht : t ∈ msgLabels (garblerFlight1 p key G x)) :
    (∃ rows ∈ G.rows, t ∈ rows) ∨ t ∈ garblerInputLabels p G x := by
  have hl : ∀ (ls : List L), msgLabels (ls.map Msg.label) = ls := by
    intro ls; induction ls with
    | nil => rfl
    | cons l ls ih => simp [msgLabels, ih]
  have happ : ∀ (a b : List (Msg L)), msgLabels (a ++ b) = msgLabels a ++ msgLabels b := by
    intro a b; induction a with
    | nil => rfl
    | cons m a ih => cases m <;> simp [msgLabels, ih]
  have hrows : ∀ (rows : List (List L)),
      msgLabels (rows.flatMap (fun row => Msg.u32 row.length :: row.map Msg.label)) = rows.flatten := by
    intro rows; induction rows with
    | nil => rfl
    | cons r rs ih => simp [List.flatMap_cons, happ, msgLabels, hl, ih]
  simp only [garblerFlight1, tablesMsgs, msgLabels, happ, hl, hrows, List.mem_append,
    List.mem_flatten] at ht
  rcases ht with ⟨rows, hr, htr⟩ | h
  · exact Or.inl ⟨rows, hr, htr⟩
  · exact Or.inr h

/-- **C04 (whole-circuit mode).**  A linear functional that is 1 on the
secret offset and 0 on every label the evaluator sees. -/
theorem C04_whole_circuit (σ : Atom Code → Bool) (hσ : σ .R = true) (code : SymL Code → Code)
    (hsep : Separates σ code) (p : Circuit2) (hwf : p.WF = true) (key : List UInt8)
    (x y : List Bool) (hx : x.length = p.n0) :
    ∃ S : List (Atom Code), phi S (symR σ) = true ∧
      ∀ t ∈ evaluatorView p key (p.c.garble (symHash σ code) (symR σ) (symInl σ)) x y,
        phi S t = false := by
  simp only [Circuit2.WF, Bool.and_eq_true, decide_eq_true_eq] at hwf
  obtain ⟨⟨⟨hcwf, hn⟩, _⟩, _⟩ := hwf
  have hcwf' := hcwf
  simp only [Circuit.WF, Bool.and_eq_true, decide_eq_true_eq, List.all_eq_true] at hcwf'
  obtain ⟨⟨⟨hnin, _⟩, hwfg⟩, _⟩ := hcwf'
  let xy := x ++ y
  let ws0 : Store (WireL (SymL Code)) :=
    (Array.range p.c.numWires).map fun i =>
      if i < p.c.nIn then ⟨symInl σ i, symInl σ i ^^^ symR σ⟩ else default
  let pv0 := initStore p.c.numWires false (xy.take p.c.nIn)
  have hG : p.c.garble (symHash σ code) (symR σ) (symInl σ) =
      { r := symR σ, wires := (garbleGates (symHash σ code) (symR σ) p.c.gates ws0 0).1,
        rows := (garbleGates (symHash σ code) (symR σ) p.c.gates ws0 0).2.2 } := rfl
  -- initial invariant
  have hinv0 : InvS σ p.c.inputDefined ws0 pv0 0 (S0 p.c.nIn xy) := by
    refine ⟨?_, ?_, ?_⟩
    · intro w hw
      simp only [Circuit.inputDefined, decide_eq_true_eq] at hw
      have hwn : w < p.c.numWires := by omega
      simp only [ws0, pv0, initStore]
      rw [get_range_map' _ _ _ hwn, get_range_map' _ _ _ hwn]
      simp only [hw, if_true, true_and]
      refine ⟨?_, ?_⟩
      · simp only [S0, symInl, phi_cons, atom_f]
        rw [phi_inputs]
        have : (List.take p.c.nIn xy).getD w false = xy.getD w false := by
          simp [List.getD, hw]
        rw [this]
        have h2 : ¬ (Atom.R : Atom Code) = Atom.inp w := by intro h; cases h
        simp [h2, hw]
      · exact Below.atom σ _ 0 (by intro t h; cases h)
    · intro a ha t hat
      simp only [S0, List.mem_cons, List.mem_map] at ha
      rcases ha with h | ⟨i, _, h⟩
      · subst h; cases hat
      · subst h; cases hat
    · simp only [S0, symR, phi_cons, atom_f, phi_inputs_R]
      simp
  obtain ⟨hrows, hinv, hstab, _⟩ := gates_phi σ hσ code hsep p.c.numWires p.c.gates p.c.inputDefined
    ws0 pv0 0 (S0 p.c.nIn xy) (by simp [ws0]) (by simp [pv0, initStore]) hwfg hinv0
  refine ⟨phiGates σ code p.c.gates ws0 pv0 0 (S0 p.c.nIn xy), hinv.2.2, ?_⟩
  -- value of the functional on the active label of an input wire
  have hact : ∀ i, i < p.c.nIn →
      phi (phiGates σ code p.c.gates ws0 pv0 0 (S0 p.c.nIn xy))
        (((p.c.garble (symHash σ code) (symR σ) (symInl σ)).wires.get i).labelFor
          (xy.getD i false)) = false := by
    intro i hi
    rw [garble_input_wires _ p.c _ _ hcwf i hi]
    have hB : Below 0 (symInl σ i) := Below.atom σ _ 0 (by intro t h; cases h)
    have h0 : phi (S0 p.c.nIn xy) (symInl σ i) = xy.getD i false := by
      simp only [S0, symInl, phi_cons, atom_f]
      rw [phi_inputs]
      have h2 : ¬ (Atom.R : Atom Code) = Atom.inp i := by intro h; cases h
      simp [h2, hi]
    cases hb : xy.getD i false with
    | false =>
      simp only [WireL.labelFor, Bool.false_eq_true, if_false]
      rw [hstab _ hB, h0, hb]
    | true =>
      simp only [WireL.labelFor, if_true]
      rw [phi_xor, hstab _ hB, h0, hb, hinv.2.2]
      rfl
  intro t ht
  simp only [evaluatorView, List.mem_append] at ht
  rcases ht with ht | ht
  · rcases mem_msgLabels_flight1 p key _ x t ht with ⟨rows, hr, htr⟩ | hin
    · rw [hG] at hr
      exact hrows rows hr t htr
    · simp only [garblerInputLabels, List.mem_map, List.mem_range] at hin
      obtain ⟨i, hi, rfl⟩ := hin
      have := hact i (by omega)
      have hxi : xy.getD i false = x.getD i false := by
        simp only [xy, List.getD_eq_getElem?_getD]
        rw [List.getElem?_append_left (by omega)]
      rw [hxi] at this
      exact this
  · rw [List.zipWith_map_left, List.zipWith_map_right] at ht
    simp only [List.zipWith_self, List.mem_map, List.mem_range] at ht
    obtain ⟨i, hi, rfl⟩ := ht
    have := hact (p.n0 + i) (by omega)
    have hyi : xy.getD (p.n0 + i) false = y.getD i false := by
      simp only [xy, List.getD_eq_getElem?_getD]
      rw [List.getElem?_append_right (by omega), hx]
      simp
    rw [hyi] at this
    exact this

/-- The offset is not in the GF(2)-span of the evaluator's view: no XOR of any
number of transmitted labels equals R. -/
theorem C04_offset_not_in_span (σ : Atom Code → Bool) (hσ : σ .R = true)
    (code : SymL Code → Code) (hsep : Separates σ code) (p : Circuit2) (hwf : p.WF = true)
    (key : List UInt8) (x y : List Bool) (hx : x.length = p.n0) :
    ¬ InSpan (fun t => t ∈ evaluatorView p key
        (p.c.garble (symHash σ code) (symR σ) (symInl σ)) x y) (symR σ) := by
  obtain ⟨S, hR, hT⟩ := C04_whole_circuit σ hσ code hsep p hwf key x y hx
  intro hspan
  have := phi_span S _ hT _ hspan
  rw [hR] at this
  cases this

/-- The offset itself is never transmitted, and the evaluator never holds
both labels of a wire: no two labels of its view differ by R. -/
theorem C04_no_two_labels_of_a_wire (σ : Atom Code → Bool) (hσ : σ .R = true)
    (code : SymL Code → Code) (hsep : Separates σ code) (p : Circuit2) (hwf : p.WF = true)
    (key : List UInt8) (x y : List Bool) (hx : x.length = p.n0) :
    let V := evaluatorView p key (p.c.garble (symHash σ code) (symR σ) (symInl σ)) x y
    (∀ t ∈ V, t ≠ symR σ) ∧ (∀ t ∈ V, ∀ u ∈ V, t ^^^ u ≠ symR σ) := by
  intro V
  have hns := C04_offset_not_in_span σ hσ code hsep p hwf key x y hx
  constructor
  · intro t ht heq
    have h := InSpan.mem (T := fun t => t ∈ V) ht
    rw [heq] at h
    exact hns h
  · intro t ht u hu heq
    have h := InSpan.xor (InSpan.mem (T := fun t => t ∈ V) ht) (InSpan.mem hu)
    rw [heq] at h
    exact hns h

/-! ### Non-vacuity: the coarsest hash model of the family separates. -/

open Classical in
/-- Code = "does the argument contain R". -/
noncomputable def coarseCode : SymL Bool → Bool := fun x => x.f .R

theorem coarse_separates (σ : Atom Bool → Bool) : Separates σ coarseCode := by
  intro x h
  simp only [coarseCode, xor_f, symR, atom_f] at h
  cases hx : x.f Atom.R <;> simp [hx] at h

example : ∃ σ : Atom Bool → Bool, σ .R = true ∧ Separates σ coarseCode :=
  ⟨fun _ => true, rfl, coarse_separates _⟩

/-! ### Tweak reuse leaks the offset (streaming mode on the pinned tree)

In ANY label algebra and for ANY hash: if two AND gates with the same first
input wire are garbled with the same tweak (the streaming garbler restarted its
tweak counter at 0 for every instruction), the first rows of their tables XOR
to the offset whenever the permute bits of their second inputs differ. -/
theorem C04_tweak_reuse_leaks {L : Type} [LabelAlg L] (H : Hash L) (r : L) (a b c : WireL L) (id : Nat)
    (hp : sbit b.l0 ≠ sbit c.l0) (tg te tg' te' : L)
    (h1 : (garbleCore H r .and a b id).2 = [tg, te]) (h2 : (garbleCore H r .and a c id).2 = [tg', te']) :
    tg ^^^ tg' = r := by
  simp only [garbleCore, List.cons.injEq, and_true] at h1 h2
  obtain ⟨h1, _⟩ := h1
  obtain ⟨h2, _⟩ := h2
  subst h1 h2
  cases hb : sbit b.l0 <;> cases hc : sbit c.l0 <;>
    simp_all [xor_comm', xor_left_comm']

/-- With distinct tweaks the same two gates are covered by `C04_whole_circuit`
(they are two gates of one gate list with a running counter): this is what a
persistent tweak counter across streamed instructions establishes. -/
theorem C04_stream_partial (σ : Atom Code → Bool) (hσ : σ .R = true) (code : SymL Code → Code)
    (hsep : Separates σ code) (p : Circuit2) (hwf : p.WF = true) (key : List UInt8)
    (x y : List Bool) (hx : x.length = p.n0) :
    ¬ InSpan (fun t => t ∈ evaluatorView p key
        (p.c.garble (symHash σ code) (symR σ) (symInl σ)) x y) (symR σ) :=
  C04_offset_not_in_span σ hσ code hsep p hwf key x y hx

/-- **Streaming mode on the pinned tree leaked the offset.**  Two streamed
instructions `w3 := w0 & w1` and `w4 := w0 & w2` (e.g. `a & b` and `a & c`),
garbled with the per-instruction tweak restart (`persistent = false`), in ANY
label algebra with ANY hash: the first rows of the two transmitted tables XOR
to the offset whenever the permute bits of `w1` and `w2` differ.  (Replayed on
the real code by `c04 stream`, case 0; repaired by fix 956e0fd.) -/
theorem C04_stream_restart_leaks {L : Type} [LabelAlg L] (H : Hash L) (r : L)
    (ws : Store (WireL L)) (id : Nat)
    (hp : sbit (ws.get 1).l0 ≠ sbit (ws.get 2).l0) (tg te tg' te' : L)
    (hrows : (streamGarble H r false [[⟨.and, 0, 1, 3⟩], [⟨.and, 0, 2, 4⟩]] ws id).2.2 =
        [[tg, te], [tg', te']]) :
    tg ^^^ tg' = r := by
  have h0 : (Store.set ws 3 (garbleCore H r .and (ws.get 0) (ws.get 1) 0).1).get 0 = ws.get 0 :=
    Store.get_set_ne _ _ _ _ (by decide)
  have h2 : (Store.set ws 3 (garbleCore H r .and (ws.get 0) (ws.get 1) 0).1).get 2 = ws.get 2 :=
    Store.get_set_ne _ _ _ _ (by decide)
  simp only [streamGarble, garbleGates, garbleGate, Bool.false_eq_true, if_false, h0, h2,
    List.append_nil, List.cons_append, List.nil_append, List.cons.injEq, and_true] at hrows
  obtain ⟨h1, h2'⟩ := hrows
  exact C04_tweak_reuse_leaks H r (ws.get 0) (ws.get 1) (ws.get 2) 0 hp tg te tg' te' h1 h2'

/-- The hypothesis of `C04_stream_restart_leaks` is satisfiable: the two
streamed AND gates always produce two rows each. -/
theorem C04_stream_restart_rows {L : Type} [LabelAlg L] (H : Hash L) (r : L)
    (ws : Store (WireL L)) (id : Nat) :
    ((streamGarble H r false [[⟨.and, 0, 1, 3⟩], [⟨.and, 0, 2, 4⟩]] ws id).2.2.map List.length) =
      [2, 2] := by
  simp [streamGarble, garbleGates, garbleGate, garbleCore]

/-- With the persistent counter the streamed instructions are one gate list
garbled with a running tweak, so `C04_whole_circuit` covers streaming mode. -/
theorem C04_stream_is_whole {L : Type} [LabelAlg L] (H : Hash L) (r : L)
    (steps : List (List Gate)) (ws : Store (WireL L)) (id : Nat) :
    streamGarble H r true steps ws id = garbleGates H r steps.flatten ws id :=
  streamGarble_persistent H r steps ws id

/-- sha2pc round 3 (`OutputHints`) transmits both labels of every output
wire: in any label algebra their XOR is the offset. -/
theorem C04_both_labels_leak {L : Type} [LabelAlg L] (r : L) (w : WireL L) (h : w.l1 = w.l0 ^^^ r) :
    w.l0 ^^^ w.l1 = r := by
  rw [h]; simp

/-! ### The evaluator's OT request (a deviating evaluator)

The only message by which the evaluator influences what the garbler transmits
before the result phase is the wire range `(offset, count)` it asks labels for.
`circuit.Garbler` refuses everything but `(n0, n1)` (`Circuit2.acceptsOtRange`,
tied to the real code by the `range` sessions of the C04 harness). -/

/-- The evaluator's view when it asks the OT for the wires
`offset .. offset+count-1` with choice flags of its own. -/
def evaluatorViewReq {L : Type} [LabelAlg L] (p : Circuit2) (key : List UInt8) (G : Garbled L)
    (x : List Bool) (offset count : Nat) (flags : List Bool) : List L :=
  msgLabels (garblerFlight1 p key G x) ++
    List.zipWith (fun (w : WireL L) b => w.labelFor b)
      ((List.range count).map fun i => G.wires.get (offset + i))
      ((List.range count).map fun i => flags.getD i false)

/-- A request the garbler accepts gives the evaluator exactly the honest view
for the choice bits it used: the secrecy theorems above (`C04_whole_circuit`,
`C04_no_two_labels_of_a_wire`, quantified over every `y`) cover every
evaluator whose request passes the guard. -/
theorem C04_ot_range_guard {L : Type} [LabelAlg L] (p : Circuit2) (key : List UInt8) (G : Garbled L)
    (x : List Bool) (offset count : Nat) (flags : List Bool)
    (h : p.acceptsOtRange offset count = true) :
    evaluatorViewReq p key G x offset count flags = evaluatorView p key G x flags := by
  simp only [Circuit2.acceptsOtRange, Bool.and_eq_true, beq_iff_eq] at h
  obtain ⟨ho, hc⟩ := h
  subst ho; subst hc
  rfl

/-! Non-vacuity of the guard: the honest request passes, requests with the right end
but another start do not. -/
example : ({ c := default, n0 := 2, n1 := 3, outWidths := [] } : Circuit2).acceptsOtRange 2 3 = true := rfl
example : ({ c := default, n0 := 2, n1 := 3, outWidths := [] } : Circuit2).acceptsOtRange 0 5 = false := rfl
example : ({ c := default, n0 := 2, n1 := 3, outWidths := [] } : Circuit2).acceptsOtRange 1 4 = false := rfl

/-- Why the guard is needed: if a request reaching into the garbler's own
input wires were served (offset 0), then for every garbler input bit that is 1
the evaluator would hold the label sent in the clear and, by choosing 0 in the
OT, the other label of the same wire: their XOR is the offset. -/
theorem C04_ot_range_unguarded_leaks {L : Type} [LabelAlg L] (H : Hash L) (p : Circuit2)
    (hwf : p.WF = true) (key : List UInt8) (r : L) (inl : Nat → L) (x : List Bool)
    (i : Nat) (hi : i < p.n0) (hx : x.getD i false = true) (count : Nat) (hic : i < count) :
    let G := p.c.garble H r inl
    let V := evaluatorViewReq p key G x 0 count []
    ∃ t ∈ V, ∃ u ∈ V, t ^^^ u = r := by
  intro G V
  simp only [Circuit2.WF, Bool.and_eq_true, decide_eq_true_eq] at hwf
  obtain ⟨⟨⟨hcwf, hnin⟩, _⟩, _⟩ := hwf
  have hwire : G.wires.get i = ⟨inl i, inl i ^^^ r⟩ :=
    garble_input_wires H p.c r inl hcwf i (by omega)
  have hl : ∀ (ls : List L), msgLabels (ls.map Msg.label) = ls := by
    intro ls; induction ls with
    | nil => rfl
    | cons l ls ih => simp [msgLabels, ih]
  have happ : ∀ (a b : List (Msg L)), msgLabels (a ++ b) = msgLabels a ++ msgLabels b := by
    intro a b; induction a with
    | nil => rfl
    | cons m a ih => cases m <;> simp [msgLabels, ih]
  refine ⟨inl i ^^^ r, ?_, inl i, ?_, ?_⟩
  · -- the clear label of garbler wire i (input bit 1)
    apply List.mem_append_left
    simp only [garblerFlight1, msgLabels, happ, hl]
    apply List.mem_append_right
    simp only [garblerInputLabels, List.mem_map, List.mem_range]
    exact ⟨i, hi, by rw [hwire, hx]; rfl⟩
  · -- the label obtained through the OT with choice 0
    apply List.mem_append_right
    simp only [List.zipWith_map_left, List.zipWith_map_right, List.zipWith_self, List.mem_map,
      List.mem_range]
    exact ⟨i, hic, by simp [hwire, WireL.labelFor]⟩
  · simp [xor_assoc', xor_comm', xor_left_comm']

end Mpc.Sym

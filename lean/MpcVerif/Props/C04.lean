/-
C04  Evaluator never receives both labels of a wire (offset stays secret).

Formalisation (DESIGN.md, C04): symbolic, with a free hash.  Literally "no two
transmitted values differ by R for all randomness" is false for degenerate
random tapes, so labels are formal GF(2)-combinations of atoms
(`R`, the input zero-labels `inp i`, and one atom per distinct hash query) and
the point-and-permute bits are an arbitrary valuation `σ` with `σ R = true`.
The SAME generic definitions (`garbleCore`, `Circuit.garble`,
`garblerFlight1`) that are executed byte-exactly against the Go code in C01 /
C02 are instantiated at this algebra.

Main theorem: for every well-formed two-party circuit, all inputs, every `σ`
and every hash model of the family (`code` separating x from x ⊕ R) there is a
GF(2)-linear functional that is 1 on R and 0 on every label in the evaluator's
view (all transmitted table rows, the garbler's input labels, the labels
obtained through OT).  Hence R is not in the linear span of the view: it is not
transmitted, no two transmitted values differ by R (never both labels of one
wire), and no XOR-combination of any number of them yields R.

The negative results (streaming mode restarts the tweak counter per
instruction; sha2pc sends both labels of its output wires) follow.

Streaming mode, gate by gate: the gate loop is stated for an arbitrary per-kind
tweak accounting (`Model/TweakAcc.lean`); every SAFE accounting — the code's is
one — keeps the offset out of the span of the evaluator's view of any stream of
instruction circuits (`C04_stream_safe_accounting`,
`C04_stream_no_two_labels_of_a_wire`), and an accounting that reserves no tweak
for the unary gate leaks it (`C04_inv_zero_tweak_stream_leaks`).

Last section: a garbler PROCESS that serves several overlapping sessions on one
shared circuit value, the garbling scratch of all of them drawn from that
circuit's pool (`Model/GarblerProc.lean` on top of the ownership model of C17 /
C01).  For the code as it is (`circuit.Garbler` never releases its garbling)
every session's OT and result loop read the session's OWN garbling on every
history (`C04_proc_serves_own`, `C04_proc_ot_serves_own_wires`), and then the
UNION of everything all evaluators of the process obtain does not span any
session's offset (`C04_process_offset_not_in_span`, `C04_process_secrecy`).
What the property excludes is exhibited too: a garbler that returns its scratch
to the pool before its last use serves another session's wire pairs
(`C04_proc_early_release_serves_foreign`), and two evaluators that are served
the wire pairs of ONE garbling with different choice bits hold both labels of a
wire (`C04_foreign_wires_two_labels`).
-/
import MpcVerif.Proofs.SymGarble
import MpcVerif.Proofs.Proto2
import MpcVerif.Proofs.SymProc
import MpcVerif.Proofs.GarblerProc
import MpcVerif.Proofs.PoolGarble
import MpcVerif.Proofs.SymAcc
import MpcVerif.Proofs.StreamDef

namespace Mpc.Sym
open Mpc LabelAlg
variable {Code : Type}

/-- Input zero-labels are fresh atoms. -/
noncomputable def symInl (σ : Atom Code → Bool) : Nat → SymL Code := fun i => atom σ (.inp i)

/-- Labels carried by a list of typed messages. -/
def msgLabels {L : Type} : List (Msg L) → List L
  | [] => []
  | .label l :: ms => l :: msgLabels ms
  | _ :: ms => msgLabels ms

/-- The evaluator's view of a whole-circuit session (labels only; key and
counts are public): everything the garbler sends in its first flight
(`Model/Proto2.lean`: all table rows and the garbler's own input labels) and
the labels the evaluator obtains through an ideal OT for its input bits. -/
def evaluatorView {L : Type} [LabelAlg L] (p : Circuit2) (key : List UInt8) (G : Garbled L)
    (x y : List Bool) : List L :=
  msgLabels (garblerFlight1 p key G x) ++
    List.zipWith (fun (w : WireL L) b => w.labelFor b)
      ((List.range p.n1).map fun i => G.wires.get (p.n0 + i))
      ((List.range p.n1).map fun i => y.getD i false)

/-- Initial functional: R and the input atoms whose bit is 1. -/
def S0 (n : Nat) (xy : List Bool) : List (Atom Code) :=
  .R :: ((List.range n).filter (fun i => xy.getD i false)).map .inp

open Classical in
theorem phi_inputs (σ : Atom Code → Bool) (n : Nat) (q : Nat → Bool) (w : Nat) :
    phi (((List.range n).filter q).map Atom.inp) (atom σ (.inp w)) = (decide (w < n) && q w) := by
  induction n with
  | zero => simp
  | succ n ih =>
    rw [List.range_succ, List.filter_append, List.map_append, phi_append, ih]
    by_cases hq : q n = true
    · simp only [List.filter_cons, hq, if_true, List.filter_nil, List.map_cons, List.map_nil,
        phi_cons, phi_nil, atom_f]
      by_cases hwn : w = n
      · subst hwn; simp [hq]
      · have : ¬ (Atom.inp n : Atom Code) = Atom.inp w := by
          intro h; injection h with h; exact hwn h.symm
        simp [this]
        by_cases hlt : w < n
        · simp [hlt, Nat.lt_succ_of_lt hlt]
        · have : ¬ w < n + 1 := by omega
          simp [hlt, this]
    · have hq' : q n = false := by simpa using hq
      simp only [List.filter_cons, hq', Bool.false_eq_true, if_false, List.filter_nil, List.map_nil,
        phi_nil]
      by_cases hwn : w = n
      · subst hwn; simp [hq']
      · by_cases hlt : w < n
        · simp [hlt, Nat.lt_succ_of_lt hlt]
        · have : ¬ w < n + 1 := by omega
          simp [hlt, this]

open Classical in
theorem phi_inputs_R (σ : Atom Code → Bool) (l : List Nat) :
    phi (l.map Atom.inp) (atom σ (.R : Atom Code)) = false := by
  induction l with
  | nil => rfl
  | cons i l ih => simp [ih, atom_f]

theorem mem_msgLabels_flight1 {L : Type} [LabelAlg L] (p : Circuit2) (key : List UInt8)
    (G : Garbled L) (x : List Bool) (t : L)
    (ht : t ∈ msgLabels (garblerFlight1 p key G x)) :
    (∃ rows ∈ G.rows, t ∈ rows) ∨ t ∈ garblerInputLabels p G x := by
  have hl : ∀ (ls : List L), msgLabels (ls.map Msg.label) = ls := by
    intro ls; induction ls with
    | nil => rfl
    | cons l ls ih => simp [msgLabels, ih]
  have happ : ∀ (a b : List (Msg L)), msgLabels (a ++ b) = msgLabels a ++ msgLabels b := by
    intro a b; induction a with
    | nil => rfl
    | cons m a ih => cases m <;> simp [msgLabels, ih]
  have hrows : ∀ (rows : List (List L)),
      msgLabels (rows.flatMap (fun row => Msg.u32 row.length :: row.map Msg.label)) = rows.flatten := by
    intro rows; induction rows with
    | nil => rfl
    | cons r rs ih => simp [List.flatMap_cons, happ, msgLabels, hl, ih]
  simp only [garblerFlight1, tablesMsgs, msgLabels, happ, hl, hrows, List.mem_append,
    List.mem_flatten] at ht
  rcases ht with ⟨rows, hr, htr⟩ | h
  · exact Or.inl ⟨rows, hr, htr⟩
  · exact Or.inr h

/-- **C04 (whole-circuit mode).**  A linear functional that is 1 on the
secret offset and 0 on every label the evaluator sees. -/
theorem C04_whole_circuit (σ : Atom Code → Bool) (hσ : σ .R = true) (code : SymL Code → Code)
    (hsep : Separates σ code) (p : Circuit2) (hwf : p.WF = true) (key : List UInt8)
    (x y : List Bool) (hx : x.length = p.n0) :
    ∃ S : List (Atom Code), phi S (symR σ) = true ∧
      ∀ t ∈ evaluatorView p key (p.c.garble (symHash σ code) (symR σ) (symInl σ)) x y,
        phi S t = false := by
  simp only [Circuit2.WF, Bool.and_eq_true, decide_eq_true_eq] at hwf
  obtain ⟨⟨⟨hcwf, hn⟩, _⟩, _⟩ := hwf
  have hcwf' := hcwf
  simp only [Circuit.WF, Bool.and_eq_true, decide_eq_true_eq, List.all_eq_true] at hcwf'
  obtain ⟨⟨⟨hnin, _⟩, hwfg⟩, _⟩ := hcwf'
  let xy := x ++ y
  let ws0 : Store (WireL (SymL Code)) :=
    (Array.range p.c.numWires).map fun i =>
      if i < p.c.nIn then ⟨symInl σ i, symInl σ i ^^^ symR σ⟩ else default
  let pv0 := initStore p.c.numWires false (xy.take p.c.nIn)
  have hG : p.c.garble (symHash σ code) (symR σ) (symInl σ) =
      { r := symR σ, wires := (garbleGates (symHash σ code) (symR σ) p.c.gates ws0 0).1,
        rows := (garbleGates (symHash σ code) (symR σ) p.c.gates ws0 0).2.2 } := rfl
  -- initial invariant
  have hinv0 : InvS σ p.c.inputDefined ws0 pv0 0 (S0 p.c.nIn xy) := by
    refine ⟨?_, ?_, ?_⟩
    · intro w hw
      simp only [Circuit.inputDefined, decide_eq_true_eq] at hw
      have hwn : w < p.c.numWires := by omega
      simp only [ws0, pv0, initStore]
      rw [get_range_map' _ _ _ hwn, get_range_map' _ _ _ hwn]
      simp only [hw, if_true, true_and]
      refine ⟨?_, ?_⟩
      · simp only [S0, symInl, phi_cons, atom_f]
        rw [phi_inputs]
        have : (List.take p.c.nIn xy).getD w false = xy.getD w false := by
          simp [List.getD, hw]
        rw [this]
        have h2 : ¬ (Atom.R : Atom Code) = Atom.inp w := by intro h; cases h
        simp [h2, hw]
      · exact Below.atom σ _ 0 (by intro t h; cases h)
    · intro a ha t hat
      simp only [S0, List.mem_cons, List.mem_map] at ha
      rcases ha with h | ⟨i, _, h⟩
      · subst h; cases hat
      · subst h; cases hat
    · simp only [S0, symR, phi_cons, atom_f, phi_inputs_R]
      simp
  obtain ⟨hrows, hinv, hstab, _⟩ := gates_phi σ hσ code hsep p.c.numWires p.c.gates p.c.inputDefined
    ws0 pv0 0 (S0 p.c.nIn xy) (by simp [ws0]) (by simp [pv0, initStore]) hwfg hinv0
  refine ⟨phiGates σ code p.c.gates ws0 pv0 0 (S0 p.c.nIn xy), hinv.2.2, ?_⟩
  -- value of the functional on the active label of an input wire
  have hact : ∀ i, i < p.c.nIn →
      phi (phiGates σ code p.c.gates ws0 pv0 0 (S0 p.c.nIn xy))
        (((p.c.garble (symHash σ code) (symR σ) (symInl σ)).wires.get i).labelFor
          (xy.getD i false)) = false := by
    intro i hi
    rw [garble_input_wires _ p.c _ _ hcwf i hi]
    have hB : Below 0 (symInl σ i) := Below.atom σ _ 0 (by intro t h; cases h)
    have h0 : phi (S0 p.c.nIn xy) (symInl σ i) = xy.getD i false := by
      simp only [S0, symInl, phi_cons, atom_f]
      rw [phi_inputs]
      have h2 : ¬ (Atom.R : Atom Code) = Atom.inp i := by intro h; cases h
      simp [h2, hi]
    cases hb : xy.getD i false with
    | false =>
      simp only [WireL.labelFor, Bool.false_eq_true, if_false]
      rw [hstab _ hB, h0, hb]
    | true =>
      simp only [WireL.labelFor, if_true]
      rw [phi_xor, hstab _ hB, h0, hb, hinv.2.2]
      rfl
  intro t ht
  simp only [evaluatorView, List.mem_append] at ht
  rcases ht with ht | ht
  · rcases mem_msgLabels_flight1 p key _ x t ht with ⟨rows, hr, htr⟩ | hin
    · rw [hG] at hr
      exact hrows rows hr t htr
    · simp only [garblerInputLabels, List.mem_map, List.mem_range] at hin
      obtain ⟨i, hi, rfl⟩ := hin
      have := hact i (by omega)
      have hxi : xy.getD i false = x.getD i false := by
        simp only [xy, List.getD_eq_getElem?_getD]
        rw [List.getElem?_append_left (by omega)]
      rw [hxi] at this
      exact this
  · rw [List.zipWith_map_left, List.zipWith_map_right] at ht
    simp only [List.zipWith_self, List.mem_map, List.mem_range] at ht
    obtain ⟨i, hi, rfl⟩ := ht
    have := hact (p.n0 + i) (by omega)
    have hyi : xy.getD (p.n0 + i) false = y.getD i false := by
      simp only [xy, List.getD_eq_getElem?_getD]
      rw [List.getElem?_append_right (by omega), hx]
      simp
    rw [hyi] at this
    exact this

/-- The offset is not in the GF(2)-span of the evaluator's view: no XOR of any
number of transmitted labels equals R. -/
theorem C04_offset_not_in_span (σ : Atom Code → Bool) (hσ : σ .R = true)
    (code : SymL Code → Code) (hsep : Separates σ code) (p : Circuit2) (hwf : p.WF = true)
    (key : List UInt8) (x y : List Bool) (hx : x.length = p.n0) :
    ¬ InSpan (fun t => t ∈ evaluatorView p key
        (p.c.garble (symHash σ code) (symR σ) (symInl σ)) x y) (symR σ) := by
  obtain ⟨S, hR, hT⟩ := C04_whole_circuit σ hσ code hsep p hwf key x y hx
  intro hspan
  have := phi_span S _ hT _ hspan
  rw [hR] at this
  cases this

/-- The offset itself is never transmitted, and the evaluator never holds
both labels of a wire: no two labels of its view differ by R. -/
theorem C04_no_two_labels_of_a_wire (σ : Atom Code → Bool) (hσ : σ .R = true)
    (code : SymL Code → Code) (hsep : Separates σ code) (p : Circuit2) (hwf : p.WF = true)
    (key : List UInt8) (x y : List Bool) (hx : x.length = p.n0) :
    let V := evaluatorView p key (p.c.garble (symHash σ code) (symR σ) (symInl σ)) x y
    (∀ t ∈ V, t ≠ symR σ) ∧ (∀ t ∈ V, ∀ u ∈ V, t ^^^ u ≠ symR σ) := by
  intro V
  have hns := C04_offset_not_in_span σ hσ code hsep p hwf key x y hx
  constructor
  · intro t ht heq
    have h := InSpan.mem (T := fun t => t ∈ V) ht
    rw [heq] at h
    exact hns h
  · intro t ht u hu heq
    have h := InSpan.xor (InSpan.mem (T := fun t => t ∈ V) ht) (InSpan.mem hu)
    rw [heq] at h
    exact hns h

/-! ### Non-vacuity: the coarsest hash model of the family separates. -/

open Classical in
/-- Code = "does the argument contain R". -/
noncomputable def coarseCode : SymL Bool → Bool := fun x => x.f .R

theorem coarse_separates (σ : Atom Bool → Bool) : Separates σ coarseCode := by
  intro x h
  simp only [coarseCode, xor_f, symR, atom_f] at h
  cases hx : x.f Atom.R <;> simp [hx] at h

example : ∃ σ : Atom Bool → Bool, σ .R = true ∧ Separates σ coarseCode :=
  ⟨fun _ => true, rfl, coarse_separates _⟩

/-! ### Tweak reuse leaks the offset (streaming mode on the pinned tree)

In ANY label algebra and for ANY hash: if two AND gates with the same first
input wire are garbled with the same tweak (the streaming garbler restarted its
tweak counter at 0 for every instruction), the first rows of their tables XOR
to the offset whenever the permute bits of their second inputs differ. -/
theorem C04_tweak_reuse_leaks {L : Type} [LabelAlg L] (H : Hash L) (r : L) (a b c : WireL L) (id : Nat)
    (hp : sbit b.l0 ≠ sbit c.l0) (tg te tg' te' : L)
    (h1 : (garbleCore H r .and a b id).2 = [tg, te]) (h2 : (garbleCore H r .and a c id).2 = [tg', te']) :
    tg ^^^ tg' = r := by
  simp only [garbleCore, List.cons.injEq, and_true] at h1 h2
  obtain ⟨h1, _⟩ := h1
  obtain ⟨h2, _⟩ := h2
  subst h1 h2
  cases hb : sbit b.l0 <;> cases hc : sbit c.l0 <;>
    simp_all [xor_comm', xor_left_comm']

/-- With distinct tweaks the same two gates are covered by `C04_whole_circuit`
(they are two gates of one gate list with a running counter): this is what a
persistent tweak counter across streamed instructions establishes. -/
theorem C04_stream_partial (σ : Atom Code → Bool) (hσ : σ .R = true) (code : SymL Code → Code)
    (hsep : Separates σ code) (p : Circuit2) (hwf : p.WF = true) (key : List UInt8)
    (x y : List Bool) (hx : x.length = p.n0) :
    ¬ InSpan (fun t => t ∈ evaluatorView p key
        (p.c.garble (symHash σ code) (symR σ) (symInl σ)) x y) (symR σ) :=
  C04_offset_not_in_span σ hσ code hsep p hwf key x y hx

/-- **Streaming mode on the pinned tree leaked the offset.**  Two streamed
instructions `w3 := w0 & w1` and `w4 := w0 & w2` (e.g. `a & b` and `a & c`),
garbled with the per-instruction tweak restart (`persistent = false`), in ANY
label algebra with ANY hash: the first rows of the two transmitted tables XOR
to the offset whenever the permute bits of `w1` and `w2` differ.  (Replayed on
the real code by `c04 stream`, case 0; repaired by fix 956e0fd.) -/
theorem C04_stream_restart_leaks {L : Type} [LabelAlg L] (H : Hash L) (r : L)
    (ws : Store (WireL L)) (id : Nat)
    (hp : sbit (ws.get 1).l0 ≠ sbit (ws.get 2).l0) (tg te tg' te' : L)
    (hrows : (streamGarble H r false [[⟨.and, 0, 1, 3⟩], [⟨.and, 0, 2, 4⟩]] ws id).2.2 =
        [[tg, te], [tg', te']]) :
    tg ^^^ tg' = r := by
  have h0 : (Store.set ws 3 (garbleCore H r .and (ws.get 0) (ws.get 1) 0).1).get 0 = ws.get 0 :=
    Store.get_set_ne _ _ _ _ (by decide)
  have h2 : (Store.set ws 3 (garbleCore H r .and (ws.get 0) (ws.get 1) 0).1).get 2 = ws.get 2 :=
    Store.get_set_ne _ _ _ _ (by decide)
  simp only [streamGarble, garbleGates, garbleGate, Bool.false_eq_true, if_false, h0, h2,
    List.append_nil, List.cons_append, List.nil_append, List.cons.injEq, and_true] at hrows
  obtain ⟨h1, h2'⟩ := hrows
  exact C04_tweak_reuse_leaks H r (ws.get 0) (ws.get 1) (ws.get 2) 0 hp tg te tg' te' h1 h2'

/-- The hypothesis of `C04_stream_restart_leaks` is satisfiable: the two
streamed AND gates always produce two rows each. -/
theorem C04_stream_restart_rows {L : Type} [LabelAlg L] (H : Hash L) (r : L)
    (ws : Store (WireL L)) (id : Nat) :
    ((streamGarble H r false [[⟨.and, 0, 1, 3⟩], [⟨.and, 0, 2, 4⟩]] ws id).2.2.map List.length) =
      [2, 2] := by
  simp [streamGarble, garbleGates, garbleGate, garbleCore]

/-- With the persistent counter the streamed instructions are one gate list
garbled with a running tweak, so `C04_whole_circuit` covers streaming mode. -/
theorem C04_stream_is_whole {L : Type} [LabelAlg L] (H : Hash L) (r : L)
    (steps : List (List Gate)) (ws : Store (WireL L)) (id : Nat) :
    streamGarble H r true steps ws id = garbleGates H r steps.flatten ws id :=
  streamGarble_persistent H r steps ws id

/-! ### Per-kind tweak accounting of the streamed gate loop

`Model/TweakAcc.lean`: a gate garbled at counter value `id` hashes under the
tweaks `op.uses id` (`Op.queries`: AND two, OR / INV one, free gates none —
`garbleCore_queries_only`), then the counter advances by `tw op`.  The code's
accounting is `codeAcc = Op.tweaks` (AND 2, OR 1, INV 1), tied to the real
streaming garbler by the op line `c04acc` (the tweaks under which every
transmitted row of real sessions was hashed, re-derived from the stream by the
harness, against `tweakUses codeAcc`), and to `Streaming.garbleGate` byte for
byte by C05's stream correspondence (op line `codec` of `Driver/C05.lean`:
`Stream.streamGarbleGate` advances by the same `Op.tweaks`); for whole-circuit
mode `garbleGate` is tied byte for byte by the session op lines of C01 / C02.

What the property needs from the accounting is `TweakAcc.Safe` (no kind uses
more tweaks than it reserves): then no tweak is used by two gates
(`C04_safe_accounting_tweaks_distinct`) and the offset is not in the span of the
streaming evaluator's view, for every stream of instruction circuits
(`C04_stream_safe_accounting`).  What happens otherwise is exhibited for the
unary gate: the pad of an INV gate is the half-gate hash of its input label
(`hashOf_unary`: `encrypt(a, 0, t)` hashes the block `2a ⊕ t`, as
`encryptHalf(a, t)` does), so an INV gate that leaves the counter where it was
shares its tweak with the next gate, and if that is an AND gate on the same
wire their first rows XOR to the offset or are equal, according to the permute
bit of the AND's other input (`C04_unary_tweak_shared_leaks`,
`C04_inv_zero_tweak_stream_leaks`). -/

/-- With the code's accounting the accounted loop IS `garbleGates`, so
`C04_whole_circuit` and `C04_stream_is_whole` speak about it. -/
theorem C04_code_accounting_is_garbleGates {L : Type} [LabelAlg L] (H : Hash L) (r : L)
    (steps : List (List Gate)) (ws : Store (WireL L)) (id : Nat) :
    streamGarbleAcc H r codeAcc steps ws id = streamGarble H r true steps ws id := by
  rw [streamGarbleAcc_flatten, garbleGatesAcc_code, streamGarble_persistent]

/-- **No tweak twice under a safe accounting**: the tweaks under which the
gates of ANY stream hash are strictly increasing in stream order; in
particular for the code's accounting. -/
theorem C04_safe_accounting_tweaks_distinct (tw : TweakAcc) (hs : tw.Safe) (ops : List Op) (id : Nat) :
    (tweakUses tw ops id).Pairwise (· < ·) ∧ (tweakUses codeAcc ops id).Pairwise (· < ·) :=
  ⟨tweakUses_sorted tw hs ops id, tweakUses_sorted codeAcc codeAcc_safe ops id⟩

/-- Non-vacuity / executed: the code's accounting is safe; the constant-wire
prologue of `circuits.Compiler.ZeroWire` (INV, then AND) uses three different
tweaks under it, and one tweak twice under an accounting that reserves nothing
for INV, which is not safe. -/
example : codeAcc.Safe ∧ tweakUses codeAcc [.inv, .and, .or] 7 = [7, 8, 9, 10] ∧
    tweakUses (fun op => if op = .inv then 0 else op.tweaks) [.inv, .and, .or] 7 = [7, 7, 8, 9] ∧
    ¬ TweakAcc.Safe (fun op => if op = .inv then 0 else op.tweaks) := by decide

/-- The row an INV gate transmits: the two pads and the offset. -/
theorem inv_row {L : Type} [LabelAlg L] (H : Hash L) (r : L) (hr : sbit r = true) (a b : WireL L)
    (id : Nat) (ha : a.l1 = a.l0 ^^^ r) :
    (garbleCore H r .inv a b id).2 =
      [H.h2 a.l0 LabelAlg.zero id ^^^ H.h2 a.l1 LabelAlg.zero id ^^^ r] := by
  have hs : sbit a.l1 = !sbit a.l0 := by rw [ha, sbit_xor', hr]; cases sbit a.l0 <;> rfl
  cases h0 : sbit a.l0 <;>
    simp [garbleCore, idxUnary, Tab.set, h0, hs, xor_assoc', xor_comm', xor_left_comm']

/-- **A shared tweak between an INV gate and an AND gate on the same wire.**
In ANY label algebra, for any hash whose unary pad is the half-gate hash (the
code's: `hashOf_unary`): the row of `INV(a)` and the first row of `AND(a, b)`
garbled under the SAME tweak XOR to the offset when the permute bit of `b` is 0
and are equal when it is 1. -/
theorem C04_unary_tweak_shared_leaks {L : Type} [LabelAlg L] (H : Hash L)
    (hu : ∀ x t, H.h2 x LabelAlg.zero t = H.h1 x t)
    (r : L) (hr : sbit r = true) (a b b' : WireL L) (ha : a.l1 = a.l0 ^^^ r) (id : Nat)
    (ri tg te : L) (hi : (garbleCore H r .inv a b' id).2 = [ri])
    (hg : (garbleCore H r .and a b id).2 = [tg, te]) :
    ri ^^^ tg = if sbit b.l0 then LabelAlg.zero else r := by
  rw [inv_row H r hr a b' id ha] at hi
  simp only [garbleCore, List.cons.injEq, and_true] at hi hg
  obtain ⟨hg, _⟩ := hg
  subst hi hg
  simp only [hu]
  cases sbit b.l0 <;> simp [xor_comm', xor_left_comm']

/-- The same for the hash of the code (`circuit/garble.go`: `encrypt`,
`encryptHalf`) under ANY block function — AES under any session key — with all
hypotheses discharged: for every offset with the select bit set, every pair of
wires `a = (x, x ⊕ r)`, `b = (y, y ⊕ r)` and every tweak. -/
theorem C04_unary_tweak_shared_leaks_aes (π : BitVec 128 → BitVec 128) (r x y : BitVec 128)
    (hr : r.msb = true) (id : Nat) :
    ∃ ri tg te, (garbleCore (hashOf π) r .inv ⟨x, x ^^^ r⟩ ⟨y, y ^^^ r⟩ id).2 = [ri] ∧
      (garbleCore (hashOf π) r .and ⟨x, x ^^^ r⟩ ⟨y, y ^^^ r⟩ id).2 = [tg, te] ∧
      ri ^^^ tg = if y.msb then 0#128 else r := by
  have hi := inv_row (hashOf π) r hr ⟨x, x ^^^ r⟩ ⟨y, y ^^^ r⟩ id rfl
  exact ⟨_, _, _, hi, rfl,
    C04_unary_tweak_shared_leaks (hashOf π) (hashOf_unary π) r hr ⟨x, x ^^^ r⟩ ⟨y, y ^^^ r⟩ ⟨y, y ^^^ r⟩
      rfl id _ _ _ hi rfl⟩

/-- **An accounting that reserves no tweak for INV leaks in streaming mode.**
Any stream containing the instruction circuit `w := INV(a); z := AND(a, b)`
(the constant-wire prologue of `circuits.Compiler.ZeroWire` is this with
`b = w`): the INV row and the first AND row, both transmitted, XOR to the
offset whenever the permute bit of `b` is 0. -/
theorem C04_inv_zero_tweak_stream_leaks {L : Type} [LabelAlg L] (H : Hash L)
    (hu : ∀ x t, H.h2 x LabelAlg.zero t = H.h1 x t) (r : L) (hr : sbit r = true)
    (tw : TweakAcc) (htw : tw .inv = 0) (ws : Store (WireL L)) (id a w b z : Nat) (hwa : w ≠ a)
    (ha : (ws.get a).l1 = (ws.get a).l0 ^^^ r)
    (hpb : sbit ((ws.set w (garbleCore H r .inv (ws.get a) (ws.get 0) id).1).get b).l0 = false)
    (ri tg te : L)
    (hrows : (streamGarbleAcc H r tw [[⟨.inv, a, 0, w⟩, ⟨.and, a, b, z⟩]] ws id).2.2 = [[ri], [tg, te]]) :
    ri ^^^ tg = r := by
  have h0 : (ws.set w (garbleCore H r .inv (ws.get a) (ws.get 0) id).1).get a = ws.get a :=
    Store.get_set_ne _ _ _ _ hwa
  simp only [streamGarbleAcc, garbleGatesAcc, htw, Nat.add_zero, h0, List.append_nil,
    List.cons.injEq, and_true] at hrows
  obtain ⟨h1, h2⟩ := hrows
  have := C04_unary_tweak_shared_leaks H hu r hr (ws.get a) _ (ws.get 0) ha id ri tg te h1 h2
  rw [this, hpb]
  rfl

/-- Non-vacuity of `C04_inv_zero_tweak_stream_leaks` with the code's hash under
any block function: wires `0 = (x, x ⊕ r)`, `1 = (y, y ⊕ r)` with permute bit 0,
the stream `w2 := INV(w0); w3 := AND(w0, w1)`, no tweak reserved for INV: two
transmitted rows XOR to the offset. -/
example (π : BitVec 128 → BitVec 128) (r x y : BitVec 128) (hr : r.msb = true) (hy : y.msb = false) :
    ∃ ri tg te,
      (streamGarbleAcc (hashOf π) r (fun op => if op = .inv then 0 else op.tweaks)
        [[⟨.inv, 0, 0, 2⟩, ⟨.and, 0, 1, 3⟩]]
        #[⟨x, x ^^^ r⟩, ⟨y, y ^^^ r⟩, default, default] 0).2.2 = [[ri], [tg, te]] ∧ ri ^^^ tg = r := by
  obtain ⟨ri, tg, te, h⟩ : ∃ ri tg te,
      (streamGarbleAcc (hashOf π) r (fun op => if op = .inv then 0 else op.tweaks)
        [[⟨.inv, 0, 0, 2⟩, ⟨.and, 0, 1, 3⟩]]
        #[⟨x, x ^^^ r⟩, ⟨y, y ^^^ r⟩, default, default] 0).2.2 = [[ri], [tg, te]] := ⟨_, _, _, rfl⟩
  exact ⟨ri, tg, te, h, C04_inv_zero_tweak_stream_leaks (hashOf π) (hashOf_unary π) r hr _ rfl
    #[⟨x, x ^^^ r⟩, ⟨y, y ^^^ r⟩, default, default] 0 0 2 1 3 (by decide) rfl hy ri tg te h⟩

/-- Initial wire store of a stream: input wire `i < nIn` carries the fresh pair
`(inl i, inl i ⊕ r)` (`NewStreaming`: `makeLabels` per input wire). -/
def streamStore {L : Type} [LabelAlg L] (n nIn : Nat) (r : L) (inl : Nat → L) : Store (WireL L) :=
  (Array.range n).map fun i => if i < nIn then ⟨inl i, inl i ^^^ r⟩ else default

/-- The evaluator's view of a streaming session (labels only): every
transmitted row of every streamed gate, and ONE label per input wire (the
garbler's own in the clear, the evaluator's through the OT) for the input bits
`xy`. -/
def streamView {L : Type} [LabelAlg L] (rows : List (List L)) (ws0 : Store (WireL L)) (nIn : Nat)
    (xy : List Bool) : List L :=
  rows.flatten ++ (List.range nIn).map fun i => (ws0.get i).labelFor (xy.getD i false)

/-- **C04 for streaming mode, for every safe accounting.**  Any stream of
instruction circuits over one wire store (`n` wires, the first `nIn` are the
two parties' input wires; wires may be overwritten, as the streaming allocator
does), all inputs, every `σ`, every hash model of the family, and EVERY
accounting that reserves for each gate kind at least the tweaks it uses: a
linear functional is 1 on the offset and 0 on every row of the stream and on
the one label per input wire the evaluator holds. -/
theorem C04_stream_safe_accounting (σ : Atom Code → Bool) (hσ : σ .R = true) (code : SymL Code → Code)
    (hsep : Separates σ code) (tw : TweakAcc) (hs : tw.Safe) (n nIn : Nat) (hn : nIn ≤ n)
    (steps : List (List Gate)) (hwf : wfFrom n steps.flatten (fun w => decide (w < nIn)) = true)
    (xy : List Bool) :
    let ws0 := streamStore n nIn (symR σ) (symInl σ)
    ∃ S : List (Atom Code), phi S (symR σ) = true ∧
      ∀ t ∈ streamView (streamGarbleAcc (symHash σ code) (symR σ) tw steps ws0 0).2.2 ws0 nIn xy,
        phi S t = false := by
  intro ws0
  have hs' : ∀ op : Op, op.tweaks ≤ tw op := by
    intro op; have := hs op; cases op <;> exact this
  let pv0 := initStore n false (xy.take nIn)
  let D0 : Nat → Bool := fun w => decide (w < nIn)
  have hget : ∀ w, w < nIn → ws0.get w = ⟨symInl σ w, symInl σ w ^^^ symR σ⟩ := by
    intro w hw
    simp only [ws0, streamStore]
    rw [get_range_map' _ _ _ (by omega)]
    simp [hw]
  have hphi0 : ∀ w, w < nIn → phi (S0 nIn xy) (symInl σ w) = xy.getD w false := by
    intro w hw
    simp only [S0, symInl, phi_cons, atom_f]
    rw [phi_inputs]
    have h2 : ¬ (Atom.R : Atom Code) = Atom.inp w := by intro h; cases h
    simp [h2, hw]
  have hinv0 : InvS σ D0 ws0 pv0 0 (S0 nIn xy) := by
    refine ⟨?_, ?_, ?_⟩
    · intro w hw
      simp only [D0, decide_eq_true_eq] at hw
      rw [hget w hw]
      refine ⟨rfl, ?_, Below.atom σ _ 0 (by intro t h; cases h)⟩
      simp only [pv0, initStore]
      rw [get_range_map' _ _ _ (by omega), hphi0 w hw]
      simp [List.getD, hw]
    · intro a ha t hat
      simp only [S0, List.mem_cons, List.mem_map] at ha
      rcases ha with h | ⟨i, _, h⟩
      · subst h; cases hat
      · subst h; cases hat
    · simp only [S0, symR, phi_cons, atom_f, phi_inputs_R]
      simp
  obtain ⟨hrows, hinv, hstab, _⟩ := gates_phi_acc σ hσ code hsep tw hs' n steps.flatten D0
    ws0 pv0 0 (S0 nIn xy) (by simp [ws0, streamStore]) (by simp [pv0, initStore]) hwf hinv0
  refine ⟨phiGatesAcc σ code tw steps.flatten ws0 pv0 0 (S0 nIn xy), hinv.2.2, ?_⟩
  intro t ht
  simp only [streamView, List.mem_append, List.mem_flatten, List.mem_map, List.mem_range] at ht
  rcases ht with ⟨rows, hr, htr⟩ | ⟨i, hi, rfl⟩
  · rw [streamGarbleAcc_flatten] at hr
    exact hrows rows hr t htr
  · rw [hget i hi]
    have hB : Below 0 (symInl σ i) := Below.atom σ _ 0 (by intro t h; cases h)
    cases hb : xy.getD i false with
    | false =>
      simp only [WireL.labelFor, Bool.false_eq_true, if_false]
      rw [hstab _ hB, hphi0 i hi, hb]
    | true =>
      simp only [WireL.labelFor, if_true]
      rw [phi_xor, hstab _ hB, hphi0 i hi, hb, hinv.2.2]
      rfl

/-- Streaming mode as the code runs it (the code's accounting, the streamed
loop = `streamGarble … true`): the offset is not transmitted, no two values of
the evaluator's view differ by it, no XOR of any number of them is the offset. -/
theorem C04_stream_no_two_labels_of_a_wire (σ : Atom Code → Bool) (hσ : σ .R = true)
    (code : SymL Code → Code) (hsep : Separates σ code) (n nIn : Nat) (hn : nIn ≤ n)
    (steps : List (List Gate)) (hwf : wfFrom n steps.flatten (fun w => decide (w < nIn)) = true)
    (xy : List Bool) :
    let ws0 := streamStore n nIn (symR σ) (symInl σ)
    let V := streamView (streamGarble (symHash σ code) (symR σ) true steps ws0 0).2.2 ws0 nIn xy
    ¬ InSpan (fun t => t ∈ V) (symR σ) ∧ (∀ t ∈ V, t ≠ symR σ) ∧
      (∀ t ∈ V, ∀ u ∈ V, t ^^^ u ≠ symR σ) := by
  intro ws0 V
  obtain ⟨S, hR, hT⟩ := C04_stream_safe_accounting σ hσ code hsep codeAcc codeAcc_safe n nIn hn steps hwf xy
  rw [C04_code_accounting_is_garbleGates] at hT
  have hns : ¬ InSpan (fun t => t ∈ V) (symR σ) := by
    intro hspan
    have := phi_span S _ hT _ hspan
    rw [hR] at this
    cases this
  refine ⟨hns, ?_, ?_⟩
  · intro t ht heq
    exact hns (heq ▸ InSpan.mem (T := fun t => t ∈ V) ht)
  · intro t ht u hu heq
    exact hns (heq ▸ InSpan.xor (InSpan.mem (T := fun t => t ∈ V) ht) (InSpan.mem hu))

/-- Non-vacuity of the two theorems: a well-formed stream of two instruction
circuits on five wires (the constant-wire prologue on input wire 0, then an OR
that overwrites nothing), a safe accounting other than the code's. -/
example : wfFrom 5 [[⟨.inv, 0, 0, 2⟩, ⟨.and, 0, 2, 3⟩], [⟨.or, 3, 1, 4⟩]].flatten (fun w => decide (w < 2)) = true ∧
    TweakAcc.Safe (fun _ => 3) ∧ codeAcc.Safe := by decide

/-! ### A gate input that is not a defined wire

The two streaming theorems above assume `wfFrom`: every gate input of the stream
is a session input wire or the output of an earlier gate.  `Program.Stream`
establishes it when it builds the wire-id lists of each `Streaming.Garble` call
(operand padding; the `circ` arm pads every argument of a native circuit call
up to the width the circuit file declares, with the streamed zero wire).  The
check evaluates the hypothesis on the gate list of every analysed real session
(driver op `c04def`: `streamDefined`, proved equal to `wfFrom` by
`wfArr_eq_wfFrom`) against the verdict of the harness's shadow garbler, which
names every gate input that no gate wrote.  What the garbler transmits for a
gate that reads such a wire — the zero value of its wire table, both labels
zero — is stated here: the offset itself, or the raw zero-label of the other
input next to whose one-label the evaluator then holds both labels of a wire. -/

theorem sbit_zero' {L : Type} [LabelAlg L] : sbit (LabelAlg.zero : L) = false := by
  have h := LabelAlg.sbit_xor (LabelAlg.zero : L) LabelAlg.zero
  rw [LabelAlg.xor_self] at h
  simpa using h

/-- **The rows of an AND gate one of whose inputs is an undefined wire** (both
labels zero: `default`), in ANY label algebra, for ANY hash, at any tweak.
First input undefined: the first row is the offset when the permute bit of the
other input is 1 (zero otherwise).  Second input undefined: the second row is
the zero-label of the first input, in the clear. -/
theorem C04_undefined_input_and_rows {L : Type} [LabelAlg L] (H : Hash L) (r : L) (x : WireL L) (id : Nat) :
    (garbleCore H r .and default x id).2 =
        [if sbit x.l0 then r else LabelAlg.zero, H.h1 x.l0 (id + 1) ^^^ H.h1 x.l1 (id + 1)] ∧
      (garbleCore H r .and x default id).2 = [H.h1 x.l0 id ^^^ H.h1 x.l1 id, x.l0] := by
  have hd : (default : WireL L) = ⟨LabelAlg.zero, LabelAlg.zero⟩ := by
    show (⟨default, default⟩ : WireL L) = _
    rw [LabelAlg.default_eq]
  constructor
  · rw [hd]
    cases hb : sbit x.l0 <;> simp [garbleCore, hb, xor_comm']
  · rw [hd]
    simp [garbleCore, sbit_zero', xor_comm']

/-- Executed with the hash of the code under any block function: the offset in
the clear; the raw zero-label. -/
example (π : BitVec 128 → BitVec 128) (r x : BitVec 128) (hx : x.msb = true) (id : Nat) :
    (garbleCore (hashOf π) r .and default ⟨x, x ^^^ r⟩ id).2.head? = some r ∧
      (garbleCore (hashOf π) r .and ⟨x, x ^^^ r⟩ default id).2.getLast? = some x := by
  have h := C04_undefined_input_and_rows (hashOf π) r ⟨x, x ^^^ r⟩ id
  have hs : sbit x = true := hx
  have h1 : (garbleCore (hashOf π) r .and default ⟨x, x ^^^ r⟩ id).2 = _ := h.1
  have h2 : (garbleCore (hashOf π) r .and ⟨x, x ^^^ r⟩ default id).2 = _ := h.2
  rw [h1, h2]
  simp [hs]

theorem streamStore_get_input {L : Type} [LabelAlg L] (n nIn : Nat) (r : L) (inl : Nat → L) (a : Nat)
    (ha : a < nIn) (hn : nIn ≤ n) : (streamStore n nIn r inl).get a = ⟨inl a, inl a ^^^ r⟩ := by
  simp only [streamStore]
  rw [get_range_map' _ _ _ (by omega)]
  simp [ha]

theorem streamStore_get_other {L : Type} [LabelAlg L] (n nIn : Nat) (r : L) (inl : Nat → L) (u : Nat)
    (hu : nIn ≤ u) : (streamStore n nIn r inl).get u = default := by
  by_cases hun : u < n
  · simp only [streamStore]
    rw [get_range_map' _ _ _ hun]
    have : ¬ u < nIn := by omega
    simp [this]
  · simp [streamStore, Store.get, Array.getD, hun]

/-- **A stream with an undefined gate input leaks the offset** — for ANY
accounting, hash and label algebra, on any wire store: the one-gate streams
`z := AND(u, a)` and `z := AND(a, u)` with `a` an input wire and `u` a wire
nothing wrote are exactly not `wfFrom`; the streaming evaluator's view of the
first contains the offset itself whenever the permute bit of `a` is 1, and the
view of the second contains two values that differ by the offset whenever the
value of `a` is 1 (the transmitted row is the zero-label of `a`, the evaluator
holds its one-label). -/
theorem C04_stream_undefined_input_leaks {L : Type} [LabelAlg L] (H : Hash L) (r : L) (inl : Nat → L)
    (tw : TweakAcc) (n nIn a u z : Nat) (ha : a < nIn) (hu : nIn ≤ u) (hn : u < n) (xy : List Bool) :
    let ws0 := streamStore n nIn r inl
    let V1 := streamView (streamGarbleAcc H r tw [[⟨.and, u, a, z⟩]] ws0 0).2.2 ws0 nIn xy
    let V2 := streamView (streamGarbleAcc H r tw [[⟨.and, a, u, z⟩]] ws0 0).2.2 ws0 nIn xy
    wfFrom n [[⟨.and, u, a, z⟩]].flatten (fun w => decide (w < nIn)) = false ∧
    wfFrom n [[⟨.and, a, u, z⟩]].flatten (fun w => decide (w < nIn)) = false ∧
    (sbit (inl a) = true → r ∈ V1) ∧
    (xy.getD a false = true → ∃ t ∈ V2, ∃ s ∈ V2, t ^^^ s = r) := by
  intro ws0 V1 V2
  have hnu : ¬ u < nIn := by omega
  have hga : ws0.get a = ⟨inl a, inl a ^^^ r⟩ := streamStore_get_input n nIn r inl a ha (by omega)
  have hgu : ws0.get u = default := streamStore_get_other n nIn r inl u hu
  obtain ⟨h1, h2⟩ := C04_undefined_input_and_rows H r (⟨inl a, inl a ^^^ r⟩ : WireL L) 0
  refine ⟨by simp [wfFrom, hnu], by simp [wfFrom, hnu, Op.binary], ?_, ?_⟩
  · intro hs
    simp only [V1, streamView, streamGarbleAcc, garbleGatesAcc, hga, hgu, h1, hs, if_true,
      List.append_nil, List.flatten_cons, List.flatten_nil]
    simp
  · intro hx
    refine ⟨inl a, ?_, inl a ^^^ r, ?_, by simp [xor_comm', xor_left_comm']⟩
    · simp only [V2, streamView, streamGarbleAcc, garbleGatesAcc, hga, hgu, h2,
        List.append_nil, List.flatten_cons, List.flatten_nil]
      simp
    · simp only [V2, streamView]
      apply List.mem_append_right
      simp only [List.mem_map, List.mem_range]
      exact ⟨a, ha, by rw [hga, hx]; rfl⟩

/-- Non-vacuity, with the hash of the code under any block function and the
code's accounting: input wires 0, 1, the gate `w3 := AND(w2, w0)` reads wire 2
that nothing wrote; permute bit of wire 0 set: the offset is in the view. -/
example (π : BitVec 128 → BitVec 128) (r x y : BitVec 128) (hx : x.msb = true) :
    r ∈ streamView (streamGarbleAcc (hashOf π) r codeAcc [[⟨.and, 2, 0, 3⟩]]
      (streamStore 4 2 r (fun i => if i = 0 then x else y)) 0).2.2
      (streamStore 4 2 r (fun i => if i = 0 then x else y)) 2 [true, false] :=
  (C04_stream_undefined_input_leaks (hashOf π) r (fun i => if i = 0 then x else y) codeAcc 4 2 0 2 3
    (by decide) (by decide) (by decide) [true, false]).2.2.1 hx

/-- ... and `w3 := AND(w0, w2)` with input bit 1 on wire 0: two values of the
view differ by the offset. -/
example (π : BitVec 128 → BitVec 128) (r x y : BitVec 128) :
    ∃ t ∈ streamView (streamGarbleAcc (hashOf π) r codeAcc [[⟨.and, 0, 2, 3⟩]]
        (streamStore 4 2 r (fun i => if i = 0 then x else y)) 0).2.2
        (streamStore 4 2 r (fun i => if i = 0 then x else y)) 2 [true, false],
      ∃ s ∈ streamView (streamGarbleAcc (hashOf π) r codeAcc [[⟨.and, 0, 2, 3⟩]]
        (streamStore 4 2 r (fun i => if i = 0 then x else y)) 0).2.2
        (streamStore 4 2 r (fun i => if i = 0 then x else y)) 2 [true, false], t ^^^ s = r :=
  (C04_stream_undefined_input_leaks (hashOf π) r (fun i => if i = 0 then x else y) codeAcc 4 2 0 2 3
    (by decide) (by decide) (by decide) [true, false]).2.2.2 rfl

/-- **Streaming sessions whose gate list passes the executed check are
covered.**  `streamDefined` is what the driver op `c04def` evaluates on the gate
list of every analysed real session; by `wfArr_eq_wfFrom` it is the hypothesis
of `C04_stream_no_two_labels_of_a_wire`. -/
theorem C04_stream_defined_sessions_secret (σ : Atom Code → Bool) (hσ : σ .R = true)
    (code : SymL Code → Code) (hsep : Separates σ code) (n nIn : Nat) (hn : nIn ≤ n)
    (steps : List (List Gate)) (hdef : streamDefined n nIn steps.flatten = true) (xy : List Bool) :
    let ws0 := streamStore n nIn (symR σ) (symInl σ)
    let V := streamView (streamGarble (symHash σ code) (symR σ) true steps ws0 0).2.2 ws0 nIn xy
    ¬ InSpan (fun t => t ∈ V) (symR σ) ∧ (∀ t ∈ V, t ≠ symR σ) ∧
      (∀ t ∈ V, ∀ u ∈ V, t ^^^ u ≠ symR σ) := by
  rw [wfArr_eq_wfFrom] at hdef
  exact C04_stream_no_two_labels_of_a_wire σ hσ code hsep n nIn hn steps hdef xy

/-- Non-vacuity of the executed check: the stream of the earlier example passes,
the one-gate streams with an undefined input do not. -/
example : streamDefined 5 2 [[⟨.inv, 0, 0, 2⟩, ⟨.and, 0, 2, 3⟩], [⟨.or, 3, 1, 4⟩]].flatten = true ∧
    streamDefined 4 2 [[⟨.and, 2, 0, 3⟩]].flatten = false ∧
    streamDefined 4 2 [[⟨.and, 0, 2, 3⟩]].flatten = false := by decide +kernel

/-- sha2pc round 3 (`OutputHints`) transmits both labels of every output
wire: in any label algebra their XOR is the offset. -/
theorem C04_both_labels_leak {L : Type} [LabelAlg L] (r : L) (w : WireL L) (h : w.l1 = w.l0 ^^^ r) :
    w.l0 ^^^ w.l1 = r := by
  rw [h]; simp

/-! ### The evaluator's OT request (a deviating evaluator)

The only message by which the evaluator influences what the garbler transmits
before the result phase is the wire range `(offset, count)` it asks labels for.
`circuit.Garbler` refuses everything but `(n0, n1)` (`Circuit2.acceptsOtRange`,
tied to the real code by the `range` sessions of the C04 harness). -/

/-- The evaluator's view when it asks the OT for the wires
`offset .. offset+count-1` with choice flags of its own. -/
def evaluatorViewReq {L : Type} [LabelAlg L] (p : Circuit2) (key : List UInt8) (G : Garbled L)
    (x : List Bool) (offset count : Nat) (flags : List Bool) : List L :=
  msgLabels (garblerFlight1 p key G x) ++
    List.zipWith (fun (w : WireL L) b => w.labelFor b)
      ((List.range count).map fun i => G.wires.get (offset + i))
      ((List.range count).map fun i => flags.getD i false)

/-- A request the garbler accepts gives the evaluator exactly the honest view
for the choice bits it used: the secrecy theorems above (`C04_whole_circuit`,
`C04_no_two_labels_of_a_wire`, quantified over every `y`) cover every
evaluator whose request passes the guard. -/
theorem C04_ot_range_guard {L : Type} [LabelAlg L] (p : Circuit2) (key : List UInt8) (G : Garbled L)
    (x : List Bool) (offset count : Nat) (flags : List Bool)
    (h : p.acceptsOtRange offset count = true) :
    evaluatorViewReq p key G x offset count flags = evaluatorView p key G x flags := by
  simp only [Circuit2.acceptsOtRange, Bool.and_eq_true, beq_iff_eq] at h
  obtain ⟨ho, hc⟩ := h
  subst ho; subst hc
  rfl

/-! Non-vacuity of the guard: the honest request passes, requests with the right end
but another start do not. -/
example : ({ c := default, n0 := 2, n1 := 3, outWidths := [] } : Circuit2).acceptsOtRange 2 3 = true := rfl
example : ({ c := default, n0 := 2, n1 := 3, outWidths := [] } : Circuit2).acceptsOtRange 0 5 = false := rfl
example : ({ c := default, n0 := 2, n1 := 3, outWidths := [] } : Circuit2).acceptsOtRange 1 4 = false := rfl

/-- Why the guard is needed: if a request reaching into the garbler's own
input wires were served (offset 0), then for every garbler input bit that is 1
the evaluator would hold the label sent in the clear and, by choosing 0 in the
OT, the other label of the same wire: their XOR is the offset. -/
theorem C04_ot_range_unguarded_leaks {L : Type} [LabelAlg L] (H : Hash L) (p : Circuit2)
    (hwf : p.WF = true) (key : List UInt8) (r : L) (inl : Nat → L) (x : List Bool)
    (i : Nat) (hi : i < p.n0) (hx : x.getD i false = true) (count : Nat) (hic : i < count) :
    let G := p.c.garble H r inl
    let V := evaluatorViewReq p key G x 0 count []
    ∃ t ∈ V, ∃ u ∈ V, t ^^^ u = r := by
  intro G V
  simp only [Circuit2.WF, Bool.and_eq_true, decide_eq_true_eq] at hwf
  obtain ⟨⟨⟨hcwf, hnin⟩, _⟩, _⟩ := hwf
  have hwire : G.wires.get i = ⟨inl i, inl i ^^^ r⟩ :=
    garble_input_wires H p.c r inl hcwf i (by omega)
  have hl : ∀ (ls : List L), msgLabels (ls.map Msg.label) = ls := by
    intro ls; induction ls with
    | nil => rfl
    | cons l ls ih => simp [msgLabels, ih]
  have happ : ∀ (a b : List (Msg L)), msgLabels (a ++ b) = msgLabels a ++ msgLabels b := by
    intro a b; induction a with
    | nil => rfl
    | cons m a ih => cases m <;> simp [msgLabels, ih]
  refine ⟨inl i ^^^ r, ?_, inl i, ?_, ?_⟩
  · -- the clear label of garbler wire i (input bit 1)
    apply List.mem_append_left
    simp only [garblerFlight1, msgLabels, happ, hl]
    apply List.mem_append_right
    simp only [garblerInputLabels, List.mem_map, List.mem_range]
    exact ⟨i, hi, by rw [hwire, hx]; rfl⟩
  · -- the label obtained through the OT with choice 0
    apply List.mem_append_right
    simp only [List.zipWith_map_left, List.zipWith_map_right, List.zipWith_self, List.mem_map,
      List.mem_range]
    exact ⟨i, hic, by simp [hwire, WireL.labelFor]⟩
  · simp [xor_assoc', xor_comm', xor_left_comm']

/-! ### A garbler process: overlapping sessions on one shared circuit value -/

/-- The labels an OT that reads the wire table `served` delivers for the
choice bits `y` (evaluator input wires `n0 .. n0+n1-1`). -/
def otLabels {L : Type} [LabelAlg L] (p : Circuit2) (served : Store (WireL L)) (y : List Bool) : List L :=
  List.zipWith (fun (w : WireL L) b => w.labelFor b)
    ((List.range p.n1).map fun i => served.get (p.n0 + i))
    ((List.range p.n1).map fun i => y.getD i false)

/-- The evaluator's view of a session whose first flight is that of garbling
`G` and whose OT read the wire table `served` (the memory `garbled.Wires`
points to at the time the OT reads it). -/
def servedView {L : Type} [LabelAlg L] (p : Circuit2) (key : List UInt8) (G : Garbled L)
    (served : Store (WireL L)) (x y : List Bool) : List L :=
  msgLabels (garblerFlight1 p key G x) ++ otLabels p served y

/-- Served from its own garbling, a session's view is the honest view. -/
theorem servedView_own {L : Type} [LabelAlg L] (p : Circuit2) (key : List UInt8) (G : Garbled L)
    (x y : List Bool) : servedView p key G G.wires x y = evaluatorView p key G x y := rfl

theorem otLabels_congr {L : Type} [LabelAlg L] (p : Circuit2) (a b : Store (WireL L)) (y : List Bool)
    (h : ∀ i, i < p.n1 → a.get (p.n0 + i) = b.get (p.n0 + i)) : otLabels p a y = otLabels p b y := by
  simp only [otLabels]
  congr 1
  apply List.map_congr_left
  intro i hi
  exact h i (List.mem_range.mp hi)

/-- One session of the process in the symbolic model: its own valuation of the
permute bits (own tape), its own hash model (own key), key bytes and inputs. -/
structure SymSession (Code : Type) where
  σ    : Atom Code → Bool
  code : SymL Code → Code
  key  : List UInt8
  x    : List Bool
  y    : List Bool

def SymSession.Honest (p : Circuit2) (S : SymSession Code) : Prop :=
  S.σ .R = true ∧ Separates S.σ S.code ∧ S.x.length = p.n0

/-- The session's call of `Circuit.Garble`: its hash, offset and input labels. -/
noncomputable def SymSession.job (S : SymSession Code) : Pool.GJob (SymL Code) :=
  ⟨symHash S.σ S.code, symR S.σ, symInl S.σ⟩

noncomputable def SymSession.garbling (p : Circuit2) (S : SymSession Code) : Garbled (SymL Code) :=
  p.c.garble (symHash S.σ S.code) (symR S.σ) (symInl S.σ)

/-- Everything the evaluators of a process obtain, as process values: for every
session in `live` its first flight, and the labels its OT delivered from the
wire table `served s`. -/
def processView (p : Circuit2) (ss : Nat → SymSession Code) (live : Nat → Prop)
    (served : Nat → Store (WireL (SymL Code)) → Prop) : PSym Code → Prop :=
  fun v => ∃ s, live s ∧ ∃ t,
    (t ∈ msgLabels (garblerFlight1 p (ss s).key ((ss s).garbling p) (ss s).x) ∨
      ∃ d, served s d ∧ t ∈ otLabels p d (ss s).y) ∧ v = lift s t

/-- **C04 for a process.**  Any number of sessions on one circuit, each with
its own tape, key, inputs and OT choices.  If every session's OT serves the
wire pairs of ITS OWN garbling (on the evaluator's input wires), then the union
of everything all evaluators obtain does not span the offset of ANY session:
for each session `k` there is a linear functional that is 1 on `R_k` and 0 on
every value any evaluator of the process holds. -/
theorem C04_process_offset_not_in_span (p : Circuit2) (hwf : p.WF = true)
    (ss : Nat → SymSession Code) (hh : ∀ s, (ss s).Honest p) (live : Nat → Prop)
    (served : Nat → Store (WireL (SymL Code)) → Prop)
    (hown : ∀ s d, live s → served s d →
      ∀ i, i < p.n1 → d.get (p.n0 + i) = ((ss s).garbling p).wires.get (p.n0 + i))
    (k : Nat) :
    ¬ PSpan (processView p ss live served) (lift k (symR (ss k).σ)) := by
  obtain ⟨hσ, hsep, hx⟩ := hh k
  obtain ⟨S, hR, hT⟩ := C04_whole_circuit (ss k).σ hσ (ss k).code hsep p hwf (ss k).key (ss k).x (ss k).y hx
  intro hspan
  have hz : ∀ v, processView p ss live served v → pphi k S v = false := by
    intro v hv
    obtain ⟨s, hl, t, ht, rfl⟩ := hv
    by_cases hsk : s = k
    · subst hsk
      rw [pphi_lift_same]
      apply hT
      simp only [evaluatorView, List.mem_append]
      rcases ht with ht | ⟨d, hd, ht⟩
      · exact Or.inl ht
      · right
        rw [otLabels_congr p d _ _ (hown s d hl hd)] at ht
        exact ht
    · exact pphi_lift_ne k s S t hsk
  have := pphi_span k S _ hz _ hspan
  rw [pphi_lift_same, hR] at this
  cases this

/-- In a process whose OTs serve their own garblings, no value any evaluator
obtains is a session's offset and no two of them — obtained in the same or in
different sessions — differ by a session's offset: never both labels of a wire. -/
theorem C04_process_no_two_labels_of_a_wire (p : Circuit2) (hwf : p.WF = true)
    (ss : Nat → SymSession Code) (hh : ∀ s, (ss s).Honest p) (live : Nat → Prop)
    (served : Nat → Store (WireL (SymL Code)) → Prop)
    (hown : ∀ s d, live s → served s d →
      ∀ i, i < p.n1 → d.get (p.n0 + i) = ((ss s).garbling p).wires.get (p.n0 + i))
    (k : Nat) :
    let V := processView p ss live served
    (∀ v, V v → v ≠ lift k (symR (ss k).σ)) ∧
    (∀ v u, V v → V u → v.xor u ≠ lift k (symR (ss k).σ)) := by
  intro V
  have hns := C04_process_offset_not_in_span p hwf ss hh live served hown k
  constructor
  · intro v hv heq
    exact hns (heq ▸ PSpan.mem hv)
  · intro v u hv hu heq
    exact hns (heq ▸ PSpan.xor (PSpan.mem hv) (PSpan.mem hu))

/-- Non-vacuity: honest sessions exist for every circuit (coarsest hash model). -/
example (p : Circuit2) : ∃ ss : Nat → SymSession Bool, ∀ s, (ss s).Honest p :=
  ⟨fun _ => ⟨fun _ => true, coarseCode, [], List.replicate p.n0 false, []⟩,
    fun _ => ⟨rfl, coarse_separates _, by simp⟩⟩

/-- Non-vacuity of the ownership hypothesis: all sessions live, every OT reading
its own session's wire table. -/
example (p : Circuit2) (ss : Nat → SymSession Bool) :
    ∀ s d, (fun _ : Nat => True) s → (fun s d => d = ((ss s).garbling p).wires) s d →
      ∀ i, i < p.n1 → d.get (p.n0 + i) = ((ss s).garbling p).wires.get (p.n0 + i) := by
  intro s d _ hd i _; rw [hd]

/-- **Two evaluators served from ONE garbling hold both labels of a wire.**
In any label algebra: session A's OT reads the wire table of session B's
garbling (the scratch behind A's `garbled.Wires` was handed to B), session B's
OT reads it too; if the two evaluators choose differently on evaluator-input
wire `i`, the union of the two views contains both labels of wire `n0 + i` of
session B: their XOR is B's offset. -/
theorem C04_foreign_wires_two_labels {L : Type} [LabelAlg L] (H : Hash L) (p : Circuit2)
    (hwf : p.WF = true) (keyA keyB : List UInt8) (GA : Garbled L) (r : L) (inl : Nat → L)
    (xA xB yA yB : List Bool) (i : Nat) (hi : i < p.n1) (hne : yA.getD i false ≠ yB.getD i false) :
    let GB := p.c.garble H r inl
    ∃ t ∈ servedView p keyA GA GB.wires xA yA, ∃ u ∈ evaluatorView p keyB GB xB yB, t ^^^ u = r := by
  intro GB
  simp only [Circuit2.WF, Bool.and_eq_true, decide_eq_true_eq] at hwf
  obtain ⟨⟨⟨hcwf, hnin⟩, _⟩, _⟩ := hwf
  have hwire : GB.wires.get (p.n0 + i) = ⟨inl (p.n0 + i), inl (p.n0 + i) ^^^ r⟩ :=
    garble_input_wires H p.c r inl hcwf (p.n0 + i) (by omega)
  have hmem : ∀ y : List Bool, (GB.wires.get (p.n0 + i)).labelFor (y.getD i false) ∈ otLabels p GB.wires y := by
    intro y
    simp only [otLabels, List.zipWith_map_left, List.zipWith_map_right, List.zipWith_self, List.mem_map,
      List.mem_range]
    exact ⟨i, hi, rfl⟩
  refine ⟨_, List.mem_append_right _ (hmem yA), _, List.mem_append_right _ (hmem yB), ?_⟩
  rw [hwire]
  cases ha : yA.getD i false <;> cases hb : yB.getD i false <;>
    simp_all [WireL.labelFor, xor_assoc', xor_comm', xor_left_comm']

/-- Non-vacuity: a well-formed two-party circuit with an evaluator input wire. -/
def procExample : Circuit2 :=
  { c := { numWires := 3, nIn := 2, nOut := 1, gates := [⟨.and, 0, 1, 2⟩] }, n0 := 1, n1 := 1, outWidths := [1] }

example : procExample.WF = true ∧ 0 < procExample.n1 := by decide

end Mpc.Sym

namespace Mpc.GProc
open Mpc Mpc.Pool Mpc.Sym LabelAlg

/-- **Ownership until the session ends** (the code as it is: `circuit.Garbler`
never calls `garbled.Release()`).  For every history of a garbler process on one
circuit value — sessions starting while others stall before their OT, between
its messages or before the result, `Garble` calls failing part-way and putting
their scratch back, any scratch re-use — in every notion of scratch contents
and for every assignment of (tape, key) to sessions: each session's `*Garbled`
is still a live handle that owns the memory its `Wires` slice points to, and
EVERYTHING the session's OT (at the call and at the return) and its result loop
read there is the single-goroutine result of the session's own `Garble` call. -/
theorem C04_proc_serves_own {Mem Job : Type} (P : Params Mem Job) (job : Nat → Job) (evs : List PEv)
    (st : PState Mem Job) (hrun : runProc false P job (initP P) evs = some st) :
    ∀ e ∈ st.sess, ∃ H, st.σ.handle e.handle = some H ∧ H.owned = some e.scratch ∧ H.job = job e.id ∧
      ∀ d, d ∈ e.otSeen ∨ d ∈ e.decSeen → d = seqGarble P (job e.id) H.init :=
  (pinv_run P job evs _ st (pinv_init P job) hrun).sess

/-- The executed instance (`Driver/C04.lean`): on every history the model of the
code as it is answers "served by itself, decoded" for every session — this is
what the real sessions of the `overlap` harness are compared with, line by line. -/
theorem C04_proc_digest_serves_own (evs : List PEv) (st : DState) (hrun : runDigest false evs = some st) :
    ∀ e ∈ st.sess, (e.otSeen ≠ [] → servedBy e = some e.id) ∧ decodesOk e = true := by
  intro e he
  obtain ⟨H, _, _, _, hd⟩ := C04_proc_serves_own traceParams digestOf evs st hrun e he
  have hseq : ∀ m0, seqGarble traceParams (digestOf e.id) m0 = digestOf e.id := by
    intro m0; simp [seqGarble, traceParams]
  have hot : ∀ d ∈ e.otSeen, d = digestOf e.id := fun d h => (hd d (Or.inl h)).trans (hseq _)
  have hdec : ∀ d ∈ e.decSeen, d = digestOf e.id := fun d h => (hd d (Or.inr h)).trans (hseq _)
  constructor
  · intro hne
    simp only [servedBy]
    cases hl : e.otSeen with
    | nil => exact absurd hl hne
    | cons d ds =>
      have h1 : d = digestOf e.id := hot d (by simp [hl])
      have h2 : ds.all (· == d) = true := by
        simp only [List.all_eq_true, beq_iff_eq]
        intro x hx
        rw [h1]; exact hot x (by simp [hl, hx])
      have h0 : d ≠ 0 ∧ (ds.all fun x => x == d) = true := ⟨by rw [h1]; simp [digestOf], h2⟩
      show (if d ≠ 0 ∧ (ds.all fun x => x == d) = true then some (d - 1) else none) = some e.id
      rw [if_pos h0, h1]
      simp [digestOf]
  · simp only [decodesOk, Bool.and_eq_true, List.all_eq_true, beq_iff_eq]
    exact ⟨hot, hdec⟩

/-- Non-vacuity (and what the driver prints): session 0 stalls before its OT,
session 1 runs from start to end in the gap, a third Garble fails after one
write and puts its scratch back, session 3 draws that scratch; session 0
continues.  Every OT and result loop read their own session's digest. -/
example :
    (match runDigest false [.start 0, .start 1, .otBegin 1, .otEnd 1, .decode 1, .fail 2 1, .start 3,
        .otBegin 0, .otBegin 3, .otEnd 0, .otEnd 3, .decode 0, .decode 3] with
     | some st => (st.sess.map fun e => (e.id, e.scratch, e.otSeen, e.decSeen)) ==
         [(3, 2, [4, 4], [4]), (1, 1, [2, 2], [2]), (0, 0, [1, 1], [1])]
     | none => false) = true := by decide

/-- **The same with the real writes of `Circuit.Garble`.**  Pool model with the
actual write sequence (`garbleParams c`), well-formed circuit, any history:
the wire table a session's OT or result loop reads carries, on every defined
wire, the pair that `Circuit.garble` computes from the session's own key and
tape — the garbling the secrecy theorems above are about. -/
theorem C04_proc_ot_serves_own_wires {L : Type} [LabelAlg L] (c : Circuit) (hwf : c.WF = true)
    (job : Nat → GJob L) (evs : List PEv) (st : PState (GMem L) (GJob L))
    (hrun : runProc false (garbleParams c) job (initP (garbleParams c)) evs = some st) :
    ∀ e ∈ st.sess, ∀ d, d ∈ e.otSeen ∨ d ∈ e.decSeen → ∀ w, c.defined w = true →
      d.wires.get w = (c.garble (job e.id).H (job e.id).r (job e.id).inl).wires.get w := by
  intro e he d hd w hw
  have hi := pinv_run (garbleParams c) job evs _ st (pinv_init _ job) hrun
  obtain ⟨H, hH, _, _, hall⟩ := hi.sess e he
  have hgood := (good_reachable (garbleParams c) (fun m => m.wires.size = c.numWires)
    (by simp [garbleParams]) (fun j f hf m hm => garbleProg_size c j f hf m hm) true st.σ hi.reach).2.2
      e.handle H hH
  rw [hall d hd]
  exact (seqGarble_eq_garble c hwf (job e.id) H.init hgood).1 w hw

/-- **C04 over process histories, end to end.**  Symbolic sessions (own tape,
own key, own inputs and OT choices each), the real write sequence of
`Circuit.Garble` on pooled scratch, ANY history of the process as the code runs
it: the union of everything the evaluators obtain — every started session's
tables and garbler input labels, and the labels delivered by its OT from
whatever the wire table held at the call or at the return — does not span the
offset of any session. -/
theorem C04_process_secrecy {Code : Type} (p : Circuit2) (hwf : p.WF = true)
    (ss : Nat → SymSession Code) (hh : ∀ s, (ss s).Honest p) (evs : List PEv)
    (st : PState (GMem (SymL Code)) (GJob (SymL Code)))
    (hrun : runProc false (garbleParams p.c) (fun s => (ss s).job) (initP (garbleParams p.c)) evs = some st)
    (k : Nat) :
    ¬ PSpan (processView p ss (fun s => ∃ e ∈ st.sess, e.id = s)
        (fun s d => ∃ e ∈ st.sess, e.id = s ∧ ∃ m ∈ e.otSeen, d = m.wires))
      (lift k (symR (ss k).σ)) := by
  apply C04_process_offset_not_in_span p hwf ss hh
  intro s d _ hd i hi
  obtain ⟨e, he, rfl, m, hm, rfl⟩ := hd
  have hwf' := hwf
  simp only [Circuit2.WF, Bool.and_eq_true, decide_eq_true_eq] at hwf'
  obtain ⟨⟨⟨hcwf, hnin⟩, _⟩, _⟩ := hwf'
  exact C04_proc_ot_serves_own_wires p.c hcwf (fun s => (ss s).job) evs st hrun e he m (Or.inl hm)
    (p.n0 + i) (input_defined p.c _ (by omega))

/-- Non-vacuity of `C04_process_secrecy` / `C04_proc_ot_serves_own_wires`: for
the example circuit and ANY jobs, the history "session 0 starts and stalls,
session 1 starts, its OT runs, session 0's OT runs" is a run of the model, and
both sessions have OT reads recorded. -/
example {L : Type} [LabelAlg L] (job : Nat → GJob L) :
    ∃ st, runProc false (garbleParams procExample.c) job (initP (garbleParams procExample.c))
        [.start 0, .start 1, .otBegin 1, .otEnd 1, .otBegin 0, .otEnd 0] = some st ∧
      st.sess.map (fun e => (e.id, e.otSeen.length)) = [(1, 2), (0, 2)] :=
  ⟨_, rfl, rfl⟩

/-- **What the property excludes: the scratch goes back to the pool before its
last use.**  `early = true`: the garbler calls `garbled.Release()` once the
tables and its own input labels are sent and keeps reading through the slice it
copied out.  (1) Session 0 stalls before its OT, session 1 garbles in the gap:
it draws session 0's scratch, and session 0's OT, when it resumes, reads
session 1's wire pairs (digest 2), so does its result loop.  (2) Session 0
stalls between two OT messages: the wire table changes under the OT.  (3) The
code as it is (`early = false`) reads its own garbling on both histories. -/
theorem C04_proc_early_release_serves_foreign :
    (match runDigest true [.start 0, .start 1, .otBegin 0, .otEnd 0, .decode 0, .otBegin 1, .otEnd 1] with
     | some st => (st.sess.map fun e => (e.id, e.scratch, e.otSeen, e.decSeen, servedBy e)) ==
         [(1, 0, [2, 2], [], some 1), (0, 0, [2, 2], [2], some 1)]
     | none => false) = true ∧
    (match runDigest true [.start 0, .otBegin 0, .start 1, .otEnd 0] with
     | some st => (st.sess.map fun e => (e.id, e.otSeen, servedBy e)) == [(1, [], none), (0, [1, 2], none)]
     | none => false) = true ∧
    (match runDigest false [.start 0, .start 1, .otBegin 0, .otEnd 0, .decode 0, .otBegin 1, .otEnd 1] with
     | some st => (st.sess.map fun e => (e.id, e.scratch, e.otSeen, e.decSeen, servedBy e)) ==
         [(1, 1, [2, 2], [], some 1), (0, 0, [1, 1], [1], some 0)]
     | none => false) = true := by decide

end Mpc.GProc

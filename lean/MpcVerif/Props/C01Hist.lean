/-
C01 over garbling HISTORIES on one circuit value.

The property quantifies over "every garbling key and randomness": a random
source may fail or run short at any byte, and a caller garbles the same
`*Circuit` many times, keeps several garblings live at the same time and
releases them in any order.  `Props/C01.lean` is about one garbling in
isolation; here the statement is lifted to every history
(`Model/GarbleHist.lean`): any sequence of successful Garble calls, Garble
calls that FAIL after any number `k` of writes into the scratch they drew
(`HEv.fail`: before `R`, after `R`, inside the k-th input label, a refused
key), evaluations of live garblings and Releases, with every choice
`sync.Pool.Get` can make.  A history is a schedule of the ownership model of
C17 (`Model/Pool.lean`, unchanged; theorems of `Props/C17.lean` reused), in
which the error return of Garble puts the scratch back exactly once.

* `C01_history_pool_invariant`   — after any history no scratch is in the pool
  twice, none is both in the pool and behind a live garbling, none is behind
  two live garblings.
* `C01_history_live_garblings_evaluate_correctly` — after any history, behind
  EVERY live handle there is the garbling `Circuit.garble` of that call's own
  key and tape, and evaluating it on any input takes no error branch and
  decodes on every defined wire to the plain-evaluation bit.
* `C01_history_live_garbling_stable` — later calls of a history (failing or
  not) do not change a garbling that stays live.
* `C01_history_failed_garble_only_puts` — a failed Garble adds no handle,
  changes no live handle and no byte behind one; the scratch it drew is in the
  pool exactly once afterwards.
* `C01_history_next_call_enabled` — progress: after any history the caller is
  idle, the next Garble (succeeding, or failing after any number of writes)
  runs and a successful one yields a new live handle; every live garbling can
  be evaluated and released.
* `C01_history_garble_enabled_after_failure` (non-vacuity / progress) — the
  history "fail at `k`, garble A, garble B" runs for every `k` up to the
  number of writes, with two garblings live at the end.
* `C01_history_double_put_breaks` — negation witness: if the error return puts
  the scratch twice (`dbl = true`), the history "failed Garble, Garble A,
  Garble B" ends with the scratch behind BOTH live handles and handle A
  showing B's data; with the single Put the same `Get` choices are refused
  and A keeps its own data.  `checks/C01.py` runs this history (and every
  generated one) on the real code.
-/
import MpcVerif.Props.C17
import MpcVerif.Proofs.GarbleHist

namespace Mpc.Pool
variable {Mem Job : Type}

/-- **No double ownership after any history.**  (1) no scratch is cached twice
in the pool; (2) a cached scratch is not behind any live garbling; (3) two
live garblings never share a scratch; (4) every scratch ever allocated is
somewhere (in the pool or behind a live garbling: none is lost by a failed
Garble). -/
theorem C01_history_pool_invariant (P : Params Mem Job) (evs : List (HEv Job)) (σ : State Mem Job)
    (hrun : runHist P (init P) evs = some σ) :
    (∀ q x, (σ.free q).count x ≤ 1) ∧
    (∀ q x h H, x ∈ σ.free q → σ.handle h = some H → H.owned ≠ some x) ∧
    (∀ h h' H H' x, σ.handle h = some H → σ.handle h' = some H' →
        H.owned = some x → H'.owned = some x → h = h') ∧
    (∀ x, x < σ.nScratch → ∃ o, Owns σ x o) := by
  have hr := reachable_runHist P _ σ evs .init hrun
  have hi := inv_reachable P σ hr
  refine ⟨fun q x => (List.nodup_iff_count.mp (hi.freeNodup q)) x, hi.freeH, hi.ownHH, ?_⟩
  intro x hx
  exact (C17_scratch_owned_once P σ hr x hx).1

/-- **A garbling that stays live is not changed by the rest of the history**
(successful or failing Garble calls, evaluations, Releases of other handles):
it is backed by the same scratch, whose contents are the same, and it is the
result of the same call. -/
theorem C01_history_live_garbling_stable (P : Params Mem Job) (evs evs' : List (HEv Job))
    (σ σ' : State Mem Job) (hrun : runHist P (init P) evs = some σ) (hrun' : runHist P σ evs' = some σ')
    (h : HandleId) (H H' : Handle Mem Job) (x : ScratchId)
    (hH : σ.handle h = some H) (hH' : σ'.handle h = some H') (ho' : H'.owned = some x) :
    H.owned = some x ∧ σ'.mem x = σ.mem x ∧ H'.job = H.job ∧ H'.init = H.init := by
  have hr := reachable_runHist P _ σ evs .init hrun
  exact (C17_garble_isolated P σ hr).2.2.2 σ' h H H' x (steps_runHist P σ σ' evs' hrun') hH hH' ho'

/-- **A failed Garble only touches the pool.**  From any state a history
reaches: the call adds no handle, every handle record is unchanged, the
contents behind every live garbling are unchanged, and the scratch the call
drew is cached exactly once afterwards. -/
theorem C01_history_failed_garble_only_puts (P : Params Mem Job) (evs : List (HEv Job))
    (σ σ' : State Mem Job) (hrun : runHist P (init P) evs = some σ)
    (j : Job) (k : Nat) (s : Option ScratchId) (hf : runEv P σ (.fail j k s) = some σ') :
    σ'.nHandles = σ.nHandles ∧
    (∀ h H x, σ.handle h = some H → H.owned = some x →
        σ'.handle h = some H ∧ σ'.mem x = σ.mem x) ∧
    (∃ p x, σ'.poolPtr = some p ∧ (σ'.free p).head? = some x ∧ (σ'.free p).count x = 1) := by
  have hr := reachable_runHist P _ σ evs .init hrun
  have hrun2 : runHist P σ [.fail j k s] = some σ' := by
    simp only [runHist, runHistWith]
    have : runEvWith false P σ (.fail j k s) = some σ' := hf
    rw [this]
  have hi' := inv_reachable P σ' (reachable_runHist P σ σ' _ hr hrun2)
  have hsteps := steps_runHist P σ σ' _ hrun2
  obtain ⟨σ1, j', p, x, m0, k', hpre, hpc, f1, f2, rfl⟩ := fail_split P σ σ' j k s hf
  have hi1 := inv_reachable P σ1 (reachable_runSched P true σ σ1 _ hr hpre)
  refine ⟨f1, ?_, ?_⟩
  · intro h H y hH ho
    have hHe : ({ σ1 with free := upd σ1.free p (x :: σ1.free p), pc := upd σ1.pc 0 PC.idle } :
        State Mem Job).handle h = some H := by
      show σ1.handle h = some H
      rw [f2]; exact hH
    exact ⟨hHe, ((C17_garble_isolated P σ hr).2.2.2 _ h H H y hsteps hH hHe ho).2.1⟩
  · refine ⟨p, x, hi1.runPool 0 j' p x m0 k' hpc, by simp [upd], ?_⟩
    have h1 : (upd σ1.free p (x :: σ1.free p) p).count x ≤ 1 :=
      (List.nodup_iff_count.mp (hi'.freeNodup p)) x
    have h2 : 0 < (upd σ1.free p (x :: σ1.free p) p).count x :=
      List.count_pos_iff.mpr (by simp [upd])
    show (upd σ1.free p (x :: σ1.free p) p).count x = 1
    omega

/-- **Progress: after ANY history the next call is possible.**  Whatever the
history did (failures at any point included), at its end (1) every goroutine is
idle (each call has returned); (2) a Garble with any key and tape runs, with
the `Get` choice of the executed model, and yields one more handle, which is
live; (3) so does a Garble failing after any number `k` of its writes; (4)
every live garbling can be evaluated (which changes nothing) and released
(after which it is not live).  So the hypothesis `runHist … = some σ` of the
other history theorems is satisfiable step by step: histories are not cut
short by the model. -/
theorem C01_history_next_call_enabled (P : Params Mem Job) (evs : List (HEv Job)) (σ : State Mem Job)
    (hrun : runHist P (init P) evs = some σ) :
    (∀ t, σ.pc t = .idle) ∧
    (∀ j, ∃ σ', runEv P σ (.garble j (pickFree σ)) = some σ' ∧ σ'.nHandles = σ.nHandles + 1 ∧
        liveHandle σ' σ.nHandles = true) ∧
    (∀ j k, k ≤ (P.prog j).length → ∃ σ', runEv P σ (.fail j k (pickFree σ)) = some σ') ∧
    (∀ h, liveHandle σ h = true →
        runEv P σ (.eval h) = some σ ∧
        ∃ σ', runEv P σ (.release h) = some σ' ∧ liveHandle σ' h = false) := by
  have hidle := runHist_all_idle P evs (init P) σ (fun _ => rfl) hrun
  have hi := inv_reachable P σ (reachable_runHist P _ σ evs .init hrun)
  refine ⟨hidle, ?_, ?_, ?_⟩
  · intro j
    obtain ⟨σ1, p, x, m0, a1, a2, a3, a4⟩ := acquire_run P σ j (hidle 0)
    obtain ⟨σ2, b1, b2, b3, b4⟩ := writes_run P true j p x m0 (P.prog j).length σ1 0 a2 (by omega)
    simp only [Nat.zero_add] at b2
    refine ⟨{ σ2 with nHandles := σ2.nHandles + 1,
                      handle := upd σ2.handle σ2.nHandles
                        (some { scratch := some x, pool := some p, job := j, init := m0,
                                user := none, putDone := false }),
                      pc := upd σ2.pc 0 .idle }, ?_, ?_, ?_⟩
    · show runEvWith false P σ _ = _
      rw [runEv_eq_runSched]
      simp only [evSched]
      rw [runSched_append P true σ σ2 _ _ (by rw [runSched_append P true σ σ1 _ _ a1]; exact b1)]
      simp [runSched, step?, b2]
    · simp [b3, a3]
    · simp [liveHandle, b3, a3, upd]
  · intro j k hk
    obtain ⟨σ1, p, x, m0, a1, a2, a3, a4⟩ := acquire_run P σ j (hidle 0)
    obtain ⟨σ2, b1, b2, b3, b4⟩ := writes_run P true j p x m0 k σ1 0 a2 (by omega)
    refine ⟨{ σ2 with free := upd σ2.free p (x :: σ2.free p), pc := upd σ2.pc 0 .idle }, ?_⟩
    show runEvWith false P σ _ = _
    rw [runEv_eq_runSched]
    simp only [evSched]
    rw [runSched_append P true σ σ2 _ _ (by rw [runSched_append P true σ σ1 _ _ a1]; exact b1)]
    simp [runSched, step?, b2]
  · intro h hl
    simp only [liveHandle] at hl
    split at hl
    · rename_i H hH
      have hu : H.user = none := by
        cases hu' : H.user with
        | none => rfl
        | some t =>
          have := hi.userOk h H t hH hu'
          rw [hidle t] at this
          simp at this
      have hf := hi.hFields h H hH
      cases hp : H.pool with
      | none => simp [hp] at hl
      | some p =>
        cases hx : H.scratch with
        | none => rw [hp, hx] at hf; simp at hf
        | some x =>
          constructor
          · show runEvWith false P σ _ = _
            rw [runEv_eq_runSched]
            simp [evSched, runSched, step?, hidle 0, hH, hu, hp]
          · obtain ⟨e3, _⟩ := release_runs P σ 0 h H p x (hidle 0) hH hu hp hx
            refine ⟨released σ 0 h H p x, ?_, ?_⟩
            · show runEvWith false P σ _ = _
              rw [runEv_eq_runSched]
              simp only [evSched, hH, hp, Option.isSome_some, if_true]
              exact e3
            · simp [liveHandle, released, upd]
    · simp at hl


/-- Non-vacuity: the statement instantiated after a history with a failure. -/
example : ∃ σ, runHist traceParams (init traceParams) [.fail 7 1 none, .garble 11 (some 0)] = some σ ∧
    pickFree σ = none ∧ liveHandle σ 0 = true := ⟨_, rfl, rfl, rfl⟩

section C01link
open Mpc LabelAlg
variable {L : Type} [LabelAlg L]

/-- **Main statement over histories.**  Pool model with the actual writes of
`Circuit.Garble` (`garbleParams c`), well-formed circuit, ANY history on that
one circuit value — successful garblings, garblings failing at any point,
evaluations, releases, any `Get` choices — and ANY handle that is live at its
end (several may be): (1) the wire pairs behind it are those of
`Circuit.garble` of that call's own key and tape, (2) so are its tables;
(3) evaluating those tables on the labels of any input takes no error branch
and the label on every defined wire is one of that wire's two labels and
decodes (`BitFromLabel`) to exactly the plain-evaluation bit. -/
theorem C01_history_live_garblings_evaluate_correctly [DecidableEq L] (c : Circuit) (hwf : c.WF = true)
    (evs : List (HEv (GJob L))) (σ : State (GMem L) (GJob L))
    (hrun : runHist (garbleParams c) (init (garbleParams c)) evs = some σ)
    (h : HandleId) (H : Handle (GMem L) (GJob L)) (x : ScratchId)
    (hH : σ.handle h = some H) (ho : H.owned = some x) (hsel : sbit H.job.r = true)
    (inp : List Bool) :
    (∀ w, c.defined w = true →
        (σ.mem x).wires.get w = (c.garble H.job.H H.job.r H.job.inl).wires.get w) ∧
    (garbledOf c H.job (σ.mem x)).rows = (c.garble H.job.H H.job.r H.job.inl).rows ∧
    ∃ out, c.evalGarbled H.job.H (garbledOf c H.job (σ.mem x)).rows
        (encodeInputs c (garbledOf c H.job (σ.mem x)) inp) = .ok out ∧
      ∀ w, c.defined w = true →
        ((σ.mem x).wires.get w).bitFrom (out.get w) = some ((c.plainEval inp).get w) := by
  have hr := reachable_runHist (garbleParams c) _ σ evs .init hrun
  obtain ⟨e1, e2⟩ := C17_garble_equals_C01 c hwf σ hr h H x hH ho
  obtain ⟨out, h1, h2⟩ := C17_concurrent_garbling_evaluates_correctly c hwf σ hr h H x hH ho hsel inp
  obtain ⟨_, _, h3⟩ := C01_label_is_one_of_two H.job.H c H.job.r hsel H.job.inl inp hwf
  refine ⟨e1, e2, out, h1, fun w hw => ?_⟩
  have hne := (h3 w hw).2
  rw [← e1 w hw] at hne
  rw [h2 w hw]
  unfold WireL.bitFrom WireL.labelFor
  cases (c.plainEval inp).get w
  · simp
  · simp [Ne.symm hne]

/-- Non-vacuity of the main statement: for the C01 example circuit (every gate
kind, fan-out, `in0 = in1`; `WF` by `decide` in Props/C01.lean) and ANY three
jobs, the history "Garble failing after the first input label, Garble A,
Garble B" runs, and at its end both garblings are live — A on the scratch the
failed call had drawn and put back, B on a new one — each produced by its own
job. -/
example (jf ja jb : GJob L) : ∃ σ : State (GMem L) (GJob L),
    runHist (garbleParams exampleCircuit) (init (garbleParams exampleCircuit))
      [.fail jf 1 none, .garble ja (some 0), .garble jb none] = some σ ∧
    ∃ Ha Hb, σ.handle 0 = some Ha ∧ Ha.owned = some 0 ∧ Ha.job = ja ∧
      σ.handle 1 = some Hb ∧ Hb.owned = some 1 ∧ Hb.job = jb ∧ σ.free 0 = [] :=
  ⟨_, rfl, _, _, rfl, rfl, rfl, rfl, rfl, rfl, rfl⟩

example : exampleCircuit.WF = true := by decide

end C01link

/-! ### Non-vacuity, progress and the negation witness (digest instance) -/

/-- The history "Garble that fails after `k` writes; Garble A; Garble B" with
the `Get` choices of the executed model (`pickFree`). -/
def failThenTwo (k a b : Nat) : List (HEv Nat) :=
  [.fail 7 k none, .garble a (some 0), .garble b none]

/-- **Progress / non-vacuity.**  In the digest instance (a call clears, then
writes its digest: 2 writes) the history "fail after `k` writes, Garble A,
Garble B" runs for every failure point `k ≤ 2`; at its end both garblings are
live, on different scratches, each showing its own data, and the pool is
empty. -/
theorem C01_history_garble_enabled_after_failure (k a b : Nat) (hk : k ≤ 2) :
    ∃ σ, runHist traceParams (init traceParams) (failThenTwo k a b) = some σ ∧
      liveHandle σ 0 = true ∧ liveHandle σ 1 = true ∧
      readVal σ 0 = some a ∧ readVal σ 1 = some b ∧
      ownersOf σ 0 = 1 ∧ ownersOf σ 1 = 1 ∧ σ.free 0 = [] := by
  have hk' : k = 0 ∨ k = 1 ∨ k = 2 := by omega
  rcases hk' with rfl | rfl | rfl <;> exact ⟨_, rfl, rfl, rfl, rfl, rfl, rfl, rfl, rfl⟩

/-- **Negation witness for a double Put.**  With the error return putting the
scratch twice (`dbl = true`): after the failed Garble scratch 0 is cached
twice; Garble A and Garble B both draw it; at the end of the history both
handles are live on scratch 0 and handle A shows B's data (`22`, not `11`).
With the single Put (`dbl = false`) the same `Get` choices are not possible
(B cannot draw scratch 0 while A is live). -/
theorem C01_history_double_put_breaks :
    (∃ σ1, runHistWith true traceParams (init traceParams) [.fail 7 1 none] = some σ1 ∧
        (σ1.free 0).count 0 = 2) ∧
    (∃ σ, runHistWith true traceParams (init traceParams)
          [.fail 7 1 none, .garble 11 (some 0), .garble 22 (some 0)] = some σ ∧
        liveHandle σ 0 = true ∧ liveHandle σ 1 = true ∧ ownersOf σ 0 = 2 ∧
        readVal σ 0 = some 22 ∧ readVal σ 1 = some 22) ∧
    runHistWith false traceParams (init traceParams)
        [.fail 7 1 none, .garble 11 (some 0), .garble 22 (some 0)] = none := by
  refine ⟨⟨_, rfl, rfl⟩, ⟨_, rfl, rfl, rfl, rfl, rfl, rfl⟩, rfl⟩

/-- Non-vacuity of the history theorems: a history with a failure at every
kind of point, three garblings live at the same time, evaluations of live
garblings out of order, a release and a reuse of the released scratch, a
second release of the same handle. -/
example :
    (match runHist traceParams (init traceParams)
        [.fail 1 0 none, .garble 11 (some 0), .fail 2 1 none, .garble 22 (some 1), .fail 3 2 none,
         .garble 33 (some 2), .eval 2, .eval 0, .eval 1, .release 1, .eval 0, .fail 4 1 (some 1),
         .garble 44 (some 1), .eval 3, .eval 2, .release 1, .release 0, .release 3, .release 2] with
     | some σ => σ.nHandles == 4 && σ.nScratch == 3 && (σ.free 0).length == 3 &&
         !liveHandle σ 0 && !liveHandle σ 3
     | none => false) = true := by decide

/-- Evaluating a released garbling is not a call of a history. -/
example : runHist traceParams (init traceParams) [.garble 5 none, .release 0, .eval 0] = none := by decide

end Mpc.Pool

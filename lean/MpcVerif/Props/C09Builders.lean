/-
C09 (operator level)  The two axes of C09 that `Props/C09.lean` leaves to
simulation — the multiplier threshold and the compilation target — proved at
the level of the circuit builders, for EVERY operand width, result width,
prologue variant and operand value, as corollaries of the exactness theorems of
`Props/C07.lean`: two builders that both compute the exact function with the
same number of result wires give the same result wires.

The Lean generators used here (`rippleAdder`, `ksAdder`, `rippleSubtractor`,
`ksSubtractor`, `arrayMultiplier`, `karatsuba`, `wallace`, `newMultiplier`,
`hamming`) are the ones compared gate for gate with the real Go builders on
every run of the C07 check (T4).

What this does NOT cover: the GMW target of `NewUDivider` (Goldschmidt divider;
the quotient estimate is a validated hypothesis in C07, and a/0 differs between
the targets: `C09_target_equivalence_fails`), and the composition of operators
into whole programs (the SSA → circuit stage is validated per program by the
checker of `Props/C09.lean`).
-/
import MpcVerif.Props.C07

namespace Mpc
open Mpc.Bld

/-- Two result buses with the same length and the same unsigned value are the
same bit list. -/
private theorem bits_eq_of_spec {a b : List Bool} {n v : Nat}
    (ha : a.length = n ∧ toNat a = v) (hb : b.length = n ∧ toNat b = v) : a = b :=
  toNat_inj a b (by rw [ha.1, hb.1]) (by rw [ha.2, hb.2])

private theorem bits_eq_of_spec_int {a b : List Bool} {n : Nat} {v : Int}
    (ha : a.length = n ∧ (toNat a : Int) = v) (hb : b.length = n ∧ (toNat b : Int) = v) : a = b :=
  toNat_inj a b (by rw [ha.1, hb.1]) (by have := ha.2; have := hb.2; omega)

/-- Target axis, addition: `NewAdder` for the Yao target (ripple carry) and for
the GMW target (Kogge-Stone) drive identical result bits for all widths and
values. -/
theorem C09_add_target_equiv (pro : Bool) (x y : List Bool) (nz : Nat)
    (hw : 0 < max x.length y.length) (hnz : 0 < nz) :
    evalBuilder (fun a b => newAdder false a b nz) pro x y =
      evalBuilder (fun a b => newAdder true a b nz) pro x y := by
  have h1 := C07_adder pro x y nz hw hnz
  have h2 := C07_ksAdder pro x y nz hw hnz
  simp only [newAdder, if_true, Bool.false_eq_true, if_false]
  exact bits_eq_of_spec h1 h2

example : evalBuilder (fun a b => newAdder false a b 7) true (ofNat 6 31) (ofNat 6 33) =
    evalBuilder (fun a b => newAdder true a b 7) true (ofNat 6 31) (ofNat 6 33) :=
  C09_add_target_equiv true _ _ 7 (by decide) (by decide)

/-- Target axis, subtraction: `NewSubtractor` ripple-borrow (Yao) and
Kogge-Stone (GMW) agree on every result bit. -/
theorem C09_sub_target_equiv (pro : Bool) (x y : List Bool) (nz : Nat)
    (hw : 0 < max x.length y.length) (hnz : 0 < nz) :
    evalBuilder (fun a b => newSubtractor false a b nz) pro x y =
      evalBuilder (fun a b => newSubtractor true a b nz) pro x y := by
  have h1 := C07_sub pro x y nz hw hnz
  have h2 := C07_ksSub pro x y nz hw hnz
  simp only [newSubtractor, if_true, Bool.false_eq_true, if_false]
  exact bits_eq_of_spec_int h1 h2

example : evalBuilder (fun a b => newSubtractor false a b 8) true (ofNat 6 0) (ofNat 6 1) =
    evalBuilder (fun a b => newSubtractor true a b 8) true (ofNat 6 0) (ofNat 6 1) :=
  C09_sub_target_equiv true _ _ 8 (by decide) (by decide)

/-- Threshold axis: the Karatsuba multiplier gives the same result bits for ANY
two array thresholds `l₁, l₂ ≥ 3` (on either target), for all widths and values;
`params.CircMultArrayTreshold` therefore never changes a product. -/
theorem C09_mul_threshold_irrelevant (gmw : Bool) (l₁ l₂ : Nat) (h₁ : 3 ≤ l₁) (h₂ : 3 ≤ l₂)
    (pro : Bool) (x y : List Bool) (nz : Nat) (hw : 0 < max x.length y.length) (hnz : 0 < nz) :
    evalBuilder (fun a b => do
        let r ← karatsuba gmw l₁ (2 * max a.length b.length + 8) a b nz
        pure (r.getD [])) pro x y =
    evalBuilder (fun a b => do
        let r ← karatsuba gmw l₂ (2 * max a.length b.length + 8) a b nz
        pure (r.getD [])) pro x y :=
  bits_eq_of_spec (C07_karatsuba gmw l₁ h₁ pro x y nz hw hnz) (C07_karatsuba gmw l₂ h₂ pro x y nz hw hnz)

example : evalBuilder (fun a b => do
      let r ← karatsuba false 3 (2 * max a.length b.length + 8) a b 10
      pure (r.getD [])) true (ofNat 5 27) (ofNat 5 19) =
    evalBuilder (fun a b => do
      let r ← karatsuba false 21 (2 * max a.length b.length + 8) a b 10
      pure (r.getD [])) true (ofNat 5 27) (ofNat 5 19) :=
  C09_mul_threshold_irrelevant false 3 21 (by decide) (by decide) true _ _ 10 (by decide) (by decide)

/-- Threshold axis, extreme case: Karatsuba at any threshold equals the plain
array multiplier (the `limit = ∞` configuration). -/
theorem C09_mul_karatsuba_eq_array (gmw : Bool) (l : Nat) (hl : 3 ≤ l)
    (pro : Bool) (x y : List Bool) (nz : Nat) (hw : 0 < max x.length y.length) (hnz : 0 < nz) :
    evalBuilder (fun a b => do
        let r ← karatsuba gmw l (2 * max a.length b.length + 8) a b nz
        pure (r.getD [])) pro x y =
    evalBuilder (fun a b => arrayMultiplier a b nz) pro x y :=
  bits_eq_of_spec (C07_karatsuba gmw l hl pro x y nz hw hnz) (C07_arrayMult pro x y nz hw hnz)

/-- Target axis, multiplication: `NewMultiplier` for Yao (Karatsuba with the
per-width threshold table) and for GMW (Wallace tree) compute the same number
(the Wallace theorem carries the value; both are `(x·y) mod 2^nz`). -/
theorem C09_mul_target_equiv (pro : Bool) (x y : List Bool) (nz : Nat)
    (hw : 0 < max x.length y.length) (hnz : 0 < nz) :
    toNat (evalBuilder (fun a b => do let r ← newMultiplier false a b nz; pure (r.getD [])) pro x y) =
      toNat (evalBuilder (fun a b => do let r ← newMultiplier true a b nz; pure (r.getD [])) pro x y) := by
  rw [(C07_mul_yao pro x y nz hw hnz).2, C07_mul_gmw pro x y nz (by omega) hnz]

/-- Target axis, multiplication, bit for bit: Yao Karatsuba vs the Wallace tree
itself (which has the length clause). -/
theorem C09_mul_target_equiv_bits (pro : Bool) (x y : List Bool) (nz : Nat)
    (hw : 0 < max x.length y.length) (hnz : 0 < nz) :
    evalBuilder (fun a b => do let r ← newMultiplier false a b nz; pure (r.getD [])) pro x y =
      evalBuilder (fun a b => wallace a b nz) pro x y :=
  bits_eq_of_spec (C07_mul_yao pro x y nz hw hnz) (C07_wallace pro x y nz (by omega) hnz)

example : evalBuilder (fun a b => do let r ← newMultiplier false a b 8; pure (r.getD [])) true (ofNat 4 13) (ofNat 4 11) =
    evalBuilder (fun a b => wallace a b 8) true (ofNat 4 13) (ofNat 4 11) :=
  C09_mul_target_equiv_bits true _ _ 8 (by decide) (by decide)

/-- Target axis, Hamming distance: the adder tree built from ripple-carry
adders (Yao) and from Kogge-Stone adders (GMW) gives the same bits. -/
theorem C09_hamming_target_equiv (pro : Bool) (x y : List Bool) (nz : Nat)
    (hw : 1 ≤ max x.length y.length) (hnz : 0 < nz) :
    evalBuilder (fun a b => hamming false a b nz) pro x y =
      evalBuilder (fun a b => hamming true a b nz) pro x y :=
  bits_eq_of_spec (C07_hamming false pro x y nz hw hnz) (C07_hamming true pro x y nz hw hnz)

/-- Target axis, unsigned long division (`NewUDividerLong`, whose subtractor
follows the target): quotient and remainder agree between the targets for every
NON-ZERO divisor.  (The GMW target of `NewUDivider` is the Goldschmidt divider,
not this builder; see the header.) -/
theorem C09_udiv_long_target_equiv (pro : Bool) (x y : List Bool) (nz : Nat)
    (hw : 0 < max x.length y.length) (hy0 : toNat y ≠ 0) :
    evalBuilder (fun a b => do let d ← uDividerLong false a b nz 0; pure d.1) pro x y =
      evalBuilder (fun a b => do let d ← uDividerLong true a b nz 0; pure d.1) pro x y :=
  bits_eq_of_spec (C07_udiv false pro x y nz hw hy0) (C07_udiv true pro x y nz hw hy0)

/-- The same for the remainder. -/
theorem C09_umod_long_target_equiv (pro : Bool) (x y : List Bool) (nz : Nat)
    (hw : 0 < max x.length y.length) (hy0 : toNat y ≠ 0) :
    evalBuilder (fun a b => do let d ← uDividerLong false a b 0 nz; pure d.2) pro x y =
      evalBuilder (fun a b => do let d ← uDividerLong true a b 0 nz; pure d.2) pro x y :=
  bits_eq_of_spec (C07_umod false pro x y nz hw hy0) (C07_umod true pro x y nz hw hy0)

example : evalBuilder (fun a b => do let d ← uDividerLong false a b 5 0; pure d.1) true (ofNat 5 29) (ofNat 5 3) =
    evalBuilder (fun a b => do let d ← uDividerLong true a b 5 0; pure d.1) true (ofNat 5 29) (ofNat 5 3) :=
  C09_udiv_long_target_equiv true _ _ 5 (by decide) (by decide)

end Mpc

/-
C06  Oblivious transfer delivers exactly the chosen label.

Property theorems only; helper lemmas are in Proofs/{Iknp,IknpBuf,Cot,CoRsa,RsaOtBytes}.lean,
the models in Model/{Iknp,Cot,Co,RsaOt,RsaOtBytes}.lean (theorems) and
Model/{CoBytes,P256,Sha256}.lean (executed only: the byte-level instance of
the Chou-Orlandi model on P-256 that the driver compares with the real
`ot.CO`; no theorem depends on P-256 or SHA-256).

Theorems (all audited on every run: propext, Classical.choice, Quot.sound only)
  IKNP      C06_iknp_transpose, C06_iknp_label_corr, C06_iknp_label_corr_malicious,
            C06_iknp_bits_corr (every n; /repo HEAD since 564d319), C06_iknp_bits_corr_eval,
            C06_iknp_bits_old_fails / _old_witness (about the named pre-fix
            definition `receiveBitsOld` only), C06_iknp_session
  buffers   C06_iknp_transpose_into, C06_iknp_receive_buffer_independent,
            C06_iknp_history_buffers (label form: every history, every content of the
            caller-provided result buffers), C06_iknp_or_store_zero_buffer_ok /
            C06_iknp_or_store_dirty_witness (about the named variant `Store.orInto` only),
            C06_iknp_bits_dirty (packed-bit form on every buffer content; /repo HEAD
            since 8f72c8a), C06_iknp_bits_dirty_old_witness (about the named pre-fix
            store `BitStore.orOnly` only)
  COT/ROT   C06_cot_delivers, C06_rot_consistent, C06_cot_end_to_end, C06_rot_end_to_end
  CO        C06_co_masks_agree, C06_co_delivers (HEAD helpers `encryptO`/`decryptO`,
            incl. the on-curve checks of 68f93f2 / 0e7671a)
  composed  C06_iknp_over_co (COT over IKNP over Chou-Orlandi base OTs, roles reversed
            in the base phase)
  RSA       C06_rsa_key_recovered, C06_rsa_delivers; as the code computes it (integers over
            Z, byte strings, every randomness): C06_rsa_powmod, C06_rsa_exec_is_spec,
            C06_rsa_received_integer, C06_rsa_pkcs1_roundtrip, C06_rsa_delivers_bytes,
            C06_rsa_session_delivers; C06_rsa_modn_sender_negative / _witness (about the
            named variant `wireModN` only)

Quantification.  IKNP: every family of PRG streams (`R0 R1 SS : column →
position → byte`, hence every AES key and every PRG), every `Delta`, every
stream state in which the two parties are in step, every choice vector of
every length (all n, all tails mod 8/64/128/512), every sequence of calls on
one pair.  The only link between the parties is `BaseOK`: the base OTs
delivered, i.e. the sender's stream `i` is the receiver's stream selected by
`Delta.Bit(i)`; `C06_iknp_over_co` discharges it from the Chou-Orlandi model.
COT/ROT: every block cipher `π`, every seed, every batch size.  CO: every
commutative group with a scalar action and every KDF (the executed instance is
P-256 with SHA-256, compared byte for byte with Go).  RSA: every modulus and
exponent pair satisfying the RSA key relation, every randomness of both
parties (`x0`, `x1` any natural numbers - `messageSize` random bytes may exceed
`N` -, `k` any value `< N`), every block size and every pair of messages that
fit; the transfer messages are sums over the integers exactly as the code
forms them (Model/RsaOtBytes.lean, executed by the driver on the op lines of
the real code with both random sources on harness tapes).
-/
import MpcVerif.Proofs.Iknp
import MpcVerif.Proofs.IknpBuf
import MpcVerif.Proofs.Cot
import MpcVerif.Proofs.CoRsa
import MpcVerif.Proofs.RsaOtBytes

namespace Mpc
open Mpc.Iknp

/-! ## IKNP extension -/

/-- `iknp_transpose`: `createLabels(l, buf, w)` is the bit-matrix transpose for
every row width `w` and every destination length `len`: it writes exactly
`min (8w) len` labels and bit `j` (Go numbering, `Label.Bit(j)`) of label `idx`
is bit `idx % 8` of byte `idx / 8` of column `j` (`buf[j*w + idx/8]`). -/
theorem C06_iknp_transpose (len w : Nat) (buf : Bytes) :
    (createLabels len buf w).length = min (w * 8) len ∧
    ∀ idx j, idx < min (w * 8) len → j < 128 →
      labelBit ((createLabels len buf w).getD idx 0#128) j = (bget buf (j * w + idx / 8)).getLsbD (idx % 8) :=
  ⟨length_createLabels .., fun idx j h hj => labelBit_createLabels len buf w idx j h hj⟩

example : createLabels 3 (mk 128 fun j => if j = 5 then 0x04#8 else 0#8) 1 = [0#128, 0#128, 1#128 <<< 69] := by
  decide +kernel

/-- `iknp_label_corr`: one `Receive(b, result, false)` / `Send(n, false)` pair.
For every choice vector `b` (every `n = b.size`, including 0), the sender
consumes exactly the chunks the receiver produced (`more` is left untouched,
no error branch), both outputs have `n` labels, the streams are in step again
afterwards, and `received_i = sent_i xor choice_i * Delta` at every position. -/
theorem C06_iknp_label_corr (R0 R1 SS : Nat → Nat → Byte) (delta : Label) (hb : BaseOK R0 R1 SS delta)
    (rs : RecvSt) (ss : SendSt) (hs : InStep rs ss) (b : Array Bool) (more : List Bytes) :
    ∃ ss' sent,
      send SS delta ss b.size ((receive R0 R1 rs b).2.2 ++ more) = some (ss', sent, more) ∧
      InStep (receive R0 R1 rs b).1 ss' ∧
      sent.length = b.size ∧ (receive R0 R1 rs b).2.1.length = b.size ∧
      ∀ i, i < b.size →
        (receive R0 R1 rs b).2.1.getD i 0#128 =
          sent.getD i 0#128 ^^^ (if b.getD i false then delta else 0#128) :=
  label_call R0 R1 SS delta hb rs ss hs b more

/-- Non-vacuity: for any receiver streams and any `Delta` there is a sender
satisfying `BaseOK`, and freshly initialised parties are in step. -/
example (R0 R1 : Nat → Nat → Byte) (delta : Label) :
    BaseOK R0 R1 (fun i p => if labelBit delta i then R1 i p else R0 i p) delta ∧ InStep RecvSt.init SendSt.init :=
  ⟨fun _ _ _ => rfl, InStep.init⟩

/-- The same in malicious mode (`Receive(.., true)` / `Send(n, true)`): the 256
extra transfers with the random choice vector `bcvOf b0 b1` are consumed by
the sender, the first `n` outputs are correlated and the streams end in step.
(That the sender's consistency check accepts the honest receiver is C15.) -/
theorem C06_iknp_label_corr_malicious (R0 R1 SS : Nat → Nat → Byte) (delta : Label)
    (hb : BaseOK R0 R1 SS delta) (rs : RecvSt) (ss : SendSt) (hs : InStep rs ss) (b : Array Bool)
    (b0 b1 : Label) (more : List Bytes) :
    ∃ ss' sent,
      sendMal SS delta ss b.size ((receiveMal R0 R1 rs b b0 b1).2.2 ++ more) = some (ss', sent, more) ∧
      InStep (receiveMal R0 R1 rs b b0 b1).1 ss' ∧
      sent.length = b.size ∧ (receiveMal R0 R1 rs b b0 b1).2.1.length = b.size ∧
      ∀ i, i < b.size →
        (receiveMal R0 R1 rs b b0 b1).2.1.getD i 0#128 =
          sent.getD i 0#128 ^^^ (if b.getD i false then delta else 0#128) :=
  label_call_mal R0 R1 SS delta hb rs ss hs b b0 b1 more

/-! ### Packed-bit form

`ReceiveBits` XORs the choice bits into the u-matrix in `words` 64-bit words
per chunk.  At /repo HEAD `words := (byteRows + 7) / 8` (commit 564d319), which
covers every row; before that commit it was `byteRows / 8`, which dropped the
choices of a partial last word.  The model has the word count as a parameter:
`receiveBits` is the current code, `receiveBitsOld` the code before the fix
(kept only to state what was wrong with it). -/

/-- `iknp_bits_corr`: one `ReceiveBits`/`SendBits` pair on zeroed result
buffers, for EVERY count `n` (every n mod 8/64/128/512, also 0): no error
branch, the sender consumes exactly the receiver's chunks, the streams are in
step afterwards, no bit is set at positions `≥ n`, and at every position
`received_j = sent_j xor (Delta.Bit(0) and choice_j)`. -/
theorem C06_iknp_bits_corr (R0 R1 SS : Nat → Nat → Byte) (delta : Label) (hb : BaseOK R0 R1 SS delta)
    (rs : RecvSt) (ss : SendSt) (hs : InStep rs ss) (choices : Words) (n : Nat)
    (hch : (n + 63) / 64 ≤ choices.size) (more : List Bytes) :
    ∃ rs' ss' rw sw msgs,
      receiveBits R0 R1 rs choices (mk ((n + 63) / 64) fun _ => 0#64) n = some (rs', rw, msgs) ∧
      sendBits SS delta ss n (mk ((n + 63) / 64) fun _ => 0#64) (msgs ++ more) = some (ss', sw, more) ∧
      InStep rs' ss' ∧ rw.size = (n + 63) / 64 ∧ sw.size = (n + 63) / 64 ∧
      (∀ j, j < n → bitAt rw j = (bitAt sw j ^^ (labelBit delta 0 && bitAt choices j))) ∧
      (∀ j, n ≤ j → bitAt rw j = false ∧ bitAt sw j = false) := by
  obtain ⟨rs', ss', rw, sw, msgs, h1, h2, h3, h4, h5, h6, h7⟩ :=
    bits_call wordsHead R0 R1 SS delta hb rs ss hs choices n hch more
  refine ⟨rs', ss', rw, sw, msgs, h1, h2, h3, h4, h5, ?_, h7⟩
  intro j hj
  rw [h6 j hj, covered_head n j hj, Bool.true_and]

example : (10 + 63) / 64 ≤ (#[0x3ff#64] : Words).size := by decide

/-- The same by plain evaluation of the model at the input that used to fail
(n = 1, zero streams, choice bit 1, `Delta.Bit(0) = 1`): sender bit 1,
receiver bit 0 (before the fix both were 0). -/
theorem C06_iknp_bits_corr_eval :
    (runCall (fun _ _ => 0#8) (fun _ _ => 0#8) (fun _ _ => 0#8) (1#128 <<< 64) RecvSt.init SendSt.init
      (.bits 1 #[1#64])).map (fun r => (r.2.2.1.sentW, r.2.2.1.rcvdW)) = some (#[1#64], #[0#64]) := by
  decide +kernel

/-- What was wrong before 564d319 (`receiveBitsOld`, `words := byteRows / 8`):
for every count with `1 ≤ n % 64 ≤ 56`, whenever `Delta.Bit(0) = 1` and the
last choice bit is 1, the receiver's last bit equalled the sender's instead of
its complement — for all streams and states.  The check replays this on a tree
with the fix reverted (oracle signature `c06-bits-corr`). -/
theorem C06_iknp_bits_old_fails (R0 R1 SS : Nat → Nat → Byte) (delta : Label) (hb : BaseOK R0 R1 SS delta)
    (rs : RecvSt) (ss : SendSt) (hs : InStep rs ss) (choices : Words) (n : Nat)
    (hch : (n + 63) / 64 ≤ choices.size) (h1 : 1 ≤ n % 64) (h2 : n % 64 ≤ 56)
    (hd : labelBit delta 0 = true) (hc : bitAt choices (n - 1) = true) :
    ∃ rs' ss' rw sw msgs,
      receiveBitsOld R0 R1 rs choices (mk ((n + 63) / 64) fun _ => 0#64) n = some (rs', rw, msgs) ∧
      sendBits SS delta ss n (mk ((n + 63) / 64) fun _ => 0#64) msgs = some (ss', sw, []) ∧
      ¬ (∀ j, j < n → bitAt rw j = (bitAt sw j ^^ (labelBit delta 0 && bitAt choices j))) := by
  obtain ⟨rs', ss', rw, sw, msgs, e1, e2, _, _, _, h6, _⟩ :=
    bits_call wordsOld R0 R1 SS delta hb rs ss hs choices n hch []
  rw [List.append_nil] at e2
  refine ⟨rs', ss', rw, sw, msgs, e1, e2, ?_⟩
  intro hall
  have hn : n - 1 < n := by omega
  have a := hall (n - 1) hn
  rw [h6 (n - 1) hn, not_covered_old_last n h1 h2, hd, hc] at a
  cases h : bitAt sw (n - 1) <;> simp [h] at a

/-- Concrete instance n = 10 (all-ones choices, `Delta = Label{D0: 1}`) of the
old defect. -/
theorem C06_iknp_bits_old_witness (R0 R1 : Nat → Nat → Byte) :
    ∃ rs' ss' rw sw msgs,
      receiveBitsOld R0 R1 RecvSt.init #[0x3ff#64] (mk 1 fun _ => 0#64) 10 = some (rs', rw, msgs) ∧
      sendBits (fun i p => if labelBit (1#128 <<< 64) i then R1 i p else R0 i p) (1#128 <<< 64) SendSt.init 10
        (mk 1 fun _ => 0#64) msgs = some (ss', sw, []) ∧
      ¬ (∀ j, j < 10 → bitAt rw j = (bitAt sw j ^^ (labelBit (1#128 <<< 64) 0 && bitAt #[0x3ff#64] j))) :=
  C06_iknp_bits_old_fails R0 R1 _ (1#128 <<< 64) (fun _ _ _ => rfl) _ _ InStep.init #[0x3ff#64] 10
    (by decide) (by decide) (by decide) (by decide) (by decide)

/-- `iknp_*` for any sequence of calls on one initialised pair (label form,
malicious-mode label form and packed-bit form in any order): the session runs
to completion and every call meets its specification — the per-column PRG
streams of sender and receiver stay in lock step across batches. -/
theorem C06_iknp_session (R0 R1 SS : Nat → Nat → Byte) (delta : Label) (hb : BaseOK R0 R1 SS delta)
    (cs : List Call) (hwf : ∀ c ∈ cs, c.WF) :
    ∃ outs, session R0 R1 SS delta RecvSt.init SendSt.init cs = some outs ∧ outs.length = cs.length ∧
      ∀ k (hk : k < cs.length) (hk' : k < outs.length), CallSpec delta cs[k] outs[k] :=
  session_ok R0 R1 SS delta hb cs _ _ InStep.init hwf

example : ∀ c ∈ [Call.labels true #[true, false, true] 0#128 0#128, Call.bits 64 #[5#64]], c.WF := by
  intro c hc
  simp only [List.mem_cons, List.mem_nil_iff, or_false] at hc
  rcases hc with rfl | rfl
  · trivial
  · show (64 + 63) / 64 ≤ (#[5#64] : Words).size
    decide

/-! ### Caller-provided output buffers (Model/IknpBuf.lean)

`Receive(b, result, malicious)` writes into the CALLER's `result`
(`createLabels(result[ofs:], ..)`), `COT.Receive`/`ROT.Receive` pass their
caller's slice through, `ReceiveBits`/`SendBits` set bits in the caller's
words.  "Every call" includes every content of those buffers: fresh, the
buffer of the previous call on the same pair, ones, random bytes, a window of
a larger array. -/

/-- `iknp_transpose`, destination side: `createLabels(l[ofs:], buf, w)` on ANY
array `l` keeps its length, leaves every position outside
`[ofs, ofs + min (8w) (len l - ofs))` as it was, and makes every position
inside that range the transposed row — label `p - ofs` of the pure transpose
`createLabels` of `C06_iknp_transpose`, which does not mention `l`: the code
writes every destination position it is responsible for. -/
theorem C06_iknp_transpose_into (l : Array Label) (ofs : Nat) (buf : Bytes) (w : Nat) :
    (createLabelsAt Store.assign l ofs buf w).size = l.size ∧
    ∀ p, p < l.size →
      lgetA (createLabelsAt Store.assign l ofs buf w) p =
        if ofs ≤ p ∧ p < ofs + min (w * 8) (l.size - ofs) then (createLabels (l.size - ofs) buf w).getD (p - ofs) 0#128
        else lgetA l p := by
  refine ⟨size_createLabelsAt .., fun p hp => ?_⟩
  rw [lgetA_createLabelsAt _ _ _ _ _ _ hp]
  split
  · rw [getD_createLabels_row _ _ _ _ (by omega)]; rfl
  · rfl

/-- Non-vacuity / example: a dirty destination of 4 labels, written at offset 1. -/
example : createLabelsAt Store.assign #[7#128, 7#128, 7#128, 7#128] 1 (mk 128 fun j => if j = 5 then 0x02#8 else 0#8) 1 =
    #[7#128, 0#128, 1#128 <<< 69, 0#128] := by decide +kernel

/-- The receiver's rows are independent of the initial content of the output
buffer: for EVERY array `result` of the right length, `receive(b, result)`
(and the malicious-mode `Receive(b, result, true)`) ends with the same stream
state, the same chunks on the wire and exactly the labels of the pure model
`receive` / `receiveMal` — the function `C06_iknp_label_corr`,
`C06_iknp_label_corr_malicious`, `C06_iknp_session` and the COT/ROT theorems
are about. -/
theorem C06_iknp_receive_buffer_independent (R0 R1 : Nat → Nat → Byte) (st : RecvSt) (b : Array Bool)
    (b0 b1 : Label) (result : Array Label) (hs : result.size = b.size) :
    receiveAt Store.assign R0 R1 st b result =
      some ((receive R0 R1 st b).1, (receive R0 R1 st b).2.1.toArray, (receive R0 R1 st b).2.2) ∧
    receiveMalAt Store.assign R0 R1 st b b0 b1 result =
      some ((receiveMal R0 R1 st b b0 b1).1, (receiveMal R0 R1 st b b0 b1).2.1.toArray,
        (receiveMal R0 R1 st b b0 b1).2.2) :=
  ⟨receiveAt_assign R0 R1 st b result hs, receiveMalAt_assign R0 R1 st b b0 b1 result hs⟩

example : (#[5#128, 6#128] : Array Label).size = (#[true, false] : Array Bool).size := rfl

/-- The variant that ORs the transposed bits straight into the destination
(`Store.orInto`) is indistinguishable on a zeroed buffer ... -/
theorem C06_iknp_or_store_zero_buffer_ok (R0 R1 : Nat → Nat → Byte) (st : RecvSt) (b : Array Bool) :
    receiveAt Store.orInto R0 R1 st b (zerosL b.size) = receiveAt Store.assign R0 R1 st b (zerosL b.size) :=
  receiveAt_orInto_zeros R0 R1 st b

example : (receiveAt Store.orInto (fun _ _ => 0#8) (fun _ _ => 0#8) RecvSt.init #[true] (zerosL 1)).map
    (fun r => (r.2.1, r.2.2)) = some (#[0#128], [mk 128 fun _ => 1#8]) := by decide +kernel

/-- ... and wrong on a buffer that is not zero (negation witness for the
OR-accumulating transposition): one transfer, zero streams, choice 0, a result
slice holding `1` — the sender ends with label 0, the receiver with label 1,
`received_0 ≠ sent_0 xor 0*Delta`. -/
theorem C06_iknp_or_store_dirty_witness :
    (runCallB Store.orInto .write (fun _ _ => 0#8) (fun _ _ => 0#8) (fun _ _ => 0#8) 0#128 RecvSt.init SendSt.init
        ⟨#[1#128], #[], #[]⟩ (.labels false #[false] 0#128 0#128 (.arena none 0 0))).map
      (fun r => (r.2.2.2.1.out.sentL, r.2.2.2.1.out.rcvdL)) = some ([0#128], [1#128]) ∧
    ∀ r, runCallB Store.orInto .write (fun _ _ => 0#8) (fun _ _ => 0#8) (fun _ _ => 0#8) 0#128 RecvSt.init SendSt.init
        ⟨#[1#128], #[], #[]⟩ (.labels false #[false] 0#128 0#128 (.arena none 0 0)) = some r →
      ¬ CallSpecB 0#128 (.labels false #[false] 0#128 0#128 (.arena none 0 0)) r.2.2.2.1 := by
  have h : (runCallB Store.orInto .write (fun _ _ => 0#8) (fun _ _ => 0#8) (fun _ _ => 0#8) 0#128 RecvSt.init SendSt.init
        ⟨#[1#128], #[], #[]⟩ (.labels false #[false] 0#128 0#128 (.arena none 0 0))).map
      (fun r => (r.2.2.2.1.out.sentL, r.2.2.2.1.out.rcvdL)) = some ([0#128], [1#128]) := by decide +kernel
  refine ⟨h, ?_⟩
  intro r hr hspec
  rw [hr] at h
  simp only [Option.map_some, Option.some.injEq, Prod.mk.injEq] at h
  have := hspec.2.2 0 (by decide)
  rw [h.1, h.2] at this
  revert this
  decide

/-- Histories with named buffers, label form at full strength: for every
history of calls on one initialised pair in which every call names where its
output goes — a fresh allocation, or a slice at any offset of the party's
long-lived array, either as the earlier calls left it or overwritten with
ARBITRARY content first — the history runs to completion (no error, no panic,
every chunk consumed, streams in step), and every label-form call (both
adversary modes) delivers `received_i = sent_i xor choice_i*Delta` at every
position of the receiver's slice, and every packed-bit call delivers
`received_j = sent_j xor (Delta.Bit(0) and choice_j)` at every position `< n`
of the two result slices and leaves every position `≥ n` unchanged
(`CallSpecB`; single call: `C06_iknp_bits_dirty`). -/
theorem C06_iknp_history_buffers (R0 R1 SS : Nat → Nat → Byte) (delta : Label) (hb : BaseOK R0 R1 SS delta)
    (SL SW : Nat) (ar : Arena) (har : ar.Sized SL SW) (cs : List CallB) (hwf : ∀ c ∈ cs, c.WF SL SW) :
    ∃ outs, sessionB Store.assign .write R0 R1 SS delta RecvSt.init SendSt.init ar cs = some outs ∧
      outs.length = cs.length ∧
      ∀ k (hk : k < cs.length) (hk' : k < outs.length), CallSpecB delta cs[k] outs[k] :=
  sessionB_ok R0 R1 SS delta hb SL SW cs _ _ ar InStep.init har hwf

/-- Non-vacuity: a history that reuses the receiver's array (second call into
the slice the first call wrote, third into a window of an array of ones). -/
example : (Arena.mk (zerosL 4) (zerosW 2) (zerosW 2)).Sized 4 2 ∧
    ∀ c ∈ [CallB.labels false #[true, false, true] 0#128 0#128 (.arena none 0 0),
           CallB.labels true #[false, true] 0#128 0#128 (.arena none 1 0),
           CallB.labels false #[true] 0#128 0#128 (.arena (some (mk 4 fun _ => BitVec.allOnes 128)) 3 0),
           CallB.bits 64 #[5#64] (.arena none 1 0) .fresh], c.WF 4 2 := by
  refine ⟨⟨by simp [zerosL], by simp [zerosW], by simp [zerosW]⟩, ?_⟩
  intro c hc
  simp only [List.mem_cons, List.mem_nil_iff, or_false] at hc
  rcases hc with rfl | rfl | rfl | rfl
  all_goals simp [CallB.WF, BufSrc.WF]

/-- Packed-bit form on caller buffers with ARBITRARY content (what the doc
comments of `SendBits` / `ReceiveBits` promise: "Existing contents are
overwritten"; /repo HEAD since 8f72c8a writes each of the `n` result bits,
`BitStore.write`).  For every content of the two result slices (at least the
needed length, possibly longer): no error branch, the sender consumes exactly
the receiver's chunks, the streams end in step, both slices keep their lengths,
EVERY position `< n` holds exactly `received_j = sent_j xor (Delta.Bit(0) and
choice_j)`, the positions `≥ n` of the last needed word are unchanged, and so
are all later words. -/
theorem C06_iknp_bits_dirty (R0 R1 SS : Nat → Nat → Byte) (delta : Label) (hb : BaseOK R0 R1 SS delta)
    (rs : RecvSt) (ss : SendSt) (hs : InStep rs ss) (choices : Words) (n : Nat)
    (hch : (n + 63) / 64 ≤ choices.size) (rwin swin : Words)
    (hr : (n + 63) / 64 ≤ rwin.size) (hsw : (n + 63) / 64 ≤ swin.size) :
    ∃ rs' ss' rw sw msgs,
      receiveBitsS .write R0 R1 rs choices rwin n = some (rs', rw, msgs) ∧
      sendBitsS .write SS delta ss n swin msgs = some (ss', sw, []) ∧
      InStep rs' ss' ∧ rw.size = rwin.size ∧ sw.size = swin.size ∧
      (∀ j, j < n → bitAt rw j = (bitAt sw j ^^ (labelBit delta 0 && bitAt choices j))) ∧
      (∀ j, n ≤ j → j < 64 * ((n + 63) / 64) → bitAt rw j = bitAt rwin j ∧ bitAt sw j = bitAt swin j) ∧
      (∀ j, 64 * ((n + 63) / 64) ≤ j → bitAt rw j = bitAt rwin j ∧ bitAt sw j = bitAt swin j) := by
  obtain ⟨rs', ss', rw, sw, msgs, g1, g2, g3, g4, g5, g6, g7⟩ :=
    bits_call_write R0 R1 SS delta hb rs ss hs choices n hch rwin swin hr hsw
  exact ⟨rs', ss', rw, sw, msgs, g1, g2, g3, g4, g5, g6, fun j h _ => g7 j h, fun j h => g7 j (by omega)⟩

example : (3 + 63) / 64 ≤ (#[0xffff#64, 1#64] : Words).size ∧ (3 + 63) / 64 ≤ (#[5#64] : Words).size := by decide

/-- What was wrong before 8f72c8a (`BitStore.orOnly`: only the 1 bits were ORed
in, a 0 result left the caller's word alone): one transfer, zero streams,
choice 0, the receiver's result word holding `1` — the sender's bit is 0, the
receiver's bit stays 1.  The check replays this on a tree with the fix
reverted (oracle signature `c06-bits-corr` with stale bits). -/
theorem C06_iknp_bits_dirty_old_witness :
    (runCallB Store.assign .orOnly (fun _ _ => 0#8) (fun _ _ => 0#8) (fun _ _ => 0#8) 0#128 RecvSt.init SendSt.init
        ⟨#[], #[1#64], #[]⟩ (.bits 1 #[0#64] (.arena none 0 0) .fresh)).map
      (fun r => (r.2.2.2.1.out.sentW, r.2.2.2.1.out.rcvdW)) = some (#[0#64], #[1#64]) ∧
    ¬ (∀ j, j < 1 → bitAt #[1#64] j = (bitAt #[0#64] j ^^ (labelBit 0#128 0 && bitAt #[0#64] j))) := by
  refine ⟨by decide +kernel, ?_⟩
  intro h
  have := h 0 (by decide)
  revert this
  decide

/-- Now correct: the same call with the store of /repo HEAD clears the bit. -/
example :
    (runCallB Store.assign .write (fun _ _ => 0#8) (fun _ _ => 0#8) (fun _ _ => 0#8) 0#128 RecvSt.init SendSt.init
        ⟨#[], #[1#64], #[]⟩ (.bits 1 #[0#64] (.arena none 0 0) .fresh)).map
      (fun r => (r.2.2.2.1.out.sentW, r.2.2.2.1.out.rcvdW)) = some (#[0#64], #[0#64]) := by decide +kernel

/-! ## COT / ROT over IKNP with MITCCRH -/

open Mpc.Cot in
/-- `cot_delivers`: for every block cipher `π` (every AES), seed, batch size
`n = flags.size` (every tail mod 8; stale pad entries of a short last batch
included) and every pair of IKNP outputs that are correlated
(`result_j = data_j xor choice_j*Delta`, which is `C06_iknp_label_corr`), the
batch loop of `COT.Send` terminates without error, `COT.Receive` reads exactly
the labels sent and ends with the sender's label selected by the choice bit at
every position. -/
theorem C06_cot_delivers (π : Label → Label → Label) (delta seed : Label) (data result : Array Label)
    (wires : Array Cot.Wire) (flags : Array Bool) (hw : wires.size = flags.size) (hr : result.size = flags.size)
    (hcorr : ∀ j, j < flags.size →
      lget result j = lget data j ^^^ (if flags.getD j false then delta else 0#128)) :
    ∃ cts, cotSend π delta seed data wires = some cts ∧
      ∃ out, cotRecv π seed flags result cts = some out ∧ out.size = flags.size ∧
        ∀ j, j < flags.size → lget out j = if flags.getD j false then (wget wires j).2 else (wget wires j).1 :=
  Cot.cot_delivers π delta seed data result wires flags hw hr hcorr

example : ∃ (data result : Array Label) (flags : Array Bool) (delta : Label),
    result.size = flags.size ∧ flags.size = 3 ∧
    ∀ j, j < flags.size → Cot.lget result j = Cot.lget data j ^^^ (if flags.getD j false then delta else 0#128) :=
  ⟨#[1#128, 2#128, 3#128], #[1#128, 2#128 ^^^ 7#128, 3#128], #[false, true, false], 7#128, rfl, rfl, by decide⟩

open Mpc.Cot in
/-- `rot_consistent`: random OT — the receiver's output is the sender's output
wire label selected by the choice bit, for every batch size. -/
theorem C06_rot_consistent (π : Label → Label → Label) (delta seed : Label) (data result : Array Label)
    (wires : Array Cot.Wire) (flags : Array Bool) (hw : wires.size = flags.size) (hr : result.size = flags.size)
    (hcorr : ∀ j, j < flags.size →
      lget result j = lget data j ^^^ (if flags.getD j false then delta else 0#128)) :
    ∃ w out, rotSend π delta seed data wires = some w ∧ rotRecv π seed flags result = some out ∧
      w.size = flags.size ∧ out.size = flags.size ∧
      ∀ j, j < flags.size → lget out j = if flags.getD j false then (wget w j).2 else (wget w j).1 :=
  Cot.rot_consistent π delta seed data result wires flags hw hr hcorr

open Mpc.Cot in
/-- COT end to end, both adversary modes (`mal`), on any in-step pair: the
IKNP phase (`runCall`) followed by the MITCCRH phase delivers the chosen label
at every position, and the pair is in step again afterwards — so the statement
applies to every later batch on the same initialised instance (shared mode
re-initialisation does not touch the streams). -/
theorem C06_cot_end_to_end (π : Label → Label → Label) (R0 R1 SS : Nat → Nat → Byte) (delta seed : Label)
    (hb : BaseOK R0 R1 SS delta) (rs : RecvSt) (ss : SendSt) (hs : InStep rs ss) (mal : Bool) (b0 b1 : Label)
    (wires : Array Cot.Wire) (flags : Array Bool) (hw : wires.size = flags.size) :
    ∃ rs' ss' o u, runCall R0 R1 SS delta rs ss (.labels mal flags b0 b1) = some (rs', ss', o, u) ∧ InStep rs' ss' ∧
      ∃ cts, cotSend π delta seed o.sentL.toArray wires = some cts ∧
        ∃ out, cotRecv π seed flags o.rcvdL.toArray cts = some out ∧ out.size = flags.size ∧
          ∀ j, j < flags.size → lget out j = if flags.getD j false then (wget wires j).2 else (wget wires j).1 := by
  obtain ⟨rs', ss', o, u, h1, h2, h3⟩ := call_ok R0 R1 SS delta hb rs ss hs (.labels mal flags b0 b1) trivial
  obtain ⟨_, hl, hc⟩ := h3
  refine ⟨rs', ss', o, u, h1, h2, ?_⟩
  apply Cot.cot_delivers π delta seed _ _ wires flags hw (by simpa using hl)
  intro j hj
  rw [lget_toArray, lget_toArray]
  exact hc j hj

open Mpc.Cot in
/-- ROT end to end, both adversary modes. -/
theorem C06_rot_end_to_end (π : Label → Label → Label) (R0 R1 SS : Nat → Nat → Byte) (delta seed : Label)
    (hb : BaseOK R0 R1 SS delta) (rs : RecvSt) (ss : SendSt) (hs : InStep rs ss) (mal : Bool) (b0 b1 : Label)
    (wires : Array Cot.Wire) (flags : Array Bool) (hw : wires.size = flags.size) :
    ∃ rs' ss' o u, runCall R0 R1 SS delta rs ss (.labels mal flags b0 b1) = some (rs', ss', o, u) ∧ InStep rs' ss' ∧
      ∃ w out, rotSend π delta seed o.sentL.toArray wires = some w ∧
        rotRecv π seed flags o.rcvdL.toArray = some out ∧ w.size = flags.size ∧ out.size = flags.size ∧
        ∀ j, j < flags.size → lget out j = if flags.getD j false then (wget w j).2 else (wget w j).1 := by
  obtain ⟨rs', ss', o, u, h1, h2, h3⟩ := call_ok R0 R1 SS delta hb rs ss hs (.labels mal flags b0 b1) trivial
  obtain ⟨_, hl, hc⟩ := h3
  refine ⟨rs', ss', o, u, h1, h2, ?_⟩
  apply Cot.rot_consistent π delta seed _ _ wires flags hw (by simpa using hl)
  intro j hj
  rw [lget_toArray, lget_toArray]
  exact hc j hj

/-! ## Chou-Orlandi in an abstract commutative group -/

/-- `co_delivers`, group part: for every commutative group with scalar action,
generator `g`, sender scalar `a`, receiver scalar `b` and choice bit `c`, the
sender's mask point for message `c` equals the receiver's:
`a•(b•g + c•A) − c•(a•A) = b•A` with `A = a•g`. -/
theorem C06_co_masks_agree {G : Type} (Γ : Co.Group G) (g : G) (a b : Nat) (bit : Bool) :
    (let s := Co.senderSetup Γ g a
     let B := Γ.smul s.a (Co.choicePoint Γ g s.A b bit)
     if bit then Γ.add B s.AaInv else B) = Γ.smul b (Co.senderSetup Γ g a).A :=
  Co.masks_agree Γ g a b bit

/-- `co_delivers`: `DecryptCOCiphertexts ∘ EncryptCOCiphertexts ∘ BuildCOChoices`
(the /repo HEAD helpers, `Co.encryptO`/`Co.decryptO`, which are also what the
driver executes on P-256 against the real `ot.CO` byte for byte) return the
chosen label at every index, for every group, every KDF (the mask of index `i`
is `kdf point i`: per-index domain separation), every `n`, all scalars and
choice bits, provided no point is rejected by the on-curve check (`valid`; on
P-256 this excludes only events such as `a = 0` or `b_i = 0` with choice 0, of
probability about 2⁻²⁵⁶, on which the real code returns `ErrPointNotOnCurve` —
exercised by the `co-bytes` correspondence). -/
theorem C06_co_delivers {G : Type} (Γ : Co.Group G) (valid : G → Bool) (kdf : G → Nat → Label) (g : G) (a n : Nat)
    (scalars : Nat → Nat) (bits : Nat → Bool) (wires : Nat → Co.Wire)
    (hA : valid (Co.senderSetupO Γ.ops g a).A = true)
    (hI : valid (Co.senderSetupO Γ.ops g a).AaInv = true)
    (hP : ∀ i, i < n →
      valid (Co.choicePointO Γ.ops g (Co.senderSetupO Γ.ops g a).A (scalars i) (bits i)) = true) :
    ∃ cts, Co.encryptO Γ.ops valid kdf (Co.senderSetupO Γ.ops g a) n
        (fun i => Co.choicePointO Γ.ops g (Co.senderSetupO Γ.ops g a).A (scalars i) (bits i)) wires = some cts ∧
      cts.length = n ∧
      ∃ out, Co.decryptO Γ.ops valid kdf (Co.senderSetupO Γ.ops g a).A n scalars bits cts = some out ∧
        out.length = n ∧
        ∀ i, i < n → out.getD i 0#128 = if bits i then (wires i).2 else (wires i).1 :=
  Co.deliversO Γ valid kdf g a n scalars bits wires hA hI hP

/-- Non-vacuity: the integers mod 7 under addition are such a group. -/
def zmod7 : Co.Group (Fin 7) where
  add a b := a + b
  neg a := -a
  zero := 0
  smul n a := Fin.ofNat 7 n * a
  add_assoc := by decide
  add_comm := by decide
  add_zero := by decide
  add_neg := by decide
  smul_add := by intro n a b; generalize Fin.ofNat 7 n = m; revert m a b; decide
  smul_comm := by intro m n a; generalize Fin.ofNat 7 n = x; generalize Fin.ofNat 7 m = y; revert x y a; decide

example : ∃ (Γ : Co.Group (Fin 7)) (valid : Fin 7 → Bool), valid (Co.senderSetupO Γ.ops 1 3).A = true ∧
    valid (Co.senderSetupO Γ.ops 1 3).AaInv = true ∧
    valid (Co.choicePointO Γ.ops 1 (Co.senderSetupO Γ.ops 1 3).A 2 true) = true :=
  ⟨zmod7, fun x => x != 0, by decide, by decide, by decide⟩

/-! ## IKNP / COT over Chou-Orlandi base OTs -/

open Mpc.Cot in
/-- `iknp_over_co`: COT on top of IKNP whose 128 base OTs are Chou-Orlandi.

Roles (they are REVERSED in the base phase, as in `NewIKNPReceiver` /
`NewIKNPSender`): the party that will be the IKNP/COT *receiver* draws the 128
wire pairs `keys i = (k0_i, k1_i)` and acts as the CO **sender** (scalar `a`,
`base.Send(wires)`); the party that will be the IKNP/COT *sender* holds `Delta`
and acts as the CO **receiver** with choice bits `Delta.Bit(i)` and scalars
`scalars i` (`base.Receive(flags, k)`), obtaining `base_i`.  The PRG streams
are `prg` (any function of the key: every AES-CTR) applied to these labels.

For every group, KDF, PRG, block cipher, seed, adversary mode, batch size and
choice vector, if no CO point is rejected: the base phase delivers
`base_i = k_{Delta.Bit(i), i}`, hence `BaseOK`; and the COT batch run on the
freshly initialised pair delivers the sender's label selected by the choice
bit at every position, leaving the pair in step for later batches. -/
theorem C06_iknp_over_co {G : Type} (Γ : Co.Group G) (valid : G → Bool) (kdf : G → Nat → Label) (g : G) (a : Nat)
    (scalars : Nat → Nat) (keys : Nat → Co.Wire) (delta : Label)
    (hA : valid (Co.senderSetupO Γ.ops g a).A = true)
    (hI : valid (Co.senderSetupO Γ.ops g a).AaInv = true)
    (hP : ∀ i, i < K →
      valid (Co.choicePointO Γ.ops g (Co.senderSetupO Γ.ops g a).A (scalars i) (labelBit delta i)) = true)
    (prg : Label → Nat → Byte) (π : Label → Label → Label) (seed : Label) (mal : Bool) (b0 b1 : Label)
    (wires : Array Cot.Wire) (flags : Array Bool) (hw : wires.size = flags.size) :
    ∃ cts base,
      Co.encryptO Γ.ops valid kdf (Co.senderSetupO Γ.ops g a) K
        (fun i => Co.choicePointO Γ.ops g (Co.senderSetupO Γ.ops g a).A (scalars i) (labelBit delta i)) keys
        = some cts ∧
      Co.decryptO Γ.ops valid kdf (Co.senderSetupO Γ.ops g a).A K scalars (fun i => labelBit delta i) cts
        = some base ∧
      (∀ i, i < K → base.getD i 0#128 = if labelBit delta i then (keys i).2 else (keys i).1) ∧
      BaseOK (fun i => prg (keys i).1) (fun i => prg (keys i).2) (fun i => prg (base.getD i 0#128)) delta ∧
      ∃ rs' ss' o u,
        runCall (fun i => prg (keys i).1) (fun i => prg (keys i).2) (fun i => prg (base.getD i 0#128)) delta
          RecvSt.init SendSt.init (.labels mal flags b0 b1) = some (rs', ss', o, u) ∧
        InStep rs' ss' ∧
        ∃ cs, cotSend π delta seed o.sentL.toArray wires = some cs ∧
          ∃ out, cotRecv π seed flags o.rcvdL.toArray cs = some out ∧ out.size = flags.size ∧
            ∀ j, j < flags.size →
              lget out j = if flags.getD j false then (wget wires j).2 else (wget wires j).1 := by
  obtain ⟨cts, h1, _, base, h2, _, h3⟩ :=
    Co.deliversO Γ valid kdf g a K scalars (fun i => labelBit delta i) keys hA hI hP
  have hb : BaseOK (fun i => prg (keys i).1) (fun i => prg (keys i).2) (fun i => prg (base.getD i 0#128)) delta := by
    intro i hi p
    show prg (base.getD i 0#128) p = _
    rw [h3 i hi]
    split <;> rfl
  exact ⟨cts, base, h1, h2, h3, hb,
    C06_cot_end_to_end π _ _ _ delta seed hb RecvSt.init SendSt.init InStep.init mal b0 b1 wires flags hw⟩

/-! ## RSA OT -/

/-- `rsa_delivers`, key part: with `v = (x_b + k^e mod N) mod N` the sender's
`k_b = ((v − x_b) mod N)^d mod N` is the receiver's blinding value `k`, for
every `x_b` (also `x_b ≥ N` and `v < x_b`), given the RSA key relation
`(c^e)^d ≡ c (mod N)` for all `c < N`. -/
theorem C06_rsa_key_recovered (N e d xb k : Nat) (hk : k < N)
    (hkey : ∀ c, c < N → (c ^ e % N) ^ d % N = c) :
    RsaOt.senderKey N d (RsaOt.receiverV N e xb k) xb = k :=
  RsaOt.key_recovered N e d xb k hk hkey

/-- `rsa_delivers`: one transfer returns the chosen message, given the key
relation and the pad/unpad round trip of the message framing (`dec ∘ enc = id`,
PKCS#1 block type 1 in the code); only the chosen blinded message is unpadded. -/
theorem C06_rsa_delivers {M : Type} (N e d : Nat) (enc : M → Nat) (dec : Int → Option M)
    (x0 x1 k : Nat) (bit : Bool) (m0 m1 : M) (hk : k < N)
    (hkey : ∀ c, c < N → (c ^ e % N) ^ d % N = c)
    (hround : ∀ m, dec (enc m : Int) = some m) :
    RsaOt.transfer N e d enc dec x0 x1 k bit m0 m1 = some (if bit then m1 else m0) :=
  RsaOt.delivers N e d enc dec x0 x1 k bit m0 m1 hk hkey hround

/-- Non-vacuity: N = 33 = 3·11, e = 3, d = 7 satisfies the key relation. -/
example : ∀ c, c < 33 → (c ^ 3 % 33) ^ 7 % 33 = c := by decide

/-! ## RSA OT as the code computes it: integers, bytes, every randomness

Model/RsaOtBytes.lean.  The randomness of one transfer is the sender's `x0`,
`x1` (ANY `messageSize` bytes: they may exceed `N`, so `v − x_c` may be
negative) and the receiver's `k` (`rand.Int(rand, N)`: ANY value in `[0, N)`).
The transfer messages are sums over the integers (`pad(m_c) + k_c`, no
reduction) and the receiver subtracts over the integers: nowhere is `pad + k`
compared with `N`, so the statements below have no side condition on `k`
besides `k < N`.  The driver runs `xferX` (square-and-multiply) on the op
lines of the real `RSA.Send`/`RSA.Receive` and `SenderXfer`/`ReceiverXfer` and
must reproduce `v`, both transfer messages and the receiver's outcome byte for
byte. -/

/-- `big.Int.Exp` as square and multiply is the power residue. -/
theorem C06_rsa_powmod (a e N : Nat) : RsaOt.powMod a e N = a ^ e % N := RsaOt.powMod_eq a e N

example : RsaOt.powMod 7 13 33 = 7 ^ 13 % 33 := C06_rsa_powmod ..

/-- The executable transfer (what the driver runs) is the specification
transfer: same wire integers, same outcome. -/
theorem C06_rsa_exec_is_spec (N e d size : Nat) (t : RsaOt.XferIn) :
    RsaOt.xferX N e d size t = RsaOt.xferB N e d size t := RsaOt.xferX_eq N e d size t

example : (RsaOt.xferX 33 3 7 12 ⟨true, [1], [2], 40, 50, 32⟩).isSome := by decide

/-- The integer the receiver unpads is EXACTLY the integer of the chosen padded
block, for every `k < N`, every `x0`, `x1` and every pair of blocks — also
blocks `≥ N` and sums `p_b + k ≥ N` (the code never reduces them). -/
theorem C06_rsa_received_integer (N e d p0 p1 x0 x1 k : Nat) (bit : Bool) (hk : k < N)
    (hkey : ∀ c, c < N → (c ^ e % N) ^ d % N = c) :
    (RsaOt.wire N e d p0 p1 x0 x1 k bit).received k bit = ((if bit then p1 else p0 : Nat) : Int) :=
  RsaOt.received_wire N e d p0 p1 x0 x1 k bit hk hkey

/-- Non-vacuity at the boundary the statement is about: `k = N − 1` and a block
larger than `N`. -/
example : (RsaOt.wire 33 3 7 1000 5 70 2 32 false).received 32 false = 1000 := by decide

/-- The PKCS#1 block-type-1 framing round-trips through `SetBytes` / `Bytes` /
left-padding / `ParseEncryptionBlock` for every message that fits
(`len m + 11 ≤ messageSize`): the hypothesis `hround` of `C06_rsa_delivers`,
discharged for the framing of the code. -/
theorem C06_rsa_pkcs1_roundtrip (size : Nat) (m : RsaOt.Octets) (hm : ∀ b ∈ m, b < 256) (hs : m.length + 11 ≤ size) :
    RsaOt.decB size (RsaOt.encB size m : Int) = some m := RsaOt.decB_encB size m hm hs

example : RsaOt.decB 28 (RsaOt.encB 28 [0, 255, 0, 7] : Int) = some [0, 255, 0, 7] := by decide

/-- `rsa_delivers` at byte level, every randomness: for every key satisfying
the key relation, every block size, every pair of messages that fit, every
choice, every `x0`, `x1` and every `k < N`, one transfer ends with the
receiver holding exactly the chosen message. -/
theorem C06_rsa_delivers_bytes (N e d size : Nat) (hkey : ∀ c, c < N → (c ^ e % N) ^ d % N = c)
    (t : RsaOt.XferIn) (hwf : t.WF N size) :
    ∃ w, RsaOt.xferB N e d size t = some (w, .ok t.chosen) :=
  RsaOt.xferB_delivers N e d size hkey t hwf

example : (⟨true, [1], [2], 40, 50, 32⟩ : RsaOt.XferIn).WF 33 12 := by
  refine ⟨by decide, by decide, by decide, ?_, ?_⟩ <;> intro b hb <;> simp at hb <;> omega

/-- A batch (`RSA.Send(wires)` / `RSA.Receive(flags, result)`): every position
ends with the chosen message, for every list of transfers with every
randomness. -/
theorem C06_rsa_session_delivers (N e d size : Nat) (hkey : ∀ c, c < N → (c ^ e % N) ^ d % N = c)
    (ts : List RsaOt.XferIn) (hwf : ∀ t ∈ ts, t.WF N size) :
    RsaOt.sessionOut N e d size ts = some (ts.map RsaOt.XferIn.chosen) :=
  RsaOt.sessionOut_delivers N e d size hkey ts hwf

example : RsaOt.sessionOut 33 3 7 12 [⟨true, [1], [2], 40, 50, 32⟩, ⟨false, [9], [], 0, 33, 0⟩] = some [[2], [9]] := by
  decide

/-- The variant whose SENDER reduces the transfer messages mod `N` while the
receiver subtracts over the integers (`wireModN`; not the code of /repo): as
soon as `p_b < N ≤ p_b + k` the receiver unpads the NEGATIVE integer
`p_b − N`, for every key and every `x0`, `x1`. -/
theorem C06_rsa_modn_sender_negative (N e d p0 p1 x0 x1 k : Nat) (bit : Bool) (hk : k < N)
    (hkey : ∀ c, c < N → (c ^ e % N) ^ d % N = c)
    (hp : (if bit then p1 else p0) < N) (hov : N ≤ (if bit then p1 else p0) + k) :
    (RsaOt.wireModN N e d p0 p1 x0 x1 k bit).received k bit = (((if bit then p1 else p0) : Nat) : Int) - (N : Int) :=
  RsaOt.received_wireModN_neg N e d p0 p1 x0 x1 k bit hk hkey hp hov

example : (5 : Nat) < 33 ∧ 33 ≤ 5 + 32 ∧ (RsaOt.wireModN 33 3 7 5 6 70 2 32 false).received 32 false = -28 := by decide

/-- Negation witness at byte level for the mod-`N` sender, 89-bit modulus
(`messageSize = 12`), `k = N − 1`: the transfer of /repo delivers the chosen
byte, the mod-`N` sender makes the receiver's `ParseEncryptionBlock` fail; and
with `k = N − pad(m_b) − 1` (sum `N − 1`) both still deliver, with
`k = N − pad(m_b)` (sum `N`) only the code of /repo does. -/
theorem C06_rsa_modn_sender_witness :
    let N := 442416326796596274383945381
    let d := 10636637095335204624079313
    let pad := RsaOt.fromBytes ((RsaOt.pkcs1Pad 12 [0x2a]).getD [])
    let t (k : Nat) : RsaOt.XferIn := ⟨false, [0x2a], [0x07], 3, 5, k⟩
    (RsaOt.xferX N 65537 d 12 (t (N - 1))).map (·.2) = some (.ok [0x2a]) ∧
    (RsaOt.xferModNX N 65537 d 12 (t (N - 1))).map (·.2) = some .err ∧
    (RsaOt.xferX N 65537 d 12 (t (N - pad - 1))).map (·.2) = some (.ok [0x2a]) ∧
    (RsaOt.xferModNX N 65537 d 12 (t (N - pad - 1))).map (·.2) = some (.ok [0x2a]) ∧
    (RsaOt.xferX N 65537 d 12 (t (N - pad))).map (·.2) = some (.ok [0x2a]) ∧
    (RsaOt.xferModNX N 65537 d 12 (t (N - pad))).map (·.2) = some .err := by
  decide +kernel

/-- The executable forms in the witness are the specification forms. -/
example (N e d size : Nat) (t : RsaOt.XferIn) : RsaOt.xferModNX N e d size t = RsaOt.xferModN N e d size t :=
  RsaOt.xferModNX_eq N e d size t

end Mpc

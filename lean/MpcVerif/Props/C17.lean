/-
C17  A circuit value is safe to share between goroutines.

Property theorems about the ownership protocol of the per-circuit scratch pool
(`Model/Pool.lean`; helper lemmas in `Proofs/Pool.lean`).

Quantification: `Reachable P true σ` ranges over every state reachable by any
interleaving of atomic steps of any number of goroutines doing any number of
Garble / Release / read (Eval on a handle's tables) / Compute calls on one
circuit, with every order of first use (the lazy pool creation race: several
goroutines may have loaded nil and allocated a pool object before any
CompareAndSwap), every choice `sync.Pool.Get` can make (any cached scratch or a
new one), every early-return path of Garble, and every reuse history.
`P : Params Mem Job` is arbitrary: the theorems hold for every notion of
scratch contents and every deterministic write sequence per (tape, key).

The flag `true` is the usage contract of a `*Garbled` handle, as the doc
comment of `Garbled.Release` scopes it ("Idempotent; the Garbled must not be
used afterwards"): one goroutine at a time is inside a method of a given
handle, a released handle is not read, a `Garbled` is not copied by value.
LIMIT (stated, not proved away): without that contract the code double-`Put`s —
two goroutines calling `Release` on the same handle concurrently both pass the
`g.pool == nil` test, and a by-value copy `g2 := *g` released separately puts
the same scratch twice; a later pair of Garble calls then shares one scratch.
`C17_contract_needed_concurrent_release` and `C17_contract_needed_value_copy`
exhibit both on the model, and `checks/C17.py` replays the second one on the
real code on every run (informational: 20/20 attempts end with two live handles
on one scratch and the first overwritten).  So the reading of "releasing twice
is harmless" as "any two Release calls that reach one garbling" is FALSE for
the code; what is proved (`C17_release_idempotent`) is the reading the doc
comment gives: a second `Release` through the same handle, after the first has
returned, is a no-op.

Link to C01: `C17_garble_equals_C01` instantiates the model with the actual
write sequence of `Circuit.Garble` and shows that behind every live handle of
every concurrent run there is `Circuit.garble` of that call's own tape and key
(the function the C01 theorems are about); with C01,
`C17_concurrent_garbling_evaluates_correctly`.

GC histories.  "A garbling stays valid until it is released" is about the DATA
of a garbling (`g.Wires`, `g.Gates`, slices into the pooled scratch), whoever
holds the `*Garbled` header; the repository's own callers keep the slices and
drop the header.  `Model/PoolGC.lean` extends the histories by `dropHeader` and
by a collector that may run every registered finalizer;
`C17_gc_put_only_by_release_or_error_path` (the code registers none: the only
transitions that `Put` are `Release` and the error path of `Garble`),
`C17_retained_garbling_valid` (retained data = the single-goroutine result, along
every further history) and the negation witness
`C17_autorelease_breaks_retained_validity` (a finalizer whose effect is `Release`
breaks it: the theorems need "no Put without an explicit Release by the owner").
`checks/C17.py` generates such histories on the real code (mode `gchist`, stress
kind `gcmix`) and replays their event logs (`D`, `K` events) on this model.

What is modelled rather than proved: `atomic.Pointer` and `sync.Pool` are
linearizable objects (one step per operation) and establish happens-before
between a `Put` and the `Get` that returns the item; Go-memory-model data races
are observed only at run time (race detector in `checks/C17.py`).
-/
import MpcVerif.Proofs.PoolGarble
import MpcVerif.Proofs.PoolGC
import MpcVerif.Proofs.PoolResult
import MpcVerif.Props.C01

namespace Mpc.Pool
variable {Mem Job : Type}

/-- **pool_unique.**  At most one pool object is ever installed on the circuit
and every caller uses it: (1) once `c.garblePool` is non-nil no step of any
goroutine changes it (along any run); (2) every goroutine that is past
`garbleScratchPool` — about to `Get`, or garbling — uses the installed object;
(3) so does every unreleased handle (`g.pool`); (4) scratch buffers are cached
only in the installed object; (5) a goroutine that lost the CompareAndSwap
re-loads a non-nil pointer (the `return c.garblePool.Load()` is never nil). -/
theorem C17_pool_unique (P : Params Mem Job) (σ : State Mem Job) (hr : Reachable P true σ) :
    (∀ σ' p, Steps P true σ σ' → σ.poolPtr = some p → σ'.poolPtr = some p) ∧
    (∀ t j p, σ.pc t = .gGet j p → σ.poolPtr = some p) ∧
    (∀ t j p x m0 k, σ.pc t = .gRun j p x m0 k → σ.poolPtr = some p) ∧
    (∀ h H p, σ.handle h = some H → H.pool = some p → σ.poolPtr = some p) ∧
    (∀ q x, x ∈ σ.free q → σ.poolPtr = some q) ∧
    (∀ t j, σ.pc t = .gReload j → ∃ σ', step? P true σ t .reload = some σ') := by
  have hi := inv_reachable P σ hr
  refine ⟨?_, hi.getPool, hi.runPool, hi.hPool, hi.freePool, ?_⟩
  · intro σ' p hs hp
    induction hs with
    | refl => exact hp
    | tail t a _ h ih => exact poolPtr_step P true _ _ t a p h ih
  · intro t j hpc
    have := hi.reloadOk t j hpc
    cases hp : σ.poolPtr with
    | none => simp [hp] at this
    | some p => exact ⟨{ σ with pc := upd σ.pc t (.gGet j p) }, by simp only [step?, hpc, hp]⟩

/-- Non-vacuity: two goroutines race on first use; both load nil, both build a
pool object, one CompareAndSwap wins, the loser reloads; both end up on pool
object 0 and pool object 1 is garbage. -/
example :
    (match runSched (Mem := Unit) (Job := Unit) ⟨(), fun _ => []⟩ true (init ⟨(), fun _ => []⟩)
        [(0, .callGarble ()), (1, .callGarble ()), (0, .load), (1, .load), (1, .cas), (0, .cas),
         (0, .reload)] with
     | some σ => σ.poolPtr == some 1 && σ.nPools == 2 &&
         (match σ.pc 0, σ.pc 1 with | .gGet _ 1, .gGet _ 1 => true | _, _ => false)
     | none => false) = true := by decide

/-- Who may own a scratch buffer. -/
inductive Owner where
  | pool (q : PoolId)       -- cached in `sync.Pool` object `q` (the free list)
  | thread (t : Tid)        -- held by an in-progress `Garble` of goroutine `t`
  | handle (h : HandleId)   -- backing an unreleased `*Garbled`
  deriving DecidableEq

def Owns (σ : State Mem Job) (x : ScratchId) : Owner → Prop
  | .pool q => x ∈ σ.free q
  | .thread t => HeldBy σ t x
  | .handle h => OwnedBy σ h x

/-- **scratch_owned_once.**  Every scratch buffer ever allocated is in exactly
one place: the free list of a pool object (and there at most once), one
in-progress Garble, or one live handle. -/
theorem C17_scratch_owned_once (P : Params Mem Job) (σ : State Mem Job) (hr : Reachable P true σ)
    (x : ScratchId) (hx : x < σ.nScratch) :
    (∃ o, Owns σ x o) ∧ (∀ o o', Owns σ x o → Owns σ x o' → o = o') ∧
    (∀ q, (σ.free q).count x ≤ 1) := by
  have hi := inv_reachable P σ hr
  refine ⟨?_, ?_, ?_⟩
  · rcases hi.owner x hx with ⟨q, hq⟩ | ⟨t, j, p, m0, k, ht⟩ | ⟨h, H, hH, ho⟩
    · exact ⟨.pool q, hq⟩
    · exact ⟨.thread t, j, p, m0, k, ht⟩
    · exact ⟨.handle h, H, hH, ho⟩
  · intro o o' ho ho'
    cases o with
    | pool q =>
      cases o' with
      | pool q' =>
        have h1 := hi.freePool q x ho
        have h2 := hi.freePool q' x ho'
        rw [h1] at h2; cases h2; rfl
      | thread t' => obtain ⟨j, p, m0, k, ht⟩ := ho'; exact absurd ht (hi.freeT q x t' j p m0 k ho)
      | handle h' => obtain ⟨H, hH, hoo⟩ := ho'; exact absurd hoo (hi.freeH q x h' H ho hH)
    | thread t =>
      obtain ⟨j, p, m0, k, ht⟩ := ho
      cases o' with
      | pool q' => exact absurd ht (hi.freeT q' x t j p m0 k ho')
      | thread t' =>
        obtain ⟨j', p', m0', k', ht'⟩ := ho'
        rw [hi.heldTT t t' j p x m0 k j' p' m0' k' ht ht']
      | handle h' => obtain ⟨H, hH, hoo⟩ := ho'; exact absurd hoo (hi.heldH t j p x m0 k h' H ht hH)
    | handle h =>
      obtain ⟨H, hH, hoo⟩ := ho
      cases o' with
      | pool q' => exact absurd hoo (hi.freeH q' x h H ho' hH)
      | thread t' =>
        obtain ⟨j', p', m0', k', ht'⟩ := ho'
        exact absurd hoo (hi.heldH t' j' p' x m0' k' h H ht' hH)
      | handle h' =>
        obtain ⟨H', hH', hoo'⟩ := ho'
        rw [hi.ownHH h h' H H' x hH hH' hoo hoo']
  · intro q
    exact (List.nodup_iff_count.mp (hi.freeNodup q)) x

/-- Non-vacuity: a state with three scratch buffers, one in each kind of place
(goroutine 0 published a handle on scratch 0; goroutine 1 garbled on scratch 1
and released it; goroutine 2 is garbling on scratch 2). -/
example :
    (match runSched (Mem := Nat) (Job := Nat) traceParams true (init traceParams)
        [(0, .callGarble 7), (0, .load), (0, .cas), (0, .getNew),
         (1, .callGarble 8), (1, .load), (1, .getNew), (2, .callGarble 9), (2, .load), (2, .getNew),
         (0, .write), (1, .write), (2, .write), (0, .write), (1, .write), (0, .publish), (1, .publish),
         (1, .relBegin 1), (1, .relPut), (1, .relClear)] with
     | some σ => σ.nScratch == 3 && σ.free 0 == [1] &&
         (match σ.pc 2 with | .gRun _ _ 2 _ 1 => true | _ => false) &&
         (match σ.handle 0 with | some H => H.scratch == some 0 && H.pool == some 0 | none => false) &&
         readVal σ 0 == some 7
     | none => false) = true := by decide

/-- **garble_isolated.**  No other goroutine writes a scratch while it is held:
(1) the contents of the scratch an in-progress Garble holds are exactly the
sequential prefix of its own writes, whatever the others did in between;
(2) a step of any other goroutine leaves those contents (and this goroutine)
untouched; (3) the data behind every live handle equals the single-goroutine
result `seqGarble` of the call that produced it (same tape, same key, same
scratch history `init`); (4) and it stays so along every further run for as long
as the handle is not released. -/
theorem C17_garble_isolated (P : Params Mem Job) (σ : State Mem Job) (hr : Reachable P true σ) :
    (∀ t j p x m0 k, σ.pc t = .gRun j p x m0 k → σ.mem x = runFrom P j k m0) ∧
    (∀ t t' a σ' j p x m0 k, σ.pc t = .gRun j p x m0 k → t' ≠ t → step? P true σ t' a = some σ' →
        σ'.mem x = σ.mem x ∧ σ'.pc t = .gRun j p x m0 k) ∧
    (∀ h H x, σ.handle h = some H → H.owned = some x → σ.mem x = seqGarble P H.job H.init) ∧
    (∀ σ' h H H' x, Steps P true σ σ' → σ.handle h = some H → σ'.handle h = some H' →
        H'.owned = some x →
        H.owned = some x ∧ σ'.mem x = σ.mem x ∧ H'.job = H.job ∧ H'.init = H.init) := by
  have hi := inv_reachable P σ hr
  refine ⟨fun t j p x m0 k h => (hi.runMem t j p x m0 k h).1, ?_, hi.ownMem, ?_⟩
  · intro t t' a σ' j p x m0 k hpc hne hs
    exact other_step_frame P σ σ' hi t t' a j p x m0 k hpc hne hs
  · intro σ' h H H' x hs
    induction hs generalizing H' x with
    | refl =>
      intro hH hH' ho
      rw [hH] at hH'; cases hH'
      exact ⟨ho, rfl, rfl, rfl⟩
    | tail t a hs' hstep ih =>
      rename_i σm σe
      intro hH hH' ho
      have hrm : Reachable P true σm := reachable_steps P true σ σm hr hs'
      have him := inv_reachable P σm hrm
      have hie := inv_reachable P σe (.step t a hrm hstep)
      obtain ⟨Hm, hHm⟩ := handle_steps_fwd P σ σm hr hs' h H hH
      obtain ⟨Hb, hHb, hob, hjob, hinit⟩ :=
        handle_step_back P σm σe t a h H' x hstep (him.hLt h Hm hHm) hH' ho
      obtain ⟨h1, h2, h3, h4⟩ := ih Hb x hH hHb hob
      refine ⟨h1, ?_, by rw [← hjob, h3], by rw [← hinit, h4]⟩
      rw [← h2, hie.ownMem h H' x hH' ho, him.ownMem h Hb x hHb hob, hjob, hinit]

/-- If the result of a call does not depend on the stale contents of the
scratch it happens to get (C01: for a well-formed circuit every wire and table
slot that is read is written first), then what a live handle shows is the
result of that call on a brand-new scratch, whatever the reuse history. -/
theorem C17_garble_result_history_free {View : Type} (view : Mem → View)
    (P : Params Mem Job) (hstale : ∀ j m m', view (seqGarble P j m) = view (seqGarble P j m'))
    (σ : State Mem Job) (hr : Reachable P true σ) (h : HandleId) (H : Handle Mem Job) (x : ScratchId)
    (hH : σ.handle h = some H) (ho : H.owned = some x) :
    view (σ.mem x) = view (seqGarble P H.job P.fresh) := by
  rw [(C17_garble_isolated P σ hr).2.2.1 h H x hH ho]
  exact hstale _ _ _

/-- **release_idempotent.**  From any reachable state in which goroutine `t` is
idle and nobody is inside a method of handle `h`: `Release` runs to completion
(its three steps are enabled whatever the other goroutines do in between is
covered by `inv_step`; here run back to back), leaves the handle cleared, has
put the scratch into the free list exactly once, and a second `Release` on the
same handle is a no-op: the state after `Release; Release` is the state after
one `Release`. -/
theorem C17_release_idempotent (P : Params Mem Job) (σ : State Mem Job) (hr : Reachable P true σ)
    (t : Tid) (h : HandleId) (H : Handle Mem Job) (p : PoolId)
    (hpc : σ.pc t = .idle) (hH : σ.handle h = some H) (hu : H.user = none) (hp : H.pool = some p) :
    ∃ σ3 x H3, H.scratch = some x ∧
      runSched P true σ [(t, .relBegin h), (t, .relPut), (t, .relClear)] = some σ3 ∧
      runSched P true σ [(t, .relBegin h), (t, .relPut), (t, .relClear), (t, .relBegin h)] = some σ3 ∧
      σ3.handle h = some H3 ∧ H3.pool = none ∧ H3.scratch = none ∧ σ3.pc t = .idle ∧
      (σ3.free p).count x = 1 ∧ Reachable P true σ3 := by
  have hi := inv_reachable P σ hr
  have hf := hi.hFields h H hH
  rw [hp] at hf
  cases hx : H.scratch with
  | none => rw [hx] at hf; simp at hf
  | some x =>
    obtain ⟨e3, e4⟩ := release_runs P σ t h H p x hpc hH hu hp hx
    have hr3 : Reachable P true (released σ t h H p x) := reachable_runSched P true σ _ _ hr e3
    have hi3 := inv_reachable P _ hr3
    have hmem : x ∈ (released σ t h H p x).free p := by simp [released]
    refine ⟨released σ t h H p x, x,
      { H with scratch := none, pool := none, user := none, putDone := false }, rfl, e3, ?_,
      by simp [released], rfl, rfl, by simp [released], ?_, hr3⟩
    · have := runSched_append P true σ _ _ [(t, .relBegin h)] e3
      simp only [List.cons_append, List.nil_append] at this
      rw [this]; simp only [runSched, e4]
    · have h1 := (List.nodup_iff_count.mp (hi3.freeNodup p)) x
      have h2 : 0 < ((released σ t h H p x).free p).count x := List.count_pos_iff.mpr hmem
      omega

/-- Non-vacuity of `release_idempotent`: a reachable state with an idle
goroutine and an unreleased handle nobody is using. -/
example : ∃ σ : State Nat Nat, Reachable traceParams true σ ∧ σ.pc 0 = .idle ∧
    ∃ H, σ.handle 0 = some H ∧ H.user = none ∧ H.pool = some 0 := by
  refine ⟨_, .step 0 .publish (.step 0 .write (.step 0 .write (.step 0 .getNew (.step 0 .cas
    (.step 0 .load (.step 0 (.callGarble 5) .init rfl) rfl) rfl) rfl) rfl) rfl) rfl, rfl, _, rfl, rfl, rfl⟩

/-! ### Link to C01: the model instantiated with the real garbling -/

section C01link
open Mpc LabelAlg
variable {L : Type} [LabelAlg L]

/-- The garbling seen through a handle: `R`, `g.Wires`, `g.Gates`. -/
def garbledOf (c : Circuit) (j : GJob L) (m : GMem L) : Garbled L :=
  { r := j.r, wires := m.wires, rows := (List.range c.gates.length).map m.tables }

/-- **garble_isolated, instantiated.**  Pool model with the actual writes of
`Circuit.Garble` (input-wire loop, gate loop; `garbleParams c`), well-formed
circuit: in every reachable state of every concurrent run, behind every live
handle there is exactly the garbling that `Circuit.garble` (the function the
C01 theorems are about) computes from that call's own tape and key — on every
defined wire and for every gate's rows — whatever scratch the call got and
whatever that scratch held before. -/
theorem C17_garble_equals_C01 (c : Circuit) (hwf : c.WF = true)
    (σ : State (GMem L) (GJob L)) (hr : Reachable (garbleParams c) true σ)
    (h : HandleId) (H : Handle (GMem L) (GJob L)) (x : ScratchId)
    (hH : σ.handle h = some H) (ho : H.owned = some x) :
    (∀ w, c.defined w = true →
        (σ.mem x).wires.get w = (c.garble H.job.H H.job.r H.job.inl).wires.get w) ∧
    (garbledOf c H.job (σ.mem x)).rows = (c.garble H.job.H H.job.r H.job.inl).rows := by
  have hmem := (C17_garble_isolated (garbleParams c) σ hr).2.2.1 h H x hH ho
  have hgood := (good_reachable (garbleParams c) (fun m => m.wires.size = c.numWires)
    (by simp [garbleParams]) (fun j f hf m hm => garbleProg_size c j f hf m hm) true σ hr).2.2 h H hH
  obtain ⟨e1, e2⟩ := seqGarble_eq_garble c hwf H.job H.init hgood
  rw [hmem]
  refine ⟨e1, ?_⟩
  have hlen : (c.garble H.job.H H.job.r H.job.inl).rows.length = c.gates.length := by
    have h' := congrArg List.length
      (garbleGates_rows_length H.job.H H.job.r c.gates
        ((Array.range c.numWires).map fun i =>
          if i < c.nIn then ⟨H.job.inl i, H.job.inl i ^^^ H.job.r⟩ else default) 0)
    simp only [List.length_map] at h'
    exact h'
  apply List.ext_getElem
  · simp [garbledOf, hlen]
  · intro k h1 h2
    simp only [garbledOf, List.getElem_map, List.getElem_range]
    rw [e2 k (by simpa [garbledOf] using h1)]
    simp [List.getD, h2]

/-- End to end ("each call returns the same correct result it returns when run
alone"): evaluating the tables of any live handle of any concurrent run, with
input labels taken from that handle's wire pairs, takes no error branch and
yields on every defined wire the label of the plain-evaluation bit. -/
theorem C17_concurrent_garbling_evaluates_correctly (c : Circuit) (hwf : c.WF = true)
    (σ : State (GMem L) (GJob L)) (hr : Reachable (garbleParams c) true σ)
    (h : HandleId) (H : Handle (GMem L) (GJob L)) (x : ScratchId)
    (hH : σ.handle h = some H) (ho : H.owned = some x) (hsel : sbit H.job.r = true)
    (inp : List Bool) :
    ∃ out, c.evalGarbled H.job.H (garbledOf c H.job (σ.mem x)).rows
        (encodeInputs c (garbledOf c H.job (σ.mem x)) inp) = .ok out ∧
      ∀ w, c.defined w = true →
        out.get w = ((σ.mem x).wires.get w).labelFor ((c.plainEval inp).get w) := by
  obtain ⟨e1, e2⟩ := C17_garble_equals_C01 c hwf σ hr h H x hH ho
  obtain ⟨out, h1, h2⟩ := C01_garbled_eq_plain H.job.H c H.job.r hsel H.job.inl inp hwf
  have henc : encodeInputs c (garbledOf c H.job (σ.mem x)) inp =
      encodeInputs c (c.garble H.job.H H.job.r H.job.inl) inp := by
    simp only [encodeInputs]
    apply Array.ext
    · simp
    · intro i hi1 hi2
      simp only [Array.getElem_map, Array.getElem_range]
      split
      · rename_i hlt
        have hd : c.defined i = true := input_defined c i hlt
        have := e1 i hd
        simp only [garbledOf] at this ⊢
        rw [this]
      · rfl
  refine ⟨out, ?_, fun w hw => ?_⟩
  · rw [e2, henc]; exact h1
  · rw [(h2 w hw).2, e1 w hw]

/-- Non-vacuity of the two link theorems: for the C01 example circuit (every
gate kind, fan-out, `in0 = in1`; `WF` by `decide` in Props/C01.lean) and any
job there is a reachable state with a live handle produced by that job. -/
example (j : GJob L) : ∃ σ : State (GMem L) (GJob L),
    Reachable (garbleParams exampleCircuit) true σ ∧
    ∃ H, σ.handle 0 = some H ∧ H.owned = some 0 ∧ H.job = j := by
  have h : ∃ σ, runSched (garbleParams (L := L) exampleCircuit) true (init (garbleParams exampleCircuit))
      ([(0, .callGarble j), (0, .load), (0, .cas), (0, .getNew)] ++ List.replicate 8 (0, .write) ++
        [(0, .publish)]) = some σ ∧ ∃ H, σ.handle 0 = some H ∧ H.owned = some 0 ∧ H.job = j :=
    ⟨_, rfl, _, rfl, rfl, rfl⟩
  obtain ⟨σ, hs, hh⟩ := h
  exact ⟨σ, reachable_runSched _ true _ σ _ .init hs, hh⟩

end C01link

/-! ### Histories with dropped headers and garbage collections

"A garbling stays valid until it is released" is about the DATA of a garbling —
`g.Wires`, `g.Gates`, slices into the pooled scratch — whoever holds the
`*Garbled` header: the repository's own callers keep the slices and drop the
header.  `Model/PoolGC.lean` adds to the histories of the pool model the events
`dropHeader h` (the caller keeps only the slices; no method can be called on `h`
any more) and the collector, which may run the finalizer of any unreachable
header.  `GReachable P false γ` ranges over every such history of the code as it
is: `Circuit.Garble` attaches no finalizer, so the collector has NO transition
(`C17_gc_put_only_by_release_or_error_path`, first part) — the fact
`checks/C17.py` re-extracts on every run as the effect sets of `Garble` and
`Release` (no escape into `runtime.SetFinalizer` / `AddCleanup`) and the
Put-path count of `Garble`. -/

/-- **The only transitions that `Put`.**  In a GC history of the code as it is
(1) the collector never runs anything of a garbling; (2) the free list of a pool
object grows only by the `Put` of an explicit `Release` (`relPut`) and by the
error path of `Garble` (`abort`); (3) dropping a header changes nothing in the
pool state. -/
theorem C17_gc_put_only_by_release_or_error_path (P : Params Mem Job) (γ γ' : GState Mem Job)
    (t : Tid) (a : GAction Job) (hs : gstep? P false γ t a = some γ') :
    (∀ h, a ≠ .finalize h) ∧
    ((∃ q, (γ.σ.free q).length < (γ'.σ.free q).length) → a = .base .relPut ∨ a = .base .abort) ∧
    (∀ h, a = .dropHeader h → γ'.σ = γ.σ) := by
  refine ⟨?_, ?_, ?_⟩
  · intro h e
    rw [e, gstep_false_finalize] at hs
    cases hs
  · rintro ⟨q, hq⟩
    rcases gstep_false_cases P _ _ t a hs with ⟨b, e, hb, _, _⟩ | ⟨hh, H, x, _, hσ, _⟩
    · rcases free_grows_only_by_put P _ _ t b hb q hq with e' | e'
      · left; rw [e, e']
      · right; rw [e, e']
    · rw [hσ] at hq; exact absurd hq (Nat.lt_irrefl _)
  · intro h e
    rcases gstep_false_cases P _ _ t a hs with ⟨b, e', _⟩ | ⟨hh, H, x, _, hσ, _⟩
    · rw [e] at e'; cases e'
    · exact hσ

/-- Non-vacuity: a history in which all three kinds of step that touch a free
list occur (an aborted Garble, a Release, a reuse) around a dropped header. -/
example :
    (match grunSched (Mem := Nat) (Job := Nat) traceParams false (ginit traceParams)
        [(0, .base (.callGarble 7)), (0, .base .load), (0, .base .cas), (0, .base .getNew),
         (0, .base .write), (0, .base .write), (0, .base .publish), (0, .dropHeader 0),
         (1, .base (.callGarble 8)), (1, .base .load), (1, .base .getNew), (1, .base .write),
         (1, .base .abort),
         (1, .base (.callGarble 9)), (1, .base .load), (1, .base (.getFree 1)), (1, .base .write),
         (1, .base .write), (1, .base .publish),
         (1, .base (.relBegin 1)), (1, .base .relPut), (1, .base .relClear)] with
     | some γ => γ.retained 0 == some 0 && γ.σ.free 0 == [1] && retainedVal γ 0 == some 7
     | none => false) = true := by decide

/-- **A garbling whose header was dropped stays valid, for every GC history.**
In every state of every history with header drops and collections:
(1) the slices retained from a dropped garbling `h` show exactly the
single-goroutine result `seqGarble` of the call that produced it, and `h` still
owns the scratch they alias; (2) along EVERY further history — any number of
collections, Garble / Release calls of other sessions on the same circuit, reuse
of every released scratch — the garbling stays dropped-but-owned, the retained
data does not change, and its scratch is never in a free list, never held by an
in-progress Garble, never behind another handle (it is stranded: "skipping
Release just forgoes reuse"); (3) for garblings whose header is kept the
statement of `C17_garble_isolated` carries over unchanged to GC histories. -/
theorem C17_retained_garbling_valid (P : Params Mem Job) (γ : GState Mem Job)
    (hr : GReachable P false γ) :
    (∀ h x, γ.retained h = some x → ∃ H, γ.σ.handle h = some H ∧ H.owned = some x ∧
        retainedVal γ h = some (seqGarble P H.job H.init)) ∧
    (∀ γ' h x, GSteps P false γ γ' → γ.retained h = some x →
        γ'.retained h = some x ∧ retainedVal γ' h = retainedVal γ h ∧
        (∀ q, x ∉ γ'.σ.free q) ∧ (∀ t, ¬ HeldBy γ'.σ t x) ∧ (∀ h', OwnedBy γ'.σ h' x → h' = h)) ∧
    (∀ h H x, γ.σ.handle h = some H → H.owned = some x → γ.σ.mem x = seqGarble P H.job H.init) := by
  have valid : ∀ (δ : GState Mem Job), GReachable P false δ → ∀ h x, δ.retained h = some x →
      ∃ H, δ.σ.handle h = some H ∧ H.owned = some x ∧
        retainedVal δ h = some (seqGarble P H.job H.init) := by
    intro δ hδ h x hx
    obtain ⟨H, hH, ho, _⟩ := rinv_reachable P δ hδ h x hx
    have hi := inv_reachable P _ (greachable_proj P δ hδ)
    refine ⟨H, hH, ho, ?_⟩
    simp only [retainedVal, hx, Option.map_some]
    rw [hi.ownMem h H x hH ho]
  refine ⟨valid γ hr, ?_, (inv_reachable P _ (greachable_proj P γ hr)).ownMem⟩
  intro γ' h x hs hx
  obtain ⟨H, hH, ho, hv⟩ := valid γ hr h x hx
  obtain ⟨hx', hH'⟩ := retained_gsteps P γ γ' hr hs h x H hx hH
  have hr' := greachable_gsteps P false γ γ' hr hs
  have hi' := inv_reachable P _ (greachable_proj P γ' hr')
  obtain ⟨H2, hH2, _, hv'⟩ := valid γ' hr' h x hx'
  rw [hH'] at hH2; cases hH2
  refine ⟨hx', by rw [hv, hv'], ?_, ?_, ?_⟩
  · intro q hq
    exact hi'.freeH q x h H hq hH' ho
  · rintro t ⟨j, p, m0, k, ht⟩
    exact hi'.heldH t j p x m0 k h H ht hH' ho
  · rintro h' ⟨H3, hH3, ho3⟩
    exact hi'.ownHH h' h H3 H x hH3 hH' ho3 ho

/-- Non-vacuity: a reachable GC state with a dropped, unreleased garbling. -/
example : ∃ γ : GState Nat Nat, GReachable traceParams false γ ∧ γ.retained 0 = some 0 := by
  have h : ∃ γ, grunSched traceParams false (ginit traceParams)
      [(0, .base (.callGarble 7)), (0, .base .load), (0, .base .cas), (0, .base .getNew),
       (0, .base .write), (0, .base .write), (0, .base .publish), (0, .dropHeader 0)] = some γ ∧
      γ.retained 0 = some 0 := ⟨_, rfl, rfl⟩
  obtain ⟨γ, hs, hx⟩ := h
  exact ⟨γ, greachable_grunSched traceParams false _ γ _ .init hs, hx⟩

/-- The history of the witness below: garbling 0 (job 7) is published, its header
dropped; the collector runs its finalizer (= `Release`, by the runtime's
goroutine 9); another session's Garble (job 8) gets the scratch back from the
pool and garbles into it. -/
def autoReleaseSched : List (Tid × GAction Nat) :=
  [(0, .base (.callGarble 7)), (0, .base .load), (0, .base .cas), (0, .base .getNew),
   (0, .base .write), (0, .base .write), (0, .base .publish), (0, .dropHeader 0),
   (9, .finalize 0),
   (1, .base (.callGarble 8)), (1, .base .load), (1, .base (.getFree 0)),
   (1, .base .write), (1, .base .write), (1, .base .publish)]

/-- **Why the theorems need "no Put without an explicit Release by the owner".**
Add an auto-release transition (`fin = true`: a finalizer on the header whose
effect is `Release`) and `C17_retained_garbling_valid` / the validity part of
`C17_garble_isolated` fail: after the history `autoReleaseSched` the slices
retained from garbling 0, which was never released by its owner, show the result
of ANOTHER call (8, not `seqGarble … 7 = 7`), and the scratch they alias is
owned by handle 1.  The step that broke it is a `Put` that is neither `relPut`
of an owner's `Release` nor `abort`: right after `finalize 0` scratch 0 is in the
free list while the retained slices still alias it. -/
theorem C17_autorelease_breaks_retained_validity :
    (∃ γ : GState Nat Nat, GReachable traceParams true γ ∧ γ.retained 0 = some 0 ∧
      retainedVal γ 0 = some 8 ∧ seqGarble traceParams 7 traceParams.fresh = 7 ∧
      OwnedBy γ.σ 1 0) ∧
    (∃ γ : GState Nat Nat, GReachable traceParams true γ ∧ γ.retained 0 = some 0 ∧
      0 ∈ γ.σ.free 0) := by
  constructor
  · have h : ∃ γ, grunSched traceParams true (ginit traceParams) autoReleaseSched = some γ ∧
        γ.retained 0 = some 0 ∧ retainedVal γ 0 = some 8 ∧
        seqGarble traceParams 7 traceParams.fresh = 7 ∧ OwnedBy γ.σ 1 0 :=
      ⟨_, rfl, rfl, rfl, rfl, ⟨_, rfl, rfl⟩⟩
    obtain ⟨γ, hs, h1, h2, h3, h4⟩ := h
    exact ⟨γ, greachable_grunSched traceParams true _ γ _ .init hs, h1, h2, h3, h4⟩
  · have h : ∃ γ, grunSched traceParams true (ginit traceParams) (autoReleaseSched.take 9) = some γ ∧
        γ.retained 0 = some 0 ∧ 0 ∈ γ.σ.free 0 :=
      ⟨_, rfl, rfl, by decide⟩
    obtain ⟨γ, hs, h1, h2⟩ := h
    exact ⟨γ, greachable_grunSched traceParams true _ γ _ .init hs, h1, h2⟩

/-- With the code as it is the same history is not a run: the collector step
does not exist. -/
example : grunSched traceParams false (ginit traceParams) autoReleaseSched = none := by decide
/-- … and without the collector step the other session cannot get scratch 0. -/
example : grunSched traceParams false (ginit traceParams)
    (autoReleaseSched.take 8 ++ autoReleaseSched.drop 9) = none := by decide

/-! ### The usage-contract limit (see the header) -/

def unitParams : Params Unit Unit := ⟨(), fun _ => []⟩

/-- Two goroutines call `Release` on the *same* handle concurrently: both pass
the `g.pool == nil` test before either clears it, both `Put` — scratch 0 is in
the free list twice, and two later Garble calls hold it at the same time.
(`scratch_owned_once` fails outside the contract.) -/
def racyReleaseSched : List (Tid × Action Unit) :=
  [(0, .callGarble ()), (0, .load), (0, .cas), (0, .getNew), (0, .publish),
   (0, .relBegin 0), (1, .relBegin 0), (0, .relPut), (1, .relPut), (0, .relClear), (1, .relClear),
   (0, .callGarble ()), (0, .load), (0, .getFree 0), (1, .callGarble ()), (1, .load), (1, .getFree 0)]

theorem C17_contract_needed_concurrent_release :
    ∃ σ : State Unit Unit, Reachable unitParams false σ ∧ HeldBy σ 0 0 ∧ HeldBy σ 1 0 ∧
      (σ.free 0).count 0 = 0 := by
  have h : ∃ σ, runSched unitParams false (init unitParams) racyReleaseSched = some σ ∧
      HeldBy σ 0 0 ∧ HeldBy σ 1 0 ∧ (σ.free 0).count 0 = 0 :=
    ⟨_, rfl, ⟨(), 0, (), 0, rfl⟩, ⟨(), 0, (), 0, rfl⟩, rfl⟩
  obtain ⟨σ, hs, h0, h1, hc⟩ := h
  exact ⟨σ, reachable_runSched unitParams false _ σ _ .init hs, h0, h1, hc⟩

/-- The intermediate state of the same run: the free list holds scratch 0 twice. -/
example :
    (match runSched unitParams false (init unitParams) (racyReleaseSched.take 11) with
     | some σ => σ.free 0 == [0, 0]
     | none => false) = true := by decide

/-- A `Garbled` copied by value and released through both copies, sequentially:
each copy has its own `pool` field, so the second `Release` is not a no-op and
the scratch is `Put` twice. -/
def valueCopySched : List (Tid × Action Unit) :=
  [(0, .callGarble ()), (0, .load), (0, .cas), (0, .getNew), (0, .publish),
   (0, .copyHandle 0),
   (0, .relBegin 0), (0, .relPut), (0, .relClear),
   (0, .relBegin 1), (0, .relPut), (0, .relClear)]

theorem C17_contract_needed_value_copy :
    ∃ σ : State Unit Unit, Reachable unitParams false σ ∧ (σ.free 0).count 0 = 2 := by
  have h : ∃ σ, runSched unitParams false (init unitParams) valueCopySched = some σ ∧
      (σ.free 0).count 0 = 2 := ⟨_, rfl, rfl⟩
  obtain ⟨σ, hs, hc⟩ := h
  exact ⟨σ, reachable_runSched unitParams false _ σ _ .init hs, hc⟩

/-- Under the contract the same two schedules are not runs of the model (the
second `relBegin` on a handle in use, and `copyHandle`, are refused). -/
example : runSched unitParams true (init unitParams) racyReleaseSched = none := by decide
example : runSched unitParams true (init unitParams) valueCopySched = none := by decide

section Results
open Mpc.Pool.Res

/-! ## Results of `Compute` are values the caller owns (result histories) -/

/-- **Ownership of results**: along every history of `Compute` calls on one
circuit value, starting from any state, no object that already exists -- in
particular nothing reachable from a result an earlier call returned -- is
written: the heap cell keeps its content. -/
theorem C17_compute_result_memory_never_written (c : Circuit) (widths : List Nat) (st : St)
    (later : List (List Bool)) (a : Nat) (ha : a < st.heap.length) :
    (run .fresh c widths st later).heap[a]? = st.heap[a]? := by
  obtain ⟨e, he⟩ := run_fresh_heap c widths st later
  rw [he, List.getElem?_append_left ha]

example : (run .fresh ⟨3, 2, 1, [⟨.xor, 0, 1, 2⟩]⟩ [1] {} [[true, false]]).heap.length = 1 := by decide

/-- **Result retention**: for every history `before ++ x :: later` of calls
(any number of earlier and later calls, any inputs; whole calls in any serial
order = every interleaving, `Compute` writing no shared state), the result the
call on `x` returned, read by its keeper after all the later calls, is the value
`Compute` returns on `x` when run alone. -/
theorem C17_compute_result_retained (c : Circuit) (widths : List Nat)
    (before later : List (List Bool)) (x : List Bool) :
    readRes (run .fresh c widths {} (before ++ x :: later)) before.length =
      some (computeVal c widths x) ∧
    readRes (run .fresh c widths {} [x]) 0 = some (computeVal c widths x) := by
  refine ⟨?_, by simp [run, call, readRes]⟩
  rw [run_append, run_cons]
  obtain ⟨s0, hs0⟩ : ∃ s0, s0 = run .fresh c widths {} before := ⟨_, rfl⟩
  rw [← hs0]
  have hlen : s0.rets.length = before.length := by
    rw [hs0, run_fresh_rets_length]; simp
  obtain ⟨s1, hs1⟩ : ∃ s1, s1 = call .fresh c widths s0 x := ⟨_, rfl⟩
  rw [← hs1]
  have hr1 : s1.rets = s0.rets ++ [s0.heap.length] := by rw [hs1]; rfl
  have hh1 : s1.heap = s0.heap ++ [computeVal c widths x] := by rw [hs1]; rfl
  obtain ⟨e, he⟩ := run_fresh_rets c widths s1 later
  have hk : (run .fresh c widths s1 later).rets[before.length]? = some s0.heap.length := by
    rw [he, hr1, List.append_assoc, ← hlen, List.getElem?_append_right (Nat.le_refl _)]
    simp
  have ha : s0.heap.length < s1.heap.length := by rw [hh1]; simp
  have hm := C17_compute_result_memory_never_written c widths s1 later s0.heap.length ha
  unfold readRes
  rw [hk]
  show (run .fresh c widths s1 later).heap[s0.heap.length]? = _
  rw [hm, hh1, List.getElem?_append_right (Nat.le_refl _)]
  simp

/-- Executed instance: three calls on a 2-output circuit, the first result read at the end. -/
example : readRes (run .fresh ⟨4, 2, 2, [⟨.xor, 0, 1, 2⟩, ⟨.and, 0, 1, 3⟩]⟩ [1, 1] {}
    [[true, false], [true, true], [false, false]]) 0 = some [1, 0] := by decide +kernel

/-- **Witness** (the statement needs freshness): when the returned object aliases
scratch that goes back to a pool at the end of the call, a later call on the
same circuit value changes the earlier call's result. -/
theorem C17_pooled_result_alias_breaks_retention :
    ∃ (c : Circuit) (widths : List Nat) (x y : List Bool),
      readRes (run .pooled c widths {} [x]) 0 = some (computeVal c widths x) ∧
      readRes (run .pooled c widths {} [x, y]) 0 ≠ some (computeVal c widths x) :=
  ⟨⟨3, 2, 1, [⟨.xor, 0, 1, 2⟩]⟩, [1], [true, false], [false, false], by decide +kernel, by decide +kernel⟩

end Results

end Mpc.Pool

/-
C14  Circuit files round-trip; parsers reject malformed files gracefully.

Property theorems only; the model is Model/Format.lean (it is executed by
`drv_c14` and compared with the Go code on every run), helper lemmas are in
Proofs/Format.lean.

Statement (properties.jsonl), split into the parts proved below:

 (A) "Given arbitrary bytes whose declared sizes are at most a million, each
     parser returns either a circuit in which every gate input is defined
     before use and every wire is assigned, or an error" —
       `C14_parse_ok_imp_WF_mpclc`, `C14_parse_ok_imp_WF_bristol`:
     for EVERY byte string, every reader behaviour (buffer size, read-size
     oracle) and both code variants.  Full strength.
 (B) "it never crashes or hangs" —
       hang: both model parsers are total Lean functions (structural
       recursion), and the recursion bounds are never the reason for stopping:
       `C14_mpclc_fuel_adequate`;
       crash: `C14_bristol_never_panics` (full strength: every indexing in
       `ParseBristol` is in range for every input);  for `ParseMPCLC` the
       statement is FALSE for the code in /repo: `C14_mpclc_panic_witness`
       (replayed on the Go code by the harness: run-time panic "index out of
       range [0] with length 0");  `C14_mpclc_never_panics_partial` proves it
       for the code with the one-line guard.
 (C) "Writing any circuit in either supported file format and parsing it back
     yields a circuit with the same gates, wire and gate counts and
     input/output signature …, hence the same function, and writing it again
     gives the same bytes" — see the second half of this file.
-/
import MpcVerif.Proofs.Format

namespace Mpc
open Fmt

/-! ## (A) a returned circuit is well formed -/

/-- `ParseMPCLC`: whatever the bytes, the reader stack and the code variant,
a returned circuit has as many gates as declared, its input bits fit the wires,
every gate input is an input wire or the output of an earlier gate with all
indices below `numWires` (`wfFrom`, the hypothesis of C01), and every wire is
assigned. -/
theorem C14_parse_ok_imp_WF_mpclc (cfg : RdCfg) (fx : Fix) (bytes : Bytes) (c : PCircuit)
    (h : parseMPCLC cfg fx bytes = .ok c) :
    c.gates.length = c.numGates ∧ c.toCircuit.nIn ≤ c.numWires ∧
    wfFrom c.numWires c.gates c.toCircuit.inputDefined = true ∧
    ∀ w, w < c.numWires → c.toCircuit.defined w = true :=
  parseMPCLC_wf cfg fx bytes c h

/-- `ParseBristol`: the same. -/
theorem C14_parse_ok_imp_WF_bristol (bytes : Bytes) (c : PCircuit)
    (h : parseBristol bytes = .ok c) :
    c.gates.length = c.numGates ∧ c.toCircuit.nIn ≤ c.numWires ∧
    wfFrom c.numWires c.gates c.toCircuit.inputDefined = true ∧
    ∀ w, w < c.numWires → c.toCircuit.defined w = true :=
  parseBristol_wf bytes c h

/-- The two conditions of `Circuit.WF` (Model/Circuit.lean, hypothesis of C01)
that NEITHER parser checks: the output bits fit the wires, and no gate writes
an input wire.  With them a parsed circuit is `WF`. -/
theorem C14_parsed_WF (cfg : RdCfg) (fx : Fix) (bytes : Bytes) (c : PCircuit)
    (h : parseMPCLC cfg fx bytes = .ok c)
    (hout : c.toCircuit.nOut ≤ c.numWires)
    (hnoin : c.gates.all (fun g => decide (c.toCircuit.nIn ≤ g.out)) = true) :
    c.toCircuit.WF = true := by
  obtain ⟨_, h2, h3, _⟩ := parseMPCLC_wf cfg fx bytes c h
  simp only [Circuit.WF, Bool.and_eq_true, decide_eq_true_eq]
  exact ⟨⟨⟨h2, hout⟩, h3⟩, hnoin⟩

/-! ## (B) never crashes -/

/-- `ParseBristol` performs no out-of-range access, whatever the input. -/
theorem C14_bristol_never_panics (bytes : Bytes) : parseBristol bytes ≠ .error .panic :=
  parseBristol_no_panic bytes

/-- A valid 37-byte file (no gates, one wire, one 1-bit input `u1`) … -/
def c14PanicBase : PCircuit := ⟨0, 1, [.mk [] (.base .uint true 1) []], [], []⟩

/-- … extended by one gate record `INV 0 -> 0`. -/
def c14PanicWitness : Bytes := marshal c14PanicBase ++ [4, 0, 0, 0, 0, 0, 0, 0, 0]

/-- NEGATION of "never crashes" for `ParseMPCLC` as it is in /repo: the store
`gates[gate]` with `gate = 0 = len(gates)`.  Declared sizes: 0, 1, 1, 0, 0, 2,
1, 0 — all far below a million.  The harness replays these bytes (and every
mutant with more gate records than declared) on the Go code. -/
theorem C14_mpclc_panic_witness :
    parseMPCLC RdCfg.std Fix.none c14PanicWitness = .error .panic :=
  resClass_err _ _ (by decide +kernel)

/-- Without the extra record the same file parses. -/
example : resClass (parseMPCLC RdCfg.std Fix.none (marshal c14PanicBase)) = none := by
  decide +kernel

/-- FULL STATEMENT (false for /repo, see the witness): `∀ cfg bytes,
parseMPCLC cfg Fix.none bytes ≠ .error .panic`.
PROVED: with the test `gate >= NumGates` at the top of the gate loop (the
variant `guardGates`; 2 lines of Go, same as `ParseBristol`) no access of
`ParseMPCLC` is out of range, for every input and reader behaviour.  So the
missing guard is the ONLY crash. -/
theorem C14_mpclc_never_panics_partial (cfg : RdCfg) (fx : Fix) (hfx : fx.guardGates = true)
    (bytes : Bytes) : parseMPCLC cfg fx bytes ≠ .error .panic :=
  parseMPCLC_guard_no_panic cfg fx hfx bytes

example : Fix.both.guardGates = true := rfl

end Mpc

/-
C14  Circuit files round-trip; parsers reject malformed files gracefully.

Property theorems only; the model is Model/Format.lean (it is executed by
`drv_c14` and compared with the Go code on every run), helper lemmas are in
Proofs/Format.lean, Proofs/FormatRT.lean, Proofs/FormatBristol.lean.

Statement (properties.jsonl), split into the parts proved below:

 (A) "Given arbitrary bytes whose declared sizes are at most a million, each
     parser returns either a circuit in which every gate input is defined
     before use and every wire is assigned, or an error" —
       `C14_parse_ok_imp_WF_mpclc`, `C14_parse_ok_imp_WF_bristol`:
     for EVERY byte string, every reader behaviour (buffer size, read-size
     oracle) and both code variants.  Full strength.
 (B) "it never crashes or hangs" —
       hang: both model parsers are total Lean functions (structural
       recursion), and the recursion bounds are never the reason for stopping:
       `C14_mpclc_fuel_adequate` (the Bristol model has no bound: it recurses
       on the list of lines);
       crash: `C14_bristol_never_panics`, `C14_mpclc_never_panics`: every
       indexing in either parser is in range for every input.  Full strength.
 (C) "Writing any circuit in either supported file format and parsing it back
     yields a circuit with the same gates, wire and gate counts and
     input/output signature …, hence the same function, and writing it again
     gives the same bytes" —
       type text: `C14_type_roundtrip` (full strength on the I/O type grammar);
       Bristol: `C14_bristol_roundtrip` (full strength for every circuit the
       format can carry: sizes only, at least one input bit);
       native: `C14_mpclc_roundtrip` (full strength: every valid circuit, every
       reader behaviour, every file size).

The code in /repo is the variant `Fix.both` (Model/Format.lean) since the
repairs 7309cfb and a93bbfc; the check requires that (structural fact + probe).
The OLD code (`Fix.none`) violated (B) and (C); that stays recorded as
statements about the explicitly named old variant at the end of this file
(`C14_old_…`): negation witnesses, and what did hold.  They say nothing about
the code as it is.
-/
import MpcVerif.Proofs.FormatBristol

namespace Mpc
open Fmt

/-! ## (A) a returned circuit is well formed -/

/-- `ParseMPCLC`: whatever the bytes, the reader stack and the code variant,
a returned circuit has as many gates as declared, its input bits fit the wires,
every gate input is an input wire or the output of an earlier gate with all
indices below `numWires` (`wfFrom`, the hypothesis of C01), and every wire is
assigned. -/
theorem C14_parse_ok_imp_WF_mpclc (cfg : RdCfg) (fx : Fix) (bytes : Bytes) (c : PCircuit)
    (h : parseMPCLC cfg fx bytes = .ok c) :
    c.gates.length = c.numGates ∧ c.toCircuit.nIn ≤ c.numWires ∧
    wfFrom c.numWires c.gates c.toCircuit.inputDefined = true ∧
    ∀ w, w < c.numWires → c.toCircuit.defined w = true :=
  parseMPCLC_wf cfg fx bytes c h

/-- `ParseBristol`: the same. -/
theorem C14_parse_ok_imp_WF_bristol (bytes : Bytes) (c : PCircuit)
    (h : parseBristol bytes = .ok c) :
    c.gates.length = c.numGates ∧ c.toCircuit.nIn ≤ c.numWires ∧
    wfFrom c.numWires c.gates c.toCircuit.inputDefined = true ∧
    ∀ w, w < c.numWires → c.toCircuit.defined w = true :=
  parseBristol_wf bytes c h

/-- The two conditions of `Circuit.WF` (Model/Circuit.lean, hypothesis of C01)
that NEITHER parser checks: the output bits fit the wires, and no gate writes
an input wire.  With them a parsed circuit is `WF`. -/
theorem C14_parsed_WF (cfg : RdCfg) (fx : Fix) (bytes : Bytes) (c : PCircuit)
    (h : parseMPCLC cfg fx bytes = .ok c)
    (hout : c.toCircuit.nOut ≤ c.numWires)
    (hnoin : c.gates.all (fun g => decide (c.toCircuit.nIn ≤ g.out)) = true) :
    c.toCircuit.WF = true := by
  obtain ⟨_, h2, h3, _⟩ := parseMPCLC_wf cfg fx bytes c h
  simp only [Circuit.WF, Bool.and_eq_true, decide_eq_true_eq]
  exact ⟨⟨⟨h2, hout⟩, h3⟩, hnoin⟩

/-! ## (B) never crashes -/

/-- `ParseBristol` performs no out-of-range access, whatever the input. -/
theorem C14_bristol_never_panics (bytes : Bytes) : parseBristol bytes ≠ .error .panic :=
  parseBristol_no_panic bytes

/-- `ParseMPCLC` (the code as it is: `gate >= len(gates)` is tested before the
record is read and stored) performs no out-of-range access, whatever the input
and the reader behaviour. -/
theorem C14_mpclc_never_panics (cfg : RdCfg) (bytes : Bytes) :
    parseMPCLC cfg Fix.both bytes ≠ .error .panic :=
  parseMPCLC_guard_no_panic cfg Fix.both rfl bytes

/-- A valid 37-byte file (no gates, one wire, one 1-bit input `u1`) … -/
def c14PanicBase : PCircuit := ⟨0, 1, [.mk [] (.base .uint true 1) []], [], []⟩

/-- … extended by one gate record `INV 0 -> 0`: more records than declared. -/
def c14PanicWitness : Bytes := marshal c14PanicBase ++ [4, 0, 0, 0, 0, 0, 0, 0, 0]

/-- Non-vacuity / the former crash file: it is refused with an error. -/
example : parseMPCLC RdCfg.std Fix.both c14PanicWitness = .error .error :=
  resClass_err _ _ (by decide +kernel)

/-- Totality ("never hangs") of the model of `ParseMPCLC`: it is a Lean
function, so it terminates on every input; its three recursion bounds (stream
length + 1 for the argument tree and for the gate loop) are never what stops
it, for any bytes, reader behaviour and variant. -/
theorem C14_mpclc_fuel_adequate (cfg : RdCfg) (fx : Fix) (bytes : Bytes) :
    parseMPCLC cfg fx bytes ≠ .error .fuel :=
  parseMPCLC_no_fuel cfg fx bytes

/-- Every outcome of either parser is one of: a circuit, `error`, (native
only:) `panic`, or `oversize` (a declared size above 10^6 was read, outside the
property). -/
theorem C14_parse_total (cfg : RdCfg) (fx : Fix) (bytes : Bytes) :
    (∃ c, parseMPCLC cfg fx bytes = .ok c) ∨ parseMPCLC cfg fx bytes = .error .error ∨
    parseMPCLC cfg fx bytes = .error .panic ∨ parseMPCLC cfg fx bytes = .error .oversize := by
  have := parseMPCLC_no_fuel cfg fx bytes
  cases h : parseMPCLC cfg fx bytes with
  | ok c => exact Or.inl ⟨c, rfl⟩
  | error e => cases e <;> simp_all

/-! ## (C) round trip -/

/-- Type text.  `types.Parse (t.String())` succeeds for every type `t` of the
I/O grammar (sized bool/int/uint/string/struct, unsized int/uint/string, arrays
and slices of those, sizes below 2^31), returns `t` up to the fields the text
does not carry (`Info.norm`), and the result prints as the same text.
Outside the grammar the statement is false (e.g. `float32`, `*uint8`, unsized
`bool`, which parses to `bool1`); such types do not occur in compiled circuits. -/
theorem C14_type_roundtrip (t : Info) (h : t.inGrammar = true) :
    typeParse (typeString t) = some t.norm ∧ typeString t.norm = typeString t :=
  ⟨typeParse_typeString t h, typeString_norm t⟩

example : (Info.arr false 3 24 (.arr true 5 40 (.base .struct true 8))).inGrammar = true := by decide
example : typeParse (typeString (.base .float true 32)) = none := by decide +kernel
example : typeParse (typeString (.base .bool false 0)) = some (.base .bool true 1) := by decide +kernel

/-- Native round trip, full strength, for the code as it is: for every valid
circuit `c` (`PCircuit.Valid`: counts/lengths/sizes within the property's cap,
I/O types in the grammar, and the parser's own acceptance conditions), every
bufio buffer size and every read-size behaviour of the underlying `io.Reader`,
`ParseMPCLC (Marshal c)` returns `c.norm`, writing that again gives the same
bytes, and it computes the same function.  `c.norm` differs from `c` only in
what the format does not carry: `Input1` of INV gates is 0, types are as
`types.Parse` reads their text (`Info.norm`). -/
theorem C14_mpclc_roundtrip (cfg : RdCfg) (c : PCircuit) (hv : c.Valid) :
    parseMPCLC cfg Fix.both (marshal c) = .ok c.norm ∧ marshal c.norm = marshal c ∧
    ∀ x, c.norm.toCircuit.compute x = c.toCircuit.compute x :=
  ⟨parseMPCLC_marshal cfg Fix.both c hv (Or.inl rfl), marshal_norm c, compute_norm c⟩

example : FullOracle RdCfg.std := fun _ _ => Nat.le_refl _

/-- Non-vacuity: a valid circuit with a struct argument (two compound
members, one an array), an empty name, an INV and an AND gate. -/
def c14Example : PCircuit :=
  { numGates := 2, numWires := 5,
    inputs := [.mk [115] (.base .struct true 2)
                 [.mk [] (.base .bool true 1) [], .mk [121] (.arr false 1 1 (.base .uint true 1)) []],
               .mk [98] (.base .int true 1) []],
    outputs := [.mk [114] (.base .uint true 2) []],
    gates := [⟨.inv, 0, 7, 3⟩, ⟨.and, 3, 2, 4⟩] }

theorem c14Example_valid : c14Example.Valid where
  ngates := by decide
  ng_cap := by decide
  nw_cap := by decide
  ni_cap := by decide
  no_cap := by decide
  ins := by decide +kernel
  outs := by decide +kernel
  fits := by decide
  wf := by decide
  assigned := by
    intro w hw
    have : w = 0 ∨ w = 1 ∨ w = 2 ∨ w = 3 ∨ w = 4 := by
      simp only [c14Example] at hw; omega
    rcases this with h | h | h | h | h <;> subst h <;> decide

example : parseMPCLC RdCfg.std Fix.both (marshal c14Example) = .ok c14Example.norm :=
  (C14_mpclc_roundtrip RdCfg.std c14Example c14Example_valid).1

/-- … also through a reader that delivers one byte per `Read`. -/
example : parseMPCLC ⟨4096, fun _ _ => 1⟩ Fix.both (marshal c14Example) = .ok c14Example.norm :=
  (C14_mpclc_roundtrip _ c14Example c14Example_valid).1

/-- Bristol round trip, full strength for the circuits the format can carry
(`BValid`: sizes in `[0, 2^31)`, at least one input bit — `ParseBristol`
refuses a circuit without input bits, "no inputs defined" — and the parser's
acceptance conditions): `ParseBristol (MarshalBristol c)` returns the same
gates (INV `Input1` = 0), counts and argument sizes, under the made-up names
`NI1…`/`NO1…` as `uint`; writing it again gives the same text; same function.
The Bristol parser reads whole lines, so reader behaviour plays no role. -/
theorem C14_bristol_roundtrip (c : PCircuit) (hv : c.BValid) :
    parseBristol (marshalBristol c) = .ok c.bnorm ∧ marshalBristol c.bnorm = marshalBristol c ∧
    ∀ x, c.bnorm.toCircuit.compute x = c.toCircuit.compute x :=
  ⟨parseBristol_marshal c hv, marshalBristol_bnorm c, compute_bnorm c⟩

theorem c14Example_bvalid : c14Example.BValid where
  ngates := by decide
  ng_cap := by decide
  nw_cap := by decide
  ni_cap := by decide
  no_cap := by decide
  bitsI := by decide
  bitsO := by decide
  nonzero := by decide
  fits := by decide
  wf := by decide
  assigned := c14Example_valid.assigned

example : parseBristol (marshalBristol c14Example) = .ok c14Example.bnorm :=
  (C14_bristol_roundtrip c14Example c14Example_bvalid).1

/-- Without input bits the Bristol text does not parse back (scope of
`BValid.nonzero`). -/
example : resClass (parseBristol (marshalBristol ⟨0, 0, [], [], []⟩)) = some .error := by
  decide +kernel

/-- A struct argument with `n` members `member_1000`, `member_1001`, … -/
def c14BigArg (n : Nat) : IOArg :=
  .mk [115] (.base .struct true 2) ((List.range n).map fun i =>
    .mk ([109, 101, 109, 98, 101, 114, 95] ++ dec (1000 + i)) (.base .uint true (if i < 2 then 1 else 0)) [])

/-- One AND gate, inputs: that struct.  Marshals to 6479 bytes. -/
def c14Big (n : Nat) : PCircuit :=
  ⟨1, 3, [c14BigArg n], [.mk [114] (.base .uint true 1) []], [⟨.and, 0, 1, 2⟩]⟩

/-- Non-vacuity beyond one buffer: the 6479-byte file parses (code as it is,
`bytes.Reader` behind the 4096-byte `bufio.Reader`). -/
example : 4096 < (marshal (c14Big 200)).length ∧
    resClass (parseMPCLC RdCfg.std Fix.both (marshal (c14Big 200))) = none :=
  ⟨by decide +kernel, by decide +kernel⟩

/-! ## The OLD variant `Fix.none` (before 7309cfb / a93bbfc)

Statements about the code as it WAS, kept as a record of the two defects the
check found; the harness replayed each witness on the Go code at the time, and
replays the same files now as ordinary cases (corpus/C14). -/

/-- OLD code: negation of "never crashes".  The store `gates[gate]` with
`gate = 0 = len(gates)`; declared sizes 0, 1, 1, 0, 0, 2, 1, 0. -/
theorem C14_old_mpclc_panic_witness :
    parseMPCLC RdCfg.std Fix.none c14PanicWitness = .error .panic :=
  resClass_err _ _ (by decide +kernel)

/-- OLD code: negation of the native round trip.  The name that straddles byte
4096 was cut short by `r.Read(buf)`, the stream was misaligned and the next
length field read was above 10^6. -/
theorem C14_old_mpclc_roundtrip_short_read_witness :
    4096 < (marshal (c14Big 200)).length ∧
    parseMPCLC RdCfg.std Fix.none (marshal (c14Big 200)) = .error .oversize :=
  ⟨by decide +kernel, resClass_err _ _ (by decide +kernel)⟩

/-- OLD code: the same defect with a small file and a reader that delivers 3
bytes per `Read`: the file of `c14PanicBase` with the name "hello". -/
theorem C14_old_mpclc_roundtrip_short_reader_witness :
    resClass (parseMPCLC ⟨4096, fun _ _ => 3⟩ Fix.none
      (marshal ⟨0, 1, [.mk [104, 101, 108, 108, 111] (.base .uint true 1) []], [], []⟩)) = some .oversize :=
  by decide +kernel

/-- OLD code: what did hold — the round trip for files of at most one buffer
read from a reader that delivers what is asked. -/
theorem C14_old_mpclc_roundtrip_one_buffer (cfg : RdCfg) (c : PCircuit) (hv : c.Valid)
    (hfull : FullOracle cfg) (hfit : (marshal c).length ≤ cfg.bufSize) (hbs : 20 < cfg.bufSize) :
    parseMPCLC cfg Fix.none (marshal c) = .ok c.norm :=
  parseMPCLC_marshal cfg Fix.none c hv (Or.inr ⟨hfull, hfit, hbs⟩)

/-- Each repair alone removes its defect (any variant with the guard never
panics; any variant with `io.ReadFull` round-trips). -/
theorem C14_each_repair_suffices (cfg : RdCfg) (fx : Fix) :
    (fx.guardGates = true → ∀ bytes, parseMPCLC cfg fx bytes ≠ .error .panic) ∧
    (fx.readFullStrings = true → ∀ c : PCircuit, c.Valid → parseMPCLC cfg fx (marshal c) = .ok c.norm) :=
  ⟨fun h bytes => parseMPCLC_guard_no_panic cfg fx h bytes,
   fun h c hv => parseMPCLC_marshal cfg fx c hv (Or.inl h)⟩

end Mpc

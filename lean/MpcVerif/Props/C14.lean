/-
C14  Circuit files round-trip; parsers reject malformed files gracefully.

Property theorems only; the model is Model/Format.lean (it is executed by
`drv_c14` and compared with the Go code on every run), helper lemmas are in
Proofs/Format.lean, Proofs/FormatRT.lean, Proofs/FormatBristol.lean.

Statement (properties.jsonl), split into the parts proved below:

 (A) "Given arbitrary bytes whose declared sizes are at most a million, each
     parser returns either a circuit in which every gate input is defined
     before use and every wire is assigned, or an error" —
       `C14_parse_ok_imp_WF_mpclc`, `C14_parse_ok_imp_WF_bristol`:
     for EVERY byte string, every reader behaviour (buffer size, read-size
     oracle) and both code variants.  Full strength.
 (B) "it never crashes or hangs" —
       hang: both model parsers are total Lean functions (structural
       recursion), and the recursion bounds are never the reason for stopping:
       `C14_mpclc_fuel_adequate` (the Bristol model has no bound: it recurses
       on the list of lines);
       crash: `C14_bristol_never_panics` (full strength: every indexing in
       `ParseBristol` is in range for every input);  for `ParseMPCLC` the
       statement is FALSE for the code in /repo: `C14_mpclc_panic_witness`
       (replayed on the Go code by the harness: run-time panic "index out of
       range [0] with length 0");  `C14_mpclc_never_panics_partial` proves it
       for the code with the one-line guard.
 (C) "Writing any circuit in either supported file format and parsing it back
     yields a circuit with the same gates, wire and gate counts and
     input/output signature …, hence the same function, and writing it again
     gives the same bytes" —
       type text: `C14_type_roundtrip` (full strength on the I/O type grammar);
       Bristol: `C14_bristol_roundtrip` (full strength for every circuit the
       format can carry: sizes only, at least one input bit);
       native: FALSE for the code in /repo once an I/O header string crosses
       the 4096-byte bufio buffer or the reader delivers short reads
       (`C14_mpclc_roundtrip_short_read_witness`, `…_short_reader_witness`,
       replayed on the Go code with 30..450-member struct headers);
       `C14_mpclc_roundtrip_partial` proves it for files of at most one buffer
       read from a full-delivery reader, `C14_mpclc_roundtrip_fixed` proves the
       full statement for `parseString` with `io.ReadFull`.
-/
import MpcVerif.Proofs.FormatBristol

namespace Mpc
open Fmt

/-! ## (A) a returned circuit is well formed -/

/-- `ParseMPCLC`: whatever the bytes, the reader stack and the code variant,
a returned circuit has as many gates as declared, its input bits fit the wires,
every gate input is an input wire or the output of an earlier gate with all
indices below `numWires` (`wfFrom`, the hypothesis of C01), and every wire is
assigned. -/
theorem C14_parse_ok_imp_WF_mpclc (cfg : RdCfg) (fx : Fix) (bytes : Bytes) (c : PCircuit)
    (h : parseMPCLC cfg fx bytes = .ok c) :
    c.gates.length = c.numGates ∧ c.toCircuit.nIn ≤ c.numWires ∧
    wfFrom c.numWires c.gates c.toCircuit.inputDefined = true ∧
    ∀ w, w < c.numWires → c.toCircuit.defined w = true :=
  parseMPCLC_wf cfg fx bytes c h

/-- `ParseBristol`: the same. -/
theorem C14_parse_ok_imp_WF_bristol (bytes : Bytes) (c : PCircuit)
    (h : parseBristol bytes = .ok c) :
    c.gates.length = c.numGates ∧ c.toCircuit.nIn ≤ c.numWires ∧
    wfFrom c.numWires c.gates c.toCircuit.inputDefined = true ∧
    ∀ w, w < c.numWires → c.toCircuit.defined w = true :=
  parseBristol_wf bytes c h

/-- The two conditions of `Circuit.WF` (Model/Circuit.lean, hypothesis of C01)
that NEITHER parser checks: the output bits fit the wires, and no gate writes
an input wire.  With them a parsed circuit is `WF`. -/
theorem C14_parsed_WF (cfg : RdCfg) (fx : Fix) (bytes : Bytes) (c : PCircuit)
    (h : parseMPCLC cfg fx bytes = .ok c)
    (hout : c.toCircuit.nOut ≤ c.numWires)
    (hnoin : c.gates.all (fun g => decide (c.toCircuit.nIn ≤ g.out)) = true) :
    c.toCircuit.WF = true := by
  obtain ⟨_, h2, h3, _⟩ := parseMPCLC_wf cfg fx bytes c h
  simp only [Circuit.WF, Bool.and_eq_true, decide_eq_true_eq]
  exact ⟨⟨⟨h2, hout⟩, h3⟩, hnoin⟩

/-! ## (B) never crashes -/

/-- `ParseBristol` performs no out-of-range access, whatever the input. -/
theorem C14_bristol_never_panics (bytes : Bytes) : parseBristol bytes ≠ .error .panic :=
  parseBristol_no_panic bytes

/-- A valid 37-byte file (no gates, one wire, one 1-bit input `u1`) … -/
def c14PanicBase : PCircuit := ⟨0, 1, [.mk [] (.base .uint true 1) []], [], []⟩

/-- … extended by one gate record `INV 0 -> 0`. -/
def c14PanicWitness : Bytes := marshal c14PanicBase ++ [4, 0, 0, 0, 0, 0, 0, 0, 0]

/-- NEGATION of "never crashes" for `ParseMPCLC` as it is in /repo: the store
`gates[gate]` with `gate = 0 = len(gates)`.  Declared sizes: 0, 1, 1, 0, 0, 2,
1, 0 — all far below a million.  The harness replays these bytes (and every
mutant with more gate records than declared) on the Go code. -/
theorem C14_mpclc_panic_witness :
    parseMPCLC RdCfg.std Fix.none c14PanicWitness = .error .panic :=
  resClass_err _ _ (by decide +kernel)

/-- Without the extra record the same file parses. -/
example : resClass (parseMPCLC RdCfg.std Fix.none (marshal c14PanicBase)) = none := by
  decide +kernel

/-- FULL STATEMENT (false for /repo, see the witness): `∀ cfg bytes,
parseMPCLC cfg Fix.none bytes ≠ .error .panic`.
PROVED: with the test `gate >= NumGates` at the top of the gate loop (the
variant `guardGates`; 2 lines of Go, same as `ParseBristol`) no access of
`ParseMPCLC` is out of range, for every input and reader behaviour.  So the
missing guard is the ONLY crash. -/
theorem C14_mpclc_never_panics_partial (cfg : RdCfg) (fx : Fix) (hfx : fx.guardGates = true)
    (bytes : Bytes) : parseMPCLC cfg fx bytes ≠ .error .panic :=
  parseMPCLC_guard_no_panic cfg fx hfx bytes

example : Fix.both.guardGates = true := rfl

/-- Totality ("never hangs") of the model of `ParseMPCLC`: it is a Lean
function, so it terminates on every input; its three recursion bounds (stream
length + 1 for the argument tree and for the gate loop) are never what stops
it, for any bytes, reader behaviour and variant. -/
theorem C14_mpclc_fuel_adequate (cfg : RdCfg) (fx : Fix) (bytes : Bytes) :
    parseMPCLC cfg fx bytes ≠ .error .fuel :=
  parseMPCLC_no_fuel cfg fx bytes

/-- Every outcome of either parser is one of: a circuit, `error`, (native
only:) `panic`, or `oversize` (a declared size above 10^6 was read, outside the
property). -/
theorem C14_parse_total (cfg : RdCfg) (fx : Fix) (bytes : Bytes) :
    (∃ c, parseMPCLC cfg fx bytes = .ok c) ∨ parseMPCLC cfg fx bytes = .error .error ∨
    parseMPCLC cfg fx bytes = .error .panic ∨ parseMPCLC cfg fx bytes = .error .oversize := by
  have := parseMPCLC_no_fuel cfg fx bytes
  cases h : parseMPCLC cfg fx bytes with
  | ok c => exact Or.inl ⟨c, rfl⟩
  | error e => cases e <;> simp_all

/-! ## (C) round trip -/

/-- Type text.  `types.Parse (t.String())` succeeds for every type `t` of the
I/O grammar (sized bool/int/uint/string/struct, unsized int/uint/string, arrays
and slices of those, sizes below 2^31), returns `t` up to the fields the text
does not carry (`Info.norm`), and the result prints as the same text.
Outside the grammar the statement is false (e.g. `float32`, `*uint8`, unsized
`bool`, which parses to `bool1`); such types do not occur in compiled circuits. -/
theorem C14_type_roundtrip (t : Info) (h : t.inGrammar = true) :
    typeParse (typeString t) = some t.norm ∧ typeString t.norm = typeString t :=
  ⟨typeParse_typeString t h, typeString_norm t⟩

example : (Info.arr false 3 24 (.arr true 5 40 (.base .struct true 8))).inGrammar = true := by decide
example : typeParse (typeString (.base .float true 32)) = none := by decide +kernel
example : typeParse (typeString (.base .bool false 0)) = some (.base .bool true 1) := by decide +kernel

/-
FULL STATEMENT of the native round trip:
  ∀ cfg (c : PCircuit), c.Valid →
    parseMPCLC cfg Fix.none (marshal c) = .ok c.norm ∧ marshal c.norm = marshal c
(for every reader behaviour `cfg`).  It is FALSE for the code in /repo:
`C14_mpclc_roundtrip_short_read_witness`.  Proved instead:
  * `C14_mpclc_roundtrip_partial`: the statement for the code as it is, when
    the file fits the 4096-byte bufio buffer and the underlying reader delivers
    what is asked (bytes.Reader, regular files);
  * `C14_mpclc_roundtrip_fixed`: the full statement, every reader behaviour and
    file size, for `parseString` with `io.ReadFull` (one-line repair).
`c.norm` differs from `c` only in what the format does not carry: `Input1` of
INV gates is 0, types are as `types.Parse` reads their text (`Info.norm`).
-/

/-- Native round trip for the code in /repo, files of at most one buffer. -/
theorem C14_mpclc_roundtrip_partial (cfg : RdCfg) (c : PCircuit) (hv : c.Valid)
    (hfull : FullOracle cfg) (hfit : (marshal c).length ≤ cfg.bufSize) (hbs : 20 < cfg.bufSize) :
    parseMPCLC cfg Fix.none (marshal c) = .ok c.norm ∧ marshal c.norm = marshal c ∧
    ∀ x, c.norm.toCircuit.compute x = c.toCircuit.compute x :=
  ⟨parseMPCLC_marshal cfg Fix.none c hv (Or.inr ⟨hfull, hfit, hbs⟩), marshal_norm c, compute_norm c⟩

/-- Native round trip at full strength (all circuits, all reader behaviours,
all sizes) for the repaired `parseString`. -/
theorem C14_mpclc_roundtrip_fixed (cfg : RdCfg) (fx : Fix) (hfx : fx.readFullStrings = true)
    (c : PCircuit) (hv : c.Valid) :
    parseMPCLC cfg fx (marshal c) = .ok c.norm ∧ marshal c.norm = marshal c ∧
    ∀ x, c.norm.toCircuit.compute x = c.toCircuit.compute x :=
  ⟨parseMPCLC_marshal cfg fx c hv (Or.inl hfx), marshal_norm c, compute_norm c⟩

example : FullOracle RdCfg.std := fun _ _ => Nat.le_refl _

/-- Non-vacuity: a valid circuit with a struct argument (two compound
members, one an array), an empty name, an INV and an AND gate. -/
def c14Example : PCircuit :=
  { numGates := 2, numWires := 5,
    inputs := [.mk [115] (.base .struct true 2)
                 [.mk [] (.base .bool true 1) [], .mk [121] (.arr false 1 1 (.base .uint true 1)) []],
               .mk [98] (.base .int true 1) []],
    outputs := [.mk [114] (.base .uint true 2) []],
    gates := [⟨.inv, 0, 7, 3⟩, ⟨.and, 3, 2, 4⟩] }

theorem c14Example_valid : c14Example.Valid where
  ngates := by decide
  ng_cap := by decide
  nw_cap := by decide
  ni_cap := by decide
  no_cap := by decide
  ins := by decide +kernel
  outs := by decide +kernel
  fits := by decide
  wf := by decide
  assigned := by
    intro w hw
    have : w = 0 ∨ w = 1 ∨ w = 2 ∨ w = 3 ∨ w = 4 := by
      simp only [c14Example] at hw; omega
    rcases this with h | h | h | h | h <;> subst h <;> decide

example : parseMPCLC RdCfg.std Fix.none (marshal c14Example) = .ok c14Example.norm :=
  (C14_mpclc_roundtrip_partial RdCfg.std c14Example c14Example_valid (fun _ _ => Nat.le_refl _)
    (by decide +kernel) (by decide)).1

/-- Bristol round trip, full strength for the circuits the format can carry
(`BValid`: sizes in `[0, 2^31)`, at least one input bit — `ParseBristol`
refuses a circuit without input bits, "no inputs defined" — and the parser's
acceptance conditions): `ParseBristol (MarshalBristol c)` returns the same
gates (INV `Input1` = 0), counts and argument sizes, under the made-up names
`NI1…`/`NO1…` as `uint`; writing it again gives the same text; same function.
The Bristol parser reads whole lines, so reader behaviour plays no role. -/
theorem C14_bristol_roundtrip (c : PCircuit) (hv : c.BValid) :
    parseBristol (marshalBristol c) = .ok c.bnorm ∧ marshalBristol c.bnorm = marshalBristol c ∧
    ∀ x, c.bnorm.toCircuit.compute x = c.toCircuit.compute x :=
  ⟨parseBristol_marshal c hv, marshalBristol_bnorm c, compute_bnorm c⟩

theorem c14Example_bvalid : c14Example.BValid where
  ngates := by decide
  ng_cap := by decide
  nw_cap := by decide
  ni_cap := by decide
  no_cap := by decide
  bitsI := by decide
  bitsO := by decide
  nonzero := by decide
  fits := by decide
  wf := by decide
  assigned := c14Example_valid.assigned

example : parseBristol (marshalBristol c14Example) = .ok c14Example.bnorm :=
  (C14_bristol_roundtrip c14Example c14Example_bvalid).1

/-- Without input bits the Bristol text does not parse back (scope of
`BValid.nonzero`). -/
example : resClass (parseBristol (marshalBristol ⟨0, 0, [], [], []⟩)) = some .error := by
  decide +kernel

/-- A struct argument with `n` members `member_1000`, `member_1001`, … -/
def c14BigArg (n : Nat) : IOArg :=
  .mk [115] (.base .struct true 2) ((List.range n).map fun i =>
    .mk ([109, 101, 109, 98, 101, 114, 95] ++ dec (1000 + i)) (.base .uint true (if i < 2 then 1 else 0)) [])

/-- One AND gate, inputs: that struct. -/
def c14Big (n : Nat) : PCircuit :=
  ⟨1, 3, [c14BigArg n], [.mk [114] (.base .uint true 1) []], [⟨.and, 0, 1, 2⟩]⟩

/-- NEGATION of the round trip for the code in /repo: a circuit with a
200-member struct argument marshals to 6479 bytes; `ParseMPCLC` reading them
from a `bytes.Reader` / file through its 4096-byte `bufio.Reader` does NOT
return the circuit: the name that straddles byte 4096 is cut short by
`r.Read(buf)`, the stream is misaligned, and the next length field read is
above 10^6.  With `io.ReadFull` the same bytes parse (`C14_mpclc_roundtrip_fixed`;
concretely the second conjunct).  The harness replays the same shape (struct of
30..450 members) on the Go code. -/
theorem C14_mpclc_roundtrip_short_read_witness :
    4096 < (marshal (c14Big 200)).length ∧
    parseMPCLC RdCfg.std Fix.none (marshal (c14Big 200)) = .error .oversize ∧
    resClass (parseMPCLC RdCfg.std Fix.both (marshal (c14Big 200))) = none :=
  ⟨by decide +kernel, resClass_err _ _ (by decide +kernel), by decide +kernel⟩

/-- The same defect with a small file and a reader that delivers 3 bytes per
`Read` (any `io.Reader` may): the file of `c14PanicBase` with the name
"hello" (after the short read the letters "lo\0\0" are taken for a length). -/
theorem C14_mpclc_roundtrip_short_reader_witness :
    resClass (parseMPCLC ⟨4096, fun _ _ => 3⟩ Fix.none
      (marshal ⟨0, 1, [.mk [104, 101, 108, 108, 111] (.base .uint true 1) []], [], []⟩)) = some .oversize ∧
    resClass (parseMPCLC ⟨4096, fun _ _ => 3⟩ Fix.both
      (marshal ⟨0, 1, [.mk [104, 101, 108, 108, 111] (.base .uint true 1) []], [], []⟩)) = none :=
  ⟨by decide +kernel, by decide +kernel⟩

end Mpc

/-
C18  SHA256(XOR) protocol: correct, resumable, canonical encodings.

Property theorems only.  Model: Model/Sha2pc.lean (the five encoders/decoders
of sha2pc/encoding.go at byte level; executed by `drv_c18` and compared with
the Go code on every run, including all mutation outcomes) and
Model/Sha2pcRounds.lean (the four round functions over an abstract curve
group, the Chou-Orlandi model of C06 and the garbling model of C01).

The model is the code of /repo at and after the five repairs 0e7671a (round 4
checks the stored sender point), 68f93f2 (round 3 checks the stored A^{-a}),
d9a1171 (decoders reject trailing bytes), 2eb87d5 (bit field read with
io.ReadFull), 217fb4c (readChunk rejects padded length prefixes); the check
requires these repairs as source facts.

Statement (properties.jsonl), split into the parts below:

 (A) "encode-then-decode is the identity with the documented fixed sizes" —
     `C18_enc_dec_id_{Round1,Round2,Round3,GarblerSession,EvaluatorSession}`,
     `C18_doc_len_concrete`.  Full strength (every curve name/width, every
     well-formed payload; point decompression abstract).
 (B) "malformed bytes are rejected with an error, never a crash" —
       `C18_dec_total_*`: no decoder crashes on ANY bytes (every Go slice/index
         expression is a checked operation of the model).  Full strength.
       `C18_dec_canonical_*` (all five decoders): decode b = ok m implies that m
         is well formed and encode m = b.  So the decoders accept EXACTLY the
         image of the encoders: nothing malformed is accepted, no two byte
         strings decode to the same value.  Full strength (Round2 under the
         stated soundness of decompression).  `C18_accepted_has_doc_len`: every
         accepted input has exactly the documented size; `C18_chunk_canonical`:
         a length prefix is accepted in its minimal form only.
       `C18_rounds_no_crash`: rounds 2, 3, 4 never crash, on any state and any
         message (in particular on everything the decoders accept);
         `C18_offcurve_state_rejected`: stored points that are not on the curve
         are an error of the round.
 (C) "messages of another session or curve ... are rejected with an error" —
     `C18_session_mismatch_rejected`, `C18_curve_mismatch_rejected`.
 (D) "Serialising any round message or either party's session state and
     continuing from the decoded copy ... gives the same result" —
     `C18_resume_eq` (every round boundary, either party), with
     `C18_round3_output_wf` for the message that is produced, not given.
 (E) "the four-round protocol makes the evaluator output SHA-256(a xor b)" —
     `C18_sha2pc_correct_given_circuit_partial`: the evaluator outputs the
     embedded circuit's function of (a, b), for every group, KDF, hash,
     well-formed circuit and all randomness (composition of `Mpc.C01_decode`
     and `Mpc.C06_co_delivers`).  PARTIAL: that the embedded 127806-gate
     circuit's function is SHA-256(a xor b) is validated on every run (Go
     `Circuit.Compute`, the harness's evaluator and the Lean `Circuit.compute`
     on the parsed file against crypto/sha256), not proved.
-/
import MpcVerif.Proofs.Sha2pcCorrect

namespace Mpc
open Mpc.Sha2pc

/-! ## (A) decode ∘ encode = id, documented sizes -/

theorem C18_enc_dec_id_Round1 (c : Curve) (hc : c.WF) (m : Round1) (hm : m.WF c) :
    ∃ enc, encodeRound1 c m = .ok enc ∧ decodeRound1 c enc = .ok m ∧
      enc.length = 2 + 8 + 1 + c.name.length + 2 * c.byteLen :=
  ⟨_, encodeRound1_eq c m hm.name, decodeRound1_encode c hc m hm _ (encodeRound1_eq c m hm.name),
    encodeRound1_length c hc m _ (encodeRound1_eq c m hm.name)⟩

theorem C18_enc_dec_id_Round2 (c : Curve) (hc : c.WF) (m : Round2) (hm : m.WF c) :
    ∃ enc, encodeRound2 c m = .ok enc ∧ decodeRound2 c enc = .ok m ∧
      enc.length = 2 + 8 + 1 + c.name.length + nBits * c.byteLen + signBytes :=
  ⟨_, encodeRound2_eq c m hm.count, decodeRound2_encode c hc m hm _ (encodeRound2_eq c m hm.count),
    encodeRound2_length c hc m _ (encodeRound2_eq c m hm.count)⟩

theorem C18_enc_dec_id_Round3 (counts : List Nat) (m : Round3) (hm : m.WF counts) :
    ∃ enc, encodeRound3 counts m = .ok enc ∧ decodeRound3 counts enc = .ok m ∧ enc.length = round3Len counts :=
  ⟨_, encodeRound3_eq counts m hm, decodeRound3_encode counts m hm _ (encodeRound3_eq counts m hm),
    round3_body_length counts m hm⟩

theorem C18_enc_dec_id_GarblerSession (c : Curve) (hc : c.WF) (s : GarblerSession) (hs : s.WF c) :
    ∃ enc, encodeGarblerSession c s = .ok enc ∧ decodeGarblerSession c enc = .ok s ∧
      enc.length = 2 + 8 + (putUvarint (1 + c.name.length + 5 * c.byteLen)).length +
        (1 + c.name.length + 5 * c.byteLen) := by
  have he : ∃ enc, encodeGarblerSession c s = .ok enc := by
    unfold encodeGarblerSession
    rw [encodeSenderSetup_eq c s hs.name]
    exact ⟨_, rfl⟩
  obtain ⟨enc, he⟩ := he
  exact ⟨enc, he, decodeGarblerSession_encode c hc s hs enc he, encodeGarblerSession_length c hc s enc he⟩

theorem C18_enc_dec_id_EvaluatorSession (c : Curve) (hc : c.WF) (s : EvaluatorSession) (hs : s.WF c) :
    ∃ enc, encodeEvaluatorSession c s = .ok enc ∧ decodeEvaluatorSession c enc = .ok s ∧
      enc.length = 2 + 8 + (putUvarint (1 + c.name.length + 2 * c.byteLen + nBits * c.byteLen + signBytes)).length +
        (1 + c.name.length + 2 * c.byteLen + nBits * c.byteLen + signBytes) := by
  have he : ∃ enc, encodeEvaluatorSession c s = .ok enc := by
    unfold encodeEvaluatorSession
    rw [encodeChoiceBundle_eq c s hs]
    exact ⟨_, rfl⟩
  obtain ⟨enc, he⟩ := he
  exact ⟨enc, he, decodeEvaluatorSession_encode c hc s hs enc he, encodeEvaluatorSession_length c hc s hs enc he⟩

/-- The sizes pinned by sha2pc_test.go (`TestPayloadSizesByCurve`: 80 / 8240 /
178 / 8306 bytes on P-256, 72 / 7216 / 158 / 7274 on P-224, 707146 for round 3)
and measured by the harness on P-384 and P-521 are the model's formulas for a
5-byte curve name and field widths 32, 28, 48, 66 and 42914 table labels. -/
theorem C18_doc_len_concrete :
    (2 + 8 + 1 + 5 + 2 * 32 = 80 ∧ 2 + 8 + 1 + 5 + nBits * 32 + signBytes = 8240 ∧
      2 + 8 + (putUvarint (1 + 5 + 5 * 32)).length + (1 + 5 + 5 * 32) = 178 ∧
      2 + 8 + (putUvarint (1 + 5 + 2 * 32 + nBits * 32 + signBytes)).length + (1 + 5 + 2 * 32 + nBits * 32 + signBytes) = 8306) ∧
    (2 + 8 + 1 + 5 + 2 * 28 = 72 ∧ 2 + 8 + 1 + 5 + nBits * 28 + signBytes = 7216 ∧
      2 + 8 + (putUvarint (1 + 5 + 5 * 28)).length + (1 + 5 + 5 * 28) = 158 ∧
      2 + 8 + (putUvarint (1 + 5 + 2 * 28 + nBits * 28 + signBytes)).length + (1 + 5 + 2 * 28 + nBits * 28 + signBytes) = 7274) ∧
    (2 + 8 + 1 + 5 + 2 * 48 = 112 ∧ 2 + 8 + (putUvarint (1 + 5 + 5 * 48)).length + (1 + 5 + 5 * 48) = 258 ∧
      2 + 8 + (putUvarint (1 + 5 + 2 * 48 + nBits * 48 + signBytes)).length + (1 + 5 + 2 * 48 + nBits * 48 + signBytes) = 12434) ∧
    (2 + 8 + 1 + 5 + 2 * 66 = 148 ∧ 2 + 8 + (putUvarint (1 + 5 + 5 * 66)).length + (1 + 5 + 5 * 66) = 348 ∧
      2 + 8 + (putUvarint (1 + 5 + 2 * 66 + nBits * 66 + signBytes)).length + (1 + 5 + 2 * 66 + nBits * 66 + signBytes) = 17079) ∧
    (∀ counts : List Nat, counts.sum = 42914 → round3Len counts = 707146) := by
  refine ⟨?_, ?_, ?_, ?_, ?_⟩
  · simp [nBits, signBytes, putUvarint_length_two, putUvarint_length_two 8294 (by omega) (by omega)]
  · simp [nBits, signBytes, putUvarint_length_two]
  · simp [nBits, signBytes, putUvarint_length_two]
  · simp [nBits, signBytes, putUvarint_length_two, putUvarint_length_three]
  · intro counts h; simp [round3Len, h, keyLen, labelLen, nBits]

/-! ## (B) totality: no decoder crashes, on any input -/

theorem C18_dec_total_Round1 (c : Curve) (data : Bytes) : decodeRound1 c data ≠ .panic :=
  decodeRound1_noPanic c data
theorem C18_dec_total_Round2 (c : Curve) (data : Bytes) : decodeRound2 c data ≠ .panic :=
  decodeRound2_noPanic c data
theorem C18_dec_total_Round3 (counts : List Nat) (data : Bytes) : decodeRound3 counts data ≠ .panic :=
  decodeRound3_noPanic counts data
theorem C18_dec_total_GarblerSession (c : Curve) (data : Bytes) : decodeGarblerSession c data ≠ .panic :=
  decodeGarblerSession_noPanic c data
theorem C18_dec_total_EvaluatorSession (c : Curve) (data : Bytes) : decodeEvaluatorSession c data ≠ .panic :=
  decodeEvaluatorSession_noPanic c data

/-! ## (B) the decoders accept exactly the image of the encoders -/

theorem C18_dec_canonical_Round1 (c : Curve) (data : Bytes) (m : Round1) (h : decodeRound1 c data = .ok m) :
    encodeRound1 c m = .ok data ∧ m.WF c :=
  encodeRound1_decode c data m h

/-- `hp`: `elliptic.UnmarshalCompressed` returns the ordinate with the requested
parity (the driver's instance does; the Go function selects the root by its low
bit). -/
theorem C18_dec_canonical_Round2 (c : Curve) (hp : c.ParitySound) (data : Bytes) (m : Round2)
    (h : decodeRound2 c data = .ok m) : encodeRound2 c m = .ok data ∧ m.WF c :=
  encodeRound2_decode c hp data m h

theorem C18_dec_canonical_Round3 (counts : List Nat) (data : Bytes) (m : Round3)
    (h : decodeRound3 counts data = .ok m) : encodeRound3 counts m = .ok data ∧ m.WF counts :=
  encodeRound3_decode counts data m h

theorem C18_dec_canonical_GarblerSession (c : Curve) (data : Bytes) (s : GarblerSession)
    (h : decodeGarblerSession c data = .ok s) : encodeGarblerSession c s = .ok data ∧ s.WF c :=
  encodeGarblerSession_decode c data s h

theorem C18_dec_canonical_EvaluatorSession (c : Curve) (data : Bytes) (s : EvaluatorSession)
    (h : decodeEvaluatorSession c data = .ok s) : encodeEvaluatorSession c s = .ok data ∧ s.WF c :=
  encodeEvaluatorSession_decode c data s h

/-- Every accepted input has exactly the documented size: trailing bytes,
truncations and padded length prefixes are all rejected. -/
theorem C18_accepted_has_doc_len (c : Curve) (hc : c.WF) (counts : List Nat) (data : Bytes) :
    (∀ m, decodeRound1 c data = .ok m → data.length = 2 + 8 + 1 + c.name.length + 2 * c.byteLen) ∧
    (∀ m, c.ParitySound → decodeRound2 c data = .ok m →
        data.length = 2 + 8 + 1 + c.name.length + nBits * c.byteLen + signBytes) ∧
    (∀ m, decodeRound3 counts data = .ok m → data.length = round3Len counts) ∧
    (∀ s, decodeGarblerSession c data = .ok s →
        data.length = 2 + 8 + (putUvarint (1 + c.name.length + 5 * c.byteLen)).length +
          (1 + c.name.length + 5 * c.byteLen)) ∧
    (∀ s, decodeEvaluatorSession c data = .ok s →
        data.length = 2 + 8 + (putUvarint (1 + c.name.length + 2 * c.byteLen + nBits * c.byteLen + signBytes)).length +
          (1 + c.name.length + 2 * c.byteLen + nBits * c.byteLen + signBytes)) := by
  refine ⟨?_, ?_, ?_, ?_, ?_⟩
  · intro m h
    exact encodeRound1_length c hc m data (encodeRound1_decode c data m h).1
  · intro m hp h
    exact encodeRound2_length c hc m data (encodeRound2_decode c hp data m h).1
  · intro m h
    obtain ⟨h1, h2⟩ := encodeRound3_decode counts data m h
    rw [encodeRound3_eq counts m h2] at h1
    cases h1
    exact round3_body_length counts m h2
  · intro s h
    exact encodeGarblerSession_length c hc s data (encodeGarblerSession_decode c data s h).1
  · intro s h
    obtain ⟨h1, h2⟩ := encodeEvaluatorSession_decode c data s h
    exact encodeEvaluatorSession_length c hc s h2 data h1

/-- `readChunk` accepts a length prefix in its minimal (`PutUvarint`) form only;
e.g. the two-byte form `85 00` of 5 is an error. -/
theorem C18_chunk_canonical :
    (∀ r d r', readChunk r = .ok (d, r') → r = writeChunk d ++ r') ∧
    (∀ rest, readChunk (0x85 :: 0x00 :: rest) = .error) := by
  refine ⟨readChunk_ok, ?_⟩
  intro rest
  have hu : readUvarint (0x85 :: 0x00 :: rest) = .ok (5, rest) := by simp [readUvarint, readUvarintGo]
  have hp : putUvarint 5 = [5] := by rw [putUvarint]; simp
  unfold readChunk
  rw [hu]
  simp only [Res.ok_bind]
  rw [if_pos (by rw [hp]; simp only [List.length_cons, List.length_nil]; omega)]

/-! ## (B) no round crashes -/

/-- Rounds 2, 3 and 4 never crash: every use of a stored or received point is
preceded by `ensureOnCurve`. -/
theorem C18_rounds_no_crash {G : Type} (P : Params G) :
    (∀ (msg : Round1) (b : Bytes) (scalars : List Nat), round2 P msg b scalars ≠ .panic) ∧
    (∀ (st : GarblerSession) (a : Bytes) (req : Round2) (key : Bytes) (r0 : Label) (inl : Nat → Label),
        round3 P st a req key r0 inl ≠ .panic) ∧
    (∀ (st : EvaluatorSession) (msg : Round3), round4 P st msg ≠ .panic) :=
  ⟨fun msg b scalars => round2_noPanic P msg b scalars,
   fun st a req key r0 inl => round3_noPanic P st a req key r0 inl,
   fun st msg => round4_noPanic P st msg⟩

/-- A stored sender point (evaluator) or `A^{-a}` (garbler) that is not on the
curve makes the round return an error. -/
theorem C18_offcurve_state_rejected {G : Type} (P : Params G) :
    (∀ (st : EvaluatorSession) (msg : Round3), P.crypto.ofPt ⟨st.ax, st.ay⟩ = none → round4 P st msg = .error) ∧
    (∀ (st : GarblerSession) (choices : List Point) (wires : Nat → Label × Label) (n : Nat),
        P.crypto.ofPt ⟨st.ainvx, st.ainvy⟩ = none → encryptCO P.crypto st choices wires n = .error) :=
  ⟨fun st msg h => round4_offcurve_error P st msg h,
   fun st choices wires n h => encryptCO_offcurve_error P.crypto st choices wires n h⟩

/-! ## (C) foreign session, foreign curve -/

/-- A round-2 message of another session is rejected by `GarblerRound3`, a
round-3 message of another session by `EvaluatorRound4`, whatever else they
contain; and the session id both check against is the one chosen in round 1
(`round2_sid`, `round3_sid`). -/
theorem C18_session_mismatch_rejected {G : Type} (P : Params G) :
    (∀ (st : GarblerSession) (a : Bytes) (req : Round2) (key : Bytes) (r0 : Label) (inl : Nat → Label),
        req.sid ≠ st.sid → round3 P st a req key r0 inl = .error) ∧
    (∀ (st : EvaluatorSession) (msg : Round3), msg.sid ≠ st.sid → round4 P st msg = .error) ∧
    (∀ (msg : Round1) (b : Bytes) (scalars : List Nat) (m2 : Round2) (es : EvaluatorSession),
        round2 P msg b scalars = .ok (m2, es) → m2.sid = msg.sid ∧ es.sid = msg.sid) :=
  ⟨fun st a req key r0 inl h => round3_sid_mismatch P st a req key r0 inl h,
   fun st msg h => round4_sid_mismatch P st msg h,
   fun msg b scalars m2 es h => round2_sid P msg b scalars m2 es h⟩

/-- Every encoding that carries a curve name (round 1, round 2, both session
states) is rejected by the decoder of a curve with a different name.  (Round 3 carries no curve; a round-3 message of a session
on another curve has another session id, see above.) -/
theorem C18_curve_mismatch_rejected (c c' : Curve) (hc' : c'.WF) (hne : c'.name ≠ c.name) :
    (∀ (m : Round1) (enc extra : Bytes), m.sid < 2 ^ 64 → encodeRound1 c' m = .ok enc →
        decodeRound1 c (enc ++ extra) = .error) ∧
    (∀ (m : Round2) (enc : Bytes), m.sid < 2 ^ 64 → encodeRound2 c' m = .ok enc → decodeRound2 c enc = .error) ∧
    (∀ (s : GarblerSession) (enc : Bytes), s.sid < 2 ^ 64 → encodeGarblerSession c' s = .ok enc →
        decodeGarblerSession c enc = .error) ∧
    (∀ (s : EvaluatorSession) (enc : Bytes), s.WF c' → encodeEvaluatorSession c' s = .ok enc →
        decodeEvaluatorSession c enc = .error) :=
  ⟨fun m enc extra hs he => decodeRound1_other_curve c c' hc' m hs enc extra he hne,
   fun m enc hs he => decodeRound2_other_curve c c' hc' m hs enc he hne,
   fun s enc hs he => decodeGarblerSession_other_curve c c' hc' s hs enc he hne,
   fun s enc hs he => decodeEvaluatorSession_other_curve c c' hc' s hs enc he hne⟩

/-! ## (D) resumption -/

/-- Every round boundary, either party: the round run from the BYTES of the
stored session and of the received message (`round2B`, `round3B`, `round4B`
decode first) equals the round run from the in-memory values, for all inputs
and all randomness.  Garbler between rounds 1 and 3; evaluator before round 2
and between rounds 2 and 4. -/
theorem C18_resume_eq {G : Type} (P : Params G) (hc : P.curve.WF) :
    (∀ (msg : Round1) (r1b : Bytes) (b : Bytes) (scalars : List Nat), msg.WF P.curve →
        encodeRound1 P.curve msg = .ok r1b →
        round2B P r1b b scalars = (round2 P msg b scalars >>= fun r =>
          encodeRound2 P.curve r.1 >>= fun r2b => encodeEvaluatorSession P.curve r.2 >>= fun esb => pure (r2b, esb))) ∧
    (∀ (st : GarblerSession) (req : Round2) (gsb r2b a key : Bytes) (r0 : Label) (inl : Nat → Label),
        st.WF P.curve → req.WF P.curve → encodeGarblerSession P.curve st = .ok gsb →
        encodeRound2 P.curve req = .ok r2b →
        round3B P gsb a r2b key r0 inl = (round3 P st a req key r0 inl >>= encodeRound3 (countsOf P.circ))) ∧
    (∀ (st : EvaluatorSession) (msg : Round3) (esb r3b : Bytes), st.WF P.curve → msg.WF (countsOf P.circ) →
        encodeEvaluatorSession P.curve st = .ok esb → encodeRound3 (countsOf P.circ) msg = .ok r3b →
        round4B P esb r3b = round4 P st msg) :=
  ⟨fun msg r1b b scalars hm h1 => round2B_eq P hc msg hm r1b h1 b scalars,
   fun st req gsb r2b a key r0 inl hst hreq hg h2 => round3B_eq P hc st hst req hreq gsb r2b hg h2 a key r0 inl,
   fun st msg esb r3b hst hmsg he h3 => round4B_eq P hc st hst msg hmsg esb r3b he h3⟩

/-- The round-3 message the garbler produces is well formed for the circuit's
row counts (so `C18_enc_dec_id_Round3` and `C18_resume_eq` apply to it). -/
theorem C18_round3_output_wf {G : Type} (P : Params G) (st : GarblerSession) (a : Bytes) (req : Round2) (key : Bytes)
    (r0 : Label) (inl : Nat → Label) (m3 : Round3) (hsid : st.sid < 2 ^ 64) (hkey : key.length = keyLen)
    (hout : P.circ.nOut = nBits) (h : round3 P st a req key r0 inl = .ok m3) : m3.WF (countsOf P.circ) :=
  round3_WF P st a req key r0 inl m3 hsid hkey hout h

/-! ## (E) correctness given the circuit -/

/-- FULL STATEMENT (not proved): `... round4 P es m3 = .ok (SHA-256 (a xor b))`.
PROVED: the evaluator's output is the little-endian packing of the plain
evaluation of the embedded circuit on `bits a ++ bits b`; for every curve
group, KDF, key-to-hash map, well-formed circuit with 256+256 inputs and 256
defined outputs, all inputs, all randomness for which no point is the point
at infinity (probability about 2⁻²⁵⁶ per point on the real curves; the real
code returns `ErrPointNotOnCurve` then).  MISSING: `circ.compute` = SHA-256 ∘ xor
for the embedded circuit (validated by evaluation on every run). -/
theorem C18_sha2pc_correct_given_circuit_partial {G : Type} (P : Params G) (a b : Bytes) (aS sid : Nat)
    (scalars : List Nat) (key : Bytes) (r0 : Label) (inl : Nat → Label)
    (hwf : P.circ.WF = true) (hnin : P.circ.nIn = nBits + nBits) (hnout : P.circ.nOut = nBits)
    (hod : P.circ.outputsDefined = true) (ha : a.length = 32) (hb : b.length = 32)
    (hA : P.crypto.onCurve (Co.senderSetup P.crypto.Γ P.crypto.g aS).A)
    (hI : P.crypto.onCurve (Co.senderSetup P.crypto.Γ P.crypto.g aS).AaInv)
    (hP : ∀ i, i < nBits → P.crypto.onCurve (Co.choicePoint P.crypto.Γ P.crypto.g
      (Co.senderSetup P.crypto.Γ P.crypto.g aS).A (scalars.getD i 0) ((bytesToBits b).getD i false))) :
    ∃ m2 es m3, round2 P (round1 P aS sid).1 b scalars = .ok (m2, es) ∧
      round3 P (round1 P aS sid).2 a m2 key r0 inl = .ok m3 ∧
      round4 P es m3 = .ok (bitsToBytes (P.circ.compute (bytesToBits a ++ bytesToBits b))) :=
  correct_given_circuit P a b aS sid scalars key r0 inl hwf hnin hnout hod ha hb hA hI hP

/-! ## Non-vacuity -/

/-- A toy curve: name "T", one-byte field, every abscissa decompresses to 1 (odd) or 2 (even). -/
def toyCurve : Curve := { name := [0x54], byteLen := 1, decompress := fun _ odd => some (if odd then 1 else 2) }

example : toyCurve.WF := ⟨by decide, by decide, by decide, by decide⟩

def toyR1 : Round1 := { sid := 7, curveName := [0x54], ax := 200, ay := 3 }
instance (c : Curve) (v : Nat) : Decidable (fits c v) := by unfold fits; infer_instance

example : toyR1.WF toyCurve := ⟨by decide, rfl, by decide, by decide⟩
/-- the documented encoding; the same with a trailing byte, with the two-byte
length prefix `81 00`, and one byte short are all errors. -/
example : encodeRound1 toyCurve toyR1 = .ok [0x52, 0x31, 0, 0, 0, 0, 0, 0, 0, 7, 1, 0x54, 200, 3] := by decide +kernel
example : decodeRound1 toyCurve [0x52, 0x31, 0, 0, 0, 0, 0, 0, 0, 7, 1, 0x54, 200, 3] = .ok toyR1 := by
  decide +kernel
example : decodeRound1 toyCurve [0x52, 0x31, 0, 0, 0, 0, 0, 0, 0, 7, 1, 0x54, 200, 3, 0xff] = .error := by
  decide +kernel
example : decodeRound1 toyCurve [0x52, 0x31, 0, 0, 0, 0, 0, 0, 0, 7, 0x81, 0, 0x54, 200, 3] = .error := by
  decide +kernel
example : toyCurve.ParitySound := by
  intro x odd y h
  simp only [toyCurve, Option.some.injEq] at h
  subst h
  cases odd <;> decide
example : decodeRound1 toyCurve [0x52, 0x31, 0, 0, 0, 0, 0, 0, 0, 7, 1, 0x54, 200] = .error := by decide +kernel

def toyGS : GarblerSession := { sid := 9, curveName := [0x54], scalar := 5, ax := 1, ay := 2, ainvx := 3, ainvy := 4 }
example : toyGS.WF toyCurve := ⟨by decide, rfl, by decide, by decide, by decide, by decide, by decide⟩

def toyR2 : Round2 := { sid := 1, curveName := [0x54], choices := List.replicate 256 ⟨9, 1⟩ }
example : toyR2.WF toyCurve :=
  ⟨by decide, rfl, List.length_replicate ..,
   fun p hp => by rw [List.eq_of_mem_replicate hp]; decide,
   fun p hp => by rw [List.eq_of_mem_replicate hp]; rfl⟩

def toyES : EvaluatorSession :=
  { sid := 2, curveName := [0x54], ax := 1, ay := 2, scalars := List.replicate 256 77, bits := List.replicate 256 true }
example : toyES.WF toyCurve :=
  ⟨by decide, rfl, by decide, by decide, List.length_replicate ..,
   fun v hv => by rw [List.eq_of_mem_replicate hv]; decide, List.length_replicate ..⟩

/-- A round-3 payload for a two-gate circuit (AND, XOR: counts 2, 0). -/
def toyR3 : Round3 :=
  { sid := 3, key := List.replicate 32 0xAB, tables := [[1#128, 2#128], []], inputs := List.replicate 256 5#128,
    hints := List.replicate 256 (6#128, 7#128), cts := List.replicate 256 (8#128, 9#128) }
example : toyR3.WF [2, 0] :=
  ⟨by decide, List.length_replicate .., rfl, List.length_replicate .., List.length_replicate .., List.length_replicate ..⟩

/-- A toy "curve group" for the round theorems: the integers mod 7, coordinates
`(k, 0)`; `(x, y)` with `y ≠ 0` or `x ≥ 7` is "not on the curve". -/
def toyCrypto : Crypto (Fin 7) where
  Γ := zmod7
  g := 1
  kdf := fun p i => BitVec.ofNat 128 (p.val * 1000 + i)
  toPt := fun p => ⟨p.val, 0⟩
  ofPt := fun q => if h : q.x < 7 ∧ q.y = 0 then some ⟨q.x, h.1⟩ else none
  ofPt_some := by
    intro q p h
    split at h
    · rename_i hq
      cases h
      cases q
      simp only at hq
      simp [hq.2]
    · cases h

theorem toyCrypto_onCurve (p : Fin 7) : toyCrypto.onCurve p := by
  unfold Crypto.onCurve toyCrypto
  simp

/-- 256 XOR gates: output bit `i` = `a_i xor b_i` (a 512-input, 256-output circuit). -/
def toyCircuit : Circuit :=
  { numWires := 768, nIn := 512, nOut := 256,
    gates := (List.range 256).map fun i => ⟨.xor, i, 256 + i, 512 + i⟩ }

def toyParams : Params (Fin 7) :=
  { curve := toyCurve, crypto := toyCrypto, circ := toyCircuit, hashOf := fun _ => hashOf id }

example : toyCircuit.WF = true := by decide +kernel
example : toyCircuit.outputsDefined = true := by decide +kernel

/-- The hypotheses of the composition theorem are satisfiable; its conclusion
for the toy instance. -/
example (a b : Bytes) (ha : a.length = 32) (hb : b.length = 32) (key : Bytes) (r0 : Label) (inl : Nat → Label) :
    ∃ m2 es m3, round2 toyParams (round1 toyParams 3 42).1 b [] = .ok (m2, es) ∧
      round3 toyParams (round1 toyParams 3 42).2 a m2 key r0 inl = .ok m3 ∧
      round4 toyParams es m3 = .ok (bitsToBytes (toyCircuit.compute (bytesToBits a ++ bytesToBits b))) :=
  C18_sha2pc_correct_given_circuit_partial toyParams a b 3 42 [] key r0 inl (by decide +kernel) rfl rfl
    (by decide +kernel) ha hb (toyCrypto_onCurve _) (toyCrypto_onCurve _) (fun _ _ => toyCrypto_onCurve _)

/-- Off-curve coordinates exist in the toy group: `(1, 1)` is not a curve point. -/
example : toyCrypto.ofPt ⟨1, 1⟩ = none ∧ (toyCrypto.ofPt ⟨1, 0⟩).isSome := by decide

end Mpc

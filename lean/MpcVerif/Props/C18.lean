/-
C18  SHA256(XOR) protocol: correct, resumable, canonical encodings.

Property theorems only.  Model: Model/Sha2pc.lean (the five encoders/decoders
of sha2pc/encoding.go at byte level; executed by `drv_c18` and compared with
the Go code on every run, including all mutation outcomes) and
Model/Sha2pcRounds.lean (the four round functions over an abstract curve
group, the Chou-Orlandi model of C06 and the garbling model of C01).

The model is the code of /repo at and after the five repairs 0e7671a (round 4
checks the stored sender point), 68f93f2 (round 3 checks the stored A^{-a}),
d9a1171 (decoders reject trailing bytes), 2eb87d5 (bit field read with
io.ReadFull), 217fb4c (readChunk rejects padded length prefixes); the check
requires these repairs as source facts.

Statement (properties.jsonl), split into the parts below:

 (A) "encode-then-decode is the identity with the documented fixed sizes" —
     `C18_enc_dec_id_{Round1,Round2,Round3,GarblerSession,EvaluatorSession}`,
     `C18_doc_len_concrete`.  Full strength (every curve name/width, every
     well-formed payload; point decompression abstract).
 (B) "malformed bytes are rejected with an error, never a crash" —
       `C18_dec_total_*`: no decoder crashes on ANY bytes (every Go slice/index
         expression is a checked operation of the model).  Full strength.
       `C18_dec_canonical_*` (all five decoders): decode b = ok m implies that m
         is well formed and encode m = b.  So the decoders accept EXACTLY the
         image of the encoders: nothing malformed is accepted, no two byte
         strings decode to the same value.  Full strength (Round2 under the
         stated soundness of decompression).  `C18_accepted_has_doc_len`: every
         accepted input has exactly the documented size; `C18_chunk_canonical`:
         a length prefix is accepted in its minimal form only.
       `C18_rounds_no_crash`: rounds 2, 3, 4 never crash, on any state and any
         message (in particular on everything the decoders accept);
         `C18_offcurve_state_rejected`: stored points that are not on the curve
         are an error of the round.
 (C) "messages of another session or curve ... are rejected with an error" —
     `C18_session_mismatch_rejected`, `C18_curve_mismatch_rejected`.
 (D) "Serialising any round message or either party's session state and
     continuing from the decoded copy ... gives the same result" —
     `C18_resume_eq` (every round boundary, either party), with
     `C18_round3_output_wf` for the message that is produced, not given.
 (F) "for all inputs ... every supported curve ... as after a process restart
     between any two rounds": the quantifier is over EVERY session, and one
     garbler / evaluator process serves many.  Model/Sha2pcProc.lean: a process
     holding the messages and states of several sessions (same or different
     curves), a HISTORY = any interleaving of the sessions' round steps, every
     input of every step consumed in memory or through bytes.
     Steps may FAIL for reasons outside the session ("malformed bytes are
     rejected with an error", and every other session -- and the failed one,
     on a retry -- must still be correct): an event carries an optional
     disturbance (`Dist`: the round's random source fails at a byte offset, the
     message arrives cut / extended, the message or state of another session is
     fed to the round); `Proc.stepD`: a step that does not succeed leaves the
     whole process state as it was.
       `C18_hist_frame`: a step of one session, disturbed or not (and any
         history without steps of session j), leaves every slot of every other
         session (of j) as it was; a step that does not succeed leaves the
         WHOLE process as it was.
       `C18_hist_failures_erased`: every history ends in the state of the
         history of its successful events; when the disturbed events fail
         (`Proc.DistFail`) that is the failure-free history of the undisturbed
         events (induction over the schedule).
       `C18_hist_isolation`: the state of session j after ANY such history is
         the state its own undisturbed steps produce alone.
       `C18_hist_complete_session`: (any round functions) a session whose own
         undisturbed steps are round 1, 2, 3 and then round 4 any positive
         number of times ends, inside every history, whatever failed in
         between (its own rounds included: retry), with exactly the values of
         its isolated run in every slot.
       `C18_hist_faults_rejected`: for the sha2pc rounds a failing random
         source and a message cut or extended in transit fail in EVERY state
         (so `Proc.DistFail` holds for every history with these disturbances);
         a foreign message / state fails when the session ids differ.
       `C18_hist_correct_partial`: `C18_hist_complete_session` for the sha2pc
         rounds: in every history with failing steps, every complete session's
         result is the embedded circuit's function of ITS inputs (PARTIAL in
         the same sense as (E)).
     The real process is tied to this model by the `hist` correspondence: the
     status of every step and the whole process state (deep hash of every live
     message / session object) after every step of a history executed on the
     real code equal `Proc.runD` of the model on the same schedule.
 (G) "for all inputs ... every supported curve": the quantifier is over every
     EXECUTION, and an execution has a hidden parameter, the environment of the
     Go runtime (number of CPUs / GOMAXPROCS, collector setting, word size); a
     process restarted between two rounds may come up in another one.
     Model/Sha2pcEnv.lean: an implementation = round functions indexed by the
     environment, a history assigns an environment to every step.
       `C18_env_model_has_no_parameter`: the model's round functions are the
         constant family -- the explicit statement that (A)-(F) were proved
         for functions of (inputs, randomness, messages) only.
       `C18_env_hist_eq`: an implementation that agrees with the model in the
         environments of a history runs the environment-free history (state
         and status of every step), so (F) transfers.
       `C18_env_correct_partial`: (F)'s result under every per-step environment
         assignment, GIVEN that agreement -- the ASSUMPTION about the real
         code.  Its tie is the `env` mode of the harness (obligation of the
         check): the same sessions / histories on the real code with
         GOMAXPROCS in {1,2,3,5,7,12,16,24,61,...} and the collector off / 100
         / 1 set around every step, compared with `Proc.runE` of the constant
         family (op `histe`).  The word size cannot be varied: /repo does not
         compile for a 32-bit GOARCH (p2p/network.go).
       `C18_env_dependence_witness`: the assumption is needed, and correct
         runs in some environments say nothing about the others (work split
         over `procs` workers, remainder dropped: right whenever procs divides
         the batch).
 (E) "the four-round protocol makes the evaluator output SHA-256(a xor b)" —
     `C18_sha2pc_correct_given_circuit_partial`: the evaluator outputs the
     embedded circuit's function of (a, b), for every group, KDF, hash,
     well-formed circuit and all randomness (composition of `Mpc.C01_decode`
     and `Mpc.C06_co_delivers`).  PARTIAL: that the embedded 127806-gate
     circuit's function is SHA-256(a xor b) is validated on every run (Go
     `Circuit.Compute`, the harness's evaluator and the Lean `Circuit.compute`
     on the parsed file against crypto/sha256), not proved.
-/
import MpcVerif.Proofs.Sha2pcCorrect
import MpcVerif.Proofs.Sha2pcProc
import MpcVerif.Proofs.Sha2pcEnv

namespace Mpc
open Mpc.Sha2pc

/-! ## (A) decode ∘ encode = id, documented sizes -/

theorem C18_enc_dec_id_Round1 (c : Curve) (hc : c.WF) (m : Round1) (hm : m.WF c) :
    ∃ enc, encodeRound1 c m = .ok enc ∧ decodeRound1 c enc = .ok m ∧
      enc.length = 2 + 8 + 1 + c.name.length + 2 * c.byteLen :=
  ⟨_, encodeRound1_eq c m hm.name, decodeRound1_encode c hc m hm _ (encodeRound1_eq c m hm.name),
    encodeRound1_length c hc m _ (encodeRound1_eq c m hm.name)⟩

theorem C18_enc_dec_id_Round2 (c : Curve) (hc : c.WF) (m : Round2) (hm : m.WF c) :
    ∃ enc, encodeRound2 c m = .ok enc ∧ decodeRound2 c enc = .ok m ∧
      enc.length = 2 + 8 + 1 + c.name.length + nBits * c.byteLen + signBytes :=
  ⟨_, encodeRound2_eq c m hm.count, decodeRound2_encode c hc m hm _ (encodeRound2_eq c m hm.count),
    encodeRound2_length c hc m _ (encodeRound2_eq c m hm.count)⟩

theorem C18_enc_dec_id_Round3 (counts : List Nat) (m : Round3) (hm : m.WF counts) :
    ∃ enc, encodeRound3 counts m = .ok enc ∧ decodeRound3 counts enc = .ok m ∧ enc.length = round3Len counts :=
  ⟨_, encodeRound3_eq counts m hm, decodeRound3_encode counts m hm _ (encodeRound3_eq counts m hm),
    round3_body_length counts m hm⟩

theorem C18_enc_dec_id_GarblerSession (c : Curve) (hc : c.WF) (s : GarblerSession) (hs : s.WF c) :
    ∃ enc, encodeGarblerSession c s = .ok enc ∧ decodeGarblerSession c enc = .ok s ∧
      enc.length = 2 + 8 + (putUvarint (1 + c.name.length + 5 * c.byteLen)).length +
        (1 + c.name.length + 5 * c.byteLen) := by
  have he : ∃ enc, encodeGarblerSession c s = .ok enc := by
    unfold encodeGarblerSession
    rw [encodeSenderSetup_eq c s hs.name]
    exact ⟨_, rfl⟩
  obtain ⟨enc, he⟩ := he
  exact ⟨enc, he, decodeGarblerSession_encode c hc s hs enc he, encodeGarblerSession_length c hc s enc he⟩

theorem C18_enc_dec_id_EvaluatorSession (c : Curve) (hc : c.WF) (s : EvaluatorSession) (hs : s.WF c) :
    ∃ enc, encodeEvaluatorSession c s = .ok enc ∧ decodeEvaluatorSession c enc = .ok s ∧
      enc.length = 2 + 8 + (putUvarint (1 + c.name.length + 2 * c.byteLen + nBits * c.byteLen + signBytes)).length +
        (1 + c.name.length + 2 * c.byteLen + nBits * c.byteLen + signBytes) := by
  have he : ∃ enc, encodeEvaluatorSession c s = .ok enc := by
    unfold encodeEvaluatorSession
    rw [encodeChoiceBundle_eq c s hs]
    exact ⟨_, rfl⟩
  obtain ⟨enc, he⟩ := he
  exact ⟨enc, he, decodeEvaluatorSession_encode c hc s hs enc he, encodeEvaluatorSession_length c hc s hs enc he⟩

/-- The sizes pinned by sha2pc_test.go (`TestPayloadSizesByCurve`: 80 / 8240 /
178 / 8306 bytes on P-256, 72 / 7216 / 158 / 7274 on P-224, 707146 for round 3)
and measured by the harness on P-384 and P-521 are the model's formulas for a
5-byte curve name and field widths 32, 28, 48, 66 and 42914 table labels. -/
theorem C18_doc_len_concrete :
    (2 + 8 + 1 + 5 + 2 * 32 = 80 ∧ 2 + 8 + 1 + 5 + nBits * 32 + signBytes = 8240 ∧
      2 + 8 + (putUvarint (1 + 5 + 5 * 32)).length + (1 + 5 + 5 * 32) = 178 ∧
      2 + 8 + (putUvarint (1 + 5 + 2 * 32 + nBits * 32 + signBytes)).length + (1 + 5 + 2 * 32 + nBits * 32 + signBytes) = 8306) ∧
    (2 + 8 + 1 + 5 + 2 * 28 = 72 ∧ 2 + 8 + 1 + 5 + nBits * 28 + signBytes = 7216 ∧
      2 + 8 + (putUvarint (1 + 5 + 5 * 28)).length + (1 + 5 + 5 * 28) = 158 ∧
      2 + 8 + (putUvarint (1 + 5 + 2 * 28 + nBits * 28 + signBytes)).length + (1 + 5 + 2 * 28 + nBits * 28 + signBytes) = 7274) ∧
    (2 + 8 + 1 + 5 + 2 * 48 = 112 ∧ 2 + 8 + (putUvarint (1 + 5 + 5 * 48)).length + (1 + 5 + 5 * 48) = 258 ∧
      2 + 8 + (putUvarint (1 + 5 + 2 * 48 + nBits * 48 + signBytes)).length + (1 + 5 + 2 * 48 + nBits * 48 + signBytes) = 12434) ∧
    (2 + 8 + 1 + 5 + 2 * 66 = 148 ∧ 2 + 8 + (putUvarint (1 + 5 + 5 * 66)).length + (1 + 5 + 5 * 66) = 348 ∧
      2 + 8 + (putUvarint (1 + 5 + 2 * 66 + nBits * 66 + signBytes)).length + (1 + 5 + 2 * 66 + nBits * 66 + signBytes) = 17079) ∧
    (∀ counts : List Nat, counts.sum = 42914 → round3Len counts = 707146) := by
  refine ⟨?_, ?_, ?_, ?_, ?_⟩
  · simp [nBits, signBytes, putUvarint_length_two, putUvarint_length_two 8294 (by omega) (by omega)]
  · simp [nBits, signBytes, putUvarint_length_two]
  · simp [nBits, signBytes, putUvarint_length_two]
  · simp [nBits, signBytes, putUvarint_length_two, putUvarint_length_three]
  · intro counts h; simp [round3Len, h, keyLen, labelLen, nBits]

/-! ## (B) totality: no decoder crashes, on any input -/

theorem C18_dec_total_Round1 (c : Curve) (data : Bytes) : decodeRound1 c data ≠ .panic :=
  decodeRound1_noPanic c data
theorem C18_dec_total_Round2 (c : Curve) (data : Bytes) : decodeRound2 c data ≠ .panic :=
  decodeRound2_noPanic c data
theorem C18_dec_total_Round3 (counts : List Nat) (data : Bytes) : decodeRound3 counts data ≠ .panic :=
  decodeRound3_noPanic counts data
theorem C18_dec_total_GarblerSession (c : Curve) (data : Bytes) : decodeGarblerSession c data ≠ .panic :=
  decodeGarblerSession_noPanic c data
theorem C18_dec_total_EvaluatorSession (c : Curve) (data : Bytes) : decodeEvaluatorSession c data ≠ .panic :=
  decodeEvaluatorSession_noPanic c data

/-! ## (B) the decoders accept exactly the image of the encoders -/

theorem C18_dec_canonical_Round1 (c : Curve) (data : Bytes) (m : Round1) (h : decodeRound1 c data = .ok m) :
    encodeRound1 c m = .ok data ∧ m.WF c :=
  encodeRound1_decode c data m h

/-- `hp`: `elliptic.UnmarshalCompressed` returns the ordinate with the requested
parity (the driver's instance does; the Go function selects the root by its low
bit). -/
theorem C18_dec_canonical_Round2 (c : Curve) (hp : c.ParitySound) (data : Bytes) (m : Round2)
    (h : decodeRound2 c data = .ok m) : encodeRound2 c m = .ok data ∧ m.WF c :=
  encodeRound2_decode c hp data m h

theorem C18_dec_canonical_Round3 (counts : List Nat) (data : Bytes) (m : Round3)
    (h : decodeRound3 counts data = .ok m) : encodeRound3 counts m = .ok data ∧ m.WF counts :=
  encodeRound3_decode counts data m h

theorem C18_dec_canonical_GarblerSession (c : Curve) (data : Bytes) (s : GarblerSession)
    (h : decodeGarblerSession c data = .ok s) : encodeGarblerSession c s = .ok data ∧ s.WF c :=
  encodeGarblerSession_decode c data s h

theorem C18_dec_canonical_EvaluatorSession (c : Curve) (data : Bytes) (s : EvaluatorSession)
    (h : decodeEvaluatorSession c data = .ok s) : encodeEvaluatorSession c s = .ok data ∧ s.WF c :=
  encodeEvaluatorSession_decode c data s h

/-- Every accepted input has exactly the documented size: trailing bytes,
truncations and padded length prefixes are all rejected. -/
theorem C18_accepted_has_doc_len (c : Curve) (hc : c.WF) (counts : List Nat) (data : Bytes) :
    (∀ m, decodeRound1 c data = .ok m → data.length = 2 + 8 + 1 + c.name.length + 2 * c.byteLen) ∧
    (∀ m, c.ParitySound → decodeRound2 c data = .ok m →
        data.length = 2 + 8 + 1 + c.name.length + nBits * c.byteLen + signBytes) ∧
    (∀ m, decodeRound3 counts data = .ok m → data.length = round3Len counts) ∧
    (∀ s, decodeGarblerSession c data = .ok s →
        data.length = 2 + 8 + (putUvarint (1 + c.name.length + 5 * c.byteLen)).length +
          (1 + c.name.length + 5 * c.byteLen)) ∧
    (∀ s, decodeEvaluatorSession c data = .ok s →
        data.length = 2 + 8 + (putUvarint (1 + c.name.length + 2 * c.byteLen + nBits * c.byteLen + signBytes)).length +
          (1 + c.name.length + 2 * c.byteLen + nBits * c.byteLen + signBytes)) := by
  refine ⟨?_, ?_, ?_, ?_, ?_⟩
  · intro m h
    exact encodeRound1_length c hc m data (encodeRound1_decode c data m h).1
  · intro m hp h
    exact encodeRound2_length c hc m data (encodeRound2_decode c hp data m h).1
  · intro m h
    obtain ⟨h1, h2⟩ := encodeRound3_decode counts data m h
    rw [encodeRound3_eq counts m h2] at h1
    cases h1
    exact round3_body_length counts m h2
  · intro s h
    exact encodeGarblerSession_length c hc s data (encodeGarblerSession_decode c data s h).1
  · intro s h
    obtain ⟨h1, h2⟩ := encodeEvaluatorSession_decode c data s h
    exact encodeEvaluatorSession_length c hc s h2 data h1

/-- `readChunk` accepts a length prefix in its minimal (`PutUvarint`) form only;
e.g. the two-byte form `85 00` of 5 is an error. -/
theorem C18_chunk_canonical :
    (∀ r d r', readChunk r = .ok (d, r') → r = writeChunk d ++ r') ∧
    (∀ rest, readChunk (0x85 :: 0x00 :: rest) = .error) := by
  refine ⟨readChunk_ok, ?_⟩
  intro rest
  have hu : readUvarint (0x85 :: 0x00 :: rest) = .ok (5, rest) := by simp [readUvarint, readUvarintGo]
  have hp : putUvarint 5 = [5] := by rw [putUvarint]; simp
  unfold readChunk
  rw [hu]
  simp only [Res.ok_bind]
  rw [if_pos (by rw [hp]; simp only [List.length_cons, List.length_nil]; omega)]

/-! ## (B) no round crashes -/

/-- Rounds 2, 3 and 4 never crash: every use of a stored or received point is
preceded by `ensureOnCurve`. -/
theorem C18_rounds_no_crash {G : Type} (P : Params G) :
    (∀ (msg : Round1) (b : Bytes) (scalars : List Nat), round2 P msg b scalars ≠ .panic) ∧
    (∀ (st : GarblerSession) (a : Bytes) (req : Round2) (key : Bytes) (r0 : Label) (inl : Nat → Label),
        round3 P st a req key r0 inl ≠ .panic) ∧
    (∀ (st : EvaluatorSession) (msg : Round3), round4 P st msg ≠ .panic) :=
  ⟨fun msg b scalars => round2_noPanic P msg b scalars,
   fun st a req key r0 inl => round3_noPanic P st a req key r0 inl,
   fun st msg => round4_noPanic P st msg⟩

/-- A stored sender point (evaluator) or `A^{-a}` (garbler) that is not on the
curve makes the round return an error. -/
theorem C18_offcurve_state_rejected {G : Type} (P : Params G) :
    (∀ (st : EvaluatorSession) (msg : Round3), P.crypto.ofPt ⟨st.ax, st.ay⟩ = none → round4 P st msg = .error) ∧
    (∀ (st : GarblerSession) (choices : List Point) (wires : Nat → Label × Label) (n : Nat),
        P.crypto.ofPt ⟨st.ainvx, st.ainvy⟩ = none → encryptCO P.crypto st choices wires n = .error) :=
  ⟨fun st msg h => round4_offcurve_error P st msg h,
   fun st choices wires n h => encryptCO_offcurve_error P.crypto st choices wires n h⟩

/-! ## (C) foreign session, foreign curve -/

/-- A round-2 message of another session is rejected by `GarblerRound3`, a
round-3 message of another session by `EvaluatorRound4`, whatever else they
contain; and the session id both check against is the one chosen in round 1
(`round2_sid`, `round3_sid`). -/
theorem C18_session_mismatch_rejected {G : Type} (P : Params G) :
    (∀ (st : GarblerSession) (a : Bytes) (req : Round2) (key : Bytes) (r0 : Label) (inl : Nat → Label),
        req.sid ≠ st.sid → round3 P st a req key r0 inl = .error) ∧
    (∀ (st : EvaluatorSession) (msg : Round3), msg.sid ≠ st.sid → round4 P st msg = .error) ∧
    (∀ (msg : Round1) (b : Bytes) (scalars : List Nat) (m2 : Round2) (es : EvaluatorSession),
        round2 P msg b scalars = .ok (m2, es) → m2.sid = msg.sid ∧ es.sid = msg.sid) :=
  ⟨fun st a req key r0 inl h => round3_sid_mismatch P st a req key r0 inl h,
   fun st msg h => round4_sid_mismatch P st msg h,
   fun msg b scalars m2 es h => round2_sid P msg b scalars m2 es h⟩

/-- Every encoding that carries a curve name (round 1, round 2, both session
states) is rejected by the decoder of a curve with a different name.  (Round 3 carries no curve; a round-3 message of a session
on another curve has another session id, see above.) -/
theorem C18_curve_mismatch_rejected (c c' : Curve) (hc' : c'.WF) (hne : c'.name ≠ c.name) :
    (∀ (m : Round1) (enc extra : Bytes), m.sid < 2 ^ 64 → encodeRound1 c' m = .ok enc →
        decodeRound1 c (enc ++ extra) = .error) ∧
    (∀ (m : Round2) (enc : Bytes), m.sid < 2 ^ 64 → encodeRound2 c' m = .ok enc → decodeRound2 c enc = .error) ∧
    (∀ (s : GarblerSession) (enc : Bytes), s.sid < 2 ^ 64 → encodeGarblerSession c' s = .ok enc →
        decodeGarblerSession c enc = .error) ∧
    (∀ (s : EvaluatorSession) (enc : Bytes), s.WF c' → encodeEvaluatorSession c' s = .ok enc →
        decodeEvaluatorSession c enc = .error) :=
  ⟨fun m enc extra hs he => decodeRound1_other_curve c c' hc' m hs enc extra he hne,
   fun m enc hs he => decodeRound2_other_curve c c' hc' m hs enc he hne,
   fun s enc hs he => decodeGarblerSession_other_curve c c' hc' s hs enc he hne,
   fun s enc hs he => decodeEvaluatorSession_other_curve c c' hc' s hs enc he hne⟩

/-! ## (D) resumption -/

/-- Every round boundary, either party: the round run from the BYTES of the
stored session and of the received message (`round2B`, `round3B`, `round4B`
decode first) equals the round run from the in-memory values, for all inputs
and all randomness.  Garbler between rounds 1 and 3; evaluator before round 2
and between rounds 2 and 4. -/
theorem C18_resume_eq {G : Type} (P : Params G) (hc : P.curve.WF) :
    (∀ (msg : Round1) (r1b : Bytes) (b : Bytes) (scalars : List Nat), msg.WF P.curve →
        encodeRound1 P.curve msg = .ok r1b →
        round2B P r1b b scalars = (round2 P msg b scalars >>= fun r =>
          encodeRound2 P.curve r.1 >>= fun r2b => encodeEvaluatorSession P.curve r.2 >>= fun esb => pure (r2b, esb))) ∧
    (∀ (st : GarblerSession) (req : Round2) (gsb r2b a key : Bytes) (r0 : Label) (inl : Nat → Label),
        st.WF P.curve → req.WF P.curve → encodeGarblerSession P.curve st = .ok gsb →
        encodeRound2 P.curve req = .ok r2b →
        round3B P gsb a r2b key r0 inl = (round3 P st a req key r0 inl >>= encodeRound3 (countsOf P.circ))) ∧
    (∀ (st : EvaluatorSession) (msg : Round3) (esb r3b : Bytes), st.WF P.curve → msg.WF (countsOf P.circ) →
        encodeEvaluatorSession P.curve st = .ok esb → encodeRound3 (countsOf P.circ) msg = .ok r3b →
        round4B P esb r3b = round4 P st msg) :=
  ⟨fun msg r1b b scalars hm h1 => round2B_eq P hc msg hm r1b h1 b scalars,
   fun st req gsb r2b a key r0 inl hst hreq hg h2 => round3B_eq P hc st hst req hreq gsb r2b hg h2 a key r0 inl,
   fun st msg esb r3b hst hmsg he h3 => round4B_eq P hc st hst msg hmsg esb r3b he h3⟩

/-- The round-3 message the garbler produces is well formed for the circuit's
row counts (so `C18_enc_dec_id_Round3` and `C18_resume_eq` apply to it). -/
theorem C18_round3_output_wf {G : Type} (P : Params G) (st : GarblerSession) (a : Bytes) (req : Round2) (key : Bytes)
    (r0 : Label) (inl : Nat → Label) (m3 : Round3) (hsid : st.sid < 2 ^ 64) (hkey : key.length = keyLen)
    (hout : P.circ.nOut = nBits) (h : round3 P st a req key r0 inl = .ok m3) : m3.WF (countsOf P.circ) :=
  round3_WF P st a req key r0 inl m3 hsid hkey hout h

/-! ## (E) correctness given the circuit -/

/-- FULL STATEMENT (not proved): `... round4 P es m3 = .ok (SHA-256 (a xor b))`.
PROVED: the evaluator's output is the little-endian packing of the plain
evaluation of the embedded circuit on `bits a ++ bits b`; for every curve
group, KDF, key-to-hash map, well-formed circuit with 256+256 inputs and 256
defined outputs, all inputs, all randomness for which no point is the point
at infinity (probability about 2⁻²⁵⁶ per point on the real curves; the real
code returns `ErrPointNotOnCurve` then).  MISSING: `circ.compute` = SHA-256 ∘ xor
for the embedded circuit (validated by evaluation on every run). -/
theorem C18_sha2pc_correct_given_circuit_partial {G : Type} (P : Params G) (a b : Bytes) (aS sid : Nat)
    (scalars : List Nat) (key : Bytes) (r0 : Label) (inl : Nat → Label)
    (hwf : P.circ.WF = true) (hnin : P.circ.nIn = nBits + nBits) (hnout : P.circ.nOut = nBits)
    (hod : P.circ.outputsDefined = true) (ha : a.length = 32) (hb : b.length = 32)
    (hA : P.crypto.onCurve (Co.senderSetup P.crypto.Γ P.crypto.g aS).A)
    (hI : P.crypto.onCurve (Co.senderSetup P.crypto.Γ P.crypto.g aS).AaInv)
    (hP : ∀ i, i < nBits → P.crypto.onCurve (Co.choicePoint P.crypto.Γ P.crypto.g
      (Co.senderSetup P.crypto.Γ P.crypto.g aS).A (scalars.getD i 0) ((bytesToBits b).getD i false))) :
    ∃ m2 es m3, round2 P (round1 P aS sid).1 b scalars = .ok (m2, es) ∧
      round3 P (round1 P aS sid).2 a m2 key r0 inl = .ok m3 ∧
      round4 P es m3 = .ok (bitsToBytes (P.circ.compute (bytesToBits a ++ bytesToBits b))) :=
  correct_given_circuit P a b aS sid scalars key r0 inl hwf hnin hnout hod ha hb hA hI hP

/-! ## (F) histories: several sessions in one process, steps that FAIL -/

/-- FRAME.  A step of session `e.sess` -- undisturbed or run with a failing
random source, a mutated or a foreign message -- leaves all slots of every
other session unchanged; a whole history in which session `j` does not step
leaves all slots of session `j` unchanged; a step that does NOT SUCCEED
(error, crash, missing input) leaves the WHOLE process unchanged, the session
that failed included: it can be retried.  Any round functions. -/
theorem C18_hist_frame {T : Ty} (cfg : Cfg T) :
    (∀ (st : Proc T) (e : Ev) (j : Nat), j ≠ e.sess → Proc.stepD cfg st e j = st j) ∧
    (∀ (st : Proc T) (sched : List Ev) (j : Nat), (∀ e ∈ sched, e.sess ≠ j) → Proc.runD cfg st sched j = st j) ∧
    (∀ (st : Proc T) (e : Ev), Proc.okAt cfg st e = false → Proc.stepD cfg st e = st) :=
  ⟨fun st e j h => Proc.stepD_other cfg st e j h,
   fun st sched j h => Proc.runD_frame cfg sched j st h,
   fun st e h => Proc.stepD_failed cfg st e h⟩

/-- FAILURES ARE ERASED.  Every history (any schedule, any disturbances, any
round functions) ends in the state of the history of its SUCCESSFUL events;
and when every disturbed event fails where it runs (`Proc.DistFail`) that is
the failure-free history of the undisturbed events.  Induction over the
schedule. -/
theorem C18_hist_failures_erased {T : Ty} (cfg : Cfg T) (st : Proc T) (sched : List Ev) :
    Proc.runD cfg st sched = Proc.runD cfg st (Proc.effective cfg st sched) ∧
    (Proc.DistFail cfg st sched → Proc.runD cfg st sched = Proc.run cfg st (cleanSched sched)) :=
  ⟨Proc.runD_effective cfg sched st, Proc.runD_erase cfg sched st⟩

/-- ISOLATION.  After every history with failing steps (every schedule, every
number of sessions, failures of whichever session at whichever point) the
state of session `j` is what its own UNDISTURBED steps, in their order,
produce from its own initial state: neither a step of another session nor a
failed step of any session contributes. -/
theorem C18_hist_isolation {T : Ty} (cfg : Cfg T) (st : Proc T) (sched : List Ev) (j : Nat)
    (hf : Proc.DistFail cfg st sched) :
    Proc.runD cfg st sched j = (st j).run (cfg j) (proj j (cleanSched sched)) := by
  rw [Proc.runD_erase cfg sched st hf]
  exact Proc.run_proj cfg (cleanSched sched) st j

/-- A complete session inside ANY history with failures: if the undisturbed
steps of session `j` are round 1, round 2, round 3 and then round 4 one or
more times -- whatever the consumption modes, whatever the other sessions do in
between, however many steps (of `j` too: a failed round is retried) fail and
wherever, whatever the process held before -- session `j` ends with exactly the
values of its isolated run (`Rounds.Sound`) in every slot. -/
theorem C18_hist_complete_session {T : Ty} (cfg : Cfg T) (st : Proc T) (sched : List Ev) (j : Nat)
    (hf : Proc.DistFail cfg st sched)
    (m2 : T.M2) (es : T.ES) (m3 : T.M3) (d : T.D) (hs : (cfg j).Sound m2 es m3 d)
    (x y z : Bool) (e4s : List Act) (hall : ∀ a ∈ e4s, a.isE4 = true) (hne : e4s ≠ [])
    (hproj : proj j (cleanSched sched) = .g1 :: .e2 x :: .g3 y z :: e4s) :
    Proc.runD cfg st sched j =
      { m1 := some (cfg j).r1.1, gs := some (cfg j).r1.2, m2 := some m2, es := some es, m3 := some m3, out := some d } := by
  rw [C18_hist_isolation cfg st sched j hf, hproj]
  exact Sess.run_complete (cfg j) m2 es m3 d hs (st j) x y z e4s hall hne

/-- WHICH steps fail, for the sha2pc rounds.  (1) In EVERY process state a
round given a failing random source and a round given a message whose bytes
were cut or extended in transit do not succeed (the decoders accept the
documented length only), so every history whose disturbances are of these two
kinds satisfies `Proc.DistFail`.  (2) The message (round 3, round 4) or the
evaluator state (round 4) of ANOTHER session of the process is answered with an
error as soon as the session ids differ. -/
theorem C18_hist_faults_rejected (cfg : Nat → SessCfg) (hc : ∀ i, (cfg i).P.curve.WF)
    (hp : ∀ i, (cfg i).P.curve.ParitySound) :
    (∀ (st : Proc sha2pcTy) (sched : List Ev), (∀ e ∈ sched, e.unconditional = true) →
        Proc.DistFail (fun i => (cfg i).rounds) st sched) ∧
    (∀ (st : Proc sha2pcTy) (i src : Nat) (gs : GarblerSession) (m2 : Round2), (st i).gs = some gs →
        (st src).m2 = some m2 → m2.sid ≠ gs.sid →
        Proc.stepResD (fun i => (cfg i).rounds) st ⟨i, .g3 false false, some (.foreignMsg src)⟩ = some .error) ∧
    (∀ (st : Proc sha2pcTy) (i src : Nat) (es : EvaluatorSession) (m3 : Round3), m3.sid ≠ es.sid →
        ((st i).es = some es → (st src).m3 = some m3 →
          Proc.stepResD (fun i => (cfg i).rounds) st ⟨i, .e4 false false, some (.foreignMsg src)⟩ = some .error) ∧
        ((st src).es = some es → (st i).m3 = some m3 →
          Proc.stepResD (fun i => (cfg i).rounds) st ⟨i, .e4 false false, some (.foreignState src)⟩ = some .error)) :=
  ⟨fun st sched h => SessCfg.distFail_of_unconditional cfg hc hp sched st h,
   fun st i src gs m2 hgs hm hsid => (cfg i).foreign_g3_fails st (st i) src gs m2 hgs hm hsid,
   fun st i src es m3 hsid => (cfg i).foreign_e4_fails st (st i) src es m3 hsid⟩

/-- FULL STATEMENT (not proved): `... .out = some (SHA-256 (a_j xor b_j))`.
PROVED: in every history of a process serving any number of sessions (each
with its own curve group, inputs and randomness) in which steps may FAIL
(failing random source, mutated message, foreign message: every disturbed
event fails where it runs), every session `j` that satisfies `SessCfg.Good`
and whose own undisturbed steps are rounds 1, 2, 3 and then round 4 one or
more times ends with the round messages and session states of its isolated run
and with the embedded circuit's function of its own inputs as result.
MISSING: as in `C18_sha2pc_correct_given_circuit_partial`. -/
theorem C18_hist_correct_partial (cfg : Nat → SessCfg) (st : Proc sha2pcTy) (sched : List Ev) (j : Nat)
    (hf : Proc.DistFail (fun i => (cfg i).rounds) st sched)
    (hg : (cfg j).Good) (x y z : Bool) (e4s : List Act) (hall : ∀ a ∈ e4s, a.isE4 = true) (hne : e4s ≠ [])
    (hproj : proj j (cleanSched sched) = .g1 :: .e2 x :: .g3 y z :: e4s) :
    ∃ m2 es m3,
      round2 (cfg j).P (round1 (cfg j).P (cfg j).aS (cfg j).sid).1 (cfg j).b (cfg j).scalars = .ok (m2, es) ∧
      round3 (cfg j).P (round1 (cfg j).P (cfg j).aS (cfg j).sid).2 (cfg j).a m2 (cfg j).key (cfg j).r0 (cfg j).inl = .ok m3 ∧
      Proc.runD (fun i => (cfg i).rounds) st sched j =
        { m1 := some (round1 (cfg j).P (cfg j).aS (cfg j).sid).1, gs := some (round1 (cfg j).P (cfg j).aS (cfg j).sid).2,
          m2 := some m2, es := some es, m3 := some m3,
          out := some (bitsToBytes ((cfg j).P.circ.compute (bytesToBits (cfg j).a ++ bytesToBits (cfg j).b))) } := by
  obtain ⟨m2, es, m3, hs⟩ := (cfg j).rounds_sound hg
  exact ⟨m2, es, m3, hs.h2, hs.h3,
    C18_hist_complete_session (fun i => (cfg i).rounds) st sched j hf m2 es m3 _ hs x y z e4s hall hne hproj⟩

/-! ## (G) the execution environment -/

/-- THE MODEL HAS NO ENVIRONMENT PARAMETER.  The round functions of the model
(`SessCfg.rounds`: pure functions of inputs, randomness and messages), seen as
an implementation indexed by the environment, are the constant family: they
compute the same in every two environments, and a history in which every step
runs in its own environment (GOMAXPROCS, collector setting, word size --
changing between any two rounds of any session) is, for the model, the history
without environments: same final process state, same status of every step. -/
theorem C18_env_model_has_no_parameter (cfg : Nat → SessCfg) :
    (EnvCfg.const fun i => (cfg i).rounds).Indep ∧
    (∀ (st : Proc sha2pcTy) (sched : List EvE),
      Proc.runE (EnvCfg.const fun i => (cfg i).rounds) st sched =
        Proc.runD (fun i => (cfg i).rounds) st (eraseEnv sched)) ∧
    (∀ (st : Proc sha2pcTy) (pre : List EvE) (e : EvE),
      Proc.stepResE (EnvCfg.const fun i => (cfg i).rounds) (Proc.runE (EnvCfg.const fun i => (cfg i).rounds) st pre) e =
        Proc.stepResD (fun i => (cfg i).rounds) (Proc.runD (fun i => (cfg i).rounds) st (eraseEnv pre)) e.ev) :=
  ⟨EnvCfg.const_indep _,
   fun st sched => Proc.runE_eq_runD _ _ sched st (EnvCfg.const_agrees _ sched),
   fun st pre e => Proc.statusE_eq _ _ st pre e [] (EnvCfg.const_agrees _ _)⟩

/-- TRANSFER.  For ANY implementation (a family of round functions indexed by
the environment, any value types) that computes what the model `cfg` computes
in every environment occurring in the history: the history with per-step
environments ends in the state of the environment-free history `Proc.runD`,
and every step has the status `Proc.stepResD` gives it.  Everything proved
about `Proc.runD` (frame, failures erased, isolation, complete sessions) then
holds for the implementation under every such environment assignment.  An
environment-independent implementation (`EnvCfg.Indep`) satisfies the
hypothesis with `cfg` = what it computes in one reference environment. -/
theorem C18_env_hist_eq {T : Ty} (impl : EnvCfg T) (cfg : Cfg T) (st : Proc T) (sched : List EvE)
    (hag : impl.AgreesOn cfg sched) :
    Proc.runE impl st sched = Proc.runD cfg st (eraseEnv sched) ∧
    (∀ (pre : List EvE) (e : EvE) (post : List EvE), sched = pre ++ e :: post →
      Proc.stepResE impl (Proc.runE impl st pre) e = Proc.stepResD cfg (Proc.runD cfg st (eraseEnv pre)) e.ev) ∧
    (∀ e0 : Env, impl.Indep → impl.AgreesOn (impl e0) sched) :=
  ⟨Proc.runE_eq_runD impl cfg sched st hag,
   fun pre e post h => Proc.statusE_eq impl cfg st pre e post (h ▸ hag),
   fun e0 h => h.agrees e0 sched⟩

/-- FULL STATEMENT (not proved): `... .out = some (SHA-256 (a_j xor b_j))` for
the real implementation in every environment.
PROVED: for every implementation of the sha2pc rounds indexed by the
environment that agrees with the model in the environments of the history
(ASSUMPTION about the real code: its round functions do not depend on
GOMAXPROCS / collector / word size; tied by the `env` mode of the harness on
the swept environments), every history with failing steps whose steps run in
ARBITRARY, per-step different environments leaves every complete session `j`
(`SessCfg.Good`, own undisturbed steps = rounds 1, 2, 3, 4+) with the values
of its isolated run and the embedded circuit's function of its own inputs.
MISSING: as in `C18_hist_correct_partial`, and the assumption itself. -/
theorem C18_env_correct_partial (impl : EnvCfg sha2pcTy) (cfg : Nat → SessCfg) (st : Proc sha2pcTy)
    (sched : List EvE) (j : Nat)
    (hag : impl.AgreesOn (fun i => (cfg i).rounds) sched)
    (hf : Proc.DistFail (fun i => (cfg i).rounds) st (eraseEnv sched))
    (hg : (cfg j).Good) (x y z : Bool) (e4s : List Act) (hall : ∀ a ∈ e4s, a.isE4 = true) (hne : e4s ≠ [])
    (hproj : proj j (cleanSched (eraseEnv sched)) = .g1 :: .e2 x :: .g3 y z :: e4s) :
    ∃ m2 es m3,
      Proc.runE impl st sched j =
        { m1 := some (round1 (cfg j).P (cfg j).aS (cfg j).sid).1, gs := some (round1 (cfg j).P (cfg j).aS (cfg j).sid).2,
          m2 := some m2, es := some es, m3 := some m3,
          out := some (bitsToBytes ((cfg j).P.circ.compute (bytesToBits (cfg j).a ++ bytesToBits (cfg j).b))) } := by
  obtain ⟨m2, es, m3, _, _, h⟩ := C18_hist_correct_partial cfg st (eraseEnv sched) j hf hg x y z e4s hall hne hproj
  exact ⟨m2, es, m3, by rw [Proc.runE_eq_runD impl _ sched st hag]; exact h⟩

/-! An implementation for which the assumption FAILS: round 3 computes its
per-item results with the work split over `procs` workers (`splitMap`), items
no worker takes stay zero; round 4 accepts only the complete message. -/

abbrev splitTy : Ty := { M1 := Nat, GS := Nat, M2 := List Nat, ES := Nat, M3 := List Nat, D := Nat }

/-- the batch always has 4 items (sha2pc: always 256 transfers) -/
def fix4 (m2 : List Nat) : List Nat := (m2 ++ [0, 0, 0, 0]).take 4

theorem fix4_length (m2 : List Nat) : (fix4 m2).length = 4 := by
  simp only [fix4, List.length_take, List.length_append, List.length_cons, List.length_nil]
  omega

def splitRounds (w : Nat) : Rounds splitTy where
  r1 := (1, 2)
  r2 := fun _ => .ok ([10, 20, 30, 40], 3)
  r3 := fun _ m2 => .ok (splitMap w (· + 1) 0 (fix4 m2))
  r4 := fun _ m3 => if m3 = [11, 21, 31, 41] then .ok 7 else .error
  t1 := .ok
  tg := .ok
  t2 := .ok
  te := .ok
  t3 := .ok
  x1 := fun _ _ => .error
  x2 := fun _ _ _ => .error
  x3 := fun _ _ _ _ => .error
  u1 := fun _ _ => .error
  u2 := fun _ _ => .error
  u3 := fun _ _ => .error

/-- a worker count that divides the batch computes the model -/
theorem splitRounds_of_dvd (w : Nat) (h : w ∣ 4) : splitRounds w = splitRounds 1 := by
  have e : ∀ m2, splitMap w (· + 1) 0 (fix4 m2) = splitMap 1 (· + 1) 0 (fix4 m2) := fun m2 => by
    rw [splitMap_of_dvd _ _ _ _ (by rw [fix4_length]; exact h), splitMap_of_dvd _ _ _ _ (Nat.one_dvd _)]
  simp only [splitRounds, e]

def splitImpl : EnvCfg splitTy := fun env _ => splitRounds env.procs

def envP (p : Nat) : Env := { procs := p, gc := some 100, wordBits := 64 }

/-- one session, rounds 1..4, every step under `procs = p` except round 3 under `procs = q` -/
def splitSched (p q : Nat) : List EvE :=
  [⟨⟨0, .g1, none⟩, envP p⟩, ⟨⟨0, .e2 false, none⟩, envP p⟩, ⟨⟨0, .g3 false false, none⟩, envP q⟩,
   ⟨⟨0, .e4 false false, none⟩, envP p⟩]

/-- THE ASSUMPTION IS NEEDED, and environments in which an implementation is
right say nothing about the others.  `splitImpl` computes the model
(`splitRounds 1`) in every environment whose worker count divides the number
of items (4; `splitMap_of_dvd`), so every history
run entirely in such environments is correct; it is not environment
independent, and the same session with round 3 alone run under procs = 3 (a
restart in a container with another CPU limit) ends WITHOUT a result: round 3
succeeds with an incomplete message (last item zero: `splitMap_getLast_of_not_dvd`)
and round 4 rejects it. -/
theorem C18_env_dependence_witness :
    (∀ (st : Proc splitTy) (sched : List EvE), (∀ e ∈ sched, e.env.procs ∣ 4) →
      Proc.runE splitImpl st sched = Proc.runD (fun _ => splitRounds 1) st (eraseEnv sched)) ∧
    (Proc.runE splitImpl (fun _ => {}) (splitSched 2 4) 0).out = some 7 ∧
    ¬ splitImpl.Indep ∧
    (Proc.runE splitImpl (fun _ => {}) (splitSched 2 3) 0).m3 = some [11, 21, 31, 0] ∧
    (Proc.runE splitImpl (fun _ => {}) (splitSched 2 3) 0).out = none ∧
    (Proc.runD (fun _ => splitRounds 1) (fun _ => {}) (eraseEnv (splitSched 2 3)) 0).out = some 7 := by
  refine ⟨?_, by decide, ?_, by decide, by decide, by decide⟩
  · intro st sched hs
    apply Proc.runE_eq_runD
    intro e he
    funext i
    exact splitRounds_of_dvd _ (hs e he)
  · intro h
    have := congrFun (h (envP 3) (envP 1)) 0
    have h3 : (splitRounds 3).r3 0 [10, 20, 30, 40] = (splitRounds 1).r3 0 [10, 20, 30, 40] := by
      have : splitRounds 3 = splitRounds 1 := this
      rw [this]
    revert h3
    decide

/-! ## Non-vacuity -/

/-- A toy curve: name "T", one-byte field, every abscissa decompresses to 1 (odd) or 2 (even). -/
def toyCurve : Curve := { name := [0x54], byteLen := 1, decompress := fun _ odd => some (if odd then 1 else 2) }

example : toyCurve.WF := ⟨by decide, by decide, by decide, by decide⟩

def toyR1 : Round1 := { sid := 7, curveName := [0x54], ax := 200, ay := 3 }
instance (c : Curve) (v : Nat) : Decidable (fits c v) := by unfold fits; infer_instance

example : toyR1.WF toyCurve := ⟨by decide, rfl, by decide, by decide⟩
/-- the documented encoding; the same with a trailing byte, with the two-byte
length prefix `81 00`, and one byte short are all errors. -/
example : encodeRound1 toyCurve toyR1 = .ok [0x52, 0x31, 0, 0, 0, 0, 0, 0, 0, 7, 1, 0x54, 200, 3] := by decide +kernel
example : decodeRound1 toyCurve [0x52, 0x31, 0, 0, 0, 0, 0, 0, 0, 7, 1, 0x54, 200, 3] = .ok toyR1 := by
  decide +kernel
example : decodeRound1 toyCurve [0x52, 0x31, 0, 0, 0, 0, 0, 0, 0, 7, 1, 0x54, 200, 3, 0xff] = .error := by
  decide +kernel
example : decodeRound1 toyCurve [0x52, 0x31, 0, 0, 0, 0, 0, 0, 0, 7, 0x81, 0, 0x54, 200, 3] = .error := by
  decide +kernel
example : toyCurve.ParitySound := by
  intro x odd y h
  simp only [toyCurve, Option.some.injEq] at h
  subst h
  cases odd <;> decide
example : decodeRound1 toyCurve [0x52, 0x31, 0, 0, 0, 0, 0, 0, 0, 7, 1, 0x54, 200] = .error := by decide +kernel

def toyGS : GarblerSession := { sid := 9, curveName := [0x54], scalar := 5, ax := 1, ay := 2, ainvx := 3, ainvy := 4 }
example : toyGS.WF toyCurve := ⟨by decide, rfl, by decide, by decide, by decide, by decide, by decide⟩

def toyR2 : Round2 := { sid := 1, curveName := [0x54], choices := List.replicate 256 ⟨9, 1⟩ }
example : toyR2.WF toyCurve :=
  ⟨by decide, rfl, List.length_replicate ..,
   fun p hp => by rw [List.eq_of_mem_replicate hp]; decide,
   fun p hp => by rw [List.eq_of_mem_replicate hp]; rfl⟩

def toyES : EvaluatorSession :=
  { sid := 2, curveName := [0x54], ax := 1, ay := 2, scalars := List.replicate 256 77, bits := List.replicate 256 true }
example : toyES.WF toyCurve :=
  ⟨by decide, rfl, by decide, by decide, List.length_replicate ..,
   fun v hv => by rw [List.eq_of_mem_replicate hv]; decide, List.length_replicate ..⟩

/-- A round-3 payload for a two-gate circuit (AND, XOR: counts 2, 0). -/
def toyR3 : Round3 :=
  { sid := 3, key := List.replicate 32 0xAB, tables := [[1#128, 2#128], []], inputs := List.replicate 256 5#128,
    hints := List.replicate 256 (6#128, 7#128), cts := List.replicate 256 (8#128, 9#128) }
example : toyR3.WF [2, 0] :=
  ⟨by decide, List.length_replicate .., rfl, List.length_replicate .., List.length_replicate .., List.length_replicate ..⟩

/-- A toy "curve group" for the round theorems: the integers mod 7, coordinates
`(k, 0)`; `(x, y)` with `y ≠ 0` or `x ≥ 7` is "not on the curve". -/
def toyCrypto : Crypto (Fin 7) where
  Γ := zmod7
  g := 1
  kdf := fun p i => BitVec.ofNat 128 (p.val * 1000 + i)
  toPt := fun p => ⟨p.val, 0⟩
  ofPt := fun q => if h : q.x < 7 ∧ q.y = 0 then some ⟨q.x, h.1⟩ else none
  ofPt_some := by
    intro q p h
    split at h
    · rename_i hq
      cases h
      cases q
      simp only at hq
      simp [hq.2]
    · cases h

theorem toyCrypto_onCurve (p : Fin 7) : toyCrypto.onCurve p := by
  unfold Crypto.onCurve toyCrypto
  simp

/-- 256 XOR gates: output bit `i` = `a_i xor b_i` (a 512-input, 256-output circuit). -/
def toyCircuit : Circuit :=
  { numWires := 768, nIn := 512, nOut := 256,
    gates := (List.range 256).map fun i => ⟨.xor, i, 256 + i, 512 + i⟩ }

def toyParams : Params (Fin 7) :=
  { curve := toyCurve, crypto := toyCrypto, circ := toyCircuit, hashOf := fun _ => hashOf id }

example : toyCircuit.WF = true := by decide +kernel
example : toyCircuit.outputsDefined = true := by decide +kernel

/-- The hypotheses of the composition theorem are satisfiable; its conclusion
for the toy instance. -/
example (a b : Bytes) (ha : a.length = 32) (hb : b.length = 32) (key : Bytes) (r0 : Label) (inl : Nat → Label) :
    ∃ m2 es m3, round2 toyParams (round1 toyParams 3 42).1 b [] = .ok (m2, es) ∧
      round3 toyParams (round1 toyParams 3 42).2 a m2 key r0 inl = .ok m3 ∧
      round4 toyParams es m3 = .ok (bitsToBytes (toyCircuit.compute (bytesToBits a ++ bytesToBits b))) :=
  C18_sha2pc_correct_given_circuit_partial toyParams a b 3 42 [] key r0 inl (by decide +kernel) rfl rfl
    (by decide +kernel) ha hb (toyCrypto_onCurve _) (toyCrypto_onCurve _) (fun _ _ => toyCrypto_onCurve _)

/-! ### histories -/

/-- A toy curve description whose decompression returns the ordinate 0 of the
toy group's points `(k, 0)` for the even parity (and 1 for the odd one). -/
def toyCurveZ (name : Bytes) (bl : Nat) : Curve :=
  { name := name, byteLen := bl, decompress := fun _ odd => some (if odd then 1 else 0) }

theorem toyCurveZ_parity (name : Bytes) (bl : Nat) : (toyCurveZ name bl).ParitySound := by
  intro x odd y h
  simp only [toyCurveZ, Option.some.injEq] at h
  subst h
  cases odd <;> decide

/-- A toy session: "curve" `name`/`bl`, inputs `a`, `b`, sender scalar `aS`, session id `sid`. -/
def toySess (name : Bytes) (bl : Nat) (a b : Bytes) (aS sid : Nat) : SessCfg :=
  { G := Fin 7,
    P := { curve := toyCurveZ name bl, crypto := toyCrypto, circ := toyCircuit, hashOf := fun _ => hashOf id },
    a := a, b := b, aS := aS, sid := sid, scalars := [], key := List.replicate 32 0, r0 := 0#128, inl := fun _ => 0#128 }

theorem toy_fits (name : Bytes) (bl : Nat) (hbl : 0 < bl) (v : Nat) (hv : v < 7) : fits (toyCurveZ name bl) v := by
  unfold fits toyCurveZ
  simp only
  calc v < 256 ^ 1 := by omega
    _ ≤ 256 ^ bl := Nat.pow_le_pow_right (by decide) hbl

theorem toyPt_x (p : Fin 7) : (toyCrypto.toPt p).x < 7 := Fin.isLt p

/-- `SessCfg.Good` is satisfiable (for every name/width, all inputs, every
session id, scalars below 7). -/
theorem toySess_good (name : Bytes) (bl : Nat) (a b : Bytes) (aS sid : Nat) (hn0 : 0 < name.length)
    (hn : name.length < 128) (hbl : 0 < bl) (hbl' : bl ≤ 1000) (ha : a.length = 32) (hb : b.length = 32)
    (hsid : sid < 2 ^ 64) (haS : aS < 7) : (toySess name bl a b aS sid).Good where
  hwf := by show toyCircuit.WF = true; decide +kernel
  hnin := rfl
  hnout := rfl
  hod := by show toyCircuit.outputsDefined = true; decide +kernel
  ha := ha
  hb := hb
  hA := toyCrypto_onCurve _
  hI := toyCrypto_onCurve _
  hP := fun _ _ => toyCrypto_onCurve _
  curve := ⟨hn0, hn, hbl, hbl'⟩
  key := List.length_replicate ..
  m1wf := ⟨hsid, rfl, toy_fits name bl hbl _ (Fin.isLt _), toy_fits name bl hbl 0 (by decide)⟩
  gswf := ⟨hsid, rfl, toy_fits name bl hbl _ haS, toy_fits name bl hbl _ (Fin.isLt _), toy_fits name bl hbl 0 (by decide),
    toy_fits name bl hbl _ (Fin.isLt _), toy_fits name bl hbl 0 (by decide)⟩
  r2wf := by
    intro m2 es h
    have hbits : (bytesToBits b).length = nBits := by rw [bytesToBits_length, hb]; rfl
    unfold round2 at h
    simp only [toySess, round1, toyCurveZ] at h
    simp only [ne_eq, not_true_eq_false, if_false, hbits] at h
    have hon := toyCrypto_onCurve (Co.senderSetup toyCrypto.Γ toyCrypto.g aS).A
    unfold Crypto.onCurve at hon
    rw [hon] at h
    simp only [Res.ok.injEq, Prod.mk.injEq] at h
    obtain ⟨h2, he⟩ := h
    subst h2
    subst he
    refine ⟨⟨hsid, rfl, by simp, ?_, ?_⟩,
      ⟨hsid, rfl, toy_fits name bl hbl _ (toyPt_x _), toy_fits name bl hbl 0 (by decide), by simp, ?_, hbits⟩⟩
    · intro p hp
      simp only [List.mem_map] at hp
      obtain ⟨i, _, rfl⟩ := hp
      exact toy_fits name bl hbl _ (toyPt_x _)
    · intro p hp
      simp only [List.mem_map] at hp
      obtain ⟨i, _, rfl⟩ := hp
      simp [toySess, toyCurveZ, toyCrypto, yOdd]
    · intro v hv
      simp only [List.mem_map] at hv
      obtain ⟨i, _, rfl⟩ := hv
      exact toy_fits name bl hbl 0 (by decide)

/-- Three toy sessions in one process: two on the "curve" T (one-byte field),
one on the "curve" UU (two-byte field); different inputs, scalars, session ids. -/
def toyCfg : Nat → SessCfg
  | 0 => toySess [0x54] 1 (List.replicate 32 0x0f) (List.replicate 32 0x35) 3 42
  | 1 => toySess [0x55, 0x55] 2 (List.replicate 32 0xff) (List.replicate 32 0x01) 5 43
  | _ => toySess [0x54] 1 (List.replicate 32 0) (List.replicate 32 0) 2 44

theorem toyCfg_good : ∀ j, (toyCfg j).Good
  | 0 => toySess_good _ _ _ _ _ _ (by decide) (by decide) (by decide) (by decide) rfl rfl (by decide) (by decide)
  | 1 => toySess_good _ _ _ _ _ _ (by decide) (by decide) (by decide) (by decide) rfl rfl (by decide) (by decide)
  | _ + 2 => toySess_good _ _ _ _ _ _ (by decide) (by decide) (by decide) (by decide) rfl rfl (by decide) (by decide)

theorem toyCfg_curve (j : Nat) : (toyCfg j).P.curve.WF := (toyCfg_good j).curve
theorem toyCfg_parity : ∀ j, (toyCfg j).P.curve.ParitySound
  | 0 => toyCurveZ_parity _ _
  | 1 => toyCurveZ_parity _ _
  | _ + 2 => toyCurveZ_parity _ _

/-- A history of the three sessions in the shape of a batching garbler: rounds
1-2 of every session, then all three round 3, then the evaluators in reverse
order, session 0 consuming its round-3 message (produced BEFORE the round 3 of
sessions 1 and 2) in memory and, later again, through bytes -- with FAILING
steps in between: the random source fails in round 1 of session 1 (retried), in
round 2 of session 0, in round 3 of session 0 while the input labels are drawn
(byte 128 of 8240; sessions 1 and 2 garble next, session 0 retries last), the
round-2 message of session 1 arrives one byte short, the round-3 message of
session 2 with an extra byte, and round 3 of session 2 is run once more with a
failing source after its message was produced. -/
def toySched : List Ev :=
  [⟨0, .g1, none⟩, ⟨1, .g1, some (.rng 3 0)⟩, ⟨1, .g1, none⟩, ⟨0, .e2 false, some (.rng 40 2)⟩, ⟨0, .e2 false, none⟩,
   ⟨2, .g1, none⟩, ⟨1, .e2 true, none⟩, ⟨2, .e2 false, none⟩,
   ⟨0, .g3 false true, some (.rng 128 1)⟩, ⟨1, .g3 true true, some (.malformed 0)⟩,
   ⟨1, .g3 true false, none⟩, ⟨2, .g3 false false, none⟩, ⟨0, .g3 false true, none⟩,
   ⟨2, .g3 true true, some (.rng 8239 0)⟩, ⟨2, .e4 false true, some (.malformed 1)⟩,
   ⟨2, .e4 true true, none⟩, ⟨1, .e4 false true, none⟩, ⟨0, .e4 false false, none⟩, ⟨0, .e4 true true, none⟩,
   ⟨1, .e4 false false, none⟩]

example : proj 0 (cleanSched toySched) = [.g1, .e2 false, .g3 false true, .e4 false false, .e4 true true] := by decide
example : proj 1 (cleanSched toySched) = [.g1, .e2 true, .g3 true false, .e4 false true, .e4 false false] := by decide
example : proj 2 (cleanSched toySched) = [.g1, .e2 false, .g3 false false, .e4 true true] := by decide

/-- `Proc.DistFail` holds for the toy history from EVERY process state (the
hypotheses of `C18_hist_faults_rejected` are satisfiable). -/
theorem toySched_distFail (st : Proc sha2pcTy) : Proc.DistFail (fun i => (toyCfg i).rounds) st toySched :=
  (C18_hist_faults_rejected toyCfg toyCfg_curve toyCfg_parity).1 st toySched (by decide)

/-- The hypotheses of the history theorem are satisfiable, for every session of
the toy history (failing steps included), from ANY earlier process state; its
conclusion for session 0: the result is the toy circuit's function (bitwise
xor) of session 0's inputs. -/
example (st : Proc sha2pcTy) :
    (Proc.runD (fun i => (toyCfg i).rounds) st toySched 0).out =
      some (bitsToBytes (toyCircuit.compute (bytesToBits (List.replicate 32 0x0f) ++ bytesToBits (List.replicate 32 0x35)))) := by
  obtain ⟨m2, es, m3, _, _, h⟩ := C18_hist_correct_partial toyCfg st toySched 0 (toySched_distFail st) (toyCfg_good 0)
    false false true [.e4 false false, .e4 true true] (by decide) (by decide) (by decide)
  rw [h]
  rfl
example (st : Proc sha2pcTy) : ∃ d, (Proc.runD (fun i => (toyCfg i).rounds) st toySched 1).out = some d := by
  obtain ⟨m2, es, m3, _, _, h⟩ := C18_hist_correct_partial toyCfg st toySched 1 (toySched_distFail st) (toyCfg_good 1)
    true true false [.e4 false true, .e4 false false] (by decide) (by decide) (by decide)
  exact ⟨_, by rw [h]⟩
example (st : Proc sha2pcTy) : ∃ d, (Proc.runD (fun i => (toyCfg i).rounds) st toySched 2).out = some d := by
  obtain ⟨m2, es, m3, _, _, h⟩ := C18_hist_correct_partial toyCfg st toySched 2 (toySched_distFail st) (toyCfg_good 2)
    false false false [.e4 true true] (by decide) (by decide) (by decide)
  exact ⟨_, by rw [h]⟩

/-- `Rounds.Sound` (hypothesis of `C18_hist_complete_session`) is satisfiable:
the sha2pc rounds of a toy session. -/
example : ∃ m2 es m3, (toyCfg 1).rounds.Sound (T := sha2pcTy) m2 es m3 (toyCfg 1).result :=
  (toyCfg 1).rounds_sound (toyCfg_good 1)
example (st : Proc sha2pcTy) : ∃ d : Round2 × EvaluatorSession × Round3,
    Proc.runD (fun i => (toyCfg i).rounds) st toySched 1 =
      { m1 := some (toyCfg 1).rounds.r1.1, gs := some (toyCfg 1).rounds.r1.2, m2 := some d.1, es := some d.2.1,
        m3 := some d.2.2, out := some (toyCfg 1).result } := by
  obtain ⟨m2, es, m3, hs⟩ := (toyCfg 1).rounds_sound (toyCfg_good 1)
  exact ⟨(m2, es, m3), C18_hist_complete_session (fun i => (toyCfg i).rounds) st toySched 1 (toySched_distFail st)
    m2 es m3 _ hs true true false [.e4 false true, .e4 false false] (by decide) (by decide) (by decide)⟩

/-- Frame / isolation on the toy history: after round 4 of session 2 nothing
sessions 0 and 1 do afterwards changes its slots; a failed step changes
nothing at all (here: the random source of session 0's round 3 fails inside
the input labels); the state of session 2 is what its undisturbed steps give. -/
example (st : Proc sha2pcTy) :
    Proc.runD (fun i => (toyCfg i).rounds) st
      [⟨1, .e4 false true, none⟩, ⟨0, .g3 true true, some (.rng 99 0)⟩, ⟨0, .e4 true true, none⟩] 2 = st 2 :=
  (C18_hist_frame _).2.1 st _ 2 (by decide)
example (st : Proc sha2pcTy) :
    Proc.stepD (fun i => (toyCfg i).rounds) st ⟨0, .g3 false true, some (.rng 128 1)⟩ = st :=
  (C18_hist_frame _).2.2 st _
    (SessCfg.unconditional_fails toyCfg toyCfg_curve toyCfg_parity st _ (by decide) (by decide))
example (st : Proc sha2pcTy) :
    Proc.runD (fun i => (toyCfg i).rounds) st toySched 2 =
      (st 2).run (toyCfg 2).rounds [.g1, .e2 false, .g3 false false, .e4 true true] :=
  C18_hist_isolation _ st toySched 2 (toySched_distFail st)
example (st : Proc sha2pcTy) :
    Proc.runD (fun i => (toyCfg i).rounds) st toySched =
      Proc.run (fun i => (toyCfg i).rounds) st (cleanSched toySched) :=
  (C18_hist_failures_erased _ st toySched).2 (toySched_distFail st)

/-- Foreign messages: a process holding a garbler state (id 9) for session 0
and a round-2 message of another session (id 1 ≠ 9) for session 1; round 3 of session 0 on that
message is an error. -/
example (st : Proc sha2pcTy) (h0 : (st 0).gs = some toyGS) (h1 : (st 1).m2 = some toyR2) :
    Proc.stepResD (fun i => (toyCfg i).rounds) st ⟨0, .g3 false false, some (.foreignMsg 1)⟩ = some .error :=
  (C18_hist_faults_rejected toyCfg toyCfg_curve toyCfg_parity).2.1 st 0 1 toyGS toyR2 h0 h1 (by decide)
example (st : Proc sha2pcTy) (h0 : (st 0).es = some toyES) (h1 : (st 1).m3 = some toyR3) :
    Proc.stepResD (fun i => (toyCfg i).rounds) st ⟨0, .e4 false false, some (.foreignMsg 1)⟩ = some .error :=
  ((C18_hist_faults_rejected toyCfg toyCfg_curve toyCfg_parity).2.2 st 0 1 toyES toyR3 (by decide)).1 h0 h1

/-! ### environments -/

/-- the toy history with an environment per step: session 0 on one CPU, session
1 on three, session 2 on 61; the collector off while a step is disturbed -/
def toyEnvOf (e : Ev) : Env :=
  { procs := [1, 3, 61].getD e.sess 7, gc := if e.dist.isSome then none else some 100, wordBits := 64 }
def toySchedE : List EvE := toySched.map fun e => ⟨e, toyEnvOf e⟩
theorem toySchedE_erase : eraseEnv toySchedE = toySched := eraseEnv_attach _ _

/-- the environment changes between steps of the toy history -/
example : (toySchedE.map (·.env.procs)).take 6 = [1, 3, 3, 1, 1, 61] := by decide

/-- `C18_env_correct_partial`: its hypotheses are satisfiable (the model's own
family on the toy history with per-step environments), conclusion for session 0. -/
example (st : Proc sha2pcTy) :
    (Proc.runE (EnvCfg.const fun i => (toyCfg i).rounds) st toySchedE 0).out =
      some (bitsToBytes (toyCircuit.compute (bytesToBits (List.replicate 32 0x0f) ++ bytesToBits (List.replicate 32 0x35)))) := by
  obtain ⟨m2, es, m3, h⟩ := C18_env_correct_partial (EnvCfg.const fun i => (toyCfg i).rounds) toyCfg st toySchedE 0
    (EnvCfg.const_agrees _ _) (by rw [toySchedE_erase]; exact toySched_distFail st) (toyCfg_good 0)
    false false true [.e4 false false, .e4 true true] (by decide) (by decide) (by rw [toySchedE_erase]; decide)
  rw [h]
  rfl

/-- `C18_env_model_has_no_parameter` on the toy history. -/
example (st : Proc sha2pcTy) :
    Proc.runE (EnvCfg.const fun i => (toyCfg i).rounds) st toySchedE = Proc.runD (fun i => (toyCfg i).rounds) st toySched := by
  rw [(C18_env_model_has_no_parameter toyCfg).2.1 st toySchedE, toySchedE_erase]

/-- `C18_env_hist_eq`: the hypothesis is satisfiable by an implementation that
is NOT constant (`splitImpl` in environments whose worker count divides the
batch), and not by every implementation (the same with round 3 under 3 CPUs). -/
example : splitImpl.AgreesOn (fun _ => splitRounds 1) (splitSched 2 4) :=
  fun e he => funext fun _ => splitRounds_of_dvd _ (by
    simp only [splitSched, List.mem_cons, List.mem_nil_iff, or_false] at he
    rcases he with rfl | rfl | rfl | rfl <;> decide)
example : ¬ splitImpl.AgreesOn (fun _ => splitRounds 1) (splitSched 2 3) := by
  intro h
  have h' := (C18_env_hist_eq splitImpl _ (fun _ => {}) _ h).1
  have h3 := C18_env_dependence_witness.2.2.2.2.1
  have h1 := C18_env_dependence_witness.2.2.2.2.2
  rw [h'] at h3
  rw [h1] at h3
  cases h3

/-- Off-curve coordinates exist in the toy group: `(1, 1)` is not a curve point. -/
example : toyCrypto.ofPt ⟨1, 1⟩ = none ∧ (toyCrypto.ofPt ⟨1, 0⟩).isSome := by decide

end Mpc

/-
C05  Streaming mode agrees with whole-circuit mode.

Statement (properties.jsonl): for every two-party MPCL program and every pair
of inputs, streaming mode terminates with both parties returning identical
output values and types, equal to evaluating the whole compiled circuit.

What is proved here (the rest of the statement is carried by the
implementation-side oracle and the correspondence runs of checks/C05.py):

  wire side     * `C05_stream_step`: the gate record codec of
                  `Streaming.garbleGate` / `StreamEvaluator` is lossless, for
                  both id encodings and all flag combinations;
                * `C05_stream_gate`, `C05_stream_circuit`, `C05_stream_program`:
                  a streamed gate / circuit / sequence of circuits keeps the C01
                  relation (garbler pair, evaluator label, plain bit) on the
                  GLOBAL wire store, for every hash pair, offset, id maps and
                  every start value of the stream-wide tweak counter;
                * `C05_stream_undriven_output_keeps` / `_undefined`: an output
                  wire of a streamed circuit that no gate drives keeps the
                  value of the id's previous owner and is not a defined
                  location (hypothesis `hret` of `C05_stream_session` fails);
                  `C05_stream_output_slot_stale_witness`: the circuit the code
                  builds for a 4-bit Hamming distance is one (known findings
                  C05-stream-builder-result-slots-*);
  compile side  * `C05_gc_safe`: `Program.GC` (as of fix 0c2f851: `Concat` in
                  the alias operand list, liveness closed over direct AND
                  indirect aliases) never frees an id range that a later-read
                  value points into -- for EVERY well-formed step list;
                * `C05_gc_safe_transitive`: the general statement behind it (any
                  alias table that covers everything pointing into a value);
                * history: for the pass BEFORE 0c2f851 (`gcPassOld`, direct
                  aliases through seven operands) only
                  `C05_gcOld_safe_partial` holds; `C05_gcOld_unsafe_alias_chain`
                  and `C05_gcOld_unsafe_concat` are the two negation witnesses,
                  `C05_gcOld_chain_ids_collide` / `C05_gcOld_concat_ids_collide`
                  show the id collision in the allocator model, and
                  `C05_gc_witnesses_now_safe` runs the current pass on them.
                  The witnesses stay in the harness corpus (programs 0 and 1):
                  they gave wrong results on the real streaming pair before the
                  fix and agree with the whole circuit now.
                * `C05_gc_query_safe`: the same safety for EVERY implementation
                  of the `aliasLive` query, with any state kept between queries,
                  provided each answer is sound for the set it is asked about
                  (`CurrentSound`); `C05_gc_query_table` /
                  `C05_gc_current_set_sound`: `Program.GC` as it is is the
                  stateless instance and is current-sound.
                  `C05_gcMemo_unsafe` / `C05_gcMemo_not_current_sound` /
                  `C05_gcMemo_ids_collide`: a memo table of answers that lives
                  for the whole backward pass is NOT (witness: an array update
                  chain in one branch of an if / else whose stored scalar is used
                  once more).
-/
import MpcVerif.Proofs.Gc
import MpcVerif.Proofs.GcQuery
import MpcVerif.Proofs.Stream
import MpcVerif.Model.LabelBV
import MpcVerif.Model.Proto2

namespace Mpc
open LabelAlg Mpc.Gc Mpc.Stream

/-! ## Wire side -/

/-- Encode then decode of one streamed gate record is the identity, whatever
follows it on the wire: both id encodings (`short` or not), all eight
temporary-flag combinations, all five operations. -/
theorem C05_stream_step {L : Type} [LabelBytes L] (g : GateRec L) (rest : List Nat) (h : RecWF g) :
    decodeRec (encodeRec g ++ rest) = some (g, rest) :=
  decode_encode g rest h

/-- The same for a whole circuit's records. -/
theorem C05_stream_steps {L : Type} [LabelBytes L] (gs : List (GateRec L)) (rest : List Nat)
    (h : ∀ g ∈ gs, RecWF g) :
    decodeRecs gs.length (encodeRecs gs ++ rest) = some (gs, rest) :=
  decodeRecs_encodeRecs gs rest h

/-- The records the garbler emits are well formed as long as wire ids fit in
32 bits (they are `uint32` in Go). -/
theorem C05_stream_records_wf {L : Type} [LabelAlg L] (H : Hash L) (r : L) (cx : SCtx) (g : Gate)
    (gs : SStore (WireL L)) (id : Nat) (hin : ∀ w, (cx.locate w).2 < 2 ^ 32) :
    RecWF (streamGarbleGate H r cx g gs id).2.2 :=
  streamGarbleGate_recWF H r cx g gs id hin

/-! Non-vacuity: an INV record with a 32-bit id and an AND record at the
16/32-bit boundary. -/
def exRecInv : GateRec (BitVec 128) :=
  { op := .inv, aTmp := true, bTmp := false, cTmp := false, a := 70000, b := 0, c := 3, rows := [0#128] }

def exRecAnd : GateRec (BitVec 128) :=
  { op := .and, aTmp := false, bTmp := true, cTmp := false, a := 65536, b := 2, c := 65535,
    rows := [1#128, 2#128] }

example : RecWF exRecInv := ⟨by decide, by decide, by decide, by decide, by intro _; rfl⟩
example : RecWF exRecAnd := ⟨by decide, by decide, by decide, by decide, by intro h; cases h⟩
example : (encodeRec exRecAnd).length = 1 + 12 + 32 ∧ (encodeRec exRecInv).length = 1 + 8 + 16 := by
  decide +kernel

variable {L : Type} [LabelAlg L]

/-- One streamed gate maintains the C01 relation on the two-level store. -/
theorem C05_stream_gate (H : Hash L) (r : L) (hr : sbit r = true) (cx : SCtx) (g : Gate)
    (gs : SStore (WireL L)) (es : SStore L) (ps : SStore Bool) (id : Nat) (D : Loc → Prop)
    (hinv : SInv r D gs es ps)
    (ha : D (cx.locate g.in0)) (hb : g.op.binary = true → D (cx.locate g.in1)) :
    ∃ es', streamEvalGate H (streamGarbleGate H r cx g gs id).2.2 es id =
        .ok (es', (streamGarbleGate H r cx g gs id).2.1) ∧
      (streamGarbleGate H r cx g gs id).2.1 = id + g.op.tweaks ∧
      SInv r (fun l => l = cx.locate g.out ∨ D l) (streamGarbleGate H r cx g gs id).1 es'
        (streamPlainGate cx g ps) :=
  stream_gate_step H r hr cx g gs es ps id D hinv ha hb

/-- One streamed circuit (`Streaming.Garble` / one `OpCircuit` block of
`StreamEvaluator`): no error branch, both tweak counters advance by the same
amount, and on every location defined before or by the circuit the evaluator
holds the label of the plain value. -/
theorem C05_stream_circuit (H : Hash L) (r : L) (hr : sbit r = true) (cx : SCtx) (gates : List Gate)
    (gs : SStore (WireL L)) (es : SStore L) (ps : SStore Bool) (id : Nat) (D : Loc → Prop)
    (hinv : SInv r D gs es ps) (hwf : sWf cx gates D) :
    ∃ es', streamEval H (Stream.streamGarble H r cx gates gs id).2.2 es id =
        .ok (es', (Stream.streamGarble H r cx gates gs id).2.1) ∧
      SInv r (sDefinedAfter cx gates D) (Stream.streamGarble H r cx gates gs id).1 es'
        (streamPlain cx gates ps) := by
  obtain ⟨es', h1, h2⟩ := stream_lockstep H r hr cx gates gs es ps id D hinv hwf
  exact ⟨es', by simpa [streamEval, Stream.streamGarble] using h1, by simpa [Stream.streamGarble] using h2⟩

/-- A streamed program: a sequence of circuits, each with its own id maps. -/
abbrev SProg := List (SCtx × List Gate)

def garbleAll (H : Hash L) (r : L) : SProg → SStore (WireL L) → Nat →
    SStore (WireL L) × Nat × List (List (GateRec L))
  | [], st, id => (st, id, [])
  | (cx, gates) :: rest, st, id =>
    let res := Stream.streamGarble H r cx gates st id
    let more := garbleAll H r rest res.1 res.2.1
    (more.1, more.2.1, res.2.2 :: more.2.2)

def evalAll (H : Hash L) : List (List (GateRec L)) → SStore L → Nat → Except EvalErr (SStore L × Nat)
  | [], st, id => .ok (st, id)
  | recs :: rest, st, id =>
    match streamEval H recs st id with
    | .error e => .error e
    | .ok (st1, id1) => evalAll H rest st1 id1

def plainAll : SProg → SStore Bool → SStore Bool
  | [], st => st
  | (cx, gates) :: rest, st => plainAll rest (streamPlain cx gates st)

def definedAll : SProg → (Loc → Prop) → (Loc → Prop)
  | [], D => D
  | (cx, gates) :: rest, D => definedAll rest (sDefinedAfter cx gates D)

def wfAll : SProg → (Loc → Prop) → Prop
  | [], _ => True
  | (cx, gates) :: rest, D => sWf cx gates D ∧ wfAll rest (sDefinedAfter cx gates D)

/-- The whole stream: if every circuit only reads locations that hold related
values (program inputs, outputs of earlier circuits, its own temporaries
after they were written), then the evaluator runs through without an error
and ends, on every defined location -- in particular on the return wires --
with the label of the bit that the composition of the circuits' plain
semantics on the global store gives.  Whether that composition is the
program's meaning is exactly the soundness of the id maps, i.e. of
`Program.GC` + `WireAllocator` (below). -/
theorem C05_stream_program (H : Hash L) (r : L) (hr : sbit r = true) (p : SProg) :
    ∀ (gs : SStore (WireL L)) (es : SStore L) (ps : SStore Bool) (id : Nat) (D : Loc → Prop),
      SInv r D gs es ps → wfAll p D →
      ∃ es', evalAll H (garbleAll H r p gs id).2.2 es id = .ok (es', (garbleAll H r p gs id).2.1) ∧
        SInv r (definedAll p D) (garbleAll H r p gs id).1 es' (plainAll p ps) := by
  induction p with
  | nil =>
    intro gs es ps id D hinv _
    exact ⟨es, rfl, hinv⟩
  | cons c rest ih =>
    obtain ⟨cx, gates⟩ := c
    intro gs es ps id D hinv hwf
    obtain ⟨es1, h1, hinv1⟩ := C05_stream_circuit H r hr cx gates gs es ps id D hinv hwf.1
    obtain ⟨es2, h2, hinv2⟩ := ih _ es1 _ (Stream.streamGarble H r cx gates gs id).2.1 _ hinv1 hwf.2
    refine ⟨es2, ?_, ?_⟩
    · simp only [garbleAll, evalAll, h1]
      exact h2
    · simpa [garbleAll, definedAll, plainAll] using hinv2

/-- Decoding the evaluator's label on a related location gives the plain bit
(what the garbler does with the returned labels at the end of
`Program.Stream`). -/
theorem C05_stream_decode [DecidableEq L] (r : L) (hr : sbit r = true) (gw : WireL L) (e : L) (v : Bool)
    (h : Rel r gw e v) : gw.bitFrom e = some v := by
  obtain ⟨h1, h2⟩ := h
  subst h2
  have hne : gw.l0 ≠ gw.l1 := by
    intro heq
    rw [h1] at heq
    have : gw.l0 ^^^ (gw.l0 ^^^ r) = (LabelAlg.zero : L) := by rw [← heq]; simp
    rw [xor_xor_cancel_left] at this
    exact ne_zero_of_sbit r hr this
  unfold WireL.bitFrom WireL.labelFor
  cases v
  · simp
  · simp [Ne.symm hne]

/-! ### The whole streaming session: circuits, `OpReturn`, result decoding

The tail of `Program.Stream` / `StreamEvaluator`: on `ret` the garbler sends
`OpReturn` and the wire ids of the return values (`retIds`, in result bit
order); the evaluator answers `OpResult` with the labels it holds on those
ids; the garbler compares the i-th label with the two labels of wire
`retIds[i]` (`L0` gives 0, `L1` gives 1, anything else is the error "unknown
label") -- `Mpc.decodeLabels` of Model/Proto2.lean, the same decoding as in
whole-circuit mode -- and sends the bits back, so both parties return the
same value. -/

/-- One streaming session after the input phase: `gs0` / `es0` are the two
parties' wire stores once the garbler's own input labels and the OT'd labels
of the evaluator's input are in place. -/
def streamSession [DecidableEq L] (H : Hash L) (r : L) (p : SProg) (retIds : List Nat)
    (gs0 : SStore (WireL L)) (es0 : SStore L) : Except ProtoErr (List Bool) :=
  let g := garbleAll H r p gs0 0
  match evalAll H g.2.2 es0 0 with
  | .error e => .error (.eval e)
  | .ok (es, _) => decodeLabels (retIds.map g.1.getGlob) (retIds.map es.getGlob)

theorem decodeLabels_rel [DecidableEq L] (r : L) (hr : sbit r = true) (gs : SStore (WireL L)) (es : SStore L)
    (ps : SStore Bool) (ids : List Nat)
    (h : ∀ w ∈ ids, Rel r (gs.getGlob w) (es.getGlob w) (ps.getGlob w)) :
    decodeLabels (ids.map gs.getGlob) (ids.map es.getGlob) = .ok (ids.map ps.getGlob) := by
  induction ids with
  | nil => rfl
  | cons w ws ih =>
    simp only [List.map_cons, decodeLabels]
    rw [C05_stream_decode r hr _ _ _ (h w List.mem_cons_self)]
    simp only [ih (fun x hx => h x (List.mem_cons_of_mem _ hx))]

/-- Streaming-mode counterpart of `C02_both_get_f`: for every hash pair, offset
with select bit, id maps and streamed program that only reads related
locations (`wfAll`), with the return wires among the defined global wires, the
session takes no error branch and the garbler decodes exactly the bits that
the composition of the circuits' plain semantics puts on the return wires
(which it then sends to the evaluator: both parties return them). -/
theorem C05_stream_session [DecidableEq L] (H : Hash L) (r : L) (hr : sbit r = true) (p : SProg)
    (retIds : List Nat) (gs0 : SStore (WireL L)) (es0 : SStore L) (ps0 : SStore Bool) (D : Loc → Prop)
    (hinv : SInv r D gs0 es0 ps0) (hwf : wfAll p D)
    (hret : ∀ w ∈ retIds, definedAll p D (false, w)) :
    streamSession H r p retIds gs0 es0 = .ok (retIds.map (plainAll p ps0).getGlob) := by
  obtain ⟨es', hev, hfin⟩ := C05_stream_program H r hr p gs0 es0 ps0 0 D hinv hwf
  unfold streamSession
  simp only [hev]
  exact decodeLabels_rel r hr _ es' _ retIds (fun w hw => hfin (false, w) (hret w hw))

/-! Non-vacuity: a two-circuit stream with ids on both sides of 65535, a
temporary wire, and a circuit that reads the previous circuit's output. -/
def exProg : SProg :=
  [({ ins := [3, 70000], outs := [70001], numWires := 4 }, [⟨.and, 0, 1, 2⟩, ⟨.inv, 2, 0, 3⟩]),
   ({ ins := [70001, 3], outs := [5], numWires := 3 }, [⟨.or, 0, 1, 2⟩])]

example : wfAll exProg (fun l => l = (false, 3) ∨ l = (false, 70000)) := by
  simp [exProg, wfAll, sWf, sDefinedAfter, SCtx.locate, SCtx.firstTmp, SCtx.firstOut, Op.binary]

example : ∀ w ∈ [5, 70001], definedAll exProg (fun l => l = (false, 3) ∨ l = (false, 70000)) (false, w) := by
  simp [exProg, definedAll, sDefinedAfter, SCtx.locate, SCtx.firstTmp, SCtx.firstOut]

/-! ### A circuit output that no gate drives

`C05_stream_session` needs `hret`: every return wire is DEFINED by the streamed
circuits.  Whether the instruction circuits that `Program.Stream` builds drive
all their outputs is not modelled (the builders of compiler/circuits are
validated by the oracle); the two lemmas say what the wire side does when one
does not, and the witness is the circuit the code builds for
`builtin uint4 uint4 uint4` (`native("hamming", a, b)`): `circuits.NewAdder`
REPLACES the leftover slot 3 of the result slice with the constant-zero wire
instead of driving the wire in it, `Program.Stream` uses that slice as the
circuit's output wires (it flags them before the builder runs), the zero wire
is pruned and gets a fresh id as an "output": 15 gates, 24 wires, no gate
writes wire 23.  With two or more replaced slots (operands of 6 bits or more)
`circuits.Compiler.Compile` panics "Output already assigned" instead.
Known findings C05-stream-builder-result-slots-{panic,stale}; both are
replayed on the real streaming pair by the harness (class lib and its corpus);
repair candidate hooks/c05-stream-builder-result-slots.patch. -/

/-- A streamed circuit leaves every location that none of its gates writes as
it was: the value (at the parties: the labels) of whatever had the id before. -/
theorem C05_stream_undriven_output_keeps (cx : SCtx) (gates : List Gate) (l : Loc)
    (h : ∀ g ∈ gates, cx.locate g.out ≠ l) (ps : SStore Bool) :
    (streamPlain cx gates ps).get l = ps.get l := by
  induction gates generalizing ps with
  | nil => rfl
  | cons g gs ih =>
    rw [streamPlain_cons, ih (fun g' hg' => h g' (List.mem_cons_of_mem _ hg'))]
    unfold streamPlainGate
    rw [SStore.get_set]
    simp [h g List.mem_cons_self]

/-- ... and such a location is not among those the circuit defines: `hret` of
`C05_stream_session` cannot be established for it. -/
theorem C05_stream_undriven_output_undefined (cx : SCtx) (gates : List Gate) (l : Loc)
    (h : ∀ g ∈ gates, cx.locate g.out ≠ l) (D : Loc → Prop) (hD : ¬ D l) :
    ¬ sDefinedAfter cx gates D l := by
  induction gates generalizing D with
  | nil => exact hD
  | cons g gs ih =>
    apply ih (fun g' hg' => h g' (List.mem_cons_of_mem _ hg'))
    intro hc
    rcases hc with hc | hc
    · exact h g List.mem_cons_self hc.symm
    · exact hD hc

/-- The instruction circuit `Program.Stream` compiles for a 4-bit Hamming
distance on the tree without the repair (circuit-local wire numbers: inputs
0..7, outputs 20..23). -/
def hamming4Streamed : List Gate :=
  [⟨.xor, 0, 4, 8⟩, ⟨.xor, 1, 5, 9⟩, ⟨.xor, 2, 6, 10⟩, ⟨.xor, 3, 7, 11⟩, ⟨.xor, 8, 9, 12⟩, ⟨.and, 8, 9, 13⟩,
   ⟨.xor, 10, 11, 14⟩, ⟨.and, 10, 11, 15⟩, ⟨.xor, 12, 14, 20⟩, ⟨.and, 12, 14, 16⟩, ⟨.xor, 15, 16, 17⟩,
   ⟨.xor, 13, 16, 18⟩, ⟨.xor, 13, 17, 21⟩, ⟨.and, 17, 18, 19⟩, ⟨.xor, 16, 19, 22⟩]

/-- `a` on ids 20..23, `b` on ids 30..33, the result on the recycled ids 10..13. -/
def hamming4Ctx : SCtx := { ins := [20, 21, 22, 23, 30, 31, 32, 33], outs := [10, 11, 12, 13], numWires := 24 }

/-- a = 8, b = 0; id 13 still holds bit 3 (= 1) of a dead 4-bit value. -/
def hamming4Stale : SStore Bool := (SStore.empty.setGlob 23 true).setGlob 13 true
def hamming4Fresh : SStore Bool := SStore.empty.setGlob 23 true

/-- Negation witness for "streaming = whole circuit" at the instruction-circuit
stage: no gate drives result bit 3, so the streamed Hamming distance of 8 and 0
is 9 when id 13 was used before (whole circuit: 1) and 1 only when it was not. -/
theorem C05_stream_output_slot_stale_witness :
    (∀ g ∈ hamming4Streamed, hamming4Ctx.locate g.out ≠ (false, 13)) ∧
    [10, 11, 12, 13].map (streamPlain hamming4Ctx hamming4Streamed hamming4Stale).getGlob =
      [true, false, false, true] ∧
    [10, 11, 12, 13].map (streamPlain hamming4Ctx hamming4Streamed hamming4Fresh).getGlob =
      [true, false, false, false] := by
  refine ⟨by decide, by decide, by decide⟩

example : ¬ sDefinedAfter hamming4Ctx hamming4Streamed (fun l => l.1 = false ∧ l.2 ∈ hamming4Ctx.ins) (false, 13) :=
  C05_stream_undriven_output_undefined _ _ _ C05_stream_output_slot_stale_witness.1 _ (by decide)

/-! ## Compile side -/

/-- The pass BEFORE 0c2f851 (`gcPassOld`) was safe only for programs in which
every rewired value (cast, constant shift, slice, move, array update) is
rewired directly from a value that owns its wires, and `concat` is applied to
constants only; for alias-of-alias chains and `concat` it was not (witnesses
below). -/
theorem C05_gcOld_safe_partial (prog out : List Step) (hwf : WF prog) (hnc : NoChain prog)
    (hcc : NoConcat prog) (hgc : gcPassOld prog = some out) : Safe prog out := by
  unfold gcPassOld gcPassWith at hgc
  cases hlast : prog.getLast? with
  | none => rw [hlast] at hgc; cases hgc
  | some last =>
    rw [hlast] at hgc
    simp only at hgc
    split at hgc
    · cases hgc
    · simp only [Option.some.injEq] at hgc
      intro pre post g hsplit hgop a ha t ht htop b hb hbc hpt
      have hal : ∀ d ∈ prog, d.op.gcAliasOld = true → ∀ a ∈ d.ins, a.const = false →
          ∀ w, d.outId = some w → w ∈ aliasesOfOld prog a.id := by
        intro d hd hda a ha hac w hw
        exact (mem_aliasesOfOld prog a.id w).mpr ⟨d, hd, hda, reads_of_mem d a ha hac, hw⟩
      obtain ⟨a0, hg0, _, hdir⟩ := gcBack_direct prog (aliasesOfOld prog) (last.ins.map (·.id))
        hwf.nogc hwf.ssa hal [] prog rfl hwf.dbu pre post g (by rw [hgc]; exact hsplit) hgop
      have haa : a = a0 := by
        rw [hg0] at ha
        simpa [gcStep] using ha
      subst haa
      obtain ⟨hne, hnal⟩ := hdir t ht htop b hb hbc
      rcases pointsInto_nochain prog hnc b.id a.id hpt with heq | ⟨s, hs, hrw, hout, a', ha', ha'c, ha'id⟩
      · exact hne heq
      · apply hnal
        refine ⟨s, hs, gcAliasOld_of_rewires s.op hrw ?_, hout, a', ha', ha'c, ha'id⟩
        intro hconcat
        have := hcc s hs hconcat a' ha'
        rw [ha'c] at this; cases this

/-- The general statement: if the alias table consulted by the backward pass
lists, for every value `v`, every value that points into `v` (transitively,
through all eight rewiring operands), the inserted `gc`s are safe for EVERY
well-formed program. -/
theorem C05_gc_safe_transitive (prog out : List Step) (al : Nat → List Nat) (hwf : WF prog)
    (hal : ∀ w v, PointsInto prog w v → w ≠ v → w ∈ al v)
    (hgc : gcPassWith al prog = some out) : Safe prog out := by
  unfold gcPassWith at hgc
  cases hlast : prog.getLast? with
  | none => rw [hlast] at hgc; cases hgc
  | some last =>
    rw [hlast] at hgc
    simp only at hgc
    split at hgc
    · cases hgc
    · simp only [Option.some.injEq] at hgc
      intro pre post g hsplit hgop a ha t ht htop b hb hbc hpt
      obtain ⟨a0, hg0, _, hsafe⟩ := gcBack_covered prog al (last.ins.map (·.id))
        hwf.nogc hwf.ssa hal [] prog rfl hwf.dbu pre post g (by rw [hgc]; exact hsplit) hgop
      have haa : a = a0 := by
        rw [hg0] at ha
        simpa [gcStep] using ha
      subst haa
      exact hsafe t ht htop b hb hbc hpt

/-- MAIN compile-side theorem, for `Program.GC` as it is: after GC insertion no
id range is returned to a free list while a value whose ids point into it
(transitively, through mov / smov / slice / lshift / rshift / srshift / amov /
concat rewiring) is still read later.  No restriction on aliasing. -/
theorem C05_gcInsert_safe (prog out : List Step) (hwf : WF prog) (hgc : gcInsert prog = some out) :
    Safe prog out :=
  C05_gc_safe_transitive prog out (aliasClosure (aliasesOf prog) prog.length) hwf
    (fun w v h hne => closure_covers prog hwf.dbu w v h hne) hgc

/-- `Program.GC` = `defineBeforeUse` + gc insertion, on a well-formed list. -/
theorem C05_gc_safe (prog out : List Step) (hwf : WF prog) (hgc : gcPass prog = some out) :
    Safe prog out := by
  unfold gcPass at hgc
  rw [defineBeforeUse_id prog hwf.dbu] at hgc
  exact C05_gcInsert_safe prog out hwf hgc

/-- ... and on any list whose reordering is well formed (`wfSteps` of the real
step list is evaluated on every compilation by the check). -/
theorem C05_gc_safe_reordered (prog out : List Step) (hwf : WF (defineBeforeUse prog))
    (hgc : gcPass prog = some out) : Safe (defineBeforeUse prog) out :=
  C05_gcInsert_safe (defineBeforeUse prog) out hwf hgc

def mkV (id bits : Nat) : Arg := { const := false, id := id, key := id, bits := bits, signed := false, cint := 0 }
def mkC (id bits n : Nat) : Arg := { const := true, id := id, key := id, bits := bits, signed := false, cint := n }

/-- Non-vacuity: `t0 := a >> 1; t2 := t0 + b; t3 := b + 3; return t2, t3` --
a rewired value, computed values, three `gc`s inserted. -/
def okProg : List Step :=
  [⟨.rshift, [mkV 0 8, mkC 10 32 1], some (mkV 2 8)⟩,
   ⟨.circ, [mkV 2 8, mkV 1 8], some (mkV 4 8)⟩,
   ⟨.circ, [mkV 1 8, mkC 11 8 3], some (mkV 5 8)⟩,
   ⟨.ret, [mkV 4 8, mkV 5 8], none⟩]

example : WF okProg := ⟨by decide, by decide, by decide⟩
example : NoChain okProg := by unfold NoChain; decide
example : NoConcat okProg := by unfold NoConcat; decide
example : gcPass okProg = some
    [okProg[0], okProg[1], gcStep (mkV 2 8), okProg[2], gcStep (mkV 1 8), okProg[3]] := by decide

/-- The 5-step alias-chain witness (DESIGN.md section 0):
`t0 := a >> 1; t1 := t0 >> 1; t2 := a + b; t3 := b + 3; return t1, t2, t3`. -/
def chainProg : List Step :=
  [⟨.rshift, [mkV 0 8, mkC 10 32 1], some (mkV 2 8)⟩,
   ⟨.rshift, [mkV 2 8, mkC 10 32 1], some (mkV 3 8)⟩,
   ⟨.circ, [mkV 0 8, mkV 1 8], some (mkV 4 8)⟩,
   ⟨.circ, [mkV 1 8, mkC 11 8 3], some (mkV 5 8)⟩,
   ⟨.ret, [mkV 3 8, mkV 4 8, mkV 5 8], none⟩]

/-- What the model of the OLD `Program.GC` made of it: `gc a` right after `a + b`,
although `t1` (returned at the end) is wired to `a`'s ids through `t0`. -/
def chainOut : List Step :=
  [chainProg[0], chainProg[1], chainProg[2], gcStep (mkV 0 8), chainProg[3], gcStep (mkV 1 8), chainProg[4]]

theorem C05_gcOld_chain_pass : gcPassOld chainProg = some chainOut := by decide

/-- Negation witness 1 (old pass): safety failed on a well-formed program with
an alias-of-alias chain. -/
theorem C05_gcOld_unsafe_alias_chain :
    WF chainProg ∧ gcPassOld chainProg = some chainOut ∧ ¬ Safe chainProg chainOut := by
  refine ⟨⟨by decide, by decide, by decide⟩, C05_gcOld_chain_pass, ?_⟩
  intro h
  refine h [chainProg[0], chainProg[1], chainProg[2]] [chainProg[3], gcStep (mkV 1 8), chainProg[4]]
    (gcStep (mkV 0 8)) rfl rfl (mkV 0 8) (by simp [gcStep]) chainProg[4] (by simp) (by decide)
    (mkV 3 8) (by decide) rfl ?_
  -- t1 -> t0 -> a
  refine PointsInto.step chainProg[1] (mkV 2 8) 3 0 (by decide) rfl rfl (by decide) rfl ?_
  refine PointsInto.step chainProg[0] (mkV 0 8) 2 0 (by decide) rfl rfl (by decide) rfl ?_
  exact PointsInto.self 0 (by decide)

/-- ... and in the allocator model the freed range is handed to the very next
8-bit value: the ids returned for `t1` (first 8) and for `t3 = b + 3` (last 8)
overlap, so the evaluator reads bits of `b + 3` where bits of `a >> 2` are
meant.  Go: `[20 24 80]` instead of `[50 24 80]` for a=203, b=77. -/
theorem C05_gcOld_chain_ids_collide :
    let tr := (streamTrace [⟨0, 8, 0⟩, ⟨1, 8, 0⟩]
      [⟨10, 0, [true, false, false, false]⟩, ⟨11, 0, [true, true, false, false, false, false, false, false]⟩]
      chainOut).2
    tr.retIds.length = 24 ∧
    ((tr.retIds.take 8).filter fun i => (tr.retIds.drop 16).contains i) = [2, 3, 4, 5, 6, 7] := by
  decide +kernel

/-- The `concat` witness: `y := b * 3; e := a ++ K; x := y + 5; return e, x`
(`a` a 32-bit array, `concat` is rewired by the streamer but is not in GC's
alias list). -/
def concatProg : List Step :=
  [⟨.circ, [mkV 1 32, mkC 10 32 3], some (mkV 2 32)⟩,
   ⟨.concat, [mkV 0 32, mkC 11 32 0], some (mkV 3 64)⟩,
   ⟨.circ, [mkV 2 32, mkC 12 32 5], some (mkV 4 32)⟩,
   ⟨.ret, [mkV 3 64, mkV 4 32], none⟩]

def concatOut : List Step :=
  [concatProg[0], gcStep (mkV 1 32), concatProg[1], gcStep (mkV 0 32), concatProg[2], gcStep (mkV 2 32),
   concatProg[3]]

/-- Negation witness 2 (old pass): a direct `concat` alias was enough. -/
theorem C05_gcOld_unsafe_concat :
    WF concatProg ∧ gcPassOld concatProg = some concatOut ∧ ¬ Safe concatProg concatOut := by
  refine ⟨⟨by decide, by decide, by decide⟩, by decide, ?_⟩
  intro h
  refine h [concatProg[0], gcStep (mkV 1 32), concatProg[1]] [concatProg[2], gcStep (mkV 2 32), concatProg[3]]
    (gcStep (mkV 0 32)) rfl rfl (mkV 0 32) (by simp [gcStep]) concatProg[3] (by simp) (by decide)
    (mkV 3 64) (by decide) rfl ?_
  refine PointsInto.step concatProg[1] (mkV 0 32) 3 0 (by decide) rfl rfl (by decide) rfl ?_
  exact PointsInto.self 0 (by decide)

theorem C05_gcOld_concat_ids_collide :
    let tr := (streamTrace [⟨0, 32, 0⟩, ⟨1, 32, 0⟩]
      [⟨10, 0, [true, true]⟩, ⟨11, 0, List.replicate 32 false⟩, ⟨12, 0, [true, false, true]⟩] concatOut).2
    tr.retIds.length = 96 ∧ tr.retIds.take 32 = (tr.retIds.drop 64) := by
  decide +kernel

/-- The current pass on the two witnesses: `gc a` is no longer emitted. -/
theorem C05_gc_witnesses_now_safe :
    gcPass chainProg =
      some [chainProg[0], chainProg[1], chainProg[2], chainProg[3], gcStep (mkV 1 8), chainProg[4]] ∧
    gcPass concatProg =
      some [concatProg[0], gcStep (mkV 1 32), concatProg[1], concatProg[2], gcStep (mkV 2 32), concatProg[3]] := by
  decide

/-! ### Definition before use (finding C05-ssa-use-before-def)

`C05_gc_safe` assumes `WF prog`, in particular `dbu`: a value read by a step is
not defined by that step or a later one.  `wfSteps` is evaluated on every real
step list by the correspondence run.  Before 73f8795 it FAILED for programs
with an early return: a lazily resolved phi is emitted into the else block
while the continuation that reads it is serialised earlier.  Witness: the step
list of

    func main(a, b uint8) uint8 {
        if a > 5 { b = 31 }
        if a > 2 { a = a + 1 } else { b = 7; return b }
        return b + a }

(values: a=0 b=1 t0=2 t1=3 t2=4 t3=5 (the phi of b) t4=6 r2=7 b1=8 a1=9 b2=10
r1=11 t5=12). -/
def ubdProg : List Step :=
  [⟨.circ, [mkV 0 8, mkC 20 8 5], some (mkV 2 1)⟩,
   ⟨.mov, [mkC 21 8 31], some (mkV 8 8)⟩,
   ⟨.circ, [mkV 0 8, mkC 22 8 2], some (mkV 3 1)⟩,
   ⟨.circ, [mkV 0 8, mkC 23 8 1], some (mkV 4 8)⟩,
   ⟨.mov, [mkV 4 8], some (mkV 9 8)⟩,
   ⟨.circ, [mkV 5 8, mkV 4 8], some (mkV 6 8)⟩,          -- uadd reads the phi value t3 ...
   ⟨.mov, [mkV 6 8], some (mkV 7 8)⟩,
   ⟨.circ, [mkV 2 1, mkC 21 8 31, mkV 1 8], some (mkV 5 8)⟩,  -- ... which is defined here
   ⟨.mov, [mkC 24 8 7], some (mkV 10 8)⟩,
   ⟨.mov, [mkC 24 8 7], some (mkV 11 8)⟩,
   ⟨.circ, [mkV 3 1, mkV 7 8, mkV 11 8], some (mkV 12 8)⟩,
   ⟨.ret, [mkV 12 8], none⟩]

/-- `defineBeforeUse` (73f8795) is the identity on step lists that are already
in definition-before-use order: every other program's steps (and circuit) are
unchanged by the fix. -/
theorem C05_defineBeforeUse_id (prog : List Step) (h : dbu prog = true) : defineBeforeUse prog = prog :=
  defineBeforeUse_id prog h

/-- Old behaviour (before 73f8795, no reordering: `gcInsert` directly on the
serialised steps): the witness list is not in definition-before-use order and
the gc insertion frees the phi value `t3` -- after what it takes for its last
use -- BEFORE the step that defines it; the streaming walker had by then
allocated fresh, never garbled wires for it (Go: streamed 0x0a for a=9, b=100;
whole circuit 0x29).  With the fix the list is reordered: a permutation in
definition-before-use order, and `t3` is freed after its definition and use. -/
theorem C05_old_use_before_def_witness :
    wfSteps ubdProg = false ∧ dbu ubdProg = false ∧
    (∃ out, gcInsert ubdProg = some out ∧
      out.findIdx? (· == gcStep (mkV 5 8)) = some 8 ∧ out.findIdx? (fun s => s.outId == some 5) = some 10) ∧
    wfSteps (defineBeforeUse ubdProg) = true ∧
    (defineBeforeUse ubdProg).length = ubdProg.length ∧
    (∀ s ∈ ubdProg, s ∈ defineBeforeUse ubdProg) ∧
    (∃ out, gcPass ubdProg = some out ∧
      out.findIdx? (fun s => s.outId == some 5) = some 6 ∧ out.findIdx? (· == gcStep (mkV 5 8)) = some 11) := by
  refine ⟨by decide, by decide, ⟨_, rfl, by decide, by decide⟩, by decide, by decide, by decide,
    ⟨_, rfl, by decide, by decide⟩⟩

/-! ### The allocator's hash buckets

`WireAllocator` finds a value's header by walking the chain of its hash
bucket (`Value.HashCode() % 10240`); `lookup` moves a header found at depth 3
or deeper to the head, `remove` (used by `GCWires`) unlinks the header it
finds.  Several live values can share a bucket. -/

/-- `remove v` returns `v`'s header, deletes exactly it, and every other
value's header stays findable and unchanged, at any position of `v` in the
chain. -/
theorem C05_walloc_remove_exact (c : List Entry) (k : Nat) (hn : KeysNodup c) :
    (chainRemove c k).1 = c.find? (·.key == k) ∧
    (chainRemove c k).2.find? (·.key == k) = none ∧
    (∀ k', k' ≠ k → (chainRemove c k).2.find? (·.key == k') = c.find? (·.key == k')) ∧
    KeysNodup (chainRemove c k).2 :=
  chainRemove_spec c k hn

/-- `lookup v` finds `v`'s header iff the chain has one; its move-to-front
changes the result of no lookup. -/
theorem C05_walloc_lookup_exact (c : List Entry) (k : Nat) (hn : KeysNodup c) :
    (chainLookup c k).1 = c.find? (·.key == k) ∧
    (∀ k', (chainLookup c k).2.find? (·.key == k') = c.find? (·.key == k')) ∧
    KeysNodup (chainLookup c k).2 :=
  chainLookup_spec c k hn

/-- Non-vacuity: a bucket shared by three live values; looking up the oldest
moves it to the front, removing the middle one keeps the other two. -/
def exChain : List Entry :=
  [⟨7, some 30, none, none⟩, ⟨5, some 20, none, none⟩, ⟨3, some 10, none, none⟩]

example : KeysNodup exChain := by unfold KeysNodup; decide
example : ((chainLookup exChain 3).2.map (·.key)) = [3, 7, 5] := by decide
example : ((chainRemove exChain 5).2.map (·.key)) = [7, 3] := by decide

/-! ### Constants used at a second width (finding C05-stream-const-second-width,
fixed by b2bd1e4)

Between 3c18dfa and b2bd1e4 `Program.Circuit` took the bits of a constant used
at a second width from the constant's own value while `Program.Stream` still
adapted the first instance's wires (`padFromFirst`); the oracle found the
disagreement.  Since b2bd1e4 both do the same (`padFromOwn`; the model of the
streamer's wire ids, `inputWires`, uses exactly that formula).  History: -/

/-- The two modes agree whenever the first instance of the constant was
allocated at the constant's own width and the use is at least that wide. -/
theorem C05_const_pad_partial (v : List Bool) (own bits : Nat) (signed : Bool) (h1 : 0 < own)
    (h2 : own ≤ v.length) (h3 : own ≤ bits) :
    padFromFirst (v.take own) signed bits = padFromOwn v own signed bits :=
  pad_agree v own bits signed h1 h2 h3

/-- Negation witness: the constant `-4` (own size 32, bits of 0xfffffffc) first
used as `int53` -- `DefineConstants` gives it 53 wires, the upper 21 zero --
and then as `int40`: streaming truncates the 53 wires (bits 32..39 = 0,
value 0x00fffffffc), whole-circuit mode sign-extends from bit 31
(0xfffffffffc).  Go: `int53(-4)` ... `return int40(-4)`. -/
theorem C05_const_second_width_witness :
    let v := (List.range 32).map fun i => decide (2 ≤ i)        -- 0xfffffffc, LSB first
    let first := v ++ List.replicate 21 false                   -- the int53 instance
    padFromFirst first true 40 ≠ padFromOwn v 32 true 40 ∧
    (padFromFirst first true 40).getD 35 false = false ∧ (padFromOwn v 32 true 40).getD 35 false = true := by
  decide

example : padFromFirst ([false, false, true].take 3) true 5 = padFromOwn [false, false, true] 3 true 5 :=
  C05_const_pad_partial _ 3 5 true (by decide) (by decide) (by decide)


/-! ### The liveness query must be answered against the CURRENT set

The backward pass of `Program.GC` asks `aliasLive(v)` for inputs at many
instructions; the set it consults changes from instruction to instruction.
`gcPassQ` (Model/GcQuery.lean) is the pass with the query as a parameter that
may keep ANY state between queries. -/

/-- Safety of the gc insertion for every implementation of the liveness query
and every initial state of it, as long as an answer "no alias live" is sound
for the set it was asked about. -/
theorem C05_gc_query_safe {σ : Type} (q : Query σ) (st0 : σ) (prog out : List Step) (hwf : WF prog)
    (hq : CurrentSound prog q) (hgc : gcPassQ q st0 prog = some out) : Safe prog out :=
  gcPassQ_safe q st0 prog out hwf hq hgc

/-- `Program.GC` as it is is the stateless instance of the parametrised pass
(the model the correspondence runs compare with the real step lists). -/
theorem C05_gc_query_table (prog : List Step) :
    gcPassQ (tableQuery (aliasClosure (aliasesOf prog) prog.length)) () prog = gcInsert prog :=
  gcPassQ_table _ prog

/-- ... and its closure is sound for the current set, for every well-formed
step list: `C05_gcInsert_safe` is an instance of `C05_gc_query_safe`. -/
theorem C05_gc_current_set_sound (prog : List Step) (hwf : WF prog) :
    CurrentSound prog (tableQuery (aliasClosure (aliasesOf prog) prog.length)) :=
  tableQuery_currentSound prog hwf.dbu

example (prog out : List Step) (hwf : WF prog) (hgc : gcInsert prog = some out) : Safe prog out :=
  C05_gc_query_safe _ () prog out hwf (C05_gc_current_set_sound prog hwf) (by rw [C05_gc_query_table]; exact hgc)

/-- Non-vacuity: the parametrised pass on `okProg`. -/
example : gcPassQ (tableQuery (aliasClosure (aliasesOf okProg) okProg.length)) () okProg = some
    [okProg[0], okProg[1], gcStep (mkV 2 8), okProg[2], gcStep (mkV 1 8), okProg[3]] := by decide

/-- Witness against a memo table that lives for the whole pass.  The step list
of

    func main(a [4]uint32, b uint32) ([4]uint32, uint32) {
        var r uint32
        if a[0] == 7 { r = 1 } else { a[1] = b; a[2] = 5; r = (b + 1) * 3 }
        return a, r }

(values: a=0 b=1; t0 = a[0] (2); t1 = t0 == 7 (3); t2 = amov b into a (4);
t3 = amov 5 into t2 (5); t4 = b + 1 (6); t5 = t4 * 3 (7); t6 = phi t1 a t3 (8);
t7 = phi t1 1 t5 (9)). -/
def memoProg : List Step :=
  [⟨.slice, [mkV 0 128, mkC 10 32 0, mkC 11 32 32], some (mkV 2 32)⟩,
   ⟨.circ, [mkV 2 32, mkC 12 32 7], some (mkV 3 1)⟩,
   ⟨.amov, [mkV 1 32, mkV 0 128, mkC 11 32 32, mkC 13 32 64], some (mkV 4 128)⟩,
   ⟨.amov, [mkC 14 32 5, mkV 4 128, mkC 13 32 64, mkC 15 32 96], some (mkV 5 128)⟩,
   ⟨.circ, [mkV 1 32, mkC 16 32 1], some (mkV 6 32)⟩,
   ⟨.circ, [mkV 6 32, mkC 17 32 3], some (mkV 7 32)⟩,
   ⟨.circ, [mkV 3 1, mkV 0 128, mkV 5 128], some (mkV 8 128)⟩,
   ⟨.circ, [mkV 3 1, mkC 16 32 1, mkV 7 32], some (mkV 9 32)⟩,
   ⟨.ret, [mkV 8 128, mkV 9 32], none⟩]

/-- What the pass with the pass-long memo table makes of it.  At the phi `t6`
(processed first: the pass runs backwards) `a` is queried while `t3` is not yet
marked; the walk a -> t2 -> t3 caches `t2 ↦ false`.  At `t4 = b + 1` the query
for `b` finds its only alias `t2` in the table -- although `t3`, which holds
`b`'s wire ids as element 1, is live there (read by the phi): `gc b`. -/
def memoOut : List Step :=
  [memoProg[0], memoProg[1], gcStep (mkV 2 32), memoProg[2], memoProg[3], gcStep (mkV 4 128), memoProg[4],
   gcStep (mkV 1 32), memoProg[5], gcStep (mkV 6 32), memoProg[6], gcStep (mkV 5 128), gcStep (mkV 0 128),
   memoProg[7], gcStep (mkV 7 32), gcStep (mkV 3 1), memoProg[8]]

theorem C05_gcMemo_pass : gcPassMemo memoProg = some memoOut := by decide +kernel

/-- Negation witness: with a memo table across instructions the gc insertion
is unsafe on a well-formed program. -/
theorem C05_gcMemo_unsafe :
    WF memoProg ∧ gcPassMemo memoProg = some memoOut ∧ ¬ Safe memoProg memoOut := by
  refine ⟨⟨by decide, by decide, by decide⟩, C05_gcMemo_pass, ?_⟩
  intro h
  refine h [memoProg[0], memoProg[1], gcStep (mkV 2 32), memoProg[2], memoProg[3], gcStep (mkV 4 128), memoProg[4]]
    [memoProg[5], gcStep (mkV 6 32), memoProg[6], gcStep (mkV 5 128), gcStep (mkV 0 128),
     memoProg[7], gcStep (mkV 7 32), gcStep (mkV 3 1), memoProg[8]]
    (gcStep (mkV 1 32)) rfl rfl (mkV 1 32) (by simp [gcStep]) memoProg[6] (by simp) (by decide)
    (mkV 5 128) (by decide) rfl ?_
  -- t3 -> t2 -> b
  refine PointsInto.step memoProg[3] (mkV 4 128) 5 1 (by decide) rfl rfl (by decide) rfl ?_
  refine PointsInto.step memoProg[2] (mkV 1 32) 4 1 (by decide) rfl rfl (by decide) rfl ?_
  exact PointsInto.self 1 (by decide)

/-- ... so the memoised query is not sound for the set it is asked about (by
`C05_gc_query_safe`; concretely: state `[t2 ↦ false]`, set `{t3}`, value `b`). -/
theorem C05_gcMemo_not_current_sound :
    ¬ CurrentSound memoProg (memoQuery (aliasesOf memoProg) (memoProg.length + 1)) := by
  intro hq
  have hwf : WF memoProg := C05_gcMemo_unsafe.1
  have hgc : gcPassQ (memoQuery (aliasesOf memoProg) (memoProg.length + 1)) [] memoProg = some memoOut := by
    have h := C05_gcMemo_pass
    unfold gcPassMemo at h
    rw [defineBeforeUse_id memoProg hwf.dbu] at h
    exact h
  exact C05_gcMemo_unsafe.2.2 (C05_gc_query_safe _ [] memoProg memoOut hwf hq hgc)

example : (memoQuery (aliasesOf memoProg) (memoProg.length + 1) [(4, false)] [5] 1).1 = false ∧
    (tableQuery (aliasClosure (aliasesOf memoProg) memoProg.length) () [5] 1).1 = true := by decide

def bitsOf (n w : Nat) : List Bool := (List.range w).map fun i => n.testBit i

def memoConsts : List ConstDef :=
  [⟨10, 0, bitsOf 0 32⟩, ⟨11, 0, bitsOf 32 32⟩, ⟨12, 0, bitsOf 7 32⟩, ⟨13, 0, bitsOf 64 32⟩,
   ⟨14, 0, bitsOf 5 32⟩, ⟨15, 0, bitsOf 96 32⟩, ⟨16, 0, bitsOf 1 32⟩, ⟨17, 0, bitsOf 3 32⟩]

/-- The id slice the allocator model holds for the value with key `k` after
the first `n` steps of the GC'd list. -/
def memoIdsAt (out : List Step) (n k : Nat) : Option (Array Nat) :=
  (((streamTrace [⟨0, 128, 0⟩, ⟨1, 32, 0⟩] memoConsts (out.take n)).1.chain 0).find? (·.key == k)).bind (·.ids)

/-- In the allocator model the freed range of `b` (wire ids 128..159) is handed
to `t5 = t4 * 3` while element 1 of `t3` still consists of exactly these ids:
right before the phi, `t3[32..63]` and `t5` are the same wires, so the phi reads
`(b + 1) * 3` where `b` is meant.  Go: a[1] = 0x12f instead of 0x64 for b = 100. -/
theorem C05_gcMemo_ids_collide :
    (memoIdsAt memoOut 10 5).map (·.extract 32 64) = memoIdsAt memoOut 10 7 ∧
    memoIdsAt memoOut 10 7 = some (idRange 128 32) := by
  decide +kernel

/-- `Program.GC` as it is on the witness: no `gc b` (and no `gc t2`); the table
emptied before every query gives the same list; in the allocator model `t5`
gets fresh ids. -/
theorem C05_gcMemo_witness_now_safe :
    gcPass memoProg = some
      [memoProg[0], memoProg[1], gcStep (mkV 2 32), memoProg[2], memoProg[3], memoProg[4], memoProg[5],
       gcStep (mkV 6 32), memoProg[6], gcStep (mkV 5 128), gcStep (mkV 0 128), memoProg[7], gcStep (mkV 7 32),
       gcStep (mkV 3 1), memoProg[8]] ∧
    gcPassQ (freshMemoQuery (aliasesOf memoProg) (memoProg.length + 1)) () memoProg = gcPass memoProg ∧
    (∀ out, gcPass memoProg = some out →
      ((memoIdsAt out 8 5).map (·.extract 32 64) = some (idRange 128 32) ∧
       (memoIdsAt out 8 7).map (fun ids => ids.toList.all (fun i => decide (i ≥ 160 + 2))) = some true)) := by
  refine ⟨by decide +kernel, by decide +kernel, ?_⟩
  intro out h
  have h0 : gcPass memoProg = some
      [memoProg[0], memoProg[1], gcStep (mkV 2 32), memoProg[2], memoProg[3], memoProg[4], memoProg[5],
       gcStep (mkV 6 32), memoProg[6], gcStep (mkV 5 128), gcStep (mkV 0 128), memoProg[7], gcStep (mkV 7 32),
       gcStep (mkV 3 1), memoProg[8]] := by decide +kernel
  rw [h0] at h
  cases h
  decide +kernel

/-- The wire-side theorem applies to the executed instance (`BitVec 128`, any
block function, offset after `SetS(true)`). -/
theorem C05_stream_concrete (π : BitVec 128 → BitVec 128) (r0 : BitVec 128) (p : SProg)
    (gs : SStore (WireL (BitVec 128))) (es : SStore (BitVec 128)) (ps : SStore Bool) (id : Nat)
    (D : Loc → Prop) (hinv : SInv (setS r0) D gs es ps) (hwf : wfAll p D) :
    ∃ es', evalAll (hashOf π) (garbleAll (hashOf π) (setS r0) p gs id).2.2 es id =
        .ok (es', (garbleAll (hashOf π) (setS r0) p gs id).2.1) ∧
      SInv (setS r0) (definedAll p D) (garbleAll (hashOf π) (setS r0) p gs id).1 es' (plainAll p ps) :=
  C05_stream_program (hashOf π) (setS r0) (setS_msb r0) p gs es ps id D hinv hwf

end Mpc

/-
C02 over the connection layer: composition of the message-level protocol
theorem (Props/C02.lean) with the byte-stream theorem of C11.

"... a garbler and an evaluator running the protocol over a connection ...
x arbitrary transport fragmentation": the typed messages of any flight, sent
through the model of `p2p.Conn` (any flush placement is fixed by the code; any
writer-goroutine schedule; any read fragmentation of the transport), are
received as exactly the same typed messages, so the message-level theorem
`C02_both_get_f` is independent of the transport.
-/
import MpcVerif.Props.C02
import MpcVerif.Props.C11

namespace Mpc
open Conn

/-- A protocol message as a typed value of the connection layer
(`SendData` / `SendUint32` / `SendLabel`). -/
def Msg.toVal : Msg (BitVec 128) → Val
  | .data bs => .data (ByteArray.mk bs.toArray)
  | .u32 n => .u32 n
  | .label l => .label l.toNat

/-- Back from a received typed value. -/
def Msg.ofVal : Val → Option (Msg (BitVec 128))
  | .data d => some (.data d.data.toList)
  | .u32 n => some (.u32 n)
  | .label n => some (.label (BitVec.ofNat 128 n))
  | _ => none

theorem Msg.ofVal_toVal (m : Msg (BitVec 128)) : Msg.ofVal m.toVal = some m := by
  cases m with
  | data bs => simp [Msg.toVal, Msg.ofVal]
  | u32 n => rfl
  | label l => simp [Msg.toVal, Msg.ofVal]

/-- Domain guard of the typed API for a protocol message: counts below 2^32,
payloads shorter than 2^32 bytes (labels are 128-bit by type). -/
def Msg.Fits : Msg (BitVec 128) → Prop
  | .data bs => bs.length < 2 ^ 32
  | .u32 n => n < 2 ^ 32
  | .label _ => True

theorem Msg.toVal_valid (m : Msg (BitVec 128)) (h : m.Fits) : m.toVal.Valid := by
  cases m with
  | data bs => simpa [Msg.toVal, Val.Valid, Msg.Fits, ByteArray.size] using h
  | u32 n => simpa [Msg.toVal, Val.Valid, Msg.Fits] using h
  | label l => simp [Msg.toVal, Val.Valid]; exact l.isLt

theorem Msg.mapM_ofVal_toVal (ms : List (Msg (BitVec 128))) :
    (ms.map Msg.toVal).mapM Msg.ofVal = some ms := by
  induction ms with
  | nil => rfl
  | cons m ms ih => simp [List.mapM_cons, Msg.ofVal_toVal, ih]

/-- **C02 over a connection.**  Any list of protocol messages (e.g. the
garbler's first flight, the evaluator's output labels), sent with the typed
sends and closed/flushed, under ANY writer schedule, and read back through a
transport with ANY read fragmentation by the matching typed receives, arrives
as exactly the same messages with nothing left over. -/
theorem C02_messages_over_conn (sch : Sched) (frag : Frag) (ms : List (Msg (BitVec 128)))
    (hfit : ∀ m ∈ ms, m.Fits) :
    let ops := ms.map (fun m => Op.send m.toVal)
    let s := (Sender.init.run sch ops).close sch
    ∃ r', (Recv.init (joinB s.wire)).recvAll frag (ms.map (fun m => m.toVal.kind)) =
        (ms.map Msg.toVal, r', none) ∧
      r'.unread = ByteArray.empty ∧
      (ms.map Msg.toVal).mapM Msg.ofVal = some ms := by
  intro ops s
  have hov : opsVals ops = ms.map Msg.toVal := by
    simp only [ops]
    induction ms with
    | nil => rfl
    | cons m ms ih =>
      simp only [List.map_cons, opsVals]
      rw [ih (fun m' hm' => hfit m' (List.mem_cons_of_mem _ hm'))]
  have hv : ∀ v ∈ opsVals ops, v.Valid := by
    rw [hov]
    intro v hv
    obtain ⟨m, hm, rfl⟩ := List.mem_map.mp hv
    exact Msg.toVal_valid m (hfit m hm)
  obtain ⟨r', h1, h2, _, _⟩ := C11_conn_roundtrip sch frag ops hv
  refine ⟨r', ?_, h2, Msg.mapM_ofVal_toVal ms⟩
  rw [hov] at h1
  simp only [List.map_map, Function.comp_def] at h1
  exact h1

end Mpc

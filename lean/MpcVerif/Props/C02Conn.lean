/-
C02 over the connection layer: composition of the message-level protocol
theorem (Props/C02.lean) with the byte-stream theorem of C11.

"... a garbler and an evaluator running the protocol over a connection ...
x arbitrary transport fragmentation": the typed messages of any flight, sent
through the model of `p2p.Conn` (any flush placement is fixed by the code; any
writer-goroutine schedule; any read fragmentation of the transport), are
received as exactly the same typed messages, so the message-level theorem
`C02_both_get_f` is independent of the transport.

The typed messages `Msg.toVal / Msg.ofVal / Msg.Fits`, the session model
`run2Conn` (the message-level protocol with every flight going through the send
half of one `p2p.Conn`, a fragmenting transport and the receive half of the
other `p2p.Conn`, the receive halves persisting over the session) are in
Model/Proto2Conn.lean; helper lemmas in Proofs/Proto2Conn.lean.

Quantification added by this file: every flight of every total size (there is
no hypothesis relating a message or a flight to `writeBufSize = 64 KiB` or
`readBufSize = 1 MiB`: garbled tables of many MiB, more than 64 KiB of input
labels are instances), every writer schedule of every flight, every read
fragmentation of both directions (`Frag = Nat → Nat`, the size the transport
returns on its i-th `Read`: single bytes, reads ending any distance before the
end of the read window, whole flushes, ... are instances), every state of a
receive half that has nothing unread.  Domain guard: counts and payload lengths
below 2^32 (the Go code truncates with `uint32(val)` beyond).
-/
import MpcVerif.Props.C02
import MpcVerif.Props.C11
import MpcVerif.Proofs.Proto2Conn

namespace Mpc
open Conn

/-- **C02 over a connection.**  Any list of protocol messages (e.g. the
garbler's first flight, the evaluator's output labels), sent with the typed
sends and closed/flushed, under ANY writer schedule, and read back through a
transport with ANY read fragmentation by the matching typed receives, arrives
as exactly the same messages with nothing left over. -/
theorem C02_messages_over_conn (sch : Sched) (frag : Frag) (ms : List (Msg (BitVec 128)))
    (hfit : ∀ m ∈ ms, m.Fits) :
    let ops := ms.map (fun m => Op.send m.toVal)
    let s := (Sender.init.run sch ops).close sch
    ∃ r', (Recv.init (joinB s.wire)).recvAll frag (ms.map (fun m => m.toVal.kind)) =
        (ms.map Msg.toVal, r', none) ∧
      r'.unread = ByteArray.empty ∧
      (ms.map Msg.toVal).mapM Msg.ofVal = some ms := by
  intro ops s
  have hov : opsVals ops = ms.map Msg.toVal := by
    simp only [ops]
    induction ms with
    | nil => rfl
    | cons m ms ih =>
      simp only [List.map_cons, opsVals]
      rw [ih (fun m' hm' => hfit m' (List.mem_cons_of_mem _ hm'))]
  have hv : ∀ v ∈ opsVals ops, v.Valid := by
    rw [hov]
    intro v hv
    obtain ⟨m, hm, rfl⟩ := List.mem_map.mp hv
    exact Msg.toVal_valid m (hfit m hm)
  obtain ⟨r', h1, h2, _, _⟩ := C11_conn_roundtrip sch frag ops hv
  refine ⟨r', ?_, h2, Msg.mapM_ofVal_toVal ms⟩
  rw [hov] at h1
  simp only [List.map_map, Function.comp_def] at h1
  exact h1

/-- **One flight, any size, any fragmentation.**  A flight of protocol
messages of any total size - no relation to the 64 KiB write buffer or the
1 MiB read window is assumed - sent with the typed sends and flushed under ANY
writer schedule, read from a transport with ANY read fragmentation by a receive
half in ANY state that has nothing unread (fresh, or after earlier flights of
the same session), arrives as exactly the same messages, no error branch is
taken and nothing is left unread. -/
theorem C02_flight_over_conn (sch : Sched) (frag : Frag) (r : Recv) (ms : List (Msg (BitVec 128)))
    (hfit : ∀ m ∈ ms, m.Fits)
    (hr : r.rs ≤ r.buf.size ∧ r.buf.size ≤ readBufSize ∧ r.pos ≤ r.pend.size)
    (hu : r.unread = ByteArray.empty) :
    ∃ r', recvFlight frag r (flightBytes sch ms) ms = .ok (ms, r') ∧
      (r'.rs ≤ r'.buf.size ∧ r'.buf.size ≤ readBufSize ∧ r'.pos ≤ r'.pend.size) ∧
      r'.unread = ByteArray.empty := by
  obtain ⟨r', e, i, u⟩ := recvFlight_ok sch frag r ms hfit ⟨hr.1, hr.2.1, hr.2.2⟩ hu
  exact ⟨r', e, ⟨i.rs_le, i.buf_le, i.pos_le⟩, u⟩

/-- Non-vacuity, and the size class explicitly: a flight of 70000 labels
(1 120 000 bytes - more than the 1 MiB read window, 18 write buffers) is inside
the theorem, for every schedule and every fragmentation. -/
example (sch : Sched) (frag : Frag) :
    16 * (List.replicate 70000 (Msg.label 5#128)).length > readBufSize ∧
    ∃ r', recvFlight frag (Recv.init ByteArray.empty)
        (flightBytes sch (List.replicate 70000 (Msg.label 5#128)))
        (List.replicate 70000 (Msg.label 5#128)) = .ok (List.replicate 70000 (Msg.label 5#128), r') := by
  refine ⟨by rw [List.length_replicate]; decide, ?_⟩
  obtain ⟨r', e, _, _⟩ := C02_flight_over_conn sch frag (Recv.init ByteArray.empty)
    (List.replicate 70000 (Msg.label 5#128))
    (fun m hm => by rw [List.eq_of_mem_replicate hm]; trivial)
    ⟨by simp [Recv.init], by simp [Recv.init], by simp [Recv.init]⟩ (unread_init _)
  exact ⟨r', e⟩

theorem evaluatorEval_length (p : Circuit2) (H : Hash (BitVec 128)) (rows : List (List (BitVec 128)))
    (inl otl ol : List (BitVec 128)) (h : evaluatorEval p H rows inl otl = .ok ol) :
    ol.length = p.c.nOut := by
  simp only [evaluatorEval] at h
  split at h
  · cases h
  · cases h; simp

/-- **C02 over two connections.**  For every well-formed two-party circuit,
inputs, key derivation, offset, label randomness and every OT satisfying
`OtSpec` (as in `C02_both_get_f`), and for EVERY connection environment - the
writer schedule of every flight, the read fragmentation of both directions -
the session in which every flight goes through `p2p.Conn` ends without error
at either party, both parties return the plain evaluation of the circuit split
per declared output, and both receive halves end with nothing unread.  No
hypothesis relates the size of any message or flight to the buffer sizes. -/
theorem C02_both_get_f_over_conn (p : Circuit2) (hwf : p.WF = true)
    (mkH : List UInt8 → Hash (BitVec 128)) (key : List UInt8) (r : BitVec 128)
    (hr : LabelAlg.sbit r = true) (inl : Nat → BitVec 128) (x y : List Bool) (hx : x.length = p.n0)
    (ot : OtFun (BitVec 128)) (hot : OtSpec ot)
    (hdom : key.length < 2 ^ 32 ∧ p.c.gates.length < 2 ^ 32 ∧ p.n0 < 2 ^ 32 ∧ p.n1 < 2 ^ 32 ∧
      p.c.nOut < 2 ^ 32)
    (env : ConnEnv) :
    ∃ rE rG, run2Conn p mkH key r inl x y ot env = .ok ((p.expected x y, p.expected x y), rE, rG) ∧
      rE.unread = ByteArray.empty ∧ rG.unread = ByteArray.empty := by
  obtain ⟨hk, hg, hn0, hn1, hno⟩ := hdom
  have hrun := C02_both_get_f p hwf mkH key r hr inl x y hx ot hot
  simp only [run2] at hrun
  rw [evaluatorRecv1_flight1] at hrun
  simp only [ne_eq, not_true_eq_false, or_self, if_false] at hrun
  obtain ⟨rE, e0, iE, uE⟩ := recvFlight_ok (env.sch 0) env.fragGE (Recv.init ByteArray.empty)
    (garblerFlight1 p key (p.c.garble (mkH key) r inl) x) (flight1_fits p key _ r inl x hk hg)
    RInv_fresh.1 RInv_fresh.2
  obtain ⟨rG, e1, iG, uG⟩ := recvFlight_ok (env.sch 1) env.fragEG (Recv.init ByteArray.empty)
    [.u32 p.n0, .u32 p.n1]
    (by intro m hm
        simp only [List.mem_cons, List.not_mem_nil, or_false] at hm
        rcases hm with rfl | rfl
        · exact hn0
        · exact hn1)
    RInv_fresh.1 RInv_fresh.2
  simp only [run2Conn]
  rw [e0]
  simp only
  rw [evaluatorRecv1_flight1]
  simp only
  rw [e1]
  simp only [Circuit2.acceptsOtRange, beq_self_eq_true, Bool.and_self, Bool.not_true,
    Bool.false_eq_true, if_false]
  split at hrun
  · cases hrun
  · next outLabels hE0 =>
    -- the same statement with the instances as `run2Conn` (specialised to `BitVec 128`) elaborates them
    have hE : evaluatorEval p (mkH key) (p.c.garble (mkH key) r inl).rows
        (garblerInputLabels p (p.c.garble (mkH key) r inl) x)
        (ot ((List.range p.n1).map fun i => (p.c.garble (mkH key) r inl).wires.get (p.n0 + i))
          ((List.range p.n1).map fun i => y.getD i false)) = .ok outLabels := hE0
    rw [hE]
    simp only
    have hlen := evaluatorEval_length p _ _ _ _ _ hE
    obtain ⟨rG', e2, iG', uG'⟩ := recvFlight_ok (env.sch 2) env.fragEG rG (outLabels.map .label)
      (by intro m hm; obtain ⟨l, _, rfl⟩ := List.mem_map.mp hm; trivial) iG uG
    rw [e2]
    simp only
    have hrl := recvLabels_roundtrip outLabels ([] : List (Msg (BitVec 128)))
    rw [List.append_nil, hlen] at hrl
    rw [hrl]
    simp only
    split at hrun
    · cases hrun
    · next bits hD0 =>
      have hD : garblerDecode p (p.c.garble (mkH key) r inl) 0 outLabels = .ok bits := hD0
      rw [hD]
      simp only
      have hbl : bits.length = p.c.nOut := by
        rw [garblerDecode_length p _ outLabels 0 bits hD, hlen]
      have hfit3 : ∀ m ∈ [Msg.data (natToBytesBE (packLE bits))], m.Fits := by
        intro m hm
        simp only [List.mem_cons, List.not_mem_nil, or_false] at hm
        subst hm
        have h1 := natToBytesBE_length bits.length (packLE bits) (packLE_lt bits)
        simp only [Msg.Fits]
        omega
      obtain ⟨rE', e3, _, uE'⟩ := recvFlight_ok (env.sch 3) env.fragGE rE
        [.data (natToBytesBE (packLE bits))] hfit3 iE uE
      rw [e3]
      simp only
      refine ⟨rE', rG', ?_, uE', uG'⟩
      simp only [Except.ok.injEq, Prod.mk.injEq] at hrun
      rw [hrun.1, hrun.2]

/-- **The result does not depend on the transport.**  Two runs of the same
session (same circuit, inputs, randomness, OT) over ANY two connection
environments - different writer schedules, different read fragmentations in
either direction, hence different positions of every message relative to the
64 KiB write buffers and the 1 MiB read window - give both parties the same
values, the plain evaluation; neither takes an error branch. -/
theorem C02_result_independent_of_transport (p : Circuit2) (hwf : p.WF = true)
    (mkH : List UInt8 → Hash (BitVec 128)) (key : List UInt8) (r : BitVec 128)
    (hr : LabelAlg.sbit r = true) (inl : Nat → BitVec 128) (x y : List Bool) (hx : x.length = p.n0)
    (ot : OtFun (BitVec 128)) (hot : OtSpec ot)
    (hdom : key.length < 2 ^ 32 ∧ p.c.gates.length < 2 ^ 32 ∧ p.n0 < 2 ^ 32 ∧ p.n1 < 2 ^ 32 ∧
      p.c.nOut < 2 ^ 32)
    (env env' : ConnEnv) :
    (run2Conn p mkH key r inl x y ot env).map (·.1) = .ok (p.expected x y, p.expected x y) ∧
    (run2Conn p mkH key r inl x y ot env').map (·.1) = .ok (p.expected x y, p.expected x y) := by
  obtain ⟨_, _, h, _⟩ := C02_both_get_f_over_conn p hwf mkH key r hr inl x y hx ot hot hdom env
  obtain ⟨_, _, h', _⟩ := C02_both_get_f_over_conn p hwf mkH key r hr inl x y hx ot hot hdom env'
  rw [h, h']
  exact ⟨rfl, rfl⟩

/-! Non-vacuity: the hypotheses hold for the example circuit (two outputs of
widths 1 and 2), a 32-byte key, an offset with the select bit set; the
environment is arbitrary - e.g. single-byte reads towards the evaluator, reads
of 1 MiB minus 3 bytes towards the garbler. -/
example : exampleCircuit2.WF = true := by decide
example : LabelAlg.sbit (setS 5#128) = true := setS_msb _
example : (List.replicate 32 (7 : UInt8)).length < 2 ^ 32 ∧ exampleCircuit2.c.gates.length < 2 ^ 32 ∧
    exampleCircuit2.n0 < 2 ^ 32 ∧ exampleCircuit2.n1 < 2 ^ 32 ∧ exampleCircuit2.c.nOut < 2 ^ 32 := by decide
example (mkH : List UInt8 → Hash (BitVec 128)) (inl : Nat → BitVec 128) (sch : Nat → Sched) :=
  C02_both_get_f_over_conn exampleCircuit2 (by decide) mkH (List.replicate 32 7) (setS 5#128) (setS_msb _) inl
    [true, false] [true] rfl _ idealOt_spec (by decide)
    { sch := sch, fragGE := fun _ => 1, fragEG := fun _ => readBufSize - 3 }

/-- The session over the connections on INTEGER inputs (`*big.Int` of any sign
and magnitude, per flattened member; Model/Proto2Int.lean): for every
connection environment both parties return `Circuit.Compute` of those
integers. -/
theorem C02_both_get_f_int_over_conn (p : Circuit2) (hwf : p.WF = true)
    (mkH : List UInt8 → Hash (BitVec 128)) (key : List UInt8) (r : BitVec 128)
    (hr : LabelAlg.sbit r = true) (inl : Nat → BitVec 128) (xs ys : ArgVals) (hx : argWidth xs = p.n0)
    (ot : OtFun (BitVec 128)) (hot : OtSpec ot)
    (hdom : key.length < 2 ^ 32 ∧ p.c.gates.length < 2 ^ 32 ∧ p.n0 < 2 ^ 32 ∧ p.n1 < 2 ^ 32 ∧
      p.c.nOut < 2 ^ 32)
    (env : ConnEnv) :
    ∃ rE rG, run2Conn p mkH key r inl (encodeArg xs) (encodeArg ys) ot env =
        .ok ((p.expectedInt xs ys, p.expectedInt xs ys), rE, rG) ∧
      rE.unread = ByteArray.empty ∧ rG.unread = ByteArray.empty := by
  have h := C02_both_get_f_over_conn p hwf mkH key r hr inl (encodeArg xs) (encodeArg ys)
    (by rw [encodeArg_length, hx]) ot hot hdom env
  have he : p.expected (encodeArg xs) (encodeArg ys) = p.expectedInt xs ys := by
    simp [Circuit2.expectedInt, Circuit2.expected, Circuit2.computeInts, encodeArg_append]
  rw [he] at h
  exact h

example (mkH : List UInt8 → Hash (BitVec 128)) (inl : Nat → BitVec 128) (sch : Nat → Sched) :=
  C02_both_get_f_int_over_conn exampleCircuit2 (by decide) mkH (List.replicate 32 7) (setS 5#128) (setS_msb _) inl
    [(2, -3)] [(1, -1)] (by decide) _ idealOt_spec (by decide)
    { sch := sch, fragGE := fun _ => 1, fragEG := fun _ => readBufSize - 3 }

end Mpc

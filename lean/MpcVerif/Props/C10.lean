/-
C10  GMW: every party outputs f(inputs); dealt triples are valid.

Statement (properties.jsonl): for every number of parties ≥ 2, every circuit
compiled for the GMW target and all inputs, all parties complete the protocol
and each returns outputs equal to the plain evaluation of the circuit on all
parties' inputs.  Every multiplication triple dealt by the offline phase
satisfies (xor of all a-shares) AND (xor of all b-shares) = xor of all
c-shares, bit for bit.

Model: `Model/Gmw.lean` (gmw/{bitvec,triples,network,peer}.go), levels from
`Model/Levels.lean` (`Circuit.AssignLevels(TargetGMW)`).  Quantification of the
theorems: every number of parties (`sizes.length ≥ 1`; 2..5 are run), every
HISTORY of `Run` calls on one connected Network (`Model/GmwHist.lean`: pool
position, `nw.triples` and the never-reset `nw.wires` carried from call to
call; `C10_history`), every
single-assignment circuit without OR gates (the compiler emits XOR/XNOR/AND
only; `run` returns `gate OR not supported` otherwise), every input, every
input-sharing randomness, every local triple randomness and all bit-COT
outputs satisfying the correlation of property C06, every arrival schedule of
triple batches at the pool.

What the theorems do not carry (stated in the check's assumptions): the TCP
connection set-up of `gmw.Network` and goroutine scheduling are exercised by
the harness, not modelled; privacy is not claimed; `Outputs.Split` (the
presentation of the output bits as values, the same function in `Network.Run`
and `Circuit.Compute`) is C02/C13's.

Inputs: `x : Nat → Nat` in the theorems up to `C10_history`; the last section
(`Model/GmwInt.lean`) puts the integers the API accepts in front - every
`*big.Int` of any sign and magnitude, read by `Int.Xor` / `Int.Bit`
(`C10_outputs_int`, `C10_outputs_args`, `C10_history_int`).
-/
import MpcVerif.Proofs.GmwRun
import MpcVerif.Proofs.GmwHist
import MpcVerif.Proofs.GmwInt
import MpcVerif.Proofs.GmwMsgs
import MpcVerif.Proofs.LevelsMod
import MpcVerif.Model.Iknp

namespace Mpc
open Mpc.Gmw

/-! ### Offline phase: dealt triples are valid -/

/-- `gmw_triple_valid`.  For every number of parties `n`, all local random
shares `a`, `b`, all sender outputs `s`, all `Delta.Bit(0)` and all receiver
outputs `r` satisfying the bit-COT correlation `r = s ⊕ Δ₀·b` (`CotCorr`,
property C06): in every word of the batch `tripleBatch` deals,
`(⊕ₚ aₚ) & (⊕ₚ bₚ) = ⊕ₚ cₚ`, bit for bit. -/
theorem C10_triples_valid (n words : Nat) (I : BatchIn) (h : CotCorr n words I) (w : Nat) (hw : w < words) :
    xorW ((List.range n).map fun p => wget (tripleBatch n words I p).a w) &&&
    xorW ((List.range n).map fun p => wget (tripleBatch n words I p).b w) =
    xorW ((List.range n).map fun p => wget (tripleBatch n words I p).c w) :=
  gmw_triple_valid n words I h w hw

/-- a correlated instance exists for arbitrary `a`, `b`, `s`, `delta`: take
`r q p := s p q ⊕ Δ(p,q)·b q` -/
example (a b : Nat → Words) (s : Nat → Nat → Words) (delta : Nat → Nat → Bool) (n words : Nat) :
    CotCorr n words
      { a := a, b := b, s := s, delta := delta
        r := fun q p => mkA words fun w => wget (s p q) w ^^^ (if delta p q then wget (b q) w else 0#64) } := by
  intro p q _ _ _ w hw
  simp only []
  rw [wget_mkA _ _ _ hw]

/-- The word form of the correlation follows from the packed-bit form in
which property C06 states it for the IKNP model (`∀ j < n, bitAt received j =
(bitAt sent j ^^ (Delta.Bit(0) && bitAt choices j))`, Props/C06.lean; proved
there at least for every count with `n % 64 = 0`, and `tripleSenderLoop` only
uses 4096 and 8192 – checked as a structural fact on every run): `bitAt` of the
IKNP model is `Gmw.bit`. -/
theorem C10_cot_from_bits (rw sw ch : Words) (d : Bool) (words : Nat)
    (h : ∀ j, j < 64 * words → Iknp.bitAt rw j = (Iknp.bitAt sw j ^^ (d && Iknp.bitAt ch j))) :
    ∀ w, w < words → wget rw w = wget sw w ^^^ (if d then wget ch w else 0#64) :=
  cot_words_of_bits rw sw ch d words h

example : (4096 % 64 = 0 ∧ 8192 % 64 = 0) ∧ Iknp.bitAt = Gmw.bit := ⟨by decide, rfl⟩

/-- The pools filled by the offline phase: every party appends its
`tripleBatch` output of every batch, in order (`Pool.triples.Append`). -/
def dealt (n : Nat) (bs : List (Nat × BatchIn)) (p : Nat) : Triples :=
  bs.foldl (fun pool b => poolArrive pool (tripleBatch n b.1 b.2 p)) Triples.empty

theorem poolsValid_foldl (n : Nat) : ∀ (bs : List (Nat × BatchIn)) (pools : Nat → Triples) (L : Nat),
    PoolsValid n L pools → (∀ b ∈ bs, CotCorr n b.1 b.2) →
    PoolsValid n (L + (bs.map (·.1)).sum)
      (fun p => bs.foldl (fun pool b => poolArrive pool (tripleBatch n b.1 b.2 p)) (pools p)) := by
  intro bs
  induction bs with
  | nil => intro pools L h _; simpa using h
  | cons b bs ih =>
    intro pools L h hb
    have h1 := poolsValid_arrive n L b.1 pools (fun p => tripleBatch n b.1 b.2 p) h
      (poolsValid_tripleBatch n b.1 b.2 (hb b List.mem_cons_self))
    have := ih _ _ h1 (fun b' hb' => hb b' (List.mem_cons_of_mem _ hb'))
    simp only [List.foldl_cons, List.map_cons, List.sum_cons]
    rw [← Nat.add_assoc]
    exact this

/-- Every word of every party's pool is a valid triple after any number of
batches (all pools hold the same number of words, the sum of the batch sizes). -/
theorem C10_triples_valid_pool (n : Nat) (bs : List (Nat × BatchIn)) (h : ∀ b ∈ bs, CotCorr n b.1 b.2) :
    PoolsValid n (bs.map (·.1)).sum (dealt n bs) := by
  have := poolsValid_foldl n bs (fun _ => Triples.empty) 0 (poolsValid_empty n) h
  rw [Nat.zero_add] at this
  exact this

/-! ### Pool: lockstep consumption -/

/-- `gmw_pool_lockstep`.  Whatever the arrival schedule of batches, a
`TriplePool.Get(count)` that returns has moved exactly the next `⌈count/64⌉`
words of the stream (pool content followed by all arriving batches) to the
destination, in order, and left the rest: all parties consume identical triple
indices. -/
theorem C10_pool_lockstep (count : Nat) (ticks : List (List Triples)) (pool dst pool' dst' : Triples)
    (rest : List (List Triples)) (hp : pool.WF) (hd : dst.WF) (hb : ∀ t ∈ ticks, ∀ b ∈ t, b.WF)
    (h : poolGet count ticks 0 pool dst = some (pool', dst', rest)) :
    dst'.view = dst.view ++ (stream pool ticks).take ((count + 63) / 64) ∧
    stream pool' rest = (stream pool ticks).drop ((count + 63) / 64) ∧
    (count + 63) / 64 ≤ (stream pool ticks).length ∧ pool'.WF ∧ dst'.WF :=
  gmw_pool_lockstep count ticks pool dst pool' dst' rest hp hd hb h

/-- Two schedules carrying the same stream give the same result. -/
theorem C10_pool_timing_independent (count : Nat) (t1 t2 : List (List Triples)) (pool dst p1 d1 p2 d2 : Triples)
    (r1 r2 : List (List Triples)) (hp : pool.WF) (hd : dst.WF)
    (hb1 : ∀ t ∈ t1, ∀ b ∈ t, b.WF) (hb2 : ∀ t ∈ t2, ∀ b ∈ t, b.WF)
    (hs : stream pool t1 = stream pool t2)
    (h1 : poolGet count t1 0 pool dst = some (p1, d1, r1)) (h2 : poolGet count t2 0 pool dst = some (p2, d2, r2)) :
    d1.view = d2.view ∧ stream p1 r1 = stream p2 r2 :=
  gmw_pool_timing_independent count t1 t2 pool dst p1 d1 p2 d2 r1 r2 hp hd hb1 hb2 hs h1 h2

/-- Progress: once the stream holds enough words, `Get` returns (after
finitely many more loop iterations). -/
theorem C10_pool_get_returns (count : Nat) (ticks : List (List Triples)) (pool dst : Triples)
    (hp : pool.WF) (hd : dst.WF) (hb : ∀ t ∈ ticks, ∀ b ∈ t, b.WF)
    (henough : (count + 63) / 64 ≤ (stream pool ticks).length) :
    ∃ pad, (poolGet count (ticks ++ List.replicate pad []) 0 pool dst).isSome = true :=
  poolGet_returns count ticks pool dst hp hd hb henough

/-- a batch arriving while `Get(100)` waits on an empty pool: two words move -/
example : (poolGet 100 [[], [Triples.ofList [(1#64, 2#64, 3#64)]], [Triples.ofList [(4#64, 5#64, 6#64), (7#64, 8#64, 9#64)]], []]
      0 Triples.empty Triples.empty).map (fun r => (r.1.view, r.2.1.view)) =
    some ([(7#64, 8#64, 9#64)], [(1#64, 2#64, 3#64), (4#64, 5#64, 6#64)]) := by decide +kernel

/-! ### Online phase -/

/-- `gmw_and_correct` (Beaver).  With valid triples in the pools, for every
word `k` of an AND batch the XOR over all parties of the `z` words computed by
`andBatchFlush` (masked differences `d = x ⊕ a`, `e = y ⊕ b` opened by
`broadcastXORs`, `z = c ⊕ d&b ⊕ e&a`, party 0 adds `d&e`) equals the AND of the
reconstructed packed inputs. -/
theorem C10_and_correct {n L : Nat} {ps : List Party} (hst : St n L ps) (hn : 0 < n) (batch : List Gate)
    (hW : (batch.length + 63) / 64 ≤ L) (k : Nat) (hk : k < (batch.length + 63) / 64) :
    let W := (batch.length + 63) / 64
    let ps1 := ps.map (getT batch.length)
    let ds := ps1.map fun q => (q.id, (maskedDE q batch.toArray W).1)
    let es := ps1.map fun q => (q.id, (maskedDE q batch.toArray W).2)
    xorW (ps1.map fun q => wget (andZ q (openAt q.id (maskedDE q batch.toArray W).1 ds)
        (openAt q.id (maskedDE q batch.toArray W).2 es) W) k) =
      xorW (ps.map fun p => wget (packIn p.wires batch.toArray W false) k) &&&
      xorW (ps.map fun p => wget (packIn p.wires batch.toArray W true) k) :=
  and_words hst hn batch hW k hk

/-- One level of `Network.run` keeps the invariant: if the shares reconstruct
to the plain store `S` then after the AND batch they reconstruct to the plain
store after these gates (batch sizes that are not multiples of 64 included:
the tail lanes of the last word are never read back). -/
theorem C10_and_step {n N L : Nat} {ps : List Party} {S : Store Bool} (hst : St n L ps) (hn : 0 < n)
    (hsim : Sim N ps S) (batch : List Gate) (hne : batch ≠ []) (hop : ∀ g ∈ batch, g.op = .and)
    (hout : ∀ g ∈ batch, g.out < N) (hnd : (batch.map (·.out)).Nodup)
    (hind : ∀ g ∈ batch, ∀ h ∈ batch, h.out ≠ g.in0 ∧ h.out ≠ g.in1)
    (hW : (batch.length + 63) / 64 ≤ L) :
    ∃ ps', andStep batch ps = some ps' ∧ St n (L - (batch.length + 63) / 64) ps' ∧
      Sim N ps' (evalPlainGates batch S) :=
  sim_ands hst hn hsim batch hne hop hout hnd hind hW

/-- `gmw_level_schedule`.  For a single-assignment circuit the order of
`Network.run` – per `AssignLevels(TargetGMW)` level the non-AND gates in circuit
order, then the AND batch – is a permutation of the gates in which every gate
comes after the producers of its inputs; evaluating in that order gives every
wire the value of `plainEval`; the AND gates of one level do not feed each
other. -/
theorem C10_level_schedule (c : Circuit) (hssa : SSA c.numWires c.gates c.inputDefined) (x : List Bool) :
    (schedule c).Perm c.gates ∧ wfFrom c.numWires (schedule c) c.inputDefined = true ∧
    (∀ w, (evalPlainGates (schedule c) (initStore c.numWires false (x.take c.nIn))).get w = (c.plainEval x).get w) ∧
    (∀ b ∈ blocks c, ∀ g ∈ b.2, ∀ h ∈ b.2, h.out ≠ g.in0 ∧ h.out ≠ g.in1) :=
  ⟨schedule_perm c hssa, schedule_wf c hssa, gmw_level_schedule c hssa x, blocks_indep c hssa⟩

/-- `gmw_share_invariant`.  After the run, on EVERY wire the XOR of all
parties' shares equals the plain value; the run takes no error branch and
every party's pool has lost exactly `needW` words. -/
theorem C10_share_invariant (c : Circuit) (sizes : List Nat) (x : Nat → Nat) (rnd : Nat → Nat → Nat)
    (pools : Nat → Triples) (L : Nat) (hok : RunOK c sizes) (hpools : PoolsValid sizes.length L pools)
    (hL : needW (blocks c) ≤ L) :
    ∃ ps outs, run c sizes x rnd pools = .ok ps outs ∧ ps.length = sizes.length ∧
      (∀ w, recon ps w = (c.plainEval (inputBits sizes x)).get w) ∧
      (∀ p ∈ ps, p.pool.words = L - needW (blocks c)) := by
  obtain ⟨ps, outs, h1, h2, _, h4, _, h6⟩ :=
    run_correct c sizes x rnd pools (inputBits sizes x) L hok (inputsOf_inputBits sizes x) hpools.1 hpools.2 hL
  exact ⟨ps, outs, h1, h2, h4, h6⟩

/-- **C10_outputs.**  For every number of parties, every single-assignment
circuit without OR gates whose inputs are the parties' arguments, all inputs
`x`, all sharing randomness `rnd`, and pools holding at least `needW` valid
triple words each: the run returns `ok` and EVERY party's output equals
`Circuit.compute` on all parties' inputs. -/
theorem C10_outputs (c : Circuit) (sizes : List Nat) (x : Nat → Nat) (rnd : Nat → Nat → Nat)
    (pools : Nat → Triples) (L : Nat) (hok : RunOK c sizes) (hpools : PoolsValid sizes.length L pools)
    (hL : needW (blocks c) ≤ L) :
    ∃ ps outs, run c sizes x rnd pools = .ok ps outs ∧ outs.length = sizes.length ∧
      ∀ o ∈ outs, o = c.compute (inputBits sizes x) := by
  obtain ⟨ps, outs, h1, _, h3, _, h5, _⟩ :=
    run_correct c sizes x rnd pools (inputBits sizes x) L hok (inputsOf_inputBits sizes x) hpools.1 hpools.2 hL
  exact ⟨ps, outs, h1, h3, h5⟩

/-- Offline and online phase composed: pools dealt by `tripleBatch` from
correlated COT outputs, enough of them, any circuit as above: every party
outputs `f(inputs)`. -/
theorem C10_offline_online (c : Circuit) (sizes : List Nat) (x : Nat → Nat) (rnd : Nat → Nat → Nat)
    (bs : List (Nat × BatchIn)) (hok : RunOK c sizes) (hcot : ∀ b ∈ bs, CotCorr sizes.length b.1 b.2)
    (hL : needW (blocks c) ≤ (bs.map (·.1)).sum) :
    ∃ ps outs, run c sizes x rnd (dealt sizes.length bs) = .ok ps outs ∧ outs.length = sizes.length ∧
      ∀ o ∈ outs, o = c.compute (inputBits sizes x) :=
  C10_outputs c sizes x rnd _ _ hok (C10_triples_valid_pool sizes.length bs hcot) hL

/-! ### Non-vacuity: a concrete three-party run -/

/-- `w3 = a & b; w4 = w3 xnor c; w5 = !w4; w6 = w5 & a`; outputs `w5, w6`. -/
def exGmw : Circuit :=
  { numWires := 7, nIn := 3, nOut := 2,
    gates := [⟨.and, 0, 1, 3⟩, ⟨.xnor, 3, 2, 4⟩, ⟨.inv, 4, 0, 5⟩, ⟨.and, 5, 0, 6⟩] }

def exPools (p : Nat) : Triples :=
  match p with
  | 0 => Triples.ofList [(5#64, 9#64, 7#64), (1#64, 0#64, 0#64)]
  | 1 => Triples.ofList [(3#64, 12#64, 0#64), (1#64, 1#64, 1#64)]
  | _ => Triples.ofList [(1#64, 10#64, 0#64), (1#64, 0#64, 0#64)]

def exX (p : Nat) : Nat := if p = 2 then 0 else 1
def exRnd (p q : Nat) : Nat := p + 2 * q + 1

def runOuts : RunResult → Option (List (List Bool))
  | .ok _ outs => some outs
  | _ => none

example : RunOK exGmw [1, 1, 1] :=
  ⟨⟨by decide, by decide, by decide⟩, by decide, by decide, by decide, by decide⟩
example : PoolsValid 3 2 exPools := by
  refine ⟨fun p hp => ?_, fun k hk => ?_⟩
  · match p, hp with
    | 0, _ => exact ⟨by decide, rfl⟩
    | 1, _ => exact ⟨by decide, rfl⟩
    | 2, _ => exact ⟨by decide, rfl⟩
  · match k, hk with
    | 0, _ => decide +kernel
    | 1, _ => decide +kernel
example : needW (blocks exGmw) = 2 ∧ schedule exGmw = exGmw.gates := by decide +kernel

/-- the executed model on this instance: all three parties return
`compute [1,1,0] = [1,1]` -/
theorem C10_concrete :
    runOuts (run exGmw [1, 1, 1] exX exRnd exPools) = some [[true, true], [true, true], [true, true]] ∧
    exGmw.compute (inputBits [1, 1, 1] exX) = [true, true] := by
  decide +kernel

/-! ### The boundary of "every circuit": the width of the level counter

`C10_level_schedule` and everything built on it count levels in `Nat`.
`Circuit.AssignLevels` counts them in `Level = uint32` (gate field, scratch
table `levels []Level`, `level++`), and Go arithmetic wraps silently: the
theorems describe the code for circuits whose AND depth fits the counter.
`Model/LevelsMod.lean` has the loop with a `k`-bit counter
(`assignLevelsMod k`), the predicate "the level table is a topological
schedule of `Network.run`" (`TopoLevels`, decided in linear time by
`topoCheck`, which the harness evaluates on the REAL levels of generated and
extreme circuits: AND depth 255 … 65537 and beyond) and the chain family. -/

/-- The `Nat` levels of `AssignLevels(TargetGMW)` are a topological schedule:
a gate's level is at least the level of the producer of each input, and
strictly larger when that producer is an AND gate; the linear check
`topoCheck` (the harness's level oracle) accepts them – for every circuit. -/
theorem C10_levels_topological (c : Circuit) (hssa : SSA c.numWires c.gates c.inputDefined) :
    TopoLevels (glv c) ∧ topoCheck c.numWires (glv c) = true :=
  ⟨levels_topological c hssa, topoCheck_assignLevels c⟩

example : SSA exGmw.numWires exGmw.gates exGmw.inputDefined := ⟨by decide, by decide, by decide⟩
example : glv exGmw = [(⟨.and, 0, 1, 3⟩, 0), (⟨.xnor, 3, 2, 4⟩, 1), (⟨.inv, 4, 0, 5⟩, 1), (⟨.and, 5, 0, 6⟩, 1)] := by
  decide +kernel

/-- What the level oracle decides: a level table (ANY table – the one read
back from the real gates) that `topoCheck` accepts is a topological schedule,
for single-assignment gate lists. -/
theorem C10_topo_check_sound (n : Nat) (gl : List (Gate × Nat)) (hnd : (gl.map (·.1.out)).Nodup)
    (hsz : ∀ a ∈ gl, a.1.out < n) (h : topoCheck n gl = true) : TopoLevels gl :=
  topoCheck_sound n gl hnd hsz h

example : topoCheck 7 (glv exGmw) = true ∧ topoCheck 7 (exGmw.gates.zip [0, 1, 1, 0]) = false := by decide +kernel
example : TopoLevels (glv exGmw) :=
  C10_topo_check_sound 7 (glv exGmw) (by decide +kernel) (by decide +kernel) (by decide +kernel)

/-- **No-overflow side condition, explicit.**  With the levels held in a
`k`-bit counter the loop computes exactly the `Nat` levels as long as the AND
depth (`Stats[NumLevels]`, the largest wire level) is below `2^k`. -/
theorem C10_levels_counter_exact (c : Circuit) (k : Nat) (h : (c.assignLevels true).2 < 2 ^ k) :
    c.assignLevelsMod k = c.assignLevels true :=
  assignLevelsMod_eq c k h

example : (exGmw.assignLevels true).2 < 2 ^ 2 ∧ exGmw.assignLevelsMod 2 = ([0, 1, 1, 1], 2) := by decide +kernel

/-- **Where the model meets the code** (`type Level uint32`): for AND depth
below `2^32` the 32-bit computation of `AssignLevels` IS `assignLevels true`,
its level table is a topological schedule and the evaluation order of
`Network.run` built from it is `Gmw.schedule` – so `C10_level_schedule`,
`C10_outputs`, `C10_history` speak about the code.  Beyond that depth they do
not (`C10_levels_mod_not_topological`). -/
theorem C10_levels_u32 (c : Circuit) (hssa : SSA c.numWires c.gates c.inputDefined)
    (hdepth : (c.assignLevels true).2 < 2 ^ 32) :
    c.assignLevelsMod 32 = c.assignLevels true ∧
    TopoLevels (c.gates.zip (c.assignLevelsMod 32).1) ∧
    scheduleWith c (c.assignLevelsMod 32) = schedule c := by
  have e := assignLevelsMod_eq c 32 hdepth
  refine ⟨e, ?_, ?_⟩
  · rw [e]; exact levels_topological c hssa
  · rw [e, schedule_eq_scheduleWith]

example : (exGmw.assignLevels true).2 < 2 ^ 32 := by decide +kernel

/-- No level table whose entries all fit `k` bits is a topological schedule of
the dependent AND chain of depth `2^k + 1` (levels must grow by one per AND). -/
theorem C10_bounded_levels_not_topological (k : Nat) (lv : List Nat) (hl : lv.length = 2 ^ k + 1)
    (hb : ∀ l ∈ lv, l < 2 ^ k) : ¬ TopoLevels ((chain (2 ^ k + 1)).gates.zip lv) :=
  chain_bounded_not_topo k lv hl hb

example : ([0, 1, 0] : List Nat).length = 2 ^ 1 + 1 ∧ ∀ l ∈ ([0, 1, 0] : List Nat), l < 2 ^ 1 := by decide

/-- **Negation witness, as a family.**  For EVERY counter width `k` the
schedule computed modulo `2^k` is NOT topological once the AND depth reaches
`2^k`: on the chain of depth `2^k + 1` the last gate gets level `0` and is
evaluated in the first round, before the gate feeding it; the level oracle
rejects that table.  (`k = 32`: the code, at a depth no run reaches; `k = 16`,
`k = 8`: depths 65537 and 257, which the harness runs.) -/
theorem C10_levels_mod_not_topological (k : Nat) :
    ¬ TopoLevels ((chain (2 ^ k + 1)).gates.zip ((chain (2 ^ k + 1)).assignLevelsMod k).1) ∧
    topoCheck (chain (2 ^ k + 1)).numWires
      ((chain (2 ^ k + 1)).gates.zip ((chain (2 ^ k + 1)).assignLevelsMod k).1) = false :=
  ⟨chain_mod_not_topo k, chain_mod_check_false k⟩

example : (chain 3).assignLevelsMod 1 = ([0, 1, 0], 1) ∧ (chain 3).assignLevels true = ([0, 1, 2], 3) := by
  decide +kernel

/-- … and the outputs are wrong: evaluating the chain in the order
`Network.run` derives from the wrapped levels gives `0` where `compute` gives
`1` on the all-ones input (`k = 1, 2, 3`: depths 3, 5, 9), while the order of
the exact levels gives `compute`. -/
theorem C10_levels_mod_wrong_output :
    ∀ k ∈ [1, 2, 3],
      let c := chain (2 ^ k + 1)
      let st := initStore c.numWires false [true, true]
      c.outputs (evalPlainGates (scheduleWith c (c.assignLevelsMod k)) st) = [false] ∧
      c.outputs (evalPlainGates (scheduleWith c (c.assignLevels true)) st) = [true] ∧
      c.compute [true, true] = [true] := by
  decide +kernel

example : scheduleWith (chain 3) ((chain 3).assignLevelsMod 1) =
    [chainGate 0, chainGate 2, chainGate 1] := by decide +kernel

/-- The `lvl` op of the driver evaluates `Circuit.compute` through
`computeFast` (initial store built without the per-wire list walk, needed for
inputs of 2^16 and more bits): the same function. -/
theorem C10_driver_compute (c : Circuit) (x : List Bool) : c.computeFast x = c.compute x :=
  computeFast_eq c x

example : exGmw.computeFast [true, true, false] = [true, true] := by decide +kernel

/-! ### Histories: consecutive `Run` calls on one connected Network

A `gmw.Network` is made to be reused (the triple pool persists over runs).
"Every circuit, all inputs" therefore quantifies over every call of every
history of calls on one Network, not only over the first call of a fresh
one.  `Model/GmwHist.lean` carries what the Network keeps between two calls
(pool position, `nw.triples`, the wire store that is never reset). -/

/-- The first call on a fresh Network is `Gmw.run`: the history model
extends the single-run model. -/
theorem C10_run_is_first_call (c : Circuit) (sizes : List Nat) (x : Nat → Nat) (rnd : Nat → Nat → Nat)
    (pools : Nat → Triples) :
    run c sizes x rnd pools = runFrom c sizes x rnd (fresh sizes.length pools) ∧
    runHist [⟨c, sizes, x, rnd⟩] (fresh sizes.length pools) =
      (match run c sizes x rnd pools with
       | .ok ps outs => [.ok ps outs]
       | r => [r]) := by
  have h := run_eq_runFrom c sizes x rnd pools
  refine ⟨h, ?_⟩
  simp only [runHist, ← h]
  cases run c sizes x rnd pools <;> rfl

example : runOuts (run exGmw [1, 1, 1] exX exRnd exPools) =
    runOuts (runFrom exGmw [1, 1, 1] exX exRnd (fresh 3 exPools)) := by
  rw [(C10_run_is_first_call exGmw [1, 1, 1] exX exRnd exPools).1]; rfl

/-- **One `Run` from ANY state a Network can be in between two calls**: ids
in order, `nw.triples` cleared, `L` valid triple words in every pool,
ARBITRARY stale wire stores (of one common size `M`, whatever the earlier
circuits were).  For every single-assignment circuit without OR gates, all
inputs, all sharing randomness, `needW ≤ L`: the call returns; the state after
it is again such a state, with `needW` words fewer – the FIRST `needW` words of
every pool, in stream order; on every wire the circuit defines the shares
reconstruct to `plainEval` (stale bits do not leak into defined wires); when
the output wires are defined, every party's output is `Circuit.compute` of
THIS circuit on THIS call's inputs. -/
theorem C10_run_from_state (c : Circuit) (sizes : List Nat) (x : Nat → Nat) (rnd : Nat → Nat → Nat)
    (ps : List Party) (L M : Nat) (hok : RunOK c sizes) (hb : Between sizes.length L M ps)
    (hL : needW (blocks c) ≤ L) :
    ∃ ps' outs, runFrom c sizes x rnd ps = .ok ps' outs ∧
      Between sizes.length (L - needW (blocks c)) (max M c.numWires) ps' ∧ outs.length = sizes.length ∧
      (∀ w, c.defined w = true → recon ps' w = (c.plainEval (inputBits sizes x)).get w) ∧
      (c.outputsDefined = true → ∀ o ∈ outs, o = c.compute (inputBits sizes x)) ∧
      poolViews ps' = (poolViews ps).map (·.drop (needW (blocks c))) := by
  obtain ⟨ps', outs, h1, h2, h3, h4, h5, h6, h7⟩ :=
    runFrom_correct c sizes x rnd ps (inputBits sizes x) L M hok (inputsOf_inputBits sizes x) hb.st hb.wsz hL
  exact ⟨ps', outs, h1, ⟨h2, h3⟩, h4, h5, h6, h7⟩

/-- **C10_history.**  For every number of parties `n`, every list of calls
`(circuit, inputs, sharing randomness)` – same circuit again, another circuit
of the same shape / AND depth / level widths, deeper, shallower, wider,
narrower, without AND gates: no relation between consecutive circuits is
assumed – each a single-assignment `n`-party circuit without OR gates whose
output wires are defined, and pools holding at least the words of the whole
history: EVERY call returns and EVERY party's output of call `i` is
`compute` of circuit `i` on the inputs of call `i`; the share invariant holds
on all wires circuit `i` defines; after call `i` every party's pool is the
initial pool minus the first `Σ_{j ≤ i} needW` words (lock-step over the fold
of runs).  By induction over the history with `C10_run_from_state`. -/
theorem C10_history (n : Nat) (ks : List Call) (pools : Nat → Triples) (L : Nat)
    (hks : ∀ k ∈ ks, CallOK n k) (hpools : PoolsValid n L pools) (hL : needHist ks ≤ L) :
    HistOK n ks L ((List.range n).map fun p => (pools p).view) (runHist ks (fresh n pools)) := by
  have h := hist_correct n ks (fresh n pools) L 0 hks (between_fresh n L pools hpools) hL
  have e : poolViews (fresh n pools) = (List.range n).map fun p => (pools p).view := by
    simp [poolViews, fresh, List.map_map, Function.comp]
  rw [e] at h
  exact h

/-- Offline phase and a whole history composed. -/
theorem C10_history_offline_online (n : Nat) (ks : List Call) (bs : List (Nat × BatchIn))
    (hks : ∀ k ∈ ks, CallOK n k) (hcot : ∀ b ∈ bs, CotCorr n b.1 b.2) (hL : needHist ks ≤ (bs.map (·.1)).sum) :
    HistOK n ks (bs.map (·.1)).sum ((List.range n).map fun p => (dealt n bs p).view)
      (runHist ks (fresh n (dealt n bs))) :=
  C10_history n ks _ _ hks (C10_triples_valid_pool n bs hcot) hL

/-! #### Non-vacuity: a concrete three-party history -/

/-- same I/O, same number of gates, same AND depth and level widths as
`exGmw`, other wiring: `w3 = b & c; w4 = w3 ^ a; w5 = !w4; w6 = w5 & b` -/
def exGmw2 : Circuit :=
  { numWires := 7, nIn := 3, nOut := 2,
    gates := [⟨.and, 1, 2, 3⟩, ⟨.xor, 3, 0, 4⟩, ⟨.inv, 4, 0, 5⟩, ⟨.and, 5, 1, 6⟩] }

/-- no AND gate, two parties' worth of wires fewer: `w3 = a xnor b; w4 = w3 ^ c` -/
def exGmw0 : Circuit :=
  { numWires := 5, nIn := 3, nOut := 1, gates := [⟨.xnor, 0, 1, 3⟩, ⟨.xor, 3, 2, 4⟩] }

def exPools6 (p : Nat) : Triples :=
  match p with
  | 0 => Triples.ofList [(20#64, 27#64, 36#64), (60#64, 26#64, 37#64), (9#64, 4#64, 25#64), (25#64, 15#64, 3#64),
      (41#64, 5#64, 62#64), (3#64, 35#64, 14#64)]
  | 1 => Triples.ofList [(4#64, 27#64, 2#64), (52#64, 3#64, 35#64), (34#64, 52#64, 54#64), (6#64, 36#64, 8#64),
      (23#64, 7#64, 18#64), (37#64, 60#64, 26#64)]
  | _ => Triples.ofList [(3#64, 14#64, 36#64), (58#64, 40#64, 54#64), (32#64, 40#64, 39#64), (13#64, 37#64, 9#64),
      (2#64, 60#64, 16#64), (5#64, 3#64, 20#64)]

def exX2 (p : Nat) : Nat := if p = 0 then 0 else 1

/-- `exGmw`, then `exGmw2` (same shape, other gates) on other inputs, then the
AND-free `exGmw0`, then `exGmw` again -/
def exHist : List Call :=
  [⟨exGmw, [1, 1, 1], exX, exRnd⟩, ⟨exGmw2, [1, 1, 1], exX2, fun p q => exRnd q p⟩,
   ⟨exGmw0, [1, 1, 1], exX, exRnd⟩, ⟨exGmw, [1, 1, 1], exX2, exRnd⟩]

def histOuts (rs : List RunResult) : List (Option (List (List Bool))) := rs.map runOuts

example : ∀ k ∈ exHist, CallOK 3 k := by
  have ok : ∀ c : Circuit, SSA c.numWires c.gates c.inputDefined → (∀ g ∈ c.gates, g.op ≠ .or) → c.nIn = 3 →
      3 ≤ c.numWires → c.outputsDefined = true → ∀ x r, CallOK 3 ⟨c, [1, 1, 1], x, r⟩ :=
    fun c h1 h2 h3 h4 h5 x r => ⟨⟨h1, h2, Nat.succ_pos 2, h3, by show c.nIn ≤ c.numWires; omega⟩, rfl, h5⟩
  intro k hk
  simp only [exHist, List.mem_cons, List.mem_nil_iff, or_false] at hk
  rcases hk with rfl | rfl | rfl | rfl
  · exact ok exGmw ⟨by decide, by decide, by decide⟩ (by decide) rfl (by decide) (by decide) _ _
  · exact ok exGmw2 ⟨by decide, by decide, by decide⟩ (by decide) rfl (by decide) (by decide) _ _
  · exact ok exGmw0 ⟨by decide, by decide, by decide⟩ (by decide) rfl (by decide) (by decide) _ _
  · exact ok exGmw ⟨by decide, by decide, by decide⟩ (by decide) rfl (by decide) (by decide) _ _

example : PoolsValid 3 6 exPools6 := by
  refine ⟨fun p hp => ?_, fun k hk => ?_⟩
  · match p, hp with
    | 0, _ => exact ⟨by decide, rfl⟩
    | 1, _ => exact ⟨by decide, rfl⟩
    | 2, _ => exact ⟨by decide, rfl⟩
  · match k, hk with
    | 0, _ => decide +kernel
    | 1, _ => decide +kernel
    | 2, _ => decide +kernel
    | 3, _ => decide +kernel
    | 4, _ => decide +kernel
    | 5, _ => decide +kernel

example : needHist exHist = 6 := by decide +kernel

/-- the executed history model: every call gives every party `compute` of ITS
circuit on ITS inputs – and that is not what the first circuit's gates give on
the second call's inputs (`exGmw` and `exGmw2` differ there), so a Network that
kept evaluating the gates of its first circuit is excluded by the theorem -/
theorem C10_history_concrete :
    histOuts (runHist exHist (fresh 3 exPools6)) =
      [some [[true, true], [true, true], [true, true]], some [[false, false], [false, false], [false, false]],
       some [[true], [true], [true]], some [[true, false], [true, false], [true, false]]] ∧
    exHist.map (fun k => k.c.compute (inputBits k.sizes k.x)) =
      [[true, true], [false, false], [true], [true, false]] ∧
    exGmw.compute (inputBits [1, 1, 1] exX2) ≠ exGmw2.compute (inputBits [1, 1, 1] exX2) := by
  decide +kernel

/-! ### Inputs as the integers the API accepts (`Model/GmwInt.lean`)

"All inputs" of the statement ranges over the `*big.Int` values a party can
hand to `Network.Run`: what `IOArg.Parse` makes of the user's text - a NEGATIVE
value for "-5" (signed and unsigned scalar arguments alike), a value wider
than the declared width for a long literal, zero - not over bit lists.  The
own share is `Xor(shares sent, input)` read with `Bit(i)`; both are
two's-complement operations of `math/big` defined on every integer. -/

/-- **The bits a party shares are the two's complement of its input at the
declared width, for EVERY integer**: `Xor` then `Bit` is the XOR of the
`Bit`s; what `setWires(self, shared.Xor(shared, input))` stores is what the
natural-number model stores for the residue `input mod 2^Bits`; the `Bits`
wire bits of `input` are the binary digits of that residue. -/
theorem C10_input_share_twos_complement (w : Store Bool) (ofs bits s : Nat) (v : Int) :
    (∀ a b : Int, ∀ i, bigIntBit (bigIntXor a b) i = (bigIntBit a i != bigIntBit b i)) ∧
    setWiresInt w ofs bits (bigIntXor (Int.ofNat s) v) = setWires w ofs bits (s ^^^ residue bits v) ∧
    bitsOfInt bits v = natBits bits (residue bits v) ∧
    packLE (bitsOfInt bits v) = residue bits v ∧ (residue bits v : Int) = v % 2 ^ bits :=
  ⟨bigIntBit_xor, setWiresInt_xor w ofs bits s v, (natBits_residue bits v).symm, packLE_bitsOfInt bits v,
    Int.toNat_of_nonneg (Int.emod_nonneg v (Int.ne_of_gt (Int.pow_pos (by decide))))⟩

example : residue 8 (-5) = 251 ∧ bitsOfInt 8 (-5) = [true, true, false, true, true, true, true, true] ∧
    bigIntXor 6 (-5) = -3 ∧ bigIntXor (-6) (-5) = 1 ∧ residue 4 (2 ^ 64 + 3) = 3 := by decide

/-- The integer-input model is the natural-number model on the residues:
single run, run from any state, whole histories. -/
theorem C10_int_run_is_residue_run (c : Circuit) (sizes : List Nat) (x : Nat → Int) (rnd : Nat → Nat → Nat)
    (pools : Nat → Triples) (ps : List Party) (ks : List CallInt) :
    runInt c sizes x rnd pools = run c sizes (natInputs sizes x) rnd pools ∧
    runFromInt c sizes x rnd ps = runFrom c sizes (natInputs sizes x) rnd ps ∧
    runHistInt ks ps = runHist (ks.map CallInt.toCall) ps ∧
    inputBits sizes (natInputs sizes x) = inputBitsInt sizes x :=
  ⟨runInt_eq c sizes x rnd pools, runFromInt_eq c sizes x rnd ps, runHistInt_eq ks ps, inputBits_natInputs sizes x⟩

/-- **C10_outputs_int.**  `C10_outputs` for the inputs the API accepts: for
every number of parties, every circuit as there, EVERY integer input of every
party (any sign, any magnitude), all sharing randomness and valid pools: the
run returns and every party's output is `Circuit.compute` on the bits
`(x p).Bit(i)`, `i < Bits_p` - what `Circuit.Compute` evaluates for the same
`*big.Int` values. -/
theorem C10_outputs_int (c : Circuit) (sizes : List Nat) (x : Nat → Int) (rnd : Nat → Nat → Nat)
    (pools : Nat → Triples) (L : Nat) (hok : RunOK c sizes) (hpools : PoolsValid sizes.length L pools)
    (hL : needW (blocks c) ≤ L) :
    ∃ ps outs, runInt c sizes x rnd pools = .ok ps outs ∧ outs.length = sizes.length ∧
      ∀ o ∈ outs, o = c.compute (inputBitsInt sizes x) := by
  rw [runInt_eq, ← inputBits_natInputs]
  exact C10_outputs c sizes (natInputs sizes x) rnd pools L hok hpools hL

/-- The same with every party's argument given member by member (scalar: the
parsed integer itself; struct: `IOArg.Parse` packs the members with
`SetBit(offset+i, member.Bit(i))`): every party's output is `compute` on the
flattened members of all parties, each read with `Bit` - the wire assignment
of `Circuit.Compute(inputs)`. -/
theorem C10_outputs_args (c : Circuit) (n : Nat) (args : Nat → ArgVals) (rnd : Nat → Nat → Nat)
    (pools : Nat → Triples) (L : Nat) (hok : RunOK c (argSizes n args)) (hpools : PoolsValid n L pools)
    (hL : needW (blocks c) ≤ L) :
    ∃ ps outs, runArgs c n args rnd pools = .ok ps outs ∧ outs.length = n ∧
      ∀ o ∈ outs, o = c.compute (encodeArg ((List.range n).flatMap args)) := by
  have h := C10_outputs_int c (argSizes n args) (fun p => partyValue (args p)) rnd pools L hok
    (by rw [argSizes_length]; exact hpools) hL
  rw [argSizes_length, inputBitsInt_args] at h
  exact h

/-- **C10_history_int.**  `C10_history` for integer inputs: every call of
every history returns `compute` of ITS circuit on the `Bit`s of ITS integer
inputs. -/
theorem C10_history_int (n : Nat) (ks : List CallInt) (pools : Nat → Triples) (L : Nat)
    (hks : ∀ k ∈ ks, CallOK n k.toCall) (hpools : PoolsValid n L pools)
    (hL : needHist (ks.map CallInt.toCall) ≤ L) :
    HistOK n (ks.map CallInt.toCall) L ((List.range n).map fun p => (pools p).view) (runHistInt ks (fresh n pools)) ∧
    ∀ k ∈ ks, inputBits k.toCall.sizes k.toCall.x = inputBitsInt k.sizes k.x := by
  refine ⟨?_, fun k _ => inputBits_natInputs k.sizes k.x⟩
  rw [runHistInt_eq]
  exact C10_history n _ pools L (by simpa using hks) hpools hL

/-! #### Non-vacuity and the magnitude-words witness -/

/-- `w4 = a0 ^ b; w5 = a1 ^ b; w6 = a2 ^ b`: party 0 has a 3-bit argument,
party 1 one bit; every input bit reaches an output. -/
def exIntC : Circuit :=
  { numWires := 7, nIn := 4, nOut := 3, gates := [⟨.xor, 0, 3, 4⟩, ⟨.xor, 1, 3, 5⟩, ⟨.xor, 2, 3, 6⟩] }

/-- party 0: `-3` (what `Parse("-3")` returns for `int3` and `uint3` alike),
party 1: `2^64` (wider than its one-bit argument: bit 0 is 0) -/
def exIntX (p : Nat) : Int := if p = 0 then -3 else 2 ^ 64

def noPools (_ : Nat) : Triples := Triples.empty

example : RunOK exIntC [3, 1] :=
  ⟨⟨by decide, by decide, by decide⟩, by decide, by decide, by decide, by decide⟩
example : PoolsValid 2 0 noPools :=
  ⟨fun p _ => ⟨by simp [noPools, Triples.WF, Triples.empty], rfl⟩, fun k hk => absurd hk (Nat.not_lt_zero k)⟩
example : needW (blocks exIntC) = 0 := by decide +kernel
example : argSizes 2 (fun p => if p = 0 then [(3, -3)] else [(1, 2 ^ 64)]) = [3, 1] := by decide

example : ∀ k ∈ [(⟨exIntC, [3, 1], exIntX, exRnd⟩ : CallInt), ⟨exIntC, [3, 1], fun _ => -1, exRnd⟩], CallOK 2 k.toCall := by
  intro k hk
  simp only [List.mem_cons, List.mem_nil_iff, or_false] at hk
  rcases hk with rfl | rfl <;>
    exact ⟨⟨⟨by decide, by decide, by decide⟩, by decide, by decide, by decide, by decide⟩, rfl, by decide⟩

/-- On non-negative inputs a reader of the magnitude words (`big.Int.Bits()`)
computes the same run: inputs built with `SetBit` cannot tell the two apart. -/
theorem C10_abs_words_agree_nonneg (c : Circuit) (sizes : List Nat) (x : Nat → Nat) (rnd : Nat → Nat → Nat)
    (pools : Nat → Triples) :
    runAbs c sizes (fun p => Int.ofNat (x p)) rnd pools = runInt c sizes (fun p => Int.ofNat (x p)) rnd pools := by
  rfl

/-- **Negation witness for the magnitude-words reading.**  On the executed
model of the code every party returns `compute` of the two's-complement bits
of `-3` (`101`); the variant that reads the machine words of the XORed own
share (`Xor(3, -3) = -2`, magnitude `2`) makes every party return another value. -/
theorem C10_abs_words_run_wrong :
    exIntC.compute (inputBitsInt [3, 1] exIntX) = [true, false, true] ∧
    runOuts (runInt exIntC [3, 1] exIntX exRnd noPools) = some [[true, false, true], [true, false, true]] ∧
    runOuts (runAbs exIntC [3, 1] exIntX exRnd noPools) = some [[true, false, false], [true, false, false]] := by
  decide +kernel

/-! ### degenerate session shapes: the message transcript of a run (`Model/GmwMsgs.lean`)

The quantifier "every circuit, all inputs" includes arguments of 0 bits (a party that only receives the result),
circuits without AND gates, without gates, without outputs.  `Network.run` posts one `receiveInput` per peer
unconditionally; the run completes only if the peer's `shareInput` puts a message on the connection whatever
the width of its argument.  The harness ties `sentBytes (transcript ..)` to `Stats().Sent` of every party of
the degenerate sessions (`msgs` op). -/

/-- **Message-count invariant of the input sharing.**  For every list of argument widths - 0 included - every
party sends exactly one input-share message to every peer, and every such message is on the wire: its 4-byte
length and `ceil(bits/8)` share bytes (for a 0-bit argument the length alone). -/
theorem C10_input_share_one_message_per_pair (sizes : List Nat) (p q : Nat) (hp : p < sizes.length)
    (hq : q < sizes.length) (hpq : p ≠ q) :
    (inputMsgs sizes).countP (fun m => m.src == p && m.dst == q) = 1 ∧
    ∀ m ∈ inputMsgs sizes, m.bytes = 4 + (sizes.getD m.src 0 + 7) / 8 ∧ 4 ≤ m.bytes := by
  refine ⟨round_one_per_pair _ _ _ p q hp hq hpq, ?_⟩
  intro m hm
  have h := (mem_round hm).2.2.2.2
  rw [h]; unfold inputBytes; exact ⟨rfl, by omega⟩

example : (inputMsgs [32, 32, 0]).countP (fun m => m.src == 2 && m.dst == 0) = 1 := by decide
example : ((inputMsgs [32, 32, 0]).filter fun m => m.src == 2).map (·.bytes) = [4, 4] := by decide

/-- **Every receive is matched.**  Over a whole run (input shares, one opening per AND batch, output shares) the
number of messages `p → q` equals the number of messages `q → p` equals `#batches + 2`, for every pair of distinct
parties, all argument widths, all batch lists (the empty one included) and all output-share lengths: no party
waits for a message its peer does not send. -/
theorem C10_transcript_matched (sizes ws : List Nat) (outLen : Nat → Nat) (p q : Nat) (hp : p < sizes.length)
    (hq : q < sizes.length) (hpq : p ≠ q) :
    (transcript sizes ws outLen).countP (fun m => m.src == p && m.dst == q) = ws.length + 2 ∧
    (transcript sizes ws outLen).countP (fun m => m.src == q && m.dst == p) = ws.length + 2 :=
  ⟨transcript_count sizes ws outLen p q hp hq hpq, transcript_count sizes ws outLen q p hq hp (Ne.symm hpq)⟩

example : (transcript [0, 0] [] (fun _ => 0)).countP (fun m => m.src == 1 && m.dst == 0) = 2 := by decide
example : (List.range 3).map (sentBytes (transcript [32, 32, 0] [1, 2, 1] (fun _ => 4))) = [248, 248, 240] := by
  decide +kernel

end Mpc

/-
C11  Connection layer is a faithful, ordered, typed byte stream.

Property theorems only; helper lemmas are in Proofs/Conn.lean, the executable
model (the same definitions the driver runs against the real `p2p.Conn`) in
Model/Conn.lean.

Quantification carried by the theorems:
* every operation list `ops` (typed sends of every kind with payloads of every
  size — 0, 1, 65535..65537, 2^20±1, … are just values of `d.size` — interleaved
  with `Flush` and `NeedSpace n` in any way);
* every writer-goroutine schedule `sch : Nat → Nat` (how far the writer gets
  during each flush) plus any number `j` of additional writer iterations at the
  point of observation;
* every fragmentation oracle `frag : Nat → Nat` (the size the transport returns
  on its i-th `Read`, clamped to 1 .. min(room, bytes remaining));
* every trailing byte string `rest` following the values that are received.

The send half exists in two models: the value-level `Sender` (queue of byte
strings) about which the main theorems are stated, and `Ring`, where the three
physical write buffers, the slice headers in `toWriter` and the aliasing of
`WriteBuf` are explicit; `C11_conn_ring_refines` proves the ownership
invariant of the ring and that it refines `Sender` step for step.

Transport faults are a third model of the send half, `FSender`: the `i`-th
`conn.Write` may fail after any number of bytes (`Fault`), the writer goroutine
records `writerErr` and goes on, `Flush`/`Close` have their early-return error
paths; quantified over every fault pattern, every schedule, every operation
list (`C11_conn_fault_*`; `C11_old_writer_gap_witness` keeps the behaviour before the
fix f07ee15 as a witness).  A stream that ends inside a value is covered by
`C11_conn_recv_eof_mid_value`.

Domain guard (explicit hypothesis `Val.Valid`): `u16 < 2^16`, `u32 < 2^32`,
payload and list lengths `< 2^32`, labels `< 2^128`.  Outside it the Go code
truncates (`uint32(val)`) and nothing is claimed.
-/
import MpcVerif.Proofs.Conn

namespace Mpc
open Conn

/-- **conn_send_inv.**  At every point between two sender operations, under
every writer schedule and after any number of further writer iterations:
bytes already written to the transport, followed by the buffers still queued
for the writer goroutine, followed by the partly filled write buffer are
exactly the encoding of the operations executed so far, in order.  Moreover
the write buffer never exceeds 64 KiB, at most `numBuffers - 1` buffers are
queued, `Stats.Sent` is the number of bytes handed to the writer,
`Stats.Flushed` the number of chunks, and every chunk is non-empty and at most
64 KiB. -/
theorem C11_conn_send_inv (sch : Sched) (ops : List Op) (j : Nat) :
    let s := (Sender.init.run sch ops).writerSteps j
    joinB (s.wire ++ s.queue) ++ s.cur = encodeAll ops ∧
    s.cur.size ≤ writeBufSize ∧
    s.queue.length ≤ numBuffers - 1 ∧
    s.sent = (joinB (s.wire ++ s.queue)).size ∧
    s.flushed = (s.wire ++ s.queue).length ∧
    ∀ c ∈ s.wire ++ s.queue, 0 < c.size ∧ c.size ≤ writeBufSize := by
  intro s
  obtain ⟨h1, h2⟩ := run_spec sch ops Sender.init SInv_init
  obtain ⟨w1, w2, _⟩ := writerSteps_spec j _ h1
  refine ⟨?_, w1.cur_le, w1.queue_le, w1.sent_eq, w1.flushed_eq, w1.chunk_sz⟩
  have : s.stream = encodeAll ops := by
    rw [w2, h2]; simp [Sender.stream, Sender.chunks, Sender.init, joinB]
  exact this

example : ∃ ops : List Op, ops ≠ [] ∧ encodeAll ops ≠ ByteArray.empty :=
  ⟨[.send (.byte 7)], by simp, by decide⟩

/-- **Chunking is schedule-independent.**  The sequence of chunks handed to
`conn.Write` (hence the flush points), the content of the write buffer and
both counters do not depend on how the writer goroutine is scheduled. -/
theorem C11_conn_sched_indep (sch sch' : Sched) (ops : List Op) :
    (Sender.init.run sch ops).cur = (Sender.init.run sch' ops).cur ∧
    (Sender.init.run sch ops).chunks = (Sender.init.run sch' ops).chunks ∧
    (Sender.init.run sch ops).sent = (Sender.init.run sch' ops).sent ∧
    (Sender.init.run sch ops).flushed = (Sender.init.run sch' ops).flushed := by
  have h := core_run_congr sch sch' ops Sender.init Sender.init rfl
  simpa only [Sender.core, Prod.mk.injEq] using h

/-- **Flush hands everything over.**  Right after a `Flush` nothing is left in
the write buffer: everything sent so far is on the wire or queued for the
writer goroutine (which writes it without further action of the sender). -/
theorem C11_conn_flush_hands_over (sch : Sched) (ops : List Op) :
    let s := Sender.init.run sch (ops ++ [Op.flush])
    s.cur = ByteArray.empty ∧ joinB (s.wire ++ s.queue) = encodeAll ops := by
  intro s
  obtain ⟨h1, h2⟩ := run_spec sch ops Sender.init SInv_init
  obtain ⟨f1, f2, f3⟩ := flushS_spec sch _ h1
  have hs : s = (Sender.init.run sch ops).flushS sch := by
    simp [s, Sender.run, List.foldl_append, Sender.step]
  rw [hs]
  refine ⟨f3, ?_⟩
  have : ((Sender.init.run sch ops).flushS sch).stream = encodeAll ops := by
    rw [f2, h2]; simp [Sender.stream, Sender.chunks, Sender.init, joinB]
  simpa [Sender.stream, Sender.chunks, f3] using this

/-- **conn_close_delivers.**  After `Close` the transport has received exactly
the encoding of all operations, nothing is left queued or buffered, and
`Stats.Sent` equals the number of bytes written, `Stats.Flushed` the number of
`Write` calls; every `Write` carried between 1 and 65536 bytes. -/
theorem C11_conn_close_delivers (sch : Sched) (ops : List Op) :
    let s := (Sender.init.run sch ops).close sch
    joinB s.wire = encodeAll ops ∧ s.queue = [] ∧ s.cur = ByteArray.empty ∧
    s.sent = (encodeAll ops).size ∧ s.sent = (joinB s.wire).size ∧
    s.flushed = s.wire.length ∧
    ∀ c ∈ s.wire, 0 < c.size ∧ c.size ≤ writeBufSize := by
  intro s
  obtain ⟨h1, h2⟩ := run_spec sch ops Sender.init SInv_init
  obtain ⟨c1, c2, c3, c4, c5, c6⟩ := close_spec sch _ h1
  have hst : (Sender.init.run sch ops).stream = encodeAll ops := by
    rw [h2]; simp [Sender.stream, Sender.chunks, Sender.init, joinB]
  rw [hst] at c3 c4
  exact ⟨c3, c1, c2, c4, by rw [c4, c3], c5, c6⟩

/-- **conn_recv (general form).**  From any receiver state satisfying the
window invariant (`ReadStart ≤ ReadEnd ≤ 1 MiB`) whose unread bytes (window
followed by what the transport still holds) are `encodeVals vs ++ rest`, under
every fragmentation of the transport reads, the matching typed receives return
exactly `vs` in order, take no error branch, leave exactly `rest` unread, and
`Stats.Recvd` grows by exactly the number of bytes taken from the transport. -/
theorem C11_conn_recv_from (frag : Frag) (vs : List Val) (hv : ∀ v ∈ vs, v.Valid)
    (r : Recv) (hr : r.rs ≤ r.buf.size ∧ r.buf.size ≤ readBufSize ∧ r.pos ≤ r.pend.size)
    (rest : ByteArray) (hu : r.unread = encodeVals vs ++ rest) :
    ∃ r', r.recvAll frag (vs.map Val.kind) = (vs, r', none) ∧
      r'.unread = rest ∧ r'.pend = r.pend ∧
      r'.recvd - r.recvd = r'.pos - r.pos ∧ r.recvd ≤ r'.recvd ∧
      r'.rs ≤ r'.buf.size ∧ r'.buf.size ≤ readBufSize ∧ r'.pos ≤ r'.pend.size := by
  obtain ⟨r', e, i, u, a⟩ := recvAll_spec frag vs hv r ⟨hr.1, hr.2.1, hr.2.2⟩ rest hu
  refine ⟨r', e, u, a.pend_eq, ?_, ?_, i.rs_le, i.buf_le, i.pos_le⟩
  · have := a.recvd_eq; have := a.pos_mono; omega
  · have := a.recvd_eq; have := a.pos_mono; omega

/-- **conn_recv.**  A fresh connection reading the stream `encodeVals vs ++ rest`
from a transport that fragments reads in any way receives exactly `vs` and
leaves exactly `rest`; `Stats.Recvd` equals the bytes taken from the transport. -/
theorem C11_conn_recv (frag : Frag) (vs : List Val) (hv : ∀ v ∈ vs, v.Valid) (rest : ByteArray) :
    ∃ r', (Recv.init (encodeVals vs ++ rest)).recvAll frag (vs.map Val.kind) = (vs, r', none) ∧
      r'.unread = rest ∧ r'.recvd = r'.pos ∧ r'.pos ≤ (encodeVals vs ++ rest).size := by
  obtain ⟨r', e, i, u, a⟩ := recvAll_spec frag vs hv _ (RInv_init _) rest (unread_init _)
  refine ⟨r', e, u, ?_, ?_⟩
  · have := a.recvd_eq; simpa [Recv.init] using this
  · have h1 := i.pos_le; have h2 := a.pend_eq; rw [h2] at h1; simpa [Recv.init] using h1

/-- **conn_recv_eof_mid_value.**  If the transport's stream ends in the middle
of a value - after the complete encodings of `vs` only a proper prefix `p` of
the encoding of a further value `v` arrives, under any fragmentation - then
the matching typed receives return exactly `vs`, the receive of `v` fails with
the transport's end-of-stream error, nothing after it is attempted, and no
partial value is ever reported as received (for `ReceiveData/ReceiveString`
this includes a complete length prefix followed by a short body, for
`ReceiveInputSizes` a complete count followed by too few entries). -/
theorem C11_conn_recv_eof_mid_value (frag : Frag) (vs : List Val) (hv : ∀ v ∈ vs, v.Valid)
    (v : Val) (hvv : v.Valid) (p q : ByteArray) (hp : p.size < v.encode.size)
    (hpq : p ++ q = v.encode) (more : List Kind) :
    ∃ r', (Recv.init (encodeVals vs ++ p)).recvAll frag (vs.map Val.kind ++ v.kind :: more)
        = (vs, r', some Err.eof) ∧ r'.unread = p := by
  obtain ⟨r1, i1, u1, _, e⟩ := recvAll_spec_append frag vs hv (v.kind :: more) _ (RInv_init _) p
    (unread_init _)
  have herr := recvVal_eof frag v hvv r1 i1 p q hp hpq u1
  refine ⟨r1, ?_, u1⟩
  rw [e]
  simp [Recv.recvAll, herr]

/-- non-vacuity: a data value of 3 bytes cut after its length prefix and one body byte -/
example : ∃ (v : Val) (p q : ByteArray), v.Valid ∧ p.size < v.encode.size ∧ p ++ q = v.encode ∧ 4 < p.size :=
  ⟨.data [1, 2, 3].toByteArray, [0, 0, 0, 3, 1].toByteArray, [2, 3].toByteArray,
   by simp [Val.Valid], by decide, by decide, by decide⟩

/-- Example values of every kind, including the empty payload, for non-vacuity. -/
def exampleVals : List Val :=
  [.byte 0xab, .u16 65535, .u32 4294967295, .data ByteArray.empty, .data [1, 2, 3].toByteArray,
   .str "hi".toUTF8, .label (2 ^ 128 - 1), .sizes [], .sizes [0, 7, 4294967295]]

theorem exampleVals_valid : ∀ v ∈ exampleVals, v.Valid := by
  intro v hv
  simp only [exampleVals, List.mem_cons, List.not_mem_nil, or_false] at hv
  rcases hv with h | h | h | h | h | h | h | h | h <;> subst h <;> simp [Val.Valid] <;> decide

example (frag : Frag) (rest : ByteArray) :=
  C11_conn_recv frag exampleVals exampleVals_valid rest

/-- **conn_roundtrip.**  Any sequence of typed sends of valid values interleaved
with flushes and `NeedSpace` calls in any way, under any writer schedule,
closed, and read back through a transport with any read fragmentation by the
matching typed receives yields exactly the sent values in order, consumes the
stream completely, and the byte counters of both ends equal the number of bytes
that crossed the transport. -/
theorem C11_conn_roundtrip (sch : Sched) (frag : Frag) (ops : List Op)
    (hv : ∀ v ∈ opsVals ops, v.Valid) :
    let s := (Sender.init.run sch ops).close sch
    ∃ r', (Recv.init (joinB s.wire)).recvAll frag ((opsVals ops).map Val.kind) = (opsVals ops, r', none) ∧
      r'.unread = ByteArray.empty ∧
      r'.recvd = (joinB s.wire).size ∧ s.sent = (joinB s.wire).size := by
  intro s
  obtain ⟨c1, _, _, _, c5, _⟩ := C11_conn_close_delivers sch ops
  have hw : joinB s.wire = encodeVals (opsVals ops) ++ ByteArray.empty := by
    rw [c1, encodeAll_eq_encodeVals]; simp
  obtain ⟨r', e, i, u, a⟩ := recvAll_spec frag (opsVals ops) hv (Recv.init (joinB s.wire))
    (RInv_init _) ByteArray.empty (by rw [unread_init]; exact hw)
  refine ⟨r', e, u, ?_, c5⟩
  have hsz : r'.unread.size = 0 := by rw [u]; simp
  rw [size_unread] at hsz
  have h1 := i.pos_le
  have h2 := a.pend_eq
  have h3 := a.recvd_eq
  rw [h2] at h1 hsz
  simp only [Recv.init] at h1 h3 hsz
  omega

/-- **Both directions at once.**  The send half (`WriteBuf/WritePos/channels/
Sent/Flushed`) and the receive half (`ReadBuf/ReadStart/ReadEnd/Recvd`) of a
`Conn` share no state, so a duplex session is a pair of independent one-way
sessions; whatever A→B does (operations, writer schedule, fragmentation), B→A
round-trips, and vice versa. -/
theorem C11_conn_duplex (schA schB : Sched) (fragA fragB : Frag) (opsA opsB : List Op)
    (hA : ∀ v ∈ opsVals opsA, v.Valid) (hB : ∀ v ∈ opsVals opsB, v.Valid) :
    (∃ rB, (Recv.init (joinB ((Sender.init.run schA opsA).close schA).wire)).recvAll fragB
        ((opsVals opsA).map Val.kind) = (opsVals opsA, rB, none) ∧ rB.unread = ByteArray.empty) ∧
    (∃ rA, (Recv.init (joinB ((Sender.init.run schB opsB).close schB).wire)).recvAll fragA
        ((opsVals opsB).map Val.kind) = (opsVals opsB, rA, none) ∧ rA.unread = ByteArray.empty) := by
  obtain ⟨rB, e1, u1, _⟩ := C11_conn_roundtrip schA fragB opsA hA
  obtain ⟨rA, e2, u2, _⟩ := C11_conn_roundtrip schB fragA opsB hB
  exact ⟨⟨rB, e1, u1⟩, ⟨rA, e2, u2⟩⟩

/-- Non-vacuity: an operation list with every kind of send, flushes and
`NeedSpace` between them, whose values are all in the domain. -/
def exampleOps : List Op :=
  [.flush, .send (.byte 1), .needSpace 70000, .send (.data [9, 8, 7].toByteArray), .flush, .flush,
   .send (.u16 513), .send (.sizes [1, 2]), .needSpace 3, .send (.label 5), .send (.str "x".toUTF8),
   .send (.u32 0), .send (.data ByteArray.empty)]

theorem exampleOps_valid : ∀ v ∈ opsVals exampleOps, v.Valid := by
  intro v hv
  simp only [exampleOps, opsVals, List.mem_cons, List.not_mem_nil, or_false] at hv
  rcases hv with h | h | h | h | h | h | h | h <;> subst h <;> simp [Val.Valid] <;> decide

example (sch : Sched) (frag : Frag) := C11_conn_roundtrip sch frag exampleOps exampleOps_valid
example (s1 s2 : Sched) (f1 f2 : Frag) :=
  C11_conn_duplex s1 s2 f1 f2 exampleOps exampleOps exampleOps_valid exampleOps_valid

/-- **The physical buffer ring refines the value-level send half.**  In the
model with the three physical 64 KiB buffers made explicit (the sender writes
into the buffer `WriteBuf` aliases; `toWriter` carries slice headers whose
bytes are read only when the writer goroutine calls `conn.Write`;
`fromWriter` returns buffers for reuse), for every operation list and every
writer schedule: the current buffer, the queued buffers and the free buffers
are always pairwise distinct and are all `numBuffers` buffers (so the sender
never writes into a buffer that is queued or being written and `Flush` never
dead-locks), every queued slice covers exactly what was written into its
buffer, and reading the queued slices from memory *now* gives exactly the
state of the value-level model - hence every theorem above holds for the ring. -/
theorem C11_conn_ring_refines (sch : Sched) (ops : List Op) :
    let r := Ring.init.run sch ops
    (r.cur :: (r.toW.map Prod.fst ++ r.fromW)).Nodup ∧
    1 + r.toW.length + r.fromW.length = numBuffers ∧
    (∀ p ∈ r.toW, p.2 = (getB r.mem p.1).size) ∧
    r.abs = Sender.init.run sch ops := by
  intro r
  obtain ⟨h1, h2⟩ := run_sim sch ops Ring.init RingInv_init
  exact ⟨h1.nodup, h1.count, h1.len_eq, by rw [h2]; rfl⟩

/-- Ring version of `conn_send_inv`: the bytes already written, followed by
what the writer goroutine will read from the queued physical buffers, followed
by the content of the current buffer are the encoding of the operations so far. -/
theorem C11_conn_ring_send_inv (sch : Sched) (ops : List Op) :
    let r := Ring.init.run sch ops
    joinB (r.wire ++ r.toW.map (fun p => (getB r.mem p.1).extract 0 p.2)) ++ getB r.mem r.cur = encodeAll ops := by
  intro r
  obtain ⟨_, _, _, h⟩ := C11_conn_ring_refines sch ops
  have h0 := (C11_conn_send_inv sch ops 0).1
  simp only [Sender.writerSteps] at h0
  rw [← h] at h0
  exact h0

example (sch : Sched) := C11_conn_ring_refines sch exampleOps

/-! ## Transport faults: the writer goroutine's error path -/

/-- **conn_fault_prefix.**  The transport's `i`-th `Write` may fail after any
number of bytes (`fault i = some k`: short write + error), and it may recover
afterwards - EVERY fault pattern.  For every operation list, every writer
schedule and any number `j` of further writer iterations, both before and
after `Close`: the bytes that reached the transport are a PREFIX of the
encoding of the operations - no gap, no duplicate, no reordering - although
the writer goroutine keeps taking buffers, a failed `Flush` leaves `WritePos`
unchanged and `Close` queues that buffer a second time: since /repo f07ee15
the writer goroutine does not write any more once a `Write` has failed.  (The
caller stops at its first error and calls `Close`.) -/
theorem C11_conn_fault_prefix (fault : Fault) (sch : Sched) (ops : List Op) (j : Nat) :
    let r := FSender.init.run fault sch ops
    let c := r.1.close fault sch
    (∃ rem, joinB (r.1.writerSteps fault j).wire ++ rem = encodeAll ops) ∧
    (∃ rem, joinB (c.1.writerSteps fault j).wire ++ rem = encodeAll ops) := by
  intro r c
  obtain ⟨r1, r2⟩ := run_out fault sch ops FSender.init ByteArray.empty (FInv_init fault)
  rw [ByteArray.empty_append] at r1 r2
  cases hok : r.2.2 with
  | true =>
    have hi := r1 hok
    obtain ⟨c1, c2⟩ := close_finv fault sch r.1 _ hi
    refine ⟨(FInv_writerSteps fault j _ _ hi).wire_prefix, ?_⟩
    cases hc : c.2 with
    | true => exact (FInv_writerSteps fault j _ _ (c1 hc).1).wire_prefix
    | false => exact (FDead_writerSteps fault j _ _ (c2 hc)).pre
  | false =>
    have hd := r2 hok
    obtain ⟨_, d2⟩ := close_dead fault sch r.1 _ hd
    exact ⟨(FDead_writerSteps fault j _ _ hd).pre, (FDead_writerSteps fault j _ _ d2).pre⟩

/-- **No success is reported silently** (every fault pattern, sticky or not).
(1) If every operation and `Close` returned `nil`, then every byte was written:
the wire is exactly the encoding of the operations, nothing is queued and
`Stats.Sent` is its length.  (2) Once an operation has returned an error,
`writerErr` is set for good, every later `Flush` with buffered data fails and
`Close` fails.  (3) Whenever any `Write` has failed by the time `Close`
returns, `Close` returns an error. -/
theorem C11_conn_fault_reported (fault : Fault) (sch : Sched) (ops : List Op) :
    let r := FSender.init.run fault sch ops
    let c := r.1.close fault sch
    (r.2.2 = true → c.2 = true →
      joinB c.1.wire = encodeAll ops ∧ c.1.queue = [] ∧ c.1.werr = false ∧
      c.1.sent = (encodeAll ops).size) ∧
    (r.2.2 = false → r.1.werr = true ∧ c.2 = false ∧
      ∀ k, r.1.cur.size ≠ 0 → (r.1.flush fault k).2 = false) ∧
    (c.1.werr = true → c.2 = false) := by
  intro r c
  obtain ⟨r1, r2⟩ := run_out fault sch ops FSender.init ByteArray.empty (FInv_init fault)
  rw [ByteArray.empty_append] at r1 r2
  refine ⟨fun hok hc => ?_, fun hbad => ?_, close_reports fault sch r.1⟩
  · exact ((close_finv fault sch r.1 _ (r1 hok)).1 hc).2
  · have hd := r2 hbad
    exact ⟨hd.werr, (close_dead fault sch r.1 _ hd).1, fun k => (flush_dead fault k r.1 _ hd).2⟩

/-- On a transport without faults the fault model never reports an error
(so by `C11_conn_fault_reported` it delivers everything: the error paths do
not disturb the fault-free behaviour). -/
theorem C11_conn_fault_free_ok (sch : Sched) (ops : List Op) :
    let r := FSender.init.run (fun _ => none) sch ops
    let c := r.1.close (fun _ => none) sch
    r.2.2 = true ∧ c.2 = true ∧ joinB c.1.wire = encodeAll ops := by
  intro r c
  obtain ⟨r1, r2⟩ := run_out (fun _ => none) sch ops FSender.init ByteArray.empty (FInv_init _)
  rw [ByteArray.empty_append] at r1 r2
  have nodead : ∀ (s : FSender) (B : ByteArray), ¬ FDead (fun _ => none) s B := by
    intro s B hd
    obtain ⟨i, hne⟩ := hd.core.dirty hd.werr
    exact hne rfl
  have hok : r.2.2 = true := by
    cases h : r.2.2 with
    | true => rfl
    | false => exact absurd (r2 h) (nodead _ _)
  obtain ⟨c1, c2⟩ := close_finv (fun _ => none) sch r.1 _ (r1 hok)
  have hc : c.2 = true := by
    cases h : c.2 with
    | true => rfl
    | false => exact absurd (c2 h) (nodead _ _)
  exact ⟨hok, hc, (c1 hc).2.1⟩

/-- A transport with a TRANSIENT fault: only its first `Write` fails. -/
def gapFault : Fault := fun i => if i = 0 then some 0 else none
/-- two chunks `01` and `02` queued for the writer goroutine -/
def gapState : FSender := { queue := [[1].toByteArray, [2].toByteArray] }

/-- **old_writer_gap_witness** (finding `C11-writer-continues-after-write-error`,
fixed by /repo f07ee15).  With the writer iteration as it was BEFORE the fix
(`FSender.writerStepOld`: `conn.Write` unconditionally) and a transient fault,
two iterations over the queued chunks `01`, `02` put `02` on the wire without
the `01` before it - not a prefix of what was handed over.  The current writer
iteration writes nothing after the failed `Write`; both set `writerErr`. -/
theorem C11_old_writer_gap_witness :
    let old := (gapState.writerStepOld gapFault).writerStepOld gapFault
    let new := (gapState.writerStep gapFault).writerStep gapFault
    joinB old.handed = [1, 2].toByteArray ∧ joinB old.wire = [2].toByteArray ∧ old.werr = true ∧
    (¬ ∃ rem, joinB old.wire ++ rem = joinB old.handed) ∧
    joinB new.handed = [1, 2].toByteArray ∧ joinB new.wire = ByteArray.empty ∧ new.werr = true := by
  intro old new
  have hw : joinB old.wire = [2].toByteArray := by decide
  have hh : joinB old.handed = [1, 2].toByteArray := by decide
  refine ⟨hh, hw, by decide, ?_, by decide, by decide, by decide⟩
  rintro ⟨rem, h⟩
  rw [hw, hh] at h
  have h1 : ([2].toByteArray ++ rem).extract 0 1 = [2].toByteArray :=
    ByteArray.extract_append_eq_left (by decide)
  rw [h] at h1
  revert h1
  decide

/-- The fixed-width encodings are big-endian and decode to the value sent
(what `ReceiveUint16/32/Label` compute from the window). -/
theorem C11_be_roundtrip (k n : Nat) (h : n < 256 ^ k) :
    (be k n).size = k ∧ decodeBE (be k n) = n := by
  exact ⟨size_be k n, by rw [decodeBE_be, Nat.mod_eq_of_lt h]⟩

example : be 2 0x1234 = [0x12, 0x34].toByteArray := by decide
example : be 4 0xdeadbeef = [0xde, 0xad, 0xbe, 0xef].toByteArray := by decide
example : (Val.data [5, 6].toByteArray).encode = [0, 0, 0, 2, 5, 6].toByteArray := by decide

end Mpc

/-
C11  Connection layer is a faithful, ordered, typed byte stream.

Property theorems only; helper lemmas are in Proofs/Conn.lean, the executable
model (the same definitions the driver runs against the real `p2p.Conn`) in
Model/Conn.lean.

Quantification carried by the theorems:
* every operation list `ops` (typed sends of every kind with payloads of every
  size — 0, 1, 65535..65537, 2^20±1, … are just values of `d.size` — interleaved
  with `Flush` and `NeedSpace n` in any way);
* every writer-goroutine schedule `sch : Nat → Nat` (how far the writer gets
  during each flush) plus any number `j` of additional writer iterations at the
  point of observation;
* every fragmentation oracle `frag : Nat → Nat` (the size the transport returns
  on its i-th `Read`, clamped to 1 .. min(room, bytes remaining));
* every trailing byte string `rest` following the values that are received.

The send half exists in two models: the value-level `Sender` (queue of byte
strings) about which the main theorems are stated, and `Ring`, where the three
physical write buffers, the slice headers in `toWriter` and the aliasing of
`WriteBuf` are explicit; `C11_conn_ring_refines` proves the ownership
invariant of the ring and that it refines `Sender` step for step.

Transport faults are a third model of the send half, `FSender`: the `i`-th
`conn.Write` may fail after any number of bytes (`Fault`), the writer goroutine
records `writerErr` and goes on, `Flush`/`Close` have their early-return error
paths; quantified over every fault pattern, every schedule, every operation
list (`C11_conn_fault_*`; `C11_old_writer_gap_witness` keeps the behaviour before the
fix f07ee15 as a witness).  A stream that ends inside a value is covered by
`C11_conn_recv_eof_mid_value`.

Domain guard (explicit hypothesis `Val.Valid`): `u16 < 2^16`, `u32 < 2^32`,
payload and list lengths `< 2^32`, labels `< 2^128`.  Outside it the Go code
truncates (`uint32(val)`) and nothing is claimed.
-/
import MpcVerif.Proofs.Conn
import MpcVerif.Proofs.ConnDuplex

namespace Mpc
open Conn

/-- **conn_send_inv.**  At every point between two sender operations, under
every writer schedule and after any number of further writer iterations:
bytes already written to the transport, followed by the buffers still queued
for the writer goroutine, followed by the partly filled write buffer are
exactly the encoding of the operations executed so far, in order.  Moreover
the write buffer never exceeds 64 KiB, at most `numBuffers - 1` buffers are
queued, `Stats.Sent` is the number of bytes handed to the writer,
`Stats.Flushed` the number of chunks, and every chunk is non-empty and at most
64 KiB. -/
theorem C11_conn_send_inv (sch : Sched) (ops : List Op) (j : Nat) :
    let s := (Sender.init.run sch ops).writerSteps j
    joinB (s.wire ++ s.queue) ++ s.cur = encodeAll ops ∧
    s.cur.size ≤ writeBufSize ∧
    s.queue.length ≤ numBuffers - 1 ∧
    s.sent = (joinB (s.wire ++ s.queue)).size ∧
    s.flushed = (s.wire ++ s.queue).length ∧
    ∀ c ∈ s.wire ++ s.queue, 0 < c.size ∧ c.size ≤ writeBufSize := by
  intro s
  obtain ⟨h1, h2⟩ := run_spec sch ops Sender.init SInv_init
  obtain ⟨w1, w2, _⟩ := writerSteps_spec j _ h1
  refine ⟨?_, w1.cur_le, w1.queue_le, w1.sent_eq, w1.flushed_eq, w1.chunk_sz⟩
  have : s.stream = encodeAll ops := by
    rw [w2, h2]; simp [Sender.stream, Sender.chunks, Sender.init, joinB]
  exact this

example : ∃ ops : List Op, ops ≠ [] ∧ encodeAll ops ≠ ByteArray.empty :=
  ⟨[.send (.byte 7)], by simp, by decide⟩

/-- **Chunking is schedule-independent.**  The sequence of chunks handed to
`conn.Write` (hence the flush points), the content of the write buffer and
both counters do not depend on how the writer goroutine is scheduled. -/
theorem C11_conn_sched_indep (sch sch' : Sched) (ops : List Op) :
    (Sender.init.run sch ops).cur = (Sender.init.run sch' ops).cur ∧
    (Sender.init.run sch ops).chunks = (Sender.init.run sch' ops).chunks ∧
    (Sender.init.run sch ops).sent = (Sender.init.run sch' ops).sent ∧
    (Sender.init.run sch ops).flushed = (Sender.init.run sch' ops).flushed := by
  have h := core_run_congr sch sch' ops Sender.init Sender.init rfl
  simpa only [Sender.core, Prod.mk.injEq] using h

/-- **Flush hands everything over.**  Right after a `Flush` nothing is left in
the write buffer: everything sent so far is on the wire or queued for the
writer goroutine (which writes it without further action of the sender). -/
theorem C11_conn_flush_hands_over (sch : Sched) (ops : List Op) :
    let s := Sender.init.run sch (ops ++ [Op.flush])
    s.cur = ByteArray.empty ∧ joinB (s.wire ++ s.queue) = encodeAll ops := by
  intro s
  obtain ⟨h1, h2⟩ := run_spec sch ops Sender.init SInv_init
  obtain ⟨f1, f2, f3⟩ := flushS_spec sch _ h1
  have hs : s = (Sender.init.run sch ops).flushS sch := by
    simp [s, Sender.run, List.foldl_append, Sender.step]
  rw [hs]
  refine ⟨f3, ?_⟩
  have : ((Sender.init.run sch ops).flushS sch).stream = encodeAll ops := by
    rw [f2, h2]; simp [Sender.stream, Sender.chunks, Sender.init, joinB]
  simpa [Sender.stream, Sender.chunks, f3] using this

/-- **conn_close_delivers.**  After `Close` the transport has received exactly
the encoding of all operations, nothing is left queued or buffered, and
`Stats.Sent` equals the number of bytes written, `Stats.Flushed` the number of
`Write` calls; every `Write` carried between 1 and 65536 bytes. -/
theorem C11_conn_close_delivers (sch : Sched) (ops : List Op) :
    let s := (Sender.init.run sch ops).close sch
    joinB s.wire = encodeAll ops ∧ s.queue = [] ∧ s.cur = ByteArray.empty ∧
    s.sent = (encodeAll ops).size ∧ s.sent = (joinB s.wire).size ∧
    s.flushed = s.wire.length ∧
    ∀ c ∈ s.wire, 0 < c.size ∧ c.size ≤ writeBufSize := by
  intro s
  obtain ⟨h1, h2⟩ := run_spec sch ops Sender.init SInv_init
  obtain ⟨c1, c2, c3, c4, c5, c6⟩ := close_spec sch _ h1
  have hst : (Sender.init.run sch ops).stream = encodeAll ops := by
    rw [h2]; simp [Sender.stream, Sender.chunks, Sender.init, joinB]
  rw [hst] at c3 c4
  exact ⟨c3, c1, c2, c4, by rw [c4, c3], c5, c6⟩

/-- **conn_recv (general form).**  From any receiver state satisfying the
window invariant (`ReadStart ≤ ReadEnd ≤ 1 MiB`) whose unread bytes (window
followed by what the transport still holds) are `encodeVals vs ++ rest`, under
every fragmentation of the transport reads, the matching typed receives return
exactly `vs` in order, take no error branch, leave exactly `rest` unread, and
`Stats.Recvd` grows by exactly the number of bytes taken from the transport. -/
theorem C11_conn_recv_from (frag : Frag) (vs : List Val) (hv : ∀ v ∈ vs, v.Valid)
    (r : Recv) (hr : r.rs ≤ r.buf.size ∧ r.buf.size ≤ readBufSize ∧ r.pos ≤ r.pend.size)
    (rest : ByteArray) (hu : r.unread = encodeVals vs ++ rest) :
    ∃ r', r.recvAll frag (vs.map Val.kind) = (vs, r', none) ∧
      r'.unread = rest ∧ r'.pend = r.pend ∧
      r'.recvd - r.recvd = r'.pos - r.pos ∧ r.recvd ≤ r'.recvd ∧
      r'.rs ≤ r'.buf.size ∧ r'.buf.size ≤ readBufSize ∧ r'.pos ≤ r'.pend.size := by
  obtain ⟨r', e, i, u, a⟩ := recvAll_spec frag vs hv r ⟨hr.1, hr.2.1, hr.2.2⟩ rest hu
  refine ⟨r', e, u, a.pend_eq, ?_, ?_, i.rs_le, i.buf_le, i.pos_le⟩
  · have := a.recvd_eq; have := a.pos_mono; omega
  · have := a.recvd_eq; have := a.pos_mono; omega

/-- **conn_recv.**  A fresh connection reading the stream `encodeVals vs ++ rest`
from a transport that fragments reads in any way receives exactly `vs` and
leaves exactly `rest`; `Stats.Recvd` equals the bytes taken from the transport. -/
theorem C11_conn_recv (frag : Frag) (vs : List Val) (hv : ∀ v ∈ vs, v.Valid) (rest : ByteArray) :
    ∃ r', (Recv.init (encodeVals vs ++ rest)).recvAll frag (vs.map Val.kind) = (vs, r', none) ∧
      r'.unread = rest ∧ r'.recvd = r'.pos ∧ r'.pos ≤ (encodeVals vs ++ rest).size := by
  obtain ⟨r', e, i, u, a⟩ := recvAll_spec frag vs hv _ (RInv_init _) rest (unread_init _)
  refine ⟨r', e, u, ?_, ?_⟩
  · have := a.recvd_eq; simpa [Recv.init] using this
  · have h1 := i.pos_le; have h2 := a.pend_eq; rw [h2] at h1; simpa [Recv.init] using h1

/-- **conn_recv_eof_mid_value.**  If the transport's stream ends in the middle
of a value - after the complete encodings of `vs` only a proper prefix `p` of
the encoding of a further value `v` arrives, under any fragmentation - then
the matching typed receives return exactly `vs`, the receive of `v` fails with
the transport's end-of-stream error, nothing after it is attempted, and no
partial value is ever reported as received (for `ReceiveData/ReceiveString`
this includes a complete length prefix followed by a short body, for
`ReceiveInputSizes` a complete count followed by too few entries). -/
theorem C11_conn_recv_eof_mid_value (frag : Frag) (vs : List Val) (hv : ∀ v ∈ vs, v.Valid)
    (v : Val) (hvv : v.Valid) (p q : ByteArray) (hp : p.size < v.encode.size)
    (hpq : p ++ q = v.encode) (more : List Kind) :
    ∃ r', (Recv.init (encodeVals vs ++ p)).recvAll frag (vs.map Val.kind ++ v.kind :: more)
        = (vs, r', some Err.eof) ∧ r'.unread = p := by
  obtain ⟨r1, i1, u1, _, e⟩ := recvAll_spec_append frag vs hv (v.kind :: more) _ (RInv_init _) p
    (unread_init _)
  have herr := recvVal_eof frag v hvv r1 i1 p q hp hpq u1
  refine ⟨r1, ?_, u1⟩
  rw [e]
  simp [Recv.recvAll, herr]

/-- non-vacuity: a data value of 3 bytes cut after its length prefix and one body byte -/
example : ∃ (v : Val) (p q : ByteArray), v.Valid ∧ p.size < v.encode.size ∧ p ++ q = v.encode ∧ 4 < p.size :=
  ⟨.data [1, 2, 3].toByteArray, [0, 0, 0, 3, 1].toByteArray, [2, 3].toByteArray,
   by simp [Val.Valid], by decide, by decide, by decide⟩

/-- Example values of every kind, including the empty payload, for non-vacuity. -/
def exampleVals : List Val :=
  [.byte 0xab, .u16 65535, .u32 4294967295, .data ByteArray.empty, .data [1, 2, 3].toByteArray,
   .str "hi".toUTF8, .label (2 ^ 128 - 1), .sizes [], .sizes [0, 7, 4294967295]]

theorem exampleVals_valid : ∀ v ∈ exampleVals, v.Valid := by
  intro v hv
  simp only [exampleVals, List.mem_cons, List.not_mem_nil, or_false] at hv
  rcases hv with h | h | h | h | h | h | h | h | h <;> subst h <;> simp [Val.Valid] <;> decide

example (frag : Frag) (rest : ByteArray) :=
  C11_conn_recv frag exampleVals exampleVals_valid rest

/-- **conn_roundtrip.**  Any sequence of typed sends of valid values interleaved
with flushes and `NeedSpace` calls in any way, under any writer schedule,
closed, and read back through a transport with any read fragmentation by the
matching typed receives yields exactly the sent values in order, consumes the
stream completely, and the byte counters of both ends equal the number of bytes
that crossed the transport. -/
theorem C11_conn_roundtrip (sch : Sched) (frag : Frag) (ops : List Op)
    (hv : ∀ v ∈ opsVals ops, v.Valid) :
    let s := (Sender.init.run sch ops).close sch
    ∃ r', (Recv.init (joinB s.wire)).recvAll frag ((opsVals ops).map Val.kind) = (opsVals ops, r', none) ∧
      r'.unread = ByteArray.empty ∧
      r'.recvd = (joinB s.wire).size ∧ s.sent = (joinB s.wire).size := by
  intro s
  obtain ⟨c1, _, _, _, c5, _⟩ := C11_conn_close_delivers sch ops
  have hw : joinB s.wire = encodeVals (opsVals ops) ++ ByteArray.empty := by
    rw [c1, encodeAll_eq_encodeVals]; simp
  obtain ⟨r', e, i, u, a⟩ := recvAll_spec frag (opsVals ops) hv (Recv.init (joinB s.wire))
    (RInv_init _) ByteArray.empty (by rw [unread_init]; exact hw)
  refine ⟨r', e, u, ?_, c5⟩
  have hsz : r'.unread.size = 0 := by rw [u]; simp
  rw [size_unread] at hsz
  have h1 := i.pos_le
  have h2 := a.pend_eq
  have h3 := a.recvd_eq
  rw [h2] at h1 hsz
  simp only [Recv.init] at h1 h3 hsz
  omega

/-- **Both directions at once.**  The send half (`WriteBuf/WritePos/channels/
Sent/Flushed`) and the receive half (`ReadBuf/ReadStart/ReadEnd/Recvd`) of a
`Conn` share no state, so a duplex session is a pair of independent one-way
sessions; whatever A→B does (operations, writer schedule, fragmentation), B→A
round-trips, and vice versa. -/
theorem C11_conn_duplex (schA schB : Sched) (fragA fragB : Frag) (opsA opsB : List Op)
    (hA : ∀ v ∈ opsVals opsA, v.Valid) (hB : ∀ v ∈ opsVals opsB, v.Valid) :
    (∃ rB, (Recv.init (joinB ((Sender.init.run schA opsA).close schA).wire)).recvAll fragB
        ((opsVals opsA).map Val.kind) = (opsVals opsA, rB, none) ∧ rB.unread = ByteArray.empty) ∧
    (∃ rA, (Recv.init (joinB ((Sender.init.run schB opsB).close schB).wire)).recvAll fragA
        ((opsVals opsB).map Val.kind) = (opsVals opsB, rA, none) ∧ rA.unread = ByteArray.empty) := by
  obtain ⟨rB, e1, u1, _⟩ := C11_conn_roundtrip schA fragB opsA hA
  obtain ⟨rA, e2, u2, _⟩ := C11_conn_roundtrip schB fragA opsB hB
  exact ⟨⟨rB, e1, u1⟩, ⟨rA, e2, u2⟩⟩

/-- Non-vacuity: an operation list with every kind of send, flushes and
`NeedSpace` between them, whose values are all in the domain. -/
def exampleOps : List Op :=
  [.flush, .send (.byte 1), .needSpace 70000, .send (.data [9, 8, 7].toByteArray), .flush, .flush,
   .send (.u16 513), .send (.sizes [1, 2]), .needSpace 3, .send (.label 5), .send (.str "x".toUTF8),
   .send (.u32 0), .send (.data ByteArray.empty)]

theorem exampleOps_valid : ∀ v ∈ opsVals exampleOps, v.Valid := by
  intro v hv
  simp only [exampleOps, opsVals, List.mem_cons, List.not_mem_nil, or_false] at hv
  rcases hv with h | h | h | h | h | h | h | h <;> subst h <;> simp [Val.Valid] <;> decide

example (sch : Sched) (frag : Frag) := C11_conn_roundtrip sch frag exampleOps exampleOps_valid
example (s1 s2 : Sched) (f1 f2 : Frag) :=
  C11_conn_duplex s1 s2 f1 f2 exampleOps exampleOps exampleOps_valid exampleOps_valid

/-- **The physical buffer ring refines the value-level send half.**  In the
model with the three physical 64 KiB buffers made explicit (the sender writes
into the buffer `WriteBuf` aliases; `toWriter` carries slice headers whose
bytes are read only when the writer goroutine calls `conn.Write`;
`fromWriter` returns buffers for reuse), for every operation list and every
writer schedule: the current buffer, the queued buffers and the free buffers
are always pairwise distinct and are all `numBuffers` buffers (so the sender
never writes into a buffer that is queued or being written and `Flush` never
dead-locks), every queued slice covers exactly what was written into its
buffer, and reading the queued slices from memory *now* gives exactly the
state of the value-level model - hence every theorem above holds for the ring. -/
theorem C11_conn_ring_refines (sch : Sched) (ops : List Op) :
    let r := Ring.init.run sch ops
    (r.cur :: (r.toW.map Prod.fst ++ r.fromW)).Nodup ∧
    1 + r.toW.length + r.fromW.length = numBuffers ∧
    (∀ p ∈ r.toW, p.2 = (getB r.mem p.1).size) ∧
    r.abs = Sender.init.run sch ops := by
  intro r
  obtain ⟨h1, h2⟩ := run_sim sch ops Ring.init RingInv_init
  exact ⟨h1.nodup, h1.count, h1.len_eq, by rw [h2]; rfl⟩

/-- Ring version of `conn_send_inv`: the bytes already written, followed by
what the writer goroutine will read from the queued physical buffers, followed
by the content of the current buffer are the encoding of the operations so far. -/
theorem C11_conn_ring_send_inv (sch : Sched) (ops : List Op) :
    let r := Ring.init.run sch ops
    joinB (r.wire ++ r.toW.map (fun p => (getB r.mem p.1).extract 0 p.2)) ++ getB r.mem r.cur = encodeAll ops := by
  intro r
  obtain ⟨_, _, _, h⟩ := C11_conn_ring_refines sch ops
  have h0 := (C11_conn_send_inv sch ops 0).1
  simp only [Sender.writerSteps] at h0
  rw [← h] at h0
  exact h0

example (sch : Sched) := C11_conn_ring_refines sch exampleOps

/-! ## Transport faults: the writer goroutine's error path -/

/-- **conn_fault_prefix.**  The transport's `i`-th `Write` may fail after any
number of bytes (`fault i = some k`: short write + error), and it may recover
afterwards - EVERY fault pattern.  For every operation list, every writer
schedule and any number `j` of further writer iterations, both before and
after `Close`: the bytes that reached the transport are a PREFIX of the
encoding of the operations - no gap, no duplicate, no reordering - although
the writer goroutine keeps taking buffers, a failed `Flush` leaves `WritePos`
unchanged and `Close` queues that buffer a second time: since /repo f07ee15
the writer goroutine does not write any more once a `Write` has failed.  (The
caller stops at its first error and calls `Close`.) -/
theorem C11_conn_fault_prefix (fault : Fault) (sch : Sched) (ops : List Op) (j : Nat) :
    let r := FSender.init.run fault sch ops
    let c := r.1.close fault sch
    (∃ rem, joinB (r.1.writerSteps fault j).wire ++ rem = encodeAll ops) ∧
    (∃ rem, joinB (c.1.writerSteps fault j).wire ++ rem = encodeAll ops) := by
  intro r c
  obtain ⟨r1, r2⟩ := run_out fault sch ops FSender.init ByteArray.empty (FInv_init fault)
  rw [ByteArray.empty_append] at r1 r2
  cases hok : r.2.2 with
  | true =>
    have hi := r1 hok
    obtain ⟨c1, c2⟩ := close_finv fault sch r.1 _ hi
    refine ⟨(FInv_writerSteps fault j _ _ hi).wire_prefix, ?_⟩
    cases hc : c.2 with
    | true => exact (FInv_writerSteps fault j _ _ (c1 hc).1).wire_prefix
    | false => exact (FDead_writerSteps fault j _ _ (c2 hc)).pre
  | false =>
    have hd := r2 hok
    obtain ⟨_, d2⟩ := close_dead fault sch r.1 _ hd
    exact ⟨(FDead_writerSteps fault j _ _ hd).pre, (FDead_writerSteps fault j _ _ d2).pre⟩

/-- **No success is reported silently** (every fault pattern, sticky or not).
(1) If every operation and `Close` returned `nil`, then every byte was written:
the wire is exactly the encoding of the operations, nothing is queued and
`Stats.Sent` is its length.  (2) Once an operation has returned an error,
`writerErr` is set for good, every later `Flush` with buffered data fails and
`Close` fails.  (3) Whenever any `Write` has failed by the time `Close`
returns, `Close` returns an error. -/
theorem C11_conn_fault_reported (fault : Fault) (sch : Sched) (ops : List Op) :
    let r := FSender.init.run fault sch ops
    let c := r.1.close fault sch
    (r.2.2 = true → c.2 = true →
      joinB c.1.wire = encodeAll ops ∧ c.1.queue = [] ∧ c.1.werr = false ∧
      c.1.sent = (encodeAll ops).size) ∧
    (r.2.2 = false → r.1.werr = true ∧ c.2 = false ∧
      ∀ k, r.1.cur.size ≠ 0 → (r.1.flush fault k).2 = false) ∧
    (c.1.werr = true → c.2 = false) := by
  intro r c
  obtain ⟨r1, r2⟩ := run_out fault sch ops FSender.init ByteArray.empty (FInv_init fault)
  rw [ByteArray.empty_append] at r1 r2
  refine ⟨fun hok hc => ?_, fun hbad => ?_, close_reports fault sch r.1⟩
  · exact ((close_finv fault sch r.1 _ (r1 hok)).1 hc).2
  · have hd := r2 hbad
    exact ⟨hd.werr, (close_dead fault sch r.1 _ hd).1, fun k => (flush_dead fault k r.1 _ hd).2⟩

/-- On a transport without faults the fault model never reports an error
(so by `C11_conn_fault_reported` it delivers everything: the error paths do
not disturb the fault-free behaviour). -/
theorem C11_conn_fault_free_ok (sch : Sched) (ops : List Op) :
    let r := FSender.init.run (fun _ => none) sch ops
    let c := r.1.close (fun _ => none) sch
    r.2.2 = true ∧ c.2 = true ∧ joinB c.1.wire = encodeAll ops := by
  intro r c
  obtain ⟨r1, r2⟩ := run_out (fun _ => none) sch ops FSender.init ByteArray.empty (FInv_init _)
  rw [ByteArray.empty_append] at r1 r2
  have nodead : ∀ (s : FSender) (B : ByteArray), ¬ FDead (fun _ => none) s B := by
    intro s B hd
    obtain ⟨i, hne⟩ := hd.core.dirty hd.werr
    exact hne rfl
  have hok : r.2.2 = true := by
    cases h : r.2.2 with
    | true => rfl
    | false => exact absurd (r2 h) (nodead _ _)
  obtain ⟨c1, c2⟩ := close_finv (fun _ => none) sch r.1 _ (r1 hok)
  have hc : c.2 = true := by
    cases h : c.2 with
    | true => rfl
    | false => exact absurd (c2 h) (nodead _ _)
  exact ⟨hok, hc, (c1 hc).2.1⟩

/-- A transport with a TRANSIENT fault: only its first `Write` fails. -/
def gapFault : Fault := fun i => if i = 0 then some 0 else none
/-- two chunks `01` and `02` queued for the writer goroutine -/
def gapState : FSender := { queue := [[1].toByteArray, [2].toByteArray] }

/-- **old_writer_gap_witness** (finding `C11-writer-continues-after-write-error`,
fixed by /repo f07ee15).  With the writer iteration as it was BEFORE the fix
(`FSender.writerStepOld`: `conn.Write` unconditionally) and a transient fault,
two iterations over the queued chunks `01`, `02` put `02` on the wire without
the `01` before it - not a prefix of what was handed over.  The current writer
iteration writes nothing after the failed `Write`; both set `writerErr`. -/
theorem C11_old_writer_gap_witness :
    let old := (gapState.writerStepOld gapFault).writerStepOld gapFault
    let new := (gapState.writerStep gapFault).writerStep gapFault
    joinB old.handed = [1, 2].toByteArray ∧ joinB old.wire = [2].toByteArray ∧ old.werr = true ∧
    (¬ ∃ rem, joinB old.wire ++ rem = joinB old.handed) ∧
    joinB new.handed = [1, 2].toByteArray ∧ joinB new.wire = ByteArray.empty ∧ new.werr = true := by
  intro old new
  have hw : joinB old.wire = [2].toByteArray := by decide
  have hh : joinB old.handed = [1, 2].toByteArray := by decide
  refine ⟨hh, hw, by decide, ?_, by decide, by decide, by decide⟩
  rintro ⟨rem, h⟩
  rw [hw, hh] at h
  have h1 : ([2].toByteArray ++ rem).extract 0 1 = [2].toByteArray :=
    ByteArray.extract_append_eq_left (by decide)
  rw [h] at h1
  revert h1
  decide

/-! ## Both halves of one `Conn` over a full-duplex transport, with faults on the send direction

`Model/ConnDuplex.lean`: an endpoint (`Local`) = send half + receive half + the
transport endpoint both reach.  A session is ANY list of events: local typed
sends / `Flush` / `NeedSpace` / writer-goroutine iterations - each under its OWN
fault pattern and writer schedule -, local typed receives, bytes accepted from
the peer (in any chunking, at any time), the peer's close. -/

/-- **conn_directions_independent.**  The receive direction of a connection
does not depend on what happens on its send direction.  Take two sessions of an
endpoint that start with the same receive side and are the same as far as the
receive direction is concerned (`recvView`: the same typed receives, the same
bytes accepted from the peer, the same peer close, in the same order) - but
with ANY typed sends, flushes, `NeedSpace` calls and writer-goroutine
iterations interleaved anywhere, under ANY fault pattern of the transport's
`Write` (failing, short, transient, permanent; a different one for every
event) and any writer schedule.  Then every typed receive returns the same
value or error in both, and the receive half ends in the same state - the same
window, the same `Stats.Recvd`, the transport endpoint still open.  In
particular (`evs' := recvView evs`) a failed send discards nothing the peer
has sent: values received and the receive counter are a function of the bytes
the peer sent, the read fragmentation and the receives only.  (`Close` is the
one send-side call that closes the transport - on its success path; sessions
are compared up to the local `Close`.) -/
theorem C11_conn_directions_independent (frag : Frag) (l l' : Local) (evs evs' : List Ev)
    (hr : l.r = l'.r) (hview : recvView evs = recvView evs')
    (hnc : ∀ e ∈ evs, e.isClose = false) (hnc' : ∀ e ∈ evs', e.isClose = false) :
    recvObs (Local.run false frag l evs).2 = recvObs (Local.run false frag l' evs').2 ∧
    (Local.run false frag l evs).1.r = (Local.run false frag l' evs').1.r := by
  obtain ⟨a1, a2⟩ := run_recvView frag evs l l hnc rfl
  obtain ⟨b1, b2⟩ := run_recvView frag evs' l' l hnc' hr.symm
  rw [hview] at a1 a2
  exact ⟨by rw [a2, b2], by rw [a1, b1]⟩

/-- a transport whose every `Write` fails having written nothing (the peer is gone) -/
def allFail : Fault := fun _ => some 0

/-- non-vacuity: the peer sends a byte and closes; the local side sends and flushes towards the
dead peer, the writer goroutine runs into the failing `Write`, then the local side receives -/
def failThenRecv : List Ev :=
  [.peerWrite [7].toByteArray, .peerClose, .op allFail lazySched (.send (.byte 1)),
   .op allFail lazySched .flush, .writer allFail 1, .recv .byte]

example (frag : Frag) := C11_conn_directions_independent frag Local.init Local.init failThenRecv
  (recvView failThenRecv) rfl (by simp [failThenRecv, recvView, Ev.isSend])
  (by simp [failThenRecv, Ev.isClose]) (by simp [failThenRecv, recvView, Ev.isSend, Ev.isClose])

/-- **conn_duplex_faults** (`C11_conn_duplex` with faults and with arrival
interleaved with the receives).  The peer's bytes are accepted by the transport
in any chunking and at any time, in rounds: after each round's chunks the
local side receives that round's values (`RoundsOK`: every receive happens when
its value has arrived completely; what arrived early is carried over); then the
peer closes and one more receive of any kind follows.  Interleave ANY local
typed sends, flushes and writer iterations under ANY fault patterns and
schedules.  Then the typed receives return exactly the peer's values in order,
then the end of the stream (never an error of the send direction, never a
closed transport); all bytes of the peer are the encoding of those values, and
`Stats.Recvd` equals the number of bytes the peer's transport accepted. -/
theorem C11_conn_duplex_faults (frag : Frag) (l : Local) (hl : l.r = {}) (evs : List Ev) (rs : List Round)
    (k : Kind) (hnc : ∀ e ∈ evs, e.isClose = false)
    (hview : recvView evs = roundsEvs rs ++ [Ev.peerClose, Ev.recv k])
    (hok : RoundsOK ByteArray.empty rs) (hlast : lastTail ByteArray.empty rs = ByteArray.empty) :
    recvObs (Local.run false frag l evs).2 = (roundsVals rs).map Obs.got ++ [Obs.rerr RErr.eof] ∧
    roundsBytes rs = encodeVals (roundsVals rs) ∧
    (Local.run false frag l evs).1.r.rcv.recvd = (roundsBytes rs).size := by
  obtain ⟨a1, a2⟩ := run_recvView frag evs l l hnc rfl
  rw [hview] at a1 a2
  have hd : l.r.dead = false := by rw [hl]
  have hc : l.r.epClosed = false := by rw [hl]
  have hi : RInv l.r.rcv := by rw [hl]; exact ⟨Nat.le_refl _, by decide, Nat.le_refl _⟩
  have hu : l.r.rcv.unread = ByteArray.empty := by rw [hl]; decide
  have hpend : l.r.rcv.pend = ByteArray.empty := by rw [hl]
  have hpos : l.r.rcv.pos = 0 := by rw [hl]
  have hrc : l.r.rcv.recvd = 0 := by rw [hl]
  obtain ⟨r', e1, o1, i1, u1, p1, c1, _⟩ := run_rounds false frag rs l hd hc hi (by rw [hu]; exact hok)
  rw [hu, hlast] at u1
  have hbytes := rounds_bytes ByteArray.empty rs hok
  rw [hlast, ByteArray.empty_append, ByteArray.append_empty] at hbytes
  have hex := recvVal_exhausted frag k r' i1 u1
  -- everything has been taken from the transport
  have hsz : r'.pend.size - r'.pos = 0 := by
    have := size_unread r'
    rw [u1] at this
    simp at this
    omega
  have hfin : (Local.run false frag { l with r := { l.r with rcv := r' } } [Ev.peerClose, Ev.recv k]).2 =
        [Obs.skip, Obs.rerr RErr.eof] ∧
      (Local.run false frag { l with r := { l.r with rcv := r' } } [Ev.peerClose, Ev.recv k]).1.r.rcv.recvd =
        r'.recvd + (r'.pend.size - r'.pos) := by
    simp [Local.run_cons, Local.run_nil, Local.step, RSide.peerClose, RSide.recv, hd, hc, hex, classify]
  rw [Local.run_append, e1] at a1 a2
  refine ⟨?_, hbytes, ?_⟩
  · rw [a2]
    simp only [recvObs_append, o1, hfin.1, recvObs]
  · rw [a1]
    show (Local.run false frag { l with r := { l.r with rcv := r' } } [Ev.peerClose, Ev.recv k]).1.r.rcv.recvd = _
    rw [hfin.2]
    have hp := i1.pos_le
    have hps : r'.pend.size = (roundsBytes rs).size := by rw [p1, hpend, ByteArray.empty_append]
    rw [hpos, hrc] at c1
    omega

/-- **Round trip with a failing return direction.**  B sends any operation list
(any flush placement, any writer schedule) and closes; the transport hands B's
`Write` chunks to A one by one.  A meanwhile sends, flushes and runs its writer
goroutine in any way under ANY fault pattern (B may be gone: every `Write` of A
may fail) - before, between and after the arrival of B's chunks and A's
receives.  A's matching typed receives return exactly B's values, then the end
of the stream; A's `Stats.Recvd` equals B's `Stats.Sent`. -/
theorem C11_conn_duplex_faults_roundtrip (schB : Sched) (frag : Frag) (opsB : List Op)
    (hB : ∀ v ∈ opsVals opsB, v.Valid) (l : Local) (hl : l.r = {}) (evs : List Ev) (k : Kind)
    (hnc : ∀ e ∈ evs, e.isClose = false)
    (hview : recvView evs =
      (((Sender.init.run schB opsB).close schB).wire.map Ev.peerWrite ++
        (opsVals opsB).map fun v => Ev.recv v.kind) ++ [Ev.peerClose, Ev.recv k]) :
    recvObs (Local.run false frag l evs).2 = (opsVals opsB).map Obs.got ++ [Obs.rerr RErr.eof] ∧
    (Local.run false frag l evs).1.r.rcv.recvd = ((Sender.init.run schB opsB).close schB).sent := by
  obtain ⟨c1, _, _, _, c5, _⟩ := C11_conn_close_delivers schB opsB
  let rd : Round := ⟨((Sender.init.run schB opsB).close schB).wire, opsVals opsB, ByteArray.empty⟩
  have hok : RoundsOK ByteArray.empty [rd] :=
    ⟨hB, by show ByteArray.empty ++ joinB _ = encodeVals (opsVals opsB) ++ ByteArray.empty
            rw [c1, encodeAll_eq_encodeVals]; simp, trivial⟩
  obtain ⟨t1, _, t3⟩ := C11_conn_duplex_faults frag l hl evs [rd] k hnc
    (by rw [hview]; simp [roundsEvs, roundEvs, rd]) hok rfl
  refine ⟨by simpa [roundsVals, rd] using t1, ?_⟩
  rw [t3, c5]
  simp [roundsBytes, rd]

example (sch : Sched) (frag : Frag) (k : Kind) (f : Fault) :=
  C11_conn_duplex_faults_roundtrip sch frag exampleOps exampleOps_valid Local.init rfl
    ([Ev.op f sch (.send (.u32 42)), Ev.op f sch .flush] ++
      (((Sender.init.run sch exampleOps).close sch).wire.map Ev.peerWrite ++
        (opsVals exampleOps).map fun v => Ev.recv v.kind) ++ [Ev.peerClose, Ev.recv k]) k

/-- non-vacuity of `RoundsOK`: a 3-byte data value whose length prefix arrives in the first round
(together with a byte that is received at once), its body in the second -/
example : RoundsOK ByteArray.empty
    [⟨[[9, 0, 0].toByteArray, [0, 3].toByteArray], [.byte 9], [0, 0, 0, 3].toByteArray⟩,
     ⟨[[1, 2, 3].toByteArray], [.data [1, 2, 3].toByteArray], ByteArray.empty⟩] :=
  ⟨by simp [Val.Valid], by decide, by simp [Val.Valid], by decide, trivial⟩

/-- **closing_writer_couples_directions_witness** (negation witness for a
writer goroutine that closes the transport when a `Write` fails, `wc = true`
in `Local.sendEffect`).  The peer sends the byte `07` and closes; the local side sends
a byte and flushes towards the dead peer, its writer goroutine runs into the
failing `Write`; then it receives.  The code as it is (`wc = false`) returns
the peer's byte.  With the closing writer the same receive fails with
"closed" - although without the sends (`recvView`) it returns the byte: the
receive direction depends on the send direction, data the peer sent and closed
behind is discarded. -/
theorem C11_closing_writer_couples_directions_witness (frag : Frag) :
    recvObs (Local.run false frag Local.init failThenRecv).2 = [Obs.got (.byte 7)] ∧
    recvObs (Local.run true frag Local.init failThenRecv).2 = [Obs.rerr RErr.closed] ∧
    recvObs (Local.run true frag Local.init (recvView failThenRecv)).2 = [Obs.got (.byte 7)] := by
  have hview : recvView failThenRecv = [.peerWrite [7].toByteArray, .peerClose, .recv .byte] := by
    simp [failThenRecv, recvView, Ev.isSend]
  -- without the sends: the byte arrives and is received (whatever the writer would do)
  have hplain : ∀ wc, recvObs (Local.run wc frag Local.init
      [.peerWrite [7].toByteArray, .peerClose, .recv .byte]).2 = [Obs.got (.byte 7)] := by
    intro wc
    let l1 : Local := { r := { rcv := { pend := ByteArray.empty ++ [7].toByteArray }, inClosed := true } }
    have h1 : Local.run wc frag Local.init [.peerWrite [7].toByteArray, .peerClose, .recv .byte] =
        ((Local.run wc frag l1 [.recv .byte]).1, Obs.skip :: Obs.skip :: (Local.run wc frag l1 [.recv .byte]).2) := by
      simp [Local.run_cons, Local.step, RSide.peerWrite, RSide.peerClose, Local.init, l1]
    obtain ⟨r', e, _⟩ := run_recvs wc frag [.byte 7] (by simp [Val.Valid]) l1 rfl rfl
      ⟨Nat.le_refl _, by decide, by decide⟩ ByteArray.empty (by decide)
    rw [h1]
    have e' : Local.run wc frag l1 [.recv .byte] = _ := e
    rw [e']
    simp [recvObs]
  refine ⟨?_, ?_, by rw [hview]; exact hplain true⟩
  · have := (C11_conn_directions_independent frag Local.init Local.init failThenRecv (recvView failThenRecv) rfl
      (by simp [failThenRecv, recvView, Ev.isSend]) (by simp [failThenRecv, Ev.isClose])
      (by simp [failThenRecv, recvView, Ev.isSend, Ev.isClose])).1
    rw [this, hview]
    exact hplain false
  · -- the closing writer: after the failed Write the endpoint is closed
    let l4 : Local := (Local.run true frag Local.init (failThenRecv.take 5)).1
    have hsplit : failThenRecv = failThenRecv.take 5 ++ [.recv .byte] := by simp [failThenRecv]
    have c1 : l4.r.epClosed = true := by
      simp [l4, failThenRecv, Local.run_cons, Local.run_nil, Local.step, RSide.peerWrite, RSide.peerClose,
        Local.init, sendEffect_epClosed, sendEffect_snd]
      decide
    have c2 : l4.r.dead = false := by
      simp [l4, failThenRecv, Local.run_cons, Local.run_nil, Local.step, RSide.peerWrite, RSide.peerClose,
        Local.init, sendEffect_dead]
    have c3 : l4.r.rcv = { pend := ByteArray.empty ++ [7].toByteArray } := by
      simp [l4, failThenRecv, Local.run_cons, Local.run_nil, Local.step, RSide.peerWrite, RSide.peerClose,
        Local.init, sendEffect_rcv]
    have c4 : l4.r.inClosed = true := by
      simp [l4, failThenRecv, Local.run_cons, Local.run_nil, Local.step, RSide.peerWrite, RSide.peerClose,
        Local.init, sendEffect_inClosed]
    have hobs : recvObs (Local.run true frag Local.init (failThenRecv.take 5)).2 = [] := by
      simp [failThenRecv, Local.run_cons, Local.run_nil, Local.step, recvObs]
    have hex := recvVal_exhausted frag .byte { pend := (ByteArray.empty ++ [7].toByteArray).extract 0 0 }
      ⟨Nat.le_refl _, by decide, by decide⟩ (by decide)
    have hlast : (l4.step true frag (.recv .byte)).2 = Obs.rerr RErr.closed := by
      simp only [Local.step, RSide.recv, c1, c2, c3, c4, Bool.false_eq_true, if_false, if_true]
      rw [hex]
      simp [classify]
    rw [hsplit, Local.run_append, recvObs_append, hobs]
    simp only [Local.run_cons, Local.run_nil, List.nil_append]
    show recvObs [(l4.step true frag (.recv .byte)).2] = _
    rw [hlast]
    rfl

/-- **The session model is two endpoint sessions.**  In the two-endpoint
model `Sess` that the driver runs against the real code (two `Conn`s over two
independent byte queues; a `Write` towards a closed endpoint fails at once or
after `grace` accepted-and-discarded `Write`s), for every script of steps
(either side: typed send / `Flush` / `NeedSpace`, typed receive, `Close`, in
any order) each side's state and everything its calls returned is a session
`Local.run` of that endpoint for some event list - so the theorems above hold
for every side of every session the correspondence runs. -/
theorem C11_sess_sides_are_local_runs (fragA fragB : Frag) (script : List (Bool × Act)) (gAB gBA : Nat) :
    let s := Sess.run fragA fragB { graceAB := gAB, graceBA := gBA } script
    (∃ evA, (s.a, s.obsA) = Local.run false fragA Local.init evA) ∧
    (∃ evB, (s.b, s.obsB) = Local.run false fragB Local.init evB) := by
  intro s
  have ext : ∀ (frag : Frag) (l : Local) (os : List Obs) (ev es : List Ev),
      (l, os) = Local.run false frag Local.init ev →
      ((Local.run false frag l es).1, os ++ (Local.run false frag l es).2) =
        Local.run false frag Local.init (ev ++ es) := by
    intro frag l os ev es h
    rw [Local.run_append, ← h]
  -- one action of endpoint x (peer y) extends both sessions
  have side : ∀ (fx fy : Frag) (x y : Local) (ox oy : List Obs) (g d : Nat) (act : Act),
      (∃ ev, (x, ox) = Local.run false fx Local.init ev) → (∃ ev, (y, oy) = Local.run false fy Local.init ev) →
      (∃ ev, ((sideStep fx fy x y g d act).x, ox ++ (sideStep fx fy x y g d act).obsX) =
        Local.run false fx Local.init ev) ∧
      (∃ ev, ((sideStep fx fy x y g d act).y, oy ++ (sideStep fx fy x y g d act).obsY) =
        Local.run false fy Local.init ev) := by
    intro fx fy x y ox oy g d act ⟨ex, hx⟩ ⟨ey, hy⟩
    have hdel : ∀ (chunks : List ByteArray) (ca : Bool),
        ∃ ev, ((deliver fy y g d chunks ca).1, oy ++ (deliver fy y g d chunks ca).2.2.2) =
          Local.run false fy Local.init ev := by
      intro chunks ca
      by_cases hyc : y.r.epClosed = true
      · have := ext fy y oy ey (if ca then [Ev.peerClose] else []) hy
        exact ⟨_, by simpa [deliver, hyc] using this⟩
      · have := ext fy y oy ey (chunks.map Ev.peerWrite ++ if ca then [Ev.peerClose] else []) hy
        exact ⟨_, by simpa [deliver, hyc] using this⟩
    cases act with
    | recv k => exact ⟨⟨_, ext fx x ox ex [.recv k] hx⟩, ⟨ey, by simpa [sideStep] using hy⟩⟩
    | op o =>
      refine ⟨?_, hdel _ _⟩
      have h1 := ext fx x ox ex [.op (linkFault x.r.epClosed y.r.epClosed g x.snd.wire.length) lazySched o] hx
      have h2 := ext fx _ _ _ [.writer (linkFault x.r.epClosed y.r.epClosed g x.snd.wire.length)
        (Local.run false fx x [.op (linkFault x.r.epClosed y.r.epClosed g x.snd.wire.length) lazySched o]).1.snd.queue.length] h1
      exact ⟨_, by simpa [sideStep, List.append_assoc] using h2⟩
    | close =>
      exact ⟨⟨_, ext fx x ox ex [.close (linkFault x.r.epClosed y.r.epClosed g x.snd.wire.length) lazySched] hx⟩,
        hdel _ _⟩
  have inv : ∀ (script : List (Bool × Act)) (s : Sess),
      ((∃ evA, (s.a, s.obsA) = Local.run false fragA Local.init evA) ∧
       (∃ evB, (s.b, s.obsB) = Local.run false fragB Local.init evB)) →
      ((∃ evA, ((Sess.run fragA fragB s script).a, (Sess.run fragA fragB s script).obsA) =
          Local.run false fragA Local.init evA) ∧
       (∃ evB, ((Sess.run fragA fragB s script).b, (Sess.run fragA fragB s script).obsB) =
          Local.run false fragB Local.init evB)) := by
    intro script
    induction script with
    | nil => intro s h; exact h
    | cons st rest ih =>
      intro s ⟨hA, hB⟩
      show (∃ evA, ((Sess.run fragA fragB (s.step fragA fragB st) rest).a, _) = _) ∧ _
      apply ih
      unfold Sess.step
      split
      · obtain ⟨h1, h2⟩ := side fragB fragA s.b s.a s.obsB s.obsA s.graceBA s.discBA st.2 hB hA
        exact ⟨h2, h1⟩
      · exact side fragA fragB s.a s.b s.obsA s.obsB s.graceAB s.discAB st.2 hA hB
  exact inv script _ ⟨⟨[], rfl⟩, ⟨[], rfl⟩⟩

example (fragA fragB : Frag) := C11_sess_sides_are_local_runs fragA fragB
  [(true, .op (.send (.byte 7))), (true, .close), (false, .op (.send (.u32 1))), (false, .op .flush),
   (false, .recv .byte), (false, .close)] 0 1

/-- The fixed-width encodings are big-endian and decode to the value sent
(what `ReceiveUint16/32/Label` compute from the window). -/
theorem C11_be_roundtrip (k n : Nat) (h : n < 256 ^ k) :
    (be k n).size = k ∧ decodeBE (be k n) = n := by
  exact ⟨size_be k n, by rw [decodeBE_be, Nat.mod_eq_of_lt h]⟩

example : be 2 0x1234 = [0x12, 0x34].toByteArray := by decide
example : be 4 0xdeadbeef = [0xde, 0xad, 0xbe, 0xef].toByteArray := by decide
example : (Val.data [5, 6].toByteArray).encode = [0, 0, 0, 2, 5, 6].toByteArray := by decide

end Mpc

/-
C11  Connection layer is a faithful, ordered, typed byte stream.

Property theorems only; helper lemmas are in Proofs/Conn.lean, the executable
model (the same definitions the driver runs against the real `p2p.Conn`) in
Model/Conn.lean.

Quantification carried by the theorems:
* every operation list `ops` (typed sends of every kind with payloads of every
  size — 0, 1, 65535..65537, 2^20±1, … are just values of `d.size` — interleaved
  with `Flush` and `NeedSpace n` in any way);
* every writer-goroutine schedule `sch : Nat → Nat` (how far the writer gets
  during each flush) plus any number `j` of additional writer iterations at the
  point of observation;
* every fragmentation oracle `frag : Nat → Nat` (the size the transport returns
  on its i-th `Read`, clamped to 1 .. min(room, bytes remaining));
* every trailing byte string `rest` following the values that are received.

The send half exists in two models: the value-level `Sender` (queue of byte
strings) about which the main theorems are stated, and `Ring`, where the three
physical write buffers, the slice headers in `toWriter` and the aliasing of
`WriteBuf` are explicit; `C11_conn_ring_refines` proves the ownership
invariant of the ring and that it refines `Sender` step for step.

Domain guard (explicit hypothesis `Val.Valid`): `u16 < 2^16`, `u32 < 2^32`,
payload and list lengths `< 2^32`, labels `< 2^128`.  Outside it the Go code
truncates (`uint32(val)`) and nothing is claimed.
-/
import MpcVerif.Proofs.Conn

namespace Mpc
open Conn

/-- **conn_send_inv.**  At every point between two sender operations, under
every writer schedule and after any number of further writer iterations:
bytes already written to the transport, followed by the buffers still queued
for the writer goroutine, followed by the partly filled write buffer are
exactly the encoding of the operations executed so far, in order.  Moreover
the write buffer never exceeds 64 KiB, at most `numBuffers - 1` buffers are
queued, `Stats.Sent` is the number of bytes handed to the writer,
`Stats.Flushed` the number of chunks, and every chunk is non-empty and at most
64 KiB. -/
theorem C11_conn_send_inv (sch : Sched) (ops : List Op) (j : Nat) :
    let s := (Sender.init.run sch ops).writerSteps j
    joinB (s.wire ++ s.queue) ++ s.cur = encodeAll ops ∧
    s.cur.size ≤ writeBufSize ∧
    s.queue.length ≤ numBuffers - 1 ∧
    s.sent = (joinB (s.wire ++ s.queue)).size ∧
    s.flushed = (s.wire ++ s.queue).length ∧
    ∀ c ∈ s.wire ++ s.queue, 0 < c.size ∧ c.size ≤ writeBufSize := by
  intro s
  obtain ⟨h1, h2⟩ := run_spec sch ops Sender.init SInv_init
  obtain ⟨w1, w2, _⟩ := writerSteps_spec j _ h1
  refine ⟨?_, w1.cur_le, w1.queue_le, w1.sent_eq, w1.flushed_eq, w1.chunk_sz⟩
  have : s.stream = encodeAll ops := by
    rw [w2, h2]; simp [Sender.stream, Sender.chunks, Sender.init, joinB]
  exact this

example : ∃ ops : List Op, ops ≠ [] ∧ encodeAll ops ≠ ByteArray.empty :=
  ⟨[.send (.byte 7)], by simp, by decide⟩

/-- **Chunking is schedule-independent.**  The sequence of chunks handed to
`conn.Write` (hence the flush points), the content of the write buffer and
both counters do not depend on how the writer goroutine is scheduled. -/
theorem C11_conn_sched_indep (sch sch' : Sched) (ops : List Op) :
    (Sender.init.run sch ops).cur = (Sender.init.run sch' ops).cur ∧
    (Sender.init.run sch ops).chunks = (Sender.init.run sch' ops).chunks ∧
    (Sender.init.run sch ops).sent = (Sender.init.run sch' ops).sent ∧
    (Sender.init.run sch ops).flushed = (Sender.init.run sch' ops).flushed := by
  have h := core_run_congr sch sch' ops Sender.init Sender.init rfl
  simpa only [Sender.core, Prod.mk.injEq] using h

/-- **Flush hands everything over.**  Right after a `Flush` nothing is left in
the write buffer: everything sent so far is on the wire or queued for the
writer goroutine (which writes it without further action of the sender). -/
theorem C11_conn_flush_hands_over (sch : Sched) (ops : List Op) :
    let s := Sender.init.run sch (ops ++ [Op.flush])
    s.cur = ByteArray.empty ∧ joinB (s.wire ++ s.queue) = encodeAll ops := by
  intro s
  obtain ⟨h1, h2⟩ := run_spec sch ops Sender.init SInv_init
  obtain ⟨f1, f2, f3⟩ := flushS_spec sch _ h1
  have hs : s = (Sender.init.run sch ops).flushS sch := by
    simp [s, Sender.run, List.foldl_append, Sender.step]
  rw [hs]
  refine ⟨f3, ?_⟩
  have : ((Sender.init.run sch ops).flushS sch).stream = encodeAll ops := by
    rw [f2, h2]; simp [Sender.stream, Sender.chunks, Sender.init, joinB]
  simpa [Sender.stream, Sender.chunks, f3] using this

/-- **conn_close_delivers.**  After `Close` the transport has received exactly
the encoding of all operations, nothing is left queued or buffered, and
`Stats.Sent` equals the number of bytes written, `Stats.Flushed` the number of
`Write` calls; every `Write` carried between 1 and 65536 bytes. -/
theorem C11_conn_close_delivers (sch : Sched) (ops : List Op) :
    let s := (Sender.init.run sch ops).close sch
    joinB s.wire = encodeAll ops ∧ s.queue = [] ∧ s.cur = ByteArray.empty ∧
    s.sent = (encodeAll ops).size ∧ s.sent = (joinB s.wire).size ∧
    s.flushed = s.wire.length ∧
    ∀ c ∈ s.wire, 0 < c.size ∧ c.size ≤ writeBufSize := by
  intro s
  obtain ⟨h1, h2⟩ := run_spec sch ops Sender.init SInv_init
  obtain ⟨c1, c2, c3, c4, c5, c6⟩ := close_spec sch _ h1
  have hst : (Sender.init.run sch ops).stream = encodeAll ops := by
    rw [h2]; simp [Sender.stream, Sender.chunks, Sender.init, joinB]
  rw [hst] at c3 c4
  exact ⟨c3, c1, c2, c4, by rw [c4, c3], c5, c6⟩

/-- **conn_recv (general form).**  From any receiver state satisfying the
window invariant (`ReadStart ≤ ReadEnd ≤ 1 MiB`) whose unread bytes (window
followed by what the transport still holds) are `encodeVals vs ++ rest`, under
every fragmentation of the transport reads, the matching typed receives return
exactly `vs` in order, take no error branch, leave exactly `rest` unread, and
`Stats.Recvd` grows by exactly the number of bytes taken from the transport. -/
theorem C11_conn_recv_from (frag : Frag) (vs : List Val) (hv : ∀ v ∈ vs, v.Valid)
    (r : Recv) (hr : r.rs ≤ r.buf.size ∧ r.buf.size ≤ readBufSize ∧ r.pos ≤ r.pend.size)
    (rest : ByteArray) (hu : r.unread = encodeVals vs ++ rest) :
    ∃ r', r.recvAll frag (vs.map Val.kind) = (vs, r', none) ∧
      r'.unread = rest ∧ r'.pend = r.pend ∧
      r'.recvd - r.recvd = r'.pos - r.pos ∧ r.recvd ≤ r'.recvd ∧
      r'.rs ≤ r'.buf.size ∧ r'.buf.size ≤ readBufSize ∧ r'.pos ≤ r'.pend.size := by
  obtain ⟨r', e, i, u, a⟩ := recvAll_spec frag vs hv r ⟨hr.1, hr.2.1, hr.2.2⟩ rest hu
  refine ⟨r', e, u, a.pend_eq, ?_, ?_, i.rs_le, i.buf_le, i.pos_le⟩
  · have := a.recvd_eq; have := a.pos_mono; omega
  · have := a.recvd_eq; have := a.pos_mono; omega

/-- **conn_recv.**  A fresh connection reading the stream `encodeVals vs ++ rest`
from a transport that fragments reads in any way receives exactly `vs` and
leaves exactly `rest`; `Stats.Recvd` equals the bytes taken from the transport. -/
theorem C11_conn_recv (frag : Frag) (vs : List Val) (hv : ∀ v ∈ vs, v.Valid) (rest : ByteArray) :
    ∃ r', (Recv.init (encodeVals vs ++ rest)).recvAll frag (vs.map Val.kind) = (vs, r', none) ∧
      r'.unread = rest ∧ r'.recvd = r'.pos ∧ r'.pos ≤ (encodeVals vs ++ rest).size := by
  obtain ⟨r', e, i, u, a⟩ := recvAll_spec frag vs hv _ (RInv_init _) rest (unread_init _)
  refine ⟨r', e, u, ?_, ?_⟩
  · have := a.recvd_eq; simpa [Recv.init] using this
  · have h1 := i.pos_le; have h2 := a.pend_eq; rw [h2] at h1; simpa [Recv.init] using h1

/-- Example values of every kind, including the empty payload, for non-vacuity. -/
def exampleVals : List Val :=
  [.byte 0xab, .u16 65535, .u32 4294967295, .data ByteArray.empty, .data [1, 2, 3].toByteArray,
   .str "hi".toUTF8, .label (2 ^ 128 - 1), .sizes [], .sizes [0, 7, 4294967295]]

theorem exampleVals_valid : ∀ v ∈ exampleVals, v.Valid := by
  intro v hv
  simp only [exampleVals, List.mem_cons, List.not_mem_nil, or_false] at hv
  rcases hv with h | h | h | h | h | h | h | h | h <;> subst h <;> simp [Val.Valid] <;> decide

example (frag : Frag) (rest : ByteArray) :=
  C11_conn_recv frag exampleVals exampleVals_valid rest

/-- **conn_roundtrip.**  Any sequence of typed sends of valid values interleaved
with flushes and `NeedSpace` calls in any way, under any writer schedule,
closed, and read back through a transport with any read fragmentation by the
matching typed receives yields exactly the sent values in order, consumes the
stream completely, and the byte counters of both ends equal the number of bytes
that crossed the transport. -/
theorem C11_conn_roundtrip (sch : Sched) (frag : Frag) (ops : List Op)
    (hv : ∀ v ∈ opsVals ops, v.Valid) :
    let s := (Sender.init.run sch ops).close sch
    ∃ r', (Recv.init (joinB s.wire)).recvAll frag ((opsVals ops).map Val.kind) = (opsVals ops, r', none) ∧
      r'.unread = ByteArray.empty ∧
      r'.recvd = (joinB s.wire).size ∧ s.sent = (joinB s.wire).size := by
  intro s
  obtain ⟨c1, _, _, _, c5, _⟩ := C11_conn_close_delivers sch ops
  have hw : joinB s.wire = encodeVals (opsVals ops) ++ ByteArray.empty := by
    rw [c1, encodeAll_eq_encodeVals]; simp
  obtain ⟨r', e, i, u, a⟩ := recvAll_spec frag (opsVals ops) hv (Recv.init (joinB s.wire))
    (RInv_init _) ByteArray.empty (by rw [unread_init]; exact hw)
  refine ⟨r', e, u, ?_, c5⟩
  have hsz : r'.unread.size = 0 := by rw [u]; simp
  rw [size_unread] at hsz
  have h1 := i.pos_le
  have h2 := a.pend_eq
  have h3 := a.recvd_eq
  rw [h2] at h1 hsz
  simp only [Recv.init] at h1 h3 hsz
  omega

/-- **Both directions at once.**  The send half (`WriteBuf/WritePos/channels/
Sent/Flushed`) and the receive half (`ReadBuf/ReadStart/ReadEnd/Recvd`) of a
`Conn` share no state, so a duplex session is a pair of independent one-way
sessions; whatever A→B does (operations, writer schedule, fragmentation), B→A
round-trips, and vice versa. -/
theorem C11_conn_duplex (schA schB : Sched) (fragA fragB : Frag) (opsA opsB : List Op)
    (hA : ∀ v ∈ opsVals opsA, v.Valid) (hB : ∀ v ∈ opsVals opsB, v.Valid) :
    (∃ rB, (Recv.init (joinB ((Sender.init.run schA opsA).close schA).wire)).recvAll fragB
        ((opsVals opsA).map Val.kind) = (opsVals opsA, rB, none) ∧ rB.unread = ByteArray.empty) ∧
    (∃ rA, (Recv.init (joinB ((Sender.init.run schB opsB).close schB).wire)).recvAll fragA
        ((opsVals opsB).map Val.kind) = (opsVals opsB, rA, none) ∧ rA.unread = ByteArray.empty) := by
  obtain ⟨rB, e1, u1, _⟩ := C11_conn_roundtrip schA fragB opsA hA
  obtain ⟨rA, e2, u2, _⟩ := C11_conn_roundtrip schB fragA opsB hB
  exact ⟨⟨rB, e1, u1⟩, ⟨rA, e2, u2⟩⟩

/-- Non-vacuity: an operation list with every kind of send, flushes and
`NeedSpace` between them, whose values are all in the domain. -/
def exampleOps : List Op :=
  [.flush, .send (.byte 1), .needSpace 70000, .send (.data [9, 8, 7].toByteArray), .flush, .flush,
   .send (.u16 513), .send (.sizes [1, 2]), .needSpace 3, .send (.label 5), .send (.str "x".toUTF8),
   .send (.u32 0), .send (.data ByteArray.empty)]

theorem exampleOps_valid : ∀ v ∈ opsVals exampleOps, v.Valid := by
  intro v hv
  simp only [exampleOps, opsVals, List.mem_cons, List.not_mem_nil, or_false] at hv
  rcases hv with h | h | h | h | h | h | h | h <;> subst h <;> simp [Val.Valid] <;> decide

example (sch : Sched) (frag : Frag) := C11_conn_roundtrip sch frag exampleOps exampleOps_valid
example (s1 s2 : Sched) (f1 f2 : Frag) :=
  C11_conn_duplex s1 s2 f1 f2 exampleOps exampleOps exampleOps_valid exampleOps_valid

/-- **The physical buffer ring refines the value-level send half.**  In the
model with the three physical 64 KiB buffers made explicit (the sender writes
into the buffer `WriteBuf` aliases; `toWriter` carries slice headers whose
bytes are read only when the writer goroutine calls `conn.Write`;
`fromWriter` returns buffers for reuse), for every operation list and every
writer schedule: the current buffer, the queued buffers and the free buffers
are always pairwise distinct and are all `numBuffers` buffers (so the sender
never writes into a buffer that is queued or being written and `Flush` never
dead-locks), every queued slice covers exactly what was written into its
buffer, and reading the queued slices from memory *now* gives exactly the
state of the value-level model - hence every theorem above holds for the ring. -/
theorem C11_conn_ring_refines (sch : Sched) (ops : List Op) :
    let r := Ring.init.run sch ops
    (r.cur :: (r.toW.map Prod.fst ++ r.fromW)).Nodup ∧
    1 + r.toW.length + r.fromW.length = numBuffers ∧
    (∀ p ∈ r.toW, p.2 = (getB r.mem p.1).size) ∧
    r.abs = Sender.init.run sch ops := by
  intro r
  obtain ⟨h1, h2⟩ := run_sim sch ops Ring.init RingInv_init
  exact ⟨h1.nodup, h1.count, h1.len_eq, by rw [h2]; rfl⟩

/-- Ring version of `conn_send_inv`: the bytes already written, followed by
what the writer goroutine will read from the queued physical buffers, followed
by the content of the current buffer are the encoding of the operations so far. -/
theorem C11_conn_ring_send_inv (sch : Sched) (ops : List Op) :
    let r := Ring.init.run sch ops
    joinB (r.wire ++ r.toW.map (fun p => (getB r.mem p.1).extract 0 p.2)) ++ getB r.mem r.cur = encodeAll ops := by
  intro r
  obtain ⟨_, _, _, h⟩ := C11_conn_ring_refines sch ops
  have h0 := (C11_conn_send_inv sch ops 0).1
  simp only [Sender.writerSteps] at h0
  rw [← h] at h0
  exact h0

example (sch : Sched) := C11_conn_ring_refines sch exampleOps

/-- The fixed-width encodings are big-endian and decode to the value sent
(what `ReceiveUint16/32/Label` compute from the window). -/
theorem C11_be_roundtrip (k n : Nat) (h : n < 256 ^ k) :
    (be k n).size = k ∧ decodeBE (be k n) = n := by
  exact ⟨size_be k n, by rw [decodeBE_be, Nat.mod_eq_of_lt h]⟩

example : be 2 0x1234 = [0x12, 0x34].toByteArray := by decide
example : be 4 0xdeadbeef = [0xde, 0xad, 0xbe, 0xef].toByteArray := by decide
example : (Val.data [5, 6].toByteArray).encode = [0, 0, 0, 2, 5, 6].toByteArray := by decide

end Mpc

/-
C02  Two-party protocol: both parties obtain f(x, y).

Quantification: every well-formed two-party circuit (any widths, any number of
outputs of any widths), every pair of inputs, every key and key-derivation
`mkH` (AES of any key size is one), every offset with the select bit set,
every input-label randomness, and every oblivious transfer that satisfies
`OtSpec` (which property C06 establishes for each implementation).  The byte
encoding of the typed messages and its independence of transport
fragmentation is property C11.
-/
import MpcVerif.Proofs.Proto2
import MpcVerif.Proofs.Proto2Int
import MpcVerif.Model.Proto2Route
import MpcVerif.Props.C01

namespace Mpc
open LabelAlg

variable {L : Type} [LabelAlg L]

/-- The expected results: the plain evaluation of the circuit on
(garbler input ++ evaluator input), split per declared output. -/
def Circuit2.expected (p : Circuit2) (x y : List Bool) : List Nat :=
  (chunk p.outWidths (p.c.compute (x ++ y))).map packLE

theorem evaluator_store_eq (p : Circuit2) (G : Garbled L) (x y : List Bool)
    (hx : x.length = p.n0) (hn : p.c.nIn = p.n0 + p.n1) (otl : List L)
    (hotl : otl = (List.range p.n1).map fun i => (G.wires.get (p.n0 + i)).labelFor (y.getD i false)) :
    initStore p.c.numWires (LabelAlg.zero : L) (garblerInputLabels p G x ++ otl) =
      encodeInputs p.c G (x ++ y) := by
  simp only [initStore, encodeInputs]
  apply Array.ext
  · simp
  · intro i h1 h2
    simp only [Array.getElem_map, Array.getElem_range]
    have hgl : (garblerInputLabels p G x).length = p.n0 := by simp [garblerInputLabels]
    by_cases hi0 : i < p.n0
    · have hi : i < p.c.nIn := by omega
      simp only [hi, if_true]
      rw [List.getD_eq_getElem?_getD, List.getElem?_append_left (by omega)]
      simp only [garblerInputLabels]
      rw [List.getElem?_map, List.getElem?_range hi0]
      simp only [Option.map_some, Option.getD_some]
      congr 1
      rw [List.getD_eq_getElem?_getD, List.getD_eq_getElem?_getD,
        List.getElem?_append_left (by omega)]
    · by_cases hi1 : i < p.n0 + p.n1
      · have hi : i < p.c.nIn := by omega
        simp only [hi, if_true]
        rw [List.getD_eq_getElem?_getD, List.getElem?_append_right (by omega), hgl, hotl]
        rw [List.getElem?_map, List.getElem?_range (by omega)]
        simp only [Option.map_some, Option.getD_some]
        have : p.n0 + (i - p.n0) = i := by omega
        rw [this]
        congr 1
        rw [List.getD_eq_getElem?_getD, List.getD_eq_getElem?_getD,
          List.getElem?_append_right (by omega), hx]
      · have hi : ¬ i < p.c.nIn := by omega
        simp only [hi, if_false]
        rw [List.getD_eq_getElem?_getD, List.getElem?_eq_none (by simp [hgl, hotl]; omega)]
        simp [LabelAlg.default_eq]

theorem garblerDecode_ok [DecidableEq L] (p : Circuit2) (G : Garbled L) (out : Store L)
    (pv : Store Bool)
    (hdec : ∀ j, j < p.c.nOut →
      (G.wires.get (p.c.numWires - p.c.nOut + j)).bitFrom (out.get (p.c.numWires - p.c.nOut + j)) =
        some (pv.get (p.c.numWires - p.c.nOut + j))) :
    ∀ (k i : Nat), i + k = p.c.nOut →
      garblerDecode p G i ((List.range' i k).map fun j => out.get (p.c.numWires - p.c.nOut + j)) =
        .ok ((List.range' i k).map fun j => pv.get (p.c.numWires - p.c.nOut + j)) := by
  intro k
  induction k with
  | zero => intro i _; simp [garblerDecode]
  | succ k ih =>
    intro i hik
    simp only [List.range'_succ, List.map_cons, garblerDecode]
    rw [hdec i (by omega), ih (i + 1) (by omega)]

/-- **C02.**  Both parties terminate without error and return the same
values: the plain evaluation of the circuit on (garbler input, evaluator
input), split per declared output. -/
theorem C02_both_get_f [DecidableEq L] (p : Circuit2) (hwf : p.WF = true)
    (mkH : List UInt8 → Hash L) (key : List UInt8) (r : L) (hr : sbit r = true) (inl : Nat → L)
    (x y : List Bool) (hx : x.length = p.n0) (ot : OtFun L) (hot : OtSpec ot) :
    run2 p mkH key r inl x y ot = .ok (p.expected x y, p.expected x y) := by
  simp only [Circuit2.WF, Bool.and_eq_true, decide_eq_true_eq] at hwf
  obtain ⟨⟨⟨hcwf, hn⟩, hno⟩, hod⟩ := hwf
  obtain ⟨out, hev, hdec⟩ := C01_decode (mkH key) p.c r hr inl (x ++ y) hcwf
  simp only [run2]
  rw [evaluatorRecv1_flight1]
  simp only [ne_eq, not_true_eq_false, or_self, if_false]
  -- OT delivers the chosen labels
  have hotl := hot ((List.range p.n1).map fun i => (p.c.garble (mkH key) r inl).wires.get (p.n0 + i))
    ((List.range p.n1).map fun i => y.getD i false) (by simp)
  rw [hotl]
  have hzip : List.zipWith (fun (w : WireL L) b => w.labelFor b)
      ((List.range p.n1).map fun i => (p.c.garble (mkH key) r inl).wires.get (p.n0 + i))
      ((List.range p.n1).map fun i => y.getD i false) =
      (List.range p.n1).map fun i =>
        ((p.c.garble (mkH key) r inl).wires.get (p.n0 + i)).labelFor (y.getD i false) := by
    rw [List.zipWith_map_left, List.zipWith_map_right]
    simp [List.zipWith_self]
  rw [hzip]
  simp only [evaluatorEval]
  rw [evaluator_store_eq p _ x y hx hn _ rfl, hev]
  simp only
  -- the garbler decodes every output label
  have hdec' : ∀ j, j < p.c.nOut →
      ((p.c.garble (mkH key) r inl).wires.get (p.c.numWires - p.c.nOut + j)).bitFrom
        (out.get (p.c.numWires - p.c.nOut + j)) =
        some ((p.c.plainEval (x ++ y)).get (p.c.numWires - p.c.nOut + j)) := by
    intro j hj
    apply hdec
    simp only [Circuit.outputsDefined, List.all_eq_true, List.mem_range] at hod
    exact hod j hj
  have hgd := garblerDecode_ok p (p.c.garble (mkH key) r inl) out (p.c.plainEval (x ++ y)) hdec'
    p.c.nOut 0 (by omega)
  rw [← List.range_eq_range'] at hgd
  rw [hgd]
  simp only [bytes_roundtrip, splitNat_packLE, Circuit2.expected, Circuit.compute, Circuit.outputs]

/-- Message-level framing: what the evaluator parses from the garbler's first
flight is exactly what was sent (key, every table row, the garbler's input
labels), for every circuit and gate mix. -/
theorem C02_flight1_roundtrip (p : Circuit2) (key : List UInt8) (H : Hash L) (r : L)
    (inl : Nat → L) (x : List Bool) :
    evaluatorRecv1 p (garblerFlight1 p key (p.c.garble H r inl) x) =
      .ok (key, (p.c.garble H r inl).rows, garblerInputLabels p (p.c.garble H r inl) x, []) :=
  evaluatorRecv1_flight1 p key H r inl x

/-- The result byte string loses nothing: `SetBytes(Bytes(v)) = v` for every
value, including values with leading zero bits/bytes. -/
theorem C02_result_bytes_roundtrip (n : Nat) : bytesToNatBE (natToBytesBE n) = n :=
  bytes_roundtrip n

/-- Ideal OT satisfies the specification (the specification is satisfiable). -/
theorem idealOt_spec : OtSpec (fun (ws : List (WireL L)) fl => List.zipWith (fun w b => w.labelFor b) ws fl) :=
  fun _ _ _ => rfl

/-! Non-vacuity: a two-party circuit with two outputs of widths 1 and 2. -/
def exampleCircuit2 : Circuit2 :=
  { c := { numWires := 7, nIn := 3, nOut := 3,
           gates := [⟨.and, 0, 2, 3⟩, ⟨.xor, 1, 2, 4⟩, ⟨.or, 3, 4, 5⟩, ⟨.inv, 0, 0, 6⟩] },
    n0 := 2, n1 := 1, outWidths := [1, 2] }

example : exampleCircuit2.WF = true := by decide
example : exampleCircuit2.expected [true, false] [true] = [1, 1] := by decide +kernel

/-! ## Inputs as the API takes them: integers (`*big.Int`), any sign, any magnitude -/

/-- The expected results for integer inputs: `Circuit.Compute` on the
flattened argument values of both parties, split per declared output. -/
def Circuit2.expectedInt (p : Circuit2) (xs ys : ArgVals) : List Nat :=
  (chunk p.outWidths (p.computeInts xs ys)).map packLE

/-- **C02 on integers.**  For EVERY pair of integer inputs -- negative values,
values wider than the declared argument, zero -- given as flattened members of
the declared widths, both parties return `Circuit.Compute` of those integers.
The only hypothesis on the inputs is that the garbler's member widths add up to
its argument width (which is how `Circuit.Inputs[0]` is declared). -/
theorem C02_both_get_f_int [DecidableEq L] (p : Circuit2) (hwf : p.WF = true)
    (mkH : List UInt8 → Hash L) (key : List UInt8) (r : L) (hr : sbit r = true) (inl : Nat → L)
    (xs ys : ArgVals) (hx : argWidth xs = p.n0) (ot : OtFun L) (hot : OtSpec ot) :
    run2Int p mkH key r inl xs ys ot = .ok (p.expectedInt xs ys, p.expectedInt xs ys) := by
  rw [run2Int, C02_both_get_f p hwf mkH key r hr inl _ _ (by rw [encodeArg_length, hx]) ot hot]
  simp [Circuit2.expectedInt, Circuit2.expected, Circuit2.computeInts, encodeArg_append]

/-- The wire bits of an argument of width `w` with value `v` are the `w` binary
digits of `v mod 2^w`: two's complement for a negative `v`, truncation for a
`v` wider than the argument. -/
theorem C02_input_bits_twos_complement (w : Nat) (v : Int) :
    (bitsOfInt w v).length = w ∧ packLE (bitsOfInt w v) = (v % 2 ^ w).toNat :=
  ⟨bitsOfInt_length w v, packLE_bitsOfInt w v⟩

/-- Only the residue of every member modulo `2^width` matters to the session. -/
theorem C02_session_depends_on_residues [DecidableEq L] (p : Circuit2) (mkH : List UInt8 → Hash L)
    (key : List UInt8) (r : L) (inl : Nat → L) (w : Nat) (v v' : Int) (ys : ArgVals) (ot : OtFun L)
    (h : v % 2 ^ w = v' % 2 ^ w) :
    run2Int p mkH key r inl ys [(w, v)] ot = run2Int p mkH key r inl ys [(w, v')] ot ∧
    run2Int p mkH key r inl [(w, v)] ys ot = run2Int p mkH key r inl [(w, v')] ys ot := by
  simp [run2Int, encodeArg, bitsOfInt_congr w v v' h]

/-- The packed value `IOArg.Parse` builds for a struct argument
(`SetBit(offset+i, member.Bit(i))`) carries exactly the members' bits: a session
on the packed value is the session on the members. -/
theorem C02_packed_argument_faithful [DecidableEq L] (p : Circuit2) (mkH : List UInt8 → Hash L)
    (key : List UInt8) (r : L) (inl : Nat → L) (xs ys : ArgVals) (ot : OtFun L) :
    run2Int p mkH key r inl [(argWidth xs, (packArg xs : Int))] [(argWidth ys, (packArg ys : Int))] ot =
      run2Int p mkH key r inl xs ys ot := by
  simp [run2Int, encodeArg, bitsOfInt_packArg]

/-- Reading the machine words of the magnitude (`big.Int.Bits()`) agrees with
`Bit(i)` on every NON-NEGATIVE value ... -/
theorem C02_abs_words_agree_nonneg (w n : Nat) : absBits w (n : Int) = bitsOfInt w (n : Int) :=
  absBits_natCast w n

/-- ... and on no negative value whose width reaches its lowest set bit: the
words of `|v|` are the words of `-v`. -/
theorem C02_abs_words_differ_witness : absBits 8 (-5) ≠ bitsOfInt 8 (-5) ∧
    absBits 8 (-5) = bitsOfInt 8 5 ∧ packLE (bitsOfInt 8 (-5)) = 251 := by decide

/-- A circuit that copies the evaluator's two bits (xored with the garbler's
bit on the first). -/
def exampleCircuit3 : Circuit2 :=
  { c := { numWires := 5, nIn := 3, nOut := 2, gates := [⟨.xor, 0, 1, 3⟩, ⟨.and, 2, 2, 4⟩] },
    n0 := 1, n1 := 2, outWidths := [2] }

/-- Session-level witness: an evaluator that takes its choice flags from the
words of `|y|` finishes without error, both parties agree -- on `f(x, |y|)`,
which is not `f(x, y)`: for every key derivation, randomness and OT. -/
theorem C02_abs_words_session_wrong [DecidableEq L] (mkH : List UInt8 → Hash L) (key : List UInt8)
    (r : L) (hr : sbit r = true) (inl : Nat → L) (ot : OtFun L) (hot : OtSpec ot) :
    run2 exampleCircuit3 mkH key r inl (encodeArg [(1, 0)]) (absBits 2 (-1)) ot = .ok ([1], [1]) ∧
    run2Int exampleCircuit3 mkH key r inl [(1, 0)] [(2, -1)] ot = .ok ([3], [3]) := by
  constructor
  · rw [C02_both_get_f exampleCircuit3 (by decide) mkH key r hr inl _ _ (by decide) ot hot]
    have : exampleCircuit3.expected (encodeArg [(1, 0)]) (absBits 2 (-1)) = [1] := by decide +kernel
    rw [this]
  · rw [C02_both_get_f_int exampleCircuit3 (by decide) mkH key r hr inl _ _ (by decide) ot hot]
    have : exampleCircuit3.expectedInt [(1, 0)] [(2, -1)] = [3] := by decide +kernel
    rw [this]

example : exampleCircuit3.WF = true := by decide
example : argWidth [(1, (0 : Int))] = exampleCircuit3.n0 := by decide
example : exampleCircuit2.expectedInt [(2, -1)] [(1, -1)] = exampleCircuit2.expected [true, true] [true] := by
  decide +kernel
example : (-5 : Int) % 2 ^ 8 = 251 % 2 ^ 8 := by decide
example : bitsOfInt 3 (-5) = [true, true, false] ∧ bitsOfInt 3 1003 = [true, true, false] := by decide
example : packArg [(4, -1), (5, 3)] = 63 ∧ argWidth [(4, (-1 : Int)), (5, 3)] = 9 := by decide

/-! ## Circuit construction routes: "for every two-party circuit" means every circuit VALUE

A `*circuit.Circuit` carries derived data (`Stats`, `Gate.Level`) besides the
fields that define `f`.  The model's `Circuit2` has NO such field — that is the
reason `C02_both_get_f` covers a circuit however it was constructed.  The
theorems below say so about `GoCircuit` (defining fields + derived data) and
`run2Go`; that the real `Garbler` / `Evaluator` read the defining fields only
is the DOCUMENTED ASSUMPTION behind `run2Go`, tied on every run by the harness'
route dimension (every session class x {exact, zero, stale, parsed, appended,
levels}; op `c02 rt <route> <Stats> ...`; obligations that every route ran). -/

/-- **C02 for every circuit value.**  Whatever the derived fields of the circuit
value hold (zero, exact, stale, levels assigned), both parties return the plain
evaluation of the circuit its defining fields describe. -/
theorem C02_both_get_f_every_circuit_value [DecidableEq L] (gc : GoCircuit) (hwf : gc.core.WF = true)
    (mkH : List UInt8 → Hash L) (key : List UInt8) (r : L) (hr : sbit r = true) (inl : Nat → L)
    (x y : List Bool) (hx : x.length = gc.core.n0) (ot : OtFun L) (hot : OtSpec ot) :
    run2Go gc mkH key r inl x y ot = .ok (gc.core.expected x y, gc.core.expected x y) :=
  C02_both_get_f gc.core hwf mkH key r hr inl x y hx ot hot

/-- Two circuit values with the same defining fields run the same session,
error branches included: the derived data is not an input of the protocol. -/
theorem C02_session_independent_of_derived_data [DecidableEq L] (gc gc' : GoCircuit) (h : gc.core = gc'.core)
    (mkH : List UInt8 → Hash L) (key : List UInt8) (r : L) (inl : Nat → L) (x y : List Bool) (ot : OtFun L) :
    run2Go gc mkH key r inl x y ot = run2Go gc' mkH key r inl x y ot := by
  simp [run2Go, h]

/-- The defining fields a route yields: the given ones, except that `appended`
yields the edited gate list on the extended wire range. -/
def Route.coreOf : Route → Circuit2 → Circuit2
  | .appended gs, p => p.append gs
  | _, p => p

theorem C02_route_defining_fields (rt : Route) (p : Circuit2) : (rt.construct p).core = rt.coreOf p := by
  cases rt <;> rfl

/-- **C02 along every construction route.**  For every route and every defining
fields `p` such that the constructed circuit is well formed, both parties return
the plain evaluation of the CONSTRUCTED circuit (for `appended`: of the edited
gate list), although the `Stats` the value carries are those of `p`, of another
circuit, or zero. -/
theorem C02_both_get_f_every_route [DecidableEq L] (rt : Route) (p : Circuit2)
    (hwf : (rt.coreOf p).WF = true)
    (mkH : List UInt8 → Hash L) (key : List UInt8) (r : L) (hr : sbit r = true) (inl : Nat → L)
    (x y : List Bool) (hx : x.length = p.n0) (ot : OtFun L) (hot : OtSpec ot) :
    run2Go (rt.construct p) mkH key r inl x y ot = .ok ((rt.coreOf p).expected x y, (rt.coreOf p).expected x y) := by
  have hc := C02_route_defining_fields rt p
  have hn0 : (rt.coreOf p).n0 = p.n0 := by cases rt <;> rfl
  have := C02_both_get_f_every_circuit_value (rt.construct p) (by rw [hc]; exact hwf) mkH key r hr inl x y
    (by rw [hc, hn0]; exact hx) ot hot
  rw [this, hc]

/-- Non-vacuity of the route dimension: the statistics a value carries and the
rows its gate list makes the garbler transmit really differ along the routes
(a struct literal claims 0 rows where 6 are sent; an appended OR gate adds 3 rows
the parser never counted), and the edited circuit is a different function. -/
theorem C02_routes_carry_wrong_statistics :
    rowsNeeded exampleCircuit2.c.gates = 6 ∧
    (Route.zero.construct exampleCircuit2).derived.stats = [] ∧
    (Route.exact.construct exampleCircuit2).derived.stats = [1, 0, 1, 1, 1, 0, 0, 0] ∧
    ((Route.appended [⟨.or, 5, 6, 7⟩]).construct exampleCircuit2).derived.stats = [1, 0, 1, 1, 1, 0, 0, 0] ∧
    rowsNeeded ((Route.appended [⟨.or, 5, 6, 7⟩]).construct exampleCircuit2).core.c.gates = 9 ∧
    ((Route.appended [⟨.or, 5, 6, 7⟩]).coreOf exampleCircuit2).WF = true ∧
    ((Route.appended [⟨.or, 5, 6, 7⟩]).coreOf exampleCircuit2).expected [true, false] [true] = [1, 2] := by
  refine ⟨by decide, by decide, by decide, by decide, by decide, by decide, by decide +kernel⟩

example : (Route.zero.coreOf exampleCircuit2).WF = true := by decide
example : (Route.stale { stats := [9, 9, 0, 0, 0, 0, 0, 0] }).coreOf exampleCircuit2 = exampleCircuit2 := rfl
example : ({ core := exampleCircuit2 } : GoCircuit).core.WF = true := by decide
example : ({ core := exampleCircuit2, derived := { stats := [1] } } : GoCircuit).core =
    ({ core := exampleCircuit2 } : GoCircuit).core := rfl
example : [true, false].length = exampleCircuit2.n0 := by decide

end Mpc

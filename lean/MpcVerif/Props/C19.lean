/-
C19  Peer-to-peer mesh always forms completely and consistently.

Model: `Mpc.Mesh` (Model/Mesh.lean), a transition system over all parties'
`Join`/`Connect` goroutines, their accept goroutines, the listeners' sets of
not yet accepted connections (accept order arbitrary) and the leader's info
messages.  Quantification in every theorem: every configuration `c` with
`2 ≤ n`, `1 ≤ m ≤ 256` (`Cfg.Ok`: what `Create`/`Join`/`dial` accept), every
reachable state, i.e. every interleaving of every start order.

The code as it is (`ReachF`: `acceptConn` decrements `need[k]` and broadcasts
BEFORE it stores the connection with `SetConn`/`addPeer`, in two critical
sections) violates the property: the three full statements

  mesh_safe     : ReachF c s → s.bad = false
  mesh_progress : ReachF c s → (∃ p < n, phase p ≠ done) → some faithful event is enabled
  mesh_final    : ReachF c s → phase p = done → p's table is complete

are all false; `C19_faithful_*` below are the machine-checked counterexamples
(replayed on the real code by checks/C19.py: profile `midaccept`).  What is
proved at full generality are the same three statements for the atomic
system `ReachA`, in which the accept goroutine is not interrupted between
`need[k]--` and the store (`Ev.accept`), i.e. for the code with the store
moved in front of the decrement.  Every atomic run is a run of the code as it
is (`C19_atomic_runs_are_runs`).
-/
import MpcVerif.Proofs.MeshMeasure

namespace Mpc
open Mesh

/-- Atomic runs are runs of the code as it is: `accept` = `accDec` then `accStore`. -/
theorem C19_atomic_runs_are_runs (c : Cfg) (s : State) (h : ReachA c s) : ReachF c s := by
  induction h with
  | init => exact .init
  | @step s0 s1 e _ he hs ih =>
    cases e with
    | accDec j i k => simp [Ev.atomic] at he
    | accStore j => simp [Ev.atomic] at he
    | accept j i k =>
      simp only [step] at hs
      cases h1 : stepAccDec c s0 j i k with
      | none => simp [h1] at hs
      | some s1 =>
        simp only [h1, Option.bind_some] at hs
        exact .step (.accStore j) (.step (.accDec j i k) ih rfl h1) rfl hs
    | join i => exact .step _ ih rfl hs
    | lconnect => exact .step _ ih rfl hs
    | hello i => exact .step _ ih rfl hs
    | waitDone p => exact .step _ ih rfl hs
    | info => exact .step _ ih rfl hs
    | recvInfo i => exact .step _ ih rfl hs
    | dial i => exact .step _ ih rfl hs

/-- **mesh_safe** (atomic system).  In every reachable state: no party has
taken an error path — `SetConn` never met an occupied slot, "too many
connections" (`need[k] = 0` at an accept) never occurred, no invalid peer or
connection id, no refused dial; every table entry `Peers[q].Conns[k]` of party
p holds the canonical connection between p and q with hello id k (so the id
and the peer are right, and both ends index it by the same k); an entry at the
accepting end implies the same connection at the dialling end; and no dialled
connection is lost (it is pending at the listener or stored at the acceptor;
connection 0 to the leader may still await its hello). -/
theorem C19_mesh_safe_partial (c : Cfg) (hc : c.Ok) (s : State) (h : ReachA c s) :
    s.bad = false ∧
    (∀ p q k cn, s.conn p q k = some cn → cn = wire p q k ∧ p ≠ q ∧ p < c.n ∧ q < c.n ∧ k < c.m) ∧
    (∀ p q k cn, s.conn p q k = some cn → cn.dst = p → s.conn q p k = some cn) ∧
    (∀ p q k cn, s.conn p q k = some cn → cn.src = p →
      s.pend q p k = true ∨ s.conn q p k = some cn ∨ (q = 0 ∧ k = 0 ∧ s.phase p = .joined)) := by
  have hI := reach_inv c hc s h
  refine ⟨hI.notBad, hI.slot, ?_, ?_⟩
  · intro p q k cn hcn hdst
    obtain ⟨hw, hpq, hp, hq, hk⟩ := hI.slot p q k cn hcn
    have hd : Dials q p := by
      subst hw
      unfold wire at hdst
      by_cases hq0 : q = 0
      · simp [hq0] at hdst; omega
      · by_cases hp0 : p = 0
        · exact ⟨by omega, Or.inl hp0⟩
        · by_cases hlt : p < q
          · simp [hq0, hp0, hlt] at hdst; omega
          · exact ⟨by omega, Or.inr (by omega)⟩
    have := (hI.accSlot q p k hd (by simp [hcn])).1
    cases hcn' : s.conn q p k with
    | none => simp [hcn'] at this
    | some v =>
      rw [(hI.slot q p k v hcn').1, hw, wire_comm p q k hpq]
  · intro p q k cn hcn hsrc
    obtain ⟨hw, hpq, hp, hq, hk⟩ := hI.slot p q k cn hcn
    have hd : Dials p q := by
      subst hw
      unfold wire at hsrc
      by_cases hq0 : q = 0
      · exact ⟨by omega, Or.inl hq0⟩
      · by_cases hp0 : p = 0
        · simp [hq0, hp0] at hsrc
        · by_cases hlt : p < q
          · exact ⟨by omega, Or.inr hlt⟩
          · simp [hq0, hp0, hlt] at hsrc; omega
    rcases hI.dialSlot p q k hd (by simp [hcn]) with e | e | e
    · exact Or.inl e
    · right; left
      cases hcn' : s.conn q p k with
      | none => simp [hcn'] at e
      | some v => rw [(hI.slot q p k v hcn').1, hw, wire_comm p q k hpq]
    · exact Or.inr (Or.inr e)

example : (⟨3, 2⟩ : Cfg).Ok := ⟨by decide, by decide, by decide⟩

/-- No atomic step from a reachable state takes an error path (the successor
state is again free of errors): in particular a `dial` is never issued on an
occupied slot and an accept never finds `need[k] = 0`. -/
theorem C19_no_error_step_partial (c : Cfg) (hc : c.Ok) (s s' : State) (h : ReachA c s) (e : Ev)
    (he : e.atomic = true) (hs : step c s e = some s') : s'.bad = false :=
  (reach_inv c hc s' (.step e h he hs)).notBad

/-- **mesh_progress** (atomic system), part 1: deadlock freedom.  In every
reachable state in which some party's `Connect` has not returned some event is
enabled. -/
theorem C19_mesh_progress_partial (c : Cfg) (hc : c.Ok) (s : State) (h : ReachA c s)
    (hnd : ∃ p, p < c.n ∧ s.phase p ≠ .done) : ∃ e, e.atomic = true ∧ (step c s e).isSome :=
  progress c hc s (reach_inv c hc s h) hnd

/-- **mesh_progress**, part 2: every step strictly decreases the measure `mu`
(remaining goroutine steps + remaining accepts), ... -/
theorem C19_measure_decreases_partial (c : Cfg) (hc : c.Ok) (s s' : State) (h : ReachA c s) (e : Ev)
    (he : e.atomic = true) (hs : step c s e = some s') : mu c s' < mu c s :=
  measure_step c hc s s' (reach_inv c hc s h) e he hs

/-- ... hence every execution is finite: a run of atomic events from the
initial state has at most `mu c (init c)` steps, whatever the schedule (no
fairness assumption is needed: there are no stuttering steps).  With part 1:
every maximal execution ends with every `Connect` returned. -/
theorem C19_terminates_partial (c : Cfg) (hc : c.Ok) (es : List Ev) (hat : ∀ e ∈ es, e.atomic = true)
    (s : State) (hr : run c (init c) es = some s) : es.length + mu c s ≤ mu c (init c) := by
  suffices H : ∀ (es : List Ev) (s0 : State), ReachA c s0 → (∀ e ∈ es, e.atomic = true) →
      run c s0 es = some s → es.length + mu c s ≤ mu c s0 from H es (init c) .init hat hr
  intro es
  induction es with
  | nil => intro s0 _ _ hr; simp [run] at hr; subst hr; simp
  | cons e es ih =>
    intro s0 h0 hat hr
    simp only [run] at hr
    cases h1 : step c s0 e with
    | none => simp [h1] at hr
    | some s1 =>
      simp only [h1, Option.bind_some] at hr
      have he := hat e (by simp)
      have := ih s1 (.step e h0 he h1) (fun e' he' => hat e' (by simp [he'])) hr
      have := C19_measure_decreases_partial c hc s0 s1 h0 e he h1
      simp only [List.length_cons]
      omega

/-- **mesh_final** (atomic system).  When `Connect` has returned at party p
(in particular in the final state, for every p) its table holds, for every
other party q and every k < m, exactly the canonical connection between p and
q with id k, and nothing else.  If q's `Connect` has returned as well, q holds
the same connection under the same k: the k-th connection at one end is the
k-th at the other. -/
theorem C19_mesh_final_partial (c : Cfg) (hc : c.Ok) (s : State) (h : ReachA c s) (p : Nat)
    (hp : p < c.n) (hd : s.phase p = .done) :
    (∀ q k, q < c.n → q ≠ p → k < c.m → s.conn p q k = some (wire p q k)) ∧
    (∀ q k, (q = p ∨ c.n ≤ q ∨ c.m ≤ k) → s.conn p q k = none) ∧
    (∀ q k, q < c.n → q ≠ p → k < c.m → s.phase q = .done → s.conn q p k = s.conn p q k) := by
  have hI := reach_inv c hc s h
  refine ⟨fun q k hq hqp hk => done_table c hc s hI p hp hd q k hq hqp hk, ?_, ?_⟩
  · intro q k hor
    cases hcn : s.conn p q k with
    | none => rfl
    | some v =>
      have := hI.slot p q k v hcn
      omega
  · intro q k hq hqp hk hqd
    rw [done_table c hc s hI p hp hd q k hq hqp hk,
      done_table c hc s hI q hq hqd p k hp (Ne.symm hqp) hk, wire_comm p q k (Ne.symm hqp)]

/-- In the final state nothing is in flight: no pending connection (none lost),
no unread info, no half-done accept. -/
theorem C19_final_quiet_partial (c : Cfg) (hc : c.Ok) (s : State) (h : ReachA c s)
    (hall : ∀ p, p < c.n → s.phase p = .done) :
    (∀ j i k, s.pend j i k = false) ∧ (∀ p, p < c.n → s.mail p = none) ∧ (∀ p, s.infl p = none) :=
  done_quiet c hc s (reach_inv c hc s h) hall

/-! ### non-vacuity: the atomic system does reach the final state -/

theorem reachA_of_run (c : Cfg) (es : List Ev) (hat : ∀ e ∈ es, e.atomic = true) (s0 s : State)
    (h0 : ReachA c s0) (hr : run c s0 es = some s) : ReachA c s := by
  induction es generalizing s0 with
  | nil => simp [run] at hr; subst hr; exact h0
  | cons e es ih =>
    simp only [run] at hr
    cases h1 : step c s0 e with
    | none => simp [h1] at hr
    | some s1 =>
      simp only [h1, Option.bind_some] at hr
      exact ih (fun e' he' => hat e' (by simp [he'])) s1 (.step e h0 (hat e (by simp)) h1) hr

/-- A complete atomic run for 3 parties, 2 connections per pair. -/
def demoRun : List Ev :=
  [.join 2, .lconnect, .join 1, .hello 1, .accept 0 1 0, .hello 2, .accept 0 2 0, .waitDone 0, .info, .info,
   .recvInfo 2, .recvInfo 1, .dial 1, .waitDone 1, .dial 1, .accept 2 1 0, .waitDone 2, .dial 2, .dial 1,
   .accept 0 2 1, .accept 0 1 1, .waitDone 0, .accept 2 1 1, .waitDone 2, .waitDone 1]

example : demoRun.all Ev.atomic = true ∧ ((run ⟨3, 2⟩ (init ⟨3, 2⟩) demoRun).map fun s =>
    allDone ⟨3, 2⟩ s && quiet ⟨3, 2⟩ s && (List.range 3).all (tableComplete ⟨3, 2⟩ s)) = some true := by
  decide +kernel

/-- ... so the hypotheses of the theorems above are satisfiable with a
party whose `Connect` has returned. -/
example : ∃ s, ReachA ⟨3, 2⟩ s ∧ s.phase 0 = .done ∧ s.phase 2 = .done := by
  cases hrun : run ⟨3, 2⟩ (init ⟨3, 2⟩) demoRun with
  | none =>
    have : (run ⟨3, 2⟩ (init ⟨3, 2⟩) demoRun).isSome = true := by decide +kernel
    simp [hrun] at this
  | some s =>
    refine ⟨s, reachA_of_run _ demoRun (by decide) _ s .init hrun, ?_, ?_⟩
    · have : ((run ⟨3, 2⟩ (init ⟨3, 2⟩) demoRun).map fun s => s.phase 0) = some .done := by decide +kernel
      simpa [hrun] using this
    · have : ((run ⟨3, 2⟩ (init ⟨3, 2⟩) demoRun).map fun s => s.phase 2) = some .done := by decide +kernel
      simpa [hrun] using this

/-! ### the code as it is violates the property (negation witnesses) -/

/-- n = 2, m = 1: the leader's wait ends between `need[0]--` and the store of
peer 1, so its peer list is still `[0]`, nobody is sent the network info and
the leader's `Connect` returns; peer 1 waits for the info forever. -/
def deadlockRun : List Ev :=
  [.join 1, .hello 1, .lconnect, .accDec 0 1 0, .waitDone 0, .accStore 0]

/-- **mesh_progress is false for the code as it is**: a reachable state in
which peer 1's `Connect` has not returned and no event is enabled. -/
theorem C19_faithful_deadlock :
    ∃ s, ReachF ⟨2, 1⟩ s ∧ s.bad = false ∧ s.phase 0 = .done ∧ s.phase 1 = .hello ∧
      enabled ⟨2, 1⟩ s Ev.faithful = [] := by
  have hr : ∀ (es : List Ev) (s0 s : State), (∀ e ∈ es, e.faithful = true) → ReachF ⟨2, 1⟩ s0 →
      run ⟨2, 1⟩ s0 es = some s → ReachF ⟨2, 1⟩ s := by
    intro es
    induction es with
    | nil => intro s0 s _ h0 hr; simp [run] at hr; subst hr; exact h0
    | cons e es ih =>
      intro s0 s hf h0 hr
      simp only [run] at hr
      cases h1 : step ⟨2, 1⟩ s0 e with
      | none => simp [h1] at hr
      | some s1 =>
        simp only [h1, Option.bind_some] at hr
        exact ih s1 s (fun e' he' => hf e' (by simp [he'])) (.step e h0 (hf e (by simp)) h1) hr
  cases hrun : run ⟨2, 1⟩ (init ⟨2, 1⟩) deadlockRun with
  | none =>
    have : (run ⟨2, 1⟩ (init ⟨2, 1⟩) deadlockRun).isSome = true := by decide +kernel
    simp [hrun] at this
  | some s =>
    refine ⟨s, hr deadlockRun _ s (by decide) .init hrun, ?_, ?_, ?_, ?_⟩
    · have : ((run ⟨2, 1⟩ (init ⟨2, 1⟩) deadlockRun).map fun s => s.bad) = some false := by decide +kernel
      simpa [hrun] using this
    · have : ((run ⟨2, 1⟩ (init ⟨2, 1⟩) deadlockRun).map fun s => s.phase 0) = some .done := by decide +kernel
      simpa [hrun] using this
    · have : ((run ⟨2, 1⟩ (init ⟨2, 1⟩) deadlockRun).map fun s => s.phase 1) = some .hello := by decide +kernel
      simpa [hrun] using this
    · have : ((run ⟨2, 1⟩ (init ⟨2, 1⟩) deadlockRun).map fun s => enabled ⟨2, 1⟩ s Ev.faithful) = some [] := by
        decide +kernel
      simpa [hrun] using this

/-- n = 2, m = 2: the leader's last wait ends between `need[1]--` and the store. -/
def earlyReturnRun : List Ev :=
  [.join 1, .hello 1, .lconnect, .accDec 0 1 0, .accStore 0, .waitDone 0, .info, .recvInfo 1, .waitDone 1,
   .dial 1, .accDec 0 1 1, .waitDone 0]

/-- **mesh_final is false for the code as it is**: the leader's `Connect` has
returned nil (no error anywhere) while `Peers[1].Conns[1]` is not set. -/
theorem C19_faithful_return_incomplete :
    ((run ⟨2, 2⟩ (init ⟨2, 2⟩) earlyReturnRun).map fun s =>
      (earlyReturnRun.all Ev.faithful, s.bad, s.phase 0, s.conn 0 1 1)) = some (true, false, .done, none) := by
  decide +kernel

/-- n = 4, m = 1: the leader sends peer 2 a list made while peer 1 is not yet
stored; peer 2 computes `NumParties = 3` and rejects peer 3. -/
def badListRun : List Ev :=
  [.join 1, .join 2, .join 3, .hello 1, .hello 2, .hello 3, .lconnect, .accDec 0 2 0, .accStore 0,
   .accDec 0 3 0, .accStore 0, .accDec 0 1 0, .waitDone 0, .info, .recvInfo 2]

/-- **mesh_safe is false for the code as it is**: an error path ("invalid peer
ID") is reachable. -/
theorem C19_faithful_error :
    ((run ⟨4, 1⟩ (init ⟨4, 1⟩) badListRun).map fun s => (badListRun.all Ev.faithful, s.bad)) =
      some (true, true) := by
  decide +kernel

end Mpc

/-
C19  Peer-to-peer mesh always forms completely and consistently.

Model: `Mpc.Mesh` (Model/Mesh.lean), a transition system over all parties'
`Join`/`Connect` goroutines, their accept goroutines (three critical sections
per accepted connection: check `need[k] > 0`, store with `SetConn`/`addPeer`,
then `need[k]--; Broadcast`), the listeners' sets of not yet accepted
connections (accept order arbitrary) and the leader's info messages.
Quantification in every theorem: every configuration `c` with `2 ≤ n`,
`1 ≤ m ≤ 256` (`Cfg.Ok`: what `Create`/`Join`/`dial` accept), every state
reachable by the code as it is (`Reach`), i.e. every interleaving of every
start order, including every interleaving inside `acceptConn`.

Where `m ≤ 256` comes from: the connection id travels in ONE byte of the hello
word (`dial`: `connMagic | (connID & 0xff)`, `acceptConn`:
`int(byte(magic))`, `connMagicMask = 0xffffff00`), and `dial` refuses
`connID > 0xff`.  The model keeps the two sides apart: the dialler stores under
`k`, the acceptor files under `helloId k = k % 256`; they agree exactly for the
ids `dial` admits (`C19_conn_id_one_byte`).  `Create`/`Join` do not bound
`numConns`: with m > 256 the dial of id 256 fails ("invalid connection ID") -
outside the theorems and outside the property's range (1..4).  checks/C19.py
extracts the four constants on every run and requires that they describe the
same id range (structural fact "hello id coding"), and runs real meshes with up
to 256 connections per pair.

Data phase overlapping the setup phase (`Model/MeshData.lean`, `DReach`): a
party uses its connections as soon as ITS OWN `Connect` has returned, while
other parties are still accepting.  Per connection and direction the model
keeps the bytes in the socket from the moment of the dial, the `ReadBuf` of the
`*Conn` that `acceptConn` reads the hello with (and then stores), and what the
application sent / received per slot.  `C19_early_data_conserved` /
`C19_early_data_delivered`: at every time the received sequence of slot (q, k)
at p is a prefix of what q sent on its slot (p, k), nothing lost, duplicated,
reordered or cross-wired, and a receive delivers all of it.  An `acceptConn`
that reads the hello through a reader that is not the stored connection loses
what arrived together with the hello although the mesh forms completely
(`C19_hello_reader_drops_early_data`); checks/C19.py forces that schedule on
the real code and requires that the data arrives.

History: before commit b60eeb5 `acceptConn` decremented `need[k]` and
broadcast BEFORE it stored the connection; for that ordering (`ReachOld`,
events `oldDec`/`oldStore`) all three statements are false.  The witnesses
`C19_old_order_*` below document what the repair removed; checks/C19.py
replays their schedules on the real code and requires that they no longer
produce the failure.
-/
import MpcVerif.Proofs.MeshMeasure
import MpcVerif.Proofs.MeshData

namespace Mpc
open Mesh

/-- **mesh_safe**.  In every reachable state: no party has
taken an error path — `SetConn` never met an occupied slot, "too many
connections" (`need[k] = 0` at an accept) never occurred, no invalid peer or
connection id, no refused dial; every table entry `Peers[q].Conns[k]` of party
p holds the canonical connection between p and q with hello id k (so the id
and the peer are right, and both ends index it by the same k); an entry at the
accepting end implies the same connection at the dialling end; and no dialled
connection is lost (it is pending at the listener, held by the acceptor's
accept goroutine or stored at the acceptor; connection 0 to the leader may
still await its hello). -/
theorem C19_mesh_safe (c : Cfg) (hc : c.Ok) (s : State) (h : Reach c s) :
    s.bad = false ∧
    (∀ p q k cn, s.conn p q k = some cn → cn = wire p q k ∧ p ≠ q ∧ p < c.n ∧ q < c.n ∧ k < c.m) ∧
    (∀ p q k cn, s.conn p q k = some cn → cn.dst = p → s.conn q p k = some cn) ∧
    (∀ p q k cn, s.conn p q k = some cn → cn.src = p →
      s.pend q p k = true ∨ s.conn q p k = some cn ∨ (q = 0 ∧ k = 0 ∧ s.phase p = .joined) ∨
        s.infl q = .taken p k) := by
  have hI := reach_inv c hc s h
  refine ⟨hI.notBad, hI.slot, ?_, ?_⟩
  · intro p q k cn hcn hdst
    obtain ⟨hw, hpq, hp, hq, hk⟩ := hI.slot p q k cn hcn
    have hd : Dials q p := by
      subst hw
      unfold wire at hdst
      by_cases hq0 : q = 0
      · simp [hq0] at hdst; omega
      · by_cases hp0 : p = 0
        · exact ⟨by omega, Or.inl hp0⟩
        · by_cases hlt : p < q
          · simp [hq0, hp0, hlt] at hdst; omega
          · exact ⟨by omega, Or.inr (by omega)⟩
    have := (hI.accSlot q p k hd (by simp [hcn])).1
    cases hcn' : s.conn q p k with
    | none => simp [hcn'] at this
    | some v =>
      rw [(hI.slot q p k v hcn').1, hw, wire_comm p q k hpq]
  · intro p q k cn hcn hsrc
    obtain ⟨hw, hpq, hp, hq, hk⟩ := hI.slot p q k cn hcn
    have hd : Dials p q := by
      subst hw
      unfold wire at hsrc
      by_cases hq0 : q = 0
      · exact ⟨by omega, Or.inl hq0⟩
      · by_cases hp0 : p = 0
        · simp [hq0, hp0] at hsrc
        · by_cases hlt : p < q
          · exact ⟨by omega, Or.inr hlt⟩
          · simp [hq0, hp0, hlt] at hsrc; omega
    rcases hI.dialSlot p q k hd (by simp [hcn]) with e | e | e | e
    · exact Or.inl e
    · right; left
      cases hcn' : s.conn q p k with
      | none => simp [hcn'] at e
      | some v => rw [(hI.slot q p k v hcn').1, hw, wire_comm p q k hpq]
    · exact Or.inr (Or.inr (Or.inl e))
    · exact Or.inr (Or.inr (Or.inr e))

example : (⟨3, 2⟩ : Cfg).Ok := ⟨by decide, by decide, by decide⟩

/-- The connection id fits the one byte it travels in exactly for the ids `dial`
admits: for `k ≤ 0xff` the acceptor decodes `k`; id 256 would be decoded as 0
(cross-wired), and `dial` takes its error path for every id above 0xff. -/
theorem C19_conn_id_one_byte :
    (∀ k, k ≤ 0xff → helloId k = k) ∧ helloId 256 = 0 ∧
    (∀ (c : Cfg) (s : State) (i k j : Nat) (rest : List Nat), s.phase i = .run k (j :: rest) → 0xff < k →
      (step c s (.dial i)).map (·.bad) = some true) := by
  refine ⟨fun k hk => helloId_of_le k (by omega), by decide, ?_⟩
  intro c s i k j rest hph hk
  simp [step, hph, hk]

/-- No step from a reachable state takes an error path (the successor
state is again free of errors): in particular a `dial` is never issued on an
occupied slot and an accept never finds `need[k] = 0`. -/
theorem C19_no_error_step (c : Cfg) (hc : c.Ok) (s s' : State) (h : Reach c s) (e : Ev)
    (he : e.real = true) (hs : step c s e = some s') : s'.bad = false :=
  (reach_inv c hc s' (.step e h he hs)).notBad

/-- **mesh_progress**, part 1: deadlock freedom.  In every
reachable state in which some party's `Connect` has not returned some event is
enabled. -/
theorem C19_mesh_progress (c : Cfg) (hc : c.Ok) (s : State) (h : Reach c s)
    (hnd : ∃ p, p < c.n ∧ s.phase p ≠ .done) : ∃ e, e.real = true ∧ (step c s e).isSome :=
  progress c hc s (reach_inv c hc s h) hnd

/-- **mesh_progress**, part 2: every step strictly decreases the measure `mu`
(remaining goroutine steps + three per remaining accept), ... -/
theorem C19_measure_decreases (c : Cfg) (hc : c.Ok) (s s' : State) (h : Reach c s) (e : Ev)
    (he : e.real = true) (hs : step c s e = some s') : mu c s' < mu c s :=
  measure_step c hc s s' (reach_inv c hc s h) e he hs

/-- ... hence every execution is finite: a run of events of the code from the
initial state has at most `mu c (init c)` steps, whatever the schedule (no
fairness assumption is needed: there are no stuttering steps).  With part 1:
every maximal execution ends with every `Connect` returned. -/
theorem C19_terminates (c : Cfg) (hc : c.Ok) (es : List Ev) (hat : ∀ e ∈ es, e.real = true)
    (s : State) (hr : run c (init c) es = some s) : es.length + mu c s ≤ mu c (init c) := by
  suffices H : ∀ (es : List Ev) (s0 : State), Reach c s0 → (∀ e ∈ es, e.real = true) →
      run c s0 es = some s → es.length + mu c s ≤ mu c s0 from H es (init c) .init hat hr
  intro es
  induction es with
  | nil => intro s0 _ _ hr; simp [run] at hr; subst hr; simp
  | cons e es ih =>
    intro s0 h0 hat hr
    simp only [run] at hr
    cases h1 : step c s0 e with
    | none => simp [h1] at hr
    | some s1 =>
      simp only [h1, Option.bind_some] at hr
      have he := hat e (by simp)
      have := ih s1 (.step e h0 he h1) (fun e' he' => hat e' (by simp [he'])) hr
      have := C19_measure_decreases c hc s0 s1 h0 e he h1
      simp only [List.length_cons]
      omega

/-- **mesh_final**.  When `Connect` has returned at party p
(in particular in the final state, for every p) its table holds, for every
other party q and every k < m, exactly the canonical connection between p and
q with id k, and nothing else.  If q's `Connect` has returned as well, q holds
the same connection under the same k: the k-th connection at one end is the
k-th at the other. -/
theorem C19_mesh_final (c : Cfg) (hc : c.Ok) (s : State) (h : Reach c s) (p : Nat)
    (hp : p < c.n) (hd : s.phase p = .done) :
    (∀ q k, q < c.n → q ≠ p → k < c.m → s.conn p q k = some (wire p q k)) ∧
    (∀ q k, (q = p ∨ c.n ≤ q ∨ c.m ≤ k) → s.conn p q k = none) ∧
    (∀ q k, q < c.n → q ≠ p → k < c.m → s.phase q = .done → s.conn q p k = s.conn p q k) := by
  have hI := reach_inv c hc s h
  refine ⟨fun q k hq hqp hk => done_table c hc s hI p hp hd q k hq hqp hk, ?_, ?_⟩
  · intro q k hor
    cases hcn : s.conn p q k with
    | none => rfl
    | some v =>
      have := hI.slot p q k v hcn
      omega
  · intro q k hq hqp hk hqd
    rw [done_table c hc s hI p hp hd q k hq hqp hk,
      done_table c hc s hI q hq hqd p k hp (Ne.symm hqp) hk, wire_comm p q k (Ne.symm hqp)]

/-- In the final state nothing is in flight: no pending connection (none lost),
no unread info, no half-done accept. -/
theorem C19_final_quiet (c : Cfg) (hc : c.Ok) (s : State) (h : Reach c s)
    (hall : ∀ p, p < c.n → s.phase p = .done) :
    (∀ j i k, s.pend j i k = false) ∧ (∀ p, p < c.n → s.mail p = none) ∧ (∀ p, s.infl p = Infl.none) :=
  done_quiet c hc s (reach_inv c hc s h) hall

/-! ### non-vacuity: the system does reach the final state -/

theorem reach_of_run (c : Cfg) (es : List Ev) (hat : ∀ e ∈ es, e.real = true) (s0 s : State)
    (h0 : Reach c s0) (hr : run c s0 es = some s) : Reach c s := by
  induction es generalizing s0 with
  | nil => simp [run] at hr; subst hr; exact h0
  | cons e es ih =>
    simp only [run] at hr
    cases h1 : step c s0 e with
    | none => simp [h1] at hr
    | some s1 =>
      simp only [h1, Option.bind_some] at hr
      exact ih (fun e' he' => hat e' (by simp [he'])) s1 (.step e h0 (hat e (by simp)) h1) hr

/-- A complete run for 3 parties, 2 connections per pair, with other
goroutines acting between the critical sections of `acceptConn`. -/
def demoRun : List Ev :=
  [.join 2, .lconnect, .join 1, .hello 1, .accTake 0 1 0, .hello 2, .accStore 0, .accDec 0,
   .accTake 0 2 0, .accStore 0, .accDec 0, .waitDone 0, .info, .info,
   .recvInfo 2, .recvInfo 1, .dial 1, .waitDone 1, .dial 1, .accTake 2 1 0, .accStore 2, .dial 1, .accDec 2,
   .waitDone 2, .dial 2, .accTake 0 2 1, .accStore 0, .accDec 0, .accTake 0 1 1, .accTake 2 1 1, .accStore 0,
   .accStore 2, .accDec 0, .waitDone 0, .accDec 2, .waitDone 2, .waitDone 1]

example : demoRun.all Ev.real = true ∧ ((run ⟨3, 2⟩ (init ⟨3, 2⟩) demoRun).map fun s =>
    allDone ⟨3, 2⟩ s && quiet ⟨3, 2⟩ s && (List.range 3).all (tableComplete ⟨3, 2⟩ s)) = some true := by
  decide +kernel

/-- ... so the hypotheses of the theorems above are satisfiable with parties
whose `Connect` has returned. -/
example : ∃ s, Reach ⟨3, 2⟩ s ∧ s.phase 0 = .done ∧ s.phase 2 = .done := by
  cases hrun : run ⟨3, 2⟩ (init ⟨3, 2⟩) demoRun with
  | none =>
    have : (run ⟨3, 2⟩ (init ⟨3, 2⟩) demoRun).isSome = true := by decide +kernel
    simp [hrun] at this
  | some s =>
    refine ⟨s, reach_of_run _ demoRun (by decide) _ s .init hrun, ?_, ?_⟩
    · have : ((run ⟨3, 2⟩ (init ⟨3, 2⟩) demoRun).map fun s => s.phase 0) = some .done := by decide +kernel
      simpa [hrun] using this
    · have : ((run ⟨3, 2⟩ (init ⟨3, 2⟩) demoRun).map fun s => s.phase 2) = some .done := by decide +kernel
      simpa [hrun] using this

/-! ### what the repair removed: the ordering before b60eeb5 (decrement and
signal first, store afterwards) violates all three statements -/

theorem reachOld_of_run (c : Cfg) (es : List Ev) (hat : ∀ e ∈ es, e.old = true) (s0 s : State)
    (h0 : ReachOld c s0) (hr : run c s0 es = some s) : ReachOld c s := by
  induction es generalizing s0 with
  | nil => simp [run] at hr; subst hr; exact h0
  | cons e es ih =>
    simp only [run] at hr
    cases h1 : step c s0 e with
    | none => simp [h1] at hr
    | some s1 =>
      simp only [h1, Option.bind_some] at hr
      exact ih (fun e' he' => hat e' (by simp [he'])) s1 (.step e h0 (hat e (by simp)) h1) hr

/-- n = 2, m = 1, old ordering: the leader's wait ends between `need[0]--` and
the store of peer 1, so its peer list is still `[0]`, nobody is sent the
network info and the leader's `Connect` returns; peer 1 waits forever. -/
def oldDeadlockRun : List Ev :=
  [.join 1, .hello 1, .lconnect, .oldDec 0 1 0, .waitDone 0, .oldStore 0]

/-- Old ordering: a reachable state in which peer 1's `Connect` has not
returned and no event is enabled (mesh_progress was false). -/
theorem C19_old_order_deadlock :
    ∃ s, ReachOld ⟨2, 1⟩ s ∧ s.bad = false ∧ s.phase 0 = .done ∧ s.phase 1 = .hello ∧
      enabled ⟨2, 1⟩ s Ev.old = [] := by
  cases hrun : run ⟨2, 1⟩ (init ⟨2, 1⟩) oldDeadlockRun with
  | none =>
    have : (run ⟨2, 1⟩ (init ⟨2, 1⟩) oldDeadlockRun).isSome = true := by decide +kernel
    simp [hrun] at this
  | some s =>
    refine ⟨s, reachOld_of_run _ oldDeadlockRun (by decide) _ s .init hrun, ?_, ?_, ?_, ?_⟩
    · have : ((run ⟨2, 1⟩ (init ⟨2, 1⟩) oldDeadlockRun).map fun s => s.bad) = some false := by decide +kernel
      simpa [hrun] using this
    · have : ((run ⟨2, 1⟩ (init ⟨2, 1⟩) oldDeadlockRun).map fun s => s.phase 0) = some .done := by decide +kernel
      simpa [hrun] using this
    · have : ((run ⟨2, 1⟩ (init ⟨2, 1⟩) oldDeadlockRun).map fun s => s.phase 1) = some .hello := by decide +kernel
      simpa [hrun] using this
    · have : ((run ⟨2, 1⟩ (init ⟨2, 1⟩) oldDeadlockRun).map fun s => enabled ⟨2, 1⟩ s Ev.old) = some [] := by
        decide +kernel
      simpa [hrun] using this

/-- The same schedule is impossible for the code as it is: after the check
(`accTake`) the leader's wait cannot end, `need[0]` is still 1. -/
theorem C19_fix_blocks_early_wait :
    run ⟨2, 1⟩ (init ⟨2, 1⟩) [.join 1, .hello 1, .lconnect, .accTake 0 1 0, .waitDone 0] = none ∧
    run ⟨2, 1⟩ (init ⟨2, 1⟩) [.join 1, .hello 1, .lconnect, .accTake 0 1 0, .accStore 0, .waitDone 0] = none := by
  constructor <;> decide +kernel

/-- n = 2, m = 2, old ordering: the leader's last wait ends between `need[1]--` and the store. -/
def oldEarlyReturnRun : List Ev :=
  [.join 1, .hello 1, .lconnect, .oldDec 0 1 0, .oldStore 0, .waitDone 0, .info, .recvInfo 1, .waitDone 1,
   .dial 1, .oldDec 0 1 1, .waitDone 0]

/-- Old ordering: the leader's `Connect` has returned nil (no error anywhere)
while `Peers[1].Conns[1]` is not set (mesh_final was false). -/
theorem C19_old_order_return_incomplete :
    ((run ⟨2, 2⟩ (init ⟨2, 2⟩) oldEarlyReturnRun).map fun s =>
      (oldEarlyReturnRun.all Ev.old, s.bad, s.phase 0, s.conn 0 1 1)) = some (true, false, .done, none) := by
  decide +kernel

/-- n = 4, m = 1, old ordering: the leader sends peer 2 a list made while peer 1
is not yet stored; peer 2 computes `NumParties = 3` and rejects peer 3. -/
def oldBadListRun : List Ev :=
  [.join 1, .join 2, .join 3, .hello 1, .hello 2, .hello 3, .lconnect, .oldDec 0 2 0, .oldStore 0,
   .oldDec 0 3 0, .oldStore 0, .oldDec 0 1 0, .waitDone 0, .info, .recvInfo 2]

/-- Old ordering: an error path ("invalid peer ID") was reachable (mesh_safe was false). -/
theorem C19_old_order_error :
    ((run ⟨4, 1⟩ (init ⟨4, 1⟩) oldBadListRun).map fun s => (oldBadListRun.all Ev.old, s.bad)) =
      some (true, true) := by
  decide +kernel

/-! ### data phase overlapping the setup phase: data sent on a connection at
any time after the sender's own `Connect` returned arrives on the matching
connection of the peer -/

/-- **Conservation**, in every state reachable with payload events interleaved
in any way with the setup events (every schedule, every split of the byte
stream into socket reads, including the read that fetches the hello): what p
has received from `Peers[q].Conns[k]`, followed by what sits in the `ReadBuf` of
that connection, followed by what is still in its socket, is exactly what q has
sent on ITS `Peers[p].Conns[k]`.  Nothing is lost, duplicated, reordered or
delivered to another slot. -/
theorem C19_early_data_conserved (c : Cfg) (hc : c.Ok) (s : DState) (h : DReach c s) (p q k : Nat)
    (hpq : p ≠ q) :
    s.inp p q k ++ (s.buf (wire p q k) p ++ s.sock (wire p q k) p) = s.out q p k :=
  dreach_conserved c hc s h p q k hpq

/-- **early data is delivered**.  For every reachable state of the overlapped
system and every pair p ≠ q, k < m: (1) the sequence p has received on its k-th
connection to q is a prefix of what q has sent on its k-th connection to p; (2)
once nothing is under way the two are equal; (3) q may send as soon as its own
`Connect` has returned - whatever p is doing, in particular before p has
accepted the connection; (4) once p's `Connect` has returned a receive on that
connection is enabled and yields everything q has sent so far, including what
was sent before p accepted. -/
theorem C19_early_data_delivered (c : Cfg) (hc : c.Ok) (s : DState) (h : DReach c s) (p q k : Nat)
    (hp : p < c.n) (hq : q < c.n) (hpq : p ≠ q) (hk : k < c.m) :
    s.inp p q k <+: s.out q p k ∧
    (drained s p q k = true → s.inp p q k = s.out q p k) ∧
    (s.base.phase q = .done → ∀ bs, ∃ s', dstep c s (.send q p k bs) = some s' ∧
      s'.out q p k = s.out q p k ++ bs) ∧
    (s.base.phase p = .done → ∃ s',
      dstep c s (.recv p q k (s.sock (wire p q k) p).length (s.out q p k).length) = some s' ∧
      s'.inp p q k = s.out q p k ∧ drained s' p q k = true) := by
  have hI := reach_inv c hc s.base (dreach_base c s h)
  have hJ := dreach_conserved c hc s h p q k hpq
  refine ⟨⟨_, hJ⟩, ?_, ?_, ?_⟩
  · intro hd
    simp only [drained, Bool.and_eq_true, beq_iff_eq] at hd
    rw [hd.1, hd.2] at hJ
    simpa using hJ
  · intro hqd bs
    have ht := done_table c hc s.base hI q hq hqd p k hp hpq hk
    simp [dstep, hqd, ht, updS_apply]
  · intro hpd
    have ht := done_table c hc s.base hI p hp hpd q k hq (Ne.symm hpq) hk
    have hlen : (s.buf (wire p q k) p ++ s.sock (wire p q k) p).length ≤ (s.out q p k).length := by
      rw [← hJ]; simp
    simp only [dstep, hpd, if_true, ht, List.take_length, List.drop_length]
    refine ⟨_, rfl, ?_, ?_⟩
    · simp only [updS_apply, and_self, if_true]
      rw [List.take_of_length_le hlen, hJ]
    · simp only [drained, updC_apply, and_self, if_true, Bool.and_eq_true, beq_iff_eq]
      exact ⟨trivial, List.drop_of_length_le hlen⟩

theorem dreach_of_run (c : Cfg) (es : List DEv) (hat : ∀ e ∈ es, e.real = true) (s0 s : DState)
    (h0 : DReach c s0) (hr : drun c s0 es = some s) : DReach c s := by
  induction es generalizing s0 with
  | nil => simp [drun] at hr; subst hr; exact h0
  | cons e es ih =>
    simp only [drun] at hr
    cases h1 : dstep c s0 e with
    | none => simp [h1] at hr
    | some s1 =>
      simp only [h1, Option.bind_some] at hr
      exact ih (fun e' he' => hat e' (by simp [he'])) s1 (.step e h0 (hat e (by simp)) h1) hr

theorem dreachDrop_of_run (c : Cfg) (es : List DEv) (hat : ∀ e ∈ es, e.dropping = true) (s0 s : DState)
    (h0 : DReachDrop c s0) (hr : drun c s0 es = some s) : DReachDrop c s := by
  induction es generalizing s0 with
  | nil => simp [drun] at hr; subst hr; exact h0
  | cons e es ih =>
    simp only [drun] at hr
    cases h1 : dstep c s0 e with
    | none => simp [h1] at hr
    | some s1 =>
      simp only [h1, Option.bind_some] at hr
      exact ih (fun e' he' => hat e' (by simp [he'])) s1 (.step e h0 (hat e (by simp)) h1) hr

/-- n = 3, m = 1: party 1 has nothing to accept, so its `Connect` returns as
soon as it has dialled party 2; it sends three bytes at once.  Party 2 has not
accepted the connection yet: the bytes wait in the socket behind the hello. -/
def earlySetup : List DEv :=
  [.ev (.join 2) 0, .ev .lconnect 0, .ev (.join 1) 0, .ev (.hello 1) 0, .ev (.accTake 0 1 0) 0,
   .ev (.hello 2) 0, .ev (.accStore 0) 0, .ev (.accDec 0) 0, .ev (.accTake 0 2 0) 0, .ev (.accStore 0) 0,
   .ev (.accDec 0) 0, .ev (.waitDone 0) 0, .ev .info 0, .ev .info 0, .ev (.recvInfo 2) 0,
   .ev (.recvInfo 1) 0, .ev (.dial 1) 0, .ev (.waitDone 1) 0, .send 1 2 0 [7, 8, 9]]

/-- ... then party 2 accepts (`acc`: the read of the hello takes the three
bytes along), stores, returns from `Connect` and receives. -/
def earlyRest (acc : DEv) : List DEv :=
  [acc, .ev (.accStore 2) 0, .ev (.accDec 2) 0, .ev (.waitDone 2) 0, .recv 2 1 0 10 10]

/-- Non-vacuity of the two theorems above: a reachable state of the overlapped
system in which party 1 has returned and sent while party 2 has not accepted
yet (the hypotheses `phase q = done`, `phase p ≠ done` and a non-empty socket
are satisfiable together) ... -/
example : ∃ s, DReach ⟨3, 1⟩ s ∧ s.base.phase 1 = .done ∧ s.base.phase 2 = .run 0 [] ∧
    s.base.conn 2 1 0 = none ∧ s.sock (wire 2 1 0) 2 = [7, 8, 9] ∧ s.inp 2 1 0 = [] := by
  cases hrun : drun ⟨3, 1⟩ (dinit ⟨3, 1⟩) earlySetup with
  | none =>
    have : (drun ⟨3, 1⟩ (dinit ⟨3, 1⟩) earlySetup).isSome = true := by decide +kernel
    simp [hrun] at this
  | some s =>
    have : ((drun ⟨3, 1⟩ (dinit ⟨3, 1⟩) earlySetup).map fun s =>
        (s.base.phase 1, s.base.phase 2, s.base.conn 2 1 0, s.sock (wire 2 1 0) 2, s.inp 2 1 0)) =
        some (.done, .run 0 [], none, [7, 8, 9], []) := by decide +kernel
    simp only [hrun, Option.map_some, Option.some.injEq, Prod.mk.injEq] at this
    exact ⟨s, dreach_of_run _ earlySetup (by decide) _ s .init hrun, this⟩

/-- ... and with the code as it is the schedule ends with the mesh complete
and the three bytes received on party 2's connection 0 to party 1. -/
example : (earlySetup ++ earlyRest (.ev (.accTake 2 1 0) 3)).all DEv.real = true ∧
    ((drun ⟨3, 1⟩ (dinit ⟨3, 1⟩) (earlySetup ++ earlyRest (.ev (.accTake 2 1 0) 3))).map fun s =>
      (s.base.bad, allDone ⟨3, 1⟩ s.base, s.out 1 2 0, s.inp 2 1 0, drained s 2 1 0)) =
      some (false, true, [7, 8, 9], [7, 8, 9], true) := by
  decide +kernel

/-- The same schedule with every accept reading the hello through a temporary reader. -/
def dropRun : List DEv :=
  (earlySetup ++ earlyRest (.ev (.accTake 2 1 0) 3)).map fun
    | .ev (.accTake j i k) r => .evDrop (.accTake j i k) r
    | e => e

/-- **Negation witness** for a variant of `acceptConn` that reads the hello
through a reader that is not the stored connection (a temporary `Conn` /
buffered reader on the raw `net.Conn`): a reachable state in which the mesh has
formed completely - no error, every `Connect` returned, every table complete,
nothing in flight, the need counters at 0 - party 1 has sent `[7, 8, 9]` on its
connection 0 to party 2, party 2 has received NOTHING on its connection 0 to
party 1 and nothing is under way any more: the data is lost for good
(`C19_early_data_delivered` (2) is false there). -/
theorem C19_hello_reader_drops_early_data :
    ∃ s, DReachDrop ⟨3, 1⟩ s ∧ s.base.bad = false ∧ allDone ⟨3, 1⟩ s.base = true ∧
      quiet ⟨3, 1⟩ s.base = true ∧ (List.range 3).all (tableComplete ⟨3, 1⟩ s.base) = true ∧
      s.base.need 2 0 = 0 ∧ s.out 1 2 0 = [7, 8, 9] ∧ s.inp 2 1 0 = [] ∧ drained s 2 1 0 = true := by
  cases hrun : drun ⟨3, 1⟩ (dinit ⟨3, 1⟩) dropRun with
  | none =>
    have : (drun ⟨3, 1⟩ (dinit ⟨3, 1⟩) dropRun).isSome = true := by decide +kernel
    simp [hrun] at this
  | some s =>
    have h1 : ((drun ⟨3, 1⟩ (dinit ⟨3, 1⟩) dropRun).map fun s =>
        (s.base.bad, allDone ⟨3, 1⟩ s.base, quiet ⟨3, 1⟩ s.base,
          (List.range 3).all (tableComplete ⟨3, 1⟩ s.base))) = some (false, true, true, true) := by
      decide +kernel
    have h2 : ((drun ⟨3, 1⟩ (dinit ⟨3, 1⟩) dropRun).map fun s =>
        (s.base.need 2 0, s.out 1 2 0, s.inp 2 1 0, drained s 2 1 0)) = some (0, [7, 8, 9], [], true) := by
      decide +kernel
    simp only [hrun, Option.map_some, Option.some.injEq, Prod.mk.injEq] at h1 h2
    obtain ⟨a1, a2, a3, a4⟩ := h1
    exact ⟨s, dreachDrop_of_run _ dropRun (by decide) _ s .init hrun, a1, a2, a3, a4, h2⟩

/-- The hypothesis of the witness is satisfiable: `dropRun` is a run of the variant. -/
example : dropRun.all DEv.dropping = true ∧ (drun ⟨3, 1⟩ (dinit ⟨3, 1⟩) dropRun).isSome = true := by
  decide +kernel

end Mpc

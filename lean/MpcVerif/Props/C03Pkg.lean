/-
Property C03 — package-level declarations (`var`, `const`, named types of
package `main`) and their shadowing by parameters, named results and locals.

The quantifier of C03 names shadowing; the program class judged by the
translation validation (checks/C03.py, harness/cmd/c03/gen.go) includes
package-level names used directly in `main` and in callees, shadowed by
parameters and function-level locals of a different or the same type, read and
assigned before / inside / after data-dependent branches and unrolled loops.
The oracle for that class is `Mpcl.runPkgRaw` (`Model/MpclPkg.lean`); the
theorems below say what it means:

* `C03_pkg_conservative`   without declarations it IS the old oracle `runRaw`;
* `C03_pkg_prelude_env`    every function body of every package runs in the
                           scope "package-level names with their start values,
                           underneath the parameters" (the elaboration's prelude
                           builds exactly `globalScope`);
* `C03_pkg_global_value`, `C03_pkg_param_shadows`
                           in that scope a visible package-level name has its
                           declared start value, a parameter name keeps the
                           argument;
* `C03_pkg_lookup_order`   a name is looked up in the local scopes first and in
                           the package-level scope last;
* `C03_pkg_local_shadows`  a local declared later is what reads and assignments
                           of the name see; the package-level binding below is
                           untouched (so no branch merge may ever select it);
* `C03_pkg_shipped_vectors` the `@Test` vectors of testsuite/lang/var3.mpcl and
                           the model's values on a shadow-then-branch program;
* `C03_pkg_ok_class`       `Pkg.ok` accepts that program and rejects a callee
                           assigning a package-level variable, an assignment to
                           a constant, and a callee reading what `main` assigns.
-/
import MpcVerif.Proofs.Mpcl
import MpcVerif.Proofs.MpclPkg

namespace Mpc
open Mpcl

/-- No package-level declarations: the package means what its function list
meant (conservative extension; every earlier theorem about `run` applies). -/
theorem C03_pkg_conservative (P : Prog) (fuel main : Nat) (args : List Nat) (vs : List Val) :
    runPkgRaw ⟨[], P⟩ fuel main args = runRaw P fuel main args ∧
    runPkg ⟨[], P⟩ fuel main vs = run P fuel main vs := by
  simp [runPkgRaw, runPkg, elab_nil]

example : runPkgRaw ⟨[], [⟨[("a", .uint 8)], 1, [.ret [.bin .add (.var "a") (.var "a")]]⟩]⟩ 9 0 [200] =
    some [(144, 8)] := by decide +kernel

/-- Every function body of a package with well-formed declarations runs in the
scope `globalScope`: the visible package-level names bound to their start
values, then the parameters.  (Left: what `runPkg` executes, from the parameter
scope `sc`; the prelude consumes one unit of fuel per visible declaration.) -/
theorem C03_pkg_prelude_env (P : Prog) (gs : List GDecl) (fn : Func) (sc : Scope) (f : Nat)
    (hok : ∀ g ∈ gs, g.ok = true) :
    ∃ gsc, globalScope (visibleGlobals gs fn.params) sc = some gsc ∧
      execB P (f + 2 + (visibleGlobals gs fn.params).length) (elabFunc gs fn).body [sc] =
        execB P (f + 2) fn.body [gsc] := by
  have hv : ∀ g ∈ visibleGlobals gs fn.params, g.ok = true := by
    intro g hg
    exact hok g (List.mem_filter.1 hg).1
  simpa [elabFunc, prelude] using exec_prelude P fn.body f (visibleGlobals gs fn.params) sc hv

example : (∀ g ∈ [(⟨"base", .uint 32, some 42, false⟩ : GDecl)], g.ok = true) := by decide

/-- A name that no visible declaration declares (in particular: a parameter
name, `visibleGlobals` filters those) keeps its binding. -/
theorem C03_pkg_param_shadows (gs : List GDecl) (ps : List (String × Ty)) (sc gsc : Scope) (x : String)
    (hx : (ps.map (·.1)).contains x = true)
    (h : globalScope (visibleGlobals gs ps) sc = some gsc) :
    Scope.lookup gsc x = Scope.lookup sc x := by
  apply globalScope_lookup_other _ _ _ _ h
  intro g hg e
  have h2 := (List.mem_filter.1 hg).2
  subst e
  rw [hx] at h2
  exact absurd h2 (by decide)

example : globalScope (visibleGlobals [⟨"a", .uint 8, some 7, false⟩] [("a", .int 4)]) [("a", .num true 4 3)] =
    some [("a", .num true 4 3)] := rfl

/-- A visible package-level name is bound to its declared start value. -/
theorem C03_pkg_global_value (gs : List GDecl) (sc gsc : Scope) (g : GDecl)
    (hd : distinctNames (gs.map (·.x)) = true) (hg : g ∈ gs)
    (h : globalScope gs sc = some gsc) :
    Scope.lookup gsc g.x = g.val :=
  globalScope_lookup_declared gs sc gsc g hd hg h

example : globalScope [⟨"k", .int 8, some 5, true⟩, ⟨"z", .arr 2 (.uint 4), none, false⟩] [("a", .bool true)] =
    some [("z", .agg [.num false 4 0, .num false 4 0]), ("k", .num true 8 5), ("a", .bool true)] := rfl

/-- Lookup order: the local scopes (innermost first) are consulted before the
package-level scope `g`. -/
theorem C03_pkg_lookup_order (locals : Env) (g : Scope) (x : String) :
    Env.lookup (locals ++ [g]) x = match Env.lookup locals x with
      | some v => some v
      | none => Scope.lookup g x := by
  rw [env_lookup_append]
  cases Env.lookup locals x with
  | some v => rfl
  | none =>
    simp only [Env.lookup]
    cases Scope.lookup g x <;> rfl

example : Env.lookup ([[("v", .bool true)]] ++ [[("v", .bool false), ("w", .bool false)]]) "w" = some (.bool false) ∧
    Env.lookup ([[("v", .bool true)]] ++ [[("v", .bool false), ("w", .bool false)]]) "v" = some (.bool true) :=
  ⟨rfl, rfl⟩

/-- A local `var x` declared after (= in front of) a package-level `x`: reads
see the local, an assignment updates the local and nothing else - in
particular the package-level binding below keeps its value, whatever
statements (branches, loops) follow: no merge may select it. -/
theorem C03_pkg_local_shadows (env : Env) (x : String) (v v' : Val) :
    (env.declare x v).lookup x = some v ∧
    (env.declare x v).set x v' = some (env.declare x v') ∧
    ∀ y, y ≠ x → (env.declare x v).lookup y = env.lookup y :=
  ⟨lookup_declare_same env x v, set_declare_same env x v v', fun y h => lookup_declare_other env x y v h⟩

/-! ### Shipped vectors and a shadow-then-branch program -/

/-- testsuite/lang/var3.mpcl: `var base uint32 = 42; main(a, b uint32) = base + a + b`. -/
def pVar3 : Pkg :=
  ⟨[⟨"base", .uint 32, some 42, false⟩],
   [⟨[("a", .uint 32), ("b", .uint 32)], 1, [.ret [.bin .add (.bin .add (.var "base") (.var "a")) (.var "b")]]⟩]⟩

/-- A package-level `lim` used by the callee, shadowed in `main` by a local of
the same name; an `if` that does not touch it follows; the local is read after
the `if`:

    var lim int8 = 100
    const step = 3
    func clamp(v int8) int8 { if v > lim { return lim }; return v }
    func main(a, b int8) (int8, int8, int8) {
        t := lim                 // the package-level one
        var lim int8 = a + step  // shadows
        r := b
        if a > b { r = a; lim = lim + 1 }
        return lim + r, clamp(b), t
    }
-/
def pShadow : Pkg :=
  ⟨[⟨"lim", .int 8, some 100, false⟩, ⟨"step", .int 8, some 3, true⟩],
   [⟨[("v", .int 8)], 1,
      [.ifte (.bin .gt (.var "v") (.var "lim")) [.ret [.var "lim"]] [], .ret [.var "v"]]⟩,
    ⟨[("a", .int 8), ("b", .int 8)], 3,
      [.define ["t"] (.var "lim"),
       .decl "lim" (.int 8) (some (.bin .add (.var "a") (.var "step"))),
       .define ["r"] (.var "b"),
       .ifte (.bin .gt (.var "a") (.var "b"))
         [.assign [⟨"r", []⟩] (.var "a"), .assign [⟨"lim", []⟩] (.bin .add (.var "lim") (.lit (.int 8) 1))] [],
       .ret [.bin .add (.var "lim") (.var "r"), .call 0 [.var "b"], .var "t"]]⟩]⟩

theorem C03_pkg_shipped_vectors :
    runPkgRaw pVar3 9 0 [0, 0] = some [(42, 32)] ∧
    runPkgRaw pVar3 9 0 [1, 2] = some [(45, 32)] ∧
    -- a = 7 > b = 3: lim = 7 + 3 + 1 = 11, r = 7; clamp(3) = 3; t = 100
    runPkgRaw pShadow 20 1 [7, 3] = some [(18, 8), (3, 8), (100, 8)] ∧
    -- a = 2 <= b = 5: lim = 5, r = 5
    runPkgRaw pShadow 20 1 [2, 5] = some [(10, 8), (5, 8), (100, 8)] ∧
    -- clamp reads the package-level lim: clamp(120) = 100
    runPkgRaw pShadow 20 1 [1, 120] = some [(124, 8), (100, 8), (100, 8)] := by
  decide +kernel

example : pShadow.ok 1 = true ∧ pVar3.ok 0 = true := by decide +kernel

/-- The class `Pkg.ok` (on which per-activation copies of the package-level
variables are Go's shared store): accepted - `main` assigning a package-level
variable no callee refers to; rejected - a callee assigning one, an assignment
to a constant, a callee referring to a variable `main` assigns.  A local of the
same name does not count (the analysis follows the scoping). -/
theorem C03_pkg_ok_class :
    let g : List GDecl := [⟨"g", .uint 8, some 1, false⟩, ⟨"k", .uint 8, some 2, true⟩]
    let ret : Stmt := .ret [.var "a"]
    let setg : Stmt := .assign [⟨"g", []⟩] (.var "a")
    -- main assigns g, the callee does not mention it
    Pkg.ok ⟨g, [⟨[("a", .uint 8)], 1, [ret]⟩, ⟨[("a", .uint 8)], 1, [setg, .ret [.call 0 [.var "g"]]]⟩]⟩ 1 = true ∧
    -- the callee assigns its own local g
    Pkg.ok ⟨g, [⟨[("a", .uint 8)], 1, [.decl "g" (.uint 8) none, setg, ret]⟩,
                ⟨[("a", .uint 8)], 1, [setg, .ret [.call 0 [.var "g"]]]⟩]⟩ 1 = true ∧
    -- the callee assigns the package-level g
    Pkg.ok ⟨g, [⟨[("a", .uint 8)], 1, [setg, ret]⟩, ⟨[("a", .uint 8)], 1, [.ret [.call 0 [.var "a"]]]⟩]⟩ 1 = false ∧
    -- the callee reads the g that main assigns
    Pkg.ok ⟨g, [⟨[("a", .uint 8)], 1, [.ret [.var "g"]]⟩,
                ⟨[("a", .uint 8)], 1, [setg, .ret [.call 0 [.var "a"]]]⟩]⟩ 1 = false ∧
    -- assignment to a constant
    Pkg.ok ⟨g, [⟨[("a", .uint 8)], 1, [.assign [⟨"k", []⟩] (.var "a"), ret]⟩]⟩ 0 = false ∧
    -- a shadowing declaration inside a block ends with the block
    Pkg.ok ⟨g, [⟨[("a", .uint 8)], 1, [.ifte (.lit .bool 1) [.decl "g" (.uint 8) none] [], setg, ret]⟩,
                ⟨[("a", .uint 8)], 1, [.ret [.call 0 [.var "a"]]]⟩]⟩ 1 = false := by
  decide +kernel

end Mpc
